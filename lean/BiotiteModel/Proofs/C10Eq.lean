import BiotiteModel.Proofs.C10Pickle
/-! `__eq__` of tables as a refinement: equal iff same parameters (without the spacing!) and same content. -/
namespace BiotiteModel.C10

theorem bucket_eq_of_words (bucketed : Bool) (slot : Nat) (b1 b2 : Bucket)
    (h1 : b1.cap = b1.ents.length) (h2 : b2.cap = b2.ents.length)
    (g1 : bucketed = false → ∀ e ∈ b1.ents, e.kmer = slot)
    (g2 : bucketed = false → ∀ e ∈ b2.ents, e.kmer = slot)
    (hw : bucketWords bucketed b1 = bucketWords bucketed b2) : b1 = b2 := by
  have hflat : b1.ents.flatMap (entryWords bucketed) = b2.ents.flatMap (entryWords bucketed) := by
    have := congrArg (List.drop 2) hw
    simpa [bucketWords] using this
  have he : b1.ents = b2.ents := by
    rw [← parse_flat bucketed slot b1.ents g1, ← parse_flat bucketed slot b2.ents g2, hflat]
  cases b1; cases b2
  simp_all

theorem tableEq_iff (t o : Table) (ht : t.Full) (ho : o.Full) :
    tableEq t o = true ↔ t.bucketed = o.bucketed ∧ t.alph.n = o.alph.n ∧ t.alph.k = o.alph.k ∧
      t.nb = o.nb ∧ t.slots = o.slots := by
  unfold tableEq
  simp only [Bool.and_eq_true, beq_iff_eq, List.all_eq_true]
  constructor
  · rintro ⟨⟨⟨⟨⟨hb, hn⟩, hk⟩, hnb⟩, hlen⟩, hall⟩
    refine ⟨hb, hn, hk, hnb, ?_⟩
    apply List.ext_getElem?
    intro i
    cases h1 : t.slots[i]? with
    | none =>
      have : ¬ i < t.slots.length := fun hh => by simp [List.getElem?_eq_getElem hh] at h1
      have : ¬ i < o.slots.length := by omega
      simp [this]
    | some s1 =>
      have hi : i < o.slots.length := by
        have := (List.getElem?_eq_some_iff.1 h1).1; omega
      have h2 : o.slots[i]? = some o.slots[i] := List.getElem?_eq_getElem hi
      have hmem : (s1, o.slots[i]) ∈ t.slots.zip o.slots := by
        rw [List.mem_iff_getElem?]
        exact ⟨i, by rw [List.getElem?_zip_eq_some]; exact ⟨h1, h2⟩⟩
      have hs := hall _ hmem
      rw [h2]
      cases s1 with
      | none =>
        cases ho2 : o.slots[i] with
        | none => rfl
        | some b2 => simp [ho2, slotWordsEq] at hs
      | some b1 =>
        cases ho2 : o.slots[i] with
        | none => simp [ho2, slotWordsEq] at hs
        | some b2 =>
          simp only [ho2, slotWordsEq, beq_iff_eq] at hs
          obtain ⟨c1, k1⟩ := ht i b1 h1
          obtain ⟨c2, k2⟩ := ho i b2 (by rw [h2, ho2])
          have := bucket_eq_of_words t.bucketed i b1 b2 c1 c2 k1 (fun hf => k2 (by rw [← hb]; exact hf)) hs
          rw [this]
  · rintro ⟨hb, hn, hk, hnb, hs⟩
    refine ⟨⟨⟨⟨⟨hb, hn⟩, hk⟩, hnb⟩, by rw [hs]⟩, ?_⟩
    intro x hx
    rw [hs] at hx
    obtain ⟨a, b⟩ := x
    have : a = b := by
      rw [List.mem_iff_getElem?] at hx
      obtain ⟨i, hi⟩ := hx
      rw [List.getElem?_zip_eq_some] at hi
      obtain ⟨h1, h2⟩ := hi
      simp only at h1 h2
      rw [h1] at h2
      exact Option.some.inj h2
    subst this
    cases a <;> simp [slotWordsEq]

end BiotiteModel.C10

namespace BiotiteModel.C10

/-- `KmerAlphabet.__eq__` as written decides structural equality (base alphabet, k, spacing) -/
theorem kalphEq_iff (a b : KAlph) : kalphEq a b = true ↔ a = b := by
  obtain ⟨n1, k1, s1⟩ := a
  obtain ⟨n2, k2, s2⟩ := b
  unfold kalphEq
  simp only [KAlph.mk.injEq]
  by_cases hn : n1 = n2
  · by_cases hk : k1 = k2
    · cases s1 <;> cases s2 <;> simp [hn, hk]
    · simp [hn, hk]
  · simp [hn]

theorem matchSeqQ_ok (t : Table) (qa : QAlph) (seq : List Nat) (mask : Option (List Bool))
    (l : List (Nat × Nat × Nat)) (h : matchSeqQ t qa seq mask = .ok l) :
    qa.extendedBy t.alph.n = true ∧ matchSeq t seq mask = .ok l := by
  unfold matchSeqQ at h
  split at h
  · cases h
  · split at h
    · cases h
    · rename_i hx
      exact ⟨by simpa using hx, h⟩

end BiotiteModel.C10

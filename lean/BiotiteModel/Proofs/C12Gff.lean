import BiotiteModel.Model.C12Gff
/-!
# C12 — GFF3: proofs about `Model/C12Gff.lean`

1. percent-quoting: `unquoteB_quoteB`, `unquoteB_quote`, `quoteB_no_delim`, `quoteB_space`
2. `gff_splitC_intercalateC`
3. one line: `gff_line_roundtrip` (hypothesis `strip line = line`), `gff_createLine_strip`,
   `gff_line_roundtrip_full` (no whitespace hypothesis: the repaired writer quotes a final blank)
4. file object: `gff_append_inv`, `gff_insert_inv`, `gff_del_inv`, `gff_append_directive_inv`,
   `gff_set_inv`, `createLine_isEntryLine`
5. examples (`gffSafe0` = `_NOT_QUOTED`)
Facts about `showInt`/`readInt` are explicit hypotheses (proved in `Proofs/C12Loc.lean`).
-/
set_option linter.unusedVariables false
namespace BiotiteModel.C12

/-- the characters that delimit GFF3 columns / attributes / values, as byte codes: TAB LF CR ; = & , -/
def gffDelims : List Nat := [9, 10, 13, 59, 61, 38, 44]
/-- what the theorems need from `_NOT_QUOTED`: it contains neither '%' nor a delimiter -/
def SafeOk (safe : List Nat) : Prop := safe.contains 37 = false ∧ ∀ d ∈ gffDelims, safe.contains d = false
/-- a line that `_index_entries` counts as an entry: non-empty, not starting with ' ' or '#' -/
def IsEntryLine (l : Str) : Prop := ∃ c cs, l = c :: cs ∧ c ≠ ' ' ∧ c ≠ '#'

/-! ## 1. percent-quoting -/

theorem gff_charBytes_ascii : ∀ b < 128, charBytes (Char.ofNat b) = [b] := by decide

theorem gff_toNat_ascii : ∀ b < 128, (Char.ofNat b).toNat = b := by decide

theorem gff_hexVal_hexChar : ∀ d < 16, hexVal? (hexChar d) = some d := by decide

theorem gff_hexChar_props : ∀ d < 16, (hexChar d).toNat < 128 ∧ (hexChar d).toNat ∉ gffDelims ∧
    isSpace (hexChar d) = false := by decide


theorem gff_isSafe_lt (safe : List Nat) (b : Nat) (h : isSafe safe b = true) : b < 128 := by
  simp [isSafe] at h; exact h.1

theorem gff_isSafe_ne37 (safe : List Nat) (hs : safe.contains 37 = false) (b : Nat)
    (h : isSafe safe b = true) : b ≠ 37 := by
  intro e; subst e
  simp [isSafe, alwaysSafe] at h
  simp at hs
  exact hs h

theorem gff_ofNat_ne_percent (b : Nat) (hb : b < 128) (hne : b ≠ 37) : Char.ofNat b ≠ '%' := by
  intro e
  have := congrArg Char.toNat e
  rw [gff_toNat_ascii b hb] at this
  exact hne this

theorem unquoteB_single (c : Char) (hc : c ≠ '%') (t : Str) :
    unquoteB (c :: t) = charBytes c ++ unquoteB t := by
  match t with
  | [] => simp [unquoteB, plainBytes, hc]
  | [d] => simp [unquoteB, plainBytes, hc]
  | d :: e :: r => simp [unquoteB, hc]

theorem unquoteB_quoteByte (safe : List Nat) (hs : safe.contains 37 = false) (b : Nat) (hb : b < 256)
    (t : Str) : unquoteB (quoteByte safe b ++ t) = b :: unquoteB t := by
  unfold quoteByte
  by_cases h : isSafe safe b = true
  · have hlt := gff_isSafe_lt safe b h
    simp only [h, if_true, List.singleton_append]
    rw [unquoteB_single _ (gff_ofNat_ne_percent b hlt (gff_isSafe_ne37 safe hs b h)),
      gff_charBytes_ascii b hlt]
    rfl
  · simp only [h]
    have h1 : b / 16 < 16 := by omega
    have h2 : b % 16 < 16 := by omega
    simp [unquoteB, gff_hexVal_hexChar _ h1, gff_hexVal_hexChar _ h2]
    omega

theorem unquoteB_quoteB_append (safe : List Nat) (hs : safe.contains 37 = false) (bs : Bytes)
    (hb : ∀ b ∈ bs, b < 256) (t : Str) :
    unquoteB (quoteB safe bs ++ t) = bs ++ unquoteB t := by
  induction bs with
  | nil => simp [quoteB]
  | cons b bs ih =>
    have : quoteB safe (b :: bs) = quoteByte safe b ++ quoteB safe bs := by simp [quoteB]
    rw [this, List.append_assoc, unquoteB_quoteByte safe hs b (hb b (by simp)),
      ih (fun x hx => hb x (by simp [hx]))]
    rfl

theorem unquoteB_quoteB (safe : List Nat) (hs : safe.contains 37 = false) (bs : Bytes)
    (hb : ∀ b ∈ bs, b < 256) : unquoteB (quoteB safe bs) = bs := by
  have := unquoteB_quoteB_append safe hs bs hb []
  simpa [unquoteB] using this

theorem gff_utf8_lt (s : Str) : ∀ b ∈ utf8 s, b < 256 := by
  intro b hb
  simp only [utf8, List.mem_flatMap, List.mem_map] at hb
  obtain ⟨c, _, u, _, rfl⟩ := hb
  exact u.toNat_lt

theorem unquoteB_quote (safe : List Nat) (hs : safe.contains 37 = false) (s : Str) :
    unquoteB (quote safe s) = utf8 s :=
  unquoteB_quoteB safe hs (utf8 s) (gff_utf8_lt s)

theorem quoteByte_no_delim (safe : List Nat) (hs : SafeOk safe) (b : Nat) (hb : b < 256) :
    ∀ c ∈ quoteByte safe b, c.toNat < 128 ∧ c.toNat ∉ gffDelims := by
  intro c hc
  unfold quoteByte at hc
  by_cases h : isSafe safe b = true
  · have hlt := gff_isSafe_lt safe b h
    simp only [h, if_true, List.mem_singleton] at hc
    subst hc
    rw [gff_toNat_ascii b hlt]
    refine ⟨hlt, fun hd => ?_⟩
    have hsd := hs.2 b hd
    simp only [isSafe, hsd, Bool.or_false, Bool.and_eq_true] at h
    have h2 := h.2
    simp only [gffDelims, List.mem_cons, List.not_mem_nil, or_false] at hd
    rcases hd with rfl | rfl | rfl | rfl | rfl | rfl | rfl <;> simp [alwaysSafe] at h2
  · simp only [h] at hc
    have h1 : b / 16 < 16 := by omega
    have h2 : b % 16 < 16 := by omega
    simp only [Bool.false_eq_true, if_false, List.mem_cons, List.not_mem_nil, or_false] at hc
    rcases hc with rfl | rfl | rfl
    · decide
    · exact ⟨(gff_hexChar_props _ h1).1, (gff_hexChar_props _ h1).2.1⟩
    · exact ⟨(gff_hexChar_props _ h2).1, (gff_hexChar_props _ h2).2.1⟩

theorem quoteB_no_delim (safe : List Nat) (hs : SafeOk safe) (bs : Bytes) (hb : ∀ b ∈ bs, b < 256) :
    ∀ c ∈ quoteB safe bs, c.toNat < 128 ∧ c.toNat ∉ gffDelims := by
  intro c hc
  simp only [quoteB, List.mem_flatMap] at hc
  obtain ⟨b, hbm, hc⟩ := hc
  exact quoteByte_no_delim safe hs b (hb b hbm) c hc

/-- `_NOT_QUOTED` contains no whitespace character other than the blank -/
def SafeSpaceOk (safe : List Nat) : Prop :=
  ∀ b, safe.contains b = true → isSpace (Char.ofNat b) = true → b = 32

theorem gff_alwaysSafe_not_space : ∀ b < 128, alwaysSafe b = true → isSpace (Char.ofNat b) = false := by
  decide

theorem quoteB_space (safe : List Nat) (hsp : SafeSpaceOk safe) (bs : Bytes) (hb : ∀ b ∈ bs, b < 256) :
    ∀ c ∈ quoteB safe bs, isSpace c = true → c = ' ' := by
  intro c hc hsc
  simp only [quoteB, List.mem_flatMap] at hc
  obtain ⟨b, hbm, hc⟩ := hc
  have hb := hb b hbm
  unfold quoteByte at hc
  by_cases h : isSafe safe b = true
  · have hlt := gff_isSafe_lt safe b h
    simp only [h, if_true, List.mem_singleton] at hc
    subst hc
    simp only [isSafe, Bool.and_eq_true, Bool.or_eq_true] at h
    rcases h.2 with h2 | h2
    · rw [gff_alwaysSafe_not_space b hlt h2] at hsc; cases hsc
    · rw [hsp b h2 hsc]
  · simp only [h] at hc
    have h1 : b / 16 < 16 := by omega
    have h2 : b % 16 < 16 := by omega
    simp only [Bool.false_eq_true, if_false, List.mem_cons, List.not_mem_nil, or_false] at hc
    rcases hc with rfl | rfl | rfl
    · revert hsc; decide
    · rw [(gff_hexChar_props _ h1).2.2] at hsc; cases hsc
    · rw [(gff_hexChar_props _ h2).2.2] at hsc; cases hsc

/-! ## 2. `split` inverts `join` -/

theorem gff_splitC_append (c : Char) (a rest : Str) (h : c ∉ a) :
    ∀ acc, splitC c (a ++ rest) acc = splitC c rest (a.reverse ++ acc) := by
  induction a with
  | nil => intro acc; rfl
  | cons x a ih =>
    intro acc
    have hx : x ≠ c := fun e => h (by simp [e])
    have ha : c ∉ a := fun e => h (by simp [e])
    simp only [List.cons_append, splitC, hx, if_false, ih ha, List.reverse_cons, List.append_assoc,
      List.nil_append]

theorem gff_splitC_nomem (c : Char) (a acc : Str) (h : c ∉ a) :
    splitC c a acc = [acc.reverse ++ a] := by
  have := gff_splitC_append c a [] h acc
  simpa [splitC] using this

theorem gff_splitC_intercalateC_acc (c : Char) (xs : List Str) :
    ∀ (x acc : Str), (∀ y ∈ x :: xs, c ∉ y) →
      splitC c (intercalateC c (x :: xs)) acc = (acc.reverse ++ x) :: xs := by
  induction xs with
  | nil =>
    intro x acc h
    simpa [intercalateC] using gff_splitC_nomem c x acc (h x (by simp))
  | cons y ys ih =>
    intro x acc h
    have hx : c ∉ x := h x (by simp)
    have := ih y [] (fun z hz => h z (by simp [hz]))
    simp only [intercalateC]
    rw [gff_splitC_append c x _ hx acc]
    simp only [splitC, if_true, this, List.reverse_append, List.reverse_reverse, List.reverse_nil,
      List.nil_append]

theorem gff_splitC_intercalateC (c : Char) (xs : List Str) (hne : xs ≠ []) (h : ∀ x ∈ xs, c ∉ x) :
    splitC c (intercalateC c xs) [] = xs := by
  cases xs with
  | nil => exact absurd rfl hne
  | cons x xs => simpa using gff_splitC_intercalateC_acc c xs x [] h

/-! ## 3. one line round trip -/

theorem gff_mem_intercalateC (c d : Char) : ∀ xs : List Str,
    d ∈ intercalateC c xs → d = c ∨ ∃ x ∈ xs, d ∈ x := by
  intro xs
  induction xs with
  | nil => intro h; simp [intercalateC] at h
  | cons x xs ih =>
    cases xs with
    | nil => intro h; right; exact ⟨x, by simp, by simpa [intercalateC] using h⟩
    | cons y ys =>
      intro h
      simp only [intercalateC, List.mem_append, List.mem_cons] at h
      rcases h with h | h | h
      · right; exact ⟨x, by simp, h⟩
      · left; exact h
      · rcases ih h with h | ⟨z, hz, hd⟩
        · left; exact h
        · right; exact ⟨z, List.mem_cons_of_mem _ hz, hd⟩

theorem gff_intercalateC_mem (c d : Char) : ∀ xs : List Str, ∀ x ∈ xs, d ∈ x → d ∈ intercalateC c xs := by
  intro xs
  induction xs with
  | nil => intro x hx; cases hx
  | cons y ys ih =>
    intro x hx hd
    cases ys with
    | nil =>
      simp only [List.mem_singleton] at hx
      subst hx; simpa [intercalateC] using hd
    | cons z zs =>
      simp only [intercalateC, List.mem_append, List.mem_cons]
      rcases List.mem_cons.mp hx with rfl | hx
      · left; exact hd
      · right; right; exact ih x hx hd

theorem gff_quote_not_mem (safe : List Nat) (hs : SafeOk safe) (s : Str) (d : Char)
    (hd : d.toNat ∈ gffDelims) : d ∉ quote safe s := fun h =>
  (quoteB_no_delim safe hs (utf8 s) (gff_utf8_lt s) d h).2 hd

/-! ### `_quote_value` -/

theorem quoteV_cases (safe : List Nat) (s : Str) :
    (∃ ini, utf8 s = ini ++ [32] ∧ quoteV safe s = quoteB safe ini ++ ['%', '2', '0']) ∨
    ((utf8 s).getLast? ≠ some 32 ∧ quoteV safe s = quoteB safe (utf8 s)) := by
  unfold quoteV
  by_cases h : (utf8 s).getLast? = some 32
  · left
    rcases List.eq_nil_or_concat (utf8 s) with hnil | ⟨ini, a, hc⟩
    · rw [hnil] at h; simp at h
    · rw [List.concat_eq_append] at hc
      rw [hc] at h
      simp at h
      subst h
      exact ⟨ini, hc, by simp [hc]⟩
  · right; exact ⟨h, by simp [h]⟩

theorem quoteV_no_delim (safe : List Nat) (hs : SafeOk safe) (s : Str) :
    ∀ c ∈ quoteV safe s, c.toNat < 128 ∧ c.toNat ∉ gffDelims := by
  intro c hc
  rcases quoteV_cases safe s with ⟨ini, hu, hq⟩ | ⟨_, hq⟩
  · rw [hq, List.mem_append] at hc
    rcases hc with hc | hc
    · exact quoteB_no_delim safe hs ini (fun b hb => gff_utf8_lt s b (by rw [hu]; simp [hb])) c hc
    · simp only [List.mem_cons, List.not_mem_nil, or_false] at hc
      rcases hc with rfl | rfl | rfl <;> decide
  · rw [hq] at hc
    exact quoteB_no_delim safe hs _ (gff_utf8_lt s) c hc

theorem gff_quoteV_not_mem (safe : List Nat) (hs : SafeOk safe) (s : Str) (d : Char)
    (hd : d.toNat ∈ gffDelims) : d ∉ quoteV safe s := fun h =>
  (quoteV_no_delim safe hs s d h).2 hd

theorem unquoteB_quoteV (safe : List Nat) (hs : safe.contains 37 = false) (s : Str) :
    unquoteB (quoteV safe s) = utf8 s := by
  rcases quoteV_cases safe s with ⟨ini, hu, hq⟩ | ⟨_, hq⟩
  · rw [hq, unquoteB_quoteB_append safe hs ini (fun b hb => gff_utf8_lt s b (by rw [hu]; simp [hb])), hu]
    rfl
  · rw [hq]; exact unquoteB_quote safe hs s

/-- the written value never ends in whitespace: the reader's `strip()` cannot touch it -/
theorem quoteV_last (safe : List Nat) (hsp : SafeSpaceOk safe) (s : Str) (c : Char)
    (h : (quoteV safe s).getLast? = some c) : isSpace c = false := by
  rcases quoteV_cases safe s with ⟨ini, _, hq⟩ | ⟨hl, hq⟩
  · rw [hq] at h
    simp at h
    subst h; decide
  · rw [hq] at h
    rcases List.eq_nil_or_concat (utf8 s) with hnil | ⟨ini, b, hc⟩
    · rw [hnil] at h; simp [quoteB] at h
    · rw [List.concat_eq_append] at hc
      have hb : b < 256 := gff_utf8_lt s b (by rw [hc]; simp)
      have hb32 : b ≠ 32 := by
        intro e; apply hl; rw [hc, e]; simp
      have hqb : quoteB safe (utf8 s) = quoteB safe ini ++ quoteByte safe b := by
        rw [hc]; simp [quoteB]
      rw [hqb] at h
      cases hsc : isSpace c with
      | false => rfl
      | true =>
        exfalso
        have hmem : c ∈ quoteB safe (utf8 s) := by
          rw [hqb]; exact List.mem_of_getLast? h
        have hcs := quoteB_space safe hsp (utf8 s) (gff_utf8_lt s) c hmem hsc
        subst hcs
        unfold quoteByte at h
        by_cases hsf : isSafe safe b = true
        · simp only [hsf, if_true] at h
          simp at h
          have hlt := gff_isSafe_lt safe b hsf
          have := gff_toNat_ascii b hlt
          rw [h] at this
          exact hb32 (by simpa using this.symm)
        · simp only [hsf] at h
          simp at h
          have := (gff_hexChar_props (b % 16) (by omega)).2.2
          rw [h] at this
          exact absurd this (by decide)
def gffItem (safe : List Nat) (kv : Str × Str) : Str := quote safe kv.1 ++ '=' :: quoteV safe kv.2

def gffAttrStep (d : List (Bytes × Bytes)) (ent : Str) : Except Err (List (Bytes × Bytes)) :=
  match splitC '=' ent [] with
  | [k, v] =>
    let k := unquoteB k
    let v := unquoteB v
    if d.any (fun p => p.1 == k) then .ok (d.map (fun p => if p.1 == k then (k, v) else p))
    else .ok (d ++ [(k, v)])
  | _ => .error .invalidFile

theorem gff_parseAttrs_eq (a : Str) :
    parseAttrs a = if a = ['.'] then .ok [] else (splitC ';' a []).foldlM gffAttrStep [] := rfl

theorem gffAttrStep_item (safe : List Nat) (hs : SafeOk safe) (d : List (Bytes × Bytes)) (kv : Str × Str)
    (hk : utf8 kv.1 ∉ d.map (·.1)) :
    gffAttrStep d (gffItem safe kv) = .ok (d ++ [(utf8 kv.1, utf8 kv.2)]) := by
  have hsp : splitC '=' (gffItem safe kv) [] = [quote safe kv.1, quoteV safe kv.2] := by
    have := gff_splitC_intercalateC '=' [quote safe kv.1, quoteV safe kv.2] (by simp)
      (by
        intro x hx
        simp only [List.mem_cons, List.not_mem_nil, or_false] at hx
        rcases hx with rfl | rfl
        · exact gff_quote_not_mem safe hs _ '=' (by decide)
        · exact gff_quoteV_not_mem safe hs _ '=' (by decide))
    simpa [intercalateC, gffItem] using this
  have hany : d.any (fun p => p.1 == utf8 kv.1) = false := by
    rw [List.any_eq_false]
    intro x hx hxe
    apply hk
    simp only [beq_iff_eq] at hxe
    exact List.mem_map.mpr ⟨x, hx, hxe⟩
  unfold gffAttrStep
  rw [hsp]
  simp only [unquoteB_quote safe hs.1, unquoteB_quoteV safe hs.1, hany]
  rfl

theorem gff_fold_items (safe : List Nat) (hs : SafeOk safe) : ∀ (kvs : List (Str × Str))
    (d : List (Bytes × Bytes)),
    (d.map (·.1) ++ kvs.map (fun kv => utf8 kv.1)).Nodup →
    (kvs.map (gffItem safe)).foldlM gffAttrStep d =
      .ok (d ++ kvs.map (fun kv => (utf8 kv.1, utf8 kv.2))) := by
  intro kvs
  induction kvs with
  | nil => intro d _; simp; rfl
  | cons kv kvs ih =>
    intro d hnd
    have hk : utf8 kv.1 ∉ d.map (·.1) := by
      intro hm
      rw [List.nodup_append] at hnd
      exact hnd.2.2 _ hm _ (by simp) rfl
    rw [List.map_cons, List.foldlM_cons, gffAttrStep_item safe hs d kv hk]
    show List.foldlM gffAttrStep (d ++ [(utf8 kv.1, utf8 kv.2)]) (kvs.map (gffItem safe)) = _
    rw [ih]
    · simp
    · simpa [List.nodup_append, List.nodup_cons] using hnd


def gffScoreCol (s : Option Str) : Str := match s with | some t => t | none => ['.']
def gffStrandCol (s : Option Bool) : Str :=
  match s with | some false => ['+'] | some true => ['-'] | none => ['.']
def gffPhaseCol (p : Option Int) : Str := match p with | some p => showInt p | none => ['.']
def gffAttrsCol (safe : List Nat) (attrs : List (Str × Str)) : Str :=
  if attrs.isEmpty then ['.']
  else intercalateC ';' (attrs.map (fun kv => quote safe kv.1 ++ '=' :: quoteV safe kv.2))

def gffCols (safe : List Nat) (e : GffEntry Str) : List Str :=
  [quote safe (strip e.seqid), quote safe (strip e.source), quote safe (strip e.type),
   showInt e.start, showInt e.stop, gffScoreCol e.score, gffStrandCol e.strand, gffPhaseCol e.phase,
   gffAttrsCol safe e.attrs]

theorem gff_createLine_eq (safe : List Nat) (e : GffEntry Str) :
    createLine safe e =
      if (quote safe (strip e.seqid)).isEmpty ∨ (quote safe (strip e.source)).isEmpty ∨
          (quote safe (strip e.type)).isEmpty then .error .valueError
      else if (quote safe (strip e.seqid)).head? = some '>' then .error .valueError
      else if (quote safe (strip e.seqid)).head? = some '#' then .error .valueError
      else .ok (intercalateC tab (gffCols safe e)) := rfl

theorem gff_createLine_ok (safe : List Nat) (e : GffEntry Str) (line : Str)
    (h : createLine safe e = .ok line) :
    line = intercalateC tab (gffCols safe e) ∧ quote safe (strip e.seqid) ≠ [] ∧
      (quote safe (strip e.seqid)).head? ≠ some '>' ∧ (quote safe (strip e.seqid)).head? ≠ some '#' := by
  rw [gff_createLine_eq] at h
  split at h
  · cases h
  · split at h
    · cases h
    · split at h
      · cases h
      · rename_i h1 h2 h3
        injection h with h
        refine ⟨h.symm, ?_, h2, h3⟩
        intro he
        apply h1
        left
        simp [he]

theorem gff_showInt_ne_dot (hintc : ∀ i : Int, ∀ c ∈ showInt i, c = '-' ∨ ('0' ≤ c ∧ c ≤ '9'))
    (i : Int) : showInt i ≠ ['.'] := by
  intro he
  have := hintc i '.' (by rw [he]; simp)
  revert this; decide

theorem gff_showInt_notab (hintc : ∀ i : Int, ∀ c ∈ showInt i, c = '-' ∨ ('0' ≤ c ∧ c ≤ '9'))
    (i : Int) : tab ∉ showInt i := by
  intro hm
  have := hintc i tab hm
  revert this; decide

theorem gffAttrsCol_notab (safe : List Nat) (hs : SafeOk safe) (attrs : List (Str × Str)) :
    tab ∉ gffAttrsCol safe attrs := by
  unfold gffAttrsCol
  split
  · decide
  · intro hm
    rcases gff_mem_intercalateC _ _ _ hm with h | ⟨x, hx, hd⟩
    · revert h; decide
    · simp only [List.mem_map] at hx
      obtain ⟨kv, _, rfl⟩ := hx
      simp only [List.mem_append, List.mem_cons] at hd
      rcases hd with h | h | h
      · exact gff_quote_not_mem safe hs _ tab (by decide) h
      · revert h; decide
      · exact gff_quoteV_not_mem safe hs _ tab (by decide) h

theorem gffAttrsCol_parse (safe : List Nat) (hs : SafeOk safe) (attrs : List (Str × Str))
    (hkeys : (attrs.map (fun kv => utf8 kv.1)).Nodup) :
    parseAttrs (gffAttrsCol safe attrs) = .ok (attrs.map (fun kv => (utf8 kv.1, utf8 kv.2))) := by
  cases attrs with
  | nil => rfl
  | cons kv kvs =>
    have hcol : gffAttrsCol safe (kv :: kvs) = intercalateC ';' ((kv :: kvs).map (gffItem safe)) := rfl
    rw [hcol, gff_parseAttrs_eq]
    have hne : intercalateC ';' ((kv :: kvs).map (gffItem safe)) ≠ ['.'] := by
      intro he
      have : '=' ∈ intercalateC ';' ((kv :: kvs).map (gffItem safe)) :=
        gff_intercalateC_mem ';' '=' _ (gffItem safe kv) (by simp) (by simp [gffItem])
      rw [he] at this
      revert this; decide
    rw [if_neg hne, gff_splitC_intercalateC ';' _ (by simp)]
    · have := gff_fold_items safe hs (kv :: kvs) [] (by simpa using hkeys)
      simpa using this
    · intro x hx
      simp only [List.mem_map] at hx
      obtain ⟨kv', _, rfl⟩ := hx
      intro hd
      simp only [gffItem, List.mem_append, List.mem_cons] at hd
      rcases hd with h | h | h
      · exact gff_quote_not_mem safe hs _ ';' (by decide) h
      · revert h; decide
      · exact gff_quoteV_not_mem safe hs _ ';' (by decide) h

def GffEntry.bytes (e : GffEntry Str) : GffEntry Bytes :=
  { seqid := utf8 (strip e.seqid), source := utf8 (strip e.source), type := utf8 (strip e.type),
    start := e.start, stop := e.stop, score := e.score, strand := e.strand, phase := e.phase,
    attrs := e.attrs.map (fun kv => (utf8 kv.1, utf8 kv.2)) }

theorem gffCols_notab (safe : List Nat) (hs : SafeOk safe)
    (hintc : ∀ i : Int, ∀ c ∈ showInt i, c = '-' ∨ ('0' ≤ c ∧ c ≤ '9'))
    (e : GffEntry Str)
    (hscore : ∀ t, e.score = some t → t ≠ ['.'] ∧ t ≠ [] ∧ ∀ c ∈ t, c ≠ tab ∧ isSpace c = false) :
    ∀ x ∈ gffCols safe e, tab ∉ x := by
  intro x hx
  simp only [gffCols, List.mem_cons, List.not_mem_nil, or_false] at hx
  rcases hx with rfl | rfl | rfl | rfl | rfl | rfl | rfl | rfl | rfl
  · exact gff_quote_not_mem safe hs _ tab (by decide)
  · exact gff_quote_not_mem safe hs _ tab (by decide)
  · exact gff_quote_not_mem safe hs _ tab (by decide)
  · exact gff_showInt_notab hintc _
  · exact gff_showInt_notab hintc _
  · cases hsc : e.score with
    | none => decide
    | some t => exact fun hm => ((hscore t hsc).2.2 tab hm).1 rfl
  · cases e.strand with
    | none => decide
    | some b => cases b <;> decide
  · cases e.phase with
    | none => decide
    | some p => exact gff_showInt_notab hintc _
  · exact gffAttrsCol_notab safe hs _

theorem gff_line_roundtrip (safe : List Nat) (hs : SafeOk safe)
    (hint : ∀ i : Int, readInt (showInt i) = some i)
    (hintc : ∀ i : Int, ∀ c ∈ showInt i, c = '-' ∨ ('0' ≤ c ∧ c ≤ '9'))
    (hintne : ∀ i : Int, showInt i ≠ [])
    (e : GffEntry Str) (line : Str) (hline : createLine safe e = .ok line)
    (hscore : ∀ t, e.score = some t → t ≠ ['.'] ∧ t ≠ [] ∧ ∀ c ∈ t, c ≠ tab ∧ isSpace c = false)
    (hkeys : (e.attrs.map (fun kv => utf8 kv.1)).Nodup)
    (hlast : strip line = line) :
    parseLine line = .ok e.bytes := by
  obtain ⟨hl, -, -⟩ := gff_createLine_ok safe e line hline
  have hsplit : splitC tab (strip line) [] = gffCols safe e := by
    rw [hlast, hl]
    exact gff_splitC_intercalateC tab _ (by simp [gffCols]) (gffCols_notab safe hs hintc e hscore)
  have hscoreP : (if gffScoreCol e.score = ['.'] then none else some (gffScoreCol e.score)) = e.score := by
    cases hsc : e.score with
    | none => rfl
    | some t => simp [gffScoreCol, (hscore t hsc).1]
  have hstrandP : (if gffStrandCol e.strand = ['+'] then some false
      else if gffStrandCol e.strand = ['-'] then some true else none) = e.strand := by
    cases e.strand with
    | none => rfl
    | some b => cases b <;> rfl
  unfold parseLine
  rw [hsplit]
  simp only [gffCols, hint, gffAttrsCol_parse safe hs e.attrs hkeys, hscoreP, hstrandP,
    unquoteB_quote safe hs.1]
  cases hp : e.phase with
  | none => simp [gffPhaseCol, GffEntry.bytes, hp]
  | some p => simp [gffPhaseCol, gff_showInt_ne_dot hintc p, hint, GffEntry.bytes, hp]

/-! ## 4. the entry index under edits -/

inductive GffKind where
  | skip | fasta (d : Str) | dir (d : Str) | entry

def gffKind (l : Str) : GffKind :=
  match l with
  | [] => .skip
  | ' ' :: _ => .skip
  | '#' :: '#' :: d => if d = "FASTA".toList then .fasta d else .dir d
  | '#' :: _ => .skip
  | _ => .entry

theorem gffIndexFrom_cons (i : Nat) (l : Str) (ls : List Str) :
    gffIndexFrom i (l :: ls) =
      match gffKind l with
      | .skip => gffIndexFrom (i + 1) ls
      | .fasta d => ⟨[], [(d, i)], true⟩
      | .dir d => { gffIndexFrom (i + 1) ls with directives := (d, i) :: (gffIndexFrom (i + 1) ls).directives }
      | .entry => { gffIndexFrom (i + 1) ls with entries := i :: (gffIndexFrom (i + 1) ls).entries } := by
  cases l with
  | nil => simp [gffIndexFrom, gffKind]
  | cons c t =>
    by_cases h1 : c = ' '
    · subst h1; simp [gffIndexFrom, gffKind]
    · by_cases h2 : c = '#'
      · subst h2
        cases t with
        | nil => simp [gffIndexFrom, gffKind]
        | cons c2 t2 =>
          by_cases h3 : c2 = '#'
          · subst h3
            simp only [gffIndexFrom, gffKind]
            split <;> rfl
          · simp [gffIndexFrom, gffKind, h3]
      · simp [gffIndexFrom, gffKind, h1, h2]

theorem gffKind_entry (l : Str) (h : IsEntryLine l) : gffKind l = .entry := by
  obtain ⟨c, cs, rfl, h1, h2⟩ := h
  simp [gffKind, h1, h2]

theorem gffIndexFrom_append (b : List Str) : ∀ (a : List Str) (i : Nat),
    (gffIndexFrom i a).hasFasta = false →
    gffIndexFrom i (a ++ b) =
      ⟨(gffIndexFrom i a).entries ++ (gffIndexFrom (i + a.length) b).entries,
       (gffIndexFrom i a).directives ++ (gffIndexFrom (i + a.length) b).directives,
       (gffIndexFrom (i + a.length) b).hasFasta⟩ := by
  intro a
  induction a with
  | nil => intro i _; simp [gffIndexFrom]
  | cons l ls ih =>
    intro i h
    have hlen : i + (l :: ls).length = i + 1 + ls.length := by simp; omega
    rw [List.cons_append, gffIndexFrom_cons, hlen]
    rw [gffIndexFrom_cons] at h
    rw [gffIndexFrom_cons i l ls]
    cases hk : gffKind l <;> simp only [hk] at h ⊢
    · exact ih _ h
    · cases h
    · rw [ih _ h]; simp
    · rw [ih _ h]; simp

theorem gffIndexFrom_entry_single (n : Nat) (line : Str) (hl : IsEntryLine line) :
    gffIndexFrom n [line] = ⟨[n], [], false⟩ := by
  rw [gffIndexFrom_cons, gffKind_entry line hl]; rfl

theorem gff_append_inv (g g' : Gff) (line : Str) (hinv : g.idx = gffIndex g.lines) (hl : IsEntryLine line)
    (h : gffAppend g line = .ok g') : g'.idx = gffIndex g'.lines := by
  unfold gffAppend at h
  split at h
  · cases h
  · rename_i hf
    injection h with h
    subst h
    simp only [Bool.not_eq_true] at hf
    rw [hinv] at hf ⊢
    unfold gffIndex at hf ⊢
    rw [gffIndexFrom_append _ _ 0 hf, gffIndexFrom_entry_single _ line hl]
    simp [hf]

theorem gff_pyIndex_mem {α : Type} (l : List α) (i : Int) (x : α) (h : pyIndex l i = .ok x) : x ∈ l := by
  unfold pyIndex at h
  extract_lets j at h
  by_cases hj : j < 0
  · simp [hj] at h
  · simp only [hj, if_false] at h
    cases hx : l[j.toNat]? with
    | none => simp [hx] at h
    | some y =>
      simp only [hx] at h
      injection h with h
      subst h
      exact List.mem_of_getElem? hx

theorem gff_insert_inv (g g' : Gff) (i : Int) (line : Str) (hinv : g.idx = gffIndex g.lines)
    (hl : IsEntryLine line) (h : gffInsert g i line = .ok g') : g'.idx = gffIndex g'.lines := by
  unfold gffInsert at h
  split at h
  · exact gff_append_inv g g' line hinv hl h
  · split at h
    · cases h
    · injection h with h
      subst h
      rfl

theorem gff_del_inv (g g' : Gff) (i : Int) (h : gffDel g i = .ok g') : g'.idx = gffIndex g'.lines := by
  unfold gffDel at h
  split at h
  · cases h
  · injection h with h
    subst h
    rfl

theorem gff_append_directive_inv (g g' : Gff) (d text : Str) (hinv : g.idx = gffIndex g.lines)
    (hnf : g.idx.hasFasta = false) (htext : text ≠ "FASTA".toList)
    (h : gffAppendDirective g d text = .ok g') : g'.idx = gffIndex g'.lines := by
  unfold gffAppendDirective at h
  split at h
  · cases h
  · simp only [hnf, Bool.false_eq_true, if_false] at h
    injection h with h
    subst h
    rw [hinv] at hnf ⊢
    unfold gffIndex at hnf ⊢
    have ht : text ≠ ['F', 'A', 'S', 'T', 'A'] := by simpa using htext
    have hk : gffKind ('#' :: '#' :: text) = .dir text := by simp [gffKind, ht]
    rw [gffIndexFrom_append _ _ 0 hnf, gffIndexFrom_cons, hk]
    simp [gffIndexFrom, hnf]

theorem gffIndexFrom_entries_ge : ∀ (ls : List Str) (i : Nat), ∀ k ∈ (gffIndexFrom i ls).entries, i ≤ k := by
  intro ls
  induction ls with
  | nil => intro i k hk; simp [gffIndexFrom] at hk
  | cons l ls ih =>
    intro i k hk
    rw [gffIndexFrom_cons] at hk
    cases hkd : gffKind l <;> simp only [hkd] at hk
    · have := ih _ k hk; omega
    · cases hk
    · have := ih _ k hk; omega
    · rcases List.mem_cons.mp hk with rfl | hk
      · omega
      · have := ih _ k hk; omega

theorem gffIndexFrom_set (line : Str) (hl : IsEntryLine line) : ∀ (ls : List Str) (i k : Nat),
    (i + k) ∈ (gffIndexFrom i ls).entries → gffIndexFrom i (ls.set k line) = gffIndexFrom i ls := by
  intro ls
  induction ls with
  | nil => intro i k hk; simp [gffIndexFrom] at hk
  | cons l ls ih =>
    intro i k hk
    cases k with
    | zero =>
      rw [List.set_cons_zero, gffIndexFrom_cons, gffKind_entry line hl]
      rw [gffIndexFrom_cons] at hk ⊢
      cases hkd : gffKind l <;> simp only [hkd] at hk ⊢
      · have := gffIndexFrom_entries_ge ls (i + 1) _ hk; omega
      · cases hk
      · have := gffIndexFrom_entries_ge ls (i + 1) _ hk; omega
    | succ k =>
      have he : i + (k + 1) = i + 1 + k := by omega
      rw [List.set_cons_succ, gffIndexFrom_cons, gffIndexFrom_cons i l ls]
      rw [gffIndexFrom_cons, he] at hk
      cases hkd : gffKind l <;> simp only [hkd] at hk ⊢
      · exact ih _ _ hk
      · rw [ih _ _ hk]
      · rcases List.mem_cons.mp hk with h | hk
        · omega
        · rw [ih _ _ hk]

theorem gff_set_inv (g g' : Gff) (i : Int) (line : Str) (hinv : g.idx = gffIndex g.lines)
    (hnf : g.idx.hasFasta = false) (hl : IsEntryLine line)
    (h : gffSet g i line = .ok g') : g'.idx = gffIndex g'.lines := by
  unfold gffSet at h
  split at h
  · cases h
  · rename_i li hli
    injection h with h
    subst h
    have hm := gff_pyIndex_mem _ _ _ hli
    rw [hinv] at hm ⊢
    unfold gffIndex at hm ⊢
    exact (gffIndexFrom_set line hl g.lines 0 li (by simpa using hm)).symm

/-! ### an assembled line is an entry line -/

theorem gff_charBytes_head (c : Char) :
    ∃ b rest, charBytes c = b :: rest ∧ (b < 128 → c = Char.ofNat b) := by
  unfold charBytes String.utf8EncodeChar
  simp only []
  split
  · refine ⟨_, _, rfl, fun _ => ?_⟩
    rename_i h
    have : c.val.toNat % 256 = c.val.toNat := Nat.mod_eq_of_lt (by omega)
    show c = Char.ofNat (UInt8.ofNat c.val.toNat).toNat
    rw [UInt8.toNat_ofNat']
    show c = Char.ofNat (c.val.toNat % 256)
    rw [this]
    exact (Char.ofNat_toNat c).symm
  · split
    · refine ⟨_, _, rfl, fun hb => ?_⟩
      simp only [UInt8.toNat_ofNat'] at hb
      omega
    · split
      · refine ⟨_, _, rfl, fun hb => ?_⟩
        simp only [UInt8.toNat_ofNat'] at hb
        omega
      · refine ⟨_, _, rfl, fun hb => ?_⟩
        simp only [UInt8.toNat_ofNat'] at hb
        omega

theorem gff_rstrip_prefix (t : Str) : rstrip t <+: t := by
  unfold rstrip
  have h : t.reverse.dropWhile isSpace <:+ t.reverse := List.dropWhile_suffix _
  have := List.reverse_prefix.mpr h
  simpa using this

theorem gff_strip_head (s : Str) (c : Char) (h : (strip s).head? = some c) : isSpace c = false := by
  unfold strip at h
  obtain ⟨r, hr⟩ := gff_rstrip_prefix (lstrip s)
  have hh : (lstrip s).head? = some c := by
    cases hq : rstrip (lstrip s) with
    | nil => rw [hq] at h; cases h
    | cons a u =>
      rw [hq] at h hr
      rw [← hr]
      simpa using h
  have := List.head?_dropWhile_not isSpace s
  unfold lstrip at hh
  rw [hh] at this
  exact this

theorem gff_strip_last (s : Str) (c : Char) (h : (strip s).getLast? = some c) : isSpace c = false := by
  unfold strip rstrip at h
  rw [List.getLast?_reverse] at h
  have := List.head?_dropWhile_not isSpace (lstrip s).reverse
  rw [h] at this
  exact this

/-- first character of a non-empty quoted string: `%`, or the (ASCII) first character of the input -/
theorem gff_quote_head (safe : List Nat) (s : Str) (c : Char) (h : (quote safe s).head? = some c) :
    c = '%' ∨ s.head? = some c := by
  cases s with
  | nil => simp [quote, quoteB, utf8] at h
  | cons a as =>
    obtain ⟨b, rest, hb, hasc⟩ := gff_charBytes_head a
    have hu : utf8 (a :: as) = b :: (rest ++ utf8 as) := by
      have : utf8 (a :: as) = charBytes a ++ utf8 as := by simp [utf8, charBytes]
      rw [this, hb]; rfl
    have hq : quote safe (a :: as) = quoteByte safe b ++ quoteB safe (rest ++ utf8 as) := by
      simp [quote, hu, quoteB]
    rw [hq] at h
    unfold quoteByte at h
    by_cases hsf : isSafe safe b = true
    · simp only [hsf, if_true, List.singleton_append, List.head?_cons, Option.some.injEq] at h
      right
      rw [← h, ← hasc (gff_isSafe_lt safe b hsf)]
      rfl
    · simp only [hsf] at h
      left
      simpa using h.symm

theorem createLine_isEntryLine (safe : List Nat) (hs : SafeOk safe) (e : GffEntry Str) (line : Str)
    (h : createLine safe e = .ok line) : IsEntryLine line := by
  obtain ⟨hl, hne, -, hhash⟩ := gff_createLine_ok safe e line h
  cases hq : quote safe (strip e.seqid) with
  | nil => exact absurd hq hne
  | cons c cs =>
    have hline : line = c :: (cs ++ tab :: intercalateC tab (gffCols safe e).tail) := by
      rw [hl]; simp [gffCols, intercalateC, hq]
    refine ⟨c, _, hline, ?_, ?_⟩
    · rcases gff_quote_head safe (strip e.seqid) c (by rw [hq]; rfl) with rfl | hh
      · decide
      · intro he
        have := gff_strip_head _ _ hh
        rw [he] at this
        revert this; decide
    · rcases gff_quote_head safe (strip e.seqid) c (by rw [hq]; rfl) with rfl | hh
      · decide
      · intro he
        apply hhash
        rw [hq, he]; rfl

/-! ### `strip line = line` from a condition on the entry -/

theorem gff_dropWhile_of_head {p : Char → Bool} (s : Str)
    (h : ∀ c, s.head? = some c → p c = false) : s.dropWhile p = s := by
  cases s with
  | nil => rfl
  | cons a t => simp [h a (by simp)]

theorem gff_strip_of_noEdgeSpace (s : Str) (h1 : ∀ c, s.head? = some c → isSpace c = false)
    (h2 : ∀ c, s.getLast? = some c → isSpace c = false) : strip s = s := by
  have hl : lstrip s = s := gff_dropWhile_of_head s h1
  unfold strip
  rw [hl]
  unfold rstrip
  rw [gff_dropWhile_of_head, List.reverse_reverse]
  intro c hc
  apply h2
  simpa [List.head?_reverse] using hc

theorem gff_charBytes_last (c : Char) :
    ∃ ini b, charBytes c = ini ++ [b] ∧ (b < 128 → c = Char.ofNat b) := by
  unfold charBytes String.utf8EncodeChar
  simp only []
  split
  · refine ⟨[], _, rfl, fun _ => ?_⟩
    rename_i h
    have : c.val.toNat % 256 = c.val.toNat := Nat.mod_eq_of_lt (by omega)
    show c = Char.ofNat (UInt8.ofNat c.val.toNat).toNat
    rw [UInt8.toNat_ofNat']
    show c = Char.ofNat (c.val.toNat % 256)
    rw [this]
    exact (Char.ofNat_toNat c).symm
  · split
    · refine ⟨[_], _, rfl, fun hb => ?_⟩
      simp only [UInt8.toNat_ofNat'] at hb
      omega
    · split
      · refine ⟨[_, _], _, rfl, fun hb => ?_⟩
        simp only [UInt8.toNat_ofNat'] at hb
        omega
      · refine ⟨[_, _, _], _, rfl, fun hb => ?_⟩
        simp only [UInt8.toNat_ofNat'] at hb
        omega

theorem gff_intercalateC_getLast (c : Char) : ∀ (xs : List Str) (l : Str),
    xs.getLast? = some l → l ≠ [] → (intercalateC c xs).getLast? = l.getLast? := by
  intro xs
  induction xs with
  | nil => intro l h; cases h
  | cons x xs ih =>
    intro l h hne
    cases xs with
    | nil =>
      simp only [List.getLast?_singleton, Option.some.injEq] at h
      subst h; rfl
    | cons y ys =>
      rw [List.getLast?_cons_cons] at h
      have hr := ih l h hne
      obtain ⟨z, hz⟩ : ∃ z, l.getLast? = some z := by
        cases hl : l.getLast? with
        | none => exact absurd (List.getLast?_eq_none_iff.mp hl) hne
        | some z => exact ⟨z, rfl⟩
      rw [hz] at hr ⊢
      simp [intercalateC, List.getLast?_append, List.getLast?_cons, hr]

/-- last character of a quoted string is not a whitespace unless the input ends with one -/
theorem gff_quote_last (safe : List Nat) (s : Str) (c : Char) (h : (quote safe s).getLast? = some c)
    (hsl : ∀ d, s.getLast? = some d → isSpace d = false) : isSpace c = false := by
  rcases List.eq_nil_or_concat s with rfl | ⟨ini, a, rfl⟩
  · simp [quote, quoteB, utf8] at h
  · rw [List.concat_eq_append] at h hsl
    obtain ⟨bi, b, hb, hasc⟩ := gff_charBytes_last a
    have hu : utf8 (ini ++ [a]) = (utf8 ini ++ bi) ++ [b] := by
      have : utf8 (ini ++ [a]) = utf8 ini ++ charBytes a := by simp [utf8, charBytes]
      rw [this, hb, List.append_assoc]
    have hq : quote safe (ini ++ [a]) = quoteB safe (utf8 ini ++ bi) ++ quoteByte safe b := by
      simp [quote, hu, quoteB]
    rw [hq] at h
    have ha : isSpace a = false := hsl a (by simp)
    unfold quoteByte at h
    by_cases hsf : isSafe safe b = true
    · simp only [hsf, if_true] at h
      have hc : c = Char.ofNat b := by simpa using h.symm
      rw [hc, ← hasc (gff_isSafe_lt safe b hsf)]
      exact ha
    · simp only [hsf] at h
      have hc : c = hexChar (b % 16) := by simpa [List.getLast?_append] using h.symm
      rw [hc]
      exact (gff_hexChar_props _ (by omega)).2.2

/-- the entry-level condition replacing `hlast`: the last attribute value does not end with a
whitespace character (vacuous without attributes or with an empty last value) -/
def GffLastOk (e : GffEntry Str) : Prop :=
  ∀ kv, e.attrs.getLast? = some kv → ∀ d, kv.2.getLast? = some d → isSpace d = false

theorem gffAttrsCol_last (safe : List Nat) (attrs : List (Str × Str)) (c : Char)
    (h : (gffAttrsCol safe attrs).getLast? = some c)
    (hsp : SafeSpaceOk safe) :
    isSpace c = false := by
  unfold gffAttrsCol at h
  split at h
  · simp only [List.getLast?_singleton, Option.some.injEq] at h
    subst h; decide
  · rename_i hne
    cases hkv : attrs.getLast? with
    | none =>
      rw [List.getLast?_eq_none_iff] at hkv
      subst hkv; simp at hne
    | some kv =>
      have hitems : (attrs.map (fun kv => quote safe kv.1 ++ '=' :: quoteV safe kv.2)).getLast? =
          some (quote safe kv.1 ++ '=' :: quoteV safe kv.2) := by
        rw [List.getLast?_map, hkv]; rfl
      rw [gff_intercalateC_getLast ';' _ _ hitems (by simp)] at h
      cases hq : (quoteV safe kv.2).getLast? with
      | none =>
        rw [List.getLast?_eq_none_iff] at hq
        rw [hq] at h
        simp at h
        subst h; decide
      | some z =>
        have : c = z := by
          simp [List.getLast?_append, List.getLast?_cons, hq] at h
          exact h.symm
        subst this
        exact quoteV_last safe hsp kv.2 c hq

theorem gff_createLine_strip (safe : List Nat) (e : GffEntry Str) (line : Str)
    (hline : createLine safe e = .ok line) (hsp : SafeSpaceOk safe) : strip line = line := by
  obtain ⟨hl, hne, -⟩ := gff_createLine_ok safe e line hline
  apply gff_strip_of_noEdgeSpace
  · intro c hc
    cases hq : quote safe (strip e.seqid) with
    | nil => exact absurd hq hne
    | cons a cs =>
      have hh : line.head? = some a := by rw [hl]; simp [gffCols, intercalateC, hq]
      rw [hh] at hc
      injection hc with hc
      subst hc
      rcases gff_quote_head safe (strip e.seqid) a (by rw [hq]; rfl) with rfl | hh
      · decide
      · exact gff_strip_head _ _ hh
  · intro c hc
    have hcolne : gffAttrsCol safe e.attrs ≠ [] := by
      unfold gffAttrsCol
      split
      · simp
      · rename_i hne
        intro he
        cases hat : e.attrs with
        | nil => simp [hat] at hne
        | cons kv kvs =>
          have : '=' ∈ intercalateC ';' (e.attrs.map (fun kv => quote safe kv.1 ++ '=' :: quoteV safe kv.2)) :=
            gff_intercalateC_mem ';' '=' _ (quote safe kv.1 ++ '=' :: quoteV safe kv.2)
              (by rw [hat]; simp) (by simp)
          rw [he] at this
          cases this
    rw [hl, gff_intercalateC_getLast tab (gffCols safe e) (gffAttrsCol safe e.attrs) (by simp [gffCols])
      hcolne] at hc
    exact gffAttrsCol_last safe e.attrs c hc hsp

/-- the line round trip without any whitespace condition: the repaired writer never ends a line
in whitespace (`_quote_value`) -/
theorem gff_line_roundtrip_full (safe : List Nat) (hs : SafeOk safe) (hsp : SafeSpaceOk safe)
    (hint : ∀ i : Int, readInt (showInt i) = some i)
    (hintc : ∀ i : Int, ∀ c ∈ showInt i, c = '-' ∨ ('0' ≤ c ∧ c ≤ '9'))
    (hintne : ∀ i : Int, showInt i ≠ [])
    (e : GffEntry Str) (line : Str) (hline : createLine safe e = .ok line)
    (hscore : ∀ t, e.score = some t → t ≠ ['.'] ∧ t ≠ [] ∧ ∀ c ∈ t, c ≠ tab ∧ isSpace c = false)
    (hkeys : (e.attrs.map (fun kv => utf8 kv.1)).Nodup) :
    parseLine line = .ok e.bytes :=
  gff_line_roundtrip safe hs hint hintc hintne e line hline hscore hkeys
    (gff_createLine_strip safe e line hline hsp)

/-! ## 5. non-vacuity -/

/-- `_NOT_QUOTED` of biotite: `string.punctuation` without `%;=&,`, plus the blank -/
def gffSafe0 : List Nat := "!\"#$'()*+-./:<>?@[\\]^_`{|}~ ".toList.map Char.toNat

theorem gffSafe0_ok : SafeOk gffSafe0 := by unfold SafeOk; decide

theorem gffSafe0_spaceOk : SafeSpaceOk gffSafe0 := by
  intro b hb hsp
  have hm : b ∈ gffSafe0 := by simpa using hb
  have key : ∀ b ∈ gffSafe0, isSpace (Char.ofNat b) = true → b = 32 := by decide
  exact key b hm hsp

example : quote gffSafe0 "a%41b;c=d".toList = "a%2541b%3Bc%3Dd".toList := by decide
example : unquoteB "a%2541b".toList = "a%41b".toList.map Char.toNat := by decide
example : unquoteB "100%".toList = "100%".toList.map Char.toNat := by decide
example : quote gffSafe0 "é\t".toList = "%C3%A9%09".toList := by decide
example : splitC ';' (intercalateC ';' ["a=b".toList, [], "c".toList]) [] = ["a=b".toList, [], "c".toList] := by
  decide

def gffEntry0 : GffEntry Str :=
  { seqid := " chr 1".toList, source := "src;x".toList, type := "gene".toList, start := 5, stop := 42,
    score := none, strand := some true, phase := some 0,
    attrs := [("ID".toList, "g=1".toList), ("Note".toList, "a,b c".toList)] }

example : createLine gffSafe0 gffEntry0 =
    .ok "chr 1\tsrc%3Bx\tgene\t5\t42\t.\t-\t0\tID=g%3D1;Note=a%2Cb c".toList := by decide

example : parseLine "chr 1\tsrc%3Bx\tgene\t5\t42\t.\t-\t0\tID=g%3D1;Note=a%2Cb c".toList =
    .ok gffEntry0.bytes := by decide

/-- the known defect behind `hlast`: a trailing blank of the last attribute value is lost -/
example : (parseLine "s\ts\tt\t1\t2\t.\t+\t.\tk=v ".toList).map (·.attrs) =
    .ok [("k".toList.map Char.toNat, "v".toList.map Char.toNat)] := by decide

example : gffIndex ["##gff-version 3".toList, "a\tb".toList, [], "#c".toList, "d".toList] =
    ⟨[1, 4], [("gff-version 3".toList, 0)], false⟩ := by decide

example : (gffAppend Gff.empty "a\tb".toList).map (·.idx) =
    .ok ⟨[1], [("gff-version 3".toList, 0)], false⟩ := by decide

/-- `__setitem__` with a line that is not an entry line breaks the index (why `IsEntryLine` is assumed) -/
example : ∃ g', gffSet (gffRead ["a".toList]) 0 "#x".toList = .ok g' ∧ g'.idx ≠ gffIndex g'.lines := by
  refine ⟨_, rfl, ?_⟩; decide

end BiotiteModel.C12

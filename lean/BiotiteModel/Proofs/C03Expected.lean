/-!
C03 — snapshot of the alpha-normalised facts of the anchored source the hand-written model was written against
(tie pass 7 / 8).  `Props/C03.lean` proves that the facts regenerated from the current source equal these.
Normal form: parameters `p0,p1,…`, locals `v`, private attributes / globals `_a0,_g0,…` by first use; docstrings,
annotations, messages and assertions dropped; lists are de-duplicated in source order, `raises` is the sorted set.
-/
namespace BiotiteModel.C03.Expected
/-- alpha-normalised facts of the source, group `alphabet` (function, facts). -/
def factsAlphabet : List (String × String) := [
  ("Alphabet.__init__", "tests=len(p1) == 0 | raises=ValueError"),
  ("Alphabet.decode", "raises=AlphabetError | compares=p1 < 0 ; p1 >= len(p0._a0)"),
  ("Alphabet.encode", "raises=AlphabetError"),
  ("Alphabet.extends", "compares=p1 is p0 ; len(p1) > len(p0) ; p1.get_symbols() == p0.get_symbols()[:len(p1)]"),
  ("LetterAlphabet.__init__", "raises=ValueError | compares=len(p1) == 0 ; len(v) > 1 ; v not in LetterAlphabet.PRINTABLES"),
  ("LetterAlphabet.encode", "raises=AlphabetError | compares=len(p1) != 1 ; p0._a0 == ord(p1) ; len(v) == 0"),
  ("LetterAlphabet.decode", "raises=AlphabetError | compares=p1 < 0 ; p1 >= len(p0._a0)"),
  ("LetterAlphabet.decode_multiple", "raises=AlphabetError | compares=p1.dtype != np.uint8 ; p1 < 0 ; p1 >= len(p0._a0)"),
  ("LetterAlphabet.encode_multiple", "raises=AlphabetError | compares=np.char.str_len(p1) != 1"),
  ("AlphabetMapper.__init__", "extends=p2.extends(p1)")]
/-- alpha-normalised facts of the source, group `sequence` (function, facts). -/
def factsSequence : List (String × String) := [
  ("Sequence.code.setter", "raises=AlphabetError,TypeError | compares=p1.dtype != v ; p1 < v.min ; p1 > v.max"),
  ("Sequence.__setitem__", "tests=isinstance(p1, numbers.Integral) ; isinstance(p2, Sequence) ; v.extends(p2.get_alphabet()) ; isinstance(p2, np.ndarray) ; v.dtype != p0._a0.dtype ; v.any() | raises=AlphabetError | compares=v.dtype != p0._a0.dtype ; v < v.min ; v > v.max"),
  ("Sequence.__eq__", "tests=isinstance(p1, type(p0)) ; p0.get_alphabet() != p1.get_alphabet()"),
  ("Sequence.is_valid", "compares=p0.code < len(p0.get_alphabet())"),
  ("Sequence.__add__", "tests=p0.get_alphabet().extends(p1.get_alphabet()) ; p1.get_alphabet().extends(p0.get_alphabet()) | raises=ValueError"),
  ("Sequence.__getitem__", "tests=isinstance(v, np.ndarray)"),
  ("GeneralSequence.as_type", "tests=p1.get_alphabet().extends(p0._a0) | raises=AlphabetError"),
  ("NucleotideSequence.__init__", "tests=isinstance(p1, str) ; p2 is None ; p2"),
  ("ProteinSequence.__init__", "raises=AlphabetError | compares=len(v) == 3")]
/-- alpha-normalised facts of the source, group `translate` (function, facts). -/
def factsTranslate : List (String × String) := [
  ("NucleotideSequence.translate", "raises=AlphabetError,ValueError | consts=ModR3,MultR3,FloorDivR3,AddR1 | calls=reshape(3),encode('*'),encode('M'),range(3) | compares=p0._a0 != NucleotideSequence.alphabet_unamb ; p2 is None ; len(p0) % 3 != 0 ; v == v")]
/-- alpha-normalised facts of the source, group `codon` (function, facts). -/
def factsCodon : List (String × String) := [
  ("CodonTable._to_number", "raises=AlphabetError | compares=p0 < 0 ; p0 >= _g0"),
  ("CodonTable.__init__", "raises=AlphabetError,ValueError | compares=len(v) != 3 ; p0._a1 == -1"),
  ("CodonTable.map_codon_codes", "raises=AlphabetError,ValueError | compares=p1.shape[-1] != 3 ; p1 < 0 ; p1 >= _g0"),
  ("CodonTable.load", "tests=v ; isinstance(p0, Integral) ; v.startswith('id') ; p0 == int(v[2:]) ; isinstance(p0, str) ; v.startswith('name') ; p0 in v ; v.startswith('AA') ; v.startswith('Init') ; v.startswith('Base1') ; v.startswith('Base2') ; v.startswith('Base3') ; v is not None ; v[v] == 'i' | raises=ValueError | consts=Slicelo2,Slicelo4,Slicelo5 | compares=p0 == int(v[2:]) ; p0 in v ; v is not None ; v[v] == 'i'")]
/-- alpha-normalised facts of the source, group `kmer` (function, facts). -/
def factsKmer : List (String × String) := [
  ("KmerAlphabet.__init__", "->TypeError,<->ValueError,<->ValueError,!=->ValueError,!=->ValueError"),
  ("KmerAlphabet.fuse", "!=->AlphabetError,>->AlphabetError,>=<->AlphabetError"),
  ("KmerAlphabet.split", ">=<->AlphabetError"),
  ("KmerAlphabet._create_continuous_kmers", "<->ValueError,>=->AlphabetError,>=->AlphabetError"),
  ("KmerAlphabet._create_spaced_kmers", "<->ValueError,>=->AlphabetError"),
  ("KmerAlphabet.rolling_update", "((x0-x1[x2-1]*x3)*x4)+x5)"),
  ("codec.encode_chars", "==->AlphabetError table=0,256,0,0,256"),
  ("codec.decode_to_chars", ">=->AlphabetError")]
/-- alpha-normalised facts of the source, group `defaults` (function, facts). -/
def factsDefaults : List (String × String) := [
  ("Alphabet.encode_multiple", "dtype=np.int64"),
  ("LetterAlphabet.encode_multiple", "dtype=None"),
  ("LetterAlphabet.decode_multiple", "as_bytes=False"),
  ("LetterAlphabet.decode", "as_bytes=False"),
  ("Sequence.__init__", "sequence=()"),
  ("Sequence.copy", "new_seq_code=None"),
  ("Sequence.reverse", "copy=True"),
  ("GeneralSequence.__init__", "sequence=()"),
  ("NucleotideSequence.__init__", "sequence=[],ambiguous=None"),
  ("NucleotideSequence.translate", "complete=False,codon_table=None,met_start=False"),
  ("ProteinSequence.__init__", "sequence=()"),
  ("CodonTable.codon_dict", "code=False"),
  ("CodonTable.start_codons", "code=False"),
  ("KmerAlphabet.__init__", "spacing=None")]
end BiotiteModel.C03.Expected

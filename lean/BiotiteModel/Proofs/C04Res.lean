import BiotiteModel.Proofs.C04
/-! Residue structure lemmas for C04: `residues` (groups) versus `resPos` (labels). -/
namespace BiotiteModel.C04

/-- Group number of every element of the flattened list of groups, counted from `k`. -/
def labelsFrom {α : Type} : Nat → List (List α) → List Nat
  | _, [] => []
  | k, g :: gs => List.replicate g.length k ++ labelsFrom (k + 1) gs

theorem residuesAux_flatten : ∀ (rest cur : List (Nat × Atom)),
    (residuesAux cur rest).flatten = cur.reverse ++ rest := by
  intro rest
  induction rest with
  | nil =>
    intro cur
    cases cur with
    | nil => simp [residuesAux]
    | cons p cur => simp [residuesAux]
  | cons x rest ih =>
    intro cur
    cases cur with
    | nil => simp [residuesAux, ih]
    | cons p cur =>
      simp only [residuesAux]
      split
      · simp [ih]
      · simp [ih]

theorem residues_flatten (atoms : List Atom) : (residues atoms).flatten = indexed atoms := by
  simp [residues, residuesAux_flatten]

theorem residuesAux_labels : ∀ (rest : List (Nat × Atom)) (p : Nat × Atom) (cur : List (Nat × Atom)) (k : Nat),
    List.replicate (cur.length + 1) k ++ resPosAux p.2 k (rest.map (·.2)) =
      labelsFrom k (residuesAux (p :: cur) rest) := by
  intro rest
  induction rest with
  | nil => intro p cur k; simp [residuesAux, resPosAux, labelsFrom]
  | cons x rest ih =>
    intro p cur k
    simp only [List.map_cons, resPosAux, residuesAux]
    by_cases h : newResidue p.2 x.2 = true
    · simp only [h, if_true, labelsFrom]
      rw [← ih x [] (k + 1)]
      simp
    · have h' : newResidue p.2 x.2 = false := by simpa using h
      simp only [h', Bool.false_eq_true, if_false]
      rw [← ih x (p :: cur) k]
      simp [List.replicate_succ', List.append_assoc]

theorem resPos_eq_labels_aux (l : List (Nat × Atom)) :
    resPos (l.map (·.2)) = labelsFrom 0 (residuesAux [] l) := by
  cases l with
  | nil => simp [resPos, residuesAux, labelsFrom]
  | cons x rest =>
    simp only [List.map_cons, resPos, residuesAux]
    rw [← residuesAux_labels rest x [] 0]
    simp

theorem indexed_map_snd (atoms : List Atom) : (indexed atoms).map (·.2) = atoms := by
  simp [indexed, List.map_snd_zip]

theorem resPos_eq_labels (atoms : List Atom) : resPos atoms = labelsFrom 0 (residues atoms) := by
  have := resPos_eq_labels_aux (indexed atoms)
  rwa [indexed_map_snd] at this

theorem lt_of_getElem?_some {α : Type} {l : List α} {m : Nat} {x : α} (h : l[m]? = some x) : m < l.length := by
  rcases Nat.lt_or_ge m l.length with h' | h'
  · exact h'
  · rw [List.getElem?_eq_none h'] at h
    exact absurd h (by simp)

theorem indexed_getElem? (atoms : List Atom) (m i : Nat) (a : Atom) :
    (indexed atoms)[m]? = some (i, a) ↔ m = i ∧ atoms[i]? = some a := by
  unfold indexed
  rw [List.getElem?_zip_eq_some]
  constructor
  · rintro ⟨h1, h2⟩
    have hlt : m < atoms.length := lt_of_getElem?_some h2
    rw [List.getElem?_range hlt] at h1
    have : m = i := by simpa using h1
    subst this
    exact ⟨rfl, h2⟩
  · rintro ⟨rfl, h2⟩
    have hlt : m < atoms.length := lt_of_getElem?_some h2
    exact ⟨by rw [List.getElem?_range hlt], h2⟩

/-- element `x` of group `r` sits at some flat position whose label is `k + r`. -/
theorem group_to_flat {α : Type} : ∀ (gs : List (List α)) (k r : Nat) (g : List α) (x : α),
    gs[r]? = some g → x ∈ g →
    ∃ m : Nat, gs.flatten[m]? = some x ∧ (labelsFrom k gs)[m]? = some (k + r) := by
  intro gs
  induction gs with
  | nil => intro k r g x h; simp at h
  | cons g0 gs ih =>
    intro k r g x h hx
    cases r with
    | zero =>
      simp only [List.getElem?_cons_zero, Option.some.injEq] at h
      subst h
      obtain ⟨m, hmx⟩ := List.getElem?_of_mem hx
      have hm : m < g0.length := lt_of_getElem?_some hmx
      refine ⟨m, ?_, ?_⟩
      · simp [List.getElem?_append_left hm, hmx]
      · rw [labelsFrom, List.getElem?_append_left (by simpa using hm)]
        simp [List.getElem?_replicate, hm]
    | succ r =>
      simp only [List.getElem?_cons_succ] at h
      obtain ⟨m, hm1, hm2⟩ := ih (k + 1) r g x h hx
      refine ⟨g0.length + m, ?_, ?_⟩
      · simp [List.getElem?_append_right, hm1]
      · simp only [labelsFrom]
        rw [List.getElem?_append_right (by simp)]
        simp only [List.length_replicate, Nat.add_sub_cancel_left, hm2]
        congr 1; omega

/-- the element at flat position `m` lies in the group named by its label. -/
theorem flat_to_group {α : Type} : ∀ (gs : List (List α)) (k m : Nat) (x : α),
    gs.flatten[m]? = some x →
    ∃ (r : Nat) (g : List α), gs[r]? = some g ∧ x ∈ g ∧ (labelsFrom k gs)[m]? = some (k + r) := by
  intro gs
  induction gs with
  | nil => intro k m x h; simp at h
  | cons g0 gs ih =>
    intro k m x h
    by_cases hm : m < g0.length
    · refine ⟨0, g0, rfl, ?_, ?_⟩
      · simp only [List.flatten_cons, List.getElem?_append_left hm] at h
        exact List.mem_of_getElem? h
      · rw [labelsFrom, List.getElem?_append_left (by simpa using hm)]
        simp [List.getElem?_replicate, hm]
    · have hge : g0.length ≤ m := Nat.le_of_not_lt hm
      simp only [List.flatten_cons, List.getElem?_append_right hge] at h
      obtain ⟨r, g, hg, hx, hl⟩ := ih (k + 1) (m - g0.length) x h
      refine ⟨r + 1, g, by simpa using hg, hx, ?_⟩
      simp only [labelsFrom]
      rw [List.getElem?_append_right (by simpa using hge)]
      simp only [List.length_replicate, hl]
      congr 1; omega

/-- `(i, a)` is an element of residue number `r`. -/
def Located (atoms : List Atom) (r i : Nat) (a : Atom) : Prop :=
  ∃ g, (residues atoms)[r]? = some g ∧ (i, a) ∈ g

theorem located_spec (atoms : List Atom) (r i : Nat) (a : Atom) (h : Located atoms r i a) :
    atoms[i]? = some a ∧ (resPos atoms)[i]? = some r := by
  obtain ⟨g, hg, hx⟩ := h
  obtain ⟨m, hm1, hm2⟩ := group_to_flat (residues atoms) 0 r g (i, a) hg hx
  rw [residues_flatten] at hm1
  obtain ⟨rfl, ha⟩ := (indexed_getElem? atoms m i a).mp hm1
  refine ⟨ha, ?_⟩
  rw [resPos_eq_labels]
  simpa using hm2

theorem located_of_lt (atoms : List Atom) (i : Nat) (a : Atom) (h : atoms[i]? = some a) :
    ∃ r, Located atoms r i a := by
  have h1 : (residues atoms).flatten[i]? = some (i, a) := by
    rw [residues_flatten]; exact (indexed_getElem? atoms i i a).mpr ⟨rfl, h⟩
  obtain ⟨r, g, hg, hx, _⟩ := flat_to_group (residues atoms) 0 i (i, a) h1
  exact ⟨r, g, hg, hx⟩

theorem mem_group_atom (atoms : List Atom) (g : List (Nat × Atom)) (hg : g ∈ residues atoms) (p : Nat × Atom)
    (hp : p ∈ g) : atoms[p.1]? = some p.2 := by
  obtain ⟨r, hr⟩ := List.getElem?_of_mem hg
  exact (located_spec atoms r p.1 p.2 ⟨g, hr, hp⟩).1

end BiotiteModel.C04

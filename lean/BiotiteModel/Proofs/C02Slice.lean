import BiotiteModel.Proofs.C02Spec
/-!
# C02 — index objects select duplicate-free in-range atoms

`sliceIndices` (Python `slice.indices` + `range`) yields strictly monotone positions inside `[0, n)`; masks yield the
increasing positions of `True`.  Hence only integer index arrays can contain duplicates.
-/
namespace BiotiteModel.C02
open BiotiteModel

theorem rangeStep_mem {start step : Int} {k : Nat} {x : Int} (h : x ∈ rangeStep start step k) :
    ∃ i : Nat, i < k ∧ x = start + (i : Int) * step := by
  induction k generalizing start with
  | zero => simp [rangeStep] at h
  | succ k ih =>
    simp only [rangeStep, List.mem_cons] at h
    rcases h with rfl | h
    · exact ⟨0, by omega, by simp⟩
    · obtain ⟨i, hi, rfl⟩ := ih h
      refine ⟨i + 1, by omega, ?_⟩
      rw [Int.natCast_add, Int.add_mul]
      simp
      omega

theorem rangeStep_pairwise_lt {start step : Int} (k : Nat) (hs : 0 < step) :
    List.Pairwise (· < ·) (rangeStep start step k) := by
  induction k generalizing start with
  | zero => simp [rangeStep]
  | succ k ih =>
    simp only [rangeStep, List.pairwise_cons]
    refine ⟨?_, ih⟩
    intro x hx
    obtain ⟨i, _, rfl⟩ := rangeStep_mem hx
    have : 0 ≤ (i : Int) * step := Int.mul_nonneg (by omega) (by omega)
    omega

theorem rangeStep_pairwise_gt {start step : Int} (k : Nat) (hs : step < 0) :
    List.Pairwise (· > ·) (rangeStep start step k) := by
  induction k generalizing start with
  | zero => simp [rangeStep]
  | succ k ih =>
    simp only [rangeStep, List.pairwise_cons]
    refine ⟨?_, ih⟩
    intro x hx
    obtain ⟨i, _, rfl⟩ := rangeStep_mem hx
    have : 0 ≤ (i : Int) * (-step) := Int.mul_nonneg (by omega) (by omega)
    rw [Int.mul_neg] at this
    omega

theorem sliceAdj_pos (n : Nat) (step : Int) (x : Option Int) (d : Int) (hs : 0 < step) (hd : 0 ≤ d ∧ d ≤ n) :
    0 ≤ sliceAdj n step x d ∧ sliceAdj n step x d ≤ n := by
  unfold sliceAdj
  cases x with
  | none => exact hd
  | some v =>
    simp only
    have hns : ¬ step < 0 := by omega
    simp only [hns, if_false]
    split <;> split <;> (try split) <;> omega

theorem sliceAdj_neg (n : Nat) (step : Int) (x : Option Int) (d : Int) (hs : step < 0)
    (hd : -1 ≤ d ∧ d ≤ (n : Int) - 1) :
    -1 ≤ sliceAdj n step x d ∧ sliceAdj n step x d ≤ (n : Int) - 1 := by
  unfold sliceAdj
  cases x with
  | none => exact hd
  | some v =>
    simp only [hs, if_true]
    split <;> split <;> (try split) <;> omega

/-- elements of a slice, as integers, before the cast to positions -/
theorem slice_elems_bound {n : Nat} {start stop step : Int} {x : Int}
    (hpos : 0 < step → 0 ≤ start ∧ stop ≤ n) (hneg : step < 0 → start ≤ (n : Int) - 1 ∧ -1 ≤ stop)
    (h0 : step ≠ 0)
    (hx : x ∈ rangeStep start step
      (if step > 0 then (if start < stop then (stop - start - 1) / step + 1 else 0)
       else (if stop < start then (start - stop - 1) / (-step) + 1 else 0) : Int).toNat) :
    0 ≤ x ∧ x < n := by
  obtain ⟨i, hi, rfl⟩ := rangeStep_mem hx
  by_cases hs : step > 0
  · simp only [hs, if_true] at hi
    obtain ⟨h1, h2⟩ := hpos hs
    split at hi
    · rename_i hlt
      have hq0 : 0 ≤ (stop - start - 1) / step := Int.ediv_nonneg (by omega) (by omega)
      have hiq : (i : Int) ≤ (stop - start - 1) / step := by omega
      have hm1 : (i : Int) * step ≤ (stop - start - 1) / step * step :=
        Int.mul_le_mul_of_nonneg_right hiq (by omega)
      have hm2 : (stop - start - 1) / step * step ≤ stop - start - 1 := Int.ediv_mul_le _ (by omega)
      have hm3 : 0 ≤ (i : Int) * step := Int.mul_nonneg (by omega) (by omega)
      omega
    · simp at hi
  · have hs' : step < 0 := by omega
    simp only [hs, if_false] at hi
    obtain ⟨h1, h2⟩ := hneg hs'
    split at hi
    · rename_i hlt
      have hq0 : 0 ≤ (start - stop - 1) / (-step) := Int.ediv_nonneg (by omega) (by omega)
      have hiq : (i : Int) ≤ (start - stop - 1) / (-step) := by omega
      have hm1 : (i : Int) * (-step) ≤ (start - stop - 1) / (-step) * (-step) :=
        Int.mul_le_mul_of_nonneg_right hiq (by omega)
      have hm2 : (start - stop - 1) / (-step) * (-step) ≤ start - stop - 1 := Int.ediv_mul_le _ (by omega)
      have hm3 : 0 ≤ (i : Int) * (-step) := Int.mul_nonneg (by omega) (by omega)
      rw [Int.mul_neg] at hm1 hm3
      omega
    · simp at hi

/-- **slices are sound index objects**: strictly monotone, hence duplicate-free, positions below `n`;
a zero step is the only rejected slice -/
theorem sliceIndices_sound (n : Nat) (a b c : Option Int) :
    (c.getD 1 = 0 → sliceIndices n a b c = .error .valueError) ∧
    (c.getD 1 ≠ 0 → ∃ sel, sliceIndices n a b c = .ok sel ∧ sel.Nodup ∧ ∀ x ∈ sel, x < n) := by
  constructor
  · intro h0; simp [sliceIndices, h0]
  · intro h0
    unfold sliceIndices
    simp only [h0, if_false]
    refine ⟨_, rfl, ?_, ?_⟩
    all_goals
      have hb : ∀ x ∈ rangeStep (sliceAdj n (c.getD 1) a (if c.getD 1 < 0 then (n : Int) - 1 else 0)) (c.getD 1)
          (if c.getD 1 > 0 then
              (if sliceAdj n (c.getD 1) a (if c.getD 1 < 0 then (n : Int) - 1 else 0) <
                  sliceAdj n (c.getD 1) b (if c.getD 1 < 0 then -1 else n) then
                (sliceAdj n (c.getD 1) b (if c.getD 1 < 0 then -1 else n) -
                  sliceAdj n (c.getD 1) a (if c.getD 1 < 0 then (n : Int) - 1 else 0) - 1) / c.getD 1 + 1 else 0)
            else
              (if sliceAdj n (c.getD 1) b (if c.getD 1 < 0 then -1 else n) <
                  sliceAdj n (c.getD 1) a (if c.getD 1 < 0 then (n : Int) - 1 else 0) then
                (sliceAdj n (c.getD 1) a (if c.getD 1 < 0 then (n : Int) - 1 else 0) -
                  sliceAdj n (c.getD 1) b (if c.getD 1 < 0 then -1 else n) - 1) / (-c.getD 1) + 1 else 0) : Int).toNat,
          0 ≤ x ∧ x < n := by
        intro x hx
        refine slice_elems_bound ?_ ?_ h0 hx
        · intro hs
          have hns : ¬ c.getD 1 < 0 := by omega
          simp only [hns, if_false]
          exact ⟨(sliceAdj_pos n _ a 0 hs (by omega)).1, (sliceAdj_pos n _ b n hs (by omega)).2⟩
        · intro hs
          simp only [hs, if_true]
          by_cases hn : n = 0
          · subst hn
            exact ⟨(sliceAdj_neg 0 _ a _ hs (by omega)).2, (sliceAdj_neg 0 _ b (-1) hs (by omega)).1⟩
          · exact ⟨(sliceAdj_neg n _ a _ hs (by omega)).2, (sliceAdj_neg n _ b (-1) hs (by omega)).1⟩
    · -- duplicate-free
      by_cases hs : c.getD 1 > 0
      · have hp := rangeStep_pairwise_lt (start := sliceAdj n (c.getD 1) a (if c.getD 1 < 0 then (n : Int) - 1 else 0))
          (if c.getD 1 > 0 then
              (if sliceAdj n (c.getD 1) a (if c.getD 1 < 0 then (n : Int) - 1 else 0) <
                  sliceAdj n (c.getD 1) b (if c.getD 1 < 0 then -1 else n) then
                (sliceAdj n (c.getD 1) b (if c.getD 1 < 0 then -1 else n) -
                  sliceAdj n (c.getD 1) a (if c.getD 1 < 0 then (n : Int) - 1 else 0) - 1) / c.getD 1 + 1 else 0)
            else
              (if sliceAdj n (c.getD 1) b (if c.getD 1 < 0 then -1 else n) <
                  sliceAdj n (c.getD 1) a (if c.getD 1 < 0 then (n : Int) - 1 else 0) then
                (sliceAdj n (c.getD 1) a (if c.getD 1 < 0 then (n : Int) - 1 else 0) -
                  sliceAdj n (c.getD 1) b (if c.getD 1 < 0 then -1 else n) - 1) / (-c.getD 1) + 1 else 0) : Int).toNat hs
        simp only [List.Nodup, List.pairwise_map]
        refine (hp.and (List.pairwise_of_forall_mem_list (fun x hx y hy => (⟨hb x hx, hb y hy⟩ : (0 ≤ x ∧ x < n) ∧ (0 ≤ y ∧ y < n))))).imp ?_
        intro x y hxy e
        have := hxy.1; have := hxy.2; omega
      · have hs' : c.getD 1 < 0 := by omega
        have hp := rangeStep_pairwise_gt (start := sliceAdj n (c.getD 1) a (if c.getD 1 < 0 then (n : Int) - 1 else 0))
          (if c.getD 1 > 0 then
              (if sliceAdj n (c.getD 1) a (if c.getD 1 < 0 then (n : Int) - 1 else 0) <
                  sliceAdj n (c.getD 1) b (if c.getD 1 < 0 then -1 else n) then
                (sliceAdj n (c.getD 1) b (if c.getD 1 < 0 then -1 else n) -
                  sliceAdj n (c.getD 1) a (if c.getD 1 < 0 then (n : Int) - 1 else 0) - 1) / c.getD 1 + 1 else 0)
            else
              (if sliceAdj n (c.getD 1) b (if c.getD 1 < 0 then -1 else n) <
                  sliceAdj n (c.getD 1) a (if c.getD 1 < 0 then (n : Int) - 1 else 0) then
                (sliceAdj n (c.getD 1) a (if c.getD 1 < 0 then (n : Int) - 1 else 0) -
                  sliceAdj n (c.getD 1) b (if c.getD 1 < 0 then -1 else n) - 1) / (-c.getD 1) + 1 else 0) : Int).toNat hs'
        simp only [List.Nodup, List.pairwise_map]
        refine (hp.and (List.pairwise_of_forall_mem_list (fun x hx y hy => (⟨hb x hx, hb y hy⟩ : (0 ≤ x ∧ x < n) ∧ (0 ≤ y ∧ y < n))))).imp ?_
        intro x y hxy e
        have := hxy.1; have := hxy.2; omega
    · intro x hx
      obtain ⟨y, hy, rfl⟩ := List.mem_map.mp hx
      have := hb y hy
      omega

/-- every index object selects atoms below `n`; everything except an integer index array selects without duplicates -/
theorem resolveIdx_sound {n : Nat} {ix : Idx} {sel : List Nat} (h : resolveIdx n ix = some sel) :
    (∀ a ∈ sel, a < n) ∧ ((∀ is, ix ≠ .arr is) → sel.Nodup) := by
  have tp : ∀ m : List Bool, m.length = n → (∀ a ∈ truePositions m, a < n) ∧ (truePositions m).Nodup := by
    intro m hl
    refine ⟨fun a ha => ?_, truePositionsFrom_nodup m 0⟩
    have := (truePositionsFrom_ge m 0 a ha).2; omega
  cases ix with
  | mask m =>
    simp only [resolveIdx] at h
    split at h
    · rename_i hl; injection h with h; subst h; exact ⟨(tp m hl).1, fun _ => (tp m hl).2⟩
    · cases h
  | smask m =>
    simp only [resolveIdx] at h
    split at h
    · rename_i hl; injection h with h; subst h; exact ⟨(tp m hl.1).1, fun _ => (tp m hl.1).2⟩
    · cases h
  | blist m =>
    simp only [resolveIdx] at h
    split at h
    · injection h with h; subst h; simp
    · split at h
      · rename_i hl; injection h with h; subst h; exact ⟨(tp m hl).1, fun _ => (tp m hl).2⟩
      · cases h
  | arr is =>
    simp only [resolveIdx] at h
    exact ⟨normArr_lt h, fun hne => absurd rfl (hne is)⟩
  | slice a b c =>
    simp only [resolveIdx] at h
    by_cases h0 : c.getD 1 = 0
    · rw [(sliceIndices_sound n a b c).1 h0] at h; cases h
    · obtain ⟨sel', hs, hnd, hlt⟩ := (sliceIndices_sound n a b c).2 h0
      rw [hs] at h
      injection h with h; subst h
      exact ⟨hlt, fun _ => hnd⟩

end BiotiteModel.C02

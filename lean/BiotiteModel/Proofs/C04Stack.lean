import BiotiteModel.Proofs.C04Links
/-! Model count = number of groups; chunking of the coordinate column; `BondList` precedence. -/
namespace BiotiteModel.C04

/-- If all bonds of `L` are bonds of a well-formed list, `BondList(L)` has exactly the members of `L`. -/
theorem mem_normBonds_of_mem (bonds L : List Bond) (hu : UniquePairs bonds) (hlt : ∀ b ∈ bonds, b.i < b.j)
    (hsub : ∀ x ∈ L, x ∈ bonds) (b : Bond) : b ∈ normBonds L ↔ b ∈ L := by
  rw [mem_normBonds_of_sub bonds L hu (fun x hx => by rw [normB_of_lt x (hlt x (hsub x hx))]; exact hsub x hx)]
  constructor
  · rintro ⟨x, hx, rfl⟩; rw [normB_of_lt x (hlt x (hsub x hx))]; exact hx
  · intro hb; exact ⟨b, hb, normB_of_lt b (hlt b (hsub b hb))⟩

/-! ### `len(np.unique(models))` = number of groups of `_filter_model` -/

def newCount : List Int → List Int → Nat
  | _, [] => 0
  | seen, x :: xs => if seen.contains x then newCount seen xs else 1 + newCount (x :: seen) xs

theorem newCount_congr : ∀ (xs : List Int) (s1 s2 : List Int), (∀ v, v ∈ s1 ↔ v ∈ s2) →
    newCount s1 xs = newCount s2 xs := by
  intro xs
  induction xs with
  | nil => intros; rfl
  | cons x xs ih =>
    intro s1 s2 h
    have hc : s1.contains x = s2.contains x := by
      rw [Bool.eq_iff_iff]; simp [h x]
    simp only [newCount, hc]
    split
    · exact ih s1 s2 h
    · rw [ih (x :: s1) (x :: s2) (by intro v; simp [h v])]

theorem newCount_filter (a : Int) : ∀ (xs : List Int) (seen : List Int),
    newCount (a :: seen) xs = newCount seen (xs.filter (· != a)) := by
  intro xs
  induction xs with
  | nil => intro seen; rfl
  | cons x xs ih =>
    intro seen
    by_cases hxa : x = a
    · subst hxa
      simp [newCount, ih seen]
    · have hne : (x != a) = true := by simpa using hxa
      simp only [List.filter_cons, hne, if_true, newCount]
      have hc : (a :: seen).contains x = seen.contains x := by
        rw [Bool.eq_iff_iff]; simp [hxa]
      rw [hc]
      split
      · exact ih seen
      · rw [← ih (x :: seen)]
        rw [newCount_congr xs (x :: a :: seen) (a :: x :: seen) (by intro v; simp only [List.mem_cons]; constructor <;> (intro h; rcases h with h | h | h <;> simp [h]))]

theorem eraseDups_length : ∀ (n : Nat) (xs : List Int), xs.length ≤ n → xs.eraseDups.length = newCount [] xs := by
  intro n
  induction n with
  | zero =>
    intro xs h
    have : xs = [] := List.length_eq_zero_iff.mp (Nat.le_zero.mp h)
    subst this; simp [newCount]
  | succ n ih =>
    intro xs h
    cases xs with
    | nil => simp [newCount]
    | cons a as =>
      rw [List.eraseDups_cons]
      simp only [List.length_cons, newCount, List.contains_nil, Bool.false_eq_true, if_false]
      have hf : (as.filter (fun b => !b == a)) = as.filter (· != a) := rfl
      rw [hf, ih (as.filter (· != a)) (by
        have := List.length_filter_le (· != a) as
        simp only [List.length_cons] at h; omega)]
      rw [newCount_filter]; omega

theorem splitAux_length : ∀ (rows : List SiteRow) (seen : List Int) (cur : List SiteRow), cur ≠ [] →
    (splitModelsAux seen cur rows).length = 1 + newCount seen (rows.map (·.model)) := by
  intro rows
  induction rows with
  | nil =>
    intro seen cur hc
    cases cur with
    | nil => exact absurd rfl hc
    | cons _ _ => simp [splitModelsAux, newCount]
  | cons r rs ih =>
    intro seen cur hc
    have hce : cur.isEmpty = false := by cases cur <;> simp_all
    simp only [splitModelsAux, List.map_cons, newCount]
    by_cases hs : seen.contains r.model = true
    · simp only [hs, if_true]; exact ih seen (r :: cur) (by simp)
    · simp only [hs, Bool.false_eq_true, if_false, hce, List.length_cons]
      rw [ih (r.model :: seen) [r] (by simp)]; omega

/-- `model_count` (number of distinct model numbers) is the number of groups `_filter_model` cuts. -/
theorem distinct_eq_groups (site : List SiteRow) :
    distinctCount (site.map (·.model)) = (splitModels site).length := by
  unfold distinctCount
  rw [eraseDups_length _ _ (Nat.le_refl _)]
  cases site with
  | nil => simp [splitModels, splitModelsAux, newCount]
  | cons r rs =>
    simp only [splitModels, splitModelsAux, List.contains_nil, Bool.false_eq_true, if_false, List.isEmpty_nil, if_true,
      List.map_cons, newCount]
    rw [splitAux_length rs [r.model] [r] (by simp)]

/-! ### `reshape((model_count, model_length))` -/

theorem chunks_flatten {α : Type} (n : Nat) : ∀ (bs : List (List α)), (∀ b ∈ bs, b.length = n) →
    chunks n bs.length bs.flatten = bs := by
  intro bs
  induction bs with
  | nil => intro _; rfl
  | cons b bs ih =>
    intro h
    have hb : b.length = n := h b (by simp)
    simp only [List.length_cons, chunks, List.flatten_cons]
    rw [List.take_left' hb, List.drop_left' hb, ih (fun x hx => h x (by simp [hx]))]

end BiotiteModel.C04

namespace BiotiteModel.C04

/-! ### `BondList.merge`: the first list takes precedence -/

def pairOf (b : Bond) : Nat × Nat := (min b.i b.j, max b.i b.j)

theorem normBondsAux_congr : ∀ (L : List Bond) (s1 s2 : List (Nat × Nat)), (∀ p, p ∈ s1 ↔ p ∈ s2) →
    normBondsAux s1 L = normBondsAux s2 L := by
  intro L
  induction L with
  | nil => intros; rfl
  | cons x xs ih =>
    intro s1 s2 h
    have hc : s1.contains (min x.i x.j, max x.i x.j) = s2.contains (min x.i x.j, max x.i x.j) := by
      rw [Bool.eq_iff_iff]; simp [h]
    simp only [normBondsAux, hc]
    split
    · exact ih s1 s2 h
    · rw [ih _ ((min x.i x.j, max x.i x.j) :: s2) (by intro p; simp [h p])]

theorem normBondsAux_append : ∀ (A : List Bond) (seen : List (Nat × Nat)) (B : List Bond),
    ∃ seen', normBondsAux seen (A ++ B) = normBondsAux seen A ++ normBondsAux seen' B ∧
      ∀ p, p ∈ seen' ↔ (p ∈ seen ∨ ∃ a ∈ A, pairOf a = p) := by
  intro A
  induction A with
  | nil => intro seen B; exact ⟨seen, rfl, by simp⟩
  | cons a A ih =>
    intro seen B
    by_cases hc : seen.contains (min a.i a.j, max a.i a.j) = true
    · obtain ⟨seen', h1, h2⟩ := ih seen B
      refine ⟨seen', by simp only [List.cons_append, normBondsAux, hc, if_true, h1], ?_⟩
      intro p
      rw [h2 p]
      constructor
      · rintro (h | ⟨x, hx, e⟩)
        · left; exact h
        · right; exact ⟨x, by simp [hx], e⟩
      · rintro (h | ⟨x, hx, e⟩)
        · left; exact h
        · simp only [List.mem_cons] at hx
          rcases hx with rfl | hx
          · left; rw [← e]; simpa [pairOf] using hc
          · right; exact ⟨x, hx, e⟩
    · obtain ⟨seen', h1, h2⟩ := ih ((min a.i a.j, max a.i a.j) :: seen) B
      refine ⟨seen', by simp only [List.cons_append, normBondsAux, hc, Bool.false_eq_true, if_false, h1], ?_⟩
      intro p
      rw [h2 p]
      constructor
      · rintro (h | ⟨x, hx, e⟩)
        · simp only [List.mem_cons] at h
          rcases h with h | h
          · right; exact ⟨a, by simp, by rw [h]; rfl⟩
          · left; exact h
        · right; exact ⟨x, by simp [hx], e⟩
      · rintro (h | ⟨x, hx, e⟩)
        · left; simp [h]
        · simp only [List.mem_cons] at hx
          rcases hx with rfl | hx
          · left; rw [← e]; simp [pairOf]
          · right; exact ⟨x, hx, e⟩

theorem normBondsAux_sub' : ∀ (L : List Bond) (seen : List (Nat × Nat)) (b : Bond),
    b ∈ normBondsAux seen L → ∃ x ∈ L, normB x = b ∧ pairOf x ∉ seen := by
  intro L
  induction L with
  | nil => intro seen b h; simp [normBondsAux] at h
  | cons x xs ih =>
    intro seen b h
    simp only [normBondsAux] at h
    by_cases hc : seen.contains (min x.i x.j, max x.i x.j) = true
    · simp only [hc, if_true] at h
      obtain ⟨y, hy, e, hs⟩ := ih _ b h
      exact ⟨y, by simp [hy], e, hs⟩
    · simp only [hc, Bool.false_eq_true, if_false, List.mem_cons] at h
      rcases h with rfl | h
      · exact ⟨x, by simp, rfl, by simpa [pairOf] using hc⟩
      · obtain ⟨y, hy, e, hs⟩ := ih _ b h
        exact ⟨y, by simp [hy], e, fun hm => hs (by simp [hm])⟩

/-- Merging: `A` (all in `bonds`) takes precedence over `B`, whose members are bonds of `bonds` or are
shadowed by a bond of `A` with the same atom pair. -/
theorem mem_normBonds_shadow (bonds A B : List Bond) (hu : UniquePairs bonds) (hlt : ∀ b ∈ bonds, b.i < b.j)
    (hA : ∀ x ∈ A, x ∈ bonds) (hB : ∀ x ∈ B, x ∈ bonds ∨ ∃ a ∈ A, pairOf a = pairOf x) (y : Bond) :
    y ∈ normBonds (A ++ B) ↔ y ∈ A ∨ (y ∈ B ∧ y ∈ bonds) := by
  obtain ⟨seen', h1, h2⟩ := normBondsAux_append A [] B
  have hpair : ∀ b ∈ bonds, pairOf b = (b.i, b.j) := by
    intro b hb
    have := hlt b hb
    simp only [pairOf, Prod.mk.injEq]; constructor <;> omega
  unfold normBonds
  rw [h1, List.mem_append]
  have hAm := mem_normBonds_of_mem bonds A hu hlt hA y
  unfold normBonds at hAm
  rw [hAm]
  constructor
  · rintro (h | h)
    · left; exact h
    · obtain ⟨x, hx, e, hs⟩ := normBondsAux_sub' B seen' y h
      have hns : ¬ ∃ a ∈ A, pairOf a = pairOf x := fun hex => hs ((h2 _).mpr (Or.inr hex))
      rcases hB x hx with hb | hex
      · rw [normB_of_lt x (hlt x hb)] at e
        subst e
        right; exact ⟨hx, hb⟩
      · exact absurd hex hns
  · rintro (h | ⟨hyB, hyb⟩)
    · left; exact h
    · by_cases hex : ∃ a ∈ A, pairOf a = pairOf y
      · obtain ⟨a, ha, e⟩ := hex
        left
        have hab := hA a ha
        rw [hpair a hab, hpair y hyb] at e
        have := hu a hab y hyb (congrArg Prod.fst e) (congrArg Prod.snd e)
        rw [← this]; exact ha
      · right
        have hns : ((normB y).i, (normB y).j) ∉ seen' := by
          intro hm
          rcases (h2 _).mp hm with h | h
          · simp at h
          · exact hex h
        obtain ⟨t, ht⟩ := normBondsAux_covers B seen' y hyB hns
        obtain ⟨x, hx, e, hs⟩ := normBondsAux_sub' B seen' _ ht
        have hnsx : ¬ ∃ a ∈ A, pairOf a = pairOf x := fun hex' => hs ((h2 _).mpr (Or.inr hex'))
        rcases hB x hx with hb | hex'
        · rw [normB_of_lt x (hlt x hb), normB_of_lt y (hlt y hyb)] at e
          have := hu x hb y hyb (by rw [e]) (by rw [e])
          rw [normB_of_lt y (hlt y hyb)] at ht
          have ht' : t = y.t := by rw [← this, e]
          rw [ht'] at ht
          exact ht
        · exact absurd hex' hnsx

end BiotiteModel.C04

import BiotiteModel.Proofs.C07NonFinite
/-! Alternate-location filters at record level. -/
namespace BiotiteModel.C07

theorem runs_ne_nil : ∀ (l : List AltRow) (x : List AltRow), x ∈ runs l → x ≠ []
  | [], x, hx => by simp [runs] at hx
  | a :: as, x, hx => by
    unfold runs at hx
    cases hr : runs as with
    | nil => rw [hr] at hx; simp at hx; subst hx; simp
    | cons y ys =>
      cases y with
      | nil => rw [hr] at hx; simp at hx; subst hx; simp
      | cons q qs =>
        rw [hr] at hx
        simp only at hx
        split at hx
        · rcases List.mem_cons.1 hx with rfl | hx
          · simp
          · exact runs_ne_nil as x (by rw [hr]; exact List.mem_cons_of_mem _ hx)
        · rcases List.mem_cons.1 hx with rfl | hx
          · simp
          · exact runs_ne_nil as x (by rw [hr]; exact hx)

theorem runs_flatten : ∀ rows : List AltRow, (runs rows).flatten = rows
  | [] => rfl
  | r :: rs => by
    have ih := runs_flatten rs
    unfold runs
    cases hr : runs rs with
    | nil => rw [hr] at ih; simp at ih; subst ih; rfl
    | cons y ys =>
      cases y with
      | nil => exact absurd rfl (runs_ne_nil rs [] (by rw [hr]; exact List.mem_cons_self))
      | cons q qs =>
        rw [hr] at ih
        simp only
        split
        · simp only [List.flatten_cons] at ih ⊢; rw [← ih]; rfl
        · simp only [List.flatten_cons] at ih ⊢; rw [← ih]; rfl

theorem applyMask_map {α : Type} (p : α → Bool) : ∀ l : List α, applyMask (l.map p) l = l.filter p := by
  intro l
  induction l with
  | nil => rfl
  | cons a as ih =>
    unfold applyMask at ih ⊢
    simp only [List.map_cons, List.zip_cons_cons]
    cases hp : p a
    · rw [List.filter_cons_of_neg (by simp), List.filter_cons_of_neg (by simp [hp])]; exact ih
    · rw [List.filter_cons_of_pos (by simp), List.filter_cons_of_pos (by simp [hp])]; simp [ih]

/-- `filter_first_altloc` in one residue keeps exactly the rows without altloc id and those carrying the first id -/
theorem firstMaskRun_spec (run : List AltRow) :
    firstMaskRun run = run.map (fun r => noAlt r.alt || (letterIds run).head? == some r.alt) := by
  unfold firstMaskRun
  cases h : letterIds run with
  | nil => simp
  | cons f t =>
    apply List.map_congr_left
    intro r _
    simp only [List.head?_cons]
    congr 1
    by_cases hrf : r.alt = f
    · subst hrf; simp
    · have : ¬ f = r.alt := fun h => hrf h.symm
      rw [Bool.eq_iff_iff]; simp [hrf, this]

theorem mem_insertChar (c x : Char) : ∀ l, x ∈ insertChar c l ↔ x = c ∨ x ∈ l := by
  intro l
  induction l with
  | nil => simp [insertChar]
  | cons d r ih =>
    unfold insertChar
    split
    · rename_i h; subst h; simp
    · split
      · simp
      · simp only [List.mem_cons, ih]
        constructor
        · rintro (h | h | h)
          · exact Or.inr (Or.inl h)
          · exact Or.inl h
          · exact Or.inr (Or.inr h)
        · rintro (h | h | h)
          · exact Or.inr (Or.inl h)
          · exact Or.inl h
          · exact Or.inr (Or.inr h)

theorem mem_sortedIds (ids : List Char) (x : Char) : x ∈ sortedIds ids ↔ x ∈ ids := by
  unfold sortedIds
  have : ∀ acc : List Char, x ∈ ids.foldl (fun acc c => insertChar c acc) acc ↔ x ∈ acc ∨ x ∈ ids := by
    induction ids with
    | nil => intro acc; simp
    | cons c r ih =>
      intro acc
      simp only [List.foldl_cons, ih, mem_insertChar, List.mem_cons]
      constructor
      · rintro ((h | h) | h)
        · exact Or.inr (Or.inl h)
        · exact Or.inl h
        · exact Or.inr (Or.inr h)
      · rintro (h | h | h)
        · exact Or.inl (Or.inr h)
        · exact Or.inl (Or.inl h)
        · exact Or.inr h
  simpa using this []

/-- the occupancy loop returns an id of maximal summed occupancy (if any sum exceeds -1.0) -/
theorem bestId_spec (run : List AltRow) (ids : List Char) :
    (∀ id ∈ ids, occSum run id ≤ (bestId run ids).1) ∧ -100 ≤ (bestId run ids).1 ∧
    (∀ id, (bestId run ids).2 = some id → id ∈ ids ∧ (bestId run ids).1 = occSum run id) ∧
    ((bestId run ids).2 = none → (bestId run ids).1 = -100) := by
  unfold bestId
  have gen : ∀ (l : List Char) (st : Int × Option Char),
      let r := l.foldl (fun st id => if st.1 < occSum run id then (occSum run id, some id) else st) st
      (∀ id ∈ l, occSum run id ≤ r.1) ∧ st.1 ≤ r.1 ∧
      (∀ id, r.2 = some id → (id ∈ l ∧ r.1 = occSum run id) ∨ (st.2 = some id ∧ r.1 = st.1)) ∧
      (r.2 = none → st.2 = none ∧ r.1 = st.1) := by
    intro l
    induction l with
    | nil => intro st; simp
    | cons c t ih =>
      intro st
      simp only [List.foldl_cons]
      by_cases hlt : st.1 < occSum run c
      · simp only [hlt, if_true]
        obtain ⟨h1, h2, h3, h4⟩ := ih (occSum run c, some c)
        simp only at h1 h2 h3 h4
        refine ⟨?_, by omega, ?_, ?_⟩
        · intro id hid
          rcases List.mem_cons.1 hid with rfl | hid
          · exact h2
          · exact h1 id hid
        · intro id hr
          rcases h3 id hr with ⟨hm, he⟩ | ⟨hs, he⟩
          · exact Or.inl ⟨List.mem_cons_of_mem _ hm, he⟩
          · simp only [Option.some.injEq] at hs; subst hs; exact Or.inl ⟨List.mem_cons_self, he⟩
        · intro hr; have := (h4 hr).1; simp at this
      · simp only [hlt, if_false]
        obtain ⟨h1, h2, h3, h4⟩ := ih st
        refine ⟨?_, h2, ?_, h4⟩
        · intro id hid
          rcases List.mem_cons.1 hid with rfl | hid
          · omega
          · exact h1 id hid
        · intro id hr
          rcases h3 id hr with ⟨hm, he⟩ | h
          · exact Or.inl ⟨List.mem_cons_of_mem _ hm, he⟩
          · exact Or.inr h
  obtain ⟨h1, h2, h3, h4⟩ := gen ids (-100, none)
  simp only at h1 h2 h3 h4
  refine ⟨h1, h2, ?_, fun hr => (h4 hr).2⟩
  intro id hr
  rcases h3 id hr with h | ⟨hs, _⟩
  · exact h
  · cases hs

theorem occMaskRun_spec (run : List AltRow) :
    occMaskRun run = run.map (fun r => noAlt r.alt ||
      (letterIds run != [] && (bestId run (sortedIds (letterIds run))).2 == some r.alt)) := by
  unfold occMaskRun
  cases h : letterIds run with
  | nil => simp
  | cons f t =>
    apply List.map_congr_left
    intro a _
    have : (f :: t != []) = true := by simp
    rw [this, Bool.true_and]

end BiotiteModel.C07

import BiotiteModel.Model.C12Loc
/-!
# C12 — proofs about the GenBank location grammar: parsing inverts printing
-/
namespace BiotiteModel.C12

/-- what GenBank syntax can express: `<`, `>`, at most one of `.` / `^`, not MISS_LEFT/MISS_RIGHT;
`first ≤ last` is the invariant of the `Location` class -/
def Expressible (l : Loc) : Prop :=
  l.first ≤ l.last ∧ l.defect.missL = false ∧ l.defect.missR = false ∧ ¬ (l.defect.unk = true ∧ l.defect.btw = true)
/-- characters of a printed integer -/
def IntChar (c : Char) : Prop := c = '-' ∨ ('0' ≤ c ∧ c ≤ '9')

/-! ## 0. character classes and `strip` -/

def locDigits : List Char := ['0', '1', '2', '3', '4', '5', '6', '7', '8', '9']
def locIntChars : List Char := '-' :: locDigits
/-- characters of a printed single location -/
def locPSChars : List Char :=
  ['-', '0', '1', '2', '3', '4', '5', '6', '7', '8', '9', '<', '>', '.', '^',
   'c', 'o', 'm', 'p', 'l', 'e', 'n', 't', '(', ')']

theorem loc_dropWhile_of_head {p : Char → Bool} (s : Str)
    (h : ∀ c, s.head? = some c → p c = false) : s.dropWhile p = s := by
  cases s with
  | nil => rfl
  | cons a t => simp [h a (by simp)]

theorem loc_strip_of_noEdgeSpace (s : Str)
    (h1 : ∀ c, s.head? = some c → isSpace c = false)
    (h2 : ∀ c, s.getLast? = some c → isSpace c = false) : strip s = s := by
  unfold strip lstrip rstrip
  rw [loc_dropWhile_of_head s h1, loc_dropWhile_of_head, List.reverse_reverse]
  intro c hc
  apply h2
  simpa [List.head?_reverse] using hc

theorem loc_strip_of_all (s : Str) (h : ∀ c ∈ s, isSpace c = false) : strip s = s := by
  apply loc_strip_of_noEdgeSpace
  · intro c hc; exact h c (List.mem_of_mem_head? hc)
  · intro c hc; exact h c (List.mem_of_getLast? hc)

theorem locPSChars_noSpace : ∀ c ∈ locPSChars, isSpace c = false := by decide

theorem locIntChars_sub : ∀ c ∈ locIntChars, c ∈ locPSChars := by decide

theorem locIntChars_IntChar : ∀ c ∈ locIntChars, IntChar c := by
  unfold IntChar; decide

/-! ## 1. decimal integers -/

theorem digitChar_mem (d : Nat) (h : d < 10) : digitChar d ∈ locDigits := by
  have : d = 0 ∨ d = 1 ∨ d = 2 ∨ d = 3 ∨ d = 4 ∨ d = 5 ∨ d = 6 ∨ d = 7 ∨ d = 8 ∨ d = 9 := by omega
  rcases this with h | h | h | h | h | h | h | h | h | h <;> subst h <;> decide

theorem digitVal_digitChar (d : Nat) (h : d < 10) : digitVal? (digitChar d) = some d := by
  have : d = 0 ∨ d = 1 ∨ d = 2 ∨ d = 3 ∨ d = 4 ∨ d = 5 ∨ d = 6 ∨ d = 7 ∨ d = 8 ∨ d = 9 := by omega
  rcases this with h | h | h | h | h | h | h | h | h | h <;> subst h <;> decide

theorem showNatAux_chars : ∀ (f n : Nat), ∀ c ∈ showNatAux f n, c ∈ locDigits := by
  intro f
  induction f with
  | zero => intro n c hc; simp [showNatAux] at hc
  | succ f ih =>
    intro n c hc
    unfold showNatAux at hc
    by_cases hn : n < 10
    · simp only [hn, if_true, List.mem_singleton] at hc
      subst hc; exact digitChar_mem n hn
    · simp only [hn, if_false, List.mem_append, List.mem_singleton] at hc
      rcases hc with hc | hc
      · exact ih _ c hc
      · subst hc; exact digitChar_mem _ (by omega)

theorem readDigits_snoc (xs : Str) (c : Char) :
    readDigits (xs ++ [c]) =
      (match readDigits xs, digitVal? c with
       | some a, some d => some (a * 10 + d)
       | _, _ => none) := by
  unfold readDigits
  rw [List.foldl_append]
  rfl

theorem showNatAux_spec : ∀ (f n : Nat), n < f →
    readDigits (showNatAux f n) = some n ∧ showNatAux f n ≠ [] := by
  intro f
  induction f with
  | zero => intro n h; omega
  | succ f ih =>
    intro n h
    unfold showNatAux
    by_cases hn : n < 10
    · simp only [hn, if_true]
      refine ⟨?_, by simp⟩
      simp [readDigits, digitVal_digitChar n hn]
    · simp only [hn, if_false]
      have h1 := ih (n / 10) (by omega)
      refine ⟨?_, by simp⟩
      rw [readDigits_snoc, h1.1, digitVal_digitChar _ (by omega)]
      simp only [Option.some.injEq]
      omega

theorem showNat_ne_nil (n : Nat) : showNat n ≠ [] := (showNatAux_spec (n + 1) n (by omega)).2

theorem showNat_chars (n : Nat) : ∀ c ∈ showNat n, c ∈ locDigits := showNatAux_chars (n + 1) n

theorem readNat_showNat (n : Nat) : readNat (showNat n) = some n := by
  unfold readNat
  have h := showNatAux_spec (n + 1) n (by omega)
  have hne : (showNat n).isEmpty = false := by
    cases hs : showNat n with
    | nil => exact absurd hs (showNat_ne_nil n)
    | cons a t => rfl
  rw [hne]
  exact h.1

theorem showInt_locChars (i : Int) : ∀ c ∈ showInt i, c ∈ locIntChars := by
  intro c hc
  cases i with
  | ofNat n => exact List.mem_cons_of_mem _ (showNat_chars n c hc)
  | negSucc n =>
    simp only [showInt, List.mem_cons] at hc
    rcases hc with hc | hc
    · subst hc; exact List.mem_cons_self
    · exact List.mem_cons_of_mem _ (showNat_chars _ c hc)

theorem showInt_chars (i : Int) : ∀ c ∈ showInt i, IntChar c :=
  fun c hc => locIntChars_IntChar c (showInt_locChars i c hc)

theorem showInt_ne_nil (i : Int) : showInt i ≠ [] := by
  cases i with
  | ofNat n => exact showNat_ne_nil n
  | negSucc n => simp [showInt]

theorem showInt_strip (i : Int) : strip (showInt i) = showInt i :=
  loc_strip_of_all _ (fun c hc => locPSChars_noSpace c (locIntChars_sub c (showInt_locChars i c hc)))

theorem readInt_of_head (s : Str) (c : Char) (r : Str) (hs : strip s = c :: r)
    (h1 : c ≠ '-') (h2 : c ≠ '+') : readInt s = (readNat (c :: r)).map (fun n => (n : Int)) := by
  unfold readInt
  rw [hs]
  split
  · next heq => injection heq with ha _; exact absurd ha h1
  · next heq => injection heq with ha _; exact absurd ha h2
  · rfl

theorem readInt_of_neg (s : Str) (r : Str) (hs : strip s = '-' :: r) :
    readInt s = (readNat r).map (fun n => -(n : Int)) := by
  unfold readInt
  rw [hs]
  rfl

theorem readInt_showInt (i : Int) : readInt (showInt i) = some i := by
  cases i with
  | ofNat n =>
    have hs := showInt_strip (Int.ofNat n)
    have hr := readNat_showNat n
    simp only [showInt] at hs ⊢
    cases hsn : showNat n with
    | nil => exact absurd hsn (showNat_ne_nil n)
    | cons c r =>
      have hc : c ∈ locDigits := showNat_chars n c (by rw [hsn]; exact List.mem_cons_self)
      rw [hsn] at hs hr
      rw [readInt_of_head _ c r hs (by intro h; subst h; revert hc; decide)
        (by intro h; subst h; revert hc; decide), hr]
      rfl
  | negSucc n =>
    have hs := showInt_strip (Int.negSucc n)
    simp only [showInt] at hs ⊢
    rw [readInt_of_neg _ _ hs, readNat_showNat]
    rfl

/-! ## 2. single locations -/

def locTokChars : List Char := ['-', '0', '1', '2', '3', '4', '5', '6', '7', '8', '9', '<', '>']
def locCoreChars : List Char :=
  ['-', '0', '1', '2', '3', '4', '5', '6', '7', '8', '9', '<', '>', '.', '^']

/-- optional marker followed by an integer -/
def locTok (b : Bool) (m : Char) (i : Int) : Str := (if b then [m] else []) ++ showInt i

theorem locTok_chars (b : Bool) (m : Char) (i : Int) (hm : m ∈ locTokChars) :
    ∀ c ∈ locTok b m i, c ∈ locTokChars := by
  intro c hc
  have hsub : ∀ c ∈ locIntChars, c ∈ locTokChars := by decide
  unfold locTok at hc
  rcases List.mem_append.mp hc with hc | hc
  · cases b with
    | true => simp only [if_true, List.mem_singleton] at hc; subst hc; exact hm
    | false => simp at hc
  · exact hsub c (showInt_locChars i c hc)

theorem locTok_not_mem (x : Char) (hx : x ∉ locTokChars) (b : Bool) (m : Char) (i : Int)
    (hm : m ∈ locTokChars) : x ∉ locTok b m i :=
  fun h => hx (locTok_chars b m i hm x h)

theorem locTok_spec (m : Char) (hm : m ∉ locIntChars) (b : Bool) (i : Int) :
    ∃ fc fr, locTok b m i = fc :: fr ∧
      (if fc = m then readInt fr else readInt (fc :: fr)) = some i ∧ (fc == m) = b := by
  cases b with
  | true => exact ⟨m, showInt i, rfl, by simp [readInt_showInt], by simp⟩
  | false =>
    cases hs : showInt i with
    | nil => exact absurd hs (showInt_ne_nil i)
    | cons c r =>
      have hc : c ∈ locIntChars := showInt_locChars i c (by rw [hs]; exact List.mem_cons_self)
      have hne : c ≠ m := fun h => hm (h ▸ hc)
      refine ⟨c, r, by simp [locTok, hs], ?_, by simp [hne]⟩
      rw [if_neg hne, ← hs]
      exact readInt_showInt i

/-- the local function `range` of `parseSingle` -/
def locRange (parts : List Str) (d : Defect) : Option Loc :=
  match parts with
  | fs :: ls :: _ =>
    match fs, ls with
    | [], _ => none
    | _, [] => none
    | fc :: fr, lc :: lr =>
      let first? := if fc = '<' then readInt fr else readInt fs
      let last? := if lc = '>' then readInt lr else readInt ls
      match first?, last? with
      | some a, some b =>
        if a ≤ b then some ⟨a, b, false, { d with bl := fc == '<', br := lc == '>' }⟩ else none
      | _, _ => none
  | _ => none

/-- the last branch of `parseSingle` -/
def locAtom (s : Str) : Option Loc :=
  match s with
  | [] => none
  | '<' :: r => (readInt r).map (fun n => ⟨n, n, false, { bl := true }⟩)
  | '>' :: r => (readInt r).map (fun n => ⟨n, n, false, { br := true }⟩)
  | r => (readInt r).map (fun n => ⟨n, n, false, {}⟩)

theorem parseSingle_eq (s : Str) : parseSingle s =
    if hasDD s then locRange (splitDD s []) {}
    else if s.contains '.' then locRange (splitC '.' s []) { unk := true }
    else if s.contains '^' then locRange (splitC '^' s []) { btw := true }
    else locAtom s := rfl

theorem locRange_toks (bl br : Bool) (a b : Int) (hab : a ≤ b) (d : Defect) :
    locRange [locTok bl '<' a, locTok br '>' b] d
      = some ⟨a, b, false, { d with bl := bl, br := br }⟩ := by
  obtain ⟨fc, fr, h1, h2, h3⟩ := locTok_spec '<' (by decide) bl a
  obtain ⟨lc, lr, h1', h2', h3'⟩ := locTok_spec '>' (by decide) br b
  rw [h1, h1']
  simp only [locRange]
  rw [h2, h2']
  simp [hab, h3, h3']

/-! ### splitting -/

theorem splitC_append (c : Char) (a rest acc : Str) (h : c ∉ a) :
    splitC c (a ++ rest) acc = splitC c rest (a.reverse ++ acc) := by
  induction a generalizing acc with
  | nil => rfl
  | cons x a ih =>
    have hx : x ≠ c := fun e => h (e ▸ List.mem_cons_self)
    have ha : c ∉ a := fun e => h (List.mem_cons_of_mem _ e)
    simp only [List.cons_append, splitC, if_neg hx]
    rw [ih _ ha]
    simp

theorem splitC_nosep (c : Char) (a acc : Str) (h : c ∉ a) :
    splitC c a acc = [(a.reverse ++ acc).reverse] := by
  have := splitC_append c a [] acc h
  simpa [splitC] using this

theorem splitC_two (c : Char) (a b : Str) (ha : c ∉ a) (hb : c ∉ b) :
    splitC c (a ++ c :: b) [] = [a, b] := by
  rw [splitC_append c a _ [] ha]
  simp [splitC, splitC_nosep c b [] hb]

theorem splitDD_cons_ne (x : Char) (xs acc : Str) (h : x ≠ '.') :
    splitDD (x :: xs) acc = splitDD xs (x :: acc) := by
  rw [splitDD]
  intro rest h1
  exact absurd h1 h

theorem splitDD_append (a rest acc : Str) (h : '.' ∉ a) :
    splitDD (a ++ rest) acc = splitDD rest (a.reverse ++ acc) := by
  induction a generalizing acc with
  | nil => rfl
  | cons x a ih =>
    have hx : x ≠ '.' := fun e => h (e ▸ List.mem_cons_self)
    have ha : '.' ∉ a := fun e => h (List.mem_cons_of_mem _ e)
    rw [List.cons_append, splitDD_cons_ne _ _ _ hx, ih _ ha]
    simp

theorem splitDD_two (a b : Str) (ha : '.' ∉ a) (hb : '.' ∉ b) :
    splitDD (a ++ '.' :: '.' :: b) [] = [a, b] := by
  rw [splitDD_append a _ [] ha, splitDD]
  have := splitDD_append b [] [] hb
  simp only [List.append_nil] at this
  simp [this, splitDD]

theorem hasDD_cons_ne (x : Char) (xs : Str) (h : x ≠ '.') : hasDD (x :: xs) = hasDD xs := by
  rw [hasDD]
  intro rest h1
  exact absurd h1 h

theorem hasDD_append (a rest : Str) (h : '.' ∉ a) : hasDD (a ++ rest) = hasDD rest := by
  induction a with
  | nil => rfl
  | cons x a ih =>
    have hx : x ≠ '.' := fun e => h (e ▸ List.mem_cons_self)
    have ha : '.' ∉ a := fun e => h (List.mem_cons_of_mem _ e)
    rw [List.cons_append, hasDD_cons_ne _ _ hx, ih ha]

theorem hasDD_of_not_mem (a : Str) (h : '.' ∉ a) : hasDD a = false := by
  have := hasDD_append a [] h
  simpa [hasDD] using this

theorem hasDD_dot (a : Str) (h : '.' ∉ a) : hasDD ('.' :: a) = false := by
  cases a with
  | nil => simp [hasDD]
  | cons x a =>
    have hx : x ≠ '.' := fun e => h (e ▸ List.mem_cons_self)
    rw [hasDD]
    · exact hasDD_of_not_mem _ h
    · intro rest h1 h2
      injection h2 with h3 _
      exact hx h3

end BiotiteModel.C12

import BiotiteModel.Model.C12Loc
/-!
# C12 — proofs about the GenBank location grammar: parsing inverts printing
-/
namespace BiotiteModel.C12

/-- what GenBank syntax can express: `<`, `>`, at most one of `.` / `^`, not MISS_LEFT/MISS_RIGHT;
`first ≤ last` is the invariant of the `Location` class -/
def Expressible (l : Loc) : Prop :=
  l.first ≤ l.last ∧ l.defect.missL = false ∧ l.defect.missR = false ∧ ¬ (l.defect.unk = true ∧ l.defect.btw = true)
/-- characters of a printed integer -/
def IntChar (c : Char) : Prop := c = '-' ∨ ('0' ≤ c ∧ c ≤ '9')

/-! ## 0. character classes and `strip` -/

def locDigits : List Char := ['0', '1', '2', '3', '4', '5', '6', '7', '8', '9']
def locIntChars : List Char := '-' :: locDigits
/-- characters of a printed single location -/
def locPSChars : List Char :=
  ['-', '0', '1', '2', '3', '4', '5', '6', '7', '8', '9', '<', '>', '.', '^',
   'c', 'o', 'm', 'p', 'l', 'e', 'n', 't', '(', ')']

theorem loc_dropWhile_of_head {p : Char → Bool} (s : Str)
    (h : ∀ c, s.head? = some c → p c = false) : s.dropWhile p = s := by
  cases s with
  | nil => rfl
  | cons a t => simp [h a (by simp)]

theorem loc_strip_of_noEdgeSpace (s : Str)
    (h1 : ∀ c, s.head? = some c → isSpace c = false)
    (h2 : ∀ c, s.getLast? = some c → isSpace c = false) : strip s = s := by
  unfold strip lstrip rstrip
  rw [loc_dropWhile_of_head s h1, loc_dropWhile_of_head, List.reverse_reverse]
  intro c hc
  apply h2
  simpa [List.head?_reverse] using hc

theorem loc_strip_of_all (s : Str) (h : ∀ c ∈ s, isSpace c = false) : strip s = s := by
  apply loc_strip_of_noEdgeSpace
  · intro c hc; exact h c (List.mem_of_mem_head? hc)
  · intro c hc; exact h c (List.mem_of_getLast? hc)

theorem locPSChars_noSpace : ∀ c ∈ locPSChars, isSpace c = false := by decide

theorem locIntChars_sub : ∀ c ∈ locIntChars, c ∈ locPSChars := by decide

theorem locIntChars_IntChar : ∀ c ∈ locIntChars, IntChar c := by
  unfold IntChar; decide

/-! ## 1. decimal integers -/

theorem digitChar_mem (d : Nat) (h : d < 10) : digitChar d ∈ locDigits := by
  have : d = 0 ∨ d = 1 ∨ d = 2 ∨ d = 3 ∨ d = 4 ∨ d = 5 ∨ d = 6 ∨ d = 7 ∨ d = 8 ∨ d = 9 := by omega
  rcases this with h | h | h | h | h | h | h | h | h | h <;> subst h <;> decide

theorem digitVal_digitChar (d : Nat) (h : d < 10) : digitVal? (digitChar d) = some d := by
  have : d = 0 ∨ d = 1 ∨ d = 2 ∨ d = 3 ∨ d = 4 ∨ d = 5 ∨ d = 6 ∨ d = 7 ∨ d = 8 ∨ d = 9 := by omega
  rcases this with h | h | h | h | h | h | h | h | h | h <;> subst h <;> decide

theorem showNatAux_chars : ∀ (f n : Nat), ∀ c ∈ showNatAux f n, c ∈ locDigits := by
  intro f
  induction f with
  | zero => intro n c hc; simp [showNatAux] at hc
  | succ f ih =>
    intro n c hc
    unfold showNatAux at hc
    by_cases hn : n < 10
    · simp only [hn, if_true, List.mem_singleton] at hc
      subst hc; exact digitChar_mem n hn
    · simp only [hn, if_false, List.mem_append, List.mem_singleton] at hc
      rcases hc with hc | hc
      · exact ih _ c hc
      · subst hc; exact digitChar_mem _ (by omega)

theorem readDigits_snoc (xs : Str) (c : Char) :
    readDigits (xs ++ [c]) =
      (match readDigits xs, digitVal? c with
       | some a, some d => some (a * 10 + d)
       | _, _ => none) := by
  unfold readDigits
  rw [List.foldl_append]
  rfl

theorem showNatAux_spec : ∀ (f n : Nat), n < f →
    readDigits (showNatAux f n) = some n ∧ showNatAux f n ≠ [] := by
  intro f
  induction f with
  | zero => intro n h; omega
  | succ f ih =>
    intro n h
    unfold showNatAux
    by_cases hn : n < 10
    · simp only [hn, if_true]
      refine ⟨?_, by simp⟩
      simp [readDigits, digitVal_digitChar n hn]
    · simp only [hn, if_false]
      have h1 := ih (n / 10) (by omega)
      refine ⟨?_, by simp⟩
      rw [readDigits_snoc, h1.1, digitVal_digitChar _ (by omega)]
      simp only [Option.some.injEq]
      omega

theorem showNat_ne_nil (n : Nat) : showNat n ≠ [] := (showNatAux_spec (n + 1) n (by omega)).2

theorem showNat_chars (n : Nat) : ∀ c ∈ showNat n, c ∈ locDigits := showNatAux_chars (n + 1) n

theorem readNat_showNat (n : Nat) : readNat (showNat n) = some n := by
  unfold readNat
  have h := showNatAux_spec (n + 1) n (by omega)
  have hne : (showNat n).isEmpty = false := by
    cases hs : showNat n with
    | nil => exact absurd hs (showNat_ne_nil n)
    | cons a t => rfl
  rw [hne]
  exact h.1

theorem showInt_locChars (i : Int) : ∀ c ∈ showInt i, c ∈ locIntChars := by
  intro c hc
  cases i with
  | ofNat n => exact List.mem_cons_of_mem _ (showNat_chars n c hc)
  | negSucc n =>
    simp only [showInt, List.mem_cons] at hc
    rcases hc with hc | hc
    · subst hc; exact List.mem_cons_self
    · exact List.mem_cons_of_mem _ (showNat_chars _ c hc)

theorem showInt_chars (i : Int) : ∀ c ∈ showInt i, IntChar c :=
  fun c hc => locIntChars_IntChar c (showInt_locChars i c hc)

theorem showInt_ne_nil (i : Int) : showInt i ≠ [] := by
  cases i with
  | ofNat n => exact showNat_ne_nil n
  | negSucc n => simp [showInt]

theorem showInt_strip (i : Int) : strip (showInt i) = showInt i :=
  loc_strip_of_all _ (fun c hc => locPSChars_noSpace c (locIntChars_sub c (showInt_locChars i c hc)))

theorem readInt_of_head (s : Str) (c : Char) (r : Str) (hs : strip s = c :: r)
    (h1 : c ≠ '-') (h2 : c ≠ '+') : readInt s = (readNat (c :: r)).map (fun n => (n : Int)) := by
  unfold readInt
  rw [hs]
  split
  · next heq => injection heq with ha _; exact absurd ha h1
  · next heq => injection heq with ha _; exact absurd ha h2
  · rfl

theorem readInt_of_neg (s : Str) (r : Str) (hs : strip s = '-' :: r) :
    readInt s = (readNat r).map (fun n => -(n : Int)) := by
  unfold readInt
  rw [hs]
  rfl

theorem readInt_showInt (i : Int) : readInt (showInt i) = some i := by
  cases i with
  | ofNat n =>
    have hs := showInt_strip (Int.ofNat n)
    have hr := readNat_showNat n
    simp only [showInt] at hs ⊢
    cases hsn : showNat n with
    | nil => exact absurd hsn (showNat_ne_nil n)
    | cons c r =>
      have hc : c ∈ locDigits := showNat_chars n c (by rw [hsn]; exact List.mem_cons_self)
      rw [hsn] at hs hr
      rw [readInt_of_head _ c r hs (by intro h; subst h; revert hc; decide)
        (by intro h; subst h; revert hc; decide), hr]
      rfl
  | negSucc n =>
    have hs := showInt_strip (Int.negSucc n)
    simp only [showInt] at hs ⊢
    rw [readInt_of_neg _ _ hs, readNat_showNat]
    rfl

/-! ## 2. single locations -/

def locTokChars : List Char := ['-', '0', '1', '2', '3', '4', '5', '6', '7', '8', '9', '<', '>']
def locCoreChars : List Char :=
  ['-', '0', '1', '2', '3', '4', '5', '6', '7', '8', '9', '<', '>', '.', '^']

/-- optional marker followed by an integer -/
def locTok (b : Bool) (m : Char) (i : Int) : Str := (if b then [m] else []) ++ showInt i

theorem locTok_chars (b : Bool) (m : Char) (i : Int) (hm : m ∈ locTokChars) :
    ∀ c ∈ locTok b m i, c ∈ locTokChars := by
  intro c hc
  have hsub : ∀ c ∈ locIntChars, c ∈ locTokChars := by decide
  unfold locTok at hc
  rcases List.mem_append.mp hc with hc | hc
  · cases b with
    | true => simp only [if_true, List.mem_singleton] at hc; subst hc; exact hm
    | false => simp at hc
  · exact hsub c (showInt_locChars i c hc)

theorem locTok_not_mem (x : Char) (hx : x ∉ locTokChars) (b : Bool) (m : Char) (i : Int)
    (hm : m ∈ locTokChars) : x ∉ locTok b m i :=
  fun h => hx (locTok_chars b m i hm x h)

theorem locTok_spec (m : Char) (hm : m ∉ locIntChars) (b : Bool) (i : Int) :
    ∃ fc fr, locTok b m i = fc :: fr ∧
      (if fc = m then readInt fr else readInt (fc :: fr)) = some i ∧ (fc == m) = b := by
  cases b with
  | true => exact ⟨m, showInt i, rfl, by simp [readInt_showInt], by simp⟩
  | false =>
    cases hs : showInt i with
    | nil => exact absurd hs (showInt_ne_nil i)
    | cons c r =>
      have hc : c ∈ locIntChars := showInt_locChars i c (by rw [hs]; exact List.mem_cons_self)
      have hne : c ≠ m := fun h => hm (h ▸ hc)
      refine ⟨c, r, by simp [locTok, hs], ?_, by simp [hne]⟩
      rw [if_neg hne, ← hs]
      exact readInt_showInt i

/-- the local function `range` of `parseSingle` -/
def locRange (parts : List Str) (d : Defect) : Option Loc :=
  match parts with
  | fs :: ls :: _ =>
    match fs, ls with
    | [], _ => none
    | _, [] => none
    | fc :: fr, lc :: lr =>
      let first? := if fc = '<' then readInt fr else readInt fs
      let last? := if lc = '>' then readInt lr else readInt ls
      match first?, last? with
      | some a, some b =>
        if a ≤ b then some ⟨a, b, false, { d with bl := fc == '<', br := lc == '>' }⟩ else none
      | _, _ => none
  | _ => none

/-- the last branch of `parseSingle` -/
def locAtom (s : Str) : Option Loc :=
  match s with
  | [] => none
  | '<' :: r => (readInt r).map (fun n => ⟨n, n, false, { bl := true }⟩)
  | '>' :: r => (readInt r).map (fun n => ⟨n, n, false, { br := true }⟩)
  | r => (readInt r).map (fun n => ⟨n, n, false, {}⟩)

theorem parseSingle_eq (s : Str) : parseSingle s =
    if hasDD s then locRange (splitDD s []) {}
    else if s.contains '.' then locRange (splitC '.' s []) { unk := true }
    else if s.contains '^' then locRange (splitC '^' s []) { btw := true }
    else locAtom s := rfl

theorem locRange_toks (bl br : Bool) (a b : Int) (hab : a ≤ b) (d : Defect) :
    locRange [locTok bl '<' a, locTok br '>' b] d
      = some ⟨a, b, false, { d with bl := bl, br := br }⟩ := by
  obtain ⟨fc, fr, h1, h2, h3⟩ := locTok_spec '<' (by decide) bl a
  obtain ⟨lc, lr, h1', h2', h3'⟩ := locTok_spec '>' (by decide) br b
  rw [h1, h1']
  simp only [locRange]
  rw [h2, h2']
  simp [hab, h3, h3']

/-! ### splitting -/

theorem splitC_append (c : Char) (a rest acc : Str) (h : c ∉ a) :
    splitC c (a ++ rest) acc = splitC c rest (a.reverse ++ acc) := by
  induction a generalizing acc with
  | nil => rfl
  | cons x a ih =>
    have hx : x ≠ c := fun e => h (e ▸ List.mem_cons_self)
    have ha : c ∉ a := fun e => h (List.mem_cons_of_mem _ e)
    simp only [List.cons_append, splitC, if_neg hx]
    rw [ih _ ha]
    simp

theorem splitC_nosep (c : Char) (a acc : Str) (h : c ∉ a) :
    splitC c a acc = [(a.reverse ++ acc).reverse] := by
  have := splitC_append c a [] acc h
  simpa [splitC] using this

theorem splitC_two (c : Char) (a b : Str) (ha : c ∉ a) (hb : c ∉ b) :
    splitC c (a ++ c :: b) [] = [a, b] := by
  rw [splitC_append c a _ [] ha]
  simp [splitC, splitC_nosep c b [] hb]

theorem splitDD_cons_ne (x : Char) (xs acc : Str) (h : x ≠ '.') :
    splitDD (x :: xs) acc = splitDD xs (x :: acc) := by
  rw [splitDD]
  intro rest h1
  exact absurd h1 h

theorem splitDD_append (a rest acc : Str) (h : '.' ∉ a) :
    splitDD (a ++ rest) acc = splitDD rest (a.reverse ++ acc) := by
  induction a generalizing acc with
  | nil => rfl
  | cons x a ih =>
    have hx : x ≠ '.' := fun e => h (e ▸ List.mem_cons_self)
    have ha : '.' ∉ a := fun e => h (List.mem_cons_of_mem _ e)
    rw [List.cons_append, splitDD_cons_ne _ _ _ hx, ih _ ha]
    simp

theorem splitDD_two (a b : Str) (ha : '.' ∉ a) (hb : '.' ∉ b) :
    splitDD (a ++ '.' :: '.' :: b) [] = [a, b] := by
  rw [splitDD_append a _ [] ha, splitDD]
  have := splitDD_append b [] [] hb
  simp only [List.append_nil] at this
  simp [this, splitDD]

theorem hasDD_cons_ne (x : Char) (xs : Str) (h : x ≠ '.') : hasDD (x :: xs) = hasDD xs := by
  rw [hasDD]
  intro rest h1
  exact absurd h1 h

theorem hasDD_append (a rest : Str) (h : '.' ∉ a) : hasDD (a ++ rest) = hasDD rest := by
  induction a with
  | nil => rfl
  | cons x a ih =>
    have hx : x ≠ '.' := fun e => h (e ▸ List.mem_cons_self)
    have ha : '.' ∉ a := fun e => h (List.mem_cons_of_mem _ e)
    rw [List.cons_append, hasDD_cons_ne _ _ hx, ih ha]

theorem hasDD_of_not_mem (a : Str) (h : '.' ∉ a) : hasDD a = false := by
  have := hasDD_append a [] h
  simpa [hasDD] using this

theorem hasDD_dot (a : Str) (h : '.' ∉ a) : hasDD ('.' :: a) = false := by
  cases a with
  | nil => simp [hasDD]
  | cons x a =>
    have hx : x ≠ '.' := fun e => h (e ▸ List.mem_cons_self)
    rw [hasDD]
    · exact hasDD_of_not_mem _ h
    · intro rest h1 h2
      injection h2 with h3 _
      exact hx h3

/-! ### `parseSingle` on the four printed shapes -/

theorem parseSingle_dd (f la : Str) (hf : '.' ∉ f) (hl : '.' ∉ la) :
    parseSingle (f ++ ['.', '.'] ++ la) = locRange [f, la] {} := by
  have e : f ++ ['.', '.'] ++ la = f ++ '.' :: '.' :: la := by simp
  rw [parseSingle_eq, e, hasDD_append f _ hf, splitDD_two f la hf hl]
  simp [hasDD]

theorem parseSingle_dot (f la : Str) (hf : '.' ∉ f) (hl : '.' ∉ la) :
    parseSingle (f ++ ['.'] ++ la) = locRange [f, la] { unk := true } := by
  have e : f ++ ['.'] ++ la = f ++ '.' :: la := by simp
  rw [parseSingle_eq, e, hasDD_append f _ hf, hasDD_dot la hl, splitC_two '.' f la hf hl]
  simp

theorem parseSingle_caret (f la : Str) (hf : '.' ∉ f) (hl : '.' ∉ la)
    (hf' : '^' ∉ f) (hl' : '^' ∉ la) :
    parseSingle (f ++ ['^'] ++ la) = locRange [f, la] { btw := true } := by
  have e : f ++ ['^'] ++ la = f ++ '^' :: la := by simp
  have hd : '.' ∉ f ++ '^' :: la := by
    intro h
    rcases List.mem_append.mp h with h | h
    · exact hf h
    · rcases List.mem_cons.mp h with h | h
      · revert h; decide
      · exact hl h
  rw [parseSingle_eq, e, hasDD_of_not_mem _ hd, splitC_two '^' f la hf' hl']
  have hc : (f ++ '^' :: la).contains '.' = false := by simpa using hd
  rw [hc]
  simp

theorem parseSingle_atom (s : Str) (h1 : '.' ∉ s) (h2 : '^' ∉ s) : parseSingle s = locAtom s := by
  have hc1 : s.contains '.' = false := by simpa using h1
  have hc2 : s.contains '^' = false := by simpa using h2
  rw [parseSingle_eq, hasDD_of_not_mem _ h1, hc1, hc2]
  simp

theorem locAtom_plain (c : Char) (r : Str) (h1 : c ≠ '<') (h2 : c ≠ '>') :
    locAtom (c :: r) = (readInt (c :: r)).map (fun n => ⟨n, n, false, {}⟩) := by
  unfold locAtom
  split
  · next heq => exact absurd heq (by simp)
  · next heq => injection heq with ha _; exact absurd ha h1
  · next heq => injection heq with ha _; exact absurd ha h2
  · rfl

/-- the part of a printed single location inside `complement( )` -/
def locCore (l : Loc) : Str :=
  let f := locTok l.defect.bl '<' l.first
  let la := locTok l.defect.br '>' l.last
  if decide (l.first = l.last) && !l.defect.unk && !l.defect.btw && !(l.defect.bl && l.defect.br) then
    (if l.defect.br then la else f)
  else if l.defect.unk then f ++ ['.'] ++ la
  else if l.defect.btw then f ++ ['^'] ++ la
  else f ++ ['.', '.'] ++ la

theorem printSingle_eq (l : Loc) :
    printSingle l = if l.rev then "complement(".toList ++ locCore l ++ [')'] else locCore l := rfl

theorem loc_mem_join3 (P : Char → Prop) (f sep la : Str) (hf : ∀ c ∈ f, P c)
    (hs : ∀ c ∈ sep, P c) (hl : ∀ c ∈ la, P c) : ∀ c ∈ f ++ sep ++ la, P c := by
  intro c hc
  rcases List.mem_append.mp hc with hc | hc
  · rcases List.mem_append.mp hc with hc | hc
    · exact hf c hc
    · exact hs c hc
  · exact hl c hc

theorem locCore_chars (l : Loc) : ∀ c ∈ locCore l, c ∈ locCoreChars := by
  have hsub : ∀ c ∈ locTokChars, c ∈ locCoreChars := by decide
  have hf : ∀ c ∈ locTok l.defect.bl '<' l.first, c ∈ locCoreChars :=
    fun c hc => hsub c (locTok_chars _ _ _ (by decide) c hc)
  have hl : ∀ c ∈ locTok l.defect.br '>' l.last, c ∈ locCoreChars :=
    fun c hc => hsub c (locTok_chars _ _ _ (by decide) c hc)
  intro c hc
  unfold locCore at hc
  dsimp only at hc
  split at hc
  · split at hc
    · exact hl c hc
    · exact hf c hc
  · split at hc
    · exact loc_mem_join3 _ _ _ _ hf (by decide) hl c hc
    · split at hc
      · exact loc_mem_join3 _ _ _ _ hf (by decide) hl c hc
      · exact loc_mem_join3 _ _ _ _ hf (by decide) hl c hc

theorem parseSingle_locCore (l : Loc) (h : Expressible l) :
    parseSingle (locCore l) = some { l with rev := false } := by
  obtain ⟨a, b, rev, ⟨mL, mR, bl, br, unk, btw⟩⟩ := l
  obtain ⟨hab, hmL, hmR, hub⟩ := h
  dsimp only at hab hmL hmR hub
  subst hmL hmR
  have hfd : '.' ∉ locTok bl '<' a := locTok_not_mem _ (by decide) _ _ _ (by decide)
  have hld : '.' ∉ locTok br '>' b := locTok_not_mem _ (by decide) _ _ _ (by decide)
  have hfc : '^' ∉ locTok bl '<' a := locTok_not_mem _ (by decide) _ _ _ (by decide)
  have hlc : '^' ∉ locTok br '>' b := locTok_not_mem _ (by decide) _ _ _ (by decide)
  unfold locCore
  dsimp only
  by_cases hc : (decide (a = b) && !unk && !btw && !(bl && br)) = true
  · rw [if_pos hc]
    simp only [Bool.and_eq_true, decide_eq_true_eq, Bool.not_eq_true', Bool.and_eq_false_imp] at hc
    obtain ⟨⟨⟨hab', hu⟩, hb⟩, hlr⟩ := hc
    subst hab' hu hb
    cases br with
    | true =>
      cases bl with
      | true => simp at hlr
      | false =>
        rw [if_pos rfl, parseSingle_atom _ hld hlc]
        show locAtom ('>' :: showInt a) = _
        simp [locAtom, readInt_showInt]
    | false =>
      rw [if_neg (by simp), parseSingle_atom _ hfd hfc]
      cases bl with
      | true =>
        show locAtom ('<' :: showInt a) = _
        simp [locAtom, readInt_showInt]
      | false =>
        show locAtom (showInt a) = _
        cases hs : showInt a with
        | nil => exact absurd hs (showInt_ne_nil a)
        | cons c r =>
          have hcm : c ∈ locIntChars := showInt_locChars a c (by rw [hs]; exact List.mem_cons_self)
          rw [locAtom_plain c r (by intro h; subst h; revert hcm; decide)
            (by intro h; subst h; revert hcm; decide), ← hs, readInt_showInt]
          rfl
  · rw [if_neg hc]
    cases unk with
    | true =>
      have hb : btw = false := by
        cases btw with
        | true => exact absurd ⟨rfl, rfl⟩ hub
        | false => rfl
      subst hb
      rw [if_pos rfl, parseSingle_dot _ _ hfd hld, locRange_toks _ _ _ _ hab]
    | false =>
      rw [if_neg (by simp)]
      cases btw with
      | true =>
        rw [if_pos rfl, parseSingle_caret _ _ hfd hld hfc hlc, locRange_toks _ _ _ _ hab]
      | false =>
        rw [if_neg (by simp), parseSingle_dd _ _ hfd hld, locRange_toks _ _ _ _ hab]

/-! ### `parseLocsF` on the three syntactic forms -/

def locJs : Str := ['j', 'o', 'i', 'n']
def locOs : Str := ['o', 'r', 'd', 'e', 'r']
def locCs : Str := ['c', 'o', 'm', 'p', 'l', 'e', 'm', 'e', 'n', 't']

theorem loc_join_lit : "join".toList = locJs := by decide
theorem loc_order_lit : "order".toList = locOs := by decide
theorem loc_compl_lit : "complement".toList = locCs := by decide
theorem loc_joinP_lit : "join(".toList = locJs ++ ['('] := by decide
theorem loc_complP_lit : "complement(".toList = locCs ++ ['('] := by decide

theorem loc_startsWith_ne (p0 : Char) (p : Str) (s0 : Char) (s : Str) (h : p0 ≠ s0) :
    startsWith (p0 :: p) (s0 :: s) = false := by
  simp [startsWith, List.isPrefixOf, h]

theorem loc_startsWith_append (p s : Str) : startsWith p (p ++ s) = true := by
  simp [startsWith]

theorem loc_takeWhile_ne (x : Char) (pre rest : Str) (h : x ∉ pre) :
    (pre ++ x :: rest).takeWhile (· ≠ x) = pre := by
  induction pre with
  | nil => simp
  | cons y pre ih =>
    have hy : y ≠ x := fun e => h (e ▸ List.mem_cons_self)
    have hp : x ∉ pre := fun e => h (List.mem_cons_of_mem _ e)
    have hi := ih hp
    simp only [List.cons_append, List.takeWhile_cons, ne_eq, hy, not_false_eq_true, decide_true,
      if_true, List.cons.injEq, true_and]
    exact hi

theorem parenContent_wrap (pre inner : Str) (h : '(' ∉ pre) :
    parenContent (pre ++ '(' :: (inner ++ [')'])) = some inner := by
  unfold parenContent
  have h1 : (pre ++ '(' :: (inner ++ [')'])).contains '(' = true := by simp
  have h2 : (pre ++ '(' :: (inner ++ [')'])).contains ')' = true := by simp
  have h3 : (pre ++ '(' :: (inner ++ [')'])).reverse = ')' :: (inner.reverse ++ '(' :: pre.reverse) := by
    simp
  rw [if_pos ⟨h1, h2⟩]
  simp only [loc_takeWhile_ne '(' pre _ h, h3]
  have h4 : (')' :: (inner.reverse ++ '(' :: pre.reverse)).takeWhile (· ≠ ')') = [] := by simp
  rw [h4]
  have e : pre ++ '(' :: (inner ++ [')']) = (pre ++ ['(']) ++ inner ++ [')'] := by simp
  have hlen : (pre ++ '(' :: (inner ++ [')'])).length - 1 - ([] : Str).length
      = ((pre ++ ['(']) ++ inner).length := by
    simp only [List.length_append, List.length_cons, List.length_nil]; omega
  rw [hlen, e]
  unfold sliceL
  rw [List.take_left']
  · have : pre.length + 1 = (pre ++ ['(']).length := by simp
    rw [this, List.drop_left']
    rfl
  · rfl

theorem parseLocsF_single_form (f : Nat) (c : Char) (r : Str)
    (hj : c ≠ 'j') (ho : c ≠ 'o') (hc : c ≠ 'c') :
    parseLocsF (f + 1) (c :: r) = (parseSingle (c :: r)).map (fun l => [l]) := by
  rw [parseLocsF, loc_join_lit, loc_order_lit, loc_compl_lit]
  have h1 : startsWith locJs (c :: r) = false := loc_startsWith_ne _ _ _ _ (Ne.symm hj)
  have h2 : startsWith locOs (c :: r) = false := loc_startsWith_ne _ _ _ _ (Ne.symm ho)
  have h3 : startsWith locCs (c :: r) = false := loc_startsWith_ne _ _ _ _ (Ne.symm hc)
  simp [h1, h2, h3]

theorem parseLocsF_compl_form (f : Nat) (inner : Str) :
    parseLocsF (f + 1) (locCs ++ '(' :: (inner ++ [')']))
      = (parseLocsF f inner).map (fun ls => ls.map (fun l => { l with rev := true })) := by
  rw [parseLocsF, loc_join_lit, loc_order_lit, loc_compl_lit]
  have h1 : startsWith locJs (locCs ++ '(' :: (inner ++ [')'])) = false :=
    loc_startsWith_ne _ _ _ _ (by decide)
  have h2 : startsWith locOs (locCs ++ '(' :: (inner ++ [')'])) = false :=
    loc_startsWith_ne _ _ _ _ (by decide)
  have h3 := loc_startsWith_append locCs ('(' :: (inner ++ [')']))
  have h4 := parenContent_wrap locCs inner (by decide)
  simp [h1, h2, h3, h4]

theorem parseLocsF_join_form (f : Nat) (inner : Str) :
    parseLocsF (f + 1) (locJs ++ '(' :: (inner ++ [')']))
      = ((splitC ',' inner []).mapM (fun p => parseLocsF f (strip p))).map List.flatten := by
  rw [parseLocsF, loc_join_lit]
  have h1 := loc_startsWith_append locJs ('(' :: (inner ++ [')']))
  have h4 := parenContent_wrap locJs inner (by decide)
  simp [h1, h4]

theorem parseLocsF_core (l : Loc) (h : Expressible l) (f : Nat) :
    parseLocsF (f + 1) (locCore l) = some [{ l with rev := false }] := by
  have hp := parseSingle_locCore l h
  cases hs : locCore l with
  | nil =>
    have hn : parseSingle [] = none := by decide
    rw [hs, hn] at hp
    exact absurd hp (by simp)
  | cons c r =>
    have hc : c ∈ locCoreChars := locCore_chars l c (by rw [hs]; exact List.mem_cons_self)
    rw [hs] at hp
    rw [parseLocsF_single_form f c r (by intro h; subst h; revert hc; decide)
      (by intro h; subst h; revert hc; decide) (by intro h; subst h; revert hc; decide), hp]
    rfl

theorem parseLocsF_printSingle (l : Loc) (h : Expressible l) (f : Nat) (hf : 2 ≤ f) :
    parseLocsF f (printSingle l) = some [l] := by
  obtain ⟨g, rfl⟩ : ∃ g, f = g + 2 := ⟨f - 2, by omega⟩
  rw [printSingle_eq]
  cases hr : l.rev with
  | false =>
    rw [if_neg (by simp), parseLocsF_core l h]
    obtain ⟨a, b, rev, d⟩ := l
    dsimp only at hr
    subst hr
    rfl
  | true =>
    rw [if_pos rfl, loc_complP_lit]
    have e : locCs ++ ['('] ++ locCore l ++ [')'] = locCs ++ '(' :: (locCore l ++ [')']) := by simp
    rw [e, parseLocsF_compl_form, parseLocsF_core l h]
    obtain ⟨a, b, rev, d⟩ := l
    dsimp only at hr
    subst hr
    rfl

theorem printSingle_chars (l : Loc) : ∀ c ∈ printSingle l, c ∈ locPSChars := by
  have hsub : ∀ c ∈ locCoreChars, c ∈ locPSChars := by decide
  have hcore : ∀ c ∈ locCore l, c ∈ locPSChars := fun c hc => hsub c (locCore_chars l c hc)
  intro c hc
  rw [printSingle_eq] at hc
  split at hc
  · rw [loc_complP_lit] at hc
    exact loc_mem_join3 _ _ _ _ (by decide) hcore (by decide) c hc
  · exact hcore c hc

theorem printSingle_ne_nil (l : Loc) : printSingle l ≠ [] := by
  rw [printSingle_eq]
  split
  · simp
  · intro h
    cases l with
    | mk a b rev d =>
      cases d with
      | mk mL mR bl br unk btw =>
        revert h
        unfold locCore locTok
        have := showInt_ne_nil a
        have := showInt_ne_nil b
        dsimp only
        split
        · split <;> simp [*]
        · split
          · simp
          · split <;> simp

theorem parseLocs_printSingle (l : Loc) (h : Expressible l) : parseLocs (printSingle l) = some [l] := by
  unfold parseLocs
  apply parseLocsF_printSingle l h
  have := printSingle_ne_nil l
  cases hs : printSingle l with
  | nil => exact absurd hs this
  | cons c r => simp

/-! ## 3. joined locations -/

theorem splitC_intercalateC (c : Char) (xs : List Str) (hne : xs ≠ []) (h : ∀ x ∈ xs, c ∉ x) :
    splitC c (intercalateC c xs) [] = xs := by
  induction xs with
  | nil => exact absurd rfl hne
  | cons x xs ih =>
    cases xs with
    | nil =>
      simp only [intercalateC]
      rw [splitC_nosep c x [] (h x List.mem_cons_self)]
      simp
    | cons y ys =>
      have hi := ih (by simp) (fun z hz => h z (List.mem_cons_of_mem _ hz))
      simp only [intercalateC] at hi ⊢
      rw [splitC_append c x _ [] (h x List.mem_cons_self)]
      simp only [splitC, if_true, List.append_nil, List.reverse_reverse]
      rw [hi]

theorem loc_mapM_map {α β γ : Type} (g : α → Option β) (k : γ → α) (r : γ → β) (ls : List γ)
    (h : ∀ l ∈ ls, g (k l) = some (r l)) : (ls.map k).mapM g = some (ls.map r) := by
  induction ls with
  | nil => simp
  | cons l ls ih =>
    have h1 := h l List.mem_cons_self
    have h2 := ih (fun x hx => h x (List.mem_cons_of_mem _ hx))
    simp [List.mapM_cons, h1, h2]

theorem loc_flatten_singletons {α : Type} (ls : List α) : (ls.map (fun l => [l])).flatten = ls := by
  induction ls with
  | nil => rfl
  | cons l ls ih => simp [ih]

theorem printSingle_strip (l : Loc) : strip (printSingle l) = printSingle l :=
  loc_strip_of_all _ (fun c hc => locPSChars_noSpace c (printSingle_chars l c hc))

theorem printSingle_noComma (l : Loc) : ',' ∉ printSingle l := by
  intro h
  have := printSingle_chars l _ h
  revert this
  decide

theorem parseLocsF_join (ls : List Loc) (hne : ls ≠ []) (h : ∀ l ∈ ls, Expressible l)
    (f : Nat) (hf : 3 ≤ f) :
    parseLocsF f ("join(".toList ++ intercalateC ',' (ls.map printSingle) ++ [')']) = some ls := by
  obtain ⟨g, rfl⟩ : ∃ g, f = g + 3 := ⟨f - 3, by omega⟩
  have e : "join(".toList ++ intercalateC ',' (ls.map printSingle) ++ [')']
      = locJs ++ '(' :: (intercalateC ',' (ls.map printSingle) ++ [')']) := by
    rw [loc_joinP_lit]; simp
  rw [e, parseLocsF_join_form,
    splitC_intercalateC ',' (ls.map printSingle) (by simpa using hne)
      (by
        intro x hx
        obtain ⟨l, _, rfl⟩ := List.mem_map.mp hx
        exact printSingle_noComma l),
    loc_mapM_map (fun p => parseLocsF (g + 2) (strip p)) printSingle (fun l => [l]) ls
      (by
        intro l hl
        show parseLocsF (g + 2) (strip (printSingle l)) = some [l]
        rw [printSingle_strip]
        exact parseLocsF_printSingle l (h l hl) (g + 2) (by omega))]
  simp [loc_flatten_singletons]

theorem parseLocs_printLocs (ls : List Loc) (hne : ls ≠ []) (h : ∀ l ∈ ls, Expressible l) :
    parseLocs (printLocs ls) = some ls := by
  match ls, hne, h with
  | [l], _, h => exact parseLocs_printSingle l (h l List.mem_cons_self)
  | l1 :: l2 :: rest, hne, h =>
    show parseLocs ("join(".toList ++ intercalateC ',' ((l1 :: l2 :: rest).map printSingle) ++ [')'])
      = some (l1 :: l2 :: rest)
    unfold parseLocs
    apply parseLocsF_join _ hne h
    rw [loc_joinP_lit]
    simp only [List.length_append, List.length_cons, List.length_nil, locJs]
    omega

/-! ## 4. non-vacuity -/

example : printLocs [⟨5, 5, false, {br := true}⟩] = ">5".toList := by decide
example : printLocs [⟨5, 9, true, {bl := true, br := true}⟩, ⟨12, 12, false, {}⟩, ⟨7, 8, false, {btw := true}⟩]
    = "join(complement(<5..>9),12,7^8)".toList := by decide
example : parseLocs "join(complement(<5..>9),12,7^8)".toList
    = some [⟨5, 9, true, {bl := true, br := true}⟩, ⟨12, 12, false, {}⟩, ⟨7, 8, false, {btw := true}⟩] := by
  decide
example : parseLocs "-3.>4".toList = some [⟨-3, 4, false, {unk := true, br := true}⟩] := by decide
example : parseLocs "9..5".toList = none := by decide
example : Expressible ⟨5, 9, true, {bl := true, br := true}⟩ := by unfold Expressible; decide
example : ¬ Expressible ⟨5, 9, true, {unk := true, btw := true}⟩ := by unfold Expressible; decide
/-- the round trip instantiated (uses the theorem, not evaluation) -/
example : parseLocs (printLocs [⟨5, 9, true, {bl := true, br := true}⟩, ⟨-2, -2, false, {br := true}⟩])
    = some [⟨5, 9, true, {bl := true, br := true}⟩, ⟨-2, -2, false, {br := true}⟩] :=
  parseLocs_printLocs _ (by simp) (by
    intro l hl
    simp only [List.mem_cons, List.not_mem_nil, or_false] at hl
    rcases hl with rfl | rfl <;> (unfold Expressible; decide))

end BiotiteModel.C12

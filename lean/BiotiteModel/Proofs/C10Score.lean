import BiotiteModel.Model.C10
/-! `ScoreThresholdRule.similar_kmers`: the branch-and-bound search returns exactly the symbol strings
whose total score reaches the threshold, given the max-score pruning bound. -/
namespace BiotiteModel.C10

/-- total substitution score of the query symbols `qs` against the candidate symbols `ds` -/
def pairScore (m : Nat) (mat : List Int) : List Nat → List Nat → Int
  | q :: qs, d :: ds => mat[q * m + d]?.getD 0 + pairScore m mat qs ds
  | _, _ => 0

/-- the pruning bound: no candidate suffix can score more than the sum of the row maxima -/
theorem pairScore_bound (n m : Nat) (mat : List Int) (maxS : Nat → Int)
    (hb : ∀ x y, y < n → mat[x * m + y]?.getD 0 ≤ maxS x) :
    ∀ (qs ds : List Nat), ds.length = qs.length → (∀ d ∈ ds, d < n) →
      pairScore m mat qs ds ≤ (qs.map maxS).sum := by
  intro qs
  induction qs with
  | nil => intro ds _ _; cases ds <;> simp [pairScore]
  | cons q qs ih =>
    intro ds hl hd
    cases ds with
    | nil => simp at hl
    | cons d ds =>
      simp only [pairScore, List.map_cons, List.sum_cons]
      have h1 := hb q d (hd d (by simp))
      have h2 := ih ds (by simpa using hl) (fun x hx => hd x (by simp [hx]))
      omega

theorem bbSearch_spec (n m : Nat) (mat : List Int) (maxS : Nat → Int) (thr : Int)
    (hb : ∀ x y, y < n → mat[x * m + y]?.getD 0 ≤ maxS x) :
    ∀ (qs : List Nat) (score : Int) (ds : List Nat), (qs = [] → score ≥ thr) →
      (ds ∈ bbSearch n m mat maxS thr qs score ↔
        ds.length = qs.length ∧ (∀ d ∈ ds, d < n) ∧ score + pairScore m mat qs ds ≥ thr) := by
  intro qs
  induction qs with
  | nil =>
    intro score ds h0
    have := h0 rfl
    cases ds with
    | nil => simp [bbSearch, pairScore]; omega
    | cons d ds => simp [bbSearch]
  | cons q qs ih =>
    intro score ds _
    simp only [bbSearch, List.mem_flatMap, List.mem_range]
    constructor
    · rintro ⟨c, hc, hmem⟩
      split at hmem
      · rename_i hge
        simp only [List.mem_map] at hmem
        obtain ⟨ds', hds', rfl⟩ := hmem
        have hpre : qs = [] → score + mat[q * m + c]?.getD 0 ≥ thr := by
          intro hq; subst hq; simpa using hge
        obtain ⟨h1, h2, h3⟩ := (ih _ ds' hpre).1 hds'
        refine ⟨by simp [h1], ?_, ?_⟩
        · intro d hd
          rcases List.mem_cons.1 hd with rfl | hd
          · exact hc
          · exact h2 d hd
        · simp only [pairScore]; omega
      · simp at hmem
    · rintro ⟨hl, hd, hs⟩
      cases ds with
      | nil => simp at hl
      | cons c ds' =>
        have hc : c < n := hd c (by simp)
        have hl' : ds'.length = qs.length := by simpa using hl
        have hd' : ∀ d ∈ ds', d < n := fun x hx => hd x (by simp [hx])
        simp only [pairScore] at hs
        have hbound := pairScore_bound n m mat maxS hb qs ds' hl' hd'
        have hge : score + mat[q * m + c]?.getD 0 ≥ thr - (qs.map maxS).sum := by omega
        refine ⟨c, hc, ?_⟩
        simp only [hge, if_true, List.mem_map]
        refine ⟨ds', ?_, rfl⟩
        have hpre : qs = [] → score + mat[q * m + c]?.getD 0 ≥ thr := by
          intro hq; subst hq; simpa using hge
        exact (ih _ ds' hpre).2 ⟨hl', hd', by omega⟩

/-- the row maxima satisfy the pruning bound -/
theorem foldl_max_ge (l : List Int) : ∀ (init : Int), init ≤ l.foldl max init ∧ ∀ x ∈ l, x ≤ l.foldl max init := by
  induction l with
  | nil => intro init; simp
  | cons a t ih =>
    intro init
    simp only [List.foldl_cons]
    obtain ⟨h1, h2⟩ := ih (max init a)
    refine ⟨by omega, ?_⟩
    intro x hx
    rcases List.mem_cons.1 hx with rfl | hx
    · omega
    · exact h2 x hx

theorem rowMax_bound (m : Nat) (mat : List Int) (x y : Nat) (hy : y < m) :
    mat[x * m + y]?.getD 0 ≤ rowMax m mat x := by
  unfold rowMax
  apply (foldl_max_ge _ _).2
  simp only [List.mem_map, List.mem_range]
  exact ⟨y, hy, rfl⟩

theorem splitCode_length (n : Nat) : ∀ (k q : Nat), (splitCode n k q).length = k := by
  intro k
  induction k with
  | zero => intro q; simp [splitCode]
  | succ k ih => intro q; simp [splitCode, ih]

end BiotiteModel.C10

import BiotiteModel.Model.C17Graph
/-!
# C17 — proofs: the recursive DFS marks exactly the reachable atoms, and
`get_molecule_indices` returns exactly the connected components.

Core-only (no Mathlib).
-/
namespace BiotiteModel.C17

/-! ## Reachability -/

theorem Reach.trans {adj : Nat → List Nat} {r u w : Nat}
    (h1 : Reach adj r u) (h2 : Reach adj u w) : Reach adj r w := by
  induction h2 with
  | refl => exact h1
  | step _ hw ih => exact Reach.step ih hw

theorem reach_lt {n : Nat} {adj : Nat → List Nat} {r u : Nat}
    (hwf : WF n adj) (hr : r < n) (h : Reach adj r u) : u < n := by
  induction h with
  | refl => exact hr
  | step _ hw ih => exact hwf _ ih _ hw

theorem reach_symm {n : Nat} {adj : Nat → List Nat} {r u : Nat}
    (hwf : WF n adj) (hsym : Symm n adj) (hr : r < n) (h : Reach adj r u) : Reach adj u r := by
  induction h with
  | refl => exact Reach.refl
  | @step u w hu hw ih =>
    have hun : u < n := reach_lt hwf hr hu
    exact Reach.trans (Reach.step Reach.refl (hsym u hun w hw)) ih

/-! ## Masks -/

/-- `mask[v]` is `True`. -/
def Vis (m : List Bool) (v : Nat) : Prop := m[v]? = some true

theorem vis_lt {m : List Bool} {v : Nat} (h : Vis m v) : v < m.length := by
  unfold Vis at h
  have := (List.getElem?_eq_some_iff.1 h).1
  exact this

theorem count_le_of_mono : ∀ (m m' : List Bool), m'.length = m.length →
    (∀ u, Vis m u → Vis m' u) → m'.count false ≤ m.count false
  | [], [], _, _ => by simp
  | [], _ :: _, h, _ => by simp at h
  | _ :: _, [], h, _ => by simp at h
  | a :: t, b :: t', hl, hm => by
    have ih := count_le_of_mono t t' (by simpa using hl)
      (fun u h => by simpa [Vis] using hm (u + 1) (by simpa [Vis] using h))
    have h0 := hm 0
    simp only [Vis, List.getElem?_cons_zero, Option.some.injEq] at h0
    cases a <;> cases b <;> simp_all <;> omega

theorem count_lt_of_mono : ∀ (m m' : List Bool) (r : Nat), m'.length = m.length →
    (∀ u, Vis m u → Vis m' u) → m[r]? = some false → Vis m' r →
    m'.count false < m.count false
  | [], _, _, _, _, h, _ => by simp at h
  | _ :: _, [], _, _, _, _, h => by simp [Vis] at h
  | a :: t, b :: t', 0, hl, hm, h1, h2 => by
    have ih := count_le_of_mono t t' (by simpa using hl)
      (fun u h => by simpa [Vis] using hm (u + 1) (by simpa [Vis] using h))
    simp only [Vis, List.getElem?_cons_zero, Option.some.injEq] at h1 h2
    subst h1 h2
    simp
    omega
  | a :: t, b :: t', r + 1, hl, hm, h1, h2 => by
    have ih := count_lt_of_mono t t' r (by simpa using hl)
      (fun u h => by simpa [Vis] using hm (u + 1) (by simpa [Vis] using h))
      (by simpa using h1) (by simpa [Vis] using h2)
    have h0 := hm 0
    simp only [Vis, List.getElem?_cons_zero, Option.some.injEq] at h0
    cases a <;> cases b <;> simp_all <;> omega

theorem vis_of_count_zero {m : List Bool} {v : Nat} (hc : m.count false = 0) (hv : v < m.length) :
    Vis m v := by
  have hnot : false ∉ m := List.count_eq_zero.1 hc
  have hmem : m[v] ∈ m := List.getElem_mem hv
  unfold Vis
  rw [List.getElem?_eq_getElem hv]
  cases hb : m[v] with
  | true => rfl
  | false => rw [hb] at hmem; exact absurd hmem hnot

theorem vis_set {m : List Bool} {c v : Nat} :
    Vis (m.set c true) v ↔ Vis m v ∨ (v = c ∧ v < m.length) := by
  unfold Vis
  rw [List.getElem?_set]
  by_cases h : c = v
  · subst h
    by_cases hl : c < m.length
    · simp [hl]
    · simp [hl]
  · simp [h]
    intro h'; exact absurd h'.symm h

/-! ## The DFS -/

/-- What a DFS call (or a sequence of DFS calls from the sources `srcs`) does to the mask. -/
structure VSpec (adj : Nat → List Nat) (srcs : List Nat) (m m' : List Bool) : Prop where
  len : m'.length = m.length
  mono : ∀ u, Vis m u → Vis m' u
  src : ∀ w ∈ srcs, Vis m' w
  reach : ∀ u, Vis m' u → ¬ Vis m u → ∃ w ∈ srcs, Reach adj w u
  closed : ∀ u, Vis m' u → ¬ Vis m u → ∀ w ∈ adj u, Vis m' w

theorem vspec_self {adj : Nat → List Nat} {m : List Bool} {v : Nat} (h : Vis m v) :
    VSpec adj [v] m m :=
  ⟨rfl, fun _ h => h, fun w hw => by simp at hw; subst hw; exact h,
    fun u hu hn => absurd hu hn, fun u hu hn => absurd hu hn⟩

theorem fold_spec {n : Nat} {adj : Nat → List Nat} {f : Nat}
    (hIH : ∀ v m, m.length = n → v < n → m.count false ≤ f →
      ∃ m', visit adj f v m = some m' ∧ VSpec adj [v] m m') :
    ∀ (ws : List Nat) (m : List Bool), (∀ w ∈ ws, w < n) → m.length = n → m.count false ≤ f →
      ∃ m', ws.foldlM (fun acc w => visit adj f w acc) m = some m' ∧ VSpec adj ws m m' := by
  intro ws
  induction ws with
  | nil =>
    intro m _ _ _
    exact ⟨m, by simp, rfl, fun _ h => h, fun w hw => by simp at hw,
      fun u hu hn => absurd hu hn, fun u hu hn => absurd hu hn⟩
  | cons w ws ih =>
    intro m hws hl hc
    obtain ⟨m1, e1, s1⟩ := hIH w m hl (hws w (by simp)) hc
    have hc1 : m1.count false ≤ f := Nat.le_trans (count_le_of_mono m m1 s1.len s1.mono) hc
    obtain ⟨m2, e2, s2⟩ := ih m1 (fun x hx => hws x (by simp [hx])) (s1.len.trans hl) hc1
    refine ⟨m2, by simp [List.foldlM_cons, e1, e2], ?_⟩
    constructor
    · exact s2.len.trans s1.len
    · exact fun u h => s2.mono u (s1.mono u h)
    · intro x hx
      rcases List.mem_cons.1 hx with rfl | hx
      · exact s2.mono _ (s1.src _ (by simp))
      · exact s2.src _ hx
    · intro u hu hnu
      by_cases h1 : Vis m1 u
      · obtain ⟨x, hx, hr⟩ := s1.reach u h1 hnu
        simp at hx; subst hx; exact ⟨x, by simp, hr⟩
      · obtain ⟨x, hx, hr⟩ := s2.reach u hu h1
        exact ⟨x, by simp [hx], hr⟩
    · intro u hu hnu x hx
      by_cases h1 : Vis m1 u
      · exact s2.mono _ (s1.closed u h1 hnu x hx)
      · exact s2.closed u hu h1 x hx

theorem visit_spec {n : Nat} {adj : Nat → List Nat} (hwf : WF n adj) :
    ∀ f v m, m.length = n → v < n → m.count false ≤ f →
      ∃ m', visit adj f v m = some m' ∧ VSpec adj [v] m m' := by
  intro f
  induction f with
  | zero =>
    intro v m hl hv hc
    have hvis : Vis m v := vis_of_count_zero (by omega) (by omega)
    have hvis' : m[v]? = some true := hvis
    exact ⟨m, by simp [visit, hvis'], vspec_self hvis⟩
  | succ f ih =>
    intro v m hl hv hc
    cases hb : m[v]? with
    | none =>
      have := List.getElem?_eq_none_iff.1 hb
      omega
    | some b =>
      cases b with
      | true => exact ⟨m, by simp [visit, hb], vspec_self hb⟩
      | false =>
        have hvl : v < m.length := by omega
        have hlen1 : (m.set v true).length = m.length := List.length_set
        have hmono1 : ∀ u, Vis m u → Vis (m.set v true) u := fun u h => vis_set.2 (Or.inl h)
        have hv1 : Vis (m.set v true) v := vis_set.2 (Or.inr ⟨rfl, hvl⟩)
        have hnv : ¬ Vis m v := by simp [Vis, hb]
        have hcnt : (m.set v true).count false < m.count false :=
          count_lt_of_mono m _ v hlen1 hmono1 hb hv1
        obtain ⟨m', e, s⟩ := fold_spec ih (adj v) (m.set v true) (hwf v hv)
          (hlen1.trans hl) (by omega)
        refine ⟨m', by simp [visit, hb, e], ?_⟩
        constructor
        · exact s.len.trans hlen1
        · exact fun u h => s.mono u (hmono1 u h)
        · intro w hw
          simp at hw; subst hw
          exact s.mono _ hv1
        · intro u hu hnu
          by_cases huv : u = v
          · subst huv; exact ⟨u, by simp, Reach.refl⟩
          · have hnu1 : ¬ Vis (m.set v true) u := by
              intro h
              rcases vis_set.1 h with h | h
              · exact hnu h
              · exact huv h.1
            obtain ⟨w, hw, hr⟩ := s.reach u hu hnu1
            exact ⟨v, by simp, Reach.trans (Reach.step Reach.refl hw) hr⟩
        · intro u hu hnu
          by_cases huv : u = v
          · subst huv; exact s.src
          · have hnu1 : ¬ Vis (m.set v true) u := by
              intro h
              rcases vis_set.1 h with h | h
              · exact hnu h
              · exact huv h.1
            exact s.closed u hu hnu1

/-- DFS with fuel `n` terminates normally and marks exactly the reachable atoms. -/
theorem connectedMask_spec (n : Nat) (adj : Nat → List Nat) (r : Nat) (hwf : WF n adj) (hr : r < n) :
    ∃ m, connectedMask n adj r = some m ∧ m.length = n ∧ ∀ v, m[v]? = some true ↔ Reach adj r v := by
  obtain ⟨m, e, s⟩ := visit_spec hwf n r (List.replicate n false) (by simp) hr (by simp)
  have hnone : ∀ u, ¬ Vis (List.replicate n false) u := by
    intro u h
    unfold Vis at h
    rw [List.getElem?_replicate] at h
    split at h <;> simp at h
  refine ⟨m, e, by simpa using s.len, ?_⟩
  intro v
  constructor
  · intro h
    obtain ⟨w, hw, hrw⟩ := s.reach v h (hnone v)
    simp at hw; subst hw; exact hrw
  · intro h
    induction h with
    | refl => exact s.src r (by simp)
    | step _ hw ih => exact s.closed _ ih (hnone _) _ hw

/-! ## `np.where` -/

theorem whereFrom_mem : ∀ (m : List Bool) (k v : Nat),
    v ∈ whereFrom k m ↔ k ≤ v ∧ m[v - k]? = some true
  | [], k, v => by simp [whereFrom]
  | t :: r, k, v => by
    have ih := whereFrom_mem r (k + 1) v
    by_cases hvk : v = k
    · subst hvk
      cases t <;> simp [whereFrom, ih] <;> omega
    · by_cases hlt : k ≤ v
      · have e : v - k = (v - (k + 1)) + 1 := by omega
        rw [e, List.getElem?_cons_succ]
        cases t <;> simp [whereFrom, ih, hvk] <;> omega
      · cases t <;> simp [whereFrom, ih, hvk] <;> omega

theorem whereFrom_pairwise : ∀ (m : List Bool) (k : Nat), (whereFrom k m).Pairwise (· < ·)
  | [], k => by simp [whereFrom]
  | t :: r, k => by
    have ih := whereFrom_pairwise r (k + 1)
    cases t
    · simpa [whereFrom] using ih
    · simp only [whereFrom, if_true, List.pairwise_cons]
      refine ⟨fun x hx => ?_, ih⟩
      have := ((whereFrom_mem r (k + 1) x).1 hx).1
      omega

/-- `np.where(mask)[0]`: strictly ascending, and `v` is listed iff `mask[v]` is True. -/
theorem whereTrue_spec (m : List Bool) :
    (whereTrue m).Pairwise (· < ·) ∧ ∀ v, v ∈ whereTrue m ↔ m[v]? = some true :=
  ⟨whereFrom_pairwise m 0, fun v => by simpa [whereTrue] using whereFrom_mem m 0 v⟩

/-! ## `find_connected` -/

theorem findConnected_spec (n : Nat) (adj : Nat → List Nat) (r : Nat) (hwf : WF n adj) (hr : r < n)
    (h32 : n ≤ 4294967296) :
    ∃ l, findConnected n adj (r : Int) = .ok l ∧ l.Pairwise (· < ·) ∧ ∀ v, v ∈ l ↔ Reach adj r v := by
  obtain ⟨m, e, _, hm⟩ := connectedMask_spec n adj r hwf hr
  refine ⟨whereTrue m, ?_, (whereTrue_spec m).1, fun v => ((whereTrue_spec m).2 v).trans (hm v)⟩
  unfold findConnected
  have h1 : ¬ ((r : Int) < 0 ∨ (r : Int) ≥ 4294967296) := by omega
  have h2 : ¬ ((r : Int).toNat ≥ n) := by simp; omega
  rw [if_neg h1, if_neg h2, Int.toNat_natCast, e]

theorem findConnected_rejects (n : Nat) (adj : Nat → List Nat) (root : Int) :
    (root < 0 → findConnected n adj root = .error .overflowError) ∧
    (0 ≤ root → root < 4294967296 → (n : Int) ≤ root → findConnected n adj root = .error .valueError) := by
  constructor
  · intro h
    unfold findConnected
    rw [if_pos (Or.inl h)]
  · intro h0 h1 h2
    unfold findConnected
    have h1' : ¬ (root < 0 ∨ root ≥ 4294967296) := by omega
    have h2' : root.toNat ≥ n := by omega
    rw [if_neg h1', if_pos h2']

/-! ## The bond table -/

/-- the table built from a bond list with in-range indices is well-formed and symmetric -/
theorem neighbours_mem (bonds : List (Nat × Nat)) (v w : Nat) :
    w ∈ neighbours bonds v ↔ (v, w) ∈ bonds ∨ (w, v) ∈ bonds := by
  unfold neighbours
  rw [List.mem_filterMap]
  constructor
  · rintro ⟨⟨a, b⟩, hb, h⟩
    simp only at h
    split at h
    · next h1 => simp at h; subst h1 h; exact Or.inl hb
    · split at h
      · next h2 => simp at h; subst h2 h; exact Or.inr hb
      · simp at h
  · rintro (h | h)
    · exact ⟨(v, w), h, by simp⟩
    · refine ⟨(w, v), h, ?_⟩
      by_cases hwv : w = v
      · simp [hwv]
      · simp [hwv]

theorem neighbours_wf (n : Nat) (bonds : List (Nat × Nat)) (h : ∀ b ∈ bonds, b.1 < n ∧ b.2 < n) :
    WF n (neighbours bonds) := by
  intro v _ w hw
  rcases (neighbours_mem bonds v w).1 hw with hb | hb
  · exact (h _ hb).2
  · exact (h _ hb).1

theorem neighbours_symm (n : Nat) (bonds : List (Nat × Nat)) : Symm n (neighbours bonds) := by
  intro u _ v hv
  rw [neighbours_mem] at hv ⊢
  exact hv.symm

/-! ## `get_molecule_indices` -/

theorem markAll_length : ∀ (conn : List Nat) (vis : List Bool), (markAll vis conn).length = vis.length
  | [], vis => rfl
  | c :: conn, vis => by
    have ih := markAll_length conn (vis.set c true)
    simpa [markAll] using ih

theorem markAll_vis : ∀ (conn : List Nat) (vis : List Bool) (v : Nat),
    Vis (markAll vis conn) v ↔ Vis vis v ∨ (v ∈ conn ∧ v < vis.length)
  | [], vis, v => by simp [markAll]
  | c :: conn, vis, v => by
    have ih := markAll_vis conn (vis.set c true) v
    have e : markAll vis (c :: conn) = markAll (vis.set c true) conn := rfl
    rw [e, ih, vis_set, List.length_set, List.mem_cons]
    constructor
    · rintro ((h | ⟨h1, h2⟩) | ⟨h1, h2⟩)
      · exact Or.inl h
      · exact Or.inr ⟨Or.inl h1, h2⟩
      · exact Or.inr ⟨Or.inr h1, h2⟩
    · rintro (h | ⟨h1 | h1, h2⟩)
      · exact Or.inl (Or.inl h)
      · exact Or.inl (Or.inr ⟨h1, h2⟩)
      · exact Or.inr ⟨h1, h2⟩

/-- Loop invariant of `get_molecule_indices`. -/
structure Inv (n : Nat) (adj : Nat → List Nat) (vis : List Bool) (acc : List (List Nat)) : Prop where
  len : vis.length = n
  marks : ∀ v, Vis vis v ↔ ∃ c ∈ acc, v ∈ c
  cls : ∀ c ∈ acc, c ≠ [] ∧ c.Pairwise (· < ·) ∧ ∀ u ∈ c, ∀ v, v ∈ c ↔ Reach adj u v
  disj : acc.Pairwise (fun a b => ∀ v, v ∈ a → v ∉ b)

/-- What `get_molecule_indices` promises about its result. -/
def Final (n : Nat) (adj : Nat → List Nat) (comps : List (List Nat)) : Prop :=
  (∀ c ∈ comps, c ≠ [] ∧ c.Pairwise (· < ·)) ∧
  (∀ v, v < n → ∃ c ∈ comps, v ∈ c) ∧
  comps.Pairwise (fun a b => ∀ v, v ∈ a → v ∉ b) ∧
  (∀ c ∈ comps, ∀ u ∈ c, ∀ v, v ∈ c ↔ Reach adj u v)

theorem inv_final {n : Nat} {adj : Nat → List Nat} {vis : List Bool} {acc : List (List Nat)}
    (inv : Inv n adj vis acc) (hall : vis.all id = true) : Final n adj acc.reverse := by
  rw [List.all_eq_true] at hall
  refine ⟨fun c hc => ?_, fun v hv => ?_, ?_, fun c hc => ?_⟩
  · have := inv.cls c (List.mem_reverse.1 hc)
    exact ⟨this.1, this.2.1⟩
  · have hvl : v < vis.length := by rw [inv.len]; exact hv
    have hvis : Vis vis v := by
      unfold Vis
      rw [List.getElem?_eq_getElem hvl]
      have := hall _ (List.getElem_mem hvl)
      simpa using this
    obtain ⟨c, hc, hvc⟩ := (inv.marks v).1 hvis
    exact ⟨c, List.mem_reverse.2 hc, hvc⟩
  · rw [List.pairwise_reverse]
    exact inv.disj.imp (fun {a b} h v hvb hva => h v hva hvb)
  · exact (inv.cls c (List.mem_reverse.1 hc)).2.2

theorem inv_step {n : Nat} {adj : Nat → List Nat} (hwf : WF n adj) (hsym : Symm n adj)
    {vis : List Bool} {acc : List (List Nat)} (inv : Inv n adj vis acc)
    (hall : ¬ vis.all id = true) :
    ∃ m, connectedMask n adj (vis.idxOf false) = some m ∧
      Inv n adj (markAll vis (whereTrue m)) (whereTrue m :: acc) ∧
      (markAll vis (whereTrue m)).count false < vis.count false := by
  have hmem : false ∈ vis := by
    rw [List.all_eq_true] at hall
    apply Classical.byContradiction
    intro hn
    apply hall
    intro x hx
    cases x with
    | true => rfl
    | false => exact absurd hx hn
  have hrl : vis.idxOf false < vis.length := List.idxOf_lt_length_of_mem hmem
  have hroot : vis[vis.idxOf false]? = some false := by
    rw [List.getElem?_eq_getElem hrl, List.getElem_idxOf hrl]
  generalize vis.idxOf false = root at hrl hroot ⊢
  have hrn : root < n := by rw [← inv.len]; exact hrl
  have hnvis : ¬ Vis vis root := by simp [Vis, hroot]
  obtain ⟨m, e, hml, hm⟩ := connectedMask_spec n adj root hwf hrn
  obtain ⟨hpw, hwt⟩ := whereTrue_spec m
  have hconn : ∀ v, v ∈ whereTrue m ↔ Reach adj root v := fun v => (hwt v).trans (hm v)
  have hconn_lt : ∀ v, v ∈ whereTrue m → v < vis.length := by
    intro v hv
    rw [inv.len]
    exact reach_lt hwf hrn ((hconn v).1 hv)
  have hrootmem : root ∈ whereTrue m := (hconn root).2 Reach.refl
  have hmarks : ∀ v, Vis (markAll vis (whereTrue m)) v ↔ Vis vis v ∨ v ∈ whereTrue m := by
    intro v
    rw [markAll_vis]
    constructor
    · rintro (h | h)
      · exact Or.inl h
      · exact Or.inr h.1
    · rintro (h | h)
      · exact Or.inl h
      · exact Or.inr ⟨h, hconn_lt v h⟩
  refine ⟨m, e, ⟨?_, ?_, ?_, ?_⟩, ?_⟩
  · rw [markAll_length]; exact inv.len
  · intro v
    rw [hmarks, inv.marks]
    constructor
    · rintro (⟨c, hc, hv⟩ | h)
      · exact ⟨c, List.mem_cons_of_mem _ hc, hv⟩
      · exact ⟨_, List.mem_cons_self, h⟩
    · rintro ⟨c, hc, hv⟩
      rcases List.mem_cons.1 hc with rfl | hc
      · exact Or.inr hv
      · exact Or.inl ⟨c, hc, hv⟩
  · intro c hc
    rcases List.mem_cons.1 hc with rfl | hc
    · refine ⟨List.ne_nil_of_mem hrootmem, hpw, ?_⟩
      intro u hu v
      have hru : Reach adj root u := (hconn u).1 hu
      have hur : Reach adj u root := reach_symm hwf hsym hrn hru
      rw [hconn]
      exact ⟨fun h => hur.trans h, fun h => hru.trans h⟩
    · exact inv.cls c hc
  · rw [List.pairwise_cons]
    refine ⟨?_, inv.disj⟩
    intro b hb v hv hvb
    have hrv : Reach adj root v := (hconn v).1 hv
    have hvr : Reach adj v root := reach_symm hwf hsym hrn hrv
    have : root ∈ b := ((inv.cls b hb).2.2 v hvb root).2 hvr
    exact hnvis ((inv.marks root).2 ⟨b, hb, this⟩)
  · exact count_lt_of_mono vis _ root (markAll_length _ _)
      (fun u h => (hmarks u).2 (Or.inl h)) hroot ((hmarks root).2 (Or.inr hrootmem))

theorem molLoop_spec {n : Nat} {adj : Nat → List Nat} (hwf : WF n adj) (hsym : Symm n adj) :
    ∀ (f : Nat) (vis : List Bool) (acc : List (List Nat)), Inv n adj vis acc →
      vis.count false ≤ f → ∃ comps, molLoop n adj f vis acc = some comps ∧ Final n adj comps := by
  intro f
  induction f with
  | zero =>
    intro vis acc inv hc
    by_cases hall : vis.all id = true
    · exact ⟨acc.reverse, by simp [molLoop, hall], inv_final inv hall⟩
    · obtain ⟨m, _, _, hlt⟩ := inv_step hwf hsym inv hall
      omega
  | succ f ih =>
    intro vis acc inv hc
    by_cases hall : vis.all id = true
    · exact ⟨acc.reverse, by simp [molLoop, hall], inv_final inv hall⟩
    · obtain ⟨m, e, inv', hlt⟩ := inv_step hwf hsym inv hall
      obtain ⟨comps, e', hfin⟩ := ih _ _ inv' (by omega)
      exact ⟨comps, by simp [molLoop, hall, e, e'], hfin⟩

/-- `get_molecule_indices` terminates within `n` iterations and returns exactly the connected
components: non-empty ascending index lists, pairwise disjoint, covering every atom, each being the
full reachability class of each of its members. -/
theorem moleculeIndices_spec (n : Nat) (adj : Nat → List Nat) (hwf : WF n adj) (hsym : Symm n adj) :
    ∃ comps, moleculeIndices n adj = some comps ∧
      (∀ c ∈ comps, c ≠ [] ∧ c.Pairwise (· < ·)) ∧
      (∀ v, v < n → ∃ c ∈ comps, v ∈ c) ∧
      comps.Pairwise (fun a b => ∀ v, v ∈ a → v ∉ b) ∧
      (∀ c ∈ comps, ∀ u ∈ c, ∀ v, v ∈ c ↔ Reach adj u v) := by
  have inv0 : Inv n adj (List.replicate n false) [] := by
    refine ⟨by simp, fun v => ?_, fun c hc => by simp at hc, List.Pairwise.nil⟩
    unfold Vis
    rw [List.getElem?_replicate]
    split <;> simp
  exact molLoop_spec hwf hsym n _ _ inv0 (by simp)

/-! ## The recursion really is `n` deep on a chain -/

/-- The bond table of the linear chain `0 - 1 - … - (n-1)`. -/
def chainAdj (n : Nat) (v : Nat) : List Nat :=
  (if v = 0 then [] else [v - 1]) ++ (if v + 1 < n then [v + 1] else [])

theorem visit_of_vis {adj : Nat → List Nat} {f v : Nat} {m : List Bool} (h : Vis m v) :
    visit adj f v m = some m := by
  have h' : m[v]? = some true := h
  cases f <;> simp [visit, h']

theorem chain_none (n : Nat) : ∀ (f v : Nat) (m : List Bool), f + v < n →
    (v ≠ 0 → Vis m (v - 1)) → (∀ u, v ≤ u → u < n → m[u]? = some false) →
    visit (chainAdj n) f v m = none := by
  intro f
  induction f with
  | zero =>
    intro v m hf _ h2
    have hv : m[v]? = some false := h2 v (Nat.le_refl _) (by omega)
    simp [visit, hv]
  | succ f ih =>
    intro v m hf h1 h2
    have hv : m[v]? = some false := h2 v (Nat.le_refl _) (by omega)
    have hvl : v < m.length := (List.getElem?_eq_some_iff.1 hv).1
    have hnext : visit (chainAdj n) f (v + 1) (m.set v true) = none := by
      apply ih (v + 1) (m.set v true) (by omega)
      · intro _
        exact vis_set.2 (Or.inr ⟨by omega, by simpa using hvl⟩)
      · intro u hu hun
        rw [List.getElem?_set, if_neg (by omega)]
        exact h2 u (by omega) hun
    have hlt : v + 1 < n := by omega
    by_cases hv0 : v = 0
    · subst hv0
      simp [visit, hv, chainAdj, hlt, hnext]
    · have hprev : visit (chainAdj n) f (v - 1) (m.set v true) = some (m.set v true) :=
        visit_of_vis (vis_set.2 (Or.inl (h1 hv0)))
      simp [visit, hv, chainAdj, hv0, hlt, hprev, hnext]

/-- Fuel `n - 1` does not suffice on a linear chain of `n` atoms: the C recursion is `n` deep. -/
theorem chain_needs_full_depth (n : Nat) (hn : 0 < n) :
    visit (chainAdj n) (n - 1) 0 (List.replicate n false) = none := by
  apply chain_none n (n - 1) 0 _ (by omega) (by simp)
  intro u _ hu
  simp [hu]

end BiotiteModel.C17

import BiotiteModel.Proofs.C01RefConcat
/-! Refinement of the register machine: `Sstep ∘ absState = absState ∘ step`. -/
namespace BiotiteModel.C01

def absState (st : State) : SState := st.map absVal

def absStep (p : State × Out) : SState × SOut := (absState p.1, absOut p.2)

theorem sreg_abs (st : State) (i : Nat) : sreg (absState st) i = absVal (reg st i) := by
  simp only [sreg, reg, absState, List.getD_eq_getElem?_getD, List.getElem?_map]
  cases st[i]? <;> rfl

theorem sarrOf_abs (st : State) (i : Nat) : sarrOf (absState st) i = (arrOf st i).map abs := by
  unfold sarrOf arrOf
  rw [sreg_abs]
  cases reg st i <;> rfl

theorem sarrsOf_abs (st : State) : ∀ (is : List Nat), sarrsOf (absState st) is = (arrsOf st is).map (·.map abs)
  | [] => rfl
  | i :: r => by
    unfold sarrsOf arrsOf
    rw [sarrOf_abs, sarrsOf_abs st r]
    cases arrOf st i <;> cases arrsOf st r <;> rfl

theorem satomsOf_abs (st : State) : ∀ (is : List Nat), satomsOf (absState st) is = atomsOf st is
  | [] => rfl
  | i :: r => by
    unfold satomsOf atomsOf
    rw [sreg_abs, satomsOf_abs st r]
    cases reg st i <;> cases atomsOf st r <;> rfl

theorem absState_set (st : State) (d : Nat) (v : Val) : absState (st.set d v) = (absState st).set d (absVal v) := by
  simp [absState, List.map_set]

theorem sput_abs (st : State) (d : Nat) (r : Except Err Val) :
    sput (absState st) d (r.map absVal) = absStep (put st d r) := by
  cases r with
  | error e => rfl
  | ok v => simp only [sput, put, Except.map, absStep, absOut, absState_set]

theorem sputArr_abs (st : State) (d : Nat) (r : Except Err Arr) :
    sputArr (absState st) d (r.map abs) = absStep (putArr st d r) := by
  unfold sputArr putArr
  rw [← sput_abs]
  cases r <;> rfl

/-- lifting an operation on one source container -/
theorem bind_abs {β γ} (st : State) (s : Nat) (hst : WFState st) (f : Arr → Except Err β) (g : SArr → Except Err γ)
    (m : β → γ) (h : ∀ a, WF a → g (abs a) = (f a).map m) :
    (sarrOf (absState st) s).bind g = ((arrOf st s).bind f).map m := by
  rw [sarrOf_abs]
  cases ha : arrOf st s with
  | error e => rfl
  | ok a => exact h a (arrOf_wf hst ha)

/-- operations the refinement theorem covers: all of them (kept so that statements mention coverage explicitly) -/
def Covered : Op → Prop := fun _ => True

theorem step_refines (st : State) (op : Op) (hst : WFState st) (hc : Covered op) :
    Sstep (absState st) op = absStep (step st op) := by
  cases op with
  | new d stack n cols coord box bonds =>
    simp only [Sstep, step]; rw [SmkNew_ref]; exact sputArr_abs _ _ _
  | atom d cols c => exact sput_abs st d (.ok (.atom (mkAtom cols c)))
  | get d s ix =>
    simp only [Sstep, step]
    rw [bind_abs st s hst (fun a => getitem a ix) _ absVal (fun a _ => Sgetitem_ref a ix)]
    exact sput_abs _ _ _
  | get2 d s i0 i1 =>
    simp only [Sstep, step]
    rw [bind_abs st s hst (fun a => getitem2 a i0 i1) _ absVal (fun a _ => Sgetitem2_ref a i0 i1)]
    exact sput_abs _ _ _
  | set s ix v =>
    simp only [Sstep, step]
    rw [sreg_abs, bind_abs st s hst (fun a => setitem a ix (reg st v)) _ abs
      (fun a ha => Ssetitem_ref a ix (reg st v) ha (reg_wf hst v))]
    cases (arrOf st s).bind (fun a => setitem a ix (reg st v)) with
    | error e => rfl
    | ok a => simp only [Except.map, absStep, absOut, absState_set]; rfl
  | del s ix =>
    simp only [Sstep, step]
    rw [bind_abs st s hst (fun a => delitem a ix) _ abs (fun a ha => Sdelitem_ref a ix ha)]
    exact sputArr_abs _ _ _
  | concat d ss =>
    simp only [Sstep, step]
    rw [sarrsOf_abs]
    have : ((arrsOf st ss).map (·.map abs)).bind Sconcatenate = ((arrsOf st ss).bind concatenate).map abs := by
      cases has : arrsOf st ss with
      | error e => rfl
      | ok as => exact Sconcatenate_ref as (arrsOf_wf hst has)
    rw [this]; exact sputArr_abs _ _ _
  | stack d ss =>
    simp only [Sstep, step]
    rw [sarrsOf_abs]
    have : ((arrsOf st ss).map (·.map abs)).bind SstackArrays = ((arrsOf st ss).bind stackArrays).map abs := by
      cases has : arrsOf st ss with
      | error e => rfl
      | ok as => exact SstackArrays_ref as (arrsOf_wf hst has)
    rw [this]; exact sputArr_abs _ _ _
  | array d ss =>
    simp only [Sstep, step]
    rw [satomsOf_abs]
    have : (atomsOf st ss).bind SarrayOf = ((atomsOf st ss).bind arrayOf).map abs := by
      cases atomsOf st ss with
      | error e => rfl
      | ok as => exact SarrayOf_ref as
    rw [this]; exact sputArr_abs _ _ _
  | rep d s k toks =>
    simp only [Sstep, step]
    rw [bind_abs st s hst (fun a => repeatArr a k toks) _ abs (fun a ha => SrepeatArr_ref a k toks ha)]
    exact sputArr_abs _ _ _
  | tmpl d s coord box =>
    simp only [Sstep, step]
    rw [bind_abs st s hst (fun a => fromTemplate a coord box) _ abs (fun a _ => SfromTemplate_ref a coord box)]
    exact sputArr_abs _ _ _
  | addann s k =>
    simp only [Sstep, step]
    rw [sarrOf_abs]
    have : ((arrOf st s).map abs).map (fun a => SaddAnnotation a k) = ((arrOf st s).map (fun a => addAnnotation a k)).map abs := by
      cases arrOf st s with
      | error e => rfl
      | ok a => simp only [Except.map, SaddAnnotation_ref]
    rw [this]; exact sputArr_abs _ _ _
  | setann s k c =>
    simp only [Sstep, step]
    rw [bind_abs st s hst (fun a => setAnnotation a k c) _ abs (fun a _ => SsetAnnotation_ref a k c)]
    exact sputArr_abs _ _ _
  | delann s k =>
    simp only [Sstep, step]
    rw [bind_abs st s hst (fun a => delAnnotation a k) _ abs (fun a _ => SdelAnnotation_ref a k)]
    exact sputArr_abs _ _ _
  | setcoord s coord =>
    simp only [Sstep, step]
    rw [bind_abs st s hst (fun a => setCoord a coord) _ abs (fun a _ => SsetCoord_ref a coord)]
    exact sputArr_abs _ _ _
  | setbox s box =>
    simp only [Sstep, step]
    rw [bind_abs st s hst (fun a => setBox a box) _ abs (fun a _ => SsetBox_ref a box)]
    exact sputArr_abs _ _ _
  | setbonds s bs =>
    simp only [Sstep, step]
    rw [bind_abs st s hst (fun a => setBonds a bs) _ abs (fun a _ => SsetBonds_ref a bs)]
    exact sputArr_abs _ _ _
  | copy d s =>
    simp only [Sstep, step]
    rw [sreg_abs]
    cases reg st s with
    | none => rfl
    | atom t => simp only [absVal, absStep, absOut, absState_set]
    | arr a => simp only [absVal, absStep, absOut, absState_set]
  | eq s t =>
    simp only [Sstep, step]
    rw [sarrOf_abs, sarrOf_abs]
    cases ha : arrOf st s with
    | error e => rfl
    | ok a =>
      cases hb : arrOf st t with
      | error e => rfl
      | ok b =>
        simp only [Except.map, absStep, absOut]
        rw [SequalArr_ref a b (arrOf_wf hst ha) (arrOf_wf hst hb)]

end BiotiteModel.C01

import BiotiteModel.Proofs.C19Cluster
import BiotiteModel.Proofs.C19Binary
import Mathlib.Tactic.Ring
import Mathlib.Tactic.FieldSimp
import Mathlib.Tactic.Linarith
/-! UPGMA: the tree is ultrametric and every merge height is half the average-linkage distance. -/
namespace BiotiteModel.C19

/-- Sum of the original distances over all leaf pairs of two clusters. -/
def pairSum (D : Nat → Nat → Rat) (A B : List Nat) : Rat :=
  (A.map fun a => (B.map fun b => D a b).sum).sum

/-- Average-linkage distance of two clusters. -/
def avg (D : Nat → Nat → Rat) (A B : List Nat) : Rat :=
  pairSum D A B / ((A.length : Rat) * (B.length : Rat))

theorem pairSum_nil_left (D : Nat → Nat → Rat) (B : List Nat) : pairSum D [] B = 0 := rfl

theorem pairSum_cons_left (D : Nat → Nat → Rat) (a : Nat) (A B : List Nat) :
    pairSum D (a :: A) B = (B.map fun b => D a b).sum + pairSum D A B := by
  simp [pairSum]

theorem pairSum_append_left (D : Nat → Nat → Rat) (A A' B : List Nat) :
    pairSum D (A ++ A') B = pairSum D A B + pairSum D A' B := by
  induction A with
  | nil => simp [pairSum_nil_left]
  | cons a A ih => simp only [List.cons_append, pairSum_cons_left, ih]; ring

theorem pairSum_nil_right (D : Nat → Nat → Rat) (A : List Nat) : pairSum D A [] = 0 := by
  induction A with
  | nil => rfl
  | cons a A ih => simp [pairSum_cons_left, ih]

theorem pairSum_cons_right (D : Nat → Nat → Rat) (b : Nat) (A B : List Nat) :
    pairSum D A (b :: B) = (A.map fun a => D a b).sum + pairSum D A B := by
  induction A with
  | nil => simp [pairSum_nil_left]
  | cons a A ih => simp only [pairSum_cons_left, ih, List.map_cons, List.sum_cons]; ring

theorem pairSum_swap (D : Nat → Nat → Rat) (hsym : ∀ a b, D a b = D b a) (A B : List Nat) :
    pairSum D A B = pairSum D B A := by
  induction A with
  | nil => simp [pairSum_nil_left, pairSum_nil_right]
  | cons a A ih =>
    have e : (B.map fun b => D a b) = (B.map fun b => D b a) :=
      List.map_congr_left (fun b _ => hsym a b)
    rw [pairSum_cons_left, pairSum_cons_right, ih, e]

theorem avg_swap (D : Nat → Nat → Rat) (hsym : ∀ a b, D a b = D b a) (A B : List Nat) :
    avg D A B = avg D B A := by
  unfold avg
  rw [pairSum_swap D hsym A B, mul_comm]

/-- What UPGMA builds: leaves at height 0; a node of height `h` over two subtrees of heights `h1`,
`h2` hangs them at `h - h1`, `h - h2`, and `h` is half the average-linkage distance of their leaf
sets. -/
def Good (D : Nat → Nat → Rat) : T Rat → Rat → Prop
  | .leaf _, h => h = 0
  | .node (.cons l1 t1 (.cons l2 t2 .nil)), h =>
    ∃ h1 h2, Good D t1 h1 ∧ Good D t2 h2 ∧ l1 = h - h1 ∧ l2 = h - h2 ∧
      h = avg D t1.leaves t2.leaves / 2
  | .node _, _ => False

/-- Ultrametric: in a `Good` tree of height `h` every leaf is at depth `h`. -/
theorem Good.depth {D : Nat → Nat → Rat} : ∀ {t : T Rat} {h : Rat}, Good D t h → ∀ r ∈ t.rows, r.1 = h
  | .leaf _, h, hg => by
    intro r hr
    simp [T.rows] at hr
    simp [Good] at hg
    rw [hr, hg]
  | .node (.cons l1 t1 (.cons l2 t2 .nil)), h, hg => by
    obtain ⟨h1, h2, g1, g2, e1, e2, _⟩ := hg
    intro r hr
    have hrows : (T.node (.cons l1 t1 (.cons l2 t2 .nil))).rows
        = glue (shift l1 t1.rows) (shift l2 t2.rows) := by simp [T.rows, F.rows, glue_nil]
    rw [hrows] at hr
    simp only [glue, List.mem_append, List.mem_map, shift] at hr
    rcases hr with ⟨a, ⟨b, hb, rfl⟩, rfl⟩ | ⟨b, hb, rfl⟩
    · have := Good.depth g1 b hb
      simp [this, e1]
    · have := Good.depth g2 b hb
      simp [this, e2]
  | .node .nil, _, hg => by simp [Good] at hg
  | .node (.cons _ _ .nil), _, hg => by simp [Good] at hg
  | .node (.cons _ _ (.cons _ _ (.cons _ _ _))), _, hg => by simp [Good] at hg

/-- Invariant of the merge loop. -/
structure UAInv (n : Nat) (D : Nat → Nat → Rat) (s : UState) : Prop where
  good : ∀ k, k < n → s.cl k = false → Good D (s.nd k) (s.ht k)
  size : ∀ k, k < n → s.cl k = false → s.sz k = (s.nd k).leaves.length ∧ 0 < s.sz k
  link : ∀ a b, a < n → b < n → s.cl a = false → s.cl b = false → a ≠ b →
    s.d a b = avg D (s.nd a).leaves (s.nd b).leaves

theorem UAInv_init (n : Nat) (D : Nat → Nat → Rat) : UAInv n D (UState.init D) where
  good := by intro k _ _; simp [UState.init, Good]
  size := by intro k _ _; simp [UState.init, T.leaves]
  link := by
    intro a b _ _ _ _ _
    simp [UState.init, T.leaves, avg, pairSum]

theorem avg_merge (D : Nat → Nat → Rat) (A B C : List Nat) (hA : 0 < A.length) (hB : 0 < B.length)
    (hC : 0 < C.length) :
    (avg D A C * (A.length : Rat) + avg D B C * (B.length : Rat)) / ((A.length + B.length : Nat) : Rat)
      = avg D (A ++ B) C := by
  unfold avg
  rw [pairSum_append_left]
  have a0 : (A.length : Rat) ≠ 0 := by exact_mod_cast (Nat.pos_iff_ne_zero.mp hA)
  have b0 : (B.length : Rat) ≠ 0 := by exact_mod_cast (Nat.pos_iff_ne_zero.mp hB)
  have c0 : (C.length : Rat) ≠ 0 := by exact_mod_cast (Nat.pos_iff_ne_zero.mp hC)
  have ab0 : ((A.length : Rat) + (B.length : Rat)) ≠ 0 := by
    have : (0 : Rat) < (A.length : Rat) + (B.length : Rat) := by
      have h1 : (0 : Rat) < (A.length : Rat) := by exact_mod_cast hA
      have h2 : (0 : Rat) < (B.length : Rat) := by exact_mod_cast hB
      linarith
    exact ne_of_gt this
  simp only [List.length_append]
  push_cast
  field_simp


theorem merge_d (n : Nat) (s : UState) (m : Rat) (i j a b : Nat) :
    (s.merge n m i j).d a b =
      if a = i ∧ b < n ∧ (!(upd s.cl j true) b) = true ∧ b ≠ i then
        (s.d i b * (s.sz i : Rat) + s.d j b * (s.sz j : Rat)) / ((s.sz i + s.sz j : Nat) : Rat)
      else if b = i ∧ a < n ∧ (!(upd s.cl j true) a) = true ∧ a ≠ i then
        (s.d i a * (s.sz i : Rat) + s.d j a * (s.sz j : Rat)) / ((s.sz i + s.sz j : Nat) : Rat)
      else s.d a b := rfl

theorem UAInv_step {n : Nat} {D : Nat → Nat → Rat} {s s' : UState} (hsym : ∀ a b, D a b = D b a)
    (h : UAInv n D s) (hs : upgmaStep n s = some s') : UAInv n D s' := by
  unfold upgmaStep at hs
  split at hs
  · cases hs
  · rename_i m i j hmin
    cases hs
    obtain ⟨hji, hin, hci, hcj, hm, _⟩ := scanMin_some hmin
    have hij : i ≠ j := by omega
    have hjn : j < n := by omega
    have live' : ∀ k, upd s.cl j true k = false → k ≠ j ∧ s.cl k = false := by
      intro k hk
      by_cases hkj : k = j
      · simp [upd, hkj] at hk
      · exact ⟨hkj, by simpa [upd, hkj] using hk⟩
    have hLi := h.size i hin hci
    have hLj := h.size j hjn hcj
    have hleaves : ((s.merge n m i j).nd i).leaves = (s.nd i).leaves ++ (s.nd j).leaves := by
      simp [UState.merge, upd, T.leaves, F.leaves]
    have hnd : ∀ k, k ≠ i → (s.merge n m i j).nd k = s.nd k := by
      intro k hk; simp [UState.merge, upd, hk]
    constructor
    · intro k hk hck
      obtain ⟨hkj, hck0⟩ := live' k hck
      by_cases hki : k = i
      · subst hki
        have e1 : (s.merge n m k j).nd k
            = .node (.cons (m / 2 - s.ht k) (s.nd k) (.cons (m / 2 - s.ht j) (s.nd j) .nil)) := by
          simp [UState.merge, upd]
        have e2 : (s.merge n m k j).ht k = m / 2 := by simp [UState.merge, upd]
        rw [e1, e2]
        refine ⟨s.ht k, s.ht j, h.good k hk hck0, h.good j hjn hcj, rfl, rfl, ?_⟩
        rw [hm, h.link k j hk hjn hck0 hcj hij]
      · have e2 : (s.merge n m i j).ht k = s.ht k := by simp [UState.merge, upd, hki]
        rw [hnd k hki, e2]
        exact h.good k hk hck0
    · intro k hk hck
      obtain ⟨hkj, hck0⟩ := live' k hck
      by_cases hki : k = i
      · subst hki
        have e : (s.merge n m k j).sz k = s.sz k + s.sz j := by simp [UState.merge, upd]
        rw [e, hleaves, List.length_append]
        omega
      · have e : (s.merge n m i j).sz k = s.sz k := by simp [UState.merge, upd, hki]
        rw [e, hnd k hki]
        exact h.size k hk hck0
    · intro a b ha hb hca hcb hab
      obtain ⟨haj, hca0⟩ := live' a hca
      obtain ⟨hbj, hcb0⟩ := live' b hcb
      have hcb' : (!(upd s.cl j true) b) = true := by
        have : upd s.cl j true b = false := hcb
        simp [this]
      have hca' : (!(upd s.cl j true) a) = true := by
        have : upd s.cl j true a = false := hca
        simp [this]
      rw [merge_d]
      by_cases hai : a = i
      · subst hai
        have hba : b ≠ a := fun e => hab e.symm
        rw [if_pos ⟨rfl, hb, hcb', hba⟩, hleaves, hnd b hba,
          h.link a b ha hb hca0 hcb0 hab, h.link j b hjn hb hcj hcb0 (fun e => hbj e.symm),
          hLi.1, hLj.1]
        have hLb := h.size b hb hcb0
        exact avg_merge D _ _ _ (by omega) (by omega) (by omega)
      · by_cases hbi : b = i
        · subst hbi
          have c1 : ¬ (a = b ∧ b < n ∧ (!(upd s.cl j true) b) = true ∧ b ≠ b) := fun c => hai c.1
          rw [if_neg c1, if_pos ⟨rfl, ha, hca', hai⟩, hleaves, hnd a hai,
            h.link b a hb ha hcb0 hca0 (fun e => hab e.symm), h.link j a hjn ha hcj hca0 (fun e => haj e.symm),
            hLi.1, hLj.1, avg_swap D hsym (s.nd a).leaves]
          have hLa := h.size a ha hca0
          exact avg_merge D _ _ _ (by omega) (by omega) (by omega)
        · have c1 : ¬ (a = i ∧ b < n ∧ (!(upd s.cl j true) b) = true ∧ b ≠ i) := fun c => hai c.1
          have c2 : ¬ (b = i ∧ a < n ∧ (!(upd s.cl j true) a) = true ∧ a ≠ i) := fun c => hbi c.1
          rw [if_neg c1, if_neg c2, hnd a hai, hnd b hbi]
          exact h.link a b ha hb hca0 hcb0 hab

theorem upgmaLoop_inv (n : Nat) (P : UState → Prop)
    (hstep : ∀ s s', P s → upgmaStep n s = some s' → P s') :
    ∀ (fuel : Nat) (s : UState), P s → P (upgmaLoop n fuel s) := by
  intro fuel
  induction fuel with
  | zero => intro s h; exact h
  | succ fuel ih =>
    intro s h
    show P (match upgmaStep n s with | none => s | some s' => upgmaLoop n fuel s')
    cases hs : upgmaStep n s with
    | none => exact h
    | some s' => exact ih s' (hstep s s' h hs)

/-- **UPGMA is ultrametric with average-linkage merge heights.** -/
theorem upgma_good (n : Nat) (D : Nat → Nat → Rat) (hsym : ∀ a b, D a b = D b a) (t : T Rat)
    (h : upgma n D = .ok t) : ∃ height, Good D t height := by
  unfold upgma at h
  split at h; · cases h
  split at h; · cases h
  split at h; · cases h
  rename_i _ _ hn
  have hinv := upgmaLoop_inv n (fun s => UAInv n D s ∧ UInv n s)
    (fun s s' hp hs => ⟨UAInv_step hsym hp.1 hs, (UInv_step hp.2 hs).1⟩) n (UState.init D)
    ⟨UAInv_init n D, UInv_init n D⟩
  simp only [mkTree] at h
  split at h
  · cases h
    exact ⟨_, hinv.1.good (n - 1) (by omega) hinv.2.2⟩
  · cases h


/-! ### heights are monotone: no negative branch length -/
mutual
def T.NonNeg : T Rat → Prop
  | .leaf _ => True
  | .node cs => cs.NonNeg
def F.NonNeg : F Rat → Prop
  | .nil => True
  | .cons d t r => 0 ≤ d ∧ t.NonNeg ∧ r.NonNeg
end

theorem mean_ge (c x y : Rat) (si sj : Nat) (hi : 0 < si) (hj : 0 < sj) (hx : c ≤ x) (hy : c ≤ y) :
    c ≤ (x * (si : Rat) + y * (sj : Rat)) / ((si + sj : Nat) : Rat) := by
  have h1 : (0 : Rat) < (si : Rat) := by exact_mod_cast hi
  have h2 : (0 : Rat) < (sj : Rat) := by exact_mod_cast hj
  have h3 : (0 : Rat) < ((si + sj : Nat) : Rat) := by push_cast; linarith
  rw [le_div_iff₀ h3]
  push_cast
  nlinarith [mul_le_mul_of_nonneg_right hx h1.le, mul_le_mul_of_nonneg_right hy h2.le]

structure UMInv (n : Nat) (s : UState) : Prop where
  mono : ∀ a b, a < n → b < n → s.cl a = false → s.cl b = false → a ≠ b → 2 * s.ht a ≤ s.d a b
  nonneg : ∀ k, k < n → s.cl k = false → (s.nd k).NonNeg

theorem UMInv_step {n : Nat} {D : Nat → Nat → Rat} {s s' : UState} (hsym : ∀ a b, D a b = D b a)
    (hA : UAInv n D s) (h : UMInv n s) (hs : upgmaStep n s = some s') : UMInv n s' := by
  unfold upgmaStep at hs
  split at hs
  · cases hs
  · rename_i m i j hmin
    cases hs
    obtain ⟨hji, hin, hci, hcj, hm, hminimal⟩ := scanMin_some hmin
    have hij : i ≠ j := by omega
    have hjn : j < n := by omega
    have symd : ∀ a b, a < n → b < n → s.cl a = false → s.cl b = false → a ≠ b → s.d a b = s.d b a := by
      intro a b ha hb hca hcb hab
      rw [hA.link a b ha hb hca hcb hab, hA.link b a hb ha hcb hca (fun e => hab e.symm), avg_swap D hsym]
    have hmin' : ∀ a b, a < n → b < n → s.cl a = false → s.cl b = false → a ≠ b → m ≤ s.d a b := by
      intro a b ha hb hca hcb hab
      rcases Nat.lt_or_gt_of_ne hab with hlt | hgt
      · rw [symd a b ha hb hca hcb hab]; exact hminimal b a hlt hb hcb hca
      · exact hminimal a b hgt ha hca hcb
    have live' : ∀ k, upd s.cl j true k = false → k ≠ j ∧ s.cl k = false := by
      intro k hk
      by_cases hkj : k = j
      · simp [upd, hkj] at hk
      · exact ⟨hkj, by simpa [upd, hkj] using hk⟩
    have hLi := (hA.size i hin hci).2
    have hLj := (hA.size j hjn hcj).2
    constructor
    · intro a b ha hb hca hcb hab
      obtain ⟨haj, hca0⟩ := live' a hca
      obtain ⟨hbj, hcb0⟩ := live' b hcb
      have hcb' : (!(upd s.cl j true) b) = true := by
        have : upd s.cl j true b = false := hcb
        simp [this]
      have hca' : (!(upd s.cl j true) a) = true := by
        have : upd s.cl j true a = false := hca
        simp [this]
      rw [merge_d]
      by_cases hai : a = i
      · subst hai
        have hba : b ≠ a := fun e => hab e.symm
        have e2 : (s.merge n m a j).ht a = m / 2 := by simp [UState.merge, upd]
        rw [if_pos ⟨rfl, hb, hcb', hba⟩, e2]
        have := mean_ge m (s.d a b) (s.d j b) (s.sz a) (s.sz j) hLi hLj
          (hmin' a b ha hb hca0 hcb0 hab) (hmin' j b hjn hb hcj hcb0 (fun e => hbj e.symm))
        linarith
      · have e2 : (s.merge n m i j).ht a = s.ht a := by simp [UState.merge, upd, hai]
        rw [e2]
        by_cases hbi : b = i
        · subst hbi
          have c1 : ¬ (a = b ∧ b < n ∧ (!(upd s.cl j true) b) = true ∧ b ≠ b) := fun c => hai c.1
          rw [if_neg c1, if_pos ⟨rfl, ha, hca', hai⟩]
          have h1 := h.mono a b ha hb hca0 hcb0 hab
          have h2 := h.mono a j ha hjn hca0 hcj haj
          rw [symd a b ha hb hca0 hcb0 hab] at h1
          rw [symd a j ha hjn hca0 hcj haj] at h2
          exact mean_ge _ _ _ _ _ hLi hLj h1 h2
        · have c1 : ¬ (a = i ∧ b < n ∧ (!(upd s.cl j true) b) = true ∧ b ≠ i) := fun c => hai c.1
          have c2 : ¬ (b = i ∧ a < n ∧ (!(upd s.cl j true) a) = true ∧ a ≠ i) := fun c => hbi c.1
          rw [if_neg c1, if_neg c2]
          exact h.mono a b ha hb hca0 hcb0 hab
    · intro k hk hck
      obtain ⟨hkj, hck0⟩ := live' k hck
      by_cases hki : k = i
      · subst hki
        have e1 : (s.merge n m k j).nd k
            = .node (.cons (m / 2 - s.ht k) (s.nd k) (.cons (m / 2 - s.ht j) (s.nd j) .nil)) := by
          simp [UState.merge, upd]
        rw [e1]
        have h1 := h.mono k j hk hjn hck0 hcj hij
        have h2 := h.mono j k hjn hk hcj hck0 (fun e => hij e.symm)
        rw [symd j k hjn hk hcj hck0 (fun e => hij e.symm)] at h2
        rw [← hm] at h1 h2
        refine ⟨by linarith, h.nonneg k hk hck0, by linarith, h.nonneg j hjn hcj, trivial⟩
      · have : (s.merge n m i j).nd k = s.nd k := by simp [UState.merge, upd, hki]
        rw [this]
        exact h.nonneg k hk hck0

theorem anyNegative_false {n : Nat} {D : Nat → Nat → Rat} (h : anyNegative n D = false) :
    ∀ a b, a < n → b < n → 0 ≤ D a b := by
  intro a b ha hb
  unfold anyNegative at h
  rw [List.any_eq_false] at h
  have := h a (List.mem_range.mpr ha)
  rw [Bool.not_eq_true, List.any_eq_false] at this
  have := this b (List.mem_range.mpr hb)
  simpa using this

/-- No branch of a UPGMA tree is negative (merge heights are monotone). -/
theorem upgma_nonneg (n : Nat) (D : Nat → Nat → Rat) (hsym : ∀ a b, D a b = D b a) (t : T Rat)
    (h : upgma n D = .ok t) : t.NonNeg := by
  unfold upgma at h
  split at h; · cases h
  split at h; · cases h
  rename_i _ hneg
  split at h; · cases h
  rename_i hn
  have hpos := anyNegative_false (by simpa using hneg)
  have hinv := upgmaLoop_inv n (fun s => UAInv n D s ∧ UMInv n s ∧ UInv n s)
    (fun s s' hp hs => ⟨UAInv_step hsym hp.1 hs, UMInv_step hsym hp.1 hp.2.1 hs, (UInv_step hp.2.2 hs).1⟩)
    n (UState.init D)
    ⟨UAInv_init n D, ⟨by
        intro a b ha hb _ _ _
        have := hpos a b ha hb
        simp [UState.init]; linarith,
      by intro k _ _; simp [UState.init, T.NonNeg]⟩, UInv_init n D⟩
  simp only [mkTree] at h
  split at h
  · cases h
    exact hinv.2.1.nonneg (n - 1) (by omega) hinv.2.2.2
  · cases h

end BiotiteModel.C19

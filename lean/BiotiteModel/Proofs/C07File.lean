import BiotiteModel.Proofs.C07Stack
/-! Whole-file composition helpers. -/
namespace BiotiteModel.C07

theorem mapME_getElem {α β : Type} (f : α → Except Err β) : ∀ (l : List α) (r : List β), mapME f l = .ok r →
    ∀ j, (h1 : j < l.length) → (h2 : j < r.length) → f l[j] = .ok r[j] := by
  intro l
  induction l with
  | nil => intro r _ j h1; simp at h1
  | cons a as ih =>
    intro r h j h1 h2
    simp only [mapME, bind, Except.bind] at h
    cases hf : f a with
    | error e => rw [hf] at h; cases h
    | ok b =>
      rw [hf] at h
      cases hm : mapME f as with
      | error e => rw [hm] at h; cases h
      | ok bs =>
        rw [hm] at h
        simp only [pure, Except.pure, Except.ok.injEq] at h
        subst h
        cases j with
        | zero => simpa using hf
        | succ j => simpa using ih bs hm j (by simpa using h1) (by simpa using h2)

/-- the halves `set_structure` assembles, atom by atom -/
def halvesOf (fl : Flags) (atoms : List Atom) (ids ress : List Line) : List (Line × Line) :=
  (atoms.zip (ids.zip ress)).map fun q => (firstHalf q.1 q.2.1 q.2.2, secondHalf fl q.1)

theorem halvesOf_getElem (fl : Flags) (atoms : List Atom) (ids ress : List Line) (hi : ids.length = atoms.length)
    (hr : ress.length = atoms.length) (j : Nat) (hj : j < atoms.length) :
    ∃ h : j < (halvesOf fl atoms ids ress).length,
      (halvesOf fl atoms ids ress)[j] = (firstHalf atoms[j] (ids[j]'(by omega)) (ress[j]'(by omega)), secondHalf fl atoms[j]) := by
  refine ⟨by simp [halvesOf, hi, hr]; exact hj, ?_⟩
  simp [halvesOf]

theorem halvesOf_length (fl : Flags) (atoms : List Atom) (ids ress : List Line) (hi : ids.length = atoms.length)
    (hr : ress.length = atoms.length) : (halvesOf fl atoms ids ress).length = atoms.length := by
  simp [halvesOf, hi, hr]

theorem recordsOf_length (halves : List (Line × Line)) (coords : List Coord) (h : coords.length = halves.length) :
    (recordsOf halves coords).length = halves.length := by
  simp [recordsOf, h]

theorem recordsOf_getElem (halves : List (Line × Line)) (coords : List Coord) (j : Nat) (h1 : j < halves.length)
    (h2 : j < coords.length) :
    ∃ h : j < (recordsOf halves coords).length, (recordsOf halves coords)[j] = atomLine halves[j].1 halves[j].2 coords[j] := by
  refine ⟨by simp [recordsOf]; omega, ?_⟩
  simp [recordsOf]

theorem enum_map_snd {α β : Type} (f : α → β) (l : List α) : (enum l).map (fun p => f p.2) = l.map f := by
  rw [enum_eq_enumFrom]
  generalize 0 = o
  induction l generalizing o with
  | nil => rfl
  | cons x xs ih => simp [enumFrom, ih]

/-- the model blocks of a written stack form a `GoodFile` -/
theorem written_goodFile (fl : Flags) (atoms : List Atom) (ids ress : List Line) (models : List (List Coord)) (con : List Line)
    (hcon : ∀ x ∈ con, isAtomLine x = false ∧ isModelLine x = false) :
    GoodFile ((enum models).map fun p => ("MODEL     ".toList ++ rjust 4 (natDec (p.1 + 1)), recordsOf (halvesOf fl atoms ids ress) p.2)) con := by
  refine ⟨?_, ?_, hcon⟩
  · intro b hb
    obtain ⟨p, _, rfl⟩ := List.mem_map.1 hb
    exact modelRecord_kind _
  · intro b hb x hx
    obtain ⟨p, _, rfl⟩ := List.mem_map.1 hb
    obtain ⟨q, hq, rfl⟩ := List.mem_map.1 hx
    have hm := (List.of_mem_zip hq).1
    obtain ⟨a, _, ha⟩ := List.mem_map.1 hm
    rw [← ha]
    exact atomLine_kind a.1 a.2.1 a.2.2 _ _

/-- the blocks `splitModels` finds in a written stack (after any neutral prefix, lines padded as `PDBFile.read` does) -/
theorem splitModels_written (fl : Flags) (s : Struct) (pre lines : List Line) (h : writePdb fl s = .ok lines)
    (hpre : Neutral pre) (hM : 2 ≤ s.models.length) :
    ∃ ids ress : List Line,
      mapME (fun p => idText fl.h36 5 pdbMaxAtoms (effId fl p.1 p.2)) (enum s.atoms) = .ok ids ∧
      mapME (fun a => idText fl.h36 4 pdbMaxResidues a.resId) s.atoms = .ok ress ∧
      splitModels ((pre ++ lines).map (ljust 80)) =
        s.models.map (fun m => (recordsOf (halvesOf fl s.atoms ids ress) m).map (ljust 80)) := by
  obtain ⟨ids, ress, con, hi, hr, hcon, hl⟩ := writePdb_shape fl s lines h
  have hst : decide (1 < s.models.length) = true := by simp; omega
  rw [hst] at hl
  refine ⟨ids, ress, hi, hr, ?_⟩
  have hfile : lines = fileOf ((enum s.models).map fun p =>
      ("MODEL     ".toList ++ rjust 4 (natDec (p.1 + 1)), recordsOf (halvesOf fl s.atoms ids ress) p.2)) con := by
    rw [hl]
    simp only [fileOf, List.map_map]
    congr 2
  have g := written_goodFile fl s.atoms ids ress s.models con hcon
  have hne : ((enum s.models).map fun p =>
      ("MODEL     ".toList ++ rjust 4 (natDec (p.1 + 1)), recordsOf (halvesOf fl s.atoms ids ress) p.2)) ≠ [] := by
    intro h0
    have := congrArg List.length h0
    simp only [List.length_map, enum_length, List.length_nil] at this
    omega
  rw [splitModels_pad, hfile, splitModels_blocks pre _ con hpre g hne, List.map_map, List.map_map]
  exact enum_map_snd (fun m => (recordsOf (halvesOf fl s.atoms ids ress) m).map (ljust 80)) s.models

end BiotiteModel.C07

import BiotiteModel.Proofs.C02
/-!
# C02 — `__getitem__` as a relabelling of the map by the inverse index

`selMap bs sel p q`: the type of the new pair `(p, q)` is the type of the old unordered pair `{sel[p], sel[q]}`.
Both branches of `__getitem__` (index array; boolean mask through its `nonzero` positions) produce exactly
`bonds.filterMap (relabel sel)`, whose `lookup` is `selMap`.
-/
namespace BiotiteModel.C02
open BiotiteModel

/-- the reference: new pair `(p, q)` (sorted) carries the type of the old unordered pair `{sel[p], sel[q]}` -/
def selMap (bs : List Bond) (sel : List Nat) (p q : Nat) : Option Nat :=
  if p ≤ q then
    match sel[p]?, sel[q]? with
    | some a, some b => sym bs a b
    | _, _ => none
  else none

theorem hasDup_false_iff (l : List Nat) : hasDup l = false ↔ l.Nodup := by
  induction l with
  | nil => simp [hasDup]
  | cons x xs ih =>
    simp only [hasDup, Bool.or_eq_false_iff, ih, List.nodup_cons]
    constructor
    · rintro ⟨h1, h2⟩; exact ⟨by simpa using h1, h2⟩
    · rintro ⟨h1, h2⟩; exact ⟨by simpa using h1, h2⟩

theorem posOf_getElem? {a p : Nat} {sel : List Nat} (h : posOf a sel = some p) : sel[p]? = some a := by
  induction sel generalizing p with
  | nil => simp [posOf] at h
  | cons x xs ih =>
    simp only [posOf] at h
    split at h
    · rename_i hx; injection h with h; subst h; simp [hx]
    · cases hq : posOf a xs with
      | none => simp [hq] at h
      | some q => simp [hq] at h; subst h; simpa using ih hq

theorem posOf_of_getElem? {a p : Nat} {sel : List Nat} (hnd : sel.Nodup) (h : sel[p]? = some a) :
    posOf a sel = some p := by
  induction sel generalizing p with
  | nil => simp at h
  | cons x xs ih =>
    rw [List.nodup_cons] at hnd
    cases p with
    | zero => simp at h; subst h; simp [posOf]
    | succ p =>
      have h' : xs[p]? = some a := by simpa using h
      have hmem : a ∈ xs := List.mem_of_getElem? h'
      have hne : ¬ x = a := fun e => hnd.1 (e ▸ hmem)
      simp [posOf, hne, ih hnd.2 h']

theorem sortPair_swap_of_le {p q : Nat} (h : p ≤ q) : sortPair q p = (p, q) := by
  unfold sortPair
  split
  · rfl
  · have : q = p := by omega
    subst this; rfl

theorem sym_of_le {bs : List Bond} {a b : Nat} (h : a ≤ b) : sym bs a b = lookup bs a b := by
  simp [sym, Nat.min_eq_left h, Nat.max_eq_right h]

theorem sym_comm (bs : List Bond) (a b : Nat) : sym bs a b = sym bs b a := by
  simp [sym, Nat.min_comm, Nat.max_comm]

/-- distinct sorted pairs stay distinct under the relabelling (the inverse index is injective) -/
theorem relabel_pairs_nodup {bs : List Bond} (sel : List Nat) (hs : ∀ c ∈ bs, c.1 ≤ c.2.1) (hnd : (pairs bs).Nodup) :
    (pairs (bs.filterMap (relabel sel))).Nodup := by
  simp only [pairs, List.Nodup, List.pairwise_map] at hnd ⊢
  have hsorted : List.Pairwise (fun a b : Bond => (a.1 ≤ a.2.1 ∧ b.1 ≤ b.2.1) ∧ (a.1, a.2.1) ≠ (b.1, b.2.1)) bs := by
    refine List.Pairwise.and ?_ hnd |>.imp (fun h => h)
    exact List.pairwise_of_forall_mem_list (fun a ha b hb => ⟨hs a ha, hs b hb⟩)
  refine List.Pairwise.filterMap _ ?_ hsorted
  intro a a' haa' b hb b' hb' heq
  obtain ⟨p, q, hp, hq, rfl⟩ := relabel_some hb
  obtain ⟨p', q', hp', hq', rfl⟩ := relabel_some hb'
  injection heq with e1 e2
  apply haa'.2
  rcases sortPair_eq e1 e2 with ⟨rfl, rfl⟩ | ⟨rfl, rfl⟩
  · rw [posOf_inj hp hp', posOf_inj hq hq']
  · have h1 := posOf_inj hp hq'
    have h2 := posOf_inj hq hp'
    have := haa'.1
    have e : a.1 = a'.1 := by omega
    have e' : a.2.1 = a'.2.1 := by omega
    rw [e, e']

/-- **the relabelled list is the relabelled map** -/
theorem lookup_relabel {bs : List Bond} {sel : List Nat} (hs : ∀ c ∈ bs, c.1 ≤ c.2.1) (hnd : (pairs bs).Nodup)
    (hsel : sel.Nodup) (p q : Nat) :
    lookup (bs.filterMap (relabel sel)) p q = selMap bs sel p q := by
  apply Option.ext
  intro t
  rw [lookup_eq_some_iff (relabel_pairs_nodup sel hs hnd), List.mem_filterMap]
  constructor
  · rintro ⟨c, hc, hr⟩
    obtain ⟨p', q', hp', hq', heq⟩ := relabel_some hr
    injection heq with e1 e23
    injection e23 with e2 e3
    have hcs := hs c hc
    have hlk : lookup bs c.1 c.2.1 = some c.2.2 := (lookup_eq_some_iff hnd _ _ _).mpr (by simpa using hc)
    have g1 := posOf_getElem? hp'
    have g2 := posOf_getElem? hq'
    have hle := sortPair_le p' q'
    rw [← e1, ← e2] at hle
    unfold selMap
    rw [if_pos hle]
    by_cases hpq : p' ≤ q'
    · rw [sortPair_of_le hpq] at e1 e2
      simp only at e1 e2
      subst e1; subst e2
      rw [g1, g2]
      simp only
      rw [sym_of_le hcs, hlk, e3]
    · have hqp : q' ≤ p' := by omega
      rw [sortPair_swap_of_le hqp] at e1 e2
      simp only at e1 e2
      subst e1; subst e2
      rw [g1, g2]
      simp only
      rw [sym_comm, sym_of_le hcs, hlk, e3]
  · intro h
    unfold selMap at h
    split at h
    · rename_i hpq
      split at h
      · rename_i a b ha hb
        have pa := posOf_of_getElem? hsel ha
        have pb := posOf_of_getElem? hsel hb
        by_cases hab : a ≤ b
        · rw [sym_of_le hab] at h
          have hm := (lookup_eq_some_iff hnd _ _ _).mp h
          refine ⟨(a, b, t), hm, ?_⟩
          simp [relabel, pa, pb, sortPair_of_le hpq]
        · have hba : b ≤ a := by omega
          rw [sym_comm, sym_of_le hba] at h
          have hm := (lookup_eq_some_iff hnd _ _ _).mp h
          refine ⟨(b, a, t), hm, ?_⟩
          simp [relabel, pa, pb, sortPair_swap_of_le hpq]
      · cases h
    · cases h

/-! ## index-array branch -/

theorem getSel_ok {s s' : BL} {sel : List Nat} (h : getSel s sel = .ok s') :
    s' = ⟨sel.length, s.bonds.filterMap (relabel sel), maxBonds sel.length (s.bonds.filterMap (relabel sel))⟩ ∧
    sel.Nodup ∧ ∀ a ∈ sel, a < s.n := by
  unfold getSel at h
  split at h
  · cases h
  · rename_i hany
    split at h
    · cases h
    · rename_i hdup
      split at h
      · cases h
      · injection h with h
        refine ⟨h.symm, (hasDup_false_iff sel).mp (by simpa using hdup), ?_⟩
        intro a ha
        simp only [List.any_eq_true, decide_eq_true_eq, not_exists, not_and] at hany
        have := hany a ha; omega

theorem canon_inRange {s : BL} (hc : Canon s) : inRange s.n s.bonds = true := by
  simp only [inRange, List.all_eq_true, Bool.and_eq_true, decide_eq_true_eq]
  intro c hcm
  have := hc.sorted c hcm; have := hc.bound c hcm; omega

/-- the index-array branch never fails on a canonical list for a duplicate-free in-range selection -/
theorem getSel_total {s : BL} {sel : List Nat} (hc : Canon s) (hsel : sel.Nodup) (hlt : ∀ a ∈ sel, a < s.n) :
    getSel s sel =
      .ok ⟨sel.length, s.bonds.filterMap (relabel sel), maxBonds sel.length (s.bonds.filterMap (relabel sel))⟩ := by
  unfold getSel
  have h1 : sel.any (fun a => decide (a ≥ s.n)) = false := by
    rw [← Bool.not_eq_true]
    simp only [List.any_eq_true, decide_eq_true_eq, not_exists, not_and]
    intro a ha; have := hlt a ha; omega
  have h2 : hasDup sel = false := (hasDup_false_iff sel).mpr hsel
  simp [h1, h2, canon_inRange hc]

/-! ## boolean-mask branch = index-array branch on the mask's `nonzero` -/

theorem rank_cons_succ (b : Bool) (bs : List Bool) (j : Nat) :
    rank (b :: bs) (j + 1) = rank bs j + (if b then 1 else 0) := by
  simp only [rank, List.take_succ_cons, List.filter_cons]
  cases b <;> simp

theorem posOf_truePositionsFrom (m : List Bool) (o k : Nat) :
    posOf k (truePositionsFrom o m) =
      if o ≤ k ∧ m.getD (k - o) false = true then some (rank m (k - o)) else none := by
  induction m generalizing o with
  | nil => simp [truePositionsFrom, posOf]
  | cons b bs ih =>
    simp only [truePositionsFrom]
    by_cases hko : k = o
    · subst hko
      cases b
      · simp only [Bool.false_eq_true, if_false, ih]
        have hn' : ¬ (k + 1 ≤ k ∧ bs.getD (k - (k + 1)) false = true) := by omega
        rw [if_neg hn']
        simp
      · simp [posOf, rank]
    · by_cases hlt : k < o
      · have hn : ¬ (o ≤ k ∧ (b :: bs).getD (k - o) false = true) := by omega
        have hn' : ¬ (o + 1 ≤ k ∧ bs.getD (k - (o + 1)) false = true) := by omega
        have hne : ¬ o = k := fun e => hko e.symm
        cases b
        · simp only [Bool.false_eq_true, if_false]
          rw [ih, if_neg hn', if_neg hn]
        · simp only [if_true, posOf, hne, if_false]
          rw [ih, if_neg hn', if_neg hn]; rfl
      · have hgt : o < k := by omega
        obtain ⟨j, hj⟩ : ∃ j, k - o = j + 1 := ⟨k - o - 1, by omega⟩
        have hj' : k - (o + 1) = j := by omega
        have hne : ¬ o = k := by omega
        have hok : o ≤ k := by omega
        have hok' : o + 1 ≤ k := by omega
        cases b
        · simp only [Bool.false_eq_true, if_false, ih, hj', hj, hok, hok', true_and, List.getD_cons_succ,
            rank_cons_succ, Nat.add_zero]
        · simp only [if_true, posOf, hne, if_false, ih, hj', hj, hok, hok', true_and, List.getD_cons_succ,
            rank_cons_succ]
          split <;> simp

theorem truePositionsFrom_ge (m : List Bool) (o : Nat) : ∀ a ∈ truePositionsFrom o m, o ≤ a ∧ a < o + m.length := by
  induction m generalizing o with
  | nil => simp [truePositionsFrom]
  | cons b bs ih =>
    intro a ha
    simp only [truePositionsFrom] at ha
    cases b
    · simp only [Bool.false_eq_true, if_false] at ha
      have := ih (o + 1) a ha; simp; omega
    · simp only [if_true, List.mem_cons] at ha
      rcases ha with rfl | ha
      · simp
      · have := ih (o + 1) a ha; simp; omega

theorem truePositionsFrom_nodup (m : List Bool) (o : Nat) : (truePositionsFrom o m).Nodup := by
  induction m generalizing o with
  | nil => simp [truePositionsFrom]
  | cons b bs ih =>
    simp only [truePositionsFrom]
    cases b
    · simpa using ih (o + 1)
    · simp only [if_true, List.nodup_cons]
      exact ⟨fun h => by have := (truePositionsFrom_ge bs (o + 1) o h).1; omega, ih (o + 1)⟩

theorem truePositionsFrom_length (m : List Bool) (o : Nat) : (truePositionsFrom o m).length = (m.filter id).length := by
  induction m generalizing o with
  | nil => rfl
  | cons b bs ih => cases b <;> simp [truePositionsFrom, ih]

/-- on sorted rows the mask branch computes exactly the relabelling by the positions of `True` -/
theorem maskRow_eq_relabel (m : List Bool) (c : Bond) (hs : c.1 ≤ c.2.1) :
    maskRow m c = relabel (truePositions m) c := by
  unfold maskRow relabel truePositions
  rw [posOf_truePositionsFrom, posOf_truePositionsFrom]
  simp only [Nat.zero_le, true_and, Nat.sub_zero]
  by_cases h1 : m.getD c.1 false = true
  · by_cases h2 : m.getD c.2.1 false = true
    · simp only [h1, h2, Bool.and_self, if_true]
      rw [(rank_selected m c.1 h1).2.1, (rank_selected m c.2.1 h2).2.1, sortPair_of_le (rank_mono m hs)]
    · have hb2 : m.getD c.2.1 false = false := by simpa using h2
      simp only [h1, hb2, Bool.and_false, Bool.false_eq_true, if_false, if_true]
  · have hb1 : m.getD c.1 false = false := by simpa using h1
    simp only [hb1, Bool.false_and, Bool.false_eq_true, if_false]

theorem filterMap_congr' {α β : Type} {f g : α → Option β} {l : List α} (h : ∀ a ∈ l, f a = g a) :
    l.filterMap f = l.filterMap g := by
  induction l with
  | nil => rfl
  | cons x xs ih =>
    simp only [List.filterMap_cons, h x (by simp), ih (fun a ha => h a (by simp [ha]))]

theorem getMask_ok {s s' : BL} {m : List Bool} (hc : Canon s) (h : getMask s m = .ok s') :
    s' = ⟨(truePositions m).length, s.bonds.filterMap (relabel (truePositions m)),
          maxBonds (truePositions m).length (s.bonds.filterMap (relabel (truePositions m)))⟩ := by
  unfold getMask at h
  split at h
  · cases h
  · injection h with h
    have hf : s.bonds.filterMap (maskRow m) = s.bonds.filterMap (relabel (truePositions m)) := by
      apply filterMap_congr'
      intro c hcm
      exact maskRow_eq_relabel m c (hc.sorted c hcm)
    rw [← h, hf, truePositions, truePositionsFrom_length]

/-- `bonds[mask]` is `bonds[np.nonzero(mask)[0]]` when the mask has the right length -/
theorem getMask_eq_getSel {s : BL} {m : List Bool} (hc : Canon s) (hlen : m.length = s.n) :
    getMask s m = getSel s (truePositions m) := by
  have hlt : ∀ a ∈ truePositions m, a < s.n := by
    intro a ha
    have := (truePositionsFrom_ge m 0 a ha).2; omega
  have hnd : (truePositions m).Nodup := truePositionsFrom_nodup m 0
  rw [getSel_total hc hnd hlt]
  have hnoub : s.bonds.any (fun c => decide (c.1 ≥ m.length) || decide (c.2.1 ≥ m.length)) = false := by
    rw [← Bool.not_eq_true]
    simp only [List.any_eq_true, Bool.or_eq_true, decide_eq_true_eq, not_exists, not_and, not_or]
    intro c hcm
    have := hc.sorted c hcm; have := hc.bound c hcm; omega
  cases hg : getMask s m with
  | ok s' => rw [getMask_ok hc hg]
  | err e => simp [getMask, hnoub] at hg
  | crash => simp [getMask, hnoub] at hg
  | ub => simp [getMask, hnoub] at hg

end BiotiteModel.C02

import BiotiteModel.Proofs.C10
/-! `match` with a similarity rule as a parameter (`sim q` = the k-mers similar to `q`). -/
namespace BiotiteModel.C10

theorem matchKmersSim_canon (sim : Nat → List Nat) (a : KAlph) (bucketed : Bool) (nb : Nat)
    (items : List Entry) (qk : List Nat) (qm : List Bool)
    (hbk : bucketed = true → 0 < nb)
    (hd : bucketed = false → ∀ q ∈ qk, ∀ q' ∈ sim q, q' < nb) (i r j : Nat) :
    (i, r, j) ∈ matchKmersSim sim (canonTable a bucketed nb items) qk qm ↔
      ∃ q q', qk[i]? = some q ∧ qm[i]? = some true ∧ q' ∈ sim q ∧ (⟨q', r, j⟩ : Entry) ∈ items := by
  unfold matchKmersSim
  simp only [List.mem_flatMap]
  constructor
  · rintro ⟨⟨⟨i', q⟩, m⟩, hmem, hin⟩
    rw [mem_zipIdx_zip] at hmem
    obtain ⟨hq, hm⟩ := hmem
    cases m with
    | false => simp at hin
    | true =>
      simp only [if_true, List.mem_flatMap] at hin
      obtain ⟨q', hq', hin⟩ := hin
      have hqlt : bucketed = false → q' < nb := fun hb => hd hb q (List.mem_of_getElem? hq) q' hq'
      simp only [lookup_canon a bucketed nb items q' hbk hqlt, List.mem_map, List.mem_filter] at hin
      obtain ⟨e, ⟨he, hk⟩, heq⟩ := hin
      simp only [Prod.mk.injEq] at heq
      obtain ⟨rfl, rfl, rfl⟩ := heq
      refine ⟨q, q', hq, hm, hq', ?_⟩
      have : e.kmer = q' := by simpa using hk
      subst this
      exact he
  · rintro ⟨q, q', hq, hm, hq', he⟩
    refine ⟨((i, q), true), (mem_zipIdx_zip _ _ _ _ _).2 ⟨hq, hm⟩, ?_⟩
    have hqlt : bucketed = false → q' < nb := fun hb => hd hb q (List.mem_of_getElem? hq) q' hq'
    simp only [if_true, List.mem_flatMap]
    refine ⟨q', hq', ?_⟩
    simp only [lookup_canon a bucketed nb items q' hbk hqlt, List.mem_map, List.mem_filter]
    exact ⟨⟨q', r, j⟩, ⟨he, by simp⟩, rfl⟩

/-- the exact match is the instance `sim q = [q]` -/
theorem matchKmers_eq_sim (t : Table) (qk : List Nat) (qm : List Bool) :
    matchKmers t qk qm = matchKmersSim (fun q => [q]) t qk qm := by
  unfold matchKmers matchKmersSim
  apply flatMap_congr'
  intro x _
  obtain ⟨⟨i, q⟩, m⟩ := x
  cases m <;> simp

/-- the specification-level `ScoreThresholdRule` only yields valid k-mer codes -/
theorem scoreSim_lt (a : KAlph) (mat : List Int) (thr : Int) (q q' : Nat) (h : q' ∈ scoreSim a mat thr q) :
    q' < a.size := by
  simp only [scoreSim, List.mem_filter, List.mem_range] at h
  exact h.1

end BiotiteModel.C10

import BiotiteModel.Proofs.C11Msa
/-! Helper lemmas for the trace/strings/codes part of C11 (core Lean only). -/
namespace BiotiteModel.C11
open BiotiteModel

theorem covered_cons (c : Col) (t : Trace) (k : Nat) :
    covered (c :: t) k = match (c[k]?).join with | some j => j :: covered t k | none => covered t k := by
  unfold covered
  rw [List.filterMap_cons]
  cases (c[k]?).join <;> rfl

/-- per sequence: numbering the gapped string again gives the sequence's trace entries back, and the string
without gaps is the covered part of the sequence -/
theorem gappedStr_number (seq : List Char) (hsym : ∀ c ∈ seq, c ≠ '-') (k : Nat) :
    ∀ (t : Trace) (cs : List Char) (s m : Nat), gappedStr seq t k = .ok cs → covered t k = List.range' s m →
      numberRow s cs = t.map (fun c => (c[k]?).join) ∧ stripChars cs = (covered t k).filterMap (fun j => seq[j]?) := by
  intro t
  induction t with
  | nil => intro cs s m h _; simp [gappedStr, mapE] at h; subst h; simp [numberRow, stripChars, covered]
  | cons c t ih =>
    intro cs s m h hcov
    unfold gappedStr at h
    unfold mapE at h
    split at h
    · cases h
    · next ch hch =>
      split at h
      · cases h
      · next cs' hcs' =>
        simp at h; subst h
        rw [covered_cons] at hcov ⊢
        unfold gapChar at hch
        split at hch
        · cases hch
        · next hk =>
          simp at hch; subst hch
          simp only [hk, Option.join] at hcov ⊢
          obtain ⟨h1, h2⟩ := ih cs' s m hcs' hcov
          constructor
          · rw [numberRow, if_pos rfl, h1, List.map_cons, hk]; rfl
          · simpa [stripChars] using h2
        · next j hk =>
          split at hch
          · next sy hsy =>
            simp at hch; subst hch
            have hne : sy ≠ '-' := hsym sy (List.mem_of_getElem? hsy)
            simp only [hk, Option.join] at hcov ⊢
            cases m with
            | zero => simp at hcov
            | succ m' =>
              rw [List.range'_succ] at hcov
              simp at hcov
              obtain ⟨hj, hcov'⟩ := hcov
              subst hj
              obtain ⟨h1, h2⟩ := ih cs' (j + 1) m' hcs' hcov'
              constructor
              · rw [numberRow, if_neg hne, h1, List.map_cons, hk]; rfl
              · simp only [stripChars] at h2 ⊢
                simp [hne, hsy]
                simpa using h2
          · cases hch

/-- per sequence: the code row has the trace's gap pattern and spells the covered part of the sequence -/
theorem codes_row {α : Type} (seq : List α) (k : Nat) :
    ∀ (t : Trace) (row : List (Option α)), mapE (codeAt seq k) t = .ok row →
      row.map Option.isSome = t.map (fun c => ((c[k]?).join).isSome) ∧
      row.filterMap id = (covered t k).filterMap (fun j => seq[j]?) := by
  intro t
  induction t with
  | nil => intro row h; simp [mapE] at h; subst h; simp [covered]
  | cons c t ih =>
    intro row h
    unfold mapE at h
    split at h
    · cases h
    · next x hx =>
      split at h
      · cases h
      · next row' hrow' =>
        simp at h; subst h
        obtain ⟨h1, h2⟩ := ih row' hrow'
        rw [covered_cons]
        unfold codeAt at hx
        split at hx
        · cases hx
        · next hk =>
          simp at hx; subst hx
          simp only [hk, Option.join]
          exact ⟨by rw [List.map_cons, List.map_cons, h1, hk]; rfl, by simpa using h2⟩
        · next j hk =>
          split at hx
          · next sy hsy =>
            simp at hx; subst hx
            simp only [hk, Option.join]
            exact ⟨by rw [List.map_cons, List.map_cons, h1, hk]; rfl, by simp [hsy, h2]⟩
          · cases hx

/-- any sub-list of columns of a valid trace is a valid trace -/
theorem valid_sublist {n : Nat} {t t' : Trace} (hs : t'.Sublist t) (h : Valid n t) : Valid n t' := by
  obtain ⟨h1, h2, h3⟩ := h
  refine ⟨fun c hc => h1 c (hs.subset hc), fun k hk => ?_, fun c hc => h3 c (hs.subset hc)⟩
  exact (h2 k hk).sublist (hs.filterMap _)

theorem removeGaps_valid {n : Nat} {t : Trace} (h : Valid n t) : Valid n (removeGaps t) :=
  valid_sublist List.filter_sublist h

theorem removeGaps_noGap (t : Trace) : ∀ c ∈ removeGaps t, ∀ x ∈ c, x ≠ none := by
  intro c hc x hx
  simp only [removeGaps, List.mem_filter, List.all_eq_true] at hc
  have := hc.2 x hx
  intro h; subst h; simp at this

theorem sliceCols_valid {n : Nat} {t : Trace} (a b : Nat) (h : Valid n t) : Valid n (sliceCols t a b) :=
  valid_sublist ((List.drop_sublist _ _).trans (List.take_sublist _ _)) h

theorem removeTerminalGaps_valid {n : Nat} {t t' : Trace} (h : Valid n t) (hr : removeTerminalGaps n t = .ok t') :
    Valid n t' := by
  unfold removeTerminalGaps at hr
  cases hf : findTerminalGaps n t with
  | error e => simp [hf, bind, Except.bind] at hr
  | ok p =>
    obtain ⟨a, b⟩ := p
    simp only [hf, bind, Except.bind] at hr
    split at hr
    · cases hr
    · simp [pure, Except.pure] at hr; subst hr; exact sliceCols_valid a b h

end BiotiteModel.C11

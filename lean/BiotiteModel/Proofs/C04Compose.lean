import BiotiteModel.Proofs.C04Stack
/-! Composition of the C04 pieces through `readStructure` (written block → read structure). -/
namespace BiotiteModel.C04

/-- The part of `get_structure` after the rows of the requested model have been selected
(`include_bonds=True`, `altloc="first"`). -/
def readCore (ccd : Ccd) (rows : List SiteRow) (coords : List (List Tok)) (conn : Option (List ConnRow))
    (ccb : Option (List CompBondRow)) (cell : Option Tok) (hc hi : Bool) : Except Err Structure :=
  let atoms := rows.map (readRow hc hi)
  let base := connectViaResNames ccd atoms (ccb.map parseIntra)
  let mask := altlocMask .first atoms (rows.map (fun r => cellShown r.alt)) []
  let fin := fun (bonds : List Bond) =>
    Structure.mk (applyMask mask atoms) hc hi (coords.map (applyMask mask)) cell (some (filterBondsByMask mask bonds))
  match conn with
  | some c => (parseInter rows c).map fun inter => fin (mergeBonds base inter)
  | none => .ok (fin base)

/-! ### facts about the written table -/

theorem split_writeSite (s : Structure) (hne : s.atoms ≠ []) (hc : ∀ c ∈ s.coords, c.length = s.atoms.length) :
    splitModels (writeSite s) = modelBlocks s.hasAtomId (writeRows s) 0 s.coords := by
  have hrows : writeRows s ≠ [] := by
    intro h
    have := writeRows_length s
    rw [h] at this
    exact hne (List.length_eq_zero_iff.mp this.symm)
  have hcne : ∀ c ∈ s.coords, c ≠ [] := by
    intro c hcm h
    have := hc c hcm
    rw [h] at this
    exact hne (List.length_eq_zero_iff.mp this.symm)
  exact split_blocks _ (blocksOk_modelBlocks _ _ hrows _ hcne 0 [] (by simp))

theorem modelBlock_keys (h : Bool) (k : Int) : ∀ (rows : List SiteRow) (cs : List Tok) (i : Nat),
    cs.length = rows.length →
    (modelBlock h k i rows cs).map siteKey = rows.map siteKey ∧
    (modelBlock h k i rows cs).map (fun r => cellShown r.alt) = rows.map (fun r => cellShown r.alt) := by
  intro rows
  induction rows with
  | nil => intro cs i _; simp [modelBlock]
  | cons r rs ih =>
    intro cs i hl
    cases cs with
    | nil => simp at hl
    | cons c cs =>
      obtain ⟨i1, i2⟩ := ih cs (i + 1) (by simpa using hl)
      simp only [modelBlock, List.map_cons, i1, i2]
      refine ⟨?_, ?_⟩ <;> first | trivial | rfl | simp [siteKey, siteKeyRaw]

theorem zipWith_const_mem {α β γ : Type} (c : γ) : ∀ (l1 : List α) (l2 : List β), ∀ x ∈ List.zipWith (fun _ _ => c) l1 l2, x = c := by
  intro l1
  induction l1 with
  | nil => intro l2 x h; simp at h
  | cons a as ih =>
    intro l2 x h
    cases l2 with
    | nil => simp at h
    | cons b bs =>
      simp only [List.zipWith_cons_cons, List.mem_cons] at h
      rcases h with rfl | h
      · rfl
      · exact ih bs x h

theorem writeRows_alts (s : Structure) : ∀ a ∈ (writeRows s).map (fun r => cellShown r.alt), a = "." := by
  intro a ha
  rw [writeRows, List.map_zipWith] at ha
  exact zipWith_const_mem "." _ _ a ha

/-! ### a file written by `set_structure` has no alternate locations: the mask keeps everything -/

theorem firstAltloc_dots (l : List String) (h : ∀ a ∈ l, a = ".") : firstAltlocRes l = List.replicate l.length true := by
  have hf : l.filter hasAltloc = [] := by
    rw [List.filter_eq_nil_iff]
    intro a ha
    rw [h a ha]; decide
  unfold firstAltlocRes
  rw [hf]
  rw [List.eq_replicate_iff]
  refine ⟨by simp, ?_⟩
  intro b hb
  obtain ⟨a, ha, rfl⟩ := List.mem_map.mp hb
  rw [h a ha]; decide

theorem flatMap_replicate_true {α : Type} : ∀ (gs : List (List α)),
    gs.flatMap (fun g => List.replicate g.length true) = List.replicate gs.flatten.length true := by
  intro gs
  induction gs with
  | nil => rfl
  | cons g gs ih => simp [List.flatMap_cons, ih, List.replicate_append_replicate]

theorem indexed_length (atoms : List Atom) : (indexed atoms).length = atoms.length := by
  simp [indexed]

theorem mask_all (atoms : List Atom) (alts : List String) (h : ∀ a ∈ alts, a = ".") :
    altlocMask .first atoms alts [] = List.replicate atoms.length true := by
  unfold altlocMask
  have : ∀ res : List (Nat × Atom),
      firstAltlocRes ((res.map (·.1)).map (fun i => alts.getD i ".")) = List.replicate res.length true := by
    intro res
    rw [firstAltloc_dots]
    · simp
    · intro a ha
      simp only [List.mem_map] at ha
      obtain ⟨i, _, rfl⟩ := ha
      cases hg : alts[i]? with
      | none => simp [List.getD, hg]
      | some x => simp [List.getD, hg]; exact h x (List.mem_of_getElem? hg)
  simp only [this]
  rw [flatMap_replicate_true, residues_flatten, indexed_length]

theorem applyMask_all {α : Type} : ∀ (xs : List α), applyMask (List.replicate xs.length true) xs = xs := by
  intro xs
  induction xs with
  | nil => rfl
  | cons x xs ih =>
    simp only [applyMask] at ih ⊢
    simp [List.replicate_succ, ih]

theorem newIndex_all (n i : Nat) (h : i ≤ n) : newIndex (List.replicate n true) i = i := by
  simp [newIndex, List.take_replicate, Nat.min_eq_left h]

theorem filterBonds_all (n : Nat) (bs : List Bond) (h : ∀ b ∈ bs, b.i < n ∧ b.j < n) :
    filterBondsByMask (List.replicate n true) bs = bs := by
  unfold filterBondsByMask
  have hf : bs.filter (fun b => (List.replicate n true).getD b.i false && (List.replicate n true).getD b.j false) = bs := by
    rw [List.filter_eq_self]
    intro b hb
    obtain ⟨h1, h2⟩ := h b hb
    simp [List.getD, h1, h2]
  rw [hf]
  conv => rhs; rw [← List.map_id bs]
  apply List.map_congr_left
  intro b hb
  obtain ⟨h1, h2⟩ := h b hb
  simp [newIndex_all n b.i (by omega), newIndex_all n b.j (by omega)]

/-! ### `_set_inter_residue_bonds` -/

theorem setInter_spec (atoms : List Atom) (site : List SiteRow) (bs : List Bond)
    (hty : ∀ b ∈ bs, isConnRow atoms b = true → InterOk b.t) :
    (bs.filter (isConnRow atoms) = [] ∧ setInter atoms site bs = .ok none) ∨
    (bs.filter (isConnRow atoms) ≠ [] ∧
      setInter atoms site bs = .ok (some (mkConnRows site 0 (bs.filter (isConnRow atoms))))) := by
  have hrest : (bs.filter (inStructConn (resPos atoms))).filter (fun b => !isCanonicalLink atoms (resPos atoms) b) =
      bs.filter (isConnRow atoms) := by
    rw [List.filter_filter]
    apply List.filter_congr
    intro b _
    simp [isConnRow, Bool.and_comm]
  unfold setInter
  simp only []
  by_cases h1 : (bs.filter (inStructConn (resPos atoms))).isEmpty = true
  · left
    have : bs.filter (inStructConn (resPos atoms)) = [] := by simpa using h1
    refine ⟨?_, by simp [h1]⟩
    rw [← hrest, this]; rfl
  · simp only [h1, Bool.false_eq_true, if_false, hrest]
    by_cases h2 : (bs.filter (isConnRow atoms)).isEmpty = true
    · left
      exact ⟨by simpa using h2, by simp [h2]⟩
    · right
      refine ⟨by simpa using h2, ?_⟩
      simp only [h2, Bool.false_eq_true, if_false]
      rw [connRows_eq site _ 0 (fun b hb => hty b (List.mem_filter.mp hb).1 (List.mem_filter.mp hb).2)]
      rfl

theorem setIntra_none (atoms : List Atom) (bs : List Bond)
    (hnames : ∀ a ∈ atoms, a.resName ≠ "" ∧ a.atomName ≠ "")
    (h : ∀ b ∈ bs, isIntra atoms b = false) : setIntra atoms bs = .ok none := by
  have h1 : atoms.any (fun a => a.resName == "") = false := by
    rw [List.any_eq_false]; intro a ha; simpa using (hnames a ha).1
  have h2 : atoms.any (fun a => a.atomName == "") = false := by
    rw [List.any_eq_false]; intro a ha; simpa using (hnames a ha).2
  have h3 : bs.filter (fun b => !inStructConn (resPos atoms) b) = [] := by
    rw [List.filter_eq_nil_iff]
    intro b hb
    have := h b hb
    simpa [isIntra] using this
  simp [setIntra, h1, h2, h3]

/-! ### the composition -/

/-- Well-formed structure with bond list `bs`, relative to the component dictionary `ccd`. -/
structure WFS (ccd : Ccd) (s : Structure) (bs : List Bond) : Prop where
  bonds : s.bonds = some bs
  atoms_ne : s.atoms ≠ []
  coords_ne : s.coords ≠ []
  coords_len : ∀ c ∈ s.coords, c.length = s.atoms.length
  /-- `charge` / `atom_id` are zero when the structure does not have the annotation -/
  normal : s.atoms.map (normAtom s.hasCharge s.hasAtomId) = s.atoms
  lt : ∀ b ∈ bs, b.i < b.j ∧ b.j < s.atoms.length
  unique : UniquePairs bs
  names : ∀ a ∈ s.atoms, a.resName ≠ "" ∧ a.atomName ≠ ""
  /-- atoms are uniquely identifiable in `struct_conn` -/
  keys : ((writeRows s).map siteKey).Nodup
  namesUnique : NamesUnique s.atoms
  intraTypes : ∀ b ∈ bs, isIntra s.atoms b = true → IntraOk b.t
  interTypes : ∀ b ∈ bs, isConnRow s.atoms b = true → InterOk b.t
  consistent : Consistent s.atoms bs
  /-- without `chem_comp_bond` the reader falls back to the dictionary: it must imply no bond then -/
  noFallback : (∀ b ∈ bs, isIntra s.atoms b = false) → connectIntra s.atoms ccd.bonds = []
  /-- every backbone link the dictionary implies is bonded in the structure — with **any** type
  `struct_conn` can express (a non-SINGLE link is written to `struct_conn` and wins the merge) -/
  linksPaired : ∀ b ∈ connectInter ccd (residues s.atoms), ∃ t, (⟨b.i, b.j, t⟩ : Bond) ∈ bs
  /-- a link the writer omits joins the connector atoms of two residues the dictionary links -/
  droppedClassified : ∀ b ∈ bs, isDroppedLink s.atoms b = true →
    linkNames ccd (atomAt s.atoms b.i).resName (atomAt s.atoms b.j).resName =
      some ((atomAt s.atoms b.i).atomName, (atomAt s.atoms b.j).atomName)

theorem bond_class (atoms : List Atom) (b : Bond) :
    isIntra atoms b = true ∨ isDroppedLink atoms b = true ∨ isConnRow atoms b = true := by
  unfold isIntra isDroppedLink isConnRow
  cases inStructConn (resPos atoms) b <;> cases isCanonicalLink atoms (resPos atoms) b <;> simp

theorem dropped_single (atoms : List Atom) (b : Bond) (h : isDroppedLink atoms b = true) : b.t = btSingle := by
  unfold isDroppedLink isCanonicalLink at h
  simp only [Bool.and_eq_true, beq_iff_eq, decide_eq_true_eq] at h
  exact h.2.1.1.2

theorem inStructConn_pair (pos : List Nat) (b z : Bond) (hi : z.i = b.i) (hj : z.j = b.j)
    (hb : inStructConn pos b = true) (ht : b.t = btSingle) : inStructConn pos z = true := by
  unfold inStructConn at hb ⊢
  rw [hi, hj]
  rw [ht] at hb
  simp only [btSingle, btCoordination, Bool.or_eq_true] at hb ⊢
  rcases hb with h | h
  · left; exact h
  · exact absurd h (by decide)

/-- The written block and what `get_structure` makes of any of its model blocks. -/
theorem written_block (ccd : Ccd) (s : Structure) (bs : List Bond) (w : WFS ccd s bs) :
    ∃ conn ccb bs', writeBlock s true = .ok ⟨writeSite s, conn, ccb, s.box⟩ ∧ (∀ b, b ∈ bs' ↔ b ∈ bs) ∧
      ∀ (k : Int) (i : Nat) (c : List Tok) (C : List (List Tok)), c.length = s.atoms.length →
        (∀ x ∈ C, x.length = s.atoms.length) →
        readCore ccd (modelBlock s.hasAtomId k i (writeRows s) c) C conn ccb s.box s.hasCharge s.hasAtomId =
          .ok ⟨s.atoms, s.hasCharge, s.hasAtomId, C, s.box, some bs'⟩ := by
  have hlt : ∀ b ∈ bs, b.i < b.j := fun b hb => (w.lt b hb).1
  have hccb : ∃ ccb dictFor, setIntra s.atoms bs = .ok ccb ∧
      connectViaResNames ccd s.atoms (ccb.map parseIntra) =
        mergeBonds (normBonds (connectIntra s.atoms dictFor)) (normBonds (connectInter ccd (residues s.atoms))) ∧
      ∀ b, b ∈ normBonds (connectIntra s.atoms dictFor) ↔ (b ∈ bs ∧ isIntra s.atoms b = true) := by
    by_cases hex : ∃ b ∈ bs, isIntra s.atoms b = true
    · obtain ⟨rows, h1, h2⟩ := chem_comp_bond_roundtrip s.atoms bs w.lt w.unique w.intraTypes w.names w.consistent hex
      exact ⟨some rows, dictOf (parseIntra rows), h1, rfl, h2⟩
    · have hno : ∀ b ∈ bs, isIntra s.atoms b = false := by
        intro b hb
        cases h : isIntra s.atoms b with
        | false => rfl
        | true => exact absurd ⟨b, hb, h⟩ hex
      refine ⟨none, ccd.bonds, setIntra_none s.atoms bs w.names hno, rfl, ?_⟩
      intro b
      rw [w.noFallback hno]
      constructor
      · intro h; simp [normBonds, normBondsAux] at h
      · rintro ⟨hb, hi⟩; rw [hno b hb] at hi; exact absurd hi (by simp)
  obtain ⟨ccb, dictFor, hset, hdict, hI⟩ := hccb
  let rest := bs.filter (isConnRow s.atoms)
  have hrest : ∀ b, b ∈ rest ↔ b ∈ bs ∧ isConnRow s.atoms b = true := by intro b; simp [rest, List.mem_filter]
  let linkL := connectInter ccd (residues s.atoms)
  -- facts about the links the reader creates
  have hlink : ∀ y ∈ linkL, y.t = btSingle ∧ inStructConn (resPos s.atoms) y = true ∧ y.i < y.j ∧
      (y ∈ bs ∨ ∃ z ∈ rest, z.i = y.i ∧ z.j = y.j) := by
    intro y hy
    obtain ⟨_, _, ht, hin, _⟩ := generated_link_class ccd s.atoms y hy
    obtain ⟨t, hz⟩ := w.linksPaired y hy
    have hzlt := (w.lt _ hz).1
    refine ⟨ht, hin, hzlt, ?_⟩
    have hzin : inStructConn (resPos s.atoms) ⟨y.i, y.j, t⟩ = true := inStructConn_pair _ y _ rfl rfl hin ht
    rcases bond_class s.atoms ⟨y.i, y.j, t⟩ with h | h | h
    · simp [isIntra, hzin] at h
    · left
      have : t = btSingle := dropped_single s.atoms _ h
      have hy' : y = ⟨y.i, y.j, t⟩ := by cases y; simp_all
      rw [hy']; exact hz
    · right; exact ⟨_, (hrest _).mpr ⟨hz, h⟩, rfl, rfl⟩
  -- the reference list for `connect_via_residue_names`: links + intra-residue bonds
  let ref2 := linkL ++ bs.filter (isIntra s.atoms)
  have href2 : ∀ b, b ∈ ref2 ↔ b ∈ linkL ∨ (b ∈ bs ∧ isIntra s.atoms b = true) := by
    intro b; simp [ref2, List.mem_filter]
  have hu2 : UniquePairs ref2 := by
    intro a ha b hb hi hj
    rcases (href2 a).mp ha with ha | ha <;> rcases (href2 b).mp hb with hb | hb
    · have := (hlink a ha).1; have := (hlink b hb).1
      cases a; cases b; simp_all
    · exfalso
      have h1 := inStructConn_pair _ a b hi.symm hj.symm (hlink a ha).2.1 (hlink a ha).1
      simp [isIntra, h1] at hb
    · exfalso
      have h1 := inStructConn_pair _ b a hi hj (hlink b hb).2.1 (hlink b hb).1
      simp [isIntra, h1] at ha
    · exact w.unique a ha.1 b hb.1 hi hj
  have hlt2 : ∀ b ∈ ref2, b.i < b.j := by
    intro b hb
    rcases (href2 b).mp hb with h | h
    · exact (hlink b h).2.2.1
    · exact hlt b h.1
  have hLN : ∀ b, b ∈ normBonds linkL ↔ b ∈ linkL :=
    mem_normBonds_of_mem ref2 linkL hu2 hlt2 (fun x hx => (href2 x).mpr (Or.inl hx))
  have hbase : ∀ b, b ∈ connectViaResNames ccd s.atoms (ccb.map parseIntra) ↔
      (b ∈ linkL ∨ (b ∈ bs ∧ isIntra s.atoms b = true)) := by
    intro b
    rw [hdict]
    unfold mergeBonds
    rw [mem_normBonds_of_mem ref2 _ hu2 hlt2]
    · rw [List.mem_append, hLN, hI]
    · intro x hx
      rw [List.mem_append, hLN, hI] at hx
      exact (href2 x).mpr hx
  -- struct_conn wins over the implicit links; everything comes back
  have hrestN : ∀ b, b ∈ normBonds rest ↔ b ∈ rest :=
    mem_normBonds_of_mem bs rest w.unique hlt (fun x hx => ((hrest x).mp hx).1)
  have hpairEq : ∀ (a y : Bond), a.i = y.i → a.j = y.j → pairOf a = pairOf y := by
    intro a y h1 h2; simp [pairOf, h1, h2]
  have hshadowB : ∀ (A : List Bond), (∀ z, z ∈ A ↔ z ∈ rest) →
      ∀ x ∈ connectViaResNames ccd s.atoms (ccb.map parseIntra), x ∈ bs ∨ ∃ a ∈ A, pairOf a = pairOf x := by
    intro A hA x hx
    rcases (hbase x).mp hx with h | h
    · rcases (hlink x h).2.2.2 with hb | ⟨z, hz, h1, h2⟩
      · left; exact hb
      · right; exact ⟨z, (hA z).mpr hz, hpairEq z x h1 h2⟩
    · left; exact h.1
  have hall : ∀ b ∈ bs, b ∈ rest ∨ b ∈ connectViaResNames ccd s.atoms (ccb.map parseIntra) := by
    intro b hb
    rcases bond_class s.atoms b with h | h | h
    · right; exact (hbase b).mpr (Or.inr ⟨hb, h⟩)
    · right
      refine (hbase b).mpr (Or.inl ?_)
      have hj := (w.lt b hb).2
      exact (dropped_link_restored ccd s.atoms w.namesUnique b (by have := (w.lt b hb).1; omega) hj h).mpr
        (w.droppedClassified b hb h)
    · left; exact (hrest b).mpr ⟨hb, h⟩
  have hwrite : ∀ conn, setInter s.atoms (writeRows s) bs = .ok conn →
      writeBlock s true = .ok ⟨writeSite s, conn, ccb, s.box⟩ := by
    intro conn hconn
    have he : (s.atoms.isEmpty || s.coords.isEmpty) = false := by
      cases h1 : s.atoms with
      | nil => exact absurd h1 w.atoms_ne
      | cons _ _ =>
        cases h2 : s.coords with
        | nil => exact absurd h2 w.coords_ne
        | cons _ _ => rfl
    simp [writeBlock, he, w.bonds, hconn, hset, bind, Except.bind, pure, Except.pure]
  -- reading any model block
  have hread : ∀ (conn : Option (List ConnRow)) (bs' : List Bond), (∀ b ∈ bs', b ∈ bs) →
      (∀ (rows : List SiteRow), rows.map siteKey = (writeRows s).map siteKey →
        (match conn with
          | some c => (parseInter rows c).map fun inter =>
              mergeBonds (connectViaResNames ccd s.atoms (ccb.map parseIntra)) inter
          | none => .ok (connectViaResNames ccd s.atoms (ccb.map parseIntra))) = .ok bs') →
      ∀ (k : Int) (i : Nat) (c : List Tok) (C : List (List Tok)), c.length = s.atoms.length →
        (∀ x ∈ C, x.length = s.atoms.length) →
        readCore ccd (modelBlock s.hasAtomId k i (writeRows s) c) C conn ccb s.box s.hasCharge s.hasAtomId =
          .ok ⟨s.atoms, s.hasCharge, s.hasAtomId, C, s.box, some bs'⟩ := by
    intro conn bs' hsub hbonds k i c C hc hC
    have hes : (entityIds (s.atoms.map (·.chain))).length = s.atoms.length := by
      simp [entityIds, entityIdsAux_length]
    obtain ⟨hatoms, _⟩ := read_modelBlock s.hasCharge s.hasAtomId k s.atoms _ c i hes hc
    have hatoms' : (modelBlock s.hasAtomId k i (writeRows s) c).map (readRow s.hasCharge s.hasAtomId) = s.atoms := by
      rw [writeRows, hatoms, w.normal]
    obtain ⟨hkeys, halts⟩ := modelBlock_keys s.hasAtomId k (writeRows s) c i (by rw [hc, writeRows_length])
    have hmask : altlocMask .first s.atoms
        ((modelBlock s.hasAtomId k i (writeRows s) c).map (fun r => cellShown r.alt)) [] =
        List.replicate s.atoms.length true := by
      apply mask_all
      rw [halts]; exact writeRows_alts s
    have hCmap : C.map (applyMask (List.replicate s.atoms.length true)) = C := by
      conv => rhs; rw [← List.map_id C]
      apply List.map_congr_left
      intro x hx
      rw [← hC x hx, applyMask_all]; rfl
    have hb := hbonds _ hkeys
    unfold readCore
    simp only [hatoms', hmask, hCmap]
    rw [applyMask_all]
    cases conn with
    | none =>
      simp only at hb ⊢
      have : connectViaResNames ccd s.atoms (ccb.map parseIntra) = bs' := by simpa using hb
      rw [this, filterBonds_all _ _ (fun b hb' => by have := w.lt b (hsub b hb'); omega)]
    | some cr =>
      simp only at hb ⊢
      cases hp : parseInter (modelBlock s.hasAtomId k i (writeRows s) c) cr with
      | error e => rw [hp] at hb; simp [Except.map] at hb
      | ok inter =>
        rw [hp] at hb
        have : mergeBonds (connectViaResNames ccd s.atoms (ccb.map parseIntra)) inter = bs' := by
          simpa [Except.map] using hb
        simp only [Except.map]
        rw [this, filterBonds_all _ _ (fun b hb' => by have := w.lt b (hsub b hb'); omega)]
  rcases setInter_spec s.atoms (writeRows s) bs w.interTypes with ⟨hnil, hconn⟩ | ⟨hnn, hconn⟩
  · -- no struct_conn category: nothing is shadowed
    have hrestnil : ∀ z, z ∈ ([] : List Bond) ↔ z ∈ rest := by
      intro z; show z ∈ [] ↔ z ∈ bs.filter (isConnRow s.atoms); rw [hnil]
    have hmem : ∀ b, b ∈ connectViaResNames ccd s.atoms (ccb.map parseIntra) ↔ b ∈ bs := by
      intro b
      constructor
      · intro hb
        rcases hshadowB [] hrestnil b hb with h | ⟨a, ha, _⟩
        · exact h
        · simp at ha
      · intro hb
        rcases hall b hb with h | h
        · have : b ∈ bs.filter (isConnRow s.atoms) := h
          rw [hnil] at this; simp at this
        · exact h
    exact ⟨none, ccb, _, hwrite none hconn, hmem, hread none _ (fun b hb => (hmem b).mp hb) (fun _ _ => rfl)⟩
  · have hparse : ∀ rows : List SiteRow, rows.map siteKey = (writeRows s).map siteKey →
        parseInter rows (mkConnRows (writeRows s) 0 rest) = .ok (normBonds rest) := by
      intro rows hk
      rw [parseInter_congr rows (writeRows s) _ hk]
      apply parseInter_mk _ _ w.keys
      intro b hb
      obtain ⟨hb1, hb2⟩ := (hrest b).mp hb
      have := w.lt b hb1
      rw [writeRows_length]
      exact ⟨by omega, this.2, w.interTypes b hb1 hb2⟩
    have hmerge : ∀ b, b ∈ mergeBonds (connectViaResNames ccd s.atoms (ccb.map parseIntra)) (normBonds rest) ↔ b ∈ bs := by
      intro b
      unfold mergeBonds
      rw [mem_normBonds_shadow bs _ _ w.unique hlt (fun x hx => ((hrest x).mp ((hrestN x).mp hx)).1)
        (hshadowB (normBonds rest) hrestN)]
      constructor
      · rintro (h | ⟨_, h⟩)
        · exact ((hrest b).mp ((hrestN b).mp h)).1
        · exact h
      · intro hb
        rcases hall b hb with h | h
        · left; exact (hrestN b).mpr h
        · right; exact ⟨h, hb⟩
    refine ⟨some (mkConnRows (writeRows s) 0 rest), ccb, _, hwrite _ hconn, hmerge,
      hread _ _ (fun b hb => (hmerge b).mp hb) ?_⟩
    intro rows hk
    simp only [hparse rows hk, Except.map]

end BiotiteModel.C04

import BiotiteModel.Model.C16
import Mathlib.Tactic.Ring
import Mathlib.Tactic.Linarith
import Mathlib.Tactic.LinearCombination
import Mathlib.Tactic.FieldSimp
import Mathlib.Tactic.Positivity
import Mathlib.Tactic.NormNum.Basic
/-! Helper lemmas for C16 (kept apart from the property theorems). -/
namespace BiotiteModel.C16

/-! ## 3×3 / 4×4 algebra over an arbitrary commutative ring -/
section Ring
variable {α : Type} [CommRing α]

theorem matrix_form (c : V3 α) (R : M3 α) (t x : V3 α) :
    (asMatrix1 c R t).mulVec x.homog = (applyPoint c R t x).homog := by
  simp only [asMatrix1, applyPoint, M4.mulVec, M4.mul, M4.ofTranslation, M4.ofRotation, V3.homog, V4.dot,
    M4.c0, M4.c1, M4.c2, M4.c3, M3.mulVec, V3.dot, V3.add, V4.mk.injEq]
  refine ⟨?_, ?_, ?_, ?_⟩ <;> ring

theorem det_mul (A B : M3 α) : (A.mul B).det = A.det * B.det := by
  simp only [M3.mul, M3.det, V3.dot, M3.c0, M3.c1, M3.c2]
  ring

theorem det_transpose (A : M3 α) : A.transpose.det = A.det := by
  simp only [M3.transpose, M3.det, M3.c0, M3.c1, M3.c2]
  ring

theorem det_one : (M3.one : M3 α).det = 1 := by
  simp only [M3.one, M3.det]
  ring

theorem det_flipLastCol (A : M3 α) : A.flipLastCol.det = -A.det := by
  simp only [M3.flipLastCol, M3.det]
  ring

omit [CommRing α] in
theorem M3.ext' {A B : M3 α} (h0 : A.r0 = B.r0) (h1 : A.r1 = B.r1) (h2 : A.r2 = B.r2) : A = B := by
  cases A; cases B; simp_all

theorem mul_assoc3 (A B C : M3 α) : (A.mul B).mul C = A.mul (B.mul C) := by
  simp only [M3.mul, V3.dot, M3.c0, M3.c1, M3.c2, M3.mk.injEq, V3.mk.injEq]
  refine ⟨⟨?_, ?_, ?_⟩, ⟨?_, ?_, ?_⟩, ⟨?_, ?_, ?_⟩⟩ <;> ring

theorem transpose_mul (A B : M3 α) : (A.mul B).transpose = B.transpose.mul A.transpose := by
  simp only [M3.mul, M3.transpose, V3.dot, M3.c0, M3.c1, M3.c2, M3.mk.injEq, V3.mk.injEq]
  refine ⟨⟨?_, ?_, ?_⟩, ⟨?_, ?_, ?_⟩, ⟨?_, ?_, ?_⟩⟩ <;> ring

theorem one_mul3 (A : M3 α) : M3.one.mul A = A := by
  obtain ⟨⟨a0, a1, a2⟩, ⟨b0, b1, b2⟩, ⟨c0, c1, c2⟩⟩ := A
  simp only [M3.mul, M3.one, V3.dot, M3.c0, M3.c1, M3.c2, M3.mk.injEq, V3.mk.injEq]
  refine ⟨⟨?_, ?_, ?_⟩, ⟨?_, ?_, ?_⟩, ⟨?_, ?_, ?_⟩⟩ <;> ring

theorem mul_one3 (A : M3 α) : A.mul M3.one = A := by
  obtain ⟨⟨a0, a1, a2⟩, ⟨b0, b1, b2⟩, ⟨c0, c1, c2⟩⟩ := A
  simp only [M3.mul, M3.one, V3.dot, M3.c0, M3.c1, M3.c2, M3.mk.injEq, V3.mk.injEq]
  refine ⟨⟨?_, ?_, ?_⟩, ⟨?_, ?_, ?_⟩, ⟨?_, ?_, ?_⟩⟩ <;> ring

/-- The diagonal matrix diag(1, 1, -1). -/
def flipD : M3 α := ⟨⟨1, 0, 0⟩, ⟨0, 1, 0⟩, ⟨0, 0, -1⟩⟩

theorem flipLastCol_eq (A : M3 α) : A.flipLastCol = A.mul flipD := by
  obtain ⟨⟨a0, a1, a2⟩, ⟨b0, b1, b2⟩, ⟨c0, c1, c2⟩⟩ := A
  simp only [M3.flipLastCol, M3.mul, flipD, V3.dot, M3.c0, M3.c1, M3.c2, M3.mk.injEq, V3.mk.injEq]
  refine ⟨⟨?_, ?_, ?_⟩, ⟨?_, ?_, ?_⟩, ⟨?_, ?_, ?_⟩⟩ <;> ring

/-- Orthogonal matrix: `Aᵀ·A = 1` and `A·Aᵀ = 1` (what `np.linalg.svd` promises for `u` and `vh`). -/
def IsOrtho (A : M3 α) : Prop := A.transpose.mul A = M3.one ∧ A.mul A.transpose = M3.one

theorem isOrtho_flipD : IsOrtho (flipD : M3 α) := by
  constructor <;>
  · simp only [M3.mul, M3.transpose, flipD, M3.one, V3.dot, M3.c0, M3.c1, M3.c2, M3.mk.injEq, V3.mk.injEq]
    refine ⟨⟨?_, ?_, ?_⟩, ⟨?_, ?_, ?_⟩, ⟨?_, ?_, ?_⟩⟩ <;> ring

theorem isOrtho_one : IsOrtho (M3.one : M3 α) := by
  constructor <;>
  · simp only [M3.mul, M3.transpose, M3.one, V3.dot, M3.c0, M3.c1, M3.c2, M3.mk.injEq, V3.mk.injEq]
    refine ⟨⟨?_, ?_, ?_⟩, ⟨?_, ?_, ?_⟩, ⟨?_, ?_, ?_⟩⟩ <;> ring

theorem IsOrtho.mul {A B : M3 α} (hA : IsOrtho A) (hB : IsOrtho B) : IsOrtho (A.mul B) := by
  constructor
  · rw [transpose_mul, mul_assoc3, ← mul_assoc3 A.transpose, hA.1, one_mul3, hB.1]
  · rw [transpose_mul, mul_assoc3, ← mul_assoc3 B, hB.2, one_mul3, hA.2]

theorem IsOrtho.flip {A : M3 α} (hA : IsOrtho A) : IsOrtho A.flipLastCol := by
  rw [flipLastCol_eq]; exact hA.mul isOrtho_flipD

theorem IsOrtho.det_sq {A : M3 α} (hA : IsOrtho A) : A.det * A.det = 1 := by
  have h := congrArg M3.det hA.1
  rw [det_mul, det_transpose, det_one] at h
  exact h

end Ring

/-! ## The reflection correction over `ℚ` -/

theorem IsOrtho.det_pm {A : M3 ℚ} (hA : IsOrtho A) : A.det = 1 ∨ A.det = -1 := by
  have h := hA.det_sq
  have : (A.det - 1) * (A.det + 1) = 0 := by linear_combination h
  rcases mul_eq_zero.mp this with h1 | h1
  · left; linarith
  · right; linarith

theorem correct_det (V W : M3 ℚ) (hV : V.det = 1 ∨ V.det = -1) (hW : W.det = 1 ∨ W.det = -1) :
    (correct V W).det = 1 := by
  unfold correct
  rcases hV with hV | hV <;> rcases hW with hW | hW <;>
    norm_num [det_mul, det_flipLastCol, hV, hW]

theorem correct_ortho (V W : M3 ℚ) (hV : IsOrtho V) (hW : IsOrtho W) : IsOrtho (correct V W) := by
  unfold correct
  split
  · exact hV.flip.mul hW
  · exact hV.mul hW

/-- Without the correction the product of the SVD factors is improper exactly when the test fires. -/
theorem uncorrected_det (V W : M3 ℚ) : (V.mul W).det < 0 ↔ V.det * W.det < 0 := by
  rw [det_mul]

/-! ## Optimal translation (completing the square) -/

def sumX (l : List (V3 ℚ)) : ℚ := (l.map (·.x)).sum
def sumY (l : List (V3 ℚ)) : ℚ := (l.map (·.y)).sum
def sumZ (l : List (V3 ℚ)) : ℚ := (l.map (·.z)).sum

theorem foldl_add (l : List (V3 ℚ)) (a : V3 ℚ) :
    l.foldl V3.add a = ⟨a.x + sumX l, a.y + sumY l, a.z + sumZ l⟩ := by
  induction l generalizing a with
  | nil => simp [sumX, sumY, sumZ]
  | cons p l ih =>
    simp only [List.foldl_cons, ih, sumX, sumY, sumZ, List.map_cons, List.sum_cons, V3.add, V3.mk.injEq]
    refine ⟨?_, ?_, ?_⟩ <;> ring

theorem sumV_eq (l : List (V3 ℚ)) : sumV l = ⟨sumX l, sumY l, sumZ l⟩ := by
  unfold sumV
  rw [foldl_add]
  simp [V3.zero]

/-- Sum of squared deviations between corresponding points (`n · RMSD²`). -/
def ssd (a b : List (V3 ℚ)) : ℚ := (List.zipWith (fun p q => (q.sub p).normSq) a b).sum

/-- Σ |d + t|² = Σ |d|² + 2 (Σ d)·t + n |t|². -/
theorem sum_normSq_shift (ds : List (V3 ℚ)) (t : V3 ℚ) :
    (ds.map fun d => (d.add t).normSq).sum
      = (ds.map V3.normSq).sum + 2 * (sumX ds * t.x + sumY ds * t.y + sumZ ds * t.z) + (ds.length : ℚ) * t.normSq := by
  induction ds with
  | nil => simp [sumX, sumY, sumZ]
  | cons d ds ih =>
    rw [List.map_cons, List.sum_cons, ih]
    simp only [List.map_cons, List.sum_cons, sumX, sumY, sumZ, List.length_cons, V3.normSq, V3.dot, V3.add]
    push_cast
    ring

/-- Residuals `R·q − p` of a placement by the bare matrix. -/
def resid (R : M3 ℚ) (fixed mobile : List (V3 ℚ)) : List (V3 ℚ) :=
  List.zipWith (fun p q => (R.mulVec q).sub p) fixed mobile

theorem resid_sums (R : M3 ℚ) (fixed mobile : List (V3 ℚ)) (h : fixed.length = mobile.length) :
    sumX (resid R fixed mobile) = R.r0.dot ⟨sumX mobile, sumY mobile, sumZ mobile⟩ - sumX fixed ∧
    sumY (resid R fixed mobile) = R.r1.dot ⟨sumX mobile, sumY mobile, sumZ mobile⟩ - sumY fixed ∧
    sumZ (resid R fixed mobile) = R.r2.dot ⟨sumX mobile, sumY mobile, sumZ mobile⟩ - sumZ fixed := by
  induction fixed generalizing mobile with
  | nil =>
    cases mobile with
    | nil => simp [resid, sumX, sumY, sumZ, V3.dot]
    | cons q qs => simp at h
  | cons p ps ih =>
    cases mobile with
    | nil => simp at h
    | cons q qs =>
      have hl : ps.length = qs.length := by simpa using h
      obtain ⟨hx, hy, hz⟩ := ih qs hl
      simp only [resid, sumX, sumY, sumZ, List.zipWith_cons_cons, List.map_cons, List.sum_cons] at hx hy hz ⊢
      refine ⟨?_, ?_, ?_⟩
      · rw [hx]; simp only [M3.mulVec, V3.sub, V3.dot]; ring
      · rw [hy]; simp only [M3.mulVec, V3.sub, V3.dot]; ring
      · rw [hz]; simp only [M3.mulVec, V3.sub, V3.dot]; ring

theorem resid_length (R : M3 ℚ) (fixed mobile : List (V3 ℚ)) (h : fixed.length = mobile.length) :
    (resid R fixed mobile).length = mobile.length := by
  simp [resid, h]

theorem ssd_map_right (f : V3 ℚ → V3 ℚ) (R : M3 ℚ) (t : V3 ℚ) (fixed mobile : List (V3 ℚ))
    (hf : ∀ p q, (f q).sub p = ((R.mulVec q).sub p).add t) :
    ssd fixed (mobile.map f) = ((resid R fixed mobile).map fun d => (d.add t).normSq).sum := by
  unfold ssd resid
  simp only [List.zipWith_map_right, List.map_zipWith, hf]

theorem centroid_ok {pts : List (V3 ℚ)} {c : V3 ℚ} (h : centroid pts = .ok c) :
    pts ≠ [] ∧ c = ⟨sumX pts / pts.length, sumY pts / pts.length, sumZ pts / pts.length⟩ := by
  unfold centroid at h
  split at h
  · cases h
  · rename_i hne
    refine ⟨by intro h0; simp [h0] at hne, ?_⟩
    have := Except.ok.inj h
    rw [← this, sumV_eq]
    simp only [V3.scale, V3.mk.injEq]
    refine ⟨?_, ?_, ?_⟩ <;> ring

/-! ## `apply` acts model-wise -/
section Modelwise
variable {α : Type} [CommRing α]

theorem bget_of_length {β : Type} (b : List β) (m k : Nat) (hk : k < m) (h : b.length = m) :
    bget b k = b[k]? := by
  unfold bget
  match b, h with
  | [t], h =>
    have : k = 0 := by simp at h; omega
    subst this; simp
  | [], _ => rfl
  | _ :: _ :: _, _ => rfl

theorem addBroadcast_spec (a : Stack α) (b : List (V3 α)) (a' : Stack α) (h : addBroadcast a b = .ok a') :
    a'.length = a.length ∧
    ∀ k (pts : List (V3 α)), a[k]? = some pts → ∃ t, bget b k = some t ∧ a'[k]? = some (pts.map fun p => p.add t) := by
  unfold addBroadcast at h
  split at h
  · rename_i hl
    have h' := Except.ok.inj h
    subst h'
    refine ⟨by simp [hl], ?_⟩
    intro k pts hk
    have hklt : k < a.length := by
      rcases Nat.lt_or_ge k a.length with h1 | h1
      · exact h1
      · rw [List.getElem?_eq_none h1] at hk; cases hk
    have hb : b[k]? = some (b[k]'(by omega)) := List.getElem?_eq_getElem (by omega)
    refine ⟨b[k]'(by omega), ?_, ?_⟩
    · rw [bget_of_length b a.length k hklt hl, hb]
    · rw [List.getElem?_zipWith, hk, hb]
  · split at h
    · rename_i t hne
      have h' := Except.ok.inj h
      subst h'
      refine ⟨by simp, ?_⟩
      intro k pts hk
      exact ⟨t, rfl, by simp [List.getElem?_map, hk]⟩
    · cases h

theorem multiMatmul_spec (Rs : List (M3 α)) (a : Stack α) (h : a.length = Rs.length) :
    (multiMatmul Rs a).length = a.length ∧
    ∀ (k : Nat) (pts : List (V3 α)), a[k]? = some pts → ∃ R : M3 α, Rs[k]? = some R ∧ (multiMatmul Rs a)[k]? = some (pts.map R.mulVec) := by
  refine ⟨by simp [multiMatmul, h], ?_⟩
  intro k pts hk
  have hklt : k < a.length := by
    rcases Nat.lt_or_ge k a.length with h1 | h1
    · exact h1
    · rw [List.getElem?_eq_none h1] at hk; cases hk
  have hb : Rs[k]? = some (Rs[k]'(by omega)) := List.getElem?_eq_getElem (by omega)
  refine ⟨Rs[k]'(by omega), hb, ?_⟩
  unfold multiMatmul
  rw [List.getElem?_zipWith, hk, hb]

theorem addBroadcast_error (a : Stack α) (b : List (V3 α)) (e : Err) (h : addBroadcast a b = .error e) :
    e = .valueError := by
  unfold addBroadcast at h
  split at h
  · cases h
  · split at h
    · cases h
    · exact (Except.error.inj h).symm

theorem bcastTo_spec {β : Type} (m : Nat) (b b' : List β) (h : bcastTo m b = .ok b') :
    b'.length = m ∧ ∀ k, k < m → ∃ t, bget b k = some t ∧ b'[k]? = some t := by
  unfold bcastTo at h
  split at h
  · rename_i hl
    have h' := Except.ok.inj h
    subst h'
    refine ⟨hl, fun k hk => ?_⟩
    refine ⟨b[k]'(by omega), ?_, List.getElem?_eq_getElem (by omega)⟩
    rw [bget_of_length b m k hk hl]
    exact List.getElem?_eq_getElem (by omega)
  · split at h
    · rename_i t hne
      have h' := Except.ok.inj h
      subst h'
      exact ⟨by simp, fun k hk => ⟨t, rfl, by simp [hk]⟩⟩
    · cases h

theorem zipWith3_length {β γ δ ε : Type} (f : β → γ → δ → ε) (a : List β) (b : List γ) (c : List δ)
    (hab : a.length = b.length) (hcb : c.length = b.length) : (zipWith3 f a b c).length = b.length := by
  induction a generalizing b c with
  | nil => cases b <;> simp_all [zipWith3]
  | cons x a ih =>
    cases b with
    | nil => simp at hab
    | cons y b =>
      cases c with
      | nil => simp at hcb
      | cons z c =>
        simp only [zipWith3, List.length_cons]
        rw [ih b c (by simpa using hab) (by simpa using hcb)]

theorem zipWith3_getElem? {β γ δ ε : Type} (f : β → γ → δ → ε) (a : List β) (b : List γ) (c : List δ)
    (k : Nat) (x : β) (y : γ) (z : δ) (ha : a[k]? = some x) (hb : b[k]? = some y) (hc : c[k]? = some z) :
    (zipWith3 f a b c)[k]? = some (f x y z) := by
  induction a generalizing b c k with
  | nil => simp at ha
  | cons x' a ih =>
    cases b with
    | nil => simp at hb
    | cons y' b =>
      cases c with
      | nil => simp at hc
      | cons z' c =>
        cases k with
        | zero =>
          simp only [List.getElem?_cons_zero, Option.some.injEq] at ha hb hc
          subst ha hb hc
          simp [zipWith3]
        | succ k =>
          simp only [List.getElem?_cons_succ] at ha hb hc
          simp only [zipWith3, List.getElem?_cons_succ]
          exact ih b c k ha hb hc

theorem addBroadcast_isOk (a : Stack α) (b : List (V3 α)) :
    (∃ a', addBroadcast a b = .ok a') ↔ (b.length = a.length ∨ b.length = 1) := by
  unfold addBroadcast
  split
  · rename_i h; exact ⟨fun _ => Or.inl h, fun _ => ⟨_, rfl⟩⟩
  · rename_i h
    split
    · exact ⟨fun _ => Or.inr rfl, fun _ => ⟨_, rfl⟩⟩
    · rename_i hne
      constructor
      · rintro ⟨a', h'⟩; cases h'
      · rintro (h1 | h1)
        · exact absurd h1 h
        · obtain ⟨t, rfl⟩ := List.length_eq_one_iff.mp h1
          exact absurd rfl (hne t)


end Modelwise

/-! ## Anchor bookkeeping -/

theorem keepIdx_sublist (inl : List Nat) (keep : List Bool) : (keepIdx inl keep).Sublist inl := by
  unfold keepIdx
  induction inl generalizing keep with
  | nil => simp
  | cons i inl ih =>
    cases keep with
    | nil => simp
    | cons b keep =>
      simp only [List.zip_cons_cons, List.filterMap_cons]
      cases b
      · simp only [Bool.false_eq_true, if_false]
        exact (ih keep).cons _
      · simp only [if_true]
        exact (ih keep).cons_cons _

theorem pickIdx_spec (base idx out : List Nat) (h : pickIdx base idx = .ok out) :
    out.length = idx.length ∧ ∀ i ∈ out, i ∈ base := by
  unfold pickIdx at h
  induction idx generalizing out with
  | nil =>
    simp only [List.mapM_nil, pure, Except.pure, Except.ok.injEq] at h
    subst h
    simp
  | cons i idx ih =>
    simp only [List.mapM_cons, bind, Except.bind] at h
    cases hb : base[i]? with
    | none => simp [hb] at h
    | some p =>
      simp only [hb] at h
      split at h
      · cases h
      · rename_i rest hr
        have h' := Except.ok.inj h
        subst h'
        obtain ⟨l, s⟩ := ih rest hr
        refine ⟨by simp [l], ?_⟩
        intro j hj
        simp only [List.mem_cons] at hj
        rcases hj with rfl | hj
        · exact List.mem_of_getElem? hb
        · exact s j hj

/-! ## Offsets of `_find_matching_anchors` -/

/-- Total length of the fixed / mobile chains of a list of chain records. -/
def sumF (cs : List (Nat × Nat × List (Nat × Nat))) : Nat := (cs.map (·.1)).sum
def sumM (cs : List (Nat × Nat × List (Nat × Nat))) : Nat := (cs.map (·.2.1)).sum

theorem matchAnchorsFrom_append (pre rest : List (Nat × Nat × List (Nat × Nat))) (oF oM : Nat) :
    matchAnchorsFrom (pre ++ rest) oF oM
      = matchAnchorsFrom pre oF oM ++ matchAnchorsFrom rest (oF + sumF pre) (oM + sumM pre) := by
  induction pre generalizing oF oM with
  | nil => simp [matchAnchorsFrom, sumF, sumM]
  | cons c pre ih =>
    obtain ⟨lf, lm, ps⟩ := c
    simp only [List.cons_append, matchAnchorsFrom, ih, sumF, sumM, List.map_cons, List.sum_cons,
      List.append_assoc, Nat.add_assoc]

theorem matchAnchorsFrom_range (cs : List (Nat × Nat × List (Nat × Nat))) (oF oM : Nat)
    (h : ∀ c ∈ cs, ∀ p ∈ c.2.2, p.1 < c.1 ∧ p.2 < c.2.1) :
    ∀ p ∈ matchAnchorsFrom cs oF oM, (oF ≤ p.1 ∧ p.1 < oF + sumF cs) ∧ (oM ≤ p.2 ∧ p.2 < oM + sumM cs) := by
  induction cs generalizing oF oM with
  | nil => simp [matchAnchorsFrom]
  | cons c cs ih =>
    obtain ⟨lf, lm, ps⟩ := c
    intro p hp
    simp only [matchAnchorsFrom, List.mem_append, offsetPairs, List.mem_map] at hp
    simp only [sumF, sumM, List.map_cons, List.sum_cons]
    rcases hp with ⟨q, hq, rfl⟩ | hp
    · have := h (lf, lm, ps) (by simp) q hq
      simp only at this
      have h1 := Nat.zero_le (List.map (fun x => x.1) cs).sum
      have h2 := Nat.zero_le (List.map (fun x => x.2.1) cs).sum
      omega
    · have := ih (oF + lf) (oM + lm) (fun c hc => h c (by simp [hc])) p hp
      simp only [sumF, sumM] at this
      omega

end BiotiteModel.C16

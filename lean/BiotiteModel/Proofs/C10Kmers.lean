import BiotiteModel.Proofs.C10Minimizer
import BiotiteModel.Proofs.C10Ctor
/-! Helper lemmas for C10: `create_kmers` (rolling update = positional value) and `from_sequences`. -/
namespace BiotiteModel.C10


theorem fuse_foldl (n : Nat) : ∀ (xs : List Nat) (acc : Nat),
    xs.foldl (fun a c => a * n + c) acc = acc * n ^ xs.length + fuseCodes n xs := by
  intro xs
  induction xs with
  | nil => intro acc; simp [fuseCodes]
  | cons x xs ih =>
    intro acc
    simp only [List.foldl_cons, fuseCodes, List.length_cons]
    rw [ih (acc * n + x), ih (0 * n + x)]
    simp only [Nat.zero_mul, Nat.zero_add, fuseCodes, Nat.pow_succ, Nat.add_mul]
    have : acc * n * n ^ xs.length = acc * (n ^ xs.length * n) := by
      rw [Nat.mul_assoc, Nat.mul_comm n]
    omega

theorem fuse_cons (n d : Nat) (xs : List Nat) :
    fuseCodes n (d :: xs) = d * n ^ xs.length + fuseCodes n xs := by
  have := fuse_foldl n xs (0 * n + d)
  simpa [fuseCodes] using this

theorem fuse_snoc (n c : Nat) (xs : List Nat) :
    fuseCodes n (xs ++ [c]) = fuseCodes n xs * n + c := by
  simp [fuseCodes, List.foldl_append]

theorem foldl_lt (n : Nat) : ∀ (xs : List Nat) (acc m : Nat), (∀ c ∈ xs, c < n) → acc < n ^ m →
    xs.foldl (fun a c => a * n + c) acc < n ^ (m + xs.length) := by
  intro xs
  induction xs with
  | nil => intro acc m _ h; simpa using h
  | cons x xs ih =>
    intro acc m hx h
    simp only [List.foldl_cons, List.length_cons]
    have hxn : x < n := hx x (by simp)
    have h1 : (acc + 1) * n ≤ n ^ m * n := Nat.mul_le_mul_right n h
    have h2 : acc * n + x < n ^ (m + 1) := by
      rw [Nat.pow_succ]; rw [Nat.add_mul, Nat.one_mul] at h1; omega
    have := ih (acc * n + x) (m + 1) (fun c hc => hx c (by simp [hc])) h2
    have e : m + 1 + xs.length = m + (xs.length + 1) := by omega
    rw [e] at this; exact this

theorem fuse_lt (n : Nat) (xs : List Nat) (h : ∀ c ∈ xs, c < n) : fuseCodes n xs < n ^ xs.length := by
  have := foldl_lt n xs 0 0 h (by simp)
  simpa [fuseCodes] using this


theorem take_succ_of_drop (t : List Nat) (m c : Nat) (cs : List Nat) (h : t.drop m = c :: cs) :
    t.take (m + 1) = t.take m ++ [c] ∧ t.drop (m + 1) = cs ∧ m < t.length := by
  have hlen : m < t.length := by
    apply Decidable.byContradiction
    intro hn
    have : t.drop m = [] := List.drop_eq_nil_of_le (by omega)
    rw [this] at h; cases h
  have hget : t[m]? = some c := by
    have : (t.drop m)[0]? = some c := by rw [h]; rfl
    simpa using this
  refine ⟨?_, ?_, hlen⟩
  · rw [List.take_add_one, hget]; rfl
  · have : t.drop (m + 1) = (t.drop m).drop 1 := by rw [List.drop_drop]
    rw [this, h]; rfl

/-- the rolling update reproduces the positional value of every following window -/
theorem roll_spec (n m : Nat) : ∀ t : List Nat, m + 1 ≤ t.length →
    rollKmers n (m + 1) (fuseCodes n (t.take (m + 1))) t (t.drop (m + 1))
      = (List.range (t.length - (m + 1))).map fun i => fuseCodes n ((t.drop (i + 1)).take (m + 1)) := by
  intro t
  induction t with
  | nil => intro h; simp at h
  | cons d t' ih =>
    intro hlen
    simp only [List.drop_succ_cons, List.take_succ_cons, List.length_cons]
    cases hd : t'.drop m with
    | nil =>
      have : t'.length ≤ m := by
        apply Decidable.byContradiction
        intro hn
        have h2 : (t'.drop m).length = t'.length - m := List.length_drop
        rw [hd] at h2; simp at h2; omega
      have e : t'.length + 1 - (m + 1) = 0 := by omega
      simp [rollKmers, e]
    | cons c cs =>
      obtain ⟨htake, hdrop, hm⟩ := take_succ_of_drop t' m c cs hd
      have hl : (t'.take m).length = m := by simp; omega
      have hkm : ((((fuseCodes n (d :: t'.take m) : Nat) : Int) - (d : Int) * (n : Int) ^ (m + 1 - 1)) * (n : Int)
          + (c : Int)).toNat = fuseCodes n (t'.take (m + 1)) := by
        rw [fuse_cons, hl, htake, fuse_snoc]
        simp only [Nat.add_sub_cancel]
        push_cast
        have : ((d : Int) * (n : Int) ^ m + (fuseCodes n (t'.take m) : Int) - (d : Int) * (n : Int) ^ m)
            = (fuseCodes n (t'.take m) : Int) := by omega
        rw [this]
        have : ((fuseCodes n (t'.take m) : Int) * (n : Int) + (c : Int))
            = ((fuseCodes n (t'.take m) * n + c : Nat) : Int) := by push_cast; rfl
        rw [this, Int.toNat_natCast]
      simp only [rollKmers, hkm]
      rw [← hdrop, ih (by omega)]
      have e : t'.length + 1 - (m + 1) = (t'.length - (m + 1)) + 1 := by omega
      rw [e, List.range_succ_eq_map]
      simp [List.map_map, Function.comp_def]


/-! ### `create_kmers` = positional value of every window -/

/-- the symbol codes of the k-mer starting at `i` (contiguous window resp. the informative positions) -/
def windowCodes (a : KAlph) (seq : List Nat) (i : Nat) : List Nat :=
  match a.spacing with
  | none => (seq.drop i).take a.k
  | some sp => sp.map fun off => seq[i + off]?.getD 0

/-- specification of `create_kmers`: the direct `fuse` of every window -/
def kmersSpec (a : KAlph) (seq : List Nat) : List Nat :=
  (List.range (seq.length - a.span + 1)).map fun i => fuseCodes a.n (windowCodes a seq i)

/-- a k-mer alphabet as `KmerAlphabet.__init__` accepts it -/
def KAlph.WF (a : KAlph) : Prop :=
  1 ≤ a.k ∧ ∀ sp, a.spacing = some sp → sp.length = a.k ∧ ∀ off ∈ sp, off < a.span

theorem spacedKmer_spec (n : Nat) (seq : List Nat) (i : Nat) (hn : ∀ c ∈ seq, c < n) :
    ∀ (sp : List Nat) (acc : Nat), (∀ off ∈ sp, i + off < seq.length) →
      spacedKmer n seq i sp acc
        = .ok ((sp.map fun off => seq[i + off]?.getD 0).foldl (fun a c => a * n + c) acc) := by
  intro sp
  induction sp with
  | nil => intro acc _; simp [spacedKmer]
  | cons off r ih =>
    intro acc h
    have hlt : i + off < seq.length := h off (by simp)
    have hget : seq[i + off]? = some seq[i + off] := List.getElem?_eq_getElem hlt
    have hc : ¬ seq[i + off] ≥ n := by
      have := hn seq[i + off] (List.getElem_mem hlt); omega
    simp only [spacedKmer, hget, hc, if_false, List.map_cons, List.foldl_cons, Option.getD_some]
    exact ih _ (fun o ho => h o (by simp [ho]))

theorem createKmers_eq (a : KAlph) (seq : List Nat) (hwf : a.WF) (hlen : a.span ≤ seq.length)
    (hn : ∀ c ∈ seq, c < a.n) : createKmers a seq = .ok (kmersSpec a seq) := by
  obtain ⟨hk, hsp⟩ := hwf
  unfold createKmers kmersSpec
  cases hs : a.spacing with
  | none =>
    have hspan : a.span = a.k := by simp [KAlph.span, hs]
    rw [hspan] at hlen ⊢
    obtain ⟨m, hm⟩ : ∃ m, a.k = m + 1 := ⟨a.k - 1, by omega⟩
    have h1 : ¬ seq.length < a.k := by omega
    have h2 : (seq.any fun c => decide (c ≥ a.n)) = false := by
      simp only [List.any_eq_false, decide_eq_true_eq]
      intro c hc; have := hn c hc; omega
    simp only [h1, h2, if_false, Bool.false_eq_true]
    rw [hm] at hlen ⊢
    rw [roll_spec a.n m seq hlen]
    have e : seq.length - (m + 1) + 1 = (seq.length - (m + 1)) + 1 := rfl
    rw [e, List.range_succ_eq_map]
    simp [windowCodes, hs, hm, List.map_map, Function.comp_def]
  | some sp =>
    obtain ⟨hl, hoff⟩ := hsp sp hs
    have h1 : ¬ seq.length < a.span := by omega
    simp only [h1, if_false]
    apply mapMExcept_ok
    intro i hi
    have hi' := List.mem_range.1 hi
    rw [spacedKmer_spec a.n seq i hn sp 0 (fun off ho => by have := hoff off ho; omega)]
    simp [windowCodes, hs, fuseCodes]

theorem kmersSpec_lt (a : KAlph) (seq : List Nat) (hwf : a.WF) (hlen : a.span ≤ seq.length)
    (hn : ∀ c ∈ seq, c < a.n) : ∀ q ∈ kmersSpec a seq, q < a.size := by
  obtain ⟨hk, hsp⟩ := hwf
  intro q hq
  simp only [kmersSpec, List.mem_map, List.mem_range] at hq
  obtain ⟨i, hi, rfl⟩ := hq
  unfold KAlph.size
  cases hs : a.spacing with
  | none =>
    have hspan : a.span = a.k := by simp [KAlph.span, hs]
    have hl : ((seq.drop i).take a.k).length = a.k := by simp; omega
    have := fuse_lt a.n ((seq.drop i).take a.k)
      (fun c hc => hn c (List.mem_of_mem_drop (List.mem_of_mem_take hc)))
    simpa [windowCodes, hs, hl] using this
  | some sp =>
    obtain ⟨hl, hoff⟩ := hsp sp hs
    have := fuse_lt a.n (sp.map fun off => seq[i + off]?.getD 0) (fun c hc => by
      simp only [List.mem_map] at hc
      obtain ⟨off, ho, rfl⟩ := hc
      have hlt : i + off < seq.length := by have := hoff off ho; omega
      rw [List.getElem?_eq_getElem hlt]
      exact hn _ (List.getElem_mem hlt))
    simpa [windowCodes, hs, hl] using this

/-! ### from_sequences -/

theorem zip_map_flatMap {α β γ δ : Type} (l : List α) (f : α → β) (g : α → γ) (F : (α × β) × γ → List δ) :
    ((l.zip (l.map f)).zip (l.map g)).flatMap F = l.flatMap fun r => F ((r, f r), g r) := by
  induction l with
  | nil => rfl
  | cons x xs ih => simp [List.flatMap_cons, ih]

theorem fromSequences_eq (a : KAlph) (nBuckets : Option Nat)
    (refs : List (Nat × List Nat × Option (List Bool))) (mk : Nat × List Nat × Option (List Bool) → List Bool)
    (hwf : a.WF) (hsize : 0 < a.size) (hnb : ∀ n, nBuckets = some n → 0 < n)
    (hlen : ∀ r ∈ refs, a.span ≤ r.2.1.length) (hn : ∀ r ∈ refs, ∀ c ∈ r.2.1, c < a.n)
    (hmask : ∀ r ∈ refs, prepareMask a r.2.2 r.2.1.length = .ok (mk r)) :
    fromSequences a nBuckets refs = .ok (canonTable a nBuckets.isSome (slotCount a nBuckets)
      (refs.flatMap fun r => itemsOf r.1 (kmersSpec a r.2.1) (mk r))) := by
  unfold fromSequences
  rw [mapMExcept_ok (fun r : Nat × List Nat × Option (List Bool) => createKmers a r.2.1)
        (fun r => kmersSpec a r.2.1) refs (fun r hr => createKmers_eq a r.2.1 hwf (hlen r hr) (hn r hr))]
  simp only []
  rw [mapMExcept_ok (fun r : Nat × List Nat × Option (List Bool) => prepareMask a r.2.2 r.2.1.length)
        mk refs hmask]
  simp only []
  rw [zip_map_flatMap]
  apply mkTable_eq a nBuckets _ hsize hnb
  intro e he
  simp only [List.mem_flatMap] at he
  obtain ⟨r, hr, he⟩ := he
  exact kmersSpec_lt a r.2.1 hwf (hlen r hr) (hn r hr) _ (itemsOf_kmer_mem _ _ _ _ he)

/-- without an ignore mask, and with a mask of the right length for contiguous k-mers, `_prepare_mask`
never fails -/
theorem prepareMask_ok (a : KAlph) (mask : Option (List Bool)) (len : Nat)
    (h : ∀ m, mask = some m → m.length = len ∧ a.spacing = none) :
    ∃ l, prepareMask a mask len = .ok l := by
  cases mask with
  | none => exact ⟨_, rfl⟩
  | some m =>
    obtain ⟨h1, h2⟩ := h m rfl
    have : ¬ m.length ≠ len := by omega
    simp only [prepareMask, this, if_false, toKmerMask, h2]
    exact ⟨_, rfl⟩

end BiotiteModel.C10

import BiotiteModel.Proofs.C03
import Mathlib.Data.List.Sort
/-! Helper lemmas for C03: ORF exactness of `translate(complete=False)`. -/
namespace BiotiteModel.C03

/-! ### specification -/

/-- Complete in-frame translation from nucleotide position `s` to the end of that frame. -/
def protFrom (t : CodonTable) (code : List Nat) (s : Nat) : Except Err (List Nat) :=
  mapCodonCodes t (chunk3 (code.drop s))

/-- The ORF that starts at nucleotide position `s`, if the codon at `s` is complete and a start
codon: the in-frame protein from `s` up to and including the first stop (or to the frame end). -/
def orfAt (t : CodonTable) (stopCode metCode : Nat) (metStart : Bool) (code : List Nat) (s : Nat) : Option Orf :=
  match chunk3 (code.drop s), protFrom t code s with
  | c :: _, .ok prot => if isStart t c then some (mkOrf stopCode metCode metStart s prot) else none
  | _, _ => none

/-! ### chunking -/

theorem chunk3_length (l : List Nat) : (chunk3 l).length = l.length / 3 := by
  induction l using chunk3.induct with
  | case1 a b c rest ih => simp only [chunk3, List.length_cons, ih]; omega
  | case2 l h =>
    have : l.length < 3 := by
      match l, h with
      | [], _ => simp
      | [_], _ => simp
      | [_, _], _ => simp
      | a :: b :: c :: rest, h => exact absurd rfl (h a b c rest)
    rw [chunk3]; simp; omega
    all_goals exact h

theorem chunk3_take (l : List Nat) : chunk3 (l.take (l.length / 3 * 3)) = chunk3 l := by
  induction l using chunk3.induct with
  | case1 a b c rest ih =>
    have : (a :: b :: c :: rest).length / 3 * 3 = rest.length / 3 * 3 + 3 := by
      simp only [List.length_cons]; omega
    rw [this]
    simp only [List.take_succ_cons, chunk3, ih]
  | case2 l h =>
    have hl : l.length < 3 := by
      match l, h with
      | [], _ => simp
      | [_], _ => simp
      | [_, _], _ => simp
      | a :: b :: c :: rest, h => exact absurd rfl (h a b c rest)
    have : l.length / 3 * 3 = 0 := by omega
    rw [this, List.take_zero]
    have h1 : chunk3 l = [] := by rw [chunk3]; exact h
    rw [h1]; rfl

end BiotiteModel.C03

import BiotiteModel.Proofs.C03
import Mathlib.Data.List.Sort
/-! Helper lemmas for C03: ORF exactness of `translate(complete=False)`. -/
namespace BiotiteModel.C03

/-! ### specification -/

/-- Complete in-frame translation from nucleotide position `s` to the end of that frame. -/
def protFrom (t : CodonTable) (code : List Nat) (s : Nat) : Except Err (List Nat) :=
  mapCodonCodes t (chunk3 (code.drop s))

/-- The ORF that starts at nucleotide position `s`, if the codon at `s` is complete and a start
codon: the in-frame protein from `s` up to and including the first stop (or to the frame end). -/
def orfAt (t : CodonTable) (stopCode metCode : Nat) (metStart : Bool) (code : List Nat) (s : Nat) : Option Orf :=
  match chunk3 (code.drop s), protFrom t code s with
  | c :: _, .ok prot => if isStart t c then some (mkOrf stopCode metCode metStart s prot) else none
  | _, _ => none

/-! ### chunking -/

theorem chunk3_length (l : List Nat) : (chunk3 l).length = l.length / 3 := by
  induction l using chunk3.induct with
  | case1 a b c rest ih => simp only [chunk3, List.length_cons, ih]; omega
  | case2 l h =>
    have : l.length < 3 := by
      match l, h with
      | [], _ => simp
      | [_], _ => simp
      | [_, _], _ => simp
      | a :: b :: c :: rest, h => exact absurd rfl (h a b c rest)
    rw [chunk3]; simp; omega
    all_goals exact h

theorem chunk3_take (l : List Nat) : chunk3 (l.take (l.length / 3 * 3)) = chunk3 l := by
  induction l using chunk3.induct with
  | case1 a b c rest ih =>
    have : (a :: b :: c :: rest).length / 3 * 3 = rest.length / 3 * 3 + 3 := by
      simp only [List.length_cons]; omega
    rw [this]
    simp only [List.take_succ_cons, chunk3, ih]
  | case2 l h =>
    have hl : l.length < 3 := by
      match l, h with
      | [], _ => simp
      | [_], _ => simp
      | [_, _], _ => simp
      | a :: b :: c :: rest, h => exact absurd rfl (h a b c rest)
    have : l.length / 3 * 3 = 0 := by omega
    rw [this, List.take_zero]
    have h1 : chunk3 l = [] := by rw [chunk3]; exact h
    rw [h1]; rfl

theorem chunk3_short (l : List Nat) (h : l.length < 3) : chunk3 l = [] := by
  match l, h with
  | [], _ => rfl
  | [_], _ => rfl
  | [_, _], _ => rfl
  | _ :: _ :: _ :: _, h => simp at h; omega

/-! ### translation succeeds on unambiguous codes with a complete table -/

theorem lookupCodon_ok (t : CodonTable) (ht : t.codons.length = 64) (a b c : Nat)
    (ha : a < 4) (hb : b < 4) (hc : c < 4) : ∃ aa, lookupCodon t [a, b, c] = .ok aa := by
  have hlt : 16 * a + 4 * b + c < t.codons.length := by omega
  have hany : [a, b, c].any (fun d => decide (4 ≤ d)) = false := by
    simp only [List.any_cons, List.any_nil, Bool.or_false, Bool.or_eq_false_iff, decide_eq_false_iff_not]
    omega
  exact ⟨t.codons[16 * a + 4 * b + c], by simp [lookupCodon, hany, codonNumber, hlt]⟩

theorem mapCodon_ok (t : CodonTable) (ht : t.codons.length = 64) (l : List Nat) (hl : ∀ c ∈ l, c < 4) :
    ∃ prot, mapE (lookupCodon t) (chunk3 l) = .ok prot := by
  induction l using chunk3.induct with
  | case1 a b c rest ih =>
    obtain ⟨ps, hps⟩ := ih fun x hx => hl x (by simp [hx])
    obtain ⟨p, hp⟩ := lookupCodon_ok t ht a b c (hl a (by simp)) (hl b (by simp)) (hl c (by simp))
    exact ⟨p :: ps, by rw [chunk3]; exact mapE_cons_ok _ _ _ _ _ hp hps⟩
  | case2 l h =>
    have h1 : chunk3 l = [] := by rw [chunk3]; exact h
    exact ⟨[], by rw [h1]; rfl⟩

/-! ### one frame -/

/-- In-frame positions of a frame that starts at `pos` and has `m` complete codons. -/
def framePositions (pos m : Nat) : List Nat := (List.range m).map fun j => pos + 3 * j

theorem framePositions_succ (pos m : Nat) :
    framePositions pos (m + 1) = pos :: framePositions (pos + 3) m := by
  unfold framePositions
  rw [List.range_succ_eq_map]
  simp only [List.map_cons, List.map_map, Nat.mul_zero, Nat.add_zero]
  congr 1
  apply List.map_congr_left
  intro j _
  simp only [Function.comp]; omega

theorem orfScan_eq (t : CodonTable) (stopCode metCode : Nat) (metStart : Bool) (code : List Nat)
    (l : List Nat) (pos : Nat) (prot : List Nat) (hd : code.drop pos = l)
    (hp : mapE (lookupCodon t) (chunk3 l) = .ok prot) :
    orfScan t stopCode metCode metStart pos (chunk3 l) prot =
      (framePositions pos (chunk3 l).length).filterMap (orfAt t stopCode metCode metStart code) := by
  induction l using chunk3.induct generalizing pos prot with
  | case1 a b c rest ih =>
    rw [chunk3] at hp ⊢
    obtain ⟨p, ps, hp1, hps, rfl⟩ := mapE_cons_inv _ _ _ _ hp
    have hd' : code.drop (pos + 3) = rest := by
      rw [← List.drop_drop, hd]; rfl
    have hat : orfAt t stopCode metCode metStart code pos =
        if isStart t [a, b, c] then some (mkOrf stopCode metCode metStart pos (p :: ps)) else none := by
      have hpf : protFrom t code pos = .ok (p :: ps) := by
        unfold protFrom mapCodonCodes
        rw [hd, chunk3]; exact hp
      unfold orfAt
      rw [hpf, hd, chunk3]
    simp only [List.length_cons, framePositions_succ, List.filterMap_cons, hat, orfScan]
    rw [ih (pos + 3) ps hd' hps]
    by_cases hs : isStart t [a, b, c] = true
    · simp [hs]
    · simp [hs]
  | case2 l h =>
    have h1 : chunk3 l = [] := by rw [chunk3]; exact h
    rw [h1]
    simp [orfScan, framePositions]

theorem orfsFrame_eq (t : CodonTable) (ht : t.codons.length = 64) (stopCode metCode : Nat) (metStart : Bool)
    (code : List Nat) (hc : ∀ c ∈ code, c < 4) (shift : Nat) :
    orfsFrame t stopCode metCode metStart code shift =
      .ok ((framePositions shift ((code.length - shift) / 3)).filterMap (orfAt t stopCode metCode metStart code)) := by
  unfold orfsFrame
  have hlen : (code.drop shift).length = code.length - shift := by simp
  have hframe : chunk3 ((code.drop shift).take ((code.length - shift) / 3 * 3)) = chunk3 (code.drop shift) := by
    rw [← hlen]; exact chunk3_take _
  simp only [hframe, mapCodonCodes]
  obtain ⟨prot, hprot⟩ := mapCodon_ok t ht (code.drop shift) fun c hcm => hc c (List.mem_of_mem_drop hcm)
  rw [hprot]
  simp only
  rw [orfScan_eq t stopCode metCode metStart code (code.drop shift) shift prot rfl hprot, chunk3_length, hlen]

/-! ### ordering by start position -/

/-- The order `np.argsort` of the start positions realises. -/
def orfLe (a b : Orf) : Prop := a.start ≤ b.start

instance : DecidableRel orfLe := fun a b => inferInstanceAs (Decidable (a.start ≤ b.start))
instance : Std.Total orfLe := ⟨fun a b => Nat.le_total a.start b.start⟩
instance : IsTrans Orf orfLe := ⟨fun _ _ _ h1 h2 => Nat.le_trans h1 h2⟩

theorem insertOrf_eq (x : Orf) (l : List Orf) : insertOrf x l = l.orderedInsert orfLe x := by
  induction l with
  | nil => rfl
  | cons y ys ih =>
    simp only [insertOrf, List.orderedInsert_cons, ih]
    rfl

theorem sortOrfs_eq (l : List Orf) : sortOrfs l = l.insertionSort orfLe := by
  induction l with
  | nil => rfl
  | cons x xs ih => simp only [sortOrfs, List.insertionSort_cons, ih, insertOrf_eq]

/-- Two members of a list strictly ascending in `start` with the same start are the same member. -/
theorem eq_of_start_eq (G : List Orf) (hs : G.Pairwise fun a b => a.start < b.start) :
    ∀ a ∈ G, ∀ b ∈ G, a.start = b.start → a = b := by
  induction G with
  | nil => intro a ha; simp at ha
  | cons g gs ih =>
    obtain ⟨hg, hgs⟩ := List.pairwise_cons.mp hs
    intro a ha b hb heq
    rcases List.mem_cons.mp ha with rfl | ha' <;> rcases List.mem_cons.mp hb with rfl | hb'
    · rfl
    · have := hg b hb'; omega
    · have := hg a ha'; omega
    · exact ih hgs a ha' b hb' heq

/-- Sorting any permutation of a list that is strictly ascending in `start` gives that list. -/
theorem sortOrfs_eq_of_perm (L G : List Orf) (hp : L.Perm G)
    (hs : G.Pairwise fun a b => a.start < b.start) : sortOrfs L = G := by
  rw [sortOrfs_eq]
  have hperm : (L.insertionSort orfLe).Perm G := (List.perm_insertionSort orfLe L).trans hp
  refine List.Perm.eq_of_pairwise (le := orfLe) ?_ (List.pairwise_insertionSort orfLe L)
    (hs.imp fun h => Nat.le_of_lt h) hperm
  intro a b ha hb hab hba
  exact eq_of_start_eq G hs a (hperm.subset ha) b hb (Nat.le_antisymm hab hba)

/-! ### the three frames together cover every position once -/

theorem mem_framePositions {pos m s : Nat} : s ∈ framePositions pos m ↔ ∃ j, j < m ∧ s = pos + 3 * j := by
  unfold framePositions
  simp only [List.mem_map, List.mem_range]
  constructor
  · rintro ⟨j, hj, rfl⟩; exact ⟨j, hj, rfl⟩
  · rintro ⟨j, hj, rfl⟩; exact ⟨j, hj, rfl⟩

theorem nodup_framePositions (pos m : Nat) : (framePositions pos m).Nodup := by
  unfold framePositions
  have : ((List.range m).map fun j => pos + 3 * j).Pairwise (· < ·) :=
    List.Pairwise.map _ (fun a b h => by omega) List.pairwise_lt_range
  exact this.imp fun h => Nat.ne_of_lt h

theorem frames_perm (n : Nat) :
    (framePositions 0 ((n - 0) / 3) ++ framePositions 1 ((n - 1) / 3) ++ framePositions 2 ((n - 2) / 3)).Perm
      (List.range (n - 2)) := by
  rw [List.perm_ext_iff_of_nodup ?_ List.nodup_range]
  · intro s
    simp only [List.mem_append, mem_framePositions, List.mem_range]
    constructor
    · rintro ((⟨j, hj, rfl⟩ | ⟨j, hj, rfl⟩) | ⟨j, hj, rfl⟩) <;> omega
    · intro hs
      have h3 : s % 3 = 0 ∨ s % 3 = 1 ∨ s % 3 = 2 := by omega
      rcases h3 with h | h | h
      · exact .inl (.inl ⟨s / 3, by omega, by omega⟩)
      · exact .inl (.inr ⟨s / 3, by omega, by omega⟩)
      · exact .inr ⟨s / 3, by omega, by omega⟩
  · rw [List.nodup_append, List.nodup_append]
    refine ⟨⟨nodup_framePositions _ _, nodup_framePositions _ _, ?_⟩, nodup_framePositions _ _, ?_⟩
    · intro a ha b hb
      obtain ⟨j, _, rfl⟩ := mem_framePositions.mp ha
      obtain ⟨j', _, rfl⟩ := mem_framePositions.mp hb
      omega
    · intro a ha b hb
      obtain ⟨j', _, rfl⟩ := mem_framePositions.mp hb
      rcases List.mem_append.mp ha with ha | ha <;> obtain ⟨j, _, rfl⟩ := mem_framePositions.mp ha <;> omega

theorem orfAt_start {t : CodonTable} {stopCode metCode : Nat} {metStart : Bool} {code : List Nat} {s : Nat} {o : Orf}
    (h : orfAt t stopCode metCode metStart code s = some o) : o.start = s := by
  unfold orfAt at h
  split at h
  · split at h
    · simp only [Option.some.injEq] at h; subst h; rfl
    · simp at h
  · simp at h

/-- `translate(complete=False)`: the reported ORFs are exactly the ORFs at the positions
`0 .. len-3`, in ascending order of the start position. -/
theorem translateOrfs_spec (t : CodonTable) (ht : t.codons.length = 64) (code : List Nat)
    (hc : ∀ c ∈ code, c < 4) (stopCode metCode : Nat) (metStart : Bool) :
    translateOrfs t stopCode metCode metStart code =
      .ok ((List.range (code.length - 2)).filterMap (orfAt t stopCode metCode metStart code)) := by
  unfold translateOrfs
  simp only [orfsFrame_eq t ht stopCode metCode metStart code hc]
  congr 1
  apply sortOrfs_eq_of_perm
  · rw [← List.filterMap_append, ← List.filterMap_append]
    exact (frames_perm code.length).filterMap _
  · apply List.Pairwise.filterMap (R := (· < ·)) _ _ List.pairwise_lt_range
    intro a a' haa' b hb b' hb'
    rw [orfAt_start hb, orfAt_start hb']
    exact haa'

/-- What `uptoStop` keeps: a prefix without any stop before its last element, ending in the first
stop if there is one (otherwise everything). -/
theorem uptoStop_spec (stop : Nat) (ps : List Nat) :
    ∃ rest, ps = uptoStop stop ps ++ rest ∧ (∀ p ∈ (uptoStop stop ps).dropLast, p ≠ stop) ∧
      (stop ∈ ps → (uptoStop stop ps).getLast? = some stop) ∧ (stop ∉ ps → rest = []) := by
  induction ps with
  | nil => exact ⟨[], rfl, by simp [uptoStop], by simp, fun _ => rfl⟩
  | cons p ps ih =>
    by_cases hp : p = stop
    · subst hp
      exact ⟨ps, by simp [uptoStop], by simp [uptoStop], by simp [uptoStop], by simp⟩
    · obtain ⟨rest, h1, h2, h3, h4⟩ := ih
      refine ⟨rest, ?_, ?_, ?_, ?_⟩
      · simp only [uptoStop, hp, if_false, List.cons_append]; rw [← h1]
      · simp only [uptoStop, hp, if_false]
        intro q hq
        cases hu : uptoStop stop ps with
        | nil => simp [hu] at hq
        | cons u us =>
          rw [hu, List.dropLast_cons_of_ne_nil (by simp)] at hq
          rcases List.mem_cons.mp hq with rfl | hq
          · exact hp
          · exact h2 q (by rw [hu]; exact hq)
      · intro hm
        have hm' : stop ∈ ps := by
          rcases List.mem_cons.mp hm with h | h
          · exact absurd h.symm hp
          · exact h
        have := h3 hm'
        simp only [uptoStop, hp, if_false]
        cases hu : uptoStop stop ps with
        | nil => simp [hu] at this
        | cons u us => rw [hu] at this; simpa [List.getLast?_cons_cons] using this
      · intro hm
        exact h4 fun h => hm (List.mem_cons_of_mem _ h)

/-! ### `CodonTable.__init__`: the 64-slot array holds the dict -/

/-- Codon number and amino-acid code one `codon_dict` item is stored under. -/
def entryNum (nuc prot : List Nat) (e : List Nat × Nat) : Except Err (Nat × Nat) :=
  match encodeChars nuc e.1 with
  | .error er => .error er
  | .ok cc =>
    match codonNumber cc with
    | none => .error .valueError
    | some m =>
      match encode1 prot e.2 with
      | .error er => .error er
      | .ok a => .ok (m, a)

theorem tableSet_eq (nuc prot : List Nat) (tbl : List (Option Nat)) (k : List Nat) (v : Nat) :
    tableSet nuc prot tbl k v =
      match entryNum nuc prot (k, v) with
      | .ok (m, a) => .ok (tbl.set m (some a))
      | .error e => .error e := by
  unfold tableSet entryNum
  cases encodeChars nuc k with
  | error e => rfl
  | ok cc =>
    simp only
    cases codonNumber cc with
    | none => rfl
    | some m =>
      simp only
      cases encode1 prot v <;> rfl

theorem tableFill_cons_inv (nuc prot : List Nat) (tbl tbl' : List (Option Nat)) (e : List Nat × Nat)
    (rest : List (List Nat × Nat)) (h : tableFill nuc prot tbl (e :: rest) = .ok tbl') :
    ∃ m a, entryNum nuc prot e = .ok (m, a) ∧ tableFill nuc prot (tbl.set m (some a)) rest = .ok tbl' := by
  obtain ⟨k, v⟩ := e
  simp only [tableFill, tableSet_eq] at h
  cases he : entryNum nuc prot (k, v) with
  | error er => simp [he] at h
  | ok ma =>
    obtain ⟨m, a⟩ := ma
    simp only [he] at h
    exact ⟨m, a, rfl, h⟩

theorem tableFill_length (nuc prot : List Nat) (tbl tbl' : List (Option Nat)) (dict : List (List Nat × Nat))
    (h : tableFill nuc prot tbl dict = .ok tbl') : tbl'.length = tbl.length := by
  induction dict generalizing tbl with
  | nil => simp [tableFill] at h; subst h; rfl
  | cons e rest ih =>
    obtain ⟨m, a, _, h2⟩ := tableFill_cons_inv nuc prot tbl tbl' e rest h
    rw [ih _ h2]; simp

/-- A slot survives the remaining items if none of them is stored under the same number. -/
theorem tableFill_keeps (nuc prot : List Nat) (tbl tbl' : List (Option Nat)) (dict : List (List Nat × Nat))
    (h : tableFill nuc prot tbl dict = .ok tbl') (m : Nat) (x : Option Nat) (hx : tbl[m]? = some x)
    (hd : ∀ e ∈ dict, ∀ m' a', entryNum nuc prot e = .ok (m', a') → m' ≠ m) : tbl'[m]? = some x := by
  induction dict generalizing tbl with
  | nil => simp [tableFill] at h; subst h; exact hx
  | cons e rest ih =>
    obtain ⟨m0, a0, he, h2⟩ := tableFill_cons_inv nuc prot tbl tbl' e rest h
    have hne : m0 ≠ m := hd e (by simp) m0 a0 he
    refine ih _ h2 ?_ fun e' he' => hd e' (by simp [he'])
    rw [List.getElem?_set_ne hne]; exact hx

/-- Every dict item is found in its slot when no two items share a codon number. -/
theorem tableFill_get (nuc prot : List Nat) (tbl tbl' : List (Option Nat)) (dict : List (List Nat × Nat))
    (h : tableFill nuc prot tbl dict = .ok tbl')
    (hpw : dict.Pairwise fun e1 e2 => ∀ m1 a1 m2 a2, entryNum nuc prot e1 = .ok (m1, a1) →
      entryNum nuc prot e2 = .ok (m2, a2) → m1 ≠ m2)
    (e : List Nat × Nat) (he : e ∈ dict) (m a : Nat) (hea : entryNum nuc prot e = .ok (m, a))
    (hm : m < tbl.length) : tbl'[m]? = some (some a) := by
  induction dict generalizing tbl with
  | nil => simp at he
  | cons e0 rest ih =>
    obtain ⟨m0, a0, he0, h2⟩ := tableFill_cons_inv nuc prot tbl tbl' e0 rest h
    obtain ⟨hhead, htail⟩ := List.pairwise_cons.mp hpw
    rcases List.mem_cons.mp he with rfl | her
    · rw [hea] at he0
      simp only [Except.ok.injEq, Prod.mk.injEq] at he0
      obtain ⟨rfl, rfl⟩ := he0
      refine tableFill_keeps nuc prot _ tbl' rest h2 m (some a) ?_ ?_
      · rw [List.getElem?_set_self (by omega)]
      · intro e' he' m' a' hea'
        exact fun heq => hhead e' he' m a m' a' hea hea' heq.symm
    · exact ih _ h2 htail her (by simpa using hm)

theorem allSome_get (l : List (Option Nat)) (cs : List Nat) (h : allSome l = some cs) :
    cs.length = l.length ∧ ∀ (m a : Nat), l[m]? = some (some a) → cs[m]? = some a := by
  induction l generalizing cs with
  | nil => simp [allSome] at h; subst h; simp
  | cons x xs ih =>
    cases x with
    | none => simp [allSome] at h
    | some v =>
      simp only [allSome, Option.map_eq_some_iff] at h
      obtain ⟨cs', hcs', rfl⟩ := h
      obtain ⟨h1, h2⟩ := ih cs' hcs'
      refine ⟨by simp [h1], ?_⟩
      intro m a hm
      cases m with
      | zero => simpa using hm
      | succ m => simpa using h2 m a (by simpa using hm)

theorem codonTableNew_inv (nuc prot : List Nat) (dict : List (List Nat × Nat)) (starts : List (List Nat))
    (t : CodonTable) (h : codonTableNew nuc prot dict starts = .ok t) :
    ∃ tbl, tableFill nuc prot (List.replicate 64 none) dict = .ok tbl ∧ allSome tbl = some t.codons := by
  unfold codonTableNew at h
  split at h
  · simp at h
  · split at h
    · simp at h
    · split at h
      · simp at h
      · split at h
        · simp at h
        · split at h
          · simp at h
          · rename_i tbl htbl
            split at h
            · simp at h
            · rename_i cs hcs
              simp only [Except.ok.injEq] at h
              subst h
              exact ⟨tbl, htbl, hcs⟩

/-! ### distinct codons are stored under distinct numbers -/

theorem encodeChars_eq_encode (alph : List Nat) (hnd : alph.Nodup) (hlen : alph.length < 256) (syms : List Nat) :
    encodeChars alph syms = encode alph syms := by
  unfold encodeChars encode
  exact mapE_congr _ _ _ fun s _ => encodeChars_elem alph hnd hlen s

theorem encode_ok_inv {α : Type} [DecidableEq α] (alph : List α) (xs : List α) (cs : List Nat)
    (h : encode alph xs = .ok cs) :
    decode alph (cs.map Int.ofNat) = .ok xs ∧ (∀ c ∈ cs, c < alph.length) ∧ cs.length = xs.length := by
  induction xs generalizing cs with
  | nil => simp [encode, mapE] at h; subst h; exact ⟨rfl, by simp, rfl⟩
  | cons x xs ih =>
    obtain ⟨c, cs', hc, hcs', rfl⟩ := mapE_cons_inv _ _ _ _ h
    obtain ⟨h1, h2, h3⟩ := ih cs' hcs'
    have hi := encode1_ok_iff.mp hc
    refine ⟨mapE_cons_ok _ _ _ _ _ (decode1_ofNat (indexOf?_some hi)) h1, ?_, by simp [h3]⟩
    intro d hd
    rcases List.mem_cons.mp hd with rfl | hd
    · exact indexOf?_lt hi
    · exact h2 d hd

theorem codonNumber_inv (cc : List Nat) (m : Nat) (h : codonNumber cc = some m) :
    ∃ a b c, cc = [a, b, c] ∧ m = 16 * a + 4 * b + c := by
  match cc, h with
  | [a, b, c], h => exact ⟨a, b, c, rfl, by simpa [codonNumber] using h.symm⟩

theorem entryNum_inj (nuc prot : List Nat) (hnd : nuc.Nodup) (hn4 : nuc.length = 4)
    (e1 e2 : List Nat × Nat) (m a1 a2 : Nat)
    (h1 : entryNum nuc prot e1 = .ok (m, a1)) (h2 : entryNum nuc prot e2 = .ok (m, a2)) : e1.1 = e2.1 := by
  have key : ∀ (e : List Nat × Nat) (a : Nat), entryNum nuc prot e = .ok (m, a) →
      ∃ x y z, x < 4 ∧ y < 4 ∧ z < 4 ∧ m = 16 * x + 4 * y + z ∧
        decode nuc ([x, y, z].map Int.ofNat) = .ok e.1 := by
    intro e a h
    unfold entryNum at h
    cases hcc : encodeChars nuc e.1 with
    | error er => simp [hcc] at h
    | ok cc =>
      simp only [hcc] at h
      cases hm : codonNumber cc with
      | none => simp [hm] at h
      | some m' =>
        simp only [hm] at h
        cases hp : encode1 prot e.2 with
        | error er => simp [hp] at h
        | ok a' =>
          simp only [hp, Except.ok.injEq, Prod.mk.injEq] at h
          obtain ⟨rfl, _⟩ := h
          obtain ⟨x, y, z, rfl, hmm⟩ := codonNumber_inv cc m' hm
          rw [encodeChars_eq_encode nuc hnd (by omega)] at hcc
          obtain ⟨hdec, hlt, _⟩ := encode_ok_inv nuc e.1 [x, y, z] hcc
          exact ⟨x, y, z, by have := hlt x (by simp); omega, by have := hlt y (by simp); omega,
            by have := hlt z (by simp); omega, hmm, hdec⟩
  obtain ⟨x, y, z, hx, hy, hz, hm, hd⟩ := key e1 a1 h1
  obtain ⟨x', y', z', hx', hy', hz', hm', hd'⟩ := key e2 a2 h2
  have : x = x' ∧ y = y' ∧ z = z' := by omega
  obtain ⟨rfl, rfl, rfl⟩ := this
  rw [hd] at hd'
  exact Except.ok.inj hd'

theorem ih_helper (nuc prot : List Nat) (e0 : List Nat × Nat) (rest : List (List Nat × Nat))
    (e : List Nat × Nat) (he : e ∈ e0 :: rest) (tbl0 tbl : List (Option Nat))
    (h : tableFill nuc prot tbl0 (e0 :: rest) = .ok tbl) : ∃ m a, entryNum nuc prot e = .ok (m, a) := by
  induction rest generalizing e0 tbl0 with
  | nil =>
    obtain ⟨m, a, hea, _⟩ := tableFill_cons_inv nuc prot tbl0 tbl e0 [] h
    simp at he; subst he; exact ⟨m, a, hea⟩
  | cons e1 rest ih =>
    obtain ⟨m, a, hea, h2⟩ := tableFill_cons_inv nuc prot tbl0 tbl e0 (e1 :: rest) h
    rcases List.mem_cons.mp he with rfl | her
    · exact ⟨m, a, hea⟩
    · exact ih e1 her _ h2

/-- `CodonTable(codon_dict, starts)`: the table has 64 entries and looking up the encoded codon
of any dict item gives the encoded amino acid of that item. -/
theorem codonTableNew_lookup (nuc prot : List Nat) (hnd : nuc.Nodup) (hn4 : nuc.length = 4)
    (dict : List (List Nat × Nat)) (hk : (dict.map (·.1)).Nodup) (starts : List (List Nat)) (t : CodonTable)
    (h : codonTableNew nuc prot dict starts = .ok t) :
    t.codons.length = 64 ∧
    ∀ e ∈ dict, ∃ x y z a, encodeChars nuc e.1 = .ok [x, y, z] ∧ encode1 prot e.2 = .ok a ∧
      lookupCodon t [x, y, z] = .ok a := by
  obtain ⟨tbl, htbl, hall⟩ := codonTableNew_inv nuc prot dict starts t h
  obtain ⟨hlen, hget⟩ := allSome_get tbl t.codons hall
  have htl := tableFill_length nuc prot _ tbl dict htbl
  refine ⟨by rw [hlen, htl]; simp, ?_⟩
  have hpw : dict.Pairwise fun e1 e2 => ∀ m1 a1 m2 a2, entryNum nuc prot e1 = .ok (m1, a1) →
      entryNum nuc prot e2 = .ok (m2, a2) → m1 ≠ m2 := by
    have hk' : dict.Pairwise fun e1 e2 => e1.1 ≠ e2.1 := by
      have := List.pairwise_map.mp hk
      exact this
    refine hk'.imp ?_
    intro e1 e2 hne m1 a1 m2 a2 h1 h2 heq
    subst heq
    exact hne (entryNum_inj nuc prot hnd hn4 e1 e2 m1 a1 a2 h1 h2)
  intro e he
  -- the item was stored (the fill succeeded), so its number and code exist
  have hex : ∃ m a, entryNum nuc prot e = .ok (m, a) := by
    clear hpw hk
    cases dict with
    | nil => simp at he
    | cons e0 rest => exact ih_helper nuc prot e0 rest e he _ tbl htbl
  obtain ⟨m, a, hea⟩ := hex
  -- m < 64
  have hea' := hea
  unfold entryNum at hea'
  cases hcc : encodeChars nuc e.1 with
  | error er => simp [hcc] at hea'
  | ok cc =>
    simp only [hcc] at hea'
    cases hm : codonNumber cc with
    | none => simp [hm] at hea'
    | some m' =>
      simp only [hm] at hea'
      cases hp : encode1 prot e.2 with
      | error er => simp [hp] at hea'
      | ok a' =>
        simp only [hp, Except.ok.injEq, Prod.mk.injEq] at hea'
        obtain ⟨rfl, rfl⟩ := hea'
        obtain ⟨x, y, z, rfl, hmm⟩ := codonNumber_inv cc m' hm
        have hcc' := hcc
        rw [encodeChars_eq_encode nuc hnd (by omega)] at hcc'
        obtain ⟨_, hlt, _⟩ := encode_ok_inv nuc e.1 [x, y, z] hcc'
        have hx := hlt x (by simp); have hy := hlt y (by simp); have hz := hlt z (by simp)
        have hm64 : m' < (List.replicate 64 (none : Option Nat)).length := by simp; omega
        have hslot := tableFill_get nuc prot _ tbl dict htbl hpw e he m' a' hea hm64
        have hcs := hget m' a' hslot
        refine ⟨x, y, z, a', rfl, rfl, ?_⟩
        have hany : [x, y, z].any (fun d => decide (4 ≤ d)) = false := by
          simp only [List.any_cons, List.any_nil, Bool.or_false, Bool.or_eq_false_iff, decide_eq_false_iff_not]
          omega
        simp only [lookupCodon, hany, Bool.false_eq_true, if_false, hm, hcs]

/-- Complete translation of a DNA string made of dict codons is the list of their dict values. -/
theorem translate_eq_dict (nuc prot : List Nat) (hnd : nuc.Nodup) (hn4 : nuc.length = 4)
    (dict : List (List Nat × Nat)) (hk : (dict.map (·.1)).Nodup) (starts : List (List Nat)) (t : CodonTable)
    (h : codonTableNew nuc prot dict starts = .ok t) (items : List (List Nat × Nat))
    (hsub : ∀ e ∈ items, e ∈ dict) :
    ∃ code aas, encodeChars nuc (items.flatMap (·.1)) = .ok code ∧
      mapE (encode1 prot) (items.map (·.2)) = .ok aas ∧ translateComplete t code = .ok aas := by
  obtain ⟨_, hlook⟩ := codonTableNew_lookup nuc prot hnd hn4 dict hk starts t h
  suffices hs : ∃ code aas, encodeChars nuc (items.flatMap (·.1)) = .ok code ∧
      mapE (encode1 prot) (items.map (·.2)) = .ok aas ∧ code.length % 3 = 0 ∧
      mapE (lookupCodon t) (chunk3 code) = .ok aas by
    obtain ⟨code, aas, h1, h2, h3, h4⟩ := hs
    exact ⟨code, aas, h1, h2, by simp [translateComplete, h3, mapCodonCodes, h4]⟩
  induction items with
  | nil => exact ⟨[], [], rfl, rfl, rfl, rfl⟩
  | cons e rest ih =>
    obtain ⟨code, aas, h1, h2, h3, h4⟩ := ih fun x hx => hsub x (by simp [hx])
    obtain ⟨x, y, z, a, hxyz, ha, hl⟩ := hlook e (hsub e (by simp))
    refine ⟨[x, y, z] ++ code, a :: aas, ?_, ?_, ?_, ?_⟩
    · simp only [List.flatMap_cons]
      unfold encodeChars at hxyz h1 ⊢
      exact mapE_append _ _ _ _ _ hxyz h1
    · simp only [List.map_cons]
      exact mapE_cons_ok _ _ _ _ _ ha h2
    · simp only [List.length_append, List.length_cons, List.length_nil]; omega
    · show mapE (lookupCodon t) (chunk3 (x :: y :: z :: code)) = _
      rw [chunk3]
      exact mapE_cons_ok _ _ _ _ _ hl h4

/-- `orfAt` unfolded: there is an ORF at `s` exactly when the three symbols at `s` form a start
codon; it is then built from the complete in-frame translation from `s`. -/
theorem orfAt_spec (t : CodonTable) (stopCode metCode : Nat) (metStart : Bool) (code : List Nat) (s : Nat) (o : Orf) :
    orfAt t stopCode metCode metStart code s = some o ↔
      ∃ a b c prot, (code.drop s).take 3 = [a, b, c] ∧ isStart t [a, b, c] = true ∧
        protFrom t code s = .ok prot ∧ o = mkOrf stopCode metCode metStart s prot := by
  unfold orfAt
  match hl : code.drop s with
  | a :: b :: c :: rest =>
    have hch : chunk3 (a :: b :: c :: rest) = [a, b, c] :: chunk3 rest := by rw [chunk3]
    rw [hch]
    cases hp : protFrom t code s with
    | error e => simp
    | ok prot =>
      simp only [List.take_succ_cons, List.take_zero]
      by_cases hs : isStart t [a, b, c] = true
      · simp only [hs, if_true, Option.some.injEq]
        constructor
        · intro h; exact ⟨a, b, c, prot, rfl, hs, rfl, h.symm⟩
        · rintro ⟨a', b', c', prot', habc, _, hpp, rfl⟩
          simp only [Except.ok.injEq] at hpp; subst hpp; rfl
      · simp only [hs, Bool.false_eq_true, if_false]
        constructor
        · intro h; simp at h
        · rintro ⟨a', b', c', prot', habc, hs', _, _⟩
          simp only [List.cons.injEq, and_true] at habc
          obtain ⟨rfl, rfl, rfl⟩ := habc
          exact absurd hs' hs
  | [] => simp [chunk3]
  | [_] => simp [chunk3]
  | [_, _] => simp [chunk3]

/-! ### derived tables -/

theorem withMappings_spec (nuc prot : List Nat) (t t' : CodonTable) (d : List (List Nat × Nat))
    (h : t.withMappings nuc prot d = .ok t') :
    t'.starts = t.starts ∧ t'.codons.length = t.codons.length ∧
    (∀ m : Nat, (∀ e ∈ d, ∀ m' a, entryNum nuc prot e = .ok (m', a) → m' ≠ m) → t'.codons[m]? = t.codons[m]?) ∧
    (d.Pairwise (fun e1 e2 => ∀ m1 a1 m2 a2, entryNum nuc prot e1 = .ok (m1, a1) →
        entryNum nuc prot e2 = .ok (m2, a2) → m1 ≠ m2) →
      ∀ e ∈ d, ∀ m a, entryNum nuc prot e = .ok (m, a) → m < t.codons.length → t'.codons[m]? = some a) := by
  unfold CodonTable.withMappings at h
  cases htbl : tableFill nuc prot (t.codons.map some) d with
  | error e => simp [htbl] at h
  | ok tbl =>
    simp only [htbl] at h
    cases hall : allSome tbl with
    | none => simp [hall] at h
    | some cs =>
      simp only [hall, Except.ok.injEq] at h
      subst h
      obtain ⟨hlen, hget⟩ := allSome_get tbl cs hall
      have htl := tableFill_length nuc prot _ tbl d htbl
      have hl : cs.length = t.codons.length := by rw [hlen, htl]; simp
      refine ⟨rfl, hl, ?_, ?_⟩
      · intro m hd
        cases hm : t.codons[m]? with
        | none =>
          have : t.codons.length ≤ m := by
            rcases Nat.lt_or_ge m t.codons.length with h' | h'
            · simp [List.getElem?_eq_getElem h'] at hm
            · exact h'
          exact List.getElem?_eq_none (by show cs.length ≤ m; omega)
        | some a =>
          have h0 : (t.codons.map some)[m]? = some (some a) := by simp [hm]
          exact hget m a (tableFill_keeps nuc prot _ tbl d htbl m (some a) h0 hd)
      · intro hpw e he m a hea hm
        exact hget m a (tableFill_get nuc prot _ tbl d htbl hpw e he m a hea (by simpa using hm))

/-! ### invalid nucleotide codes are refused -/

theorem lookupCodon_invalid (t : CodonTable) (c : List Nat) (h : ∃ d ∈ c, 4 ≤ d) :
    lookupCodon t c = .error .alphabetError := by
  have : c.any (fun d => decide (4 ≤ d)) = true := by simpa using h
  simp [lookupCodon, this]

theorem lookupCodon_total (t : CodonTable) (ht : t.codons.length = 64) (a b c : Nat) :
    (∃ aa, lookupCodon t [a, b, c] = .ok aa) ∨ lookupCodon t [a, b, c] = .error .alphabetError := by
  by_cases h : a < 4 ∧ b < 4 ∧ c < 4
  · exact .inl (lookupCodon_ok t ht a b c h.1 h.2.1 h.2.2)
  · refine .inr (lookupCodon_invalid t _ ?_)
    by_cases ha : 4 ≤ a
    · exact ⟨a, by simp, ha⟩
    · by_cases hb : 4 ≤ b
      · exact ⟨b, by simp, hb⟩
      · exact ⟨c, by simp, by omega⟩

theorem mem_chunk3 (l : List Nat) (x : List Nat) (hx : x ∈ chunk3 l) : ∃ a b c, x = [a, b, c] ∧ a ∈ l ∧ b ∈ l ∧ c ∈ l := by
  induction l using chunk3.induct with
  | case1 a b c rest ih =>
    rw [chunk3] at hx
    rcases List.mem_cons.mp hx with rfl | hx
    · exact ⟨a, b, c, rfl, by simp, by simp, by simp⟩
    · obtain ⟨a', b', c', rfl, h1, h2, h3⟩ := ih hx
      exact ⟨a', b', c', rfl, by simp [h1], by simp [h2], by simp [h3]⟩
  | case2 l h =>
    have h1 : chunk3 l = [] := by rw [chunk3]; exact h
    simp [h1] at hx

/-- Complete translation of a code sequence (length divisible by 3) whose complete codons contain a
code outside `0..3` is an `AlphabetError`; with all codes valid it succeeds. -/
theorem translateComplete_rejects (t : CodonTable) (ht : t.codons.length = 64) (code : List Nat)
    (hl : code.length % 3 = 0) :
    translateComplete t code = .error .alphabetError ↔ ∃ x ∈ chunk3 code, ∃ d ∈ x, 4 ≤ d := by
  simp only [translateComplete, hl, ne_eq, not_true_eq_false, if_false, mapCodonCodes]
  rw [mapE_error_iff (lookupCodon t) .alphabetError (chunk3 code)]
  · constructor
    · rintro ⟨x, hx, he⟩
      refine ⟨x, hx, ?_⟩
      obtain ⟨a, b, c, rfl, _, _, _⟩ := mem_chunk3 code x hx
      by_cases h : a < 4 ∧ b < 4 ∧ c < 4
      · obtain ⟨aa, haa⟩ := lookupCodon_ok t ht a b c h.1 h.2.1 h.2.2
        rw [haa] at he; cases he
      · by_cases ha : 4 ≤ a
        · exact ⟨a, by simp, ha⟩
        · by_cases hb : 4 ≤ b
          · exact ⟨b, by simp, hb⟩
          · exact ⟨c, by simp, by omega⟩
    · rintro ⟨x, hx, hd⟩
      exact ⟨x, hx, lookupCodon_invalid t x hd⟩
  · intro x hx
    obtain ⟨a, b, c, rfl, _, _, _⟩ := mem_chunk3 code x hx
    exact lookupCodon_total t ht a b c

/-- `CodonTable.__init__` refuses start codons that are not 3 letters long and an empty start list. -/
theorem codonTableNew_rejects (nuc prot : List Nat) (dict : List (List Nat × Nat)) (starts : List (List Nat)) :
    ((∃ s ∈ starts, s.length ≠ 3) → codonTableNew nuc prot dict starts = .error .valueError) ∧
    (starts = [] → codonTableNew nuc prot dict starts = .error .valueError) := by
  constructor
  · intro h
    have : starts.any (fun s => decide (s.length ≠ 3)) = true := by simpa using h
    unfold codonTableNew
    rw [if_pos this]
  · intro h
    subst h
    simp [codonTableNew, mapE]

end BiotiteModel.C03

import BiotiteModel.Model.C13
/-! Helper lemmas for C13 (kept apart from the property theorems).  Core Lean only. -/
namespace BiotiteModel.C13

/-! ## `mapME` -/

theorem mapME_ok {α β : Type} (f : α → Except Err β) (g : α → β) (xs : List α)
    (h : ∀ x ∈ xs, f x = .ok (g x)) : mapME f xs = .ok (xs.map g) := by
  induction xs with
  | nil => rfl
  | cons x xs ih =>
    have hx := h x (by simp)
    have hxs := ih (fun y hy => h y (by simp [hy]))
    simp [mapME, hx, hxs]

/-! ## Slicing one location -/

theorem sliceLocE_eq (iF iL : Option Int) (l : Loc) (h : l.WF) :
    sliceLocE iF iL l = .ok (sliceLocO iF iL l) := by
  unfold Loc.WF at h
  unfold sliceLocE sliceLocO sliceLoc mkLoc
  cases iF with
  | none =>
    cases iL with
    | none =>
      have c : l.first ≤ l.last ∧ l.last ≥ l.first ∧ l.first ≤ l.last := ⟨h, h, h⟩
      have g : ¬ (l.first > l.last) := by omega
      simp [c, g, h]
    | some y =>
      by_cases hc : l.first ≤ y
      · have c : l.first ≤ y ∧ l.last ≥ l.first ∧ l.first ≤ y := ⟨hc, h, hc⟩
        by_cases h2 : l.last > y
        · have g : ¬ (l.first > y) := by omega
          simp [hc, c, h2, g]
        · have g : ¬ (l.first > l.last) := by omega
          simp [hc, c, h2, g]
      · have c : ¬ (l.first ≤ y ∧ l.last ≥ l.first ∧ l.first ≤ y) := fun x => hc x.1
        simp [hc, c]
  | some x =>
    cases iL with
    | none =>
      by_cases hc : l.last ≥ x
      · have c : l.first ≤ l.last ∧ l.last ≥ x ∧ x ≤ l.last := ⟨h, hc, hc⟩
        by_cases h1 : l.first < x
        · have g : ¬ (x > l.last) := by omega
          simp [hc, c, h1, g]
        · have g : ¬ (l.first > l.last) := by omega
          simp [hc, c, h1, g]
      · have c : ¬ (l.first ≤ l.last ∧ l.last ≥ x ∧ x ≤ l.last) := fun z => hc z.2.1
        simp [hc, c]
    | some y =>
      by_cases hc : l.first ≤ y ∧ l.last ≥ x ∧ x ≤ y
      · obtain ⟨c1, c2, c3⟩ := hc
        have g1 : ¬ (x > y) := by omega
        have g2 : ¬ (x > l.last) := by omega
        have g3 : ¬ (l.first > y) := by omega
        have g4 : ¬ (l.first > l.last) := by omega
        by_cases h1 : l.first < x <;> by_cases h2 : l.last > y <;>
          simp [c1, c2, c3, h1, h2, g1, g2, g3, g4]
      · have c : ¬ ((l.first ≤ y ∧ l.last ≥ x) ∧ x ≤ y) := fun z => hc ⟨z.1.1, z.1.2, z.2⟩
        simp only [Option.getD_some, hc, if_false]
        simp [c]

theorem sliceLoc_some (iF iL : Int) (l l' : Loc) (_h : l.WF) (hs : sliceLoc iF iL l = some l') :
    (l.first ≤ iL ∧ l.last ≥ iF ∧ iF ≤ iL) ∧
    l'.first = (if l.first < iF then iF else l.first) ∧
    l'.last = (if l.last > iL then iL else l.last) ∧
    l'.strand = l.strand ∧
    l'.defect = { l.defect with
      missLeft := l.defect.missLeft || decide (l.first < iF)
      missRight := l.defect.missRight || decide (l.last > iL) } := by
  unfold sliceLoc at hs
  by_cases hc : l.first ≤ iL ∧ l.last ≥ iF ∧ iF ≤ iL
  · simp only [hc, and_self, if_true, Option.some.injEq] at hs
    subst hs
    exact ⟨hc, rfl, rfl, rfl, rfl⟩
  · simp [hc] at hs

theorem sliceLoc_none (iF iL : Int) (l : Loc) :
    sliceLoc iF iL l = none ↔ ¬ (l.first ≤ iL ∧ l.last ≥ iF ∧ iF ≤ iL) := by
  unfold sliceLoc
  by_cases hc : l.first ≤ iL ∧ l.last ≥ iF ∧ iF ≤ iL <;> simp [hc]

theorem sliceLoc_covers (iF iL : Int) (l l' : Loc) (h : l.WF) (hs : sliceLoc iF iL l = some l') (p : Int) :
    l'.covers p ↔ (l.covers p ∧ iF ≤ p ∧ p ≤ iL) := by
  obtain ⟨hc, hf, hl, _, _⟩ := sliceLoc_some iF iL l l' h hs
  unfold Loc.covers
  rw [hf, hl]
  unfold Loc.WF at h
  split <;> split <;> omega

theorem sliceLoc_wf (iF iL : Int) (l l' : Loc) (h : l.WF) (hs : sliceLoc iF iL l = some l') : l'.WF := by
  obtain ⟨hc, hf, hl, _, _⟩ := sliceLoc_some iF iL l l' h hs
  unfold Loc.WF at *
  rw [hf, hl]
  split <;> split <;> omega

theorem sliceLoc_none_iff (iF iL : Int) (l : Loc) (h : l.WF) :
    sliceLoc iF iL l = none ↔ ∀ p, l.covers p → ¬ (iF ≤ p ∧ p ≤ iL) := by
  rw [sliceLoc_none]
  unfold Loc.covers
  unfold Loc.WF at h
  constructor
  · intro hn p hp; omega
  · intro hall hc
    -- the base max(first, iF) is covered and inside
    by_cases h1 : l.first < iF
    · exact hall iF ⟨by omega, by omega⟩ ⟨by omega, by omega⟩
    · exact hall l.first ⟨by omega, by omega⟩ ⟨by omega, by omega⟩

/-! ## Slicing a feature / an annotation -/

theorem sliceFeatureE_eq (iF iL : Option Int) (f : Feature) (h : ∀ l ∈ f.locs, l.WF) :
    sliceFeatureE iF iL f = .ok (sliceFeatureO iF iL f) := by
  unfold sliceFeatureE sliceFeatureO
  rw [mapME_ok (sliceLocE iF iL) (sliceLocO iF iL) f.locs (fun l hl => sliceLocE_eq iF iL l (h l hl))]
  simp only [List.filterMap_map]
  have : (id ∘ sliceLocO iF iL) = sliceLocO iF iL := rfl
  rw [this]
  split <;> rfl

theorem sliceAnnotE_eq (a b : Option Int) (ann : Annot) (h : Annot.WF ann) :
    sliceAnnotE a b ann = .ok (sliceAnnotO a (b.map (· - 1)) ann) := by
  unfold sliceAnnotE sliceAnnotO iFirst iLast
  rw [mapME_ok _ (sliceFeatureO a (b.map (· - 1))) ann
    (fun f hf => sliceFeatureE_eq _ _ f (h f hf).2)]
  simp only [List.filterMap_map]
  rfl

theorem sliceFeatureO_some (iF iL : Option Int) (f f' : Feature) (hs : sliceFeatureO iF iL f = some f') :
    f'.key = f.key ∧ f'.qual = f.qual ∧ f'.locs = f.locs.filterMap (sliceLocO iF iL) ∧ f'.locs ≠ [] := by
  unfold sliceFeatureO at hs
  by_cases hc : (f.locs.filterMap (sliceLocO iF iL)).length > 0
  · simp only [hc, if_true, Option.some.injEq] at hs
    subst hs
    refine ⟨rfl, rfl, rfl, ?_⟩
    intro h0
    simp only [] at h0
    rw [h0] at hc
    simp at hc
  · simp [hc] at hs

/-- Both bounds given: the window is the integer window. -/
theorem sliceAnnotO_some_some (x y : Int) (ann : Annot) :
    sliceAnnotO (some x) (some y) ann = sliceAnnot x y ann := rfl

theorem sliceFeature_some (iF iL : Int) (f f' : Feature) (hs : sliceFeature iF iL f = some f') :
    f'.key = f.key ∧ f'.qual = f.qual ∧ f'.locs = f.locs.filterMap (sliceLoc iF iL) ∧ f'.locs ≠ [] := by
  unfold sliceFeature at hs
  by_cases hc : (f.locs.filterMap (sliceLoc iF iL)).length > 0
  · simp only [hc, if_true, Option.some.injEq] at hs
    subst hs
    refine ⟨rfl, rfl, rfl, ?_⟩
    intro h0
    simp only [] at h0
    rw [h0] at hc
    simp at hc
  · simp [hc] at hs

theorem sliceFeature_none (iF iL : Int) (f : Feature) :
    sliceFeature iF iL f = none ↔ f.locs.filterMap (sliceLoc iF iL) = [] := by
  unfold sliceFeature
  by_cases hc : (f.locs.filterMap (sliceLoc iF iL)).length > 0
  · simp only [hc, if_true]
    constructor
    · intro h; cases h
    · intro h; rw [h] at hc; simp at hc
  · simp only [hc, if_false, true_iff]
    exact List.eq_nil_of_length_eq_zero (by omega)

/-! ## Python slices with in-range bounds -/

theorem normIdx_nat (i n : Nat) : normIdx (i : Int) n = min i n := by
  unfold normIdx
  have h0 : ¬ ((i : Int) < 0) := by omega
  simp only [h0, if_false]
  by_cases h : (i : Int) > n
  · simp only [h, if_true]; omega
  · simp only [h, if_false, Int.toNat_natCast]; omega

theorem pySlice_nat {α : Type} (xs : List α) (s e : Nat) :
    pySlice xs (s : Int) (e : Int) = (xs.drop s).take (e - s) := by
  unfold pySlice
  rw [normIdx_nat, normIdx_nat, List.drop_take]
  apply List.ext_getElem?
  intro j
  simp only [List.getElem?_take, List.getElem?_drop]
  by_cases h1 : j < min e xs.length - min s xs.length
  · have : j < e - s := by omega
    simp only [h1, this, if_true]
    congr 1; omega
  · simp only [h1, if_false]
    by_cases h2 : j < e - s
    · simp only [h2, if_true]
      exact (List.getElem?_eq_none (by omega)).symm
    · simp [h2]

/-- The array index of an absolute position. -/
def idx (start : Int) (l : Loc) : Nat := (l.first - start).toNat
/-- Number of bases of a location. -/
def Loc.len (l : Loc) : Nat := (l.last - l.first + 1).toNat

/-- The location lies inside the sequence `[start, start + n)`. -/
def InRange (start : Int) (n : Nat) (l : Loc) : Prop :=
  start ≤ l.first ∧ l.first ≤ l.last ∧ l.last < start + n

instance (start : Int) (n : Nat) (l : Loc) : Decidable (InRange start n l) := by
  unfold InRange; infer_instance
instance (f : Feature) : Decidable f.WF := by unfold Feature.WF; infer_instance
instance (a : Annot) : Decidable (Annot.WF a) := by unfold Annot.WF; infer_instance
instance (xs : List Nat) : Decidable (ValidSeq xs) := by unfold ValidSeq; infer_instance

theorem locSub_inRange (s : ASeq) (l : Loc) (h : InRange s.start s.seq.length l) :
    locSub s l = (s.seq.drop (idx s.start l)).take l.len := by
  unfold InRange at h
  unfold locSub idx Loc.len
  have e1 : l.first - s.start = (((l.first - s.start).toNat : Nat) : Int) := by omega
  have e2 : l.last - s.start + 1 = (((l.last - s.start + 1).toNat : Nat) : Int) := by omega
  rw [e1, e2, pySlice_nat]
  congr 1
  omega

/-! ## Reverse complement -/

def revLoc (len : Nat) (start k : Int) (l : Loc) : Loc :=
  ⟨(len : Int) - 1 - (l.last - start) + k, (len : Int) - 1 - (l.first - start) + k, l.strand.flip, l.defect.mirror⟩

def revFeature (len : Nat) (start k : Int) (f : Feature) : Feature :=
  { f with locs := f.locs.map (revLoc len start k) }

theorem revLocE_eq (len : Nat) (start k : Int) (l : Loc) (h : l.WF) :
    revLocE len start k l = .ok (revLoc len start k l) := by
  unfold Loc.WF at h
  unfold revLocE mkLoc revLoc
  have : ¬ ((len : Int) - 1 - (l.last - start) + k > (len : Int) - 1 - (l.first - start) + k) := by omega
  simp [this]

theorem revLoc_wf (len : Nat) (start k : Int) (l : Loc) (h : l.WF) : (revLoc len start k l).WF := by
  unfold Loc.WF at *; unfold revLoc; simp only []; omega

theorem revLoc_revLoc (len : Nat) (start k : Int) (l : Loc) :
    revLoc len k start (revLoc len start k l) = l := by
  cases l with
  | mk f la st d =>
    unfold revLoc
    simp only [Loc.mk.injEq]
    refine ⟨by omega, by omega, ?_, ?_⟩
    · cases st <;> rfl
    · cases d; rfl

theorem revFeatureE_eq (len : Nat) (start k : Int) (f : Feature) (h : f.WF) :
    revFeatureE len start k f = .ok (revFeature len start k f) := by
  unfold revFeatureE
  rw [mapME_ok _ (revLoc len start k) f.locs (fun l hl => revLocE_eq len start k l (h.2 l hl))]
  have hne : (f.locs.map (revLoc len start k)).length ≠ 0 := by
    rw [List.length_map]
    intro h0
    exact h.1 (List.eq_nil_of_length_eq_zero h0)
  simp only [hne, if_false]
  rfl

theorem revFeature_wf (len : Nat) (start k : Int) (f : Feature) (h : f.WF) : (revFeature len start k f).WF := by
  unfold Feature.WF revFeature at *
  constructor
  · intro h0; exact h.1 (List.map_eq_nil_iff.mp h0)
  · intro l hl
    simp only [List.mem_map] at hl
    obtain ⟨l0, hl0, rfl⟩ := hl
    exact revLoc_wf _ _ _ _ (h.2 l0 hl0)

theorem revFeature_revFeature (len : Nat) (start k : Int) (f : Feature) :
    revFeature len k start (revFeature len start k f) = f := by
  cases f with
  | mk key qual locs =>
    unfold revFeature
    simp only [List.map_map, Feature.mk.injEq, true_and]
    have : (revLoc len k start ∘ revLoc len start k) = id := by
      funext l; exact revLoc_revLoc len start k l
    rw [this, List.map_id]

theorem compl_compl : ∀ c, c < 15 → compl (compl c) = c := by decide

theorem compl_lt : ∀ c, c < 15 → compl c < 15 := by decide

theorem revComp_revComp (xs : List Nat) (h : ValidSeq xs) : revComp (revComp xs) = xs := by
  unfold revComp
  simp only [List.map_reverse, List.reverse_reverse, List.map_map]
  unfold ValidSeq at h
  induction xs with
  | nil => rfl
  | cons x xs ih =>
    simp only [List.map_cons, Function.comp]
    rw [compl_compl x (h x (by simp)), ih (fun c hc => h c (by simp [hc]))]

theorem revComp_length (xs : List Nat) : (revComp xs).length = xs.length := by
  unfold revComp; simp

/-! ## Writing through a feature -/

/-- Total number of bases of a location list. -/
def total (ls : List Loc) : Nat := (ls.map Loc.len).sum

/-- Two locations share no base. -/
def Disjoint (a b : Loc) : Prop := a.last < b.first ∨ b.last < a.first

instance (a b : Loc) : Decidable (Disjoint a b) := by unfold Disjoint; infer_instance

theorem Disjoint.symm {a b : Loc} (h : Disjoint a b) : Disjoint b a := by
  unfold Disjoint at *; omega

theorem assignSlice_inRange (xs : List Nat) (start : Int) (l : Loc) (v : List Nat)
    (h : InRange start xs.length l) (hv : v.length = l.len) :
    assignSlice xs (l.first - start) (l.last - start + 1) v
      = .ok (xs.take (idx start l) ++ v ++ xs.drop (idx start l + l.len)) := by
  unfold InRange at h
  have e1 : l.first - start = ((idx start l : Nat) : Int) := by unfold idx; omega
  have e2 : l.last - start + 1 = ((idx start l + l.len : Nat) : Int) := by unfold idx Loc.len; omega
  have h1 : min (idx start l) xs.length = idx start l := by unfold idx; omega
  have h2 : min (idx start l + l.len) xs.length = idx start l + l.len := by unfold idx Loc.len; omega
  unfold assignSlice
  rw [e1, e2, normIdx_nat, normIdx_nat, h1, h2]
  have h3 : ¬ (idx start l + l.len < idx start l) := by omega
  have h4 : idx start l + l.len - idx start l = l.len := by omega
  simp only [h3, if_false, h4, hv, if_true]

theorem write_getElem? (xs v : List Nat) (i : Nat) (hi : i + v.length ≤ xs.length) (j : Nat) :
    (xs.take i ++ v ++ xs.drop (i + v.length))[j]? =
      if i ≤ j ∧ j < i + v.length then v[j - i]? else xs[j]? := by
  have hlt : (xs.take i).length = i := by rw [List.length_take]; omega
  rw [List.append_assoc, List.getElem?_append, hlt]
  by_cases h1 : j < i
  · have : ¬ (i ≤ j ∧ j < i + v.length) := by omega
    simp only [h1, if_true, this, if_false, List.getElem?_take]
  · simp only [h1, if_false]
    rw [List.getElem?_append]
    by_cases h2 : j - i < v.length
    · have : i ≤ j ∧ j < i + v.length := by omega
      simp only [h2, if_true, this, and_self]
    · have : ¬ (i ≤ j ∧ j < i + v.length) := by omega
      simp only [h2, if_false, this, List.getElem?_drop]
      congr 1; omega

theorem write_length (xs v : List Nat) (i : Nat) (hi : i + v.length ≤ xs.length) :
    (xs.take i ++ v ++ xs.drop (i + v.length)).length = xs.length := by
  simp only [List.length_append, List.length_take, List.length_drop]; omega

theorem setLoop_cons_ok (start : Int) (x : List Nat) (l : Loc) (ls : List Loc) (off : Int)
    (seq seq1 : List Nat)
    (h : assignSlice seq (l.first - start) (l.last - start + 1)
          (pySlice x off (off + (l.last - start + 1 - (l.first - start)))) = .ok seq1) :
    setLoop start x (l :: ls) off seq
      = setLoop start x ls (off + (l.last - start + 1 - (l.first - start))) seq1 := by
  simp only [setLoop, h]

theorem setLoop_spec (start : Int) (x : List Nat) (N : Nat) :
    ∀ (ls : List Loc), (∀ l ∈ ls, InRange start N l) → ls.Pairwise Disjoint →
    ∀ (k : Nat) (seq : List Nat), seq.length = N → k + total ls ≤ x.length →
    ∃ seq', setLoop start x ls (k : Int) seq = (seq', none) ∧ seq'.length = N ∧
      (∀ j, (∀ l ∈ ls, ¬ (idx start l ≤ j ∧ j < idx start l + l.len)) → seq'[j]? = seq[j]?) ∧
      ls.flatMap (fun l => (seq'.drop (idx start l)).take l.len) = (x.drop k).take (total ls) := by
  intro ls
  induction ls with
  | nil =>
    intro _ _ k seq hN _
    exact ⟨seq, rfl, hN, fun _ _ => rfl, by simp [total]⟩
  | cons l rest ih =>
    intro hin hdis k seq hN hk
    have hl : InRange start N l := hin l (by simp)
    have hrest : ∀ l' ∈ rest, InRange start N l' := fun l' h' => hin l' (by simp [h'])
    rw [List.pairwise_cons] at hdis
    obtain ⟨hdl, hdrest⟩ := hdis
    have htot : total (l :: rest) = l.len + total rest := by simp [total]
    -- the chunk of `x` written to `l`
    have hsize : l.last - start + 1 - (l.first - start) = ((l.len : Nat) : Int) := by
      unfold InRange at hl; unfold Loc.len; omega
    have hchunk : pySlice x (k : Int) ((k : Int) + (l.last - start + 1 - (l.first - start)))
        = (x.drop k).take l.len := by
      rw [hsize]
      have : (k : Int) + (l.len : Int) = ((k + l.len : Nat) : Int) := by omega
      rw [this, pySlice_nat]
      congr 1; omega
    have hclen : ((x.drop k).take l.len).length = l.len := by
      rw [List.length_take, List.length_drop]; omega
    have hN' : InRange start seq.length l := by rw [hN]; exact hl
    have hassign := assignSlice_inRange seq start l ((x.drop k).take l.len) hN' hclen
    have hstep := setLoop_cons_ok start x l rest (k : Int) seq _ (by rw [hchunk]; exact hassign)
    have hbound : idx start l + ((x.drop k).take l.len).length ≤ seq.length := by
      rw [hclen, hN]; unfold InRange at hl; unfold idx Loc.len; omega
    have hlen1 := write_length seq ((x.drop k).take l.len) (idx start l) hbound
    rw [hclen] at hlen1
    have hoff : (k : Int) + (l.last - start + 1 - (l.first - start)) = ((k + l.len : Nat) : Int) := by
      rw [hsize]; omega
    rw [hoff] at hstep
    obtain ⟨seq', hrun, hlen', hout, hflat⟩ :=
      ih hrest hdrest (k + l.len) _ (by rw [hlen1, hN]) (by omega)
    refine ⟨seq', by rw [hstep, hrun], hlen', ?_, ?_⟩
    · intro j hj
      have hj1 : ∀ l' ∈ rest, ¬ (idx start l' ≤ j ∧ j < idx start l' + l'.len) :=
        fun l' h' => hj l' (by simp [h'])
      rw [hout j hj1]
      have := write_getElem? seq ((x.drop k).take l.len) (idx start l) hbound j
      rw [hclen] at this
      rw [this]
      have hjl := hj l (by simp)
      simp only [hjl, if_false]
    · rw [List.flatMap_cons, hflat, htot, List.take_add, List.drop_drop]
      congr 1
      -- reading `l` back from the final sequence gives the chunk
      apply List.ext_getElem?
      intro j
      rw [List.getElem?_take, List.getElem?_drop]
      by_cases hjl : j < l.len
      · simp only [hjl, if_true]
        have hj1 : ∀ l' ∈ rest, ¬ (idx start l' ≤ idx start l + j ∧ idx start l + j < idx start l' + l'.len) := by
          intro l' h'
          have hd := hdl l' h'
          have hr := hrest l' h'
          unfold Disjoint at hd; unfold InRange at hr hl; unfold idx Loc.len at *
          omega
        rw [hout _ hj1]
        have := write_getElem? seq ((x.drop k).take l.len) (idx start l) hbound (idx start l + j)
        rw [hclen] at this
        rw [this]
        have hc : idx start l ≤ idx start l + j ∧ idx start l + j < idx start l + l.len := by omega
        simp only [hc, and_self, if_true]
        congr 1; omega
      · simp only [hjl, if_false]
        exact (List.getElem?_eq_none (by rw [hclen]; omega)).symm

/-! ## Biological order -/

theorem insertBy_perm {α : Type} (le : α → α → Bool) (x : α) (l : List α) :
    (insertBy le x l).Perm (x :: l) := by
  induction l with
  | nil => exact List.Perm.refl _
  | cons y ys ih =>
    unfold insertBy
    split
    · exact List.Perm.refl _
    · exact ((List.Perm.cons y ih).trans (List.Perm.swap x y ys))

theorem sortBy_perm {α : Type} (le : α → α → Bool) (l : List α) : (sortBy le l).Perm l := by
  induction l with
  | nil => exact List.Perm.refl _
  | cons x xs ih => exact (insertBy_perm le x _).trans (List.Perm.cons x ih)

theorem insertBy_pairwise {α : Type} (le : α → α → Bool)
    (trans : ∀ a b c, le a b = true → le b c = true → le a c = true)
    (tot : ∀ a b, le a b = true ∨ le b a = true) (x : α) (l : List α)
    (h : l.Pairwise (fun a b => le a b = true)) :
    (insertBy le x l).Pairwise (fun a b => le a b = true) := by
  induction l with
  | nil => simp [insertBy]
  | cons y ys ih =>
    rw [List.pairwise_cons] at h
    unfold insertBy
    split
    · rename_i hxy
      rw [List.pairwise_cons]
      refine ⟨?_, List.pairwise_cons.mpr h⟩
      intro z hz
      rcases List.mem_cons.mp hz with rfl | hz
      · exact hxy
      · exact trans _ _ _ hxy (h.1 z hz)
    · rename_i hxy
      have hyx : le y x = true := by
        rcases tot x y with h' | h'
        · exact absurd h' hxy
        · exact h'
      rw [List.pairwise_cons]
      refine ⟨?_, ih h.2⟩
      intro z hz
      rcases List.mem_cons.mp ((insertBy_perm le x ys).mem_iff.mp hz) with rfl | hz
      · exact hyx
      · exact h.1 z hz

theorem sortBy_pairwise {α : Type} (le : α → α → Bool)
    (trans : ∀ a b c, le a b = true → le b c = true → le a c = true)
    (tot : ∀ a b, le a b = true ∨ le b a = true) (l : List α) :
    (sortBy le l).Pairwise (fun a b => le a b = true) := by
  induction l with
  | nil => exact List.Pairwise.nil
  | cons x xs ih => exact insertBy_pairwise le trans tot x _ ih

theorem bioOrder_perm (st : Strand) (ls : List Loc) : (bioOrder st ls).Perm ls := by
  cases st <;> exact sortBy_perm _ _

theorem bioOrder_sorted_fwd (ls : List Loc) :
    (bioOrder .fwd ls).Pairwise (fun a b => a.first ≤ b.first) := by
  have := sortBy_pairwise (fun (a b : Loc) => decide (a.first < b.first ∨ (a.first = b.first ∧ a.last ≤ b.last)))
    (by intro a b c h1 h2; simp only [decide_eq_true_eq] at *; omega)
    (by intro a b; simp only [decide_eq_true_eq]; omega) ls
  refine List.Pairwise.imp ?_ this
  intro a b h; simp only [decide_eq_true_eq] at h; omega

theorem bioOrder_sorted_rev (ls : List Loc) :
    (bioOrder .rev ls).Pairwise (fun a b => b.last ≤ a.last) := by
  have := sortBy_pairwise (fun (a b : Loc) => decide (b.last < a.last ∨ (b.last = a.last ∧ b.first ≤ a.first)))
    (by intro a b c h1 h2; simp only [decide_eq_true_eq] at *; omega)
    (by intro a b; simp only [decide_eq_true_eq]; omega) ls
  refine List.Pairwise.imp ?_ this
  intro a b h; simp only [decide_eq_true_eq] at h; omega

theorem uniformStrand_of (st : Strand) (ls : List Loc) (hne : ls ≠ [])
    (h : ∀ l ∈ ls, l.strand = st) : uniformStrand ls = some st := by
  cases ls with
  | nil => exact absurd rfl hne
  | cons l r =>
    have hl : l.strand = st := h l (by simp)
    have : (r.all fun l' => decide (l'.strand = l.strand)) = true := by
      rw [List.all_eq_true]
      intro l' h'
      simp only [decide_eq_true_eq]
      rw [hl]; exact h l' (by simp [h'])
    show (if (r.all fun l' => decide (l'.strand = l.strand)) = true then some l.strand else none) = some st
    rw [if_pos this, hl]

theorem setOrder_of (st : Strand) (ls : List Loc) (hne : ls ≠ [])
    (h : ∀ l ∈ ls, l.strand = st) : setOrder ls = bioOrder st ls := by
  unfold setOrder
  cases st with
  | rev =>
    have : (ls.all fun l => decide (l.strand = .rev)) = true := by
      rw [List.all_eq_true]; intro l hl; simp only [decide_eq_true_eq]; exact h l hl
    simp only [this, if_true]
  | fwd =>
    have : ¬ (ls.all fun l => decide (l.strand = .rev)) = true := by
      rw [List.all_eq_true]
      intro hall
      cases ls with
      | nil => exact hne rfl
      | cons l r =>
        have h1 := hall l (by simp)
        have h2 := h l (by simp)
        simp only [decide_eq_true_eq] at h1
        rw [h2] at h1; cases h1
    rw [if_neg this]

theorem total_perm {l1 l2 : List Loc} (p : l1.Perm l2) : total l1 = total l2 := by
  unfold total; exact (p.map Loc.len).sum_nat

theorem locSeq_fwd (s : ASeq) (l : Loc) (h : l.strand = .fwd) : locSeq s l = locSub s l := by
  unfold locSeq; simp [h]

theorem locSeq_rev (s : ASeq) (l : Loc) (h : l.strand = .rev) : locSeq s l = revComp (locSub s l) := by
  unfold locSeq; simp [h]

theorem flatMap_congr' {α β : Type} (f g : α → List β) (ls : List α) (h : ∀ l ∈ ls, f l = g l) :
    ls.flatMap f = ls.flatMap g := by
  induction ls with
  | nil => rfl
  | cons a r ih =>
    rw [List.flatMap_cons, List.flatMap_cons, h a (by simp), ih (fun l hl => h l (by simp [hl]))]

/-! ## Slice / int assignment, annotation edits -/

theorem assignSlice_nat (xs v : List Nat) (i j : Nat) (hij : i ≤ j) (hj : j ≤ xs.length)
    (hv : v.length = j - i) :
    assignSlice xs (i : Int) (j : Int) v = .ok (xs.take i ++ v ++ xs.drop j) := by
  unfold assignSlice
  rw [normIdx_nat, normIdx_nat]
  have h1 : min i xs.length = i := by omega
  have h2 : min j xs.length = j := by omega
  rw [h1, h2]
  have h3 : ¬ (j < i) := by omega
  simp only [h3, if_false, hv, if_true]

theorem Feature.same_refl (f : Feature) : Feature.same f f = true := by
  unfold Feature.same
  simp only [beq_self_eq_true, Bool.true_and, Bool.and_eq_true, List.all_eq_true, List.contains_iff_mem]
  exact ⟨fun l hl => hl, fun l hl => hl⟩

theorem setSlice_eq (s : ASeq) (a b : Option Int) (v : List Nat)
    (ha : ∀ x, a = some x → s.start ≤ x) (hb : ∀ x, b = some x → s.start ≤ x) :
    setSlice s a b v =
      match assignSlice s.seq ((a.map (· - s.start)).getD 0) ((b.map (· - s.start)).getD (s.seq.length : Int)) v with
      | .error e => .error e
      | .ok seq' => .ok { s with seq := seq' } := by
  cases a with
  | none =>
    cases b with
    | none => simp [setSlice] <;> rfl
    | some y => have := hb y rfl; have h : ¬ y < s.start := by omega
                simp [setSlice, h] <;> rfl
  | some x =>
    have := ha x rfl
    have hx : ¬ x < s.start := by omega
    cases b with
    | none => simp [setSlice, hx] <;> rfl
    | some y => have := hb y rfl; have h : ¬ y < s.start := by omega
                simp [setSlice, hx, h] <;> rfl

theorem any_first_lt_false (ls : List Loc) (start : Int) (h : ∀ l ∈ ls, start ≤ l.first) :
    ls.any (fun l => decide (l.first < start)) = false := by
  rw [Bool.eq_false_iff]
  intro hany
  rw [List.any_eq_true] at hany
  obtain ⟨l, hl, hd⟩ := hany
  simp only [decide_eq_true_eq] at hd
  have := h l hl
  omega

theorem any_first_lt_true (ls : List Loc) (start : Int) (l : Loc) (hl : l ∈ ls) (h : l.first < start) :
    ls.any (fun l => decide (l.first < start)) = true := by
  rw [List.any_eq_true]
  exact ⟨l, hl, by simp only [decide_eq_true_eq]; exact h⟩

end BiotiteModel.C13

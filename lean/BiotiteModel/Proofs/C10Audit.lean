import BiotiteModel.Proofs.C10Mincode
import BiotiteModel.Proofs.C10Kmers
/-! Hypothesis audit: refusals exactly at the boundary of the earlier hypotheses, and the fractional
compression factor of the min-code selector. -/
namespace BiotiteModel.C10

theorem mincodeSelectQ_spec (a : KAlph) (num den : Nat) (hd : 0 < den) (hc : den ≤ num) (p : Perm)
    (kmers : List Nat) (ord : List Int) (hp : p.apply kmers = .ok ord) :
    ∃ l, mincodeSelectQ a num den p kmers = .ok l ∧
      ∀ i q, (i, q) ∈ l ↔ kmers[i]? = some q ∧
        ∃ v, p.fn q = .ok v ∧ (v - p.offset) * (num : Int) < p.range a.size * (den : Int) := by
  unfold mincodeSelectQ
  have hc' : ¬ (den = 0 ∨ num < den) := by omega
  simp only [hc', if_false, hp]
  refine ⟨_, rfl, ?_⟩
  intro i q
  rw [perm_apply_eq] at hp
  simp only [List.mem_filterMap]
  constructor
  · rintro ⟨⟨⟨i', q'⟩, v⟩, hm, hsel⟩
    rw [mem_zipIdx_zip] at hm
    obtain ⟨hk, hv⟩ := hm
    obtain ⟨y, hy1, hy2⟩ := mapMExcept_getElem _ _ _ hp i' q' hk
    rw [hv] at hy2
    simp only [Option.some.injEq] at hy2
    subst hy2
    split at hsel
    · rename_i hlt
      simp only [Option.some.injEq, Prod.mk.injEq] at hsel
      obtain ⟨rfl, rfl⟩ := hsel
      exact ⟨hk, v, hy1, hlt⟩
    · simp at hsel
  · rintro ⟨hk, v, hv, hlt⟩
    obtain ⟨y, hy1, hy2⟩ := mapMExcept_getElem _ _ _ hp i q hk
    rw [hv] at hy1
    simp only [Except.ok.injEq] at hy1
    subst hy1
    refine ⟨((i, q), v), (mem_zipIdx_zip _ _ _ _ _).2 ⟨hk, hy2⟩, ?_⟩
    simp [hlt]

theorem mincodeSelect_eq_Q (a : KAlph) (c : Nat) (p : Perm) (kmers : List Nat) :
    mincodeSelect a c p kmers = mincodeSelectQ a c 1 p kmers := by
  unfold mincodeSelect mincodeSelectQ
  by_cases hc : c < 1
  · simp [hc]
  · simp only [hc, if_false]
    cases p.apply kmers with
    | error e => simp
    | ok ord => simp

theorem mincodeSelectQ_rejects (a : KAlph) (num den : Nat) (p : Perm) (kmers : List Nat) (h : num < den) :
    mincodeSelectQ a num den p kmers = .error .valueError := by
  simp [mincodeSelectQ, h]

theorem guardRefIds_iff (rs : List Int) (t : Table) :
    (guardRefIds rs (.ok t) = .ok t ↔ ∀ r ∈ rs, 0 ≤ r ∧ r < 2 ^ 32) ∧
    (guardRefIds rs (.ok t) = .error .overflowError ↔ ¬ ∀ r ∈ rs, 0 ≤ r ∧ r < 2 ^ 32) := by
  have key : (refIdsOk rs = true) ↔ ∀ r ∈ rs, 0 ≤ r ∧ r < 2 ^ 32 := by
    unfold refIdsOk
    simp only [List.all_eq_true, decide_eq_true_eq]
  unfold guardRefIds
  by_cases h : refIdsOk rs = true
  · have h' := key.1 h
    simp only [h, if_true]
    refine ⟨⟨fun _ => h', fun _ => trivial⟩, ⟨fun hh => ?_, fun hh => absurd h' hh⟩⟩
    cases hh
  · have h' : ¬ ∀ r ∈ rs, 0 ≤ r ∧ r < 2 ^ 32 := fun hh => h (key.2 hh)
    simp only [h]
    refine ⟨⟨fun hh => ?_, fun hh => absurd hh h'⟩, ⟨fun _ => h', fun _ => rfl⟩⟩
    cases hh

theorem ruleCtor_iff (mat : List Int) (thr : Int) :
    ruleCtor mat thr = .ok () ↔ (-(2 : Int) ^ 31 ≤ thr ∧ thr < (2 : Int) ^ 31) ∧ matSymmetric mat = true := by
  unfold ruleCtor
  by_cases h1 : thr < -(2 : Int) ^ 31 ∨ thr ≥ (2 : Int) ^ 31
  · simp only [h1, if_true]
    constructor
    · intro h; cases h
    · rintro ⟨h, _⟩; omega
  · simp only [h1, if_false]
    by_cases h2 : matSymmetric mat = true
    · simp [h2]; omega
    · simp [h2]

theorem similarKmersChecked_ok (a : KAlph) (mat : List Int) (thr : Int) (q : Nat) (l : List Nat)
    (h : similarKmersChecked a mat thr q = .ok l) :
    ruleCtor mat thr = .ok () ∧ a.n ≤ matDim mat ∧ q < a.size ∧ l = bbSim a mat thr q := by
  unfold similarKmersChecked at h
  split at h
  · cases h
  · rename_i hc
    split at h
    · cases h
    · rename_i hcomp
      split at h
      · cases h
      · rename_i hq
        simp only [Except.ok.injEq] at h
        refine ⟨by rw [hc], ?_, by omega, h.symm⟩
        simpa [ruleCompatible] using hcomp

theorem kmer_codes_fit (a : KAlph) (seq : List Nat) (hwf : a.WF) (hlen : a.span ≤ seq.length)
    (hn : ∀ c ∈ seq, c < a.n) (hsz : a.size ≤ 2 ^ 63) : ∀ q ∈ kmersSpec a seq, q < 2 ^ 63 := by
  intro q hq
  have := kmersSpec_lt a seq hwf hlen hn q hq
  omega

end BiotiteModel.C10

import BiotiteModel.Proofs.C09Region
/-! The affine X-drop region fill (`regionAff`) with a threshold that cannot bind is the anchored three-state table. -/
namespace BiotiteModel.C09
open BiotiteModel BiotiteModel.C08

/-! ## encoding of table entries: `0` = invalid (−∞), otherwise `init + value` -/

def enc (init : Int) : Option Int → Int
  | none => 0
  | some v => init + v

/-- a candidate score computed by the code represents an optional value: invalid candidates are `≤ 0` -/
def repr (init : Int) (e : Int) : Option Int → Prop
  | none => e ≤ 0
  | some v => e = init + v

def updo (init : Int) (b : Int) : Option Int → Int
  | none => b
  | some w => if init + w > b then init + w else b

theorem repr_addS (init : Int) (o : Option Int) (s : Int) (hpos : ∀ w, o = some w → 0 < init + w) :
    repr init (if enc init o ≠ 0 then enc init o + s else enc init o) (oadd o s) := by
  cases o with
  | none => simp [enc, repr, oadd]
  | some w =>
    have := hpos w rfl
    have h : enc init (some w) ≠ 0 := by simp only [enc]; omega
    simp only [h, ne_eq, not_false_eq_true, if_true, enc, repr, oadd]; omega

theorem repr_addG (init : Int) (o : Option Int) (g : Int) (hg : g < 0) : repr init (enc init o + g) (oadd o g) := by
  cases o with
  | none => simp only [enc, repr, oadd]; omega
  | some w => simp only [enc, repr, oadd]; omega

theorem repr_max2 (init e1 e2 : Int) (o1 o2 : Option Int) (h1 : repr init e1 o1) (h2 : repr init e2 o2)
    (hpos : ∀ w, omax o1 o2 = some w → 0 < init + w) : repr init (max e1 e2) (omax o1 o2) := by
  cases o1 <;> cases o2 <;> simp only [repr, omax] at * <;> try omega
  all_goals (have := hpos _ rfl; omega)

theorem repr_max3 (init e1 e2 e3 : Int) (o1 o2 o3 : Option Int) (h1 : repr init e1 o1) (h2 : repr init e2 o2)
    (h3 : repr init e3 o3) (hpos : ∀ w, omax o1 (omax o2 o3) = some w → 0 < init + w) :
    repr init (max e1 (max e2 e3)) (omax o1 (omax o2 o3)) := by
  cases o1 <;> cases o2 <;> cases o3 <;> simp only [repr, omax] at * <;> try omega
  all_goals (have := hpos _ rfl; omega)

/-- one acceptance test of `_fill_align_table_affine` -/
def acc1 (thr e best : Int) : Bool × Int :=
  (decide (e ≥ best - thr), if decide (e ≥ best - thr) && decide (e > best) then e else best)

theorem acc1_spec (init thr B e best : Int) (o : Option Int) (hr : repr init e o)
    (hv : ∀ w, o = some w → init + w ≤ B ∧ B - thr ≤ init + w) (hb1 : thr + 1 ≤ best) (hb2 : best ≤ B) :
    (acc1 thr e best).1 = o.isSome ∧ (if (acc1 thr e best).1 then e else 0) = enc init o ∧
      (acc1 thr e best).2 = updo init best o ∧ best ≤ (acc1 thr e best).2 ∧ (acc1 thr e best).2 ≤ B := by
  cases o with
  | none =>
    simp only [repr] at hr
    have h : ¬ (e ≥ best - thr) := by omega
    simp [acc1, h, enc, updo, hb2]
  | some w =>
    simp only [repr] at hr
    obtain ⟨h1, h2⟩ := hv w rfl
    have h : e ≥ best - thr := by omega
    subst hr
    by_cases hg : init + w > best
    · simp [acc1, h, hg, enc, updo]; omega
    · simp [acc1, h, hg, enc, updo]; omega

/-! ## one cell -/

/-- the three scores `_fill_align_table_affine` computes for cell `(i, k - i)` (`_max` code path) -/
def cellVals (M : Mat) (go ge : Int) (x y : Seq) (k : Nat) (d1 d2 : List (Nat × ACell)) (i : Nat) : Int × Int × Int :=
  let j := k - i
  let dg := lookupA d2 (i - 1)
  let s := M (x.getD (i - 1) 0) (y.getD (j - 1) 0)
  let inner : Bool := decide (i ≠ 0) && decide (j ≠ 0)
  let mm : Int := if inner then (if dg.m ≠ 0 then dg.m + s else dg.m) else 0
  let g1m : Int := if inner then (if dg.g1 ≠ 0 then dg.g1 + s else dg.g1) else 0
  let g2m : Int := if inner then (if dg.g2 ≠ 0 then dg.g2 + s else dg.g2) else 0
  let lf := lookupA d1 i
  let tp := lookupA d1 (i - 1)
  let mg1 : Int := if j ≠ 0 then lf.m + go else 0
  let g1g1 : Int := if j ≠ 0 then lf.g1 + ge else 0
  let mg2 : Int := if i ≠ 0 then tp.m + go else 0
  let g2g2 : Int := if i ≠ 0 then tp.g2 + ge else 0
  (max mm (max g1m g2m), max mg1 g1g1, max mg2 g2g2)

theorem regCellsAff_cons (M : Mat) (go ge thr : Int) (x y : Seq) (k : Nat) (d1 d2 : List (Nat × ACell)) (i : Nat)
    (rest : List Nat) (cur : List (Nat × ACell)) (mn mx : Nat) (best mMax : Int) :
    regCellsAff true M go ge thr x y k d1 d2 (i :: rest) (cur, mn, mx, best, mMax) =
      (let v := cellVals M go ge x y k d1 d2 i
       let a1 := acc1 thr v.1 best
       let a2 := acc1 thr v.2.1 a1.2
       let a3 := acc1 thr v.2.2 a2.2
       if a1.1 || a2.1 || a3.1 then
         regCellsAff true M go ge thr x y k d1 d2 rest
           ((i, ⟨if a1.1 then v.1 else 0, if a2.1 then v.2.1 else 0, if a3.1 then v.2.2 else 0⟩) :: cur,
            (if mn = k then i else mn), i, a3.2, (if a1.1 && decide (v.1 > mMax) then v.1 else mMax))
       else regCellsAff true M go ge thr x y k d1 d2 rest (cur, mn, mx, a3.2, mMax)) := by
  rfl

theorem lookupA_cons (i i' : Nat) (v : ACell) (cur : List (Nat × ACell)) :
    lookupA ((i, v) :: cur) i' = if i' = i then v else lookupA cur i' := by
  unfold lookupA
  simp only [List.lookup]
  by_cases h : i' = i
  · subst h; simp
  · have : (i' == i) = false := by simpa using h
    simp [this, h]

def encCell (init : Int) (c : AffCell) : ACell := ⟨enc init c.m, enc init c.g1, enc init c.g2⟩

/-- `np.max(m_table)` as the loop would track it -/
def mFold (init : Int) (t : Nat → AffCell) (mMax : Int) (l : List Nat) : Int :=
  l.foldl (fun b i => updo init b (t i).m) mMax

/-- the cell loop over `lo … hi` when every cell's scores represent the table entry `t i` and every finite state
is within `thr` of the bound `B` -/
theorem regCells_allA (M : Mat) (go ge thr : Int) (x y : Seq) (k : Nat) (d1 d2 : List (Nat × ACell)) (init : Int)
    (t : Nat → AffCell) (B : Int) (hi : Nat) (hik : hi ≤ k) : ∀ (c lo : Nat), hi + 1 - lo = c →
    (∀ i, lo ≤ i → i ≤ hi →
      repr init (cellVals M go ge x y k d1 d2 i).1 (t i).m ∧ repr init (cellVals M go ge x y k d1 d2 i).2.1 (t i).g1 ∧
      repr init (cellVals M go ge x y k d1 d2 i).2.2 (t i).g2 ∧
      (∀ w, (t i).m = some w ∨ (t i).g1 = some w ∨ (t i).g2 = some w → init + w ≤ B ∧ B - thr ≤ init + w) ∧
      ((t i).m.isSome || (t i).g1.isSome || (t i).g2.isSome) = true) →
    ∀ (cur : List (Nat × ACell)) (mn mx : Nat) (best mMax : Int), thr + 1 ≤ best → best ≤ B → (mn = k ∨ mn < lo) →
    ∃ cur' best', regCellsAff true M go ge thr x y k d1 d2 (rangeIncl lo hi) (cur, mn, mx, best, mMax) =
        (cur', (if lo ≤ hi then (if mn = k then lo else mn) else mn), (if lo ≤ hi then hi else mx), best',
          mFold init t mMax (rangeIncl lo hi)) ∧ thr + 1 ≤ best' ∧ best' ≤ B ∧
      ∀ i', lookupA cur' i' = if lo ≤ i' ∧ i' ≤ hi then encCell init (t i') else lookupA cur i' := by
  intro c
  induction c with
  | zero =>
    intro lo hc _ cur mn mx best mMax hb1 hb2 _
    have hlt : hi < lo := by omega
    have hn : ¬ (lo ≤ hi) := by omega
    refine ⟨cur, best, ?_, hb1, hb2, ?_⟩
    · simp only [rangeIncl_nil lo hi hlt, regCellsAff, mFold, List.foldl_nil, hn, if_false]
    · intro i'
      have : ¬ (lo ≤ i' ∧ i' ≤ hi) := by omega
      simp only [this, if_false]
  | succ c ih =>
    intro lo hc hcell cur mn mx best mMax hb1 hb2 hmn
    have hle : lo ≤ hi := by omega
    obtain ⟨r1, r2, r3, hval, hsome⟩ := hcell lo (Nat.le_refl _) hle
    rw [rangeIncl_cons lo hi hle, regCellsAff_cons]
    simp only []
    obtain ⟨a11, a12, a13, a14, a15⟩ := acc1_spec init thr B _ best (t lo).m r1
      (fun w h => hval w (Or.inl h)) hb1 hb2
    obtain ⟨a21, a22, a23, a24, a25⟩ := acc1_spec init thr B _ (acc1 thr (cellVals M go ge x y k d1 d2 lo).1 best).2
      (t lo).g1 r2 (fun w h => hval w (Or.inr (Or.inl h))) (by omega) a15
    obtain ⟨a31, a32, a33, a34, a35⟩ := acc1_spec init thr B _
      (acc1 thr (cellVals M go ge x y k d1 d2 lo).2.1 (acc1 thr (cellVals M go ge x y k d1 d2 lo).1 best).2).2
      (t lo).g2 r3 (fun w h => hval w (Or.inr (Or.inr h))) (by omega) a25
    rw [a12, a22, a32, a11, a21, a31, hsome]
    simp only [if_true]
    have hm : (if (t lo).m.isSome && decide ((cellVals M go ge x y k d1 d2 lo).1 > mMax) then
        (cellVals M go ge x y k d1 d2 lo).1 else mMax) = updo init mMax (t lo).m := by
      cases hmo : (t lo).m with
      | none => simp [updo]
      | some w =>
        rw [hmo] at r1
        simp only [repr] at r1
        rw [r1]
        by_cases hg : init + w > mMax <;> simp [updo, hg]
    rw [hm]
    have hmn' : ((if mn = k then lo else mn) = k ∨ (if mn = k then lo else mn) < lo + 1) := by
      right; rcases hmn with h | h
      · simp only [h, if_true]; omega
      · have : mn ≠ k := by omega
        simp only [this, if_false]; omega
    obtain ⟨cur', best', he, hb1', hb2', hl⟩ := ih (lo + 1) (by omega) (fun i hi1 hi2 => hcell i (by omega) hi2)
      ((lo, ⟨enc init (t lo).m, enc init (t lo).g1, enc init (t lo).g2⟩) :: cur) (if mn = k then lo else mn) lo _
      (updo init mMax (t lo).m) (by omega) a35 hmn'
    refine ⟨cur', best', ?_, hb1', hb2', ?_⟩
    · rw [he]
      simp only [hle, if_true, mFold, List.foldl_cons]
      congr 1
      congr 1
      · by_cases h2' : lo + 1 ≤ hi
        · simp only [h2', if_true]
          rcases hmn with h | h
          · simp only [h, if_true]
            have : lo ≠ k := by omega
            simp only [this, if_false]
          · have : mn ≠ k := by omega
            simp only [this, if_false]
        · simp only [h2', if_false]
      · congr 1
        by_cases h2' : lo + 1 ≤ hi
        · simp only [h2', if_true]
        · simp only [h2', if_false]; omega
    · intro i'
      rw [hl i', lookupA_cons]
      by_cases e : i' = lo
      · subst e
        have c1 : ¬ (i' + 1 ≤ i' ∧ i' ≤ hi) := by omega
        have c2 : (i' ≤ i' ∧ i' ≤ hi) := ⟨Nat.le_refl _, hle⟩
        rw [if_neg c1, if_pos rfl, if_pos c2]; rfl
      · by_cases r : lo ≤ i' ∧ i' ≤ hi
        · have r' : lo + 1 ≤ i' ∧ i' ≤ hi := by omega
          rw [if_pos r', if_pos r]
        · have r' : ¬ (lo + 1 ≤ i' ∧ i' ≤ hi) := by omega
          rw [if_neg r', if_neg e, if_neg r]

/-! ## the anchored three-state table -/

section
variable (M : Mat) (go ge thr : Int) (io : Nat) (x y : Seq)

/-- anchored affine DP (`none` = −∞): the states of C08's global table (`C08_table_aff_prefix`) -/
def Wv (i j : Nat) : AffCell := (affRec .global M go ge x y).val i j

theorem Wv_00 : Wv M go ge x y 0 0 = ⟨some 0, none, none⟩ := by
  simp [Wv, Rec.val_zero, affRec]

theorem Wv_0j (j : Nat) : Wv M go ge x y 0 (j + 1) = ⟨none, some (go + gapRun ge j), none⟩ := by
  simp [Wv, Rec.val_zero, affRec]

theorem Wv_i0 (i : Nat) : Wv M go ge x y (i + 1) 0 = ⟨none, none, some (go + gapRun ge i)⟩ := by
  simp [Wv, Rec.val_succ_zero, affRec]

theorem Wv_succ (i j : Nat) : Wv M go ge x y (i + 1) (j + 1) =
    ⟨omax (oadd (Wv M go ge x y i j).m (sub M x y i j))
        (omax (oadd (Wv M go ge x y i j).g1 (sub M x y i j)) (oadd (Wv M go ge x y i j).g2 (sub M x y i j))),
     omax (oadd (Wv M go ge x y (i + 1) j).m go) (oadd (Wv M go ge x y (i + 1) j).g1 ge),
     omax (oadd (Wv M go ge x y i (j + 1)).m go) (oadd (Wv M go ge x y i (j + 1)).g2 ge)⟩ := by
  simp [Wv, Rec.val_succ_succ, affRec]

/-- row 0 and column 0 satisfy the cell equations of their gap state too -/
theorem Wv_row0_g1 (j : Nat) : (Wv M go ge x y 0 (j + 1)).g1 =
    omax (oadd (Wv M go ge x y 0 j).m go) (oadd (Wv M go ge x y 0 j).g1 ge) := by
  cases j with
  | zero => simp [Wv_0j, Wv_00, oadd, omax, gapRun]
  | succ j => simp [Wv_0j, oadd, omax, gapRun_succ]; omega

theorem Wv_col0_g2 (i : Nat) : (Wv M go ge x y (i + 1) 0).g2 =
    omax (oadd (Wv M go ge x y i 0).m go) (oadd (Wv M go ge x y i 0).g2 ge) := by
  cases i with
  | zero => simp [Wv_i0, Wv_00, oadd, omax, gapRun]
  | succ i => simp [Wv_i0, oadd, omax, gapRun_succ]; omega

/-- "the drop-off cannot bind", affine: every finite state of every cell is at most `Vmax` and within `thr` of it -/
structure NoBindA (Vmax : Int) : Prop where
  hio : 1 ≤ io
  hgo : go < 0
  hge : ge < 0
  hst : ∀ i j, i ≤ x.length → j ≤ y.length → ∀ w,
    ((Wv M go ge x y i j).m = some w ∨ (Wv M go ge x y i j).g1 = some w ∨ (Wv M go ge x y i j).g2 = some w) →
    w ≤ Vmax ∧ Vmax - w ≤ thr

theorem NoBindA.vmax {Vmax : Int} (h : NoBindA M go ge thr io x y Vmax) : 0 ≤ Vmax :=
  (h.hst 0 0 (Nat.zero_le _) (Nat.zero_le _) 0 (Or.inl (by simp [Wv_00]))).1

theorem NoBindA.pos {Vmax : Int} (h : NoBindA M go ge thr io x y Vmax) (i j : Nat) (hi : i ≤ x.length)
    (hj : j ≤ y.length) (w : Int)
    (hw : (Wv M go ge x y i j).m = some w ∨ (Wv M go ge x y i j).g1 = some w ∨ (Wv M go ge x y i j).g2 = some w) :
    0 < thr + io + w := by
  have := h.hst i j hi hj w hw
  have := h.vmax
  have := h.hio
  omega

structure InvA (B : Int) (k : Nat) (st : RegStateA) : Prop where
  nd : st.done = false
  ne : st.err = false
  m0 : st.min0 = loK y k
  x0 : st.max0 = hiK x k
  m1 : st.min1 = if k = 0 then 0 else loK y (k - 1)
  x1 : st.max1 = if k = 0 then 0 else hiK x (k - 1)
  d1 : ∀ i, loK y k ≤ i → i ≤ hiK x k → lookupA st.d1 i = encCell (thr + io) (Wv M go ge x y i (k - i))
  d2 : 1 ≤ k → ∀ i, loK y (k - 1) ≤ i → i ≤ hiK x (k - 1) →
    lookupA st.d2 i = encCell (thr + io) (Wv M go ge x y i (k - 1 - i))
  b1 : thr + 1 ≤ st.maxScore
  b2 : st.maxScore ≤ B

/-- `np.max(m_table)` after antidiagonal `k` -/
def MBk : Nat → Int
  | 0 => thr + io
  | k + 1 => mFold (thr + io) (fun i => Wv M go ge x y i (k + 1 - i)) (MBk k) (rangeIncl (loK y (k + 1)) (hiK x (k + 1)))

theorem cell_correctA {Vmax : Int} (h : NoBindA M go ge thr io x y Vmax) (B : Int) (k : Nat) (st : RegStateA)
    (hinv : InvA M go ge thr io x y B k st) (i : Nat) (h1 : loK y (k + 1) ≤ i) (h2 : i ≤ hiK x (k + 1)) :
    repr (thr + io) (cellVals M go ge x y (k + 1) st.d1 st.d2 i).1 (Wv M go ge x y i (k + 1 - i)).m ∧
    repr (thr + io) (cellVals M go ge x y (k + 1) st.d1 st.d2 i).2.1 (Wv M go ge x y i (k + 1 - i)).g1 ∧
    repr (thr + io) (cellVals M go ge x y (k + 1) st.d1 st.d2 i).2.2 (Wv M go ge x y i (k + 1 - i)).g2 := by
  unfold loK at h1
  unfold hiK at h2
  have hin : i ≤ x.length := by omega
  have hjm : k + 1 - i ≤ y.length := by omega
  have hP := h.pos M go ge thr io x y i (k + 1 - i) hin hjm
  have hgo := h.hgo
  have hge := h.hge
  unfold cellVals
  simp only []
  by_cases hi0 : i = 0
  · subst hi0
    obtain ⟨j', hj'⟩ : ∃ j', k + 1 - 0 = j' + 1 := ⟨k, by omega⟩
    have hd1 := hinv.d1 0 (by unfold loK; omega) (by unfold hiK; omega)
    have ek : k - 0 = j' := by omega
    rw [ek] at hd1
    rw [hj'] at hP ⊢
    simp only [ne_eq, not_true_eq_false, decide_false, Bool.false_and, Bool.false_eq_true, if_false,
      Nat.add_eq_zero_iff, Nat.succ_ne_zero, and_false, not_false_eq_true, if_true, hd1, encCell]
    refine ⟨?_, ?_, ?_⟩
    · rw [Wv_0j]; simp [repr]
    · rw [Wv_row0_g1]
      apply repr_max2 _ _ _ _ _ (repr_addG _ _ _ hgo) (repr_addG _ _ _ hge)
      intro w hw
      rw [← Wv_row0_g1] at hw
      exact hP w (Or.inr (Or.inl hw))
    · rw [Wv_0j]; simp [repr]
  · by_cases hj0 : k + 1 - i = 0
    · have hik : i = k + 1 := by omega
      subst hik
      have hd1 := hinv.d1 k (by unfold loK; omega) (by unfold hiK; omega)
      simp only [Nat.sub_self] at hd1
      rw [hj0] at hP ⊢
      simp only [ne_eq, not_true_eq_false, decide_false, Bool.and_false, Bool.false_eq_true, if_false,
        Nat.add_eq_zero_iff, Nat.succ_ne_zero, and_false, not_false_eq_true, if_true, Nat.add_sub_cancel, hd1, encCell]
      refine ⟨?_, ?_, ?_⟩
      · rw [Wv_i0]; simp [repr]
      · rw [Wv_i0]; simp [repr]
      · rw [Wv_col0_g2]
        apply repr_max2 _ _ _ _ _ (repr_addG _ _ _ hgo) (repr_addG _ _ _ hge)
        intro w hw
        rw [← Wv_col0_g2] at hw
        exact hP w (Or.inr (Or.inr hw))
    · obtain ⟨i', rfl⟩ : ∃ i', i = i' + 1 := ⟨i - 1, by omega⟩
      obtain ⟨j', hj'⟩ : ∃ j', k + 1 - (i' + 1) = j' + 1 := ⟨k + 1 - (i' + 1) - 1, by omega⟩
      have hk1 : 1 ≤ k := by omega
      have hdg := hinv.d2 hk1 i' (by unfold loK; omega) (by unfold hiK; omega)
      have htp := hinv.d1 i' (by unfold loK; omega) (by unfold hiK; omega)
      have hlf := hinv.d1 (i' + 1) (by unfold loK; omega) (by unfold hiK; omega)
      have e1 : k - 1 - i' = j' := by omega
      have e2 : k - i' = j' + 1 := by omega
      have e3 : k - (i' + 1) = j' := by omega
      rw [e1] at hdg
      rw [e2] at htp
      rw [e3] at hlf
      have hPd := h.pos M go ge thr io x y i' j' (by omega) (by omega)
      rw [hj'] at hP ⊢
      simp only [ne_eq, Nat.add_eq_zero_iff, Nat.succ_ne_zero, and_false, not_false_eq_true, decide_true,
        Bool.and_self, if_true, Nat.add_sub_cancel, hdg, htp, hlf, encCell]
      rw [Wv_succ]
      refine ⟨?_, ?_, ?_⟩
      · apply repr_max3 _ _ _ _ _ _ _
          (repr_addS _ _ _ (fun w hw => hPd w (Or.inl hw)))
          (repr_addS _ _ _ (fun w hw => hPd w (Or.inr (Or.inl hw))))
          (repr_addS _ _ _ (fun w hw => hPd w (Or.inr (Or.inr hw))))
        intro w hw
        apply hP w
        left; rw [Wv_succ]; exact hw
      · apply repr_max2 _ _ _ _ _ (repr_addG _ _ _ hgo) (repr_addG _ _ _ hge)
        intro w hw
        apply hP w
        right; left; rw [Wv_succ]; exact hw
      · apply repr_max2 _ _ _ _ _ (repr_addG _ _ _ hgo) (repr_addG _ _ _ hge)
        intro w hw
        apply hP w
        right; right; rw [Wv_succ]; exact hw

theorem Wv_some (i j : Nat) : ((Wv M go ge x y i j).m.isSome || (Wv M go ge x y i j).g1.isSome ||
    (Wv M go ge x y i j).g2.isSome) = true := by
  have key : ∀ i j, ∃ v, (Wv M go ge x y i j).m = some v ∨ (Wv M go ge x y i j).g1 = some v ∨
      (Wv M go ge x y i j).g2 = some v := by
    intro i
    induction i with
    | zero =>
      intro j
      cases j with
      | zero => exact ⟨0, Or.inl (by simp [Wv_00])⟩
      | succ j => exact ⟨go + gapRun ge j, Or.inr (Or.inl (by rw [Wv_0j]))⟩
    | succ i ih =>
      intro j
      cases j with
      | zero => exact ⟨go + gapRun ge i, Or.inr (Or.inr (by rw [Wv_i0]))⟩
      | succ j =>
        obtain ⟨v, hv⟩ := ih j
        rw [Wv_succ]
        generalize Wv M go ge x y i j = d at hv
        obtain ⟨dm, dg1, dg2⟩ := d
        simp only at hv ⊢
        rcases hv with h | h | h <;> subst h
        · cases dg1 <;> cases dg2 <;> exact ⟨_, Or.inl rfl⟩
        · cases dm <;> cases dg2 <;> exact ⟨_, Or.inl rfl⟩
        · cases dm <;> cases dg1 <;> exact ⟨_, Or.inl rfl⟩
  obtain ⟨v, hv⟩ := key i j
  rcases hv with h | h | h <;> simp [h]

theorem stepA_inv {Vmax : Int} (h : NoBindA M go ge thr io x y Vmax) (gf k : Nat) (st : RegStateA)
    (hinv : InvA M go ge thr io x y (thr + io + Vmax) k st) (hmm : st.mMax = MBk M go ge thr io x y k)
    (hk : k + 1 ≤ x.length + y.length) :
    InvA M go ge thr io x y (thr + io + Vmax) (k + 1) (regStepAff true M go ge thr x y none gf st (k + 1)) ∧
      (regStepAff true M go ge thr x y none gf st (k + 1)).mMax = MBk M go ge thr io x y (k + 1) := by
  have eMin : max (min st.min0 (st.min1 + 1)) (k + 1 - y.length) = loK y (k + 1) := by
    rw [hinv.m0, hinv.m1]; unfold loK
    by_cases hk0 : k = 0
    · subst hk0; simp only [if_true]; omega
    · simp only [hk0, if_false]; omega
  have eMax : min (max (st.max0 + 1) (st.max1 + 1)) x.length = hiK x (k + 1) := by
    rw [hinv.x0, hinv.x1]; unfold hiK
    by_cases hk0 : k = 0
    · subst hk0; simp only [if_true]; omega
    · simp only [hk0, if_false]; omega
  have hle : loK y (k + 1) ≤ hiK x (k + 1) := by unfold loK hiK; omega
  have hngt : ¬ (loK y (k + 1) > hiK x (k + 1)) := by omega
  obtain ⟨r, c, hg⟩ := growShape_none st.rows st.cols (hiK x (k + 1)) (k + 1 - loK y (k + 1)) gf
  have hcell : ∀ i, loK y (k + 1) ≤ i → i ≤ hiK x (k + 1) →
      repr (thr + io) (cellVals M go ge x y (k + 1) st.d1 st.d2 i).1 ((fun i => Wv M go ge x y i (k + 1 - i)) i).m ∧
      repr (thr + io) (cellVals M go ge x y (k + 1) st.d1 st.d2 i).2.1 ((fun i => Wv M go ge x y i (k + 1 - i)) i).g1 ∧
      repr (thr + io) (cellVals M go ge x y (k + 1) st.d1 st.d2 i).2.2 ((fun i => Wv M go ge x y i (k + 1 - i)) i).g2 ∧
      (∀ w, ((fun i => Wv M go ge x y i (k + 1 - i)) i).m = some w ∨ ((fun i => Wv M go ge x y i (k + 1 - i)) i).g1 = some w ∨
        ((fun i => Wv M go ge x y i (k + 1 - i)) i).g2 = some w →
        thr + io + w ≤ thr + io + Vmax ∧ thr + io + Vmax - thr ≤ thr + io + w) ∧
      (((fun i => Wv M go ge x y i (k + 1 - i)) i).m.isSome || ((fun i => Wv M go ge x y i (k + 1 - i)) i).g1.isSome ||
        ((fun i => Wv M go ge x y i (k + 1 - i)) i).g2.isSome) = true := by
    intro i h1 h2
    obtain ⟨c1, c2, c3⟩ := cell_correctA M go ge thr io x y h _ k st hinv i h1 h2
    refine ⟨c1, c2, c3, ?_, Wv_some M go ge x y i (k + 1 - i)⟩
    intro w hw
    unfold loK at h1; unfold hiK at h2
    have := h.hst i (k + 1 - i) (by omega) (by omega) w hw
    omega
  obtain ⟨cur', best', he, hb1', hb2', hl⟩ := regCells_allA M go ge thr x y (k + 1) st.d1 st.d2 (thr + io)
    (fun i => Wv M go ge x y i (k + 1 - i)) (thr + io + Vmax) (hiK x (k + 1)) (by unfold hiK; omega)
    _ (loK y (k + 1)) rfl hcell [] (k + 1) 0 st.maxScore st.mMax hinv.b1 hinv.b2 (Or.inl rfl)
  simp only [hle, if_true] at he
  have hst : regStepAff true M go ge thr x y none gf st (k + 1) =
      { d1 := cur', d2 := st.d1, min0 := loK y (k + 1), max0 := hiK x (k + 1), min1 := st.min0, max1 := st.max0,
        maxScore := best',
        mMax := mFold (thr + io) (fun i => Wv M go ge x y i (k + 1 - i)) st.mMax (rangeIncl (loK y (k + 1)) (hiK x (k + 1))),
        rows := r, cols := c, done := false, err := false } := by
    unfold regStepAff
    simp only [hinv.nd, hinv.ne, Bool.or_self, Bool.false_eq_true, if_false, eMin, eMax, hngt, hg, he]
  rw [hst]
  refine ⟨⟨rfl, rfl, rfl, rfl, ?_, ?_, ?_, ?_, hb1', hb2'⟩, ?_⟩
  · simp only [Nat.add_eq_zero_iff, Nat.succ_ne_zero, and_false, if_false, Nat.add_sub_cancel]; exact hinv.m0
  · simp only [Nat.add_eq_zero_iff, Nat.succ_ne_zero, and_false, if_false, Nat.add_sub_cancel]; exact hinv.x0
  · intro i h1 h2
    have := hl i
    simp only [h1, h2, and_self, if_true] at this
    exact this
  · intro _ i h1 h2
    simp only [Nat.add_sub_cancel] at h1 h2 ⊢
    exact hinv.d1 i h1 h2
  · simp only [MBk, hmm]

theorem foldA_inv {Vmax : Int} (h : NoBindA M go ge thr io x y Vmax) (gf : Nat) (st0 : RegStateA)
    (h0 : InvA M go ge thr io x y (thr + io + Vmax) 0 st0) (hm0 : st0.mMax = MBk M go ge thr io x y 0) :
    ∀ c, c ≤ x.length + y.length →
    InvA M go ge thr io x y (thr + io + Vmax) c ((rangeIncl 1 c).foldl (regStepAff true M go ge thr x y none gf) st0) ∧
      ((rangeIncl 1 c).foldl (regStepAff true M go ge thr x y none gf) st0).mMax = MBk M go ge thr io x y c := by
  intro c
  induction c with
  | zero => intro _; rw [rangeIncl_nil 1 0 (by omega)]; exact ⟨h0, hm0⟩
  | succ c ih =>
    intro hc
    rw [rangeIncl_snoc 1 c (by omega), List.foldl_append]
    obtain ⟨i1, i2⟩ := ih (by omega)
    exact stepA_inv M go ge thr io x y h gf c _ i1 i2 hc

theorem invA_init {Vmax : Int} (h : NoBindA M go ge thr io x y Vmax) (is : Nat) :
    InvA M go ge thr io x y (thr + io + Vmax) 0 ⟨[(0, ⟨thr + (io : Int), 0, 0⟩)], [], 0, 0, 0, 0, thr + (io : Int),
      thr + (io : Int), min (x.length + 1) is, min (y.length + 1) is, false, false⟩ := by
  have := h.vmax
  have := h.hio
  refine ⟨rfl, rfl, ?_, ?_, rfl, rfl, ?_, ?_, ?_, ?_⟩
  · simp [loK]
  · simp [hiK]
  · intro i h1 h2
    have : i = 0 := by unfold hiK at h2; omega
    subst this
    simp [lookupA, List.lookup, encCell, Wv_00, enc]
  · intro h; omega
  · simp only; omega
  · simp only; omega

/-- `_align_region` (affine, `_max` path, no table-size limit) with a threshold that cannot bind -/
theorem regionAff_nobind {Vmax : Int} (h : NoBindA M go ge thr io x y Vmax) (is gf : Nat) :
    regionAff true M go ge thr x y none is io gf = .ok (MBk M go ge thr io x y (x.length + y.length) - (thr + io)) := by
  obtain ⟨hinv, hm⟩ := foldA_inv M go ge thr io x y h gf _ (invA_init M go ge thr io x y h is) rfl
    (x.length + y.length) (Nat.le_refl _)
  unfold regionAff
  simp only [hinv.ne, hm, Bool.false_eq_true, if_false]

theorem mFold_ge_init (init : Int) (t : Nat → AffCell) (l : List Nat) : ∀ b, b ≤ mFold init t b l := by
  induction l with
  | nil => intro b; exact Int.le_refl _
  | cons i r ih =>
    intro b
    simp only [mFold, List.foldl_cons]
    have := ih (updo init b (t i).m)
    simp only [mFold] at this
    have h2 : b ≤ updo init b (t i).m := by
      cases (t i).m with
      | none => simp [updo]
      | some w => simp only [updo]; split <;> omega
    omega

theorem mFold_ge_mem (init : Int) (t : Nat → AffCell) (l : List Nat) : ∀ b i w, i ∈ l → (t i).m = some w →
    init + w ≤ mFold init t b l := by
  induction l with
  | nil => intro b i w h; cases h
  | cons z r ih =>
    intro b i w hm hw
    simp only [mFold, List.foldl_cons]
    rcases List.mem_cons.mp hm with rfl | hm
    · have := mFold_ge_init init t r (updo init b (t i).m)
      simp only [mFold] at this
      have h2 : init + w ≤ updo init b (t i).m := by
        rw [hw]; simp only [updo]; split <;> omega
      omega
    · exact ih _ i w hm hw

theorem mFold_attained (init : Int) (t : Nat → AffCell) (l : List Nat) : ∀ b,
    mFold init t b l = b ∨ ∃ i ∈ l, ∃ w, (t i).m = some w ∧ mFold init t b l = init + w := by
  induction l with
  | nil => intro b; left; rfl
  | cons z r ih =>
    intro b
    simp only [mFold, List.foldl_cons]
    rcases ih (updo init b (t z).m) with h | ⟨i, hi, w, hw, h⟩
    · simp only [mFold] at h
      rw [h]
      cases hz : (t z).m with
      | none => left; simp [updo]
      | some w =>
        simp only [updo]
        split
        · right; exact ⟨z, List.mem_cons_self, w, hz, rfl⟩
        · left; rfl
    · right; exact ⟨i, List.mem_cons_of_mem _ hi, w, hw, h⟩

theorem MBk_mono (k : Nat) : ∀ k', k ≤ k' → MBk M go ge thr io x y k ≤ MBk M go ge thr io x y k' := by
  intro k' hk
  induction k' with
  | zero => have : k = 0 := by omega
            subst this; exact Int.le_refl _
  | succ c ih =>
    by_cases hc : k ≤ c
    · have := ih hc
      have h2 := mFold_ge_init (thr + io) (fun i => Wv M go ge x y i (c + 1 - i))
        (rangeIncl (loK y (c + 1)) (hiK x (c + 1))) (MBk M go ge thr io x y c)
      simp only [MBk]; omega
    · have : k = c + 1 := by omega
      subst this; exact Int.le_refl _

/-- every match-state value of the anchored table is at most the result -/
theorem MBk_ge_cell (i j : Nat) (hi : i ≤ x.length) (hj : j ≤ y.length) (w : Int)
    (hw : (Wv M go ge x y i j).m = some w) :
    thr + io + w ≤ MBk M go ge thr io x y (x.length + y.length) := by
  by_cases h0 : i + j = 0
  · have hi0 : i = 0 := by omega
    have hj0 : j = 0 := by omega
    subst hi0; subst hj0
    have := MBk_mono M go ge thr io x y 0 (x.length + y.length) (Nat.zero_le _)
    simp only [MBk] at this
    rw [Wv_00] at hw
    simp only [Option.some.injEq] at hw
    omega
  · obtain ⟨k, hk⟩ : ∃ k, i + j = k + 1 := ⟨i + j - 1, by omega⟩
    have hm : i ∈ rangeIncl (loK y (k + 1)) (hiK x (k + 1)) := by
      rw [mem_rangeIncl]; unfold loK hiK; omega
    have e : k + 1 - i = j := by omega
    have h1 := mFold_ge_mem (thr + io) (fun i => Wv M go ge x y i (k + 1 - i)) _ (MBk M go ge thr io x y k) i w hm
      (by simp only [e]; exact hw)
    have h2 := MBk_mono M go ge thr io x y (k + 1) (x.length + y.length) (by omega)
    simp only [MBk] at h2
    omega

/-- the result is a match-state value of some cell -/
theorem MBk_attained : ∀ k, k ≤ x.length + y.length →
    ∃ i j w, i ≤ x.length ∧ j ≤ y.length ∧ (Wv M go ge x y i j).m = some w ∧
      MBk M go ge thr io x y k = thr + io + w := by
  intro k
  induction k with
  | zero => intro _; exact ⟨0, 0, 0, Nat.zero_le _, Nat.zero_le _, by simp [Wv_00], by simp [MBk]⟩
  | succ k ih =>
    intro hk
    simp only [MBk]
    rcases mFold_attained (thr + io) (fun i => Wv M go ge x y i (k + 1 - i)) (rangeIncl (loK y (k + 1)) (hiK x (k + 1)))
      (MBk M go ge thr io x y k) with h | ⟨i, hi, w, hw, h⟩
    · rw [h]; exact ih (by omega)
    · rw [mem_rangeIncl] at hi
      unfold loK hiK at hi
      exact ⟨i, k + 1 - i, w, by omega, by omega, hw, h⟩

end

end BiotiteModel.C09

import BiotiteModel.Proofs.C11
/-! Transposition glue for C11: rows (one per sequence) ↔ columns (one per alignment position). Core Lean only. -/
namespace BiotiteModel.C11
open BiotiteModel

theorem filterMap_congr' {α β : Type} {f g : α → Option β} : ∀ {l : List α}, (∀ a ∈ l, f a = g a) →
    l.filterMap f = l.filterMap g := by
  intro l
  induction l with
  | nil => intro _; rfl
  | cons a l ih =>
    intro h
    rw [List.filterMap_cons, List.filterMap_cons, h a (List.mem_cons_self ..),
      ih fun b hb => h b (List.mem_cons_of_mem _ hb)]

theorem transpose_length {α : Type} : ∀ (w : Nat) (rows : List (List α)), (transpose w rows).length = w := by
  intro w
  induction w with
  | zero => intro rows; rfl
  | succ w ih => intro rows; simp [transpose, ih]

/-- column `i` of `transpose w rows` consists of the `i`-th entries of the rows -/
theorem transpose_get {α : Type} : ∀ (w : Nat) (rows : List (List α)) (i : Nat), i < w →
    (transpose w rows)[i]? = some (rows.filterMap (·[i]?)) := by
  intro w
  induction w with
  | zero => intro rows i hi; omega
  | succ w ih =>
    intro rows i hi
    cases i with
    | zero =>
      simp only [transpose, List.getElem?_cons_zero]
      congr 1
      apply filterMap_congr'
      intro r _
      cases r <;> simp
    | succ i =>
      simp only [transpose, List.getElem?_cons_succ]
      rw [ih _ i (by omega), List.filterMap_map]
      congr 1
      apply filterMap_congr'
      intro r _
      cases r <;> simp

/-- rows given column-wise: `rows = L.map fun x => t.map (F x)`; transposing gives the columns `x ↦ F x c` -/
theorem transpose_rows_list {α β γ : Type} (L : List γ) (t : List α) (F : γ → α → β) :
    transpose t.length (L.map fun x => t.map (F x)) = t.map fun c => L.map fun x => F x c := by
  apply List.ext_getElem?
  intro i
  by_cases hi : i < t.length
  · rw [transpose_get _ _ i hi, List.filterMap_map]
    simp only [List.getElem?_map, List.getElem?_eq_getElem hi, Option.map_some]
    congr 1
    rw [← List.filterMap_eq_map]
    apply filterMap_congr'
    intro k _
    simp [hi]
  · have h1 : (transpose t.length (L.map fun x => t.map (F x))).length ≤ i := by
      rw [transpose_length]; omega
    rw [List.getElem?_eq_none h1, List.getElem?_eq_none (by simpa using Nat.le_of_not_lt hi)]

theorem transpose_rows {α β : Type} (n : Nat) (t : List α) (f : Nat → α → β) :
    transpose t.length ((List.range n).map fun k => t.map (f k)) = t.map fun c => (List.range n).map fun k => f k c :=
  transpose_rows_list (List.range n) t f

theorem range_map_get {α : Type} (c : List α) (n : Nat) (h : c.length = n) (g : Option α → α) (hg : ∀ x, g (some x) = x) :
    (List.range n).map (fun k => g c[k]?) = c := by
  subst h
  apply List.ext_getElem?
  intro i
  by_cases hi : i < c.length
  · simp [hi, hg]
  · rw [List.getElem?_eq_none (by simpa using Nat.le_of_not_lt hi), List.getElem?_eq_none (Nat.le_of_not_lt hi)]

/-! ### gapped strings of the whole alignment and back -/

/-- subtract each sequence's start offset from its entries (`trace_from_strings` always numbers from 0) -/
def shiftCol (s : Nat → Nat) (c : Col) : Col := c.mapIdx fun k x => x.map (· - s k)
def shiftTrace (s : Nat → Nat) (t : Trace) : Trace := t.map (shiftCol s)

theorem shiftTrace_zero (t : Trace) : shiftTrace (fun _ => 0) t = t := by
  unfold shiftTrace shiftCol
  have : ∀ c : Col, (c.mapIdx fun _ x => x.map (· - 0)) = c := by
    intro c
    apply List.ext_getElem?
    intro i
    rw [List.getElem?_mapIdx]
    cases c[i]? with
    | none => rfl
    | some x => cases x <;> simp
  conv => rhs; rw [← List.map_id t]
  apply List.map_congr_left
  intro c _
  exact this c

theorem numberRow_shift (d : Nat) : ∀ (cs : List Char) (a : Nat),
    numberRow a cs = (numberRow (a + d) cs).map (Option.map (· - d)) := by
  intro cs
  induction cs with
  | nil => intro a; rfl
  | cons c cs ih =>
    intro a
    unfold numberRow
    split
    · simp [← ih a]
    · have := ih (a + 1)
      rw [Nat.add_right_comm] at this
      simp [← this]

theorem gappedStr_length {seq : List Char} {t : Trace} {k : Nat} {cs : List Char} (h : gappedStr seq t k = .ok cs) :
    cs.length = t.length := (mapE_ok_forall₂ _ _ _ h).length_eq.symm

theorem gappedStr_total (seq : List Char) (t : Trace) (k : Nat) (hk : ∀ c ∈ t, k < c.length)
    (hin : ∀ j ∈ covered t k, j < seq.length) : ∃ cs, gappedStr seq t k = .ok cs := by
  apply mapE_ok_of_forall
  intro c hc
  have hkc : k < c.length := hk c hc
  obtain ⟨x, h1⟩ : ∃ x, c[k]? = some x := ⟨c[k], List.getElem?_eq_getElem hkc⟩
  unfold gapChar
  rw [h1]
  cases x with
  | none => exact ⟨_, rfl⟩
  | some j =>
    have hj : j < seq.length := hin j (by
      unfold covered; rw [List.mem_filterMap]; exact ⟨c, hc, by simp [h1]⟩)
    exact ⟨seq[j], by simp [List.getElem?_eq_getElem hj]⟩

theorem gappedFrom_spec (t : Trace) : ∀ (seqs : List (List Char)) (k : Nat),
    (∀ i (h : i < seqs.length), ∃ cs, gappedStr seqs[i] t (k + i) = .ok cs) →
    ∃ strs, gappedFrom t k seqs = .ok strs ∧ strs.length = seqs.length ∧
      ∀ i (h : i < seqs.length) (h' : i < strs.length), gappedStr seqs[i] t (k + i) = .ok strs[i] := by
  intro seqs
  induction seqs with
  | nil => intro k _; exact ⟨[], rfl, rfl, fun i h => absurd h (Nat.not_lt_zero _)⟩
  | cons s ss ih =>
    intro k h
    obtain ⟨a, ha⟩ := h 0 (by simp)
    obtain ⟨r, hr, hl, hi⟩ := ih (k + 1) (fun i hi => by
      have := h (i + 1) (by simpa using hi)
      simpa [Nat.add_assoc, Nat.add_comm 1 i] using this)
    have ha' : gappedStr s t k = .ok a := by simpa using ha
    refine ⟨a :: r, by simp [gappedFrom, ha', hr, bind, Except.bind, pure, Except.pure], by simp [hl], ?_⟩
    intro i h1 h2
    cases i with
    | zero => simpa using ha
    | succ i =>
      have := hi i (by simpa using h1) (by simpa using h2)
      simpa [Nat.add_assoc, Nat.add_comm 1 i] using this

theorem join_shiftCol (s : Nat → Nat) (c : Col) (k : Nat) :
    ((shiftCol s c)[k]?).join = ((c[k]?).join).map (· - s k) := by
  unfold shiftCol
  rw [List.getElem?_mapIdx]
  cases c[k]? with
  | none => rfl
  | some x => cases x <;> rfl

/-- `C11_strings_roundtrip` for the whole alignment (general form with start offsets) -/
theorem strings_roundtrip_cols (seqs : List (List Char)) (t : Trace) (s m : Nat → Nat)
    (hn : 2 ≤ seqs.length) (hrect : ∀ c ∈ t, c.length = seqs.length)
    (hsym : ∀ seq ∈ seqs, ∀ c ∈ seq, c ≠ '-')
    (hcov : ∀ k, k < seqs.length → covered t k = List.range' (s k) (m k))
    (hin : ∀ k (h : k < seqs.length), ∀ j ∈ covered t k, j < seqs[k].length) :
    ∃ strs, gappedStrings seqs t = .ok strs ∧ strs.length = seqs.length ∧
      (∀ k (h : k < seqs.length) (h' : k < strs.length), gappedStr seqs[k] t k = .ok strs[k]) ∧
      traceFromStrings strs = .ok (shiftTrace s t) := by
  obtain ⟨strs, hs, hl, hrow⟩ := gappedFrom_spec t seqs 0 (fun i hi => by
    rw [Nat.zero_add]
    exact gappedStr_total seqs[i] t i (fun c hc => by rw [hrect c hc]; exact hi) (hin i hi))
  simp only [Nat.zero_add] at hrow
  refine ⟨strs, hs, hl, hrow, ?_⟩
  have hlen : ∀ x ∈ strs, x.length = t.length := by
    intro x hx
    obtain ⟨i, hi, rfl⟩ := List.getElem_of_mem hx
    exact gappedStr_length (hrow i (by omega) hi)
  -- the rows `trace_from_strings` numbers
  have hrows : (strs.map fun x => numberRow 0 (x.take t.length)) =
      (List.range seqs.length).map fun k => (shiftTrace s t).map fun c => (c[k]?).join := by
    apply List.ext_getElem?
    intro k
    by_cases hk : k < seqs.length
    · have hk' : k < strs.length := by omega
      have hg := hrow k hk hk'
      have h1 := (gappedStr_number seqs[k] (hsym _ (List.getElem_mem hk)) k t strs[k] (s k) (m k) hg (hcov k hk)).1
      have h2 := numberRow_shift (s k) strs[k] 0
      rw [Nat.zero_add, h1] at h2
      simp only [List.getElem?_map, List.getElem?_eq_getElem hk', Option.map_some, List.getElem?_range hk]
      rw [List.take_of_length_le (by rw [hlen _ (List.getElem_mem hk')]; exact Nat.le_refl _), h2]
      simp only [shiftTrace, List.map_map]
      congr 1
      apply List.map_congr_left
      intro c _
      simp [join_shiftCol]
    · rw [List.getElem?_eq_none (by simpa [hl] using Nat.le_of_not_lt hk),
        List.getElem?_eq_none (by simpa using Nat.le_of_not_lt hk)]
  have hT : (shiftTrace s t).length = t.length := by simp [shiftTrace]
  have hfinal : transpose t.length (strs.map fun x => numberRow 0 (x.take t.length)) = shiftTrace s t := by
    rw [hrows, ← hT, transpose_rows]
    conv => rhs; rw [← List.map_id (shiftTrace s t)]
    apply List.map_congr_left
    intro c hc
    simp only [shiftTrace, List.mem_map] at hc
    obtain ⟨c0, hc0, rfl⟩ := hc
    have : (shiftCol s c0).length = seqs.length := by simp [shiftCol, hrect c0 hc0]
    simpa using range_map_get (shiftCol s c0) seqs.length this Option.join (fun x => rfl)
  match strs, hl, hlen, hfinal with
  | [], hl, _, _ => simp at hl; omega
  | [_], hl, _, _ => simp at hl; omega
  | s0 :: s1 :: rest, _, hlen, hfinal =>
    have h0 : s0.length = t.length := hlen s0 (by simp)
    unfold traceFromStrings
    simp only [h0]
    have hany : (s0 :: s1 :: rest).any (fun x => decide (x.length < t.length)) = false := by
      rw [List.any_eq_false]
      intro x hx
      simp [hlen x hx]
    rw [if_neg (by simp [hany])]
    rw [hfinal]

theorem gappedStr_chars {seq : List Char} {t : Trace} {k : Nat} {cs : List Char} (h : gappedStr seq t k = .ok cs) :
    ∀ ch ∈ cs, ch = '-' ∨ ch ∈ seq := by
  intro ch hch
  obtain ⟨c, _, hc⟩ := (mapE_ok_forall₂ _ _ _ h).mem_right ch hch
  unfold gapChar at hc
  split at hc
  · cases hc
  · simp at hc; exact Or.inl hc.symm
  · split at hc
    · next sy hsy => simp at hc; subst hc; exact Or.inr (List.mem_of_getElem? hsy)
    · cases hc

/-- `C11_fasta_roundtrip` for the whole alignment -/
theorem fasta_roundtrip_cols (extra : List Char) (seqs : List (List Char)) (t : Trace)
    (hn : 2 ≤ seqs.length) (hrect : ∀ c ∈ t, c.length = seqs.length)
    (hsym : ∀ seq ∈ seqs, ∀ c ∈ seq, c ≠ '-' ∧ c ∉ extra)
    (hcov : ∀ k (h : k < seqs.length), covered t k = List.range seqs[k].length) :
    ∃ strs, gappedStrings seqs t = .ok strs ∧ fastaGet extra strs = .ok (seqs, t) := by
  obtain ⟨strs, hs, hl, hrow, htr⟩ := strings_roundtrip_cols seqs t (fun _ => 0)
    (fun k => if h : k < seqs.length then seqs[k].length else 0) hn hrect
    (fun seq hseq c hc => (hsym seq hseq c hc).1)
    (fun k hk => by simp only [hk, dite_true]; rw [hcov k hk, List.range_eq_range'])
    (fun k hk j hj => by rw [hcov k hk] at hj; simpa using hj)
  refine ⟨strs, hs, ?_⟩
  have hsame : (strs.map fun x => x.map fun c => if c ∈ extra then '-' else c) = strs := by
    conv => rhs; rw [← List.map_id strs]
    apply List.map_congr_left
    intro x hx
    obtain ⟨k, hk, rfl⟩ := List.getElem_of_mem hx
    have hk' : k < seqs.length := by omega
    conv => rhs; rw [id, ← List.map_id strs[k]]
    apply List.map_congr_left
    intro ch hch
    rcases gappedStr_chars (hrow k hk' hk) ch hch with rfl | hmem
    · simp
    · have := (hsym _ (List.getElem_mem hk') ch hmem).2
      simp [this]
  have hstrip : strs.map stripChars = seqs := by
    apply List.ext_getElem?
    intro k
    by_cases hk : k < seqs.length
    · have hk' : k < strs.length := by omega
      have h2 := (gappedStr_number seqs[k] (fun c hc => (hsym _ (List.getElem_mem hk) c hc).1) k t strs[k] 0
        seqs[k].length (hrow k hk hk') (by rw [hcov k hk, List.range_eq_range'])).2
      rw [hcov k hk, range_filterMap_get] at h2
      simp [hk', hk, h2]
    · rw [List.getElem?_eq_none (by simpa [hl] using Nat.le_of_not_lt hk), List.getElem?_eq_none (Nat.le_of_not_lt hk)]
  unfold fastaGet
  simp only [hsame, htr, shiftTrace_zero, hstrip, Except.map]

/-- gaps written with additional gap characters: a text `strs'` that differs from `strs` only by writing some `-`
as a character of `extra` is read exactly like `strs` (which is read like plain text), for any set `extra` -/
theorem fastaGet_gapchars (extra : List Char) (strs strs' : List (List Char))
    (hclean : ∀ s ∈ strs, ∀ c ∈ s, c ∉ extra)
    (hsub : All₂ (All₂ fun c c' => c' = c ∨ (c = '-' ∧ c' ∈ extra)) strs strs') :
    fastaGet extra strs' = fastaGet [] strs := by
  have hrow : ∀ (x x' : List Char), (∀ c ∈ x, c ∉ extra) →
      All₂ (fun c c' => c' = c ∨ (c = '-' ∧ c' ∈ extra)) x x' → (x'.map fun c => if c ∈ extra then '-' else c) = x := by
    intro x x' hx h
    induction h with
    | nil => rfl
    | @cons c c' l l' hcc _ ih =>
      rw [List.map_cons, ih fun d hd => hx d (List.mem_cons_of_mem _ hd)]
      congr 1
      rcases hcc with rfl | ⟨rfl, hm⟩
      · simp [hx c' (List.mem_cons_self ..)]
      · simp [hm]
  have h1 : (strs'.map fun x => x.map fun c => if c ∈ extra then '-' else c) = strs := by
    induction hsub with
    | nil => rfl
    | @cons x x' l l' hxx _ ih =>
      rw [List.map_cons, hrow x x' (hclean x (List.mem_cons_self ..)) hxx,
        ih fun y hy => hclean y (List.mem_cons_of_mem _ hy)]
  have h2 : (strs.map fun x => x.map fun c => if c ∈ ([] : List Char) then '-' else c) = strs := by
    conv => rhs; rw [← List.map_id strs]
    apply List.map_congr_left
    intro x _
    conv => rhs; rw [id, ← List.map_id x]
    apply List.map_congr_left
    intro c _
    simp
  unfold fastaGet
  simp only [h1, h2]

/-! ### code matrix: rows ↔ columns -/

/-- the code of sequence `k` (symbols `s`) in one column, from the column alone -/
def codeOf {α : Type} (s : List α) (k : Nat) (c : Col) : Option α := ((c[k]?).join).bind (s[·]?)

/-- the codes of one column -/
def colCodes {α : Type} (seqs : List (List α)) (c : Col) : List (Option α) :=
  (seqs.zipIdx).map fun p => codeOf p.1 p.2 c

theorem codeAt_codeOf {α : Type} {s : List α} {k : Nat} {c : Col} {b : Option α} (h : codeAt s k c = .ok b) :
    b = codeOf s k c ∧ (b.isNone ↔ ((c[k]?).join).isNone) := by
  unfold codeAt at h
  unfold codeOf
  split at h
  · cases h
  · next hk => simp at h; subst h; simp [hk]
  · next j hk =>
    split at h
    · next sy hsy => simp at h; subst h; simp [hk, hsy]
    · cases h

theorem all₂_eq_map {α β : Type} {f : α → β} {l : List α} {r : List β} (h : All₂ (fun a b => b = f a) l r) : r = l.map f := by
  induction h with
  | nil => rfl
  | cons hab _ ih => simp [hab, ih]

theorem codesFrom_spec {α : Type} (t : Trace) : ∀ (seqs : List (List α)) (k : Nat) (codes : List (List (Option α))),
    codesFrom t k seqs = .ok codes → codes = (seqs.zipIdx k).map fun p => t.map (codeOf p.1 p.2) := by
  intro seqs
  induction seqs with
  | nil => intro k codes h; simp [codesFrom] at h; subst h; rfl
  | cons s ss ih =>
    intro k codes h
    simp only [codesFrom, bind, Except.bind, pure, Except.pure] at h
    split at h
    · cases h
    · next a ha =>
      split at h
      · cases h
      · next r hr =>
        simp at h; subst h
        have h1 : a = t.map (codeOf s k) :=
          all₂_eq_map ((mapE_ok_forall₂ _ _ _ ha).imp_mem fun c b _ hcb => (codeAt_codeOf hcb).1)
        simp [List.zipIdx_cons, h1, ih (k + 1) r hr]

/-- `get_codes` transposed = the codes of each column -/
theorem getCodes_cols {α : Type} (seqs : List (List α)) (t : Trace) (codes : List (List (Option α)))
    (h : codesFrom t 0 seqs = .ok codes) : transpose t.length codes = t.map (colCodes seqs) := by
  rw [codesFrom_spec t seqs 0 codes h]
  exact transpose_rows_list (seqs.zipIdx 0) t fun p c => codeOf p.1 p.2 c

/-! ### symbols: every row through its own alphabet -/

/-- a decoded entry: gap stays gap, a code becomes the symbol of *this row's* alphabet -/
def DecodesTo (alph : List Char) (c : Option Nat) (s : Option Char) : Prop :=
  (c = none ∧ s = none) ∨ ∃ x ch, c = some x ∧ alph[x]? = some ch ∧ s = some ch

theorem decodeEntry_spec {alph : List Char} {c : Option Nat} {s : Option Char} (h : decodeEntry alph c = .ok s) :
    DecodesTo alph c s := by
  cases c with
  | none => simp [decodeEntry] at h; exact Or.inl ⟨rfl, h.symm⟩
  | some x =>
    simp only [decodeEntry] at h
    split at h
    · next ch hch => simp at h; exact Or.inr ⟨x, ch, rfl, hch, h.symm⟩
    · cases h

theorem decodeRows_spec : ∀ (alphs : List (List Char)) (codes : List (List (Option Nat))) (sy : List (List (Option Char))),
    decodeRows alphs codes = .ok sy →
    All₂ (fun (p : List Char × List (Option Nat)) sr => All₂ (DecodesTo p.1) p.2 sr) (alphs.zip codes) sy := by
  intro alphs codes
  induction codes generalizing alphs with
  | nil => intro sy h; simp [decodeRows] at h; subst h; simp; exact .nil
  | cons r rs ih =>
    intro sy h
    cases alphs with
    | nil => simp [decodeRows] at h
    | cons a as =>
      simp only [decodeRows] at h
      split at h
      · cases h
      · next x hx =>
        split at h
        · cases h
        · next xs hxs =>
          simp at h; subst h
          simp only [List.zip_cons_cons]
          exact .cons ((mapE_ok_forall₂ _ _ _ hx).imp_mem fun c s _ hcs => decodeEntry_spec hcs) (ih as xs hxs)

end BiotiteModel.C11

import BiotiteModel.Proofs.C06
/-!
# C06 — glue lemmas for whole categories (lines, key lines, chunk/transpose)
-/
namespace BiotiteModel.C06

/-! ## lines -/

theorem splitLines_cons_nobreak (c : Char) (cs : Str) (h : isBreak c = false) :
    splitLines (c :: cs) = (match splitLines cs with
      | [] => [[c]]
      | l :: ls => (c :: l) :: ls) := by
  have hr : c ≠ '\r' := by intro e; subst e; simp [isBreak] at h
  conv => lhs; unfold splitLines
  split
  · rename_i heq; cases heq
  · rename_i heq
    simp only [List.cons.injEq] at heq
    exact absurd heq.1 hr
  · rename_i c' cs' _ heq
    simp only [List.cons.injEq] at heq
    obtain ⟨rfl, rfl⟩ := heq
    simp only [h, Bool.false_eq_true, if_false]
    rfl

theorem splitLines_nl (rest : Str) : splitLines ('\n' :: rest) = [] :: splitLines rest := by
  conv => lhs; unfold splitLines
  simp [isBreak]

theorem splitLines_line (l rest : Str) (h : NoBreak l) :
    splitLines (l ++ '\n' :: rest) = l :: splitLines rest := by
  induction l with
  | nil => simpa using splitLines_nl rest
  | cons c l ih =>
    have hc := h c (by simp)
    have := ih (fun x hx => h x (by simp [hx]))
    rw [List.cons_append, splitLines_cons_nobreak c _ hc, this]

theorem unlines_cons (l : Str) (ls : List Str) : unlines (l :: ls) = l ++ '\n' :: unlines ls := by
  simp [unlines]

theorem splitLines_unlines (ls : List Str) (h : ∀ l ∈ ls, NoBreak l) : splitLines (unlines ls) = ls := by
  induction ls with
  | nil => rfl
  | cons l ls ih =>
    rw [unlines_cons, splitLines_line l _ (h l (by simp)), ih (fun x hx => h x (by simp [hx]))]

/-- The first three steps of `CIFCategory.deserialize` on lines the writer produced. -/
theorem read_lines (W : List Str) (h1 : ∀ w ∈ W, NoBreak w) (h2 : ∀ w ∈ W, isEmptyLine w = false) :
    ((splitLines (unlines W)).filter (fun l => !isEmptyLine l)).map strip = W.map strip := by
  rw [splitLines_unlines W h1]
  congr 1
  apply List.filter_eq_self.mpr
  intro w hw
  simp [h2 w hw]

theorem toSingle_id (L : List Str) (h : ∀ l ∈ L, l.head? ≠ some ';') : toSingle none L = L := by
  induction L with
  | nil => rfl
  | cons l ls ih =>
    have hl : (l.head? == some ';') = false := by
      have := h l (by simp)
      simpa using this
    simp [toSingle, hl, ih (fun x hx => h x (by simp [hx]))]

/-! ## edges, strip -/

theorem edges_of_nows (t : Str) (hne : t ≠ []) (h : ∀ c ∈ t, isWs c = false) : Edges t := by
  cases t with
  | nil => exact absurd rfl hne
  | cons c w =>
    refine ⟨⟨c, w, rfl, h c (by simp)⟩, ?_⟩
    exact ⟨(c :: w).dropLast, (c :: w).getLast (by simp), (List.dropLast_concat_getLast _).symm,
      h _ (List.getLast_mem _)⟩

theorem strip_edges_spaces (t : Str) (h : Edges t) (k : Nat) : strip (t ++ List.replicate k ' ') = t := by
  have := strip_padded_spaces [(t, 0)] (by simp) (by simpa using h) k
  simpa [padded] using this

/-! ## names and key lines -/

/-- Block/category/column names: no whitespace, no `.`, no quote characters. -/
def NameOk (n : Str) : Prop := ∀ c ∈ n, isWs c = false ∧ c ≠ '.' ∧ c ≠ q1 ∧ c ≠ q2

theorem nameOk_label (n : Str) (h : NameOk n) : (has '.' n || n.any isWs) = false := by
  apply Bool.eq_false_iff.mpr
  intro hh
  simp only [Bool.or_eq_true, has_iff, List.any_eq_true] at hh
  rcases hh with hd | ⟨c, hc, hw⟩
  · exact (h _ hd).2.1 rfl
  · rw [(h c hc).1] at hw; exact absurd hw (by simp)

/-- the writer accepts the names of a category whose names are all `NameOk` -/
theorem labels_ok (name : Str) (keys : List Str) (hn : NameOk name) (hk : ∀ k ∈ keys, NameOk k) :
    (name :: keys).any (fun l => has '.' l || l.any isWs) = false := by
  apply Bool.eq_false_iff.mpr
  intro hh
  simp only [List.any_eq_true] at hh
  obtain ⟨l, hl, hb⟩ := hh
  rcases List.mem_cons.mp hl with rfl | hl
  · rw [nameOk_label _ hn] at hb; exact absurd hb (by simp)
  · rw [nameOk_label _ (hk l hl)] at hb; exact absurd hb (by simp)

/-- `_name.key` -/
def keyTok (name key : Str) : Str := '_' :: name ++ '.' :: key

theorem keyTok_nows (name key : Str) (hn : NameOk name) (hk : NameOk key) :
    ∀ c ∈ keyTok name key, isWs c = false := by
  intro c hc
  simp only [keyTok, List.mem_cons, List.mem_append] at hc
  rcases hc with (rfl | hc) | rfl | hc
  · decide
  · exact (hn c hc).1
  · decide
  · exact (hk c hc).1

theorem keyTok_edges (name key : Str) (hn : NameOk name) (hk : NameOk key) : Edges (keyTok name key) :=
  edges_of_nows _ (by simp [keyTok]) (keyTok_nows name key hn hk)

theorem partition_dot_keyTok (name key : Str) (hn : NameOk name) :
    partition '.' (keyTok name key) = ('_' :: name, key) := by
  have : '.' ∉ '_' :: name := by
    intro hm
    rcases List.mem_cons.mp hm with e | e
    · simp at e
    · exact (hn _ e).2.1 rfl
  have e : keyTok name key = ('_' :: name) ++ '.' :: key := by simp [keyTok]
  rw [e, partition_app '.' _ _ this]

theorem secondDotField_keyTok (name key : Str) (hn : NameOk name) (hk : NameOk key) :
    secondDotField (keyTok name key) = .ok key := by
  have hd : has '.' (keyTok name key) = true := by simp [has_iff, keyTok]
  have hk' : '.' ∉ key := fun hm => (hk _ hm).2.1 rfl
  simp [secondDotField, hd, partition_dot_keyTok name key hn, partition_notin '.' key hk']

theorem takeWhile_ne_app (c : Char) (a b : Str) (h : c ∉ a) :
    (a ++ c :: b).takeWhile (· != c) = a := by
  induction a with
  | nil => simp
  | cons x xs ih =>
    have hx : (x != c) = true := by
      simp only [List.mem_cons, not_or] at h
      simpa [bne_iff_ne] using fun e => h.1 e.symm
    simp [List.takeWhile, hx, ih (fun hm => h (List.mem_cons_of_mem _ hm))]

theorem parseCategoryName_keyTok (name key : Str) (hn : NameOk name) :
    parseCategoryName (keyTok name key) = some name := by
  have hd : has '.' (keyTok name key) = true := by simp [has_iff, keyTok]
  have hnd : '.' ∉ '_' :: name := by
    intro hm
    rcases List.mem_cons.mp hm with e | e
    · simp at e
    · exact (hn _ e).2.1 rfl
  have e : keyTok name key = ('_' :: name) ++ '.' :: key := by simp [keyTok]
  have ht := takeWhile_ne_app '.' ('_' :: name) key hnd
  rw [← e] at ht
  have hh : ((keyTok name key).head? == some '_') = true := by simp [keyTok]
  simp only [parseCategoryName, hh, hd, if_true, ht, List.tail_cons]

theorem parseCategoryName_keyTok_app (name key rest : Str) (hn : NameOk name) :
    parseCategoryName (keyTok name key ++ rest) = some name := by
  have hnd : '.' ∉ '_' :: name := by
    intro hm
    rcases List.mem_cons.mp hm with e | e
    · simp at e
    · exact (hn _ e).2.1 rfl
  have e : keyTok name key ++ rest = ('_' :: name) ++ '.' :: (key ++ rest) := by simp [keyTok]
  have hd : has '.' (keyTok name key ++ rest) = true := by rw [e]; simp [has_iff]
  have ht := takeWhile_ne_app '.' ('_' :: name) (key ++ rest) hnd
  rw [← e] at ht
  have hh : ((keyTok name key ++ rest).head? == some '_') = true := by simp [keyTok]
  simp only [parseCategoryName, hh, hd, if_true, ht, List.tail_cons]

/-- What the block and file scanners need to know about the written lines of one category. -/
structure CatLines (name : Str) (W : List Str) : Prop where
  nonl : ∀ w ∈ W, NoBreak w
  nonempty : ∀ w ∈ W, isEmptyLine w = false
  nodata : ∀ w ∈ W, parseDataBlockName w = none
  start : ∃ l0 rest, W = l0 :: rest ∧
    ((isLoopStart l0 = true ∧ ∃ k1 rest', rest = k1 :: rest' ∧ k1 ≠ [] ∧ parseCategoryName k1 = some name) ∨
     (isLoopStart l0 = false ∧ parseCategoryName l0 = some name))
  tail : ∀ w ∈ W.tail, isLoopStart w = false ∧ (parseCategoryName w = none ∨ parseCategoryName w = some name)

theorem isPrefixOf_app_space (p t r : Str) (hp : ' ' ∉ p) (h : p.isPrefixOf (t ++ ' ' :: r) = true) :
    p.isPrefixOf t = true := by
  induction p generalizing t with
  | nil => simp
  | cons a p ih =>
    cases t with
    | nil =>
      simp only [List.nil_append, List.isPrefixOf, Bool.and_eq_true, beq_iff_eq] at h
      exact absurd (h.1 ▸ List.mem_cons_self) hp
    | cons b t =>
      simp only [List.cons_append, List.isPrefixOf, Bool.and_eq_true] at h ⊢
      exact ⟨h.1, ih t (fun hm => hp (List.mem_cons_of_mem _ hm)) h.2⟩

theorem padded_not_prefix (p : Str) (hp : ' ' ∉ p) (t : Str) (n : Nat) (rest : List (Str × Nat))
    (h : p.isPrefixOf t = false) : p.isPrefixOf (padded ((t, n) :: rest)) = false := by
  cases rest with
  | nil => simpa [padded] using h
  | cons r rest' =>
    apply Bool.eq_false_iff.mpr
    intro hh
    have e : padded ((t, n) :: r :: rest') = t ++ ' ' :: (List.replicate n ' ' ++ padded (r :: rest')) := by
      simp [padded, List.replicate_succ]
    rw [e] at hh
    have := isPrefixOf_app_space p t _ hp hh
    rw [h] at this
    exact absurd this (by simp)

/-! ## chunk / transpose -/

theorem chunk_flatten {α : Type} (k : Nat) (hk : 0 < k) (rows : List (List α)) (h : ∀ r ∈ rows, r.length = k)
    (fuel : Nat) (hf : rows.flatten.length ≤ fuel) : chunk k fuel rows.flatten = some rows := by
  induction rows generalizing fuel with
  | nil => cases fuel <;> rfl
  | cons r rs ih =>
    have hr := h r (by simp)
    cases r with
    | nil => simp at hr; omega
    | cons x xs =>
      cases fuel with
      | zero => simp at hf
      | succ f =>
        have hlen : ¬ ((x :: xs) ++ rs.flatten).length < k := by simp at hr ⊢; omega
        have e : (x :: xs ++ rs.flatten) = x :: (xs ++ rs.flatten) := rfl
        simp only [List.flatten_cons]
        rw [e, chunk]
        rw [← e]
        simp only [hlen, if_false]
        have hd : (x :: xs ++ rs.flatten).drop k = rs.flatten := by
          rw [← hr]; exact List.drop_left
        have ht : (x :: xs ++ rs.flatten).take k = x :: xs := by
          rw [← hr]; exact List.take_left
        rw [hd, ht, ih (fun r' hr' => h r' (by simp [hr'])) f (by simp at hf ⊢; omega)]
        rfl

/-- `Rect m n M`: `M` has `m` lists of length `n`. -/
def Rect {α : Type} (m n : Nat) (M : List (List α)) : Prop := M.length = m ∧ ∀ r ∈ M, r.length = n

theorem transpose_length {α : Type} (n : Nat) (M : List (List α)) (h : ∀ r ∈ M, r.length = n) :
    (transpose n M).length = n := by
  induction M with
  | nil => simp [transpose]
  | cons x xs ih =>
    simp [transpose, List.length_zipWith, h x (by simp), ih (fun r hr => h r (by simp [hr]))]

theorem transpose_zipWith_cons {α : Type} (m : Nat) (x : List α) (Y : List (List α))
    (hl : x.length = Y.length) :
    transpose (m + 1) (List.zipWith (· :: ·) x Y) = x :: transpose m Y := by
  induction x generalizing Y with
  | nil =>
    cases Y with
    | nil => simp [transpose, List.replicate_succ]
    | cons y ys => simp at hl
  | cons a x ih =>
    cases Y with
    | nil => simp at hl
    | cons y Y =>
      have := ih Y (by simpa using hl)
      simp only [List.zipWith_cons_cons, transpose, this]

theorem transpose_replicate_nil {α : Type} (n : Nat) :
    transpose 0 (List.replicate n ([] : List α)) = [] := by
  induction n with
  | zero => rfl
  | succ n ih => simp [List.replicate_succ, transpose]

theorem transpose_transpose {α : Type} (m n : Nat) (M : List (List α)) (h : Rect m n M) :
    transpose m (transpose n M) = M := by
  induction M generalizing m with
  | nil =>
    have hm : m = 0 := by simpa using h.1.symm
    subst hm
    exact transpose_replicate_nil n
  | cons x xs ih =>
    have hm := h.1
    have hr := h.2
    cases m with
    | zero => simp at hm
    | succ m =>
      have hxs : Rect m n xs := ⟨by simpa using hm, fun r hr' => hr r (by simp [hr'])⟩
      have hlen : x.length = (transpose n xs).length := by
        rw [transpose_length n xs hxs.2, hr x (by simp)]
      simp only [transpose]
      rw [transpose_zipWith_cons m x _ hlen, ih m hxs]

theorem transpose_map {α β : Type} (f : α → β) (n : Nat) (M : List (List α)) :
    transpose n (M.map (List.map f)) = (transpose n M).map (List.map f) := by
  induction M with
  | nil => simp [transpose]
  | cons x xs ih =>
    simp only [List.map_cons, transpose, ih]
    generalize transpose n xs = T
    induction x generalizing T with
    | nil => simp
    | cons a x ihx =>
      cases T with
      | nil => simp
      | cons t T => simp [ihx T]

theorem mem_zipWith_cons {α : Type} (c : List α) (T : List (List α)) (row : List α)
    (h : row ∈ List.zipWith (· :: ·) c T) : ∃ a t, row = a :: t ∧ a ∈ c ∧ t ∈ T := by
  induction c generalizing T with
  | nil => simp at h
  | cons a c ih =>
    cases T with
    | nil => simp at h
    | cons t T =>
      simp only [List.zipWith_cons_cons, List.mem_cons] at h
      rcases h with rfl | h
      · exact ⟨a, t, rfl, by simp, by simp⟩
      · obtain ⟨a', t', e, ha, ht⟩ := ih T h
        exact ⟨a', t', e, by simp [ha], by simp [ht]⟩

/-- every row of the transpose has one element from each column, in order -/
theorem transpose_row_mem {α : Type} (n : Nat) (M : List (List α)) :
    ∀ row ∈ transpose n M, row.length = M.length ∧ ∀ p ∈ M.zip row, p.2 ∈ p.1 := by
  induction M with
  | nil =>
    intro row hrow
    simp only [transpose, List.mem_replicate] at hrow
    simp [hrow.2]
  | cons c cs ih =>
    intro row hrow
    simp only [transpose] at hrow
    obtain ⟨a, t, rfl, ha, ht⟩ := mem_zipWith_cons c _ row hrow
    obtain ⟨h1, h2⟩ := ih t ht
    refine ⟨by simp [h1], ?_⟩
    intro p hp
    simp only [List.zip_cons_cons, List.mem_cons] at hp
    rcases hp with rfl | hp
    · exact ha
    · exact h2 p hp

/-- building the dict from distinct keys keeps the list -/
theorem foldl_dictSet_nodup {κ α : Type} [BEq κ] [LawfulBEq κ] (kvs : List (κ × α)) (h : (kvs.map (·.1)).Nodup) :
    kvs.foldl (fun d kv => dictSet kv.1 kv.2 d) [] = kvs := by
  have gen : ∀ (pre : List (κ × α)), ((pre ++ kvs).map (·.1)).Nodup →
      kvs.foldl (fun d kv => dictSet kv.1 kv.2 d) pre = pre ++ kvs := by
    induction kvs with
    | nil => intro pre _; simp
    | cons kv rest ih =>
      intro pre hnd
      have hset : dictSet kv.1 kv.2 pre = pre ++ [kv] := by
        have hnotin : kv.1 ∉ pre.map (·.1) := by
          simp only [List.map_append, List.map_cons, List.nodup_append, List.nodup_cons] at hnd
          intro hm
          exact hnd.2.2 _ hm _ (by simp) rfl
        clear hnd ih
        induction pre with
        | nil => rfl
        | cons p ps ihp =>
          have hp : (p.1 == kv.1) = false := by
            simp only [List.map_cons, List.mem_cons, not_or] at hnotin
            simpa using fun e => hnotin.1 e.symm
          have := ihp (fun hm => hnotin (by simp [hm]))
          obtain ⟨pk, pv⟩ := p
          simp only at hp
          simp [dictSet, hp, this]
      simp only [List.foldl_cons, hset]
      have := ih (h := (List.nodup_cons.mp (by simpa using h)).2) (pre ++ [kv]) (by simpa using hnd)
      simpa using this
  simpa using gen [] (by simpa using h)

/-! ## rows as written (moved here so that the category theorems can use them) -/

theorem rowRel_escape (row : List Str) (toks : List (Str × Nat)) (hm : toks.map (·.1) = row.map escape)
    (h : ∀ v ∈ row, SingleLine v ∧ ¬ BothQuotes v) : RowRel row toks := by
  induction row generalizing toks with
  | nil => cases toks <;> simp_all [RowRel.nil]
  | cons v vs ih =>
    cases toks with
    | nil => simp at hm
    | cons tn rest =>
      simp only [List.map_cons, List.cons.injEq] at hm
      have hv := h v (by simp)
      refine RowRel.cons ?_ (ih rest hm.2 (fun x hx => h x (by simp [hx])))
      rw [hm.1]; exact (escape_tok v hv.1 hv.2).1

theorem length_le_maxLen (xs : List Str) (x : Str) (hx : x ∈ xs) : x.length ≤ maxLen xs := by
  unfold maxLen
  have gen : ∀ (ys : List Str) (m : Nat), m ≤ ys.foldl (fun m x => max m x.length) m ∧
      ∀ y ∈ ys, y.length ≤ ys.foldl (fun m x => max m x.length) m := by
    intro ys
    induction ys with
    | nil => intro m; simp
    | cons y ys ih =>
      intro m
      have h1 := ih (max m y.length)
      refine ⟨by simp only [List.foldl_cons]; omega, ?_⟩
      intro z hz
      simp only [List.foldl_cons]
      rcases List.mem_cons.mp hz with e | e
      · subst e; omega
      · exact h1.2 z e
  exact (gen xs 0).2 x hx

/-- The column width the writer uses (`itemsize + 1` = longest escaped element + 1) leaves at
least one blank after every element of the column. -/
theorem width_sufficient (col : List Str) (v : Str) (hv : v ∈ col) :
    (escape v).length < maxLen (col.map escape) + 1 := by
  have := length_le_maxLen (col.map escape) (escape v) (List.mem_map_of_mem hv)
  omega

/-- **Row as written.**  One value line of `_serialize_looped` (`ljust` to the column widths,
`strip`), stripped again by the reader and tokenised, is the row. -/
theorem row_written (row : List Str) (ws : List Nat) (hne : row ≠ []) (hlen : ws.length = row.length)
    (hw : ∀ p ∈ ws.zip (row.map escape), p.2.length < p.1)
    (h : ∀ v ∈ row, SingleLine v ∧ ¬ BothQuotes v) :
    splitOneLine (strip (rowLine ws (row.map escape))) = .ok row := by
  have hlen' : ws.length = (row.map escape).length := by simp [hlen]
  have hne' : row.map escape ≠ [] := by simpa using hne
  have hm := padsOf_map_fst ws (row.map escape) hlen'
  have hrel := rowRel_escape row _ hm h
  have hpn := padsOf_ne_nil ws (row.map escape) hlen' hne'
  rw [rowLine_padded row ws _ hlen' hrel hne' hw, strip_padded _ hpn (rowRel_edges _ _ hrel)]
  refine splitOneLine_padded row _ hrel hpn ?_
  cases row with
  | nil => exact absurd rfl hne
  | cons v vs =>
    cases ws with
    | nil => simp at hlen
    | cons w ws' =>
      have hv := h v (by simp)
      have hs := (escape_tok v hv.1 hv.2)
      simp only [List.map_cons, padsOf]
      rw [padded_head? _ _ _ (tok_ne_nil _ _ hs.1)]
      exact hs.2.semi

/-- **All value lines of a looped category**: tokenising the written lines one by one gives back
the rows, in order. -/
theorem looped_lines (rows : List (List Str)) (ws : List Nat)
    (hrow : ∀ row ∈ rows, row ≠ [] ∧ ws.length = row.length ∧
      (∀ p ∈ ws.zip (row.map escape), p.2.length < p.1) ∧ ∀ v ∈ row, SingleLine v ∧ ¬ BothQuotes v) :
    mapM' splitOneLine ((rows.map (fun r => rowLine ws (r.map escape))).map strip) = .ok rows := by
  induction rows with
  | nil => rfl
  | cons r rs ih =>
    obtain ⟨h1, h2, h3, h4⟩ := hrow r (by simp)
    have := row_written r ws h1 h2 h3 h4
    have ih' := ih (fun x hx => hrow x (by simp [hx]))
    simp only [List.map_cons, mapM', this, ih', bind, Except.bind]

end BiotiteModel.C06

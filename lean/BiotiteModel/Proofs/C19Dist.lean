import BiotiteModel.Proofs.C19Tree
import Mathlib.Tactic.Ring
/-! `distance_to` equals the explicit path sum through the lowest common ancestor. -/
namespace BiotiteModel.C19

/-- Child `k` of a node object (with the branch length stored on the child). -/
def childOf (n : T Rat) (k : Nat) : Option (Rat × T Rat) :=
  match n with
  | .leaf _ => none
  | .node cs => cs.get? k

/-- **Explicit path sum**: walk *down* from `t` along `p`, adding the branch length of every edge
(or 1 per edge for the topological distance). -/
def downLen (topo : Bool) : T Rat → List Nat → Option Rat
  | _, [] => some 0
  | t, k :: p => match childOf t k with
    | none => none
    | some (d, c) => match downLen topo c p with
      | none => none
      | some x => some ((if topo then 1 else d) + x)

theorem sub?_cons (t : T Rat) (k : Nat) (p : List Nat) :
    t.sub? (k :: p) = match childOf t k with | none => none | some (_, c) => c.sub? p := by
  cases t with
  | leaf i => simp [T.sub?, childOf]
  | node cs => simp only [T.sub?, childOf]; cases cs.get? k <;> rfl

theorem sub?_append (p q : List Nat) : ∀ t : T Rat, t.sub? (p ++ q) = (t.sub? p).bind (·.sub? q) := by
  induction p with
  | nil => intro t; simp [T.sub?]
  | cons k p ih =>
    intro t
    simp only [List.cons_append, sub?_cons]
    cases childOf t k with
    | none => rfl
    | some dc => exact ih dc.2

theorem edge?_cons_cons (t : T Rat) (k j : Nat) (p : List Nat) :
    t.edge? 0 (k :: j :: p) = match childOf t k with | none => none | some (_, c) => c.edge? 0 (j :: p) := by
  cases t with
  | leaf i => simp [T.edge?, childOf]
  | node cs => simp only [T.edge?, childOf]; cases cs.get? k <;> rfl

theorem edge?_single (t : T Rat) (k : Nat) : t.edge? 0 [k] = (childOf t k).map (·.1) := by
  cases t with
  | leaf i => simp [T.edge?, childOf]
  | node cs => simp [T.edge?, childOf]

/-- `_distance` of the node reached by one more step `k` after `p`. -/
theorem edge?_snoc (p : List Nat) (k : Nat) : ∀ t : T Rat,
    t.edge? 0 (p ++ [k]) = (t.sub? p).bind (fun n => (childOf n k).map (·.1)) := by
  induction p with
  | nil => intro t; simp [T.sub?, edge?_single]
  | cons j p ih =>
    intro t
    have : (j :: p) ++ [k] = j :: (p ++ [k]) := rfl
    rw [this]
    cases hp : p ++ [k] with
    | nil => simp at hp
    | cons a r =>
      rw [edge?_cons_cons, sub?_cons, ← hp]
      cases childOf t j with
      | none => rfl
      | some dc => exact ih dc.2

theorem downLen_snoc (topo : Bool) (p : List Nat) (k : Nat) : ∀ t : T Rat,
    downLen topo t (p ++ [k]) =
      (downLen topo t p).bind (fun x => (t.sub? p).bind (fun n => (childOf n k).map
        (fun dc => x + (if topo then 1 else dc.1)))) := by
  induction p with
  | nil =>
    intro t
    simp only [List.nil_append, downLen, T.sub?, Option.bind_some]
    cases childOf t k with
    | none => rfl
    | some dc => simp [downLen]
  | cons j p ih =>
    intro t
    simp only [List.cons_append, downLen, sub?_cons]
    cases childOf t j with
    | none => rfl
    | some dc =>
      simp only [ih dc.2]
      cases downLen topo dc.2 p with
      | none => rfl
      | some x =>
        simp only [Option.bind_some]
        cases dc.2.sub? p with
        | none => rfl
        | some n =>
          simp only [Option.bind_some]
          cases childOf n k with
          | none => rfl
          | some e => simp; ring

/-- The upward walk of `distance_to` from `a ++ r` to its ancestor `a` adds exactly the downward
path sum of `r` below the node at `a`. -/
theorem walkUp_spec (t : T Rat) (topo : Bool) (a : List Nat) (u : T Rat) (hu : t.sub? a = some u) :
    ∀ (n : Nat) (r : List Nat), r.length = n → ∀ (fuel : Nat) (acc x : Rat), r.length < fuel →
      downLen topo u r = some x → walkUp t topo fuel (a ++ r) a acc = some (acc + x) := by
  intro n
  induction n with
  | zero =>
    intro r hr fuel acc x hf hx
    have : r = [] := List.length_eq_zero_iff.mp hr
    subst this
    cases fuel with
    | zero => simp at hf
    | succ f =>
      simp only [downLen, Option.some.injEq] at hx
      subst hx
      simp [walkUp]
  | succ n ih =>
    intro r hr fuel acc x hf hx
    obtain ⟨r0, k, rfl⟩ : ∃ r0 k, r = r0 ++ [k] := by
      cases h : r.reverse with
      | nil => simp at h; subst h; simp at hr
      | cons k r1 => exact ⟨r1.reverse, k, by rw [← List.reverse_reverse r, h]; simp⟩
    have hr0 : r0.length = n := by simp at hr; omega
    cases fuel with
    | zero => simp at hf
    | succ f =>
      rw [downLen_snoc] at hx
      cases hx0 : downLen topo u r0 with
      | none => simp [hx0] at hx
      | some x0 =>
        simp only [hx0, Option.bind_some] at hx
        cases hn : u.sub? r0 with
        | none => simp [hn] at hx
        | some nd =>
          simp only [hn, Option.bind_some] at hx
          cases hc : childOf nd k with
          | none => simp [hc] at hx
          | some dc =>
            simp only [hc, Option.map_some, Option.some.injEq] at hx
            have hedge : t.edge? 0 (a ++ (r0 ++ [k])) = some dc.1 := by
              rw [← List.append_assoc, edge?_snoc, sub?_append, hu]
              simp [hn, hc]
            have hne1 : a ++ (r0 ++ [k]) ≠ a := by
              intro h
              have := congrArg List.length h
              simp at this
            have hne2 : a ++ (r0 ++ [k]) ≠ [] := by simp
            have hdl : (a ++ (r0 ++ [k])).dropLast = a ++ r0 := by
              rw [← List.append_assoc, List.dropLast_concat]
            simp only [walkUp, hne1, hne2, if_false, hedge, hdl]
            rw [ih r0 hr0 f _ x0 (by simp at hf; omega) hx0, ← hx]
            congr 1
            ring

theorem prefix_decomp {c p : List Nat} (h : c <+: p) : p = c ++ p.drop c.length := by
  obtain ⟨r, rfl⟩ := h
  simp

theorem downLen_isSome (topo : Bool) : ∀ (r : List Nat) (u : T Rat), (u.sub? r).isSome →
    (downLen topo u r).isSome := by
  intro r
  induction r with
  | nil => intro u _; rfl
  | cons k r ih =>
    intro u h
    rw [sub?_cons] at h
    simp only [downLen]
    cases hc : childOf u k with
    | none => simp [hc] at h
    | some dc =>
      obtain ⟨d, c⟩ := dc
      simp only [hc] at h
      have := ih c h
      cases hd : downLen topo c r with
      | none => simp [hd] at this
      | some x => simp [hd]

/-- **`distance_to` = explicit path sum.**  For two nodes `p`, `q` of a tree, with `c` their lowest
common ancestor (longest common prefix): the result is the sum of the branch lengths walking down
from `c` to `p` plus the sum walking down from `c` to `q` (edge counts for `topological`). -/
theorem distanceTo_path_sum (t : T Rat) (topo : Bool) (p q : List Nat)
    (hp : (t.sub? p).isSome) (hq : (t.sub? q).isSome) :
    ∃ u x y, t.sub? (commonPrefix p q) = some u ∧
      downLen topo u (p.drop (commonPrefix p q).length) = some x ∧
      downLen topo u (q.drop (commonPrefix p q).length) = some y ∧
      distanceTo t topo p q = .ok (x + y) := by
  have hlca : lca p q = some (commonPrefix p q) := lca_eq p q
  have dp := prefix_decomp (commonPrefix_prefix_left p q)
  have dq := prefix_decomp (commonPrefix_prefix_right p q)
  generalize commonPrefix p q = c at dp dq hlca ⊢
  generalize p.drop c.length = p' at dp ⊢
  generalize q.drop c.length = q' at dq ⊢
  have hp2 : ((t.sub? c).bind (·.sub? p')).isSome := by rw [← sub?_append, ← dp]; exact hp
  have hq2 : ((t.sub? c).bind (·.sub? q')).isSome := by rw [← sub?_append, ← dq]; exact hq
  cases hu : t.sub? c with
  | none => simp [hu] at hp2
  | some u =>
    simp only [hu, Option.bind_some] at hp2 hq2
    have h1 := downLen_isSome topo p' u hp2
    have h2 := downLen_isSome topo q' u hq2
    cases hx : downLen topo u p' with
    | none => simp [hx] at h1
    | some x =>
      cases hy : downLen topo u q' with
      | none => simp [hy] at h2
      | some y =>
        refine ⟨u, x, y, rfl, hx, hy, ?_⟩
        have w1 := walkUp_spec t topo c u hu p'.length p' rfl (p.length + 1) 0 x
          (by rw [dp]; simp; omega) hx
        have w2 := walkUp_spec t topo c u hu q'.length q' rfl (q.length + 1) (0 + x) y
          (by rw [dq]; simp; omega) hy
        rw [← dp] at w1
        rw [← dq] at w2
        simp only [distanceTo, hlca, w1, w2]
        simp

end BiotiteModel.C19

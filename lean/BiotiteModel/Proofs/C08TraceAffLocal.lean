import BiotiteModel.Proofs.C08TraceAff
/-! Affine traceback, local mode: the facts about `nextAff .local` that `followG_good` needs. -/
namespace BiotiteModel.C08


theorem valN_local_border (T : Nat → Nat → AffCell) (i j : Nat) (k : Kind) (hb : i = 0 ∨ j = 0) :
    valN .local T ((i, j), k) = if k = .m then some 0 else none := by
  simp [valN, hb]

theorem valN_local_interior (T : Nat → Nat → AffCell) (i j : Nat) (k : Kind) (hk : k ≠ .none) :
    valN .local T ((i + 1, j + 1), k) = stateVal (T (i + 1) (j + 1)) k := by
  unfold valN
  cases k <;> simp_all

theorem valN_canon_local (M : Mat) (go ge : Int) (a b : Seq) (i j : Nat) (X : Kind) (hX : X ≠ .none) (w0 : Int)
    (h : stateVal ((affRec .local M go ge a b).val i j) X = some w0) :
    valN .local (affRec .local M go ge a b).val (canonNode .local ((i, j), X)) = some w0 := by
  by_cases hb : i = 0 ∨ j = 0
  · have hz := aff_local_border_zero M go ge a b i j hb X w0 h
    subst hz
    simp [canonNode, hb, valN]
  · obtain ⟨i', rfl⟩ : ∃ i', i = i' + 1 := ⟨i - 1, by omega⟩
    obtain ⟨j', rfl⟩ : ∃ j', j = j' + 1 := ⟨j - 1, by omega⟩
    have : canonNode .local ((i' + 1, j' + 1), X) = ((i' + 1, j' + 1), X) := by simp [canonNode]
    rw [this, valN_local_interior _ _ _ _ hX]; exact h

theorem canon_fst (mode : Mode) (s : ANode) : (canonNode mode s).1 = s.1 := by
  unfold canonNode; split <;> rfl

theorem hnext_aff_local (M : Mat) (go ge : Int) (a b : Seq) (s : ANode)
    (hR : RealN .local ((affRec .local M go ge a b).val) s) :
    ∀ d ∈ nextAff .local M go ge a b ((affRec .local M go ge a b).val) s,
      RealN .local ((affRec .local M go ge a b).val) d.1 ∧ stepPos d.1.1 d.2 = some s.1 ∧
      (valN .local ((affRec .local M go ge a b).val) s).getD 0 = (valN .local ((affRec .local M go ge a b).val) d.1).getD 0
        + costAffK .local M go ge a b d.1.1 d.1.2 d.2 ∧
      allowedK d.1.2 d.2 = true ∧ d.2.kind = s.2 := by
  obtain ⟨⟨i, j⟩, k⟩ := s
  obtain ⟨w, hw⟩ := hR
  intro d hd
  cases i with
  | zero => cases j <;> simp [nextAff] at hd
  | succ i =>
    cases j with
    | zero => simp [nextAff] at hd
    | succ j =>
      have hkn : k ≠ .none := by rintro rfl; simp [valN] at hw
      have e1 := hw
      rw [valN_local_interior _ _ _ _ hkn, Rec.val_succ_succ, aff_cell_local] at hw
      have hsemi : (Mode.local == Mode.semi) = false := rfl
      have hloc : (Mode.local == Mode.local) = true := rfl
      cases k with
      | none => exact absurd rfl hkn
      | m =>
        simp only [stateVal] at hw
        simp only [nextAff, List.foldr, omax_none_right, hsemi, hloc, Bool.false_and, Bool.true_and,
          Bool.false_eq_true, if_false] at hd
        by_cases hp : opos (omax (oadd ((affRec .local M go ge a b).val i j).m (sub M a b i j))
            (omax (oadd ((affRec .local M go ge a b).val i j).g1 (sub M a b i j))
              (oadd ((affRec .local M go ge a b).val i j).g2 (sub M a b i j)))) = true
        · obtain ⟨w1, hw1, _⟩ := opos_some hp
          simp only [hp, if_true] at hw
          rw [hw1] at hw
          simp only [Option.some.injEq] at hw
          subst hw
          have hp1 : opos (some w1) = true := by rw [← hw1]; exact hp
          simp only [hw1, hp1, Option.isNone_some, Bool.not_true, Bool.or_self, Bool.false_or, Bool.false_eq_true, if_false] at hd
          obtain ⟨n, c, ov, hm, hov, rfl⟩ := mem_pick _ _ _ _ hd
          simp only [List.mem_cons, Prod.mk.injEq, List.mem_nil_iff, or_false] at hm
          have key : ∀ X : Kind, X ≠ .none → ∀ w', stateVal ((affRec .local M go ge a b).val i j) X = some w' →
              w1 = w' + sub M a b i j →
              RealN .local (affRec .local M go ge a b).val (canonNode .local ((i, j), X)) ∧
              stepPos (canonNode .local ((i, j), X)).1 (.both i j) = some (i + 1, j + 1) ∧
              (valN .local (affRec .local M go ge a b).val ((i + 1, j + 1), Kind.m)).getD 0 =
                (valN .local (affRec .local M go ge a b).val (canonNode .local ((i, j), X))).getD 0 +
                  costAffK .local M go ge a b (canonNode .local ((i, j), X)).1 (canonNode .local ((i, j), X)).2
                    (.both i j) ∧
              allowedK (canonNode .local ((i, j), X)).2 (.both i j) = true ∧ (Col.both i j).kind = Kind.m := by
            intro X hX w' hw' hww
            have e2 := valN_canon_local M go ge a b i j X hX w' hw'
            refine ⟨⟨w', e2⟩, by simp [canon_fst, stepPos], ?_, by simp [allowed_both], rfl⟩
            rw [e1, e2]
            simp [canon_fst, costAffK, hww]
          rcases hm with ⟨rfl, rfl, rfl⟩ | ⟨rfl, rfl, rfl⟩ | ⟨rfl, rfl, rfl⟩
          · obtain ⟨w', hw', hww⟩ := oadd_eq_some hov
            exact key .m (by simp) w' hw' hww
          · obtain ⟨w', hw', hww⟩ := oadd_eq_some hov
            exact key .ga (by simp) w' hw' hww
          · obtain ⟨w', hw', hww⟩ := oadd_eq_some hov
            exact key .gb (by simp) w' hw' hww
        · simp [hp] at hd
      | ga =>
        simp only [stateVal] at hw
        simp only [nextAff, List.foldr, omax_none_right, hsemi, hloc, Bool.false_and, Bool.true_and,
          Bool.false_eq_true, if_false] at hd
        by_cases hp : opos (omax (oadd ((affRec .local M go ge a b).val (i + 1) j).m go)
            (oadd ((affRec .local M go ge a b).val (i + 1) j).g1 ge)) = true
        · obtain ⟨w1, hw1, _⟩ := opos_some hp
          simp only [hp, if_true] at hw
          rw [hw1] at hw
          simp only [Option.some.injEq] at hw
          subst hw
          have hp1 : opos (some w1) = true := by rw [← hw1]; exact hp
          simp only [hw1, hp1, Option.isNone_some, Bool.not_true, Bool.or_self, Bool.false_or, Bool.false_eq_true, if_false] at hd
          obtain ⟨n, c, ov, hm, hov, rfl⟩ := mem_pick _ _ _ _ hd
          simp only [List.mem_cons, Prod.mk.injEq, List.mem_nil_iff, or_false] at hm
          cases j with
          | zero =>
            rcases hm with ⟨rfl, rfl, rfl⟩ | ⟨rfl, rfl, rfl⟩ <;>
            · obtain ⟨w', hw', _⟩ := oadd_eq_some hov
              rw [aff_border1] at hw'; simp at hw'
          | succ j =>
            have hc : ∀ X, canonNode .local ((i + 1, j + 1), X) = ((i + 1, j + 1), X) := by
              intro X; simp [canonNode]
            rcases hm with ⟨rfl, rfl, rfl⟩ | ⟨rfl, rfl, rfl⟩
            · obtain ⟨w', hw', hww⟩ := oadd_eq_some hov
              have e2 := valN_canon_local M go ge a b (i + 1) (j + 1) .m (by simp) w' hw'
              refine ⟨⟨w', e2⟩, by simp [hc, stepPos], ?_, by simp [hc, allowedK], rfl⟩
              rw [e1, e2]
              simp [hc, costAffK, hww]
            · obtain ⟨w', hw', hww⟩ := oadd_eq_some hov
              have e2 := valN_canon_local M go ge a b (i + 1) (j + 1) .ga (by simp) w' hw'
              refine ⟨⟨w', e2⟩, by simp [hc, stepPos], ?_, by simp [hc, allowedK], rfl⟩
              rw [e1, e2]
              simp [hc, costAffK, hww]
        · simp [hp] at hd
      | gb =>
        simp only [stateVal] at hw
        simp only [nextAff, List.foldr, omax_none_right, hsemi, hloc, Bool.false_and, Bool.true_and,
          Bool.false_eq_true, if_false] at hd
        by_cases hp : opos (omax (oadd ((affRec .local M go ge a b).val i (j + 1)).m go)
            (oadd ((affRec .local M go ge a b).val i (j + 1)).g2 ge)) = true
        · obtain ⟨w1, hw1, _⟩ := opos_some hp
          simp only [hp, if_true] at hw
          rw [hw1] at hw
          simp only [Option.some.injEq] at hw
          subst hw
          have hp1 : opos (some w1) = true := by rw [← hw1]; exact hp
          simp only [hw1, hp1, Option.isNone_some, Bool.not_true, Bool.or_self, Bool.false_or, Bool.false_eq_true, if_false] at hd
          obtain ⟨n, c, ov, hm, hov, rfl⟩ := mem_pick _ _ _ _ hd
          simp only [List.mem_cons, Prod.mk.injEq, List.mem_nil_iff, or_false] at hm
          cases i with
          | zero =>
            rcases hm with ⟨rfl, rfl, rfl⟩ | ⟨rfl, rfl, rfl⟩ <;>
            · obtain ⟨w', hw', _⟩ := oadd_eq_some hov
              rw [aff_border0] at hw'; simp at hw'
          | succ i =>
            have hc : ∀ X, canonNode .local ((i + 1, j + 1), X) = ((i + 1, j + 1), X) := by
              intro X; simp [canonNode]
            rcases hm with ⟨rfl, rfl, rfl⟩ | ⟨rfl, rfl, rfl⟩
            · obtain ⟨w', hw', hww⟩ := oadd_eq_some hov
              have e2 := valN_canon_local M go ge a b (i + 1) (j + 1) .m (by simp) w' hw'
              refine ⟨⟨w', e2⟩, by simp [hc, stepPos], ?_, by simp [hc, allowedK], rfl⟩
              rw [e1, e2]
              simp [hc, costAffK, hww]
            · obtain ⟨w', hw', hww⟩ := oadd_eq_some hov
              have e2 := valN_canon_local M go ge a b (i + 1) (j + 1) .gb (by simp) w' hw'
              refine ⟨⟨w', e2⟩, by simp [hc, stepPos], ?_, by simp [hc, allowedK], rfl⟩
              rw [e1, e2]
              simp [hc, costAffK, hww]
        · simp [hp] at hd

theorem hend_aff_local (M : Mat) (go ge : Int) (a b : Seq) (s : ANode)
    (hR : RealN .local ((affRec .local M go ge a b).val) s)
    (hnil : nextAff .local M go ge a b ((affRec .local M go ge a b).val) s = []) :
    (valN .local ((affRec .local M go ge a b).val) s).getD 0 = 0 ∧ s.2 = .m := by
  obtain ⟨⟨i, j⟩, k⟩ := s
  obtain ⟨w, hw⟩ := hR
  by_cases hb : i = 0 ∨ j = 0
  · rw [valN_local_border _ _ _ _ hb] at hw ⊢
    by_cases hk : k = .m
    · simp [hk]
    · simp [hk] at hw
  · obtain ⟨i, rfl⟩ : ∃ i', i = i' + 1 := ⟨i - 1, by omega⟩
    obtain ⟨j, rfl⟩ : ∃ j', j = j' + 1 := ⟨j - 1, by omega⟩
    have hkn : k ≠ .none := by rintro rfl; simp [valN] at hw
    have e1 := hw
    rw [valN_local_interior _ _ _ _ hkn, Rec.val_succ_succ, aff_cell_local] at hw
    have hsemi : (Mode.local == Mode.semi) = false := rfl
    have hloc : (Mode.local == Mode.local) = true := rfl
    cases k with
    | none => exact absurd rfl hkn
    | m =>
      refine ⟨?_, rfl⟩
      simp only [stateVal] at hw
      by_cases hp : opos (omax (oadd ((affRec .local M go ge a b).val i j).m (sub M a b i j))
          (omax (oadd ((affRec .local M go ge a b).val i j).g1 (sub M a b i j))
            (oadd ((affRec .local M go ge a b).val i j).g2 (sub M a b i j)))) = true
      · exfalso
        obtain ⟨w1, hw1, _⟩ := opos_some hp
        have hp1 : opos (some w1) = true := by rw [← hw1]; exact hp
        simp only [nextAff, List.foldr, omax_none_right, hsemi, hloc, Bool.false_and, Bool.true_and,
          Bool.false_eq_true, if_false, hw1, hp1, Option.isNone_some, Bool.not_true, Bool.or_self, Bool.false_or,
          List.map_eq_nil_iff, pickCands, List.filter_eq_nil_iff] at hnil
        rcases omax_cases hw1 with h | h
        · exact absurd (hnil _ List.mem_cons_self) (by simp [h])
        · rcases omax_cases h with h | h
          · exact absurd (hnil _ (List.mem_cons_of_mem _ List.mem_cons_self)) (by simp [h])
          · exact absurd (hnil _ (List.mem_cons_of_mem _ (List.mem_cons_of_mem _ List.mem_cons_self))) (by simp [h])
      · simp only [hp, Bool.false_eq_true, if_false, Option.some.injEq] at hw
        rw [e1, ← hw]; rfl
    | ga =>
      exfalso
      simp only [stateVal] at hw
      by_cases hp : opos (omax (oadd ((affRec .local M go ge a b).val (i + 1) j).m go)
          (oadd ((affRec .local M go ge a b).val (i + 1) j).g1 ge)) = true
      · obtain ⟨w1, hw1, _⟩ := opos_some hp
        have hp1 : opos (some w1) = true := by rw [← hw1]; exact hp
        simp only [nextAff, List.foldr, omax_none_right, hsemi, hloc, Bool.false_and, Bool.true_and,
          Bool.false_eq_true, if_false, hw1, hp1, Option.isNone_some, Bool.not_true, Bool.or_self, Bool.false_or,
          List.map_eq_nil_iff, pickCands, List.filter_eq_nil_iff] at hnil
        rcases omax_cases hw1 with h | h
        · exact absurd (hnil _ List.mem_cons_self) (by simp [h])
        · exact absurd (hnil _ (List.mem_cons_of_mem _ List.mem_cons_self)) (by simp [h])
      · simp [hp] at hw
    | gb =>
      exfalso
      simp only [stateVal] at hw
      by_cases hp : opos (omax (oadd ((affRec .local M go ge a b).val i (j + 1)).m go)
          (oadd ((affRec .local M go ge a b).val i (j + 1)).g2 ge)) = true
      · obtain ⟨w1, hw1, _⟩ := opos_some hp
        have hp1 : opos (some w1) = true := by rw [← hw1]; exact hp
        simp only [nextAff, List.foldr, omax_none_right, hsemi, hloc, Bool.false_and, Bool.true_and,
          Bool.false_eq_true, if_false, hw1, hp1, Option.isNone_some, Bool.not_true, Bool.or_self, Bool.false_or,
          List.map_eq_nil_iff, pickCands, List.filter_eq_nil_iff] at hnil
        rcases omax_cases hw1 with h | h
        · exact absurd (hnil _ List.mem_cons_self) (by simp [h])
        · exact absurd (hnil _ (List.mem_cons_of_mem _ List.mem_cons_self)) (by simp [h])
      · simp [hp] at hw


theorem valN_local_m (M : Mat) (go ge : Int) (a b : Seq) (p : Nat × Nat) (v : Int)
    (h : ((affRec .local M go ge a b).val p.1 p.2).m = some v) :
    valN .local (affRec .local M go ge a b).val (p, .m) = some v := by
  have := valN_canon_local M go ge a b p.1 p.2 .m (by simp) v h
  have hc : canonNode .local ((p.1, p.2), Kind.m) = (p, Kind.m) := by
    unfold canonNode; split <;> rfl
  rw [hc] at this; exact this

/-- local affine traceback from a start cell: every yielded trace is a valid local alignment without abutting
gaps whose state-machine score is the match-table value of the start cell -/
theorem followAff_local_good (M : Mat) (go ge : Int) (a b : Seq) (mx fuel c : Nat) (p : Nat × Nat) (v : Int)
    (hv : ((affRec .local M go ge a b).val p.1 p.2).m = some v) (x : Aln)
    (hx : x ∈ (followG (nextAff .local M go ge a b (affRec .local M go ge a b).val) mx fuel (p, Kind.m) [] c).1) :
    ∃ p0, walk p0 x = some p ∧ noAbutK .m x = true ∧
      scorePosK (costAffK .local M go ge a b) p0 .m x = v := by
  have hvn := valN_local_m M go ge a b p v hv
  obtain ⟨pre, s0, he, _, _, hw, hsc, hna, _⟩ := followG_good
    (nextAff .local M go ge a b (affRec .local M go ge a b).val) (fun s => s.1) (fun s => s.2)
    (fun s => (valN .local (affRec .local M go ge a b).val s).getD 0)
    (RealN .local (affRec .local M go ge a b).val) (costAffK .local M go ge a b) mx
    (hnext_aff_local M go ge a b) (hend_aff_local M go ge a b) _ _ _ _ ⟨v, hvn⟩ x hx
  simp only [List.append_nil] at he
  subst he
  exact ⟨s0.1, hw, hna, by rw [hsc]; simp only [hvn]; rfl⟩

end BiotiteModel.C08

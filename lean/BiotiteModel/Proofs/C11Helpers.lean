import BiotiteModel.Proofs.C11Cols
/-! Column-by-column specifications of the alignment helpers and their equivalence with the model of the
vectorised code (terminal gaps, gap removal, identity, score).  Core Lean only. -/
namespace BiotiteModel.C11
open BiotiteModel

/-! ### first / last position satisfying a predicate -/

def firstTrue {α : Type} (p : α → Bool) : List α → Option Nat
  | [] => none
  | a :: r => if p a then some 0 else (firstTrue p r).map (· + 1)

def lastTrue {α : Type} (p : α → Bool) : List α → Option Nat
  | [] => none
  | a :: r => match lastTrue p r with
    | some q => some (q + 1)
    | none => if p a then some 0 else none

def posOf {α : Type} (p : α → Bool) (l : List α) (off : Nat) : List Nat :=
  (l.zipIdx off).filterMap fun x => if p x.1 then some x.2 else none

theorem posOf_cons {α : Type} (p : α → Bool) (a : α) (r : List α) (off : Nat) :
    posOf p (a :: r) off = (if p a then [off] else []) ++ posOf p r (off + 1) := by
  unfold posOf
  rw [List.zipIdx_cons, List.filterMap_cons]
  by_cases h : p a <;> simp [h]

theorem posOf_head {α : Type} (p : α → Bool) : ∀ (l : List α) (off : Nat),
    (posOf p l off).head? = (firstTrue p l).map (· + off) := by
  intro l
  induction l with
  | nil => intro off; rfl
  | cons a r ih =>
    intro off
    rw [posOf_cons, firstTrue]
    by_cases h : p a
    · simp [h]
    · simp only [h, Bool.false_eq_true, if_false, List.nil_append, ih]
      cases firstTrue p r <;> simp [Nat.add_comm, Nat.add_left_comm]

theorem posOf_last {α : Type} (p : α → Bool) : ∀ (l : List α) (off : Nat),
    (posOf p l off).getLast? = (lastTrue p l).map (· + off) := by
  intro l
  induction l with
  | nil => intro off; rfl
  | cons a r ih =>
    intro off
    rw [posOf_cons, lastTrue, List.getLast?_append, ih]
    cases hl : lastTrue p r with
    | some q => simp [Nat.add_comm, Nat.add_left_comm]
    | none => by_cases h : p a <;> simp [h]

theorem firstTrue_lt {α : Type} (p : α → Bool) : ∀ (l : List α) (q : Nat), firstTrue p l = some q → q < l.length := by
  intro l
  induction l with
  | nil => intro q h; cases h
  | cons a r ih =>
    intro q h
    rw [firstTrue] at h
    split at h
    · simp at h; subst h; simp
    · cases hf : firstTrue p r with
      | none => simp [hf] at h
      | some q' => simp [hf] at h; subst h; simpa using ih q' hf

theorem lastTrue_lt {α : Type} (p : α → Bool) : ∀ (l : List α) (q : Nat), lastTrue p l = some q → q < l.length := by
  intro l
  induction l with
  | nil => intro q h; cases h
  | cons a r ih =>
    intro q h
    rw [lastTrue] at h
    split at h
    · next q' hq' => simp at h; subst h; simpa using ih q' hq'
    · split at h
      · simp at h; subst h; simp
      · cases h

theorem any_take_iff {α : Type} (p : α → Bool) : ∀ (l : List α) (i : Nat),
    ((l.take (i + 1)).any p = true ↔ ∃ q, firstTrue p l = some q ∧ q ≤ i) := by
  intro l
  induction l with
  | nil => intro i; simp [firstTrue]
  | cons a r ih =>
    intro i
    rw [List.take_succ_cons, List.any_cons, firstTrue]
    by_cases h : p a
    · simp [h]
    · simp only [h, Bool.false_or, Bool.false_eq_true, if_false]
      cases i with
      | zero =>
        simp only [List.take_zero, List.any_nil, Bool.false_eq_true, false_iff]
        rintro ⟨q, hq, hle⟩
        cases hf : firstTrue p r <;> simp [hf] at hq
        omega
      | succ i =>
        rw [ih i]
        constructor
        · rintro ⟨q, hq, hle⟩; exact ⟨q + 1, by simp [hq], by omega⟩
        · rintro ⟨q, hq, hle⟩
          cases hf : firstTrue p r with
          | none => simp [hf] at hq
          | some q' => simp [hf] at hq; exact ⟨q', rfl, by omega⟩

theorem any_drop_iff {α : Type} (p : α → Bool) : ∀ (l : List α) (i : Nat),
    ((l.drop i).any p = true ↔ ∃ q, lastTrue p l = some q ∧ i ≤ q) := by
  intro l
  induction l with
  | nil => intro i; simp [lastTrue]
  | cons a r ih =>
    intro i
    have h0 : (r.any p = true ↔ ∃ q, lastTrue p r = some q) := by
      have := ih 0
      simpa using this
    cases i with
    | zero =>
      rw [List.drop_zero, List.any_cons, lastTrue]
      cases hl : lastTrue p r with
      | some q =>
        have : r.any p = true := h0.2 ⟨q, hl⟩
        simp [this]
      | none =>
        have : r.any p = false := by
          cases hr : r.any p with
          | false => rfl
          | true => obtain ⟨q, hq⟩ := h0.1 hr; rw [hl] at hq; cases hq
        by_cases h : p a <;> simp [h, this]
    | succ i =>
      rw [List.drop_succ_cons, ih i, lastTrue]
      constructor
      · rintro ⟨q, hq, hle⟩; exact ⟨q + 1, by simp [hq], by omega⟩
      · rintro ⟨q, hq, hle⟩
        cases hl : lastTrue p r with
        | some q' => simp [hl] at hq; exact ⟨q', rfl, by omega⟩
        | none =>
          simp only [hl] at hq
          split at hq
          · simp at hq; omega
          · cases hq

theorem maxL_le_iff (l : List Nat) (i : Nat) : maxL l ≤ i ↔ ∀ x ∈ l, x ≤ i := by
  induction l with
  | nil => simp [maxL]
  | cons a r ih => simp [maxL, Nat.max_le, ih]

theorem lt_minL_iff : ∀ (l : List Nat), l ≠ [] → ∀ i, (i < minL l ↔ ∀ x ∈ l, i < x) := by
  intro l
  induction l with
  | nil => intro h; exact absurd rfl h
  | cons a r ih =>
    intro _ i
    cases r with
    | nil => simp [minL]
    | cons b r' =>
      have := ih (by simp) i
      rw [minL]
      · simp only [Nat.lt_min, this, List.mem_cons]
        constructor
        · rintro ⟨h1, h2⟩ x hx
          rcases hx with rfl | hx
          · exact h1
          · exact h2 x hx
        · intro h
          exact ⟨h a (Or.inl rfl), fun x hx => h x (Or.inr hx)⟩
      · simp

/-! ### `find_terminal_gaps` -/

/-- sequence `k` has a symbol in this column -/
def hasSym (k : Nat) (c : Col) : Bool := ((c[k]?).join).isSome

/-- every sequence has had a symbol at or before column `i` -/
def allStarted (n : Nat) (t : Trace) (i : Nat) : Bool := (List.range n).all fun k => (t.take (i + 1)).any (hasSym k)

/-- every sequence still has a symbol at or after column `i` -/
def noneEnded (n : Nat) (t : Trace) (i : Nat) : Bool := (List.range n).all fun k => (t.drop i).any (hasSym k)

theorem nonGapPos_eq (t : Trace) (k : Nat) : nonGapPos t k = posOf (hasSym k) t 0 := by
  unfold nonGapPos posOf
  apply filterMap_congr'
  intro x _
  obtain ⟨c, i⟩ := x
  simp only [hasSym]
  split
  · next v hv => simp [hv]
  · next hno =>
    by_cases hs : ((c[k]?).join).isSome = true
    · obtain ⟨v, hv⟩ := Option.isSome_iff_exists.mp hs
      exact absurd (Option.join_eq_some_iff.mp hv) (hno v)
    · simp [hs]

def firstOf (t : Trace) (k : Nat) : Nat := match nonGapPos t k with | [] => t.length | a :: _ => a
def lastP1Of (t : Trace) (k : Nat) : Nat := match (nonGapPos t k).getLast? with | none => 0 | some a => a + 1

theorem firstOf_spec (t : Trace) (k i : Nat) (hi : i < t.length) :
    ((t.take (i + 1)).any (hasSym k) = true ↔ firstOf t k ≤ i) ∧ firstOf t k ≤ t.length := by
  have hh := posOf_head (hasSym k) t 0
  rw [← nonGapPos_eq] at hh
  rw [any_take_iff]
  unfold firstOf
  cases hn : nonGapPos t k with
  | nil =>
    rw [hn] at hh
    cases hf : firstTrue (hasSym k) t with
    | none => simp; omega
    | some q => simp [hf] at hh
  | cons a r =>
    rw [hn] at hh
    cases hf : firstTrue (hasSym k) t with
    | none => simp [hf] at hh
    | some q =>
      simp [hf] at hh
      subst hh
      have := firstTrue_lt _ _ _ hf
      simp; omega

theorem lastP1Of_spec (t : Trace) (k i : Nat) :
    ((t.drop i).any (hasSym k) = true ↔ i < lastP1Of t k) ∧ lastP1Of t k ≤ t.length := by
  have hh := posOf_last (hasSym k) t 0
  rw [← nonGapPos_eq] at hh
  rw [any_drop_iff]
  unfold lastP1Of
  cases hl : lastTrue (hasSym k) t with
  | none => simp [hl] at hh; simp [hh]
  | some q =>
    simp [hl] at hh
    have := lastTrue_lt _ _ _ hl
    simp [hh]; omega

/-- `find_terminal_gaps` returns the first column at which every sequence has started and one past the last
column at which no sequence has ended (both characterised column by column); it fails only without sequences. -/
theorem findTerminalGaps_spec (n : Nat) (t : Trace) :
    (n = 0 → findTerminalGaps n t = .error .valueError) ∧
    (0 < n → ∃ a b, findTerminalGaps n t = .ok (a, b) ∧ a ≤ t.length ∧ b ≤ t.length ∧
      ∀ i, i < t.length → ((allStarted n t i = true ↔ a ≤ i) ∧ (noneEnded n t i = true ↔ i < b))) := by
  constructor
  · intro h; simp [findTerminalGaps, h]
  · intro hn
    have hne : n ≠ 0 := by omega
    refine ⟨maxL ((List.range n).map (firstOf t)), minL ((List.range n).map (lastP1Of t)), ?_, ?_, ?_, ?_⟩
    · simp only [findTerminalGaps, hne, if_false, List.map_map]; rfl
    · rw [maxL_le_iff]
      intro x hx
      simp only [List.mem_map, List.mem_range] at hx
      obtain ⟨k, _, rfl⟩ := hx
      unfold firstOf
      cases hp : nonGapPos t k with
      | nil => simp
      | cons a r =>
        have hh := posOf_head (hasSym k) t 0
        rw [← nonGapPos_eq, hp] at hh
        cases hf : firstTrue (hasSym k) t with
        | none => simp [hf] at hh
        | some q => simp [hf] at hh; subst hh; have := firstTrue_lt _ _ _ hf; simp; omega
    · have hl : (List.range n).map (lastP1Of t) ≠ [] := by simp; omega
      have := (lt_minL_iff _ hl t.length)
      apply Nat.le_of_not_lt
      intro hlt
      have h0 := this.1 hlt (lastP1Of t 0) (by simp; exact ⟨0, by omega, rfl⟩)
      have := (lastP1Of_spec t 0 0).2
      omega
    · intro i hi
      constructor
      · rw [maxL_le_iff]
        simp only [allStarted, List.all_eq_true, List.mem_range, List.mem_map]
        constructor
        · rintro h x ⟨k, hk, rfl⟩; exact ((firstOf_spec t k i hi).1).1 (h k hk)
        · intro h k hk; exact ((firstOf_spec t k i hi).1).2 (h _ ⟨k, hk, rfl⟩)
      · have hl : (List.range n).map (lastP1Of t) ≠ [] := by simp; omega
        rw [lt_minL_iff _ hl]
        simp only [noneEnded, List.all_eq_true, List.mem_range, List.mem_map]
        constructor
        · rintro h x ⟨k, hk, rfl⟩; exact ((lastP1Of_spec t k i).1).1 (h k hk)
        · intro h k hk; exact ((lastP1Of_spec t k i).1).2 (h _ ⟨k, hk, rfl⟩)

/-! ### `remove_terminal_gaps`, `remove_gaps` -/

theorem sliceCols_get (t : Trace) (a b j : Nat) :
    (sliceCols t a b)[j]? = if a + j < b then t[a + j]? else none := by
  unfold sliceCols
  rw [List.getElem?_drop, List.getElem?_take]

/-- `remove_terminal_gaps` keeps exactly the columns `a ≤ i < b` of `find_terminal_gaps` and refuses iff `b < a` -/
theorem removeTerminalGaps_spec (n : Nat) (t : Trace) (a b : Nat) (h : findTerminalGaps n t = .ok (a, b)) :
    (b < a → removeTerminalGaps n t = .error .valueError) ∧
    (a ≤ b → ∃ t', removeTerminalGaps n t = .ok t' ∧ ∀ j, t'[j]? = if a + j < b then t[a + j]? else none) := by
  constructor
  · intro hlt; simp [removeTerminalGaps, h, bind, Except.bind, hlt]
  · intro hle
    refine ⟨sliceCols t a b, ?_, sliceCols_get t a b⟩
    simp [removeTerminalGaps, h, bind, Except.bind, Nat.not_lt.mpr hle, pure, Except.pure]

/-- `remove_gaps` keeps, in order, exactly the columns without a gap -/
theorem removeGaps_spec (t : Trace) :
    (removeGaps t).Sublist t ∧ ∀ c, c ∈ removeGaps t ↔ c ∈ t ∧ ∀ x ∈ c, x ≠ none := by
  refine ⟨List.filter_sublist, ?_⟩
  intro c
  simp only [removeGaps, List.mem_filter, List.all_eq_true]
  constructor
  · rintro ⟨h1, h2⟩
    exact ⟨h1, fun x hx hn => by have := h2 x hx; subst hn; simp at this⟩
  · rintro ⟨h1, h2⟩
    exact ⟨h1, fun x hx => by cases x with | none => exact absurd rfl (h2 _ hx) | some v => rfl⟩

/-! ### identity -/

/-- all codes of the column are the same symbol (no gap) and there is at least one sequence -/
theorem colMatch_iff (col : List (Option Nat)) : colMatch col = true ↔ col ≠ [] ∧ ∃ a, ∀ x ∈ col, x = some a := by
  cases col with
  | nil => simp [colMatch]
  | cons x r =>
    cases x with
    | none =>
      simp only [colMatch, Bool.false_eq_true, ne_eq, reduceCtorEq, not_false_eq_true, true_and, false_iff]
      rintro ⟨a, h⟩
      have := h none (List.mem_cons_self ..)
      cases this
    | some a =>
      simp only [colMatch, List.all_eq_true, beq_iff_eq, ne_eq, reduceCtorEq, not_false_eq_true, true_and]
      constructor
      · intro h
        exact ⟨a, fun x hx => by rcases List.mem_cons.mp hx with rfl | hx; rfl; exact h x hx⟩
      · rintro ⟨b, h⟩ x hx
        have h1 := h (some a) (List.mem_cons_self ..)
        rw [h x (List.mem_cons_of_mem _ hx), h1]

/-- number of identical columns, column by column -/
def specMatches (seqs : List (List Nat)) (t : Trace) : Nat := (t.filter fun c => colMatch (colCodes seqs c)).length

theorem minL_spec : ∀ (l : List Nat), l ≠ [] → minL l ∈ l ∧ ∀ x ∈ l, minL l ≤ x := by
  intro l hl
  constructor
  · induction l with
    | nil => exact absurd rfl hl
    | cons a r ih =>
      cases r with
      | nil => simp [minL]
      | cons b r' =>
        rw [minL]
        · have := ih (by simp)
          show (min a (minL (b :: r'))) ∈ _
          rw [Nat.min_def]
          split
          · simp
          · exact List.mem_cons_of_mem _ this
        · simp
  · intro x hx
    apply Nat.le_of_not_lt
    intro hlt
    exact absurd ((lt_minL_iff l hl x).1 hlt x hx) (Nat.lt_irrefl _)

/-- `get_sequence_identity` = (identical columns counted column by column) / (length of the mode) -/
theorem identity_spec (seqs : List (List Nat)) (t : Trace) (mode : IdMode) (m len : Nat)
    (h : identity seqs t mode = .ok (m, len)) :
    m = specMatches seqs t ∧ 0 < len ∧
    (match mode with
      | .all => len = t.length
      | .notTerminal => ∃ a b, findTerminalGaps seqs.length t = .ok (a, b) ∧ a < b ∧ len = b - a
      | .shortest => seqs ≠ [] ∧ len = minL (seqs.map List.length)) := by
  unfold identity at h
  simp only [bind, Except.bind] at h
  split at h
  · cases h
  · next codes hc =>
    have hcols := getCodes_cols seqs t codes hc
    rw [hcols, List.filter_map, List.length_map] at h
    cases mode with
    | all =>
      simp only [pure, Except.pure] at h
      split at h
      · cases h
      · next hz => simp at h; exact ⟨h.1.symm, by omega, h.2.symm⟩
    | notTerminal =>
      simp only at h
      split at h
      · cases h
      · next p hp =>
        obtain ⟨a, b⟩ := p
        simp only [pure, Except.pure] at h
        split at h
        · cases h
        · next hab =>
          split at h
          · cases h
          · simp at h; exact ⟨h.1.symm, by omega, a, b, hp, by omega, h.2.symm⟩
    | shortest =>
      simp only at h
      split at h
      · cases h
      · next l hne =>
        simp only [pure, Except.pure] at h
        split at h
        · cases h
        · simp at h
          refine ⟨h.1.symm, by omega, ?_, h.2.symm⟩
          intro hs; subst hs; exact hne rfl

/-! ### symbols: the decode step against the trace -/

/-- `get_symbols`: entry (row `k`, column `c`) is a gap iff the trace entry is a gap, otherwise the symbol
`alphs[k][seqs[k][j]]` for the trace entry `j` — row `k` through its own alphabet -/
theorem getSymbols_spec (alphs : List (List Char)) (seqs : List (List Nat)) (t : Trace) (sy : List (List (Option Char)))
    (h : getSymbols alphs seqs t = .ok sy) :
    All₂ (fun (p : List Char × (List Nat × Nat)) sr => All₂ (fun c s => DecodesTo p.1 (codeOf p.2.1 p.2.2 c) s) t sr)
      (alphs.zip seqs.zipIdx) sy := by
  unfold getSymbols at h
  split at h
  · cases h
  · next codes hc =>
    have h1 := decodeRows_spec alphs codes sy h
    rw [codesFrom_spec t seqs 0 codes hc, List.zip_map_right] at h1
    have h2 := All₂.map_left _ h1
    refine h2.imp_mem ?_
    intro p sr _ hp
    exact All₂.map_left _ hp

/-! ### pairwise identity -/

/-- columns in which rows `i` and `j` carry the same code and no gap, counted column by column -/
def specPairMatches (si sj : List Nat) (i j : Nat) (t : Trace) : Nat :=
  (t.filter fun c => (codeOf si i c).isSome && codeOf si i c == codeOf sj j c).length

theorem pairMatches_rows (f g : Col → Option Nat) (t : Trace) :
    pairMatches (t.map f) (t.map g) = (t.filter fun c => (f c).isSome && f c == g c).length := by
  unfold pairMatches
  have : (t.map f).zip (t.map g) = t.map fun c => (f c, g c) := by
    induction t with
    | nil => rfl
    | cons c t ih => simp [ih]
  rw [this, List.filter_map, List.length_map]
  rfl

/-- `alignment[:, [i, j]]`: the two selected entries of every column -/
theorem selectSeqs_pair (t : Trace) (i j : Nat) (sub : Trace) (h : selectSeqs t [i, j] = .ok sub) :
    sub = t.map fun c => [(c[i]?).join, (c[j]?).join] := by
  unfold selectSeqs at h
  refine all₂_eq_map ((mapE_ok_forall₂ _ _ _ h).imp_mem ?_)
  intro c r _ hr
  simp only [mapE] at hr
  cases hi : c[i]? with
  | none => simp [hi] at hr
  | some x =>
    cases hj : c[j]? with
    | none => simp [hi, hj] at hr
    | some y => simp [hi, hj] at hr; simp [← hr]

theorem pairLen_spec (seqs : List (List Nat)) (t : Trace) (mode : IdMode) (i j len : Nat)
    (h : pairLen seqs t mode i j = .ok len) :
    match mode with
    | .all => len = t.length
    | .notTerminal => ∃ a b, findTerminalGaps 2 (t.map fun c => [(c[i]?).join, (c[j]?).join]) = .ok (a, b) ∧ a < b ∧ len = b - a
    | .shortest => len = Nat.min (seqs.getD i []).length (seqs.getD j []).length := by
  cases mode with
  | all => simp [pairLen] at h; exact h.symm
  | shortest => simp [pairLen] at h; exact h.symm
  | notTerminal =>
    simp only [pairLen] at h
    split at h
    · cases h
    · next sub hsub =>
      rw [selectSeqs_pair t i j sub hsub] at h
      split at h
      · cases h
      · next a b hab =>
        split at h
        · cases h
        · simp at h; exact ⟨a, b, hab, by omega, h.symm⟩

/-- `get_pairwise_sequence_identity`: an `n × n` matrix whose entry `(i, j)` is (columns where rows `i` and `j` carry the same
code and no gap — counted column by column, the length of the mode for the pair) -/
theorem pairIdentity_spec (seqs : List (List Nat)) (t : Trace) (mode : IdMode) (M : List (List (Nat × Nat)))
    (h : pairIdentity seqs t mode = .ok M) :
    M.length = seqs.length ∧ ∀ i j (hi : i < seqs.length) (hj : j < seqs.length),
      ∃ len, pairLen seqs t mode i j = .ok len ∧
        (M[i]?).bind (·[j]?) = some (specPairMatches seqs[i] seqs[j] i j t, len) := by
  unfold pairIdentity at h
  split at h
  · cases h
  · next codes hc =>
    have hcodes := codesFrom_spec t seqs 0 codes hc
    have hn : codes.length = seqs.length := by rw [hcodes]; simp
    have hrow : ∀ i (hi : i < seqs.length), codes.getD i [] = t.map (codeOf seqs[i] i) := by
      intro i hi
      rw [hcodes]
      simp [List.getD, hi]
    have hF := mapE_ok_forall₂ _ _ _ h
    refine ⟨by rw [← hF.length_eq]; simp [hn], ?_⟩
    intro i j hi hj
    obtain ⟨row, hrowi, hR⟩ := hF.get i i (by simp [hn, hi])
    have hG := mapE_ok_forall₂ _ _ _ hR
    obtain ⟨e, hej, hE⟩ := hG.get j j (by simp [hn, hj])
    split at hE
    · cases hE
    · next len hlen =>
      simp at hE
      refine ⟨len, hlen, ?_⟩
      have e1 := hrow i hi
      have e2 := hrow j hj
      rw [List.getD_eq_getElem?_getD] at e1 e2
      rw [hrowi]
      simp only [Option.bind_some, hej, ← hE, e1, e2, pairMatches_rows]
      rfl

/-! ### score -/

def isum : List Int → Int
  | [] => 0
  | a :: r => a + isum r

theorem foldl_isum (l : List Int) : ∀ a : Int, l.foldl (· + ·) a = a + isum l := by
  induction l with
  | nil => intro a; simp [isum]
  | cons x r ih => intro a; rw [List.foldl_cons, ih, isum]; omega

/-- lengths of the maximal gap runs of a row (`cur` = length of the run already open on the left) -/
def gapRunsAux {α : Type} : Nat → List (Option α) → List Nat
  | cur, [] => if cur = 0 then [] else [cur]
  | cur, none :: r => gapRunsAux (cur + 1) r
  | cur, some _ :: r => (if cur = 0 then [] else [cur]) ++ gapRunsAux 0 r

def gapRuns {α : Type} (row : List (Option α)) : List Nat := gapRunsAux 0 row

/-- affine cost of a gap run of length `L`: opening + (L − 1) extensions -/
def runCost (go ge : Int) : Nat → Int
  | 0 => 0
  | L + 1 => go + (L : Int) * ge

theorem runCost_succ (go ge : Int) (cur : Nat) :
    (if cur ≠ 0 then ge else go) + runCost go ge cur = runCost go ge (cur + 1) := by
  cases cur with
  | zero => simp [runCost]
  | succ c =>
    simp only [runCost, ne_eq, Nat.add_one_ne_zero, not_false_eq_true, if_true]
    rw [Int.natCast_add, Int.add_mul]
    simp
    omega

theorem gapScore_runs (go ge : Int) : ∀ (row : List (Option Nat)) (cur : Nat),
    gapScore go ge (decide (cur ≠ 0)) row + runCost go ge cur = isum ((gapRunsAux cur row).map (runCost go ge)) := by
  intro row
  induction row with
  | nil =>
    intro cur
    by_cases h : cur = 0
    · simp [gapScore, gapRunsAux, h, runCost, isum]
    · simp [gapScore, gapRunsAux, h, isum]
  | cons x r ih =>
    intro cur
    cases x with
    | none =>
      rw [gapRunsAux, ← ih (cur + 1), ← runCost_succ]
      by_cases h : cur = 0
      · simp [gapScore, h]; omega
      · simp [gapScore, h]; omega
    | some v =>
      rw [gapRunsAux]
      have := ih 0
      simp only [ne_eq, not_true_eq_false, decide_false, runCost, Int.add_zero] at this
      by_cases h : cur = 0
      · simp [gapScore, h, runCost, this]
      · simp [gapScore, h, isum, this]; omega

/-- the gap penalty of one row is the sum of the affine costs of its maximal gap runs -/
theorem gapScore_eq_runs (go ge : Int) (row : List (Option Nat)) :
    gapScore go ge false row = isum ((gapRuns row).map (runCost go ge)) := by
  have := gapScore_runs go ge row 0
  simpa [runCost, gapRuns] using this

/-- `score`: similarity summed column by column over all unordered non-gap pairs, plus, per sequence, the affine
cost of every maximal gap run between the bounds `a ≤ i < b` (whole alignment with terminal penalty, the
`find_terminal_gaps` bounds without) -/
theorem score_spec (M : List (List Int)) (go ge : Int) (terminal : Bool) (seqs : List (List Nat)) (t : Trace) (v : Int)
    (h : score M go ge terminal seqs t = .ok v) :
    ∃ sims a b, mapE (colPairScore M) (t.map (colCodes seqs)) = .ok sims ∧
      (terminal = true → a = 0 ∧ b = t.length) ∧
      (terminal = false → seqs ≠ [] → findTerminalGaps seqs.length t = .ok (a, b)) ∧
      v = isum sims + isum ((seqs.zipIdx).map fun p =>
            isum ((gapRuns ((sliceCols t a b).map (codeOf p.1 p.2))).map (runCost go ge))) := by
  unfold score at h
  simp only [bind, Except.bind] at h
  split at h
  · cases h
  · next codes hc =>
    have hcodes := codesFrom_spec t seqs 0 codes hc
    rw [getCodes_cols seqs t codes hc] at h
    split at h
    · cases h
    · next sims hs =>
      have key : ∀ a b : Nat,
          List.foldl (fun x1 x2 => x1 + x2) 0 sims + List.foldl (fun x1 x2 => x1 + x2) 0
            (List.map (fun row => gapScore go ge false (List.drop a (List.take b row))) codes) =
          isum sims + isum ((seqs.zipIdx).map fun p =>
            isum ((gapRuns ((sliceCols t a b).map (codeOf p.1 p.2))).map (runCost go ge))) := by
        intro a b
        rw [foldl_isum, foldl_isum, hcodes]
        simp only [Int.zero_add, List.map_map]
        congr 2
        apply List.map_congr_left
        intro q _
        simp only [Function.comp_def, gapScore_eq_runs, sliceCols, List.map_drop, List.map_take]
      cases terminal with
      | true =>
        simp only [if_true, pure, Except.pure, Except.ok.injEq] at h
        exact ⟨sims, 0, t.length, hs, fun _ => ⟨rfl, rfl⟩, (fun ht => by cases ht), by rw [← h, key]⟩
      | false =>
        simp only [Bool.false_eq_true, if_false] at h
        by_cases hemp : codes.isEmpty = true
        · simp only [hemp, if_true, pure, Except.pure, Except.ok.injEq] at h
          have hseq : seqs = [] := by
            cases seqs with
            | nil => rfl
            | cons s0 ss => rw [hcodes] at hemp; simp [List.zipIdx_cons] at hemp
          exact ⟨sims, 0, 0, hs, (fun ht => by cases ht), fun _ hne => absurd hseq hne, by rw [← h, key]⟩
        · simp only [hemp, if_false, Bool.false_eq_true] at h
          split at h
          · cases h
          · next p hp =>
            obtain ⟨a, b⟩ := p
            simp only [pure, Except.pure, Except.ok.injEq] at h
            exact ⟨sims, a, b, hs, (fun ht => by cases ht), fun _ _ => hp, by rw [← h, key]⟩

end BiotiteModel.C11

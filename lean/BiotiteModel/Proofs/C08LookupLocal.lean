import BiotiteModel.Proofs.C08Lookup
import BiotiteModel.Proofs.C08Local
/-! Trace lists over a table lookup = over the recurrence. -/
namespace BiotiteModel.C08


theorem flatMap_congr' {α β : Type} (l : List α) (f g : α → List β) (h : ∀ x ∈ l, f x = g x) :
    l.flatMap f = l.flatMap g := by
  induction l with
  | nil => rfl
  | cons x r ih =>
    simp only [List.flatMap_cons, h x List.mem_cons_self, ih (fun y hy => h y (List.mem_cons_of_mem _ hy))]

theorem cells_mem (n m : Nat) (p : Nat × Nat)
    (h : p ∈ (List.range (n + 1)).flatMap fun i => (List.range (m + 1)).map fun j => (i, j)) :
    p.1 ≤ n ∧ p.2 ≤ m := by
  obtain ⟨i, hi, hx⟩ := List.mem_flatMap.mp h
  obtain ⟨j, hj, rfl⟩ := List.mem_map.mp hx
  have := List.mem_range.mp hi
  have := List.mem_range.mp hj
  simp; omega

theorem localStarts_congr (V V' : Nat → Nat → Int) (n m : Nat) (h : ∀ i j, i ≤ n → j ≤ m → V i j = V' i j) :
    localStarts V n m = localStarts V' n m := by
  unfold localStarts
  have hm : ((List.range (n + 1)).flatMap fun i => (List.range (m + 1)).map fun j => (i, j)).map
      (fun p => V p.1 p.2) = ((List.range (n + 1)).flatMap fun i => (List.range (m + 1)).map fun j => (i, j)).map
      (fun p => V' p.1 p.2) :=
    List.map_congr_left (fun p hp => by obtain ⟨h1, h2⟩ := cells_mem n m p hp; exact h _ _ h1 h2)
  simp only [hm]
  apply List.filter_congr
  intro p hp
  obtain ⟨h1, h2⟩ := cells_mem n m p hp
  rw [h _ _ h1 h2]

theorem tracesLin_lookup (mode : Mode) (M : Mat) (g : Int) (a b : Seq) (mx : Nat) :
    tracesLin mode M g a b (tableLookup (fillLin mode M g a b)) mx =
      tracesLin mode M g a b (linRec mode M g a b).val mx := by
  unfold tracesLin
  rw [followLin_congr _ (traceDirs mode M g a b (linRec mode M g a b).val)]
  intro q h1 h2
  exact traceDirs_congr mode M g a b _ _ q (fun i j hi hj => tableLookup_fill mode M g a b i j
    (by simp at h1; omega) (by simp at h2; omega))

theorem tracesLocalLin_lookup (M : Mat) (g : Int) (a b : Seq) (mx : Nat) :
    tracesLocalLin M g a b (tableLookup (fillLin .local M g a b)) mx =
      tracesLocalLin M g a b (linRec .local M g a b).val mx := by
  unfold tracesLocalLin
  rw [localStarts_congr _ (linRec .local M g a b).val _ _ (fun i j hi hj => tableLookup_fill .local M g a b i j hi hj)]
  congr 1
  apply flatMap_congr'
  intro p hp
  obtain ⟨hi, hj, _⟩ := localStarts_mem _ _ _ p hp
  rw [followLin_congr _ (traceDirs .local M g a b (linRec .local M g a b).val)]
  intro q h1 h2
  exact traceDirs_congr .local M g a b _ _ q (fun i j hi' hj' => tableLookup_fill .local M g a b i j
    (by omega) (by omega))


end BiotiteModel.C08

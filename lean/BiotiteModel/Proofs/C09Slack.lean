import BiotiteModel.Proofs.C09Region
/-! An explicit slack bound that makes the X-drop threshold non-binding. -/
namespace BiotiteModel.C09
open BiotiteModel BiotiteModel.C08

theorem gapRun_eq_mul (c : Int) (k : Nat) : gapRun c k = (k : Int) * c := by
  induction k with
  | zero => simp [gapRun]
  | succ k ih => rw [gapRun_succ, ih]; simp [Int.add_mul]

theorem gapRun_nonneg (c : Int) (hc : 0 ≤ c) (k : Nat) : 0 ≤ gapRun c k := by
  induction k with
  | zero => simp [gapRun]
  | succ k ih => rw [gapRun_succ]; omega

theorem gapRun_mono (c : Int) (hc : 0 ≤ c) (k : Nat) : ∀ k', k ≤ k' → gapRun c k ≤ gapRun c k' := by
  intro k' h
  induction k' with
  | zero => have : k = 0 := by omega
            subst this; exact Int.le_refl _
  | succ n ih =>
    by_cases hk : k ≤ n
    · have := ih hk; rw [gapRun_succ]; omega
    · have : k = n + 1 := by omega
      subst this; exact Int.le_refl _

theorem gapRun_abs (g c : Int) (h1 : -c ≤ g) (h2 : g ≤ c) (k : Nat) :
    -gapRun c k ≤ gapRun g k ∧ gapRun g k ≤ gapRun c k := by
  induction k with
  | zero => simp [gapRun]
  | succ k ih => rw [gapRun_succ, gapRun_succ]; omega

variable (M : Mat) (g : Int) (x y : Seq)

/-- `|V i j| ≤ (i + j) · c` when all substitution scores and the gap penalty are bounded by `c` in magnitude -/
theorem Vv_bound (c : Int) (hM : ∀ p q, -c ≤ M p q ∧ M p q ≤ c) (h1 : -c ≤ g) (h2 : g ≤ c) :
    ∀ i j, -gapRun c (i + j) ≤ Vv M g x y i j ∧ Vv M g x y i j ≤ gapRun c (i + j) := by
  have hc : 0 ≤ c := by have := hM 0 0; omega
  intro i
  induction i with
  | zero => intro j; rw [Vv_0j, Nat.zero_add]; exact gapRun_abs g c h1 h2 j
  | succ i ih =>
    intro j
    induction j with
    | zero => rw [Vv_i0, Nat.add_zero]; exact gapRun_abs g c h1 h2 (i + 1)
    | succ j ihj =>
      rw [Vv_succ]
      have a1 := ih j
      have a2 := ih (j + 1)
      have a3 := ihj
      have hs := hM (x.getD i 0) (y.getD j 0)
      have e1 : i + 1 + (j + 1) = (i + j) + 1 + 1 := by omega
      have e2 : i + (j + 1) = (i + j) + 1 := by omega
      have e3 : i + 1 + j = (i + j) + 1 := by omega
      rw [e1, gapRun_succ, gapRun_succ]
      rw [e2, gapRun_succ] at a2
      rw [e3, gapRun_succ] at a3
      simp only [max3, sub]
      omega

/-- explicit slack: threshold ≥ 2·(n+m)·c ⇒ the drop-off cannot bind -/
theorem noBind_of_bound (thr : Int) (io : Nat) (hio : 1 ≤ io) (c : Int)
    (hM : ∀ p q, -c ≤ M p q ∧ M p q ≤ c) (h1 : -c ≤ g) (h2 : g ≤ c)
    (hthr : 2 * ((x.length + y.length : Nat) : Int) * c ≤ thr) :
    NoBind M g thr io x y (gapRun c (x.length + y.length)) := by
  have hc : 0 ≤ c := by have := hM 0 0; omega
  have hN := gapRun_eq_mul c (x.length + y.length)
  refine ⟨hio, ?_, ?_⟩
  · intro i j hi hj
    have := (Vv_bound M g x y c hM h1 h2 i j).2
    have := gapRun_mono c hc (i + j) (x.length + y.length) (by omega)
    omega
  · intro i j hi hj
    have := (Vv_bound M g x y c hM h1 h2 i j).1
    have := gapRun_mono c hc (i + j) (x.length + y.length) (by omega)
    have e : 2 * ((x.length + y.length : Nat) : Int) * c = gapRun c (x.length + y.length) + gapRun c (x.length + y.length) := by
      rw [hN, Int.mul_assoc, Int.two_mul]
    omega

end BiotiteModel.C09

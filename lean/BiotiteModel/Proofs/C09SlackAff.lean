import BiotiteModel.Proofs.C09RegionAff
import BiotiteModel.Proofs.C09Slack
/-! Explicit slack bound for the affine X-drop region. -/
namespace BiotiteModel.C09
open BiotiteModel BiotiteModel.C08

def obnd (o : Option Int) (B : Int) : Prop := ∀ w, o = some w → -B ≤ w ∧ w ≤ B

theorem obnd_none (B : Int) : obnd none B := by intro w h; cases h

theorem obnd_oadd {o : Option Int} {B c s : Int} (h : obnd o B) (h1 : -c ≤ s) (h2 : s ≤ c) : obnd (oadd o s) (B + c) := by
  cases o with
  | none => exact obnd_none _
  | some v =>
    intro w hw
    simp only [oadd, Option.some.injEq] at hw
    have := h v rfl
    omega

theorem obnd_omax {x y : Option Int} {B : Int} (h1 : obnd x B) (h2 : obnd y B) : obnd (omax x y) B := by
  cases x <;> cases y <;> simp only [omax] <;> first | exact obnd_none _ | exact h1 | exact h2 | skip
  rename_i u v
  intro w hw
  simp only [Option.some.injEq] at hw
  have := h1 u rfl; have := h2 v rfl
  omega

variable (M : Mat) (go ge : Int) (x y : Seq)

theorem Wv_bound (c : Int) (hM : ∀ p q, -c ≤ M p q ∧ M p q ≤ c) (ho1 : -c ≤ go) (ho2 : go ≤ c)
    (he1 : -c ≤ ge) (he2 : ge ≤ c) : ∀ i j,
    obnd (Wv M go ge x y i j).m (gapRun c (i + j)) ∧ obnd (Wv M go ge x y i j).g1 (gapRun c (i + j)) ∧
      obnd (Wv M go ge x y i j).g2 (gapRun c (i + j)) := by
  have hc : 0 ≤ c := by have := hM 0 0; omega
  have hborder : ∀ k w, w = go + gapRun ge k → -gapRun c (k + 1) ≤ w ∧ w ≤ gapRun c (k + 1) := by
    intro k w hw
    have := gapRun_abs ge c he1 he2 k
    rw [gapRun_succ]; omega
  intro i
  induction i with
  | zero =>
    intro j
    cases j with
    | zero =>
      rw [Wv_00]
      refine ⟨?_, obnd_none _, obnd_none _⟩
      intro w hw; simp only [Option.some.injEq] at hw; simp [gapRun]; omega
    | succ j =>
      rw [Wv_0j, Nat.zero_add]
      refine ⟨obnd_none _, ?_, obnd_none _⟩
      intro w hw; simp only [Option.some.injEq] at hw
      exact hborder j w hw.symm
  | succ i ih =>
    intro j
    induction j with
    | zero =>
      rw [Wv_i0, Nat.add_zero]
      refine ⟨obnd_none _, obnd_none _, ?_⟩
      intro w hw; simp only [Option.some.injEq] at hw
      exact hborder i w hw.symm
    | succ j ihj =>
      rw [Wv_succ]
      obtain ⟨d1, d2, d3⟩ := ih j
      obtain ⟨l1, l2, _⟩ := ihj
      obtain ⟨t1, _, t3⟩ := ih (j + 1)
      have hs := hM (x.getD i 0) (y.getD j 0)
      have e1 : i + 1 + (j + 1) = (i + j) + 1 + 1 := by omega
      have e2 : i + (j + 1) = (i + j) + 1 := by omega
      have e3 : i + 1 + j = (i + j) + 1 := by omega
      rw [e3] at l1 l2
      rw [e2] at t1 t3
      rw [e1, gapRun_succ]
      have hg0 : 0 ≤ gapRun c (i + j) := gapRun_nonneg c hc _
      have mono : ∀ {o : Option Int}, obnd o (gapRun c (i + j) + c) → obnd o (gapRun c (i + j + 1) + c) := by
        intro o h w hw; have := h w hw; rw [gapRun_succ]; omega
      refine ⟨?_, ?_, ?_⟩
      · exact obnd_omax (mono (obnd_oadd d1 hs.1 hs.2))
          (obnd_omax (mono (obnd_oadd d2 hs.1 hs.2)) (mono (obnd_oadd d3 hs.1 hs.2)))
      · exact obnd_omax (obnd_oadd l1 ho1 ho2) (obnd_oadd l2 he1 he2)
      · exact obnd_omax (obnd_oadd t1 ho1 ho2) (obnd_oadd t3 he1 he2)

/-- explicit slack, affine: `|M|, |open|, |ext| ≤ c`, penalties negative and `threshold ≥ 2·(n+m)·c` ⇒ cannot bind -/
theorem noBindA_of_bound (thr : Int) (io : Nat) (hio : 1 ≤ io) (c : Int)
    (hM : ∀ p q, -c ≤ M p q ∧ M p q ≤ c) (ho1 : -c ≤ go) (ho2 : go < 0) (he1 : -c ≤ ge) (he2 : ge < 0)
    (hthr : 2 * ((x.length + y.length : Nat) : Int) * c ≤ thr) :
    NoBindA M go ge thr io x y (gapRun c (x.length + y.length)) := by
  have hc : 0 ≤ c := by have := hM 0 0; omega
  have hN := gapRun_eq_mul c (x.length + y.length)
  have e : 2 * ((x.length + y.length : Nat) : Int) * c = gapRun c (x.length + y.length) + gapRun c (x.length + y.length) := by
    rw [hN, Int.mul_assoc, Int.two_mul]
  refine ⟨hio, ho2, he2, ?_⟩
  intro i j hi hj w hw
  obtain ⟨b1, b2, b3⟩ := Wv_bound M go ge x y c hM ho1 (by omega) he1 (by omega) i j
  have hmono := gapRun_mono c hc (i + j) (x.length + y.length) (by omega)
  rcases hw with h | h | h
  · have := b1 w h; omega
  · have := b2 w h; omega
  · have := b3 w h; omega

end BiotiteModel.C09

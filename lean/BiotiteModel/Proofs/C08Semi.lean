import BiotiteModel.Proofs.C08AffOpt
/-!
`align.score(…, terminal_penalty=False)` (slice between `find_terminal_gaps` indices) equals the positional
form (a gap is free iff the gapped sequence has not started or is exhausted).
-/
namespace BiotiteModel.C08

def cnt (has : Col → Bool) : Aln → Nat
  | [] => 0
  | c :: r => (if has c then 1 else 0) + cnt has r

/-- `gapCost` restricted to the indices selected by `inS` (the `in_gap` flag restarts at the slice start) -/
def gapCostM (go ge : Int) (has : Col → Bool) : (Nat → Bool) → Bool → Aln → Int
  | _, _, [] => 0
  | inS, g, c :: r =>
    if inS 0 then
      (if has c then gapCostM go ge has (fun t => inS (t + 1)) false r
       else (if g then ge else go) + gapCostM go ge has (fun t => inS (t + 1)) true r)
    else gapCostM go ge has (fun t => inS (t + 1)) false r

/-- positional gap cost of one sequence: `c` symbols consumed so far out of `N`; free when `c = 0 ∨ c = N` -/
def posGap (go ge : Int) (has : Col → Bool) (N : Nat) : Nat → Bool → Aln → Int
  | _, _, [] => 0
  | c, g, x :: r =>
    if has x then posGap go ge has N (c + 1) false r
    else (if c = 0 ∨ c = N then 0 else if g then ge else go) + posGap go ge has N c true r

theorem gapCostM_false (go ge : Int) (has : Col → Bool) (inS : Nat → Bool) (h : ∀ t, inS t = false) (g : Bool)
    (l : Aln) : gapCostM go ge has inS g l = 0 := by
  induction l generalizing inS g with
  | nil => rfl
  | cons c r ih => simp only [gapCostM, h, Bool.false_eq_true, if_false]; exact ih _ (fun _ => rfl) _

theorem gapCost_take (go ge : Int) (has : Col → Bool) (e : Nat) (g : Bool) (l : Aln) :
    gapCost go ge has g (l.take e) = gapCostM go ge has (fun t => decide (t < e)) g l := by
  induction l generalizing e g with
  | nil => simp [gapCost, gapCostM]
  | cons c r ih =>
    cases e with
    | zero =>
      simp only [List.take_zero, gapCost]
      exact (gapCostM_false go ge has _ (by simp) g _).symm
    | succ e =>
      simp only [List.take_succ_cons, gapCost, gapCostM]
      simp only [Nat.zero_lt_succ, decide_true, if_true, Nat.add_lt_add_iff_right, ih]

theorem gapCost_slice (go ge : Int) (has : Col → Bool) (s e : Nat) (l : Aln) :
    gapCost go ge has false ((l.drop s).take (e - s)) =
      gapCostM go ge has (fun t => decide (s ≤ t ∧ t < e)) false l := by
  induction l generalizing s e with
  | nil => simp [gapCost, gapCostM]
  | cons c r ih =>
    cases s with
    | zero =>
      simp only [List.drop_zero, Nat.sub_zero, gapCost_take]
      congr 1; funext t; simp
    | succ s =>
      simp only [List.drop_succ_cons, gapCostM]
      have h0 : decide (s + 1 ≤ 0 ∧ 0 < e) = false := by simp
      rw [h0]
      simp only [Bool.false_eq_true, if_false]
      have : e - (s + 1) = (e - 1) - s := by omega
      rw [this, ih]
      congr 1; funext t
      apply decide_eq_decide.mpr
      omega

/-- the masked public cost equals the positional cost when the mask is "the sequence has started and not ended"
on the gap columns -/
theorem gapCostM_eq_posGap (go ge : Int) (has : Col → Bool) (N : Nat) (l : Aln) :
    ∀ (inS : Nat → Bool) (c : Nat) (g g' : Bool),
      (∀ t x, l[t]? = some x → has x = false →
        (inS t = true ↔ (0 < c + cnt has (l.take t) ∧ c + cnt has (l.take t) < N))) →
      ((c ≠ 0 ∧ c ≠ N) → g = g') → c + cnt has l = N →
      gapCostM go ge has inS g l = posGap go ge has N c g' l := by
  induction l with
  | nil => intros; rfl
  | cons x r ih =>
    intro inS c g g' H hg hN
    simp only [cnt] at hN
    have Hr : ∀ c', c' = c + (if has x then 1 else 0) → ∀ t y, r[t]? = some y → has y = false →
        ((fun t => inS (t + 1)) t = true ↔ (0 < c' + cnt has (r.take t) ∧ c' + cnt has (r.take t) < N)) := by
      intro c' hc' t y hy hh
      have := H (t + 1) y (by simpa using hy) hh
      simp only [List.take_succ_cons, cnt] at this
      rw [this, hc']; omega
    by_cases hx : has x = true
    · -- a symbol: both sides restart with flag false
      simp only [gapCostM, posGap, hx, if_true]
      have e := ih (fun t => inS (t + 1)) (c + 1) false false (Hr (c + 1) (by simp [hx])) (fun _ => rfl)
        (by simp [hx] at hN; omega)
      split <;> exact e
    · have hx' : has x = false := by simpa using hx
      have h0 := H 0 x rfl hx'
      simp only [List.take_zero, cnt, Nat.add_zero] at h0
      simp only [gapCostM, posGap, hx', Bool.false_eq_true, if_false]
      by_cases hin : inS 0 = true
      · have hc := h0.mp hin
        have hne : ¬(c = 0 ∨ c = N) := by omega
        have hgg : g = g' := hg ⟨by omega, by omega⟩
        simp only [hin, if_true, hne, if_false, hgg]
        rw [ih (fun t => inS (t + 1)) c true true (Hr c (by simp [hx'])) (fun _ => rfl) (by simp [hx'] at hN; omega)]
      · have hc : c = 0 ∨ c = N := by
          have := mt h0.mpr hin; omega
        simp only [hin, Bool.false_eq_true, if_false, hc, if_true, Int.zero_add]
        exact ih (fun t => inS (t + 1)) c false true (Hr c (by simp [hx'])) (fun h => absurd hc (by omega))
          (by simp [hx'] at hN; omega)


theorem cnt_take_le (has : Col → Bool) (l : Aln) (t : Nat) : cnt has (l.take t) ≤ cnt has l := by
  induction l generalizing t with
  | nil => simp [cnt]
  | cons c r ih =>
    cases t with
    | zero => simp [cnt]
    | succ t => simp only [List.take_succ_cons, cnt]; have := ih t; omega

theorem cnt_take_succ (has : Col → Bool) (l : Aln) (t : Nat) (x : Col) (h : l[t]? = some x) :
    cnt has (l.take (t + 1)) = cnt has (l.take t) + (if has x then 1 else 0) := by
  induction l generalizing t with
  | nil => simp at h
  | cons c r ih =>
    cases t with
    | zero => simp at h; subst h; simp [cnt]
    | succ t =>
      have := ih t (by simpa using h)
      simp only [List.take_succ_cons, cnt, this]; omega

theorem firstIdx_none (has : Col → Bool) (l : Aln) (h : firstIdx has l = none) : cnt has l = 0 := by
  induction l with
  | nil => rfl
  | cons c r ih =>
    simp only [firstIdx] at h
    split at h
    · simp at h
    · rename_i hc
      simp only [Option.map_eq_none_iff] at h
      simp [cnt, hc, ih h]

theorem firstIdx_some (has : Col → Bool) (l : Aln) (f : Nat) (h : firstIdx has l = some f) (t : Nat) :
    f < t ↔ 0 < cnt has (l.take t) := by
  induction l generalizing f t with
  | nil => simp [firstIdx] at h
  | cons c r ih =>
    simp only [firstIdx] at h
    split at h
    · rename_i hc
      simp at h; subst h
      cases t with
      | zero => simp [cnt]
      | succ t => simp [cnt, hc]; omega
    · rename_i hc
      simp only [Option.map_eq_some_iff] at h
      obtain ⟨f', hf', rfl⟩ := h
      cases t with
      | zero => simp [cnt]
      | succ t =>
        have := ih f' hf' t
        simp only [List.take_succ_cons, cnt, hc]
        simp at this ⊢; omega

theorem lastIdx_none (has : Col → Bool) (l : Aln) (h : lastIdx has l = none) : cnt has l = 0 := by
  induction l with
  | nil => rfl
  | cons c r ih =>
    simp only [lastIdx] at h
    split at h
    · simp at h
    · rename_i hr
      split at h
      · simp at h
      · rename_i hc
        simp [cnt, hc, ih hr]

theorem lastIdx_pos (has : Col → Bool) (l : Aln) (k : Nat) (h : lastIdx has l = some k) : 0 < cnt has l := by
  induction l generalizing k with
  | nil => simp [lastIdx] at h
  | cons c r ih =>
    simp only [lastIdx] at h
    split at h
    · rename_i k' hr; have := ih k' hr; simp only [cnt]; omega
    · split at h
      · rename_i hc; simp [cnt, hc]; omega
      · simp at h

theorem lastIdx_some (has : Col → Bool) (l : Aln) (la : Nat) (h : lastIdx has l = some la) (t : Nat) :
    t ≤ la ↔ cnt has (l.take t) < cnt has l := by
  induction l generalizing la t with
  | nil => simp [lastIdx] at h
  | cons c r ih =>
    simp only [lastIdx] at h
    split at h
    · rename_i k hr
      simp at h; subst h
      cases t with
      | zero =>
        have := lastIdx_pos has r k hr
        simp [cnt]; omega
      | succ t =>
        have := ih k hr t
        simp only [List.take_succ_cons, cnt]; omega
    · rename_i hr
      split at h
      · rename_i hc
        simp at h; subst h
        have h0 := lastIdx_none has r hr
        cases t with
        | zero => simp [cnt, hc]; omega
        | succ t =>
          have := cnt_take_le has r t
          simp only [List.take_succ_cons, cnt, hc]; simp; omega
      · simp at h

def stopOf (x y : Option Nat) : Nat :=
  match x, y with
  | some p, some q => min p q + 1
  | _, _ => 0

theorem stopOf_comm (x y : Option Nat) : stopOf x y = stopOf y x := by
  cases x <;> cases y <;> simp [stopOf, Nat.min_comm]

/-- the `find_terminal_gaps` slice, on gap columns of X, is "X has started and not ended" -/
theorem slice_char (hX hY : Col → Bool) (hxy : ∀ c, hX c = false → hY c = true) (l : Aln) (t : Nat) (x : Col)
    (hx : l[t]? = some x) (hg : hX x = false) :
    (max ((firstIdx hX l).getD l.length) ((firstIdx hY l).getD l.length) ≤ t ∧
      t < stopOf (lastIdx hX l) (lastIdx hY l)) ↔
    (0 < cnt hX (l.take t) ∧ cnt hX (l.take t) < cnt hX l) := by
  have hy := hxy x hg
  have hlen : t < l.length := by
    have := List.getElem?_eq_some_iff.mp hx; exact this.1
  have cX := cnt_take_succ hX l t x hx
  have cY := cnt_take_succ hY l t x hx
  simp only [hg, hy, Bool.false_eq_true, if_false, if_true] at cX cY
  have leY := cnt_take_le hY l (t + 1)
  have leX := cnt_take_le hX l t
  -- the Y side never restricts
  have hfY : (firstIdx hY l).getD l.length ≤ t := by
    cases hf : firstIdx hY l with
    | none => have := firstIdx_none hY l hf; omega
    | some f => have := firstIdx_some hY l f hf (t + 1); simp; omega
  cases hlY : lastIdx hY l with
  | none => have := lastIdx_none hY l hlY; omega
  | some q =>
    have hq : t ≤ q := by have := lastIdx_some hY l q hlY t; omega
    cases hlX : lastIdx hX l with
    | none =>
      have := lastIdx_none hX l hlX
      simp [stopOf]; omega
    | some p =>
      have hp := lastIdx_some hX l p hlX t
      cases hfX : firstIdx hX l with
      | none =>
        have := firstIdx_none hX l hfX
        simp [stopOf]; omega
      | some f =>
        have hf := firstIdx_some hX l f hfX (t + 1)
        simp only [Option.getD_some, stopOf] at hfY ⊢
        omega



theorem hasA_or_hasB (c : Col) : c.hasA = false → c.hasB = true := by cases c <;> simp [Col.hasA, Col.hasB]
theorem hasB_or_hasA (c : Col) : c.hasB = false → c.hasA = true := by cases c <;> simp [Col.hasA, Col.hasB]

theorem walk_cnt (aln : Aln) : ∀ (p q : Nat × Nat), walk p aln = some q →
    q.1 = p.1 + cnt Col.hasA aln ∧ q.2 = p.2 + cnt Col.hasB aln := by
  induction aln with
  | nil => intro p q h; simp [walk] at h; subst h; simp [cnt]
  | cons c r ih =>
    intro p q h
    obtain ⟨_, h2⟩ := walk_cons_some h
    have := ih _ _ h2
    obtain ⟨i, j⟩ := p
    cases c <;> simp [adv, cnt, Col.hasA, Col.hasB] at this ⊢ <;> omega

/-- the positional state-machine score splits into similarity + the positional gap cost of each sequence -/
theorem scorePosK_semi_split (M : Mat) (go ge : Int) (a b : Seq) (aln : Aln) : ∀ (i j : Nat) (k : Kind),
    scorePosK (costAffK .semi M go ge a b) (i, j) k aln =
      subSum M a b aln + posGap go ge Col.hasA a.length i (decide (k = .ga)) aln
        + posGap go ge Col.hasB b.length j (decide (k = .gb)) aln := by
  induction aln with
  | nil => intros; simp [scorePosK, subSum, posGap]
  | cons c r ih =>
    intro i j k
    cases c with
    | both i' j' =>
      simp [scorePosK, subSum, posGap, costAffK, adv, Col.kind, Col.hasA, Col.hasB, ih]; omega
    | gapA j' =>
      simp [scorePosK, subSum, posGap, costAffK, adv, Col.kind, Col.hasA, Col.hasB, ih]; omega
    | gapB i' =>
      simp [scorePosK, subSum, posGap, costAffK, adv, Col.kind, Col.hasA, Col.hasB, ih]; omega

def pubStart (aln : Aln) : Nat :=
  max ((firstIdx Col.hasA aln).getD aln.length) ((firstIdx Col.hasB aln).getD aln.length)
def pubStop (aln : Aln) : Nat := stopOf (lastIdx Col.hasA aln) (lastIdx Col.hasB aln)

theorem scorePub_false_eq (M : Mat) (go ge : Int) (a b : Seq) (aln : Aln) :
    scorePub M go ge false a b aln = subSum M a b aln
      + gapCost go ge Col.hasA false ((aln.drop (pubStart aln)).take (pubStop aln - pubStart aln))
      + gapCost go ge Col.hasB false ((aln.drop (pubStart aln)).take (pubStop aln - pubStart aln)) := by
  simp only [scorePub, Bool.false_eq_true, if_false, pubStart, pubStop, stopOf]
  cases lastIdx Col.hasA aln <;> cases lastIdx Col.hasB aln <;> rfl

/-- `align.score(…, terminal_penalty=False)` = the positional state-machine form, for every end-to-end alignment. -/
theorem scorePub_semi_aff (M : Mat) (go ge : Int) (a b : Seq) (aln : Aln) (h : ValidGlobal a b aln) :
    scorePub M go ge false a b aln = scoreAffSemiPos M go ge a b (0, 0) .m aln := by
  obtain ⟨hA, hB⟩ := walk_cnt aln _ _ h
  simp only [Nat.zero_add] at hA hB
  unfold scoreAffSemiPos
  rw [scorePosK_semi_split, scorePub_false_eq, gapCost_slice, gapCost_slice]
  have eA := gapCostM_eq_posGap go ge Col.hasA a.length aln
    (fun t => decide (pubStart aln ≤ t ∧ t < pubStop aln)) 0 false false
    (fun t x hx hg => by
      have := slice_char Col.hasA Col.hasB hasA_or_hasB aln t x hx hg
      simp only [decide_eq_true_eq, Nat.zero_add, hA]
      exact this)
    (fun _ => rfl) (by omega)
  have eB := gapCostM_eq_posGap go ge Col.hasB b.length aln
    (fun t => decide (pubStart aln ≤ t ∧ t < pubStop aln)) 0 false false
    (fun t x hx hg => by
      have := slice_char Col.hasB Col.hasA hasB_or_hasA aln t x hx hg
      rw [Nat.max_comm, stopOf_comm] at this
      simp only [decide_eq_true_eq, Nat.zero_add, hB]
      exact this)
    (fun _ => rfl) (by omega)
  rw [eA, eB]
  simp

theorem scoreSemiPos_eq_aff (M : Mat) (g : Int) (a b : Seq) (aln : Aln) : ∀ (p : Nat × Nat) (k : Kind),
    scoreSemiPos M g a b p aln = scoreAffSemiPos M g g a b p k aln := by
  unfold scoreAffSemiPos
  induction aln with
  | nil => intro p k; obtain ⟨i, j⟩ := p; rfl
  | cons c r ih =>
    intro p k
    obtain ⟨i, j⟩ := p
    cases c <;> simp [scoreSemiPos, scorePosK, costAffK, adv, ← ih]

/-- linear: the public score with free terminal gaps is the positional form the optimality theorems use. -/
theorem scorePub_semi (M : Mat) (g : Int) (a b : Seq) (aln : Aln) (h : ValidGlobal a b aln) :
    scorePub M g g false a b aln = scoreSemiPos M g a b (0, 0) aln := by
  rw [scorePub_semi_aff M g g a b aln h, ← scoreSemiPos_eq_aff]


end BiotiteModel.C08

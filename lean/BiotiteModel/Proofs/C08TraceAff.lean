import BiotiteModel.Proofs.C08TraceG
/-! Affine traceback: the facts about `nextAff` that `followG_good` needs (global, semi-global). -/
namespace BiotiteModel.C08


theorem omax_none_right (x : Option Int) : omax x none = x := by cases x <;> rfl

theorem mem_pick (mode : Mode) (v : Option Int) (cs : List (ANode × Col × Option Int)) (d : ANode × Col)
    (h : d ∈ (pickCands v cs).map fun c => (canonNode mode c.1, c.2)) :
    ∃ n c ov, (n, c, ov) ∈ cs ∧ ov = v ∧ d = (canonNode mode n, c) := by
  simp only [pickCands, List.map_map, List.mem_map, List.mem_filter, Function.comp] at h
  obtain ⟨⟨n, c, ov⟩, ⟨hm, hv⟩, rfl⟩ := h
  exact ⟨n, c, ov, hm, by simpa using hv, rfl⟩

/-- value of a traceback node (`none` = not a real state); local border cells count as a match state of value 0 -/
def valN (mode : Mode) (T : Nat → Nat → AffCell) (s : ANode) : Option Int :=
  if mode = .local ∧ (s.1.1 = 0 ∨ s.1.2 = 0) then (if s.2 = .m then some 0 else none)
  else match s.2 with
    | .none => none
    | k => stateVal (T s.1.1 s.1.2) k

def RealN (mode : Mode) (T : Nat → Nat → AffCell) (s : ANode) : Prop := ∃ w, valN mode T s = some w

theorem valN_nonlocal (mode : Mode) (hm : mode ≠ .local) (T : Nat → Nat → AffCell) (p : Nat × Nat) (k : Kind)
    (hk : k ≠ .none) : valN mode T (p, k) = stateVal (T p.1 p.2) k := by
  unfold valN
  cases k <;> simp_all


theorem hnext_aff_global (M : Mat) (go ge : Int) (a b : Seq) (s : ANode)
    (hR : RealN .global ((affRec .global M go ge a b).val) s) :
    ∀ d ∈ nextAff .global M go ge a b ((affRec .global M go ge a b).val) s,
      RealN .global ((affRec .global M go ge a b).val) d.1 ∧ stepPos d.1.1 d.2 = some s.1 ∧
      (valN .global ((affRec .global M go ge a b).val) s).getD 0 = (valN .global ((affRec .global M go ge a b).val) d.1).getD 0
        + costAffK .global M go ge a b d.1.1 d.1.2 d.2 ∧
      allowedK d.1.2 d.2 = true ∧ d.2.kind = s.2 := by
  obtain ⟨⟨i, j⟩, k⟩ := s
  obtain ⟨w, hw⟩ := hR
  have hkn : k ≠ .none := by rintro rfl; simp [valN] at hw
  rw [valN_nonlocal .global (by decide) _ _ _ hkn] at hw
  simp only at hw
  intro d hd
  cases i with
  | zero =>
    cases j with
    | zero => simp [nextAff] at hd
    | succ j =>
      rw [aff_border0] at hw
      cases k <;> simp [stateVal] at hw hkn
      subst hw
      cases j with
      | zero =>
        simp [nextAff] at hd; subst hd
        refine ⟨⟨0, by simp [valN, aff_border00, stateVal]⟩, by simp [stepPos], ?_, rfl, rfl⟩
        simp [valN, aff_border00, aff_border0, stateVal, costAffK, affLead, gapRun]
      | succ j =>
        simp [nextAff] at hd; subst hd
        refine ⟨⟨affLead .global go ge (j + 1), by simp [valN, aff_border0, stateVal]⟩, by simp [stepPos], ?_, rfl, rfl⟩
        simp [valN, aff_border0, stateVal, costAffK, affLead, gapRun]; omega
  | succ i =>
    cases j with
    | zero =>
      rw [aff_border1] at hw
      cases k <;> simp [stateVal] at hw hkn
      subst hw
      cases i with
      | zero =>
        simp [nextAff] at hd; subst hd
        refine ⟨⟨0, by simp [valN, aff_border00, stateVal]⟩, by simp [stepPos], ?_, rfl, rfl⟩
        simp [valN, aff_border00, aff_border1, stateVal, costAffK, affLead, gapRun]
      | succ i =>
        simp [nextAff] at hd; subst hd
        refine ⟨⟨affLead .global go ge (i + 1), by simp [valN, aff_border1, stateVal]⟩, by simp [stepPos], ?_, rfl, rfl⟩
        simp [valN, aff_border1, stateVal, costAffK, affLead, gapRun]; omega
    | succ j =>
      rw [Rec.val_succ_succ, aff_cell_global] at hw
      cases k with
      | none => exact absurd rfl hkn
      | m =>
        simp only [stateVal] at hw
        simp only [nextAff, List.foldr, omax_none_right, hw, Option.isNone_some, Bool.false_or,
          reduceCtorEq, Bool.false_and, Bool.false_eq_true, if_false] at hd
        obtain ⟨n, c, ov, hm, hov, rfl⟩ := mem_pick _ _ _ _ hd
        simp only [List.mem_cons, Prod.mk.injEq, List.mem_nil_iff, or_false] at hm
        rcases hm with ⟨rfl, rfl, rfl⟩ | ⟨rfl, rfl, rfl⟩ | ⟨rfl, rfl, rfl⟩ <;>
        · obtain ⟨w', hw', hww⟩ := oadd_eq_some hov
          refine ⟨⟨w', by simp [canonNode, valN, stateVal, hw']⟩, by simp [canonNode, stepPos], ?_, by simp [canonNode, allowedK], rfl⟩
          have e1 : valN .global (affRec .global M go ge a b).val ((i + 1, j + 1), Kind.m) = some w := by
            rw [valN_nonlocal .global (by decide) _ _ _ (by simp)]
            simp only [stateVal, Rec.val_succ_succ, aff_cell_global]; exact hw
          rw [e1]; simp [canonNode, valN, stateVal, hw', costAffK, hww]
      | ga =>
        simp only [stateVal] at hw
        have hsemi : (Mode.global == Mode.semi) = false := rfl
        have hloc : (Mode.global == Mode.local) = false := rfl
        simp only [nextAff, List.foldr, omax_none_right, hsemi, hloc, Bool.false_and, Bool.false_eq_true, if_false,
          hw, Option.isNone_some, Bool.false_or, Bool.or_self] at hd
        obtain ⟨n, c, ov, hm, hov, rfl⟩ := mem_pick _ _ _ _ hd
        simp only [List.mem_cons, Prod.mk.injEq, List.mem_nil_iff, or_false] at hm
        have e1 : valN .global (affRec .global M go ge a b).val ((i + 1, j + 1), Kind.ga) = some w := by
          rw [valN_nonlocal .global (by decide) _ _ _ (by simp)]
          simp only [stateVal, Rec.val_succ_succ, aff_cell_global]; exact hw
        rcases hm with ⟨rfl, rfl, rfl⟩ | ⟨rfl, rfl, rfl⟩ <;>
        · obtain ⟨w', hw', hww⟩ := oadd_eq_some hov
          refine ⟨⟨w', by simp [canonNode, valN, stateVal, hw']⟩, by simp [canonNode, stepPos], ?_, by simp [canonNode, allowedK], rfl⟩
          rw [e1]; simp [canonNode, valN, stateVal, hw', costAffK, hww]
      | gb =>
        simp only [stateVal] at hw
        have hsemi : (Mode.global == Mode.semi) = false := rfl
        have hloc : (Mode.global == Mode.local) = false := rfl
        simp only [nextAff, List.foldr, omax_none_right, hsemi, hloc, Bool.false_and, Bool.false_eq_true, if_false,
          hw, Option.isNone_some, Bool.false_or, Bool.or_self] at hd
        obtain ⟨n, c, ov, hm, hov, rfl⟩ := mem_pick _ _ _ _ hd
        simp only [List.mem_cons, Prod.mk.injEq, List.mem_nil_iff, or_false] at hm
        have e1 : valN .global (affRec .global M go ge a b).val ((i + 1, j + 1), Kind.gb) = some w := by
          rw [valN_nonlocal .global (by decide) _ _ _ (by simp)]
          simp only [stateVal, Rec.val_succ_succ, aff_cell_global]; exact hw
        rcases hm with ⟨rfl, rfl, rfl⟩ | ⟨rfl, rfl, rfl⟩ <;>
        · obtain ⟨w', hw', hww⟩ := oadd_eq_some hov
          refine ⟨⟨w', by simp [canonNode, valN, stateVal, hw']⟩, by simp [canonNode, stepPos], ?_, by simp [canonNode, allowedK], rfl⟩
          rw [e1]; simp [canonNode, valN, stateVal, hw', costAffK, hww]

theorem hend_aff_global (M : Mat) (go ge : Int) (a b : Seq) (s : ANode)
    (hR : RealN .global ((affRec .global M go ge a b).val) s)
    (hnil : nextAff .global M go ge a b ((affRec .global M go ge a b).val) s = []) :
    (valN .global ((affRec .global M go ge a b).val) s).getD 0 = 0 ∧ s.2 = .m ∧ s.1 = (0, 0) := by
  obtain ⟨⟨i, j⟩, k⟩ := s
  obtain ⟨w, hw⟩ := hR
  have hkn : k ≠ .none := by rintro rfl; simp [valN] at hw
  have hw0 := hw
  rw [valN_nonlocal .global (by decide) _ _ _ hkn] at hw
  simp only at hw
  have hsemi : (Mode.global == Mode.semi) = false := rfl
  have hloc : (Mode.global == Mode.local) = false := rfl
  cases i with
  | zero =>
    cases j with
    | zero =>
      rw [aff_border00] at hw
      cases k <;> simp [stateVal] at hw hkn
      subst hw
      exact ⟨by rw [hw0]; rfl, rfl, rfl⟩
    | succ j =>
      rw [aff_border0] at hw
      cases k <;> simp [stateVal] at hw hkn
      cases j <;> simp [nextAff] at hnil
  | succ i =>
    cases j with
    | zero =>
      rw [aff_border1] at hw
      cases k <;> simp [stateVal] at hw hkn
      cases i <;> simp [nextAff] at hnil
    | succ j =>
      exfalso
      rw [Rec.val_succ_succ, aff_cell_global] at hw
      cases k with
      | none => exact hkn rfl
      | m =>
        simp only [stateVal] at hw
        simp only [nextAff, List.foldr, omax_none_right, hsemi, hloc, Bool.false_and, Bool.false_eq_true, if_false,
          hw, Option.isNone_some, Bool.false_or, Bool.or_self, List.map_eq_nil_iff, pickCands,
          List.filter_eq_nil_iff] at hnil
        rcases omax_cases hw with h | h
        · exact absurd (hnil _ List.mem_cons_self) (by simp [h])
        · rcases omax_cases h with h | h
          · exact absurd (hnil _ (List.mem_cons_of_mem _ List.mem_cons_self)) (by simp [h])
          · exact absurd (hnil _ (List.mem_cons_of_mem _ (List.mem_cons_of_mem _ List.mem_cons_self))) (by simp [h])
      | ga =>
        simp only [stateVal] at hw
        simp only [nextAff, List.foldr, omax_none_right, hsemi, hloc, Bool.false_and, Bool.false_eq_true, if_false,
          hw, Option.isNone_some, Bool.false_or, Bool.or_self, List.map_eq_nil_iff, pickCands,
          List.filter_eq_nil_iff] at hnil
        rcases omax_cases hw with h | h
        · exact absurd (hnil _ List.mem_cons_self) (by simp [h])
        · exact absurd (hnil _ (List.mem_cons_of_mem _ List.mem_cons_self)) (by simp [h])
      | gb =>
        simp only [stateVal] at hw
        simp only [nextAff, List.foldr, omax_none_right, hsemi, hloc, Bool.false_and, Bool.false_eq_true, if_false,
          hw, Option.isNone_some, Bool.false_or, Bool.or_self, List.map_eq_nil_iff, pickCands,
          List.filter_eq_nil_iff] at hnil
        rcases omax_cases hw with h | h
        · exact absurd (hnil _ List.mem_cons_self) (by simp [h])
        · exact absurd (hnil _ (List.mem_cons_of_mem _ List.mem_cons_self)) (by simp [h])


theorem hnext_aff_semi (M : Mat) (go ge : Int) (a b : Seq) (s : ANode)
    (hR : RealN .semi ((affRec .semi M go ge a b).val) s) :
    ∀ d ∈ nextAff .semi M go ge a b ((affRec .semi M go ge a b).val) s,
      RealN .semi ((affRec .semi M go ge a b).val) d.1 ∧ stepPos d.1.1 d.2 = some s.1 ∧
      (valN .semi ((affRec .semi M go ge a b).val) s).getD 0 = (valN .semi ((affRec .semi M go ge a b).val) d.1).getD 0
        + costAffK .semi M go ge a b d.1.1 d.1.2 d.2 ∧
      allowedK d.1.2 d.2 = true ∧ d.2.kind = s.2 := by
  obtain ⟨⟨i, j⟩, k⟩ := s
  obtain ⟨w, hw⟩ := hR
  have hkn : k ≠ .none := by rintro rfl; simp [valN] at hw
  rw [valN_nonlocal .semi (by decide) _ _ _ hkn] at hw
  simp only at hw
  intro d hd
  cases i with
  | zero =>
    cases j with
    | zero => simp [nextAff] at hd
    | succ j =>
      rw [aff_border0] at hw
      cases k <;> simp [stateVal] at hw hkn
      subst hw
      cases j with
      | zero =>
        simp [nextAff] at hd; subst hd
        refine ⟨⟨0, by simp [valN, aff_border00, stateVal]⟩, by simp [stepPos], ?_, rfl, rfl⟩
        simp [valN, aff_border00, aff_border0, stateVal, costAffK, affLead]
      | succ j =>
        simp [nextAff] at hd; subst hd
        refine ⟨⟨affLead .semi go ge (j + 1), by simp [valN, aff_border0, stateVal]⟩, by simp [stepPos], ?_, rfl, rfl⟩
        simp [valN, aff_border0, stateVal, costAffK, affLead]
  | succ i =>
    cases j with
    | zero =>
      rw [aff_border1] at hw
      cases k <;> simp [stateVal] at hw hkn
      subst hw
      cases i with
      | zero =>
        simp [nextAff] at hd; subst hd
        refine ⟨⟨0, by simp [valN, aff_border00, stateVal]⟩, by simp [stepPos], ?_, rfl, rfl⟩
        simp [valN, aff_border00, aff_border1, stateVal, costAffK, affLead]
      | succ i =>
        simp [nextAff] at hd; subst hd
        refine ⟨⟨affLead .semi go ge (i + 1), by simp [valN, aff_border1, stateVal]⟩, by simp [stepPos], ?_, rfl, rfl⟩
        simp [valN, aff_border1, stateVal, costAffK, affLead]
    | succ j =>
      rw [Rec.val_succ_succ, aff_cell_semi] at hw
      cases k with
      | none => exact absurd rfl hkn
      | m =>
        simp only [stateVal] at hw
        simp only [nextAff, List.foldr, omax_none_right, hw, Option.isNone_some, Bool.false_or,
          reduceCtorEq, Bool.false_and, Bool.false_eq_true, if_false] at hd
        obtain ⟨n, c, ov, hm, hov, rfl⟩ := mem_pick _ _ _ _ hd
        simp only [List.mem_cons, Prod.mk.injEq, List.mem_nil_iff, or_false] at hm
        rcases hm with ⟨rfl, rfl, rfl⟩ | ⟨rfl, rfl, rfl⟩ | ⟨rfl, rfl, rfl⟩ <;>
        · obtain ⟨w', hw', hww⟩ := oadd_eq_some hov
          refine ⟨⟨w', by simp [canonNode, valN, stateVal, hw']⟩, by simp [canonNode, stepPos], ?_, by simp [canonNode, allowedK], rfl⟩
          have e1 : valN .semi (affRec .semi M go ge a b).val ((i + 1, j + 1), Kind.m) = some w := by
            rw [valN_nonlocal .semi (by decide) _ _ _ (by simp)]
            simp only [stateVal, Rec.val_succ_succ, aff_cell_semi]; exact hw
          rw [e1]; simp [canonNode, valN, stateVal, hw', costAffK, hww]
      | ga =>
        simp only [stateVal] at hw
        have hsemi : (Mode.semi == Mode.semi) = true := rfl
        have hloc : (Mode.semi == Mode.local) = false := rfl
        simp only [nextAff, List.foldr, omax_none_right, hsemi, hloc, Bool.true_and, Bool.false_and, beq_iff_eq, Bool.false_eq_true, if_false,
          hw, Option.isNone_some, Bool.false_or, Bool.or_self] at hd
        obtain ⟨n, c, ov, hm, hov, rfl⟩ := mem_pick _ _ _ _ hd
        simp only [List.mem_cons, Prod.mk.injEq, List.mem_nil_iff, or_false] at hm
        have e1 : valN .semi (affRec .semi M go ge a b).val ((i + 1, j + 1), Kind.ga) = some w := by
          rw [valN_nonlocal .semi (by decide) _ _ _ (by simp)]
          simp only [stateVal, Rec.val_succ_succ, aff_cell_semi]; exact hw
        rcases hm with ⟨rfl, rfl, rfl⟩ | ⟨rfl, rfl, rfl⟩ <;>
        · obtain ⟨w', hw', hww⟩ := oadd_eq_some hov
          refine ⟨⟨w', by simp [canonNode, valN, stateVal, hw']⟩, by simp [canonNode, stepPos], ?_, by simp [canonNode, allowedK], rfl⟩
          rw [e1]
          have e2 : ∀ nd : ANode, valN Mode.semi (affRec Mode.semi M go ge a b).val (canonNode Mode.semi nd)
              = valN Mode.semi (affRec Mode.semi M go ge a b).val nd := by intro nd; simp [canonNode]
          simp only [e2]
          simp only [valN, reduceCtorEq, false_and, if_false, stateVal, hw', Option.getD_some, hww]
          by_cases hf1 : i + 1 = a.length <;> by_cases hf2 : j + 1 = b.length <;>
            simp [canonNode, costAffK, hf1, hf2]
      | gb =>
        simp only [stateVal] at hw
        have hsemi : (Mode.semi == Mode.semi) = true := rfl
        have hloc : (Mode.semi == Mode.local) = false := rfl
        simp only [nextAff, List.foldr, omax_none_right, hsemi, hloc, Bool.true_and, Bool.false_and, beq_iff_eq, Bool.false_eq_true, if_false,
          hw, Option.isNone_some, Bool.false_or, Bool.or_self] at hd
        obtain ⟨n, c, ov, hm, hov, rfl⟩ := mem_pick _ _ _ _ hd
        simp only [List.mem_cons, Prod.mk.injEq, List.mem_nil_iff, or_false] at hm
        have e1 : valN .semi (affRec .semi M go ge a b).val ((i + 1, j + 1), Kind.gb) = some w := by
          rw [valN_nonlocal .semi (by decide) _ _ _ (by simp)]
          simp only [stateVal, Rec.val_succ_succ, aff_cell_semi]; exact hw
        rcases hm with ⟨rfl, rfl, rfl⟩ | ⟨rfl, rfl, rfl⟩ <;>
        · obtain ⟨w', hw', hww⟩ := oadd_eq_some hov
          refine ⟨⟨w', by simp [canonNode, valN, stateVal, hw']⟩, by simp [canonNode, stepPos], ?_, by simp [canonNode, allowedK], rfl⟩
          rw [e1]
          have e2 : ∀ nd : ANode, valN Mode.semi (affRec Mode.semi M go ge a b).val (canonNode Mode.semi nd)
              = valN Mode.semi (affRec Mode.semi M go ge a b).val nd := by intro nd; simp [canonNode]
          simp only [e2]
          simp only [valN, reduceCtorEq, false_and, if_false, stateVal, hw', Option.getD_some, hww]
          by_cases hf1 : i + 1 = a.length <;> by_cases hf2 : j + 1 = b.length <;>
            simp [canonNode, costAffK, hf1, hf2]


theorem hend_aff_semi (M : Mat) (go ge : Int) (a b : Seq) (s : ANode)
    (hR : RealN .semi ((affRec .semi M go ge a b).val) s)
    (hnil : nextAff .semi M go ge a b ((affRec .semi M go ge a b).val) s = []) :
    (valN .semi ((affRec .semi M go ge a b).val) s).getD 0 = 0 ∧ s.2 = .m ∧ s.1 = (0, 0) := by
  obtain ⟨⟨i, j⟩, k⟩ := s
  obtain ⟨w, hw⟩ := hR
  have hkn : k ≠ .none := by rintro rfl; simp [valN] at hw
  have hw0 := hw
  rw [valN_nonlocal .semi (by decide) _ _ _ hkn] at hw
  simp only at hw
  have hsemi : (Mode.semi == Mode.semi) = true := rfl
  have hloc : (Mode.semi == Mode.local) = false := rfl
  cases i with
  | zero =>
    cases j with
    | zero =>
      rw [aff_border00] at hw
      cases k <;> simp [stateVal] at hw hkn
      subst hw
      exact ⟨by rw [hw0]; rfl, rfl, rfl⟩
    | succ j =>
      rw [aff_border0] at hw
      cases k <;> simp [stateVal] at hw hkn
      cases j <;> simp [nextAff] at hnil
  | succ i =>
    cases j with
    | zero =>
      rw [aff_border1] at hw
      cases k <;> simp [stateVal] at hw hkn
      cases i <;> simp [nextAff] at hnil
    | succ j =>
      exfalso
      rw [Rec.val_succ_succ, aff_cell_semi] at hw
      cases k with
      | none => exact hkn rfl
      | m =>
        simp only [stateVal] at hw
        simp only [nextAff, List.foldr, omax_none_right, hsemi, hloc, Bool.true_and, Bool.false_and, beq_iff_eq, Bool.false_eq_true, if_false,
          hw, Option.isNone_some, Bool.false_or, Bool.or_self, List.map_eq_nil_iff, pickCands,
          List.filter_eq_nil_iff] at hnil
        rcases omax_cases hw with h | h
        · exact absurd (hnil _ List.mem_cons_self) (by simp [h])
        · rcases omax_cases h with h | h
          · exact absurd (hnil _ (List.mem_cons_of_mem _ List.mem_cons_self)) (by simp [h])
          · exact absurd (hnil _ (List.mem_cons_of_mem _ (List.mem_cons_of_mem _ List.mem_cons_self))) (by simp [h])
      | ga =>
        simp only [stateVal] at hw
        simp only [nextAff, List.foldr, omax_none_right, hsemi, hloc, Bool.true_and, Bool.false_and, beq_iff_eq, Bool.false_eq_true, if_false,
          hw, Option.isNone_some, Bool.false_or, Bool.or_self, List.map_eq_nil_iff, pickCands,
          List.filter_eq_nil_iff] at hnil
        rcases omax_cases hw with h | h
        · exact absurd (hnil _ List.mem_cons_self) (by simp [h])
        · exact absurd (hnil _ (List.mem_cons_of_mem _ List.mem_cons_self)) (by simp [h])
      | gb =>
        simp only [stateVal] at hw
        simp only [nextAff, List.foldr, omax_none_right, hsemi, hloc, Bool.true_and, Bool.false_and, beq_iff_eq, Bool.false_eq_true, if_false,
          hw, Option.isNone_some, Bool.false_or, Bool.or_self, List.map_eq_nil_iff, pickCands,
          List.filter_eq_nil_iff] at hnil
        rcases omax_cases hw with h | h
        · exact absurd (hnil _ List.mem_cons_self) (by simp [h])
        · exact absurd (hnil _ (List.mem_cons_of_mem _ List.mem_cons_self)) (by simp [h])




theorem startsAff_mem (mode : Mode) (hm : mode ≠ .local) (T : Nat → Nat → AffCell) (n m : Nat) (s : ANode)
    (h : s ∈ startsAff mode T n m) :
    s.1 = (n, m) ∧ s.2 ≠ .none ∧ ∃ v, stateVal (T n m) s.2 = some v ∧ (T n m).best = some v := by
  have hs : s ∈ ([(Kind.m, (T n m).m), (Kind.ga, (T n m).g1), (Kind.gb, (T n m).g2)].filter
      fun x => x.2.isSome && x.2 == (T n m).best).map fun x => ((n, m), x.1) := by
    cases mode <;> first | exact h | exact absurd rfl hm
  obtain ⟨x, hx, rfl⟩ := List.mem_map.mp hs
  rw [List.mem_filter] at hx
  obtain ⟨hmem, hp⟩ := hx
  simp only [Bool.and_eq_true, beq_iff_eq] at hp
  obtain ⟨v, hv⟩ := Option.isSome_iff_exists.mp hp.1
  simp only [List.mem_cons, List.mem_nil_iff, or_false] at hmem
  rcases hmem with rfl | rfl | rfl <;>
    exact ⟨rfl, by simp, v, by simpa [stateVal] using hv, by rw [← hp.2]; simpa using hv⟩

end BiotiteModel.C08

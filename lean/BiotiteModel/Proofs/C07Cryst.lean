import BiotiteModel.Proofs.C07Bonds
/-! CRYST1 record: layout and read-back. -/
namespace BiotiteModel.C07

/-- cell lengths fit 9 columns / angles 7 columns after rounding -/
def CellStrong (u : Cell) : Prop :=
  FitsFixed 3 99999999 9999999 u.a ∧ FitsFixed 3 99999999 9999999 u.b ∧ FitsFixed 3 99999999 9999999 u.c ∧
  FitsFixed 2 999999 99999 u.alpha ∧ FitsFixed 2 999999 99999 u.beta ∧ FitsFixed 2 999999 99999 u.gamma

theorem checkCell_iff (u : Cell) : checkCell u = true ↔ CellStrong u := by
  have h3 := fun x => fmtFixed_fits_iff 3 5 (by decide) (by decide) x
  have h2 := fun x => fmtFixed_fits_iff 2 4 (by decide) (by decide) x
  have e1 : (10 : Nat) ^ (5 + 3) - 1 = 99999999 := by decide
  have e2 : (10 : Nat) ^ (5 - 1 + 3) - 1 = 9999999 := by decide
  have e3 : (10 : Nat) ^ (4 + 2) - 1 = 999999 := by decide
  have e4 : (10 : Nat) ^ (4 - 1 + 2) - 1 = 99999 := by decide
  rw [e1, e2] at h3
  rw [e3, e4] at h2
  unfold checkCell CellStrong
  simp only [Bool.and_eq_true, decide_eq_true_eq]
  rw [← h3, ← h3, ← h3, ← h2, ← h2, ← h2]
  constructor
  · rintro ⟨⟨⟨⟨⟨a, b⟩, c⟩, d⟩, e⟩, f⟩; exact ⟨a, b, c, d, e, f⟩
  · rintro ⟨a, b, c, d, e, f⟩; exact ⟨⟨⟨⟨⟨a, b⟩, c⟩, d⟩, e⟩, f⟩

theorem cryst1_layout (u : Cell) (h : checkCell u = true) :
    (cryst1Line u).length = 80 ∧
    slice 6 15 (cryst1Line u) = rjust 9 (fmtFixed 3 u.a) ∧ slice 15 24 (cryst1Line u) = rjust 9 (fmtFixed 3 u.b) ∧
    slice 24 33 (cryst1Line u) = rjust 9 (fmtFixed 3 u.c) ∧ slice 33 40 (cryst1Line u) = rjust 7 (fmtFixed 2 u.alpha) ∧
    slice 40 47 (cryst1Line u) = rjust 7 (fmtFixed 2 u.beta) ∧ slice 47 54 (cryst1Line u) = rjust 7 (fmtFixed 2 u.gamma) ∧
    slice 54 80 (cryst1Line u) = cryst1Tail := by
  unfold checkCell at h
  simp only [Bool.and_eq_true, decide_eq_true_eq] at h
  obtain ⟨⟨⟨⟨⟨ha, hb⟩, hc⟩, hd⟩, he⟩, hf⟩ := h
  have l0 : ("CRYST1".toList : List Char).length = 6 := rfl
  have la := rjust_length 9 _ ha
  have lb := rjust_length 9 _ hb
  have lc := rjust_length 9 _ hc
  have ld := rjust_length 7 _ hd
  have le := rjust_length 7 _ he
  have lf := rjust_length 7 _ hf
  have lt : cryst1Tail.length = 26 := rfl
  refine ⟨?_, ?_⟩
  · simp only [cryst1Line, List.length_append, l0, la, lb, lc, ld, le, lf, lt]
  · unfold cryst1Line
    refine ⟨?_, ?_, ?_, ?_, ?_, ?_, ?_⟩ <;>
    ( repeat (first
        | rw [slice_skip _ _ _ _ _ l0 (by decide)] | rw [slice_skip _ _ _ _ _ la (by decide)]
        | rw [slice_skip _ _ _ _ _ lb (by decide)] | rw [slice_skip _ _ _ _ _ lc (by decide)]
        | rw [slice_skip _ _ _ _ _ ld (by decide)] | rw [slice_skip _ _ _ _ _ le (by decide)]
        | rw [slice_skip _ _ _ _ _ lf (by decide)])
      first
        | exact slice_head _ _ _ la | exact slice_head _ _ _ lb | exact slice_head _ _ _ lc
        | exact slice_head _ _ _ ld | exact slice_head _ _ _ le | exact slice_head _ _ _ lf
        | exact slice_last _ _ lt )

/-- what the reader must return for a written cell -/
def expectedCell (u : Cell) : CellRead :=
  { a := u.a.units 3, b := u.b.units 3, c := u.c.units 3,
    alpha := u.alpha.units 2, beta := u.beta.units 2, gamma := u.gamma.units 2 }

theorem parseCryst1_line (u : Cell) (h : checkCell u = true) : parseCryst1 (cryst1Line u) = some (some (expectedCell u)) := by
  obtain ⟨_, s1, s2, s3, s4, s5, s6, _⟩ := cryst1_layout u h
  unfold parseCryst1
  simp only [s1, s2, s3, s4, s5, s6, units_parse_fmtFixed 3 9 (by decide), units_parse_fmtFixed 2 7 (by decide)]
  rfl

theorem litCRYST1 : "CRYST1".toList = ['C', 'R', 'Y', 'S', 'T', '1'] := by decide

theorem readCell_written (u : Cell) (h : checkCell u = true) (rest : List (List Char)) :
    readCell (cryst1Line u :: rest) = some (some (expectedCell u)) := by
  have hlen := (cryst1_layout u h).1
  have hpad : ljust 80 (cryst1Line u) = cryst1Line u := by simp [ljust, hlen]
  have hst : startsWith "CRYST1".toList (cryst1Line u) = true := by
    simp [startsWith, cryst1Line, litCRYST1, List.isPrefixOf]
  unfold readCell
  simp only [List.map_cons, hpad, List.find?_cons, hst]
  exact parseCryst1_line u h

end BiotiteModel.C07

import BiotiteModel.Model.C05Ext
import BiotiteModel.Proofs.C05
/-! Helper lemmas for the string / byte / chain part of C05 (core Lean only). -/
namespace BiotiteModel.C05

/-! ### strings -/

theorem mem_firstOcc (s : String) (ss : List String) : s ∈ firstOcc ss ↔ s ∈ ss := by
  induction ss with
  | nil => simp [firstOcc]
  | cons a l ih =>
    simp only [firstOcc, List.mem_cons, List.mem_filter, ih]
    by_cases h : s = a <;> simp [h]

theorem stringDecode_map (tbl : List String) (ss : List String) (h : ∀ s ∈ ss, s ∈ tbl) :
    stringDecode tbl (ss.map fun s => tbl.idxOf s) = .ok ss := by
  induction ss with
  | nil => rfl
  | cons a l ih =>
    have ha : a ∈ tbl := h a (by simp)
    have hl := ih (fun s hs => h s (by simp [hs]))
    unfold stringDecode at hl ⊢
    simp only [List.map_cons, List.mapM_cons]
    have hi : tbl.idxOf a < tbl.length := List.idxOf_lt_length_of_mem ha
    have hg : tbl[tbl.idxOf a]? = some a := by
      rw [List.getElem?_eq_getElem hi]; simp
    simp [hg, hl, bind, Except.bind, pure, Except.pure]

/-! ### bytes -/

theorem fromBytes_toBytes (n x : Nat) (h : x < 256 ^ n) : fromBytesLE (toBytesLE n x) = x := by
  induction n generalizing x with
  | zero => simp at h; subst h; rfl
  | succ n ih =>
    simp only [toBytesLE, fromBytesLE]
    have : x / 256 < 256 ^ n := by
      rw [Nat.div_lt_iff_lt_mul (by decide)]; rw [Nat.pow_succ] at h; exact h
    rw [ih _ this]; omega

theorem toBytes_length (n x : Nat) : (toBytesLE n x).length = n := by
  induction n generalizing x with
  | zero => rfl
  | succ n ih => simp [toBytesLE, ih]

theorem unpattern_pattern (t : DType) (x : Int) (h : t.inRange x) : unpattern t (pattern t x) = x := by
  cases t <;> simp [DType.inRange, DType.lo, DType.hi, DType.signed, DType.bits] at h <;>
    simp [unpattern, pattern, wrap, DType.lo, DType.signed, DType.bits] <;> omega

theorem pattern_lt (t : DType) (x : Int) : pattern t x < 256 ^ (t.bits / 8) := by
  cases t <;> simp [pattern, DType.bits] <;> omega

theorem bits_div_pos (t : DType) : 0 < t.bits / 8 := by cases t <;> decide

theorem bytesEncode_length (t : DType) (xs : List Int) :
    (bytesEncode t xs).length = xs.length * (t.bits / 8) := by
  induction xs with
  | nil => simp [bytesEncode]
  | cons a l ih => simp [bytesEncode, toBytes_length, ih, Nat.succ_mul]; omega

theorem bytesDecode_go (t : DType) (xs : List Int) (h : ∀ x ∈ xs, t.inRange x) (fuel : Nat)
    (hf : xs.length ≤ fuel) : bytesDecode.go t fuel (bytesEncode t xs) = xs := by
  induction xs generalizing fuel with
  | nil => cases fuel <;> simp [bytesEncode, bytesDecode.go]
  | cons a l ih =>
    cases fuel with
    | zero => simp at hf
    | succ fuel =>
      have hlen := toBytes_length (t.bits / 8) (pattern t a)
      have hne : bytesEncode t (a :: l) ≠ [] := by
        have := bytesEncode_length t (a :: l)
        have hp := bits_div_pos t
        intro h0; rw [h0] at this
        simp only [List.length_nil, List.length_cons] at this
        have : 0 < (l.length + 1) * (t.bits / 8) := Nat.mul_pos (by omega) hp
        omega
      simp only [bytesEncode] at hne ⊢
      rw [bytesDecode.go]
      · rw [List.take_left' hlen, List.drop_left' hlen,
          fromBytes_toBytes _ _ (pattern_lt t a), unpattern_pattern t a (h a (by simp)),
          ih (fun x hx => h x (by simp [hx])) fuel (by simpa using hf)]
      · exact hne

end BiotiteModel.C05

import BiotiteModel.Proofs.C07Cryst
/-! Non-finite input is refused. -/
namespace BiotiteModel.C07

theorem mapM_none_of_mem {α β : Type} (f : α → Option β) : ∀ (l : List α) (x : α), x ∈ l → f x = none → l.mapM f = none := by
  intro l
  induction l with
  | nil => intro x hx; simp at hx
  | cons a as ih =>
    intro x hx hf
    rw [List.mapM_cons]
    rcases List.mem_cons.1 hx with rfl | hx
    · simp [hf]
    · cases hfa : f a with
      | none => simp
      | some b => simp [ih x hx hf]

theorem fin?_none_of_not_finite (x : Num) (h : x.isFinite = false) : x.fin? = none := by
  cases x <;> simp_all [Num.isFinite, Num.fin?]

theorem toCoord?_none (c : CoordN) (h : c.1.isFinite = false ∨ c.2.1.isFinite = false ∨ c.2.2.isFinite = false) :
    c.toCoord? = none := by
  unfold CoordN.toCoord?
  rcases h with h | h | h
  · rw [fin?_none_of_not_finite _ h]
  · rw [fin?_none_of_not_finite _ h]; cases c.1.fin? <;> rfl
  · rw [fin?_none_of_not_finite _ h]; cases c.1.fin? <;> cases c.2.1.fin? <;> rfl

theorem finite?_none_of_coord (fl : Flags) (s : StructN) (m : List CoordN) (hm : m ∈ s.models) (c : CoordN) (hc : c ∈ m)
    (h : c.1.isFinite = false ∨ c.2.1.isFinite = false ∨ c.2.2.isFinite = false) : s.finite? fl = none := by
  unfold StructN.finite?
  have h1 : m.mapM CoordN.toCoord? = none := mapM_none_of_mem _ m c hc (toCoord?_none c h)
  have h2 : s.models.mapM (fun m => m.mapM CoordN.toCoord?) = none := mapM_none_of_mem _ s.models m hm h1
  rw [h2]
  cases s.atoms.mapM (AtomN.toAtom? fl) <;> rfl

theorem finite?_none_of_atom (fl : Flags) (s : StructN) (a : AtomN) (ha : a ∈ s.atoms)
    (h : (fl.hasB = true ∧ a.bf.isFinite = false) ∨ (fl.hasOcc = true ∧ a.occ.isFinite = false)) : s.finite? fl = none := by
  unfold StructN.finite?
  have h1 : AtomN.toAtom? fl a = none := by
    unfold AtomN.toAtom?
    rcases h with ⟨hf, hb⟩ | ⟨hf, ho⟩
    · rw [hf, if_pos rfl, fin?_none_of_not_finite _ hb]
      cases (if fl.hasOcc = true then a.occ.fin? else some ⟨false, 1, 0⟩) <;> rfl
    · rw [hf, if_pos rfl, fin?_none_of_not_finite _ ho]
  rw [mapM_none_of_mem _ s.atoms a ha h1]

end BiotiteModel.C07

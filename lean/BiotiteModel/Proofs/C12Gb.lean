import BiotiteModel.Model.C12Gb
import BiotiteModel.Proofs.C12Gff
/-!
# C12 — `GenBankFile`: the field index always equals a re-index of the lines

A well-formed file is a list of *blocks* (a field header line followed by continuation lines:
empty or starting with a blank) closed by the terminator `//`.  `Rep g bs` says that the lines of
`g` are these blocks and that `g.pos` are their running positions; it implies
`g.pos = gbFind g.lines` and is preserved by `__setitem__`, `__delitem__`, `insert`, `append`,
`set_field`, which update the positions by shifting instead of re-indexing.
-/
namespace BiotiteModel.C12

abbrev GbBlock := Str × List Str

def gbTerm : Str := ['/', '/']

/-- continuation line: empty or starting with a blank -/
def GbCont (l : Str) : Prop := l = [] ∨ l.head? = some ' '
/-- field header line: starts in the first column and is not the terminator -/
def GbHdr (l : Str) : Prop := (∃ c cs, l = c :: cs ∧ c ≠ ' ') ∧ l.take 2 ≠ ['/', '/']
def GbBlockOk (b : GbBlock) : Prop := GbHdr b.1 ∧ ∀ c ∈ b.2, GbCont c

def gbFlat (bs : List GbBlock) : List Str := bs.flatMap (fun b => b.1 :: b.2)
def gbLen (bs : List GbBlock) : Nat := (gbFlat bs).length
def gbName (b : GbBlock) : Str := strip (b.1.take 12)

def gbPosB : Nat → List GbBlock → List FieldPos
  | _, [] => []
  | i, b :: bs => (i, i + (1 + b.2.length), gbName b) :: gbPosB (i + (1 + b.2.length)) bs

structure GbRep (g : Gb) (bs : List GbBlock) : Prop where
  lines : g.lines = gbFlat bs ++ [gbTerm]
  pos : g.pos = gbPosB 0 bs
  ok : ∀ b ∈ bs, GbBlockOk b

/-! ### `_find_field_indices` on blocks -/

theorem gbFindGo_conts (conts rest : List Str) (h : ∀ c ∈ conts, GbCont c) (i : Nat) (st : Option Nat) (nm : Str) :
    gbFindGo i st nm (conts ++ rest) = gbFindGo (i + conts.length) st nm rest := by
  induction conts generalizing i with
  | nil => simp
  | cons c cs ih =>
    have hc := h c (by simp)
    have ih' := ih (fun x hx => h x (by simp [hx])) (i + 1)
    rcases hc with rfl | hc
    · simp only [List.cons_append, gbFindGo, ih', List.length_cons]; congr 1; omega
    · cases c with
      | nil => simp at hc
      | cons a as =>
        simp only [List.head?_cons, Option.some.injEq] at hc
        subst hc
        simp only [List.cons_append, gbFindGo, if_true, ih', List.length_cons]; congr 1; omega

def gbEmit (st : Option Nat) (i : Nat) (nm : Str) : List FieldPos :=
  match st with | some s => [(s, i, nm)] | none => []

theorem gbFindGo_blocks (bs : List GbBlock) (h : ∀ b ∈ bs, GbBlockOk b) (i : Nat) (st : Option Nat) (nm : Str) :
    gbFindGo i st nm (gbFlat bs ++ [gbTerm]) = gbEmit st i nm ++ gbPosB i bs := by
  induction bs generalizing i st nm with
  | nil =>
    simp [gbFlat, gbTerm, gbFindGo, gbPosB, gbEmit]
    cases st <;> rfl
  | cons b bs ih =>
    obtain ⟨⟨⟨c, cs, hb1, hc⟩, hterm⟩, hconts⟩ := h b (by simp)
    have hflat : gbFlat (b :: bs) ++ [gbTerm] = b.1 :: (b.2 ++ (gbFlat bs ++ [gbTerm])) := by
      simp [gbFlat]
    rw [hflat]
    have step : gbFindGo i st nm (b.1 :: (b.2 ++ (gbFlat bs ++ [gbTerm]))) =
        gbEmit st i nm ++ gbFindGo (i + 1) (some i) (gbName b) (b.2 ++ (gbFlat bs ++ [gbTerm])) := by
      rw [hb1] at hterm ⊢
      simp only [gbFindGo, hc, if_false, hterm, ne_eq, not_false_eq_true, if_true, gbEmit, gbName, hb1]
      cases st <;> rfl
    rw [step, gbFindGo_conts b.2 _ hconts, ih (fun x hx => h x (by simp [hx]))]
    simp only [gbEmit, gbPosB]
    congr 1
    have : i + 1 + b.2.length = i + (1 + b.2.length) := by omega
    rw [this]; rfl

theorem gbRep_inv (g : Gb) (bs : List GbBlock) (h : GbRep g bs) : g.pos = gbFind g.lines := by
  rw [h.pos, h.lines]
  unfold gbFind
  rw [gbFindGo_blocks bs h.ok]
  rfl

theorem gbRep_empty : GbRep Gb.empty [] := ⟨rfl, rfl, by simp⟩

/-! ### list algebra of blocks and positions -/

theorem gbFlat_append (xs ys : List GbBlock) : gbFlat (xs ++ ys) = gbFlat xs ++ gbFlat ys := by
  simp [gbFlat]

theorem gbFlat_cons (b : GbBlock) (bs : List GbBlock) : gbFlat (b :: bs) = b.1 :: (b.2 ++ gbFlat bs) := by
  simp [gbFlat]

theorem gbLen_cons (b : GbBlock) (bs : List GbBlock) : gbLen (b :: bs) = 1 + b.2.length + gbLen bs := by
  simp [gbLen, gbFlat_cons]; omega

theorem gbLen_nil : gbLen [] = 0 := rfl

theorem gbPosB_append (xs ys : List GbBlock) (i : Nat) :
    gbPosB i (xs ++ ys) = gbPosB i xs ++ gbPosB (i + gbLen xs) ys := by
  induction xs generalizing i with
  | nil => simp [gbPosB, gbLen_nil]
  | cons b xs ih =>
    simp only [List.cons_append, gbPosB, ih, gbLen_cons, List.cons.injEq, true_and]
    congr 2; omega

theorem gbPosB_length (i : Nat) (bs : List GbBlock) : (gbPosB i bs).length = bs.length := by
  induction bs generalizing i with
  | nil => rfl
  | cons b bs ih => simp [gbPosB, ih]

theorem gbPosB_shift (post : List GbBlock) (j : Nat) (d : Int) (j' : Nat) (h : (j : Int) + d = j') :
    (gbPosB j post).map (shiftP d) = gbPosB j' post := by
  induction post generalizing j j' with
  | nil => rfl
  | cons b post ih =>
    simp only [gbPosB, List.map_cons]
    have h1 : ((j : Int) + d).toNat = j' := by omega
    have h2 : (((j + (1 + b.2.length) : Nat) : Int) + d).toNat = j' + (1 + b.2.length) := by omega
    rw [ih (j + (1 + b.2.length)) (j' + (1 + b.2.length)) (by omega)]
    simp only [shiftP, h1, h2]

theorem gb_split {α : Type} (bs : List α) (k : Nat) (hk : k < bs.length) :
    ∃ pre b post, bs = pre ++ b :: post ∧ pre.length = k := by
  induction bs generalizing k with
  | nil => simp at hk
  | cons a bs ih =>
    cases k with
    | zero => exact ⟨[], a, bs, rfl, rfl⟩
    | succ k =>
      obtain ⟨pre, b, post, h1, h2⟩ := ih k (by simpa using hk)
      exact ⟨a :: pre, b, post, by simp [h1], by simp [h2]⟩

theorem gb_split_le {α : Type} (bs : List α) (k : Nat) (hk : k ≤ bs.length) :
    ∃ pre post, bs = pre ++ post ∧ pre.length = k :=
  ⟨bs.take k, bs.drop k, (List.take_append_drop k bs).symm, by simp [hk]⟩

/-- the facts `__setitem__` / `__delitem__` read off the index for field `k = pre.length` -/
theorem gbRep_at (g : Gb) (pre post : List GbBlock) (b : GbBlock) (h : GbRep g (pre ++ b :: post)) :
    g.pos[pre.length]? = some (gbLen pre, gbLen pre + (1 + b.2.length), gbName b) ∧
    g.pos.take pre.length = gbPosB 0 pre ∧
    g.pos.drop (pre.length + 1) = gbPosB (gbLen pre + (1 + b.2.length)) post ∧
    g.lines.take (gbLen pre) = gbFlat pre ∧
    g.lines.drop (gbLen pre + (1 + b.2.length)) = gbFlat post ++ [gbTerm] := by
  have hp : g.pos = gbPosB 0 pre ++ (gbLen pre, gbLen pre + (1 + b.2.length), gbName b) ::
      gbPosB (gbLen pre + (1 + b.2.length)) post := by
    rw [h.pos, gbPosB_append]; simp [gbPosB]
  have hl : g.lines = gbFlat pre ++ ((b.1 :: b.2) ++ (gbFlat post ++ [gbTerm])) := by
    rw [h.lines, gbFlat_append, gbFlat_cons]; simp
  have hlen : (gbPosB 0 pre).length = pre.length := gbPosB_length 0 pre
  refine ⟨?_, ?_, ?_, ?_, ?_⟩
  · rw [hp, List.getElem?_append_right (by omega)]; simp [hlen]
  · rw [hp, List.take_left' hlen]
  · rw [hp]
    have e : gbPosB 0 pre ++ (gbLen pre, gbLen pre + (1 + b.2.length), gbName b) ::
        gbPosB (gbLen pre + (1 + b.2.length)) post =
        (gbPosB 0 pre ++ [(gbLen pre, gbLen pre + (1 + b.2.length), gbName b)]) ++
        gbPosB (gbLen pre + (1 + b.2.length)) post := by simp
    rw [e, List.drop_left' (by simp [hlen])]
  · rw [hl, List.take_left' (by rfl)]
  · rw [hl, ← List.append_assoc, List.drop_left' (by simp [gbLen]; omega)]

/-! ### the three index updates on blocks -/

theorem gbRep_replace (g : Gb) (pre post : List GbBlock) (b b' : GbBlock)
    (h : GbRep g (pre ++ b :: post)) (hb' : GbBlockOk b') :
    GbRep ⟨g.lines.take (gbLen pre) ++ (b'.1 :: b'.2) ++ g.lines.drop (gbLen pre + (1 + b.2.length)),
           g.pos.take pre.length ++ (gbLen pre, gbLen pre + (b'.1 :: b'.2).length, gbName b') ::
             (g.pos.drop (pre.length + 1)).map
               (shiftP (((b'.1 :: b'.2).length : Int) - (((gbLen pre + (1 + b.2.length) : Nat) : Int) - (gbLen pre : Nat))))⟩
          (pre ++ b' :: post) := by
  obtain ⟨_, h2, h3, h4, h5⟩ := gbRep_at g pre post b h
  refine ⟨?_, ?_, ?_⟩
  · simp only [h4, h5, gbFlat_append, gbFlat_cons]; simp
  · simp only [h2, h3]
    rw [gbPosB_shift post _ _ (gbLen pre + (1 + b'.2.length)) (by simp only [List.length_cons]; omega)]
    rw [gbPosB_append]
    simp [gbPosB]
    omega
  · intro x hx
    simp only [List.mem_append, List.mem_cons] at hx
    rcases hx with hx | rfl | hx
    · exact h.ok x (by simp [hx])
    · exact hb'
    · exact h.ok x (by simp [hx])

theorem gbRep_delete (g : Gb) (pre post : List GbBlock) (b : GbBlock) (h : GbRep g (pre ++ b :: post)) :
    GbRep ⟨g.lines.take (gbLen pre) ++ g.lines.drop (gbLen pre + (1 + b.2.length)),
           g.pos.take pre.length ++ (g.pos.drop (pre.length + 1)).map
             (shiftP (-((((gbLen pre + (1 + b.2.length) : Nat) : Int)) - (gbLen pre : Nat))))⟩
          (pre ++ post) := by
  obtain ⟨_, h2, h3, h4, h5⟩ := gbRep_at g pre post b h
  refine ⟨?_, ?_, ?_⟩
  · simp only [h4, h5, gbFlat_append]; simp
  · simp only [h2, h3]
    rw [gbPosB_shift post _ _ (gbLen pre) (by omega), gbPosB_append]
    simp
  · intro x hx
    simp only [List.mem_append] at hx
    rcases hx with hx | hx
    · exact h.ok x (by simp [hx])
    · exact h.ok x (by simp [hx])

theorem gbRep_at_le (g : Gb) (pre post : List GbBlock) (h : GbRep g (pre ++ post)) :
    g.pos.take pre.length = gbPosB 0 pre ∧ g.pos.drop pre.length = gbPosB (gbLen pre) post ∧
    g.lines.take (gbLen pre) = gbFlat pre ∧ g.lines.drop (gbLen pre) = gbFlat post ++ [gbTerm] ∧
    (if pre.length = 0 then 0 else ((g.pos[pre.length - 1]?).map (fun p => p.2.1)).getD 0) = gbLen pre := by
  have hp : g.pos = gbPosB 0 pre ++ gbPosB (gbLen pre) post := by
    rw [h.pos, gbPosB_append]; simp
  have hl : g.lines = gbFlat pre ++ (gbFlat post ++ [gbTerm]) := by
    rw [h.lines, gbFlat_append]; simp
  have hlen : (gbPosB 0 pre).length = pre.length := gbPosB_length 0 pre
  refine ⟨?_, ?_, ?_, ?_, ?_⟩
  · rw [hp, List.take_left' hlen]
  · rw [hp, List.drop_left' hlen]
  · rw [hl, List.take_left' (by rfl)]
  · rw [hl, List.drop_left' (by rfl)]
  · rcases List.eq_nil_or_concat pre with rfl | ⟨pre', b, rfl⟩
    · simp [gbLen_nil]
    · rw [List.concat_eq_append] at hp ⊢
      have hne : (pre' ++ [b]).length ≠ 0 := by simp
      simp only [hne, if_false]
      have hq : gbPosB 0 (pre' ++ [b]) = gbPosB 0 pre' ++ [(gbLen pre', gbLen pre' + (1 + b.2.length), gbName b)] := by
        rw [gbPosB_append]; simp [gbPosB]
      have hlen' : (gbPosB 0 pre').length = pre'.length := gbPosB_length 0 pre'
      have : g.pos[(pre' ++ [b]).length - 1]? = some (gbLen pre', gbLen pre' + (1 + b.2.length), gbName b) := by
        rw [hp, hq, List.append_assoc, List.getElem?_append_right (by simp [hlen'])]
        simp [hlen']
      rw [this]
      show gbLen pre' + (1 + b.2.length) = gbLen (pre' ++ [b])
      simp only [gbLen, gbFlat_append, gbFlat_cons, List.length_append, List.length_cons]
      simp [gbFlat]; omega

theorem gbRep_insert (g : Gb) (pre post : List GbBlock) (b' : GbBlock)
    (h : GbRep g (pre ++ post)) (hb' : GbBlockOk b') :
    GbRep ⟨g.lines.take (gbLen pre) ++ (b'.1 :: b'.2) ++ g.lines.drop (gbLen pre),
           g.pos.take pre.length ++ (gbLen pre, gbLen pre + (b'.1 :: b'.2).length, gbName b') ::
             (g.pos.drop pre.length).map (shiftP ((b'.1 :: b'.2).length : Nat))⟩
          (pre ++ b' :: post) := by
  obtain ⟨h2, h3, h4, h5, _⟩ := gbRep_at_le g pre post h
  refine ⟨?_, ?_, ?_⟩
  · simp only [h4, h5, gbFlat_append, gbFlat_cons]; simp
  · simp only [h2, h3]
    rw [gbPosB_shift post _ _ (gbLen pre + (1 + b'.2.length)) (by simp only [List.length_cons]; omega)]
    rw [gbPosB_append]
    simp [gbPosB]
    omega
  · intro x hx
    simp only [List.mem_append, List.mem_cons] at hx
    rcases hx with hx | rfl | hx
    · exact h.ok x (by simp [hx])
    · exact hb'
    · exact h.ok x (by simp [hx])

/-! ### `_to_lines` produces one well-formed block -/

/-- the name fits the 12-column name field and is not the terminator -/
def GbNameOk (name : Str) : Prop :=
  (upper (strip name)).length ≤ 12 ∧ (upper (strip name)).take 2 ≠ ['/', '/']
/-- FEATURES / ORIGIN content is stored without indentation: its lines must be continuation lines -/
def GbContentOk (name : Str) (content : List Str) : Prop :=
  (upper (strip name) = "FEATURES".toList ∨ upper (strip name) = "ORIGIN".toList) → ∀ c ∈ content, GbCont c

theorem gb_upper_range : ∀ n < 123, 97 ≤ n → isSpace (Char.ofNat (n - 32)) = false := by decide

theorem gb_upperC_not_space (c : Char) (h : isSpace c = false) : isSpace (upperC c) = false := by
  unfold upperC
  split
  · rename_i hc
    have h1 : 97 ≤ c.toNat := UInt32.le_iff_toNat_le.mp hc.1
    have h2 : c.toNat ≤ 122 := UInt32.le_iff_toNat_le.mp hc.2
    exact gb_upper_range c.toNat (by omega) h1
  · exact h

def gbHdrB (l : Str) : Bool :=
  match l with
  | c :: _ => c != ' ' && l.take 2 != ['/', '/']
  | [] => false

theorem gbHdr_of_B (l : Str) (h : gbHdrB l = true) : GbHdr l := by
  cases l with
  | nil => simp [gbHdrB] at h
  | cons c cs =>
    simp only [gbHdrB, Bool.and_eq_true, bne_iff_ne, ne_eq] at h
    exact ⟨⟨c, cs, rfl, h.1⟩, h.2⟩

theorem gb_space_of_blank (c : Char) (h : isSpace c = false) : c ≠ ' ' := by
  intro e; subst e; revert h; decide

theorem gb_upper_head (s : Str) (c : Char) (h : (upper (strip s)).head? = some c) : isSpace c = false := by
  unfold upper at h
  rw [List.head?_map] at h
  cases hq : (strip s).head? with
  | none => simp [hq] at h
  | some a =>
    simp only [hq, Option.map_some, Option.some.injEq] at h
    subst h
    exact gb_upperC_not_space a (gff_strip_head s a hq)

theorem gb_upper_last (s : Str) (c : Char) (h : (upper (strip s)).getLast? = some c) : isSpace c = false := by
  unfold upper at h
  rw [List.getLast?_map] at h
  cases hq : (strip s).getLast? with
  | none => simp [hq] at h
  | some a =>
    simp only [hq, Option.map_some, Option.some.injEq] at h
    subst h
    exact gb_upperC_not_space a (gff_strip_last s a hq)

theorem gb_dropWhile_blanks (m : Nat) (r : Str) :
    (List.replicate m ' ' ++ r).dropWhile isSpace = r.dropWhile isSpace := by
  induction m with
  | zero => simp
  | succ m ih =>
    rw [List.replicate_succ, List.cons_append, List.dropWhile_cons]
    have : isSpace ' ' = true := by decide
    simp only [this, if_true]
    exact ih

theorem gb_strip_padded (n : Str) (m : Nat) (h1 : ∀ c, n.head? = some c → isSpace c = false)
    (h2 : ∀ c, n.getLast? = some c → isSpace c = false) (hne : n ≠ []) :
    strip (n ++ List.replicate m ' ') = n := by
  have hl : lstrip (n ++ List.replicate m ' ') = n ++ List.replicate m ' ' := by
    apply gff_dropWhile_of_head
    intro c hc
    cases n with
    | nil => exact absurd rfl hne
    | cons a t => exact h1 c (by simpa using hc)
  unfold strip
  rw [hl]
  unfold rstrip
  rw [List.reverse_append, List.reverse_replicate, gb_dropWhile_blanks,
    gff_dropWhile_of_head n.reverse (by intro c hc; rw [List.head?_reverse] at hc; exact h2 c hc)]
  simp

theorem gb_zipCols_cont (ns cs : List Str) (h : ∀ x ∈ ns, x = [] ∨ x.head? = some ' ') :
    ∀ l ∈ zipCols ns cs, GbCont l := by
  induction ns generalizing cs with
  | nil => intro l hl; simp [zipCols] at hl
  | cons n ns ih =>
    cases cs with
    | nil => intro l hl; simp [zipCols] at hl
    | cons c cs =>
      intro l hl
      simp only [zipCols, List.mem_cons] at hl
      rcases hl with rfl | hl
      · right
        rcases h n (by simp) with rfl | hn
        · simp [ljust, List.replicate_succ]
        · cases n with
          | nil => simp at hn
          | cons a t => simpa [ljust] using hn
      · exact ih cs (fun x hx => h x (by simp [hx])) l hl

def gbFeatHdr : Str := "FEATURES".toList ++ List.replicate 13 ' ' ++ "Location/Qualifiers".toList
theorem gbFeatHdr_ok : gbHdrB gbFeatHdr = true ∧ strip (gbFeatHdr.take 12) = "FEATURES".toList := by decide
theorem gbOriginHdr_ok :
    gbHdrB "ORIGIN".toList = true ∧ strip ("ORIGIN".toList.take 12) = "ORIGIN".toList := by decide

/-- `_to_lines` without the refusals added by the repair (what is left once they have passed) -/
def gbToLinesCore (name : Str) (content : List Str) (subs : List (Str × List Str)) : Except Err (List Str) :=
  let name := upper (strip name)
  if name.isEmpty then .error .valueError else
  if name = "FEATURES".toList then .ok (("FEATURES".toList ++ List.replicate 13 ' ' ++ "Location/Qualifiers".toList) :: content)
  else if name = "ORIGIN".toList then .ok ("ORIGIN".toList :: content)
  else
    let subs := odOfList (subs.map (fun p => (strip (upper p.1), p.2)))
    if content.isEmpty ∨ subs.any (·.2.isEmpty) then .error .valueError else
    let nameCol := (name :: List.replicate (content.length - 1) []) ++
      subs.flatMap (fun p => (' ' :: ' ' :: p.1) :: List.replicate (p.2.length - 1) [])
    let contentCol := content ++ subs.flatMap (·.2)
    .ok (zipCols nameCol contentCol)

/-- whatever `_to_lines` accepts satisfies the two well-formedness conditions: the refusals of the
repaired code are exactly what the invariant needs -/
theorem gbToLines_accepts (name : Str) (content : List Str) (subs : List (Str × List Str)) (ins : List Str)
    (h : gbToLines name content subs = .ok ins) :
    gbToLinesCore name content subs = .ok ins ∧ GbNameOk name ∧ GbContentOk name content := by
  unfold gbToLines at h
  unfold gbToLinesCore
  simp only at h ⊢
  split at h
  · cases h
  · rename_i hne
    split at h
    · cases h
    · rename_i hnm
      split at h
      · cases h
      · split at h
        · cases h
        · rename_i hcont
          simp only [hne, if_false]
          refine ⟨h, ⟨by omega, fun e => hnm (Or.inr e)⟩, ?_⟩
          intro hfo c hc
          have hall : content.any (fun l => !l.isEmpty && l.head? != some ' ') = false := by
            cases hq : content.any (fun l => !l.isEmpty && l.head? != some ' ') with
            | false => rfl
            | true => exact absurd ⟨hfo, hq⟩ hcont
          rw [List.any_eq_false] at hall
          have := hall c hc
          cases c with
          | nil => left; rfl
          | cons a t =>
            right
            simpa using this

theorem gbToLines_block (name : Str) (content : List Str) (subs : List (Str × List Str)) (ins : List Str)
    (h0 : gbToLines name content subs = .ok ins) :
    ∃ b' : GbBlock, GbBlockOk b' ∧ ins = b'.1 :: b'.2 ∧ gbName b' = upper (strip name) := by
  obtain ⟨h, hn, hc⟩ := gbToLines_accepts name content subs ins h0
  have hn1 : (upper (strip name)).length ≤ 12 := hn.1
  have hn2 : (upper (strip name)).take 2 ≠ ['/', '/'] := hn.2
  unfold gbToLinesCore at h
  simp only at h
  split at h
  · cases h
  · rename_i hne
    split at h
    · rename_i hf
      injection h with h
      refine ⟨(gbFeatHdr, content), ⟨gbHdr_of_B _ gbFeatHdr_ok.1, hc (Or.inl hf)⟩, h.symm, ?_⟩
      rw [hf]; exact gbFeatHdr_ok.2
    · split at h
      · rename_i _ ho
        injection h with h
        refine ⟨("ORIGIN".toList, content), ⟨gbHdr_of_B _ gbOriginHdr_ok.1, hc (Or.inr ho)⟩, h.symm, ?_⟩
        rw [ho]; exact gbOriginHdr_ok.2
      · split at h
        · cases h
        · rename_i hcont
          injection h with h
          have hcne : content ≠ [] := by
            intro e; apply hcont; left; simp [e]
          obtain ⟨c0, crest, rfl⟩ := List.exists_cons_of_ne_nil hcne
          generalize hN : upper (strip name) = n at *
          have hnne : n ≠ [] := by
            intro e; apply hne; simp [e]
          have hh1 : ∀ c, n.head? = some c → isSpace c = false := by
            intro c hc'; rw [← hN] at hc'; exact gb_upper_head name c hc'
          have hh2 : ∀ c, n.getLast? = some c → isSpace c = false := by
            intro c hc'; rw [← hN] at hc'; exact gb_upper_last name c hc'
          simp only [List.length_cons, Nat.add_sub_cancel, List.cons_append, zipCols] at h
          refine ⟨(ljust 12 n ++ c0, _), ⟨⟨?_, ?_⟩, ?_⟩, h.symm, ?_⟩
          · obtain ⟨a, t, rfl⟩ := List.exists_cons_of_ne_nil hnne
            exact ⟨a, t ++ (List.replicate (12 - (a :: t).length) ' ' ++ c0), by simp [ljust],
              gb_space_of_blank a (hh1 a rfl)⟩
          · have h2 := hn2
            match n, hnne, h2, hh1 with
            | [a], _, _, hh1 =>
              simp [ljust, List.replicate_succ]
            | a :: b :: t, _, h2, _ =>
              simpa [ljust] using h2
          · apply gb_zipCols_cont
            intro x hx
            simp only [List.mem_append, List.mem_replicate, List.mem_flatMap, List.mem_cons] at hx
            rcases hx with ⟨_, rfl⟩ | ⟨p, _, rfl | ⟨_, rfl⟩⟩
            · left; rfl
            · right; rfl
            · left; rfl
          · show strip ((ljust 12 n ++ c0).take 12) = n
            have hl : (ljust 12 n).length = 12 := by
              simp [ljust]; omega
            rw [List.take_left' hl]
            exact gb_strip_padded n _ hh1 hh2 hnne

/-! ### the edit operations keep the representation -/

/-- well-formed file object: blocks closed by `//`, index = running positions -/
def GbWF (g : Gb) : Prop := ∃ bs, GbRep g bs

theorem gbIdx_lt (g : Gb) (i : Int) (k : Nat) (h : gbIdx g i true = .ok k) : k < g.pos.length := by
  unfold gbIdx at h
  simp only [true_and, not_true_eq_false, false_and, or_false] at h
  generalize (if i < 0 then (↑g.pos.length : Int) + i else i) = j at h
  by_cases c : j ≥ ↑g.pos.length
  · rw [if_pos c] at h; cases h
  · rw [if_neg c] at h
    by_cases c2 : j < 0
    · rw [if_pos c2] at h; cases h
    · rw [if_neg c2] at h; injection h with h; omega
theorem gbIdx_le (g : Gb) (i : Int) (k : Nat) (h : gbIdx g i false = .ok k) : k ≤ g.pos.length := by
  unfold gbIdx at h
  simp only [Bool.false_eq_true, false_and, not_false_eq_true, true_and, false_or] at h
  generalize (if i < 0 then (↑g.pos.length : Int) + i else i) = j at h
  by_cases c : j > ↑g.pos.length
  · rw [if_pos c] at h; cases h
  · rw [if_neg c] at h
    by_cases c2 : j < 0
    · rw [if_pos c2] at h; cases h
    · rw [if_neg c2] at h; injection h with h; omega

theorem gb_set_wf (g g' : Gb) (i : Int) (name : Str) (content : List Str) (subs : List (Str × List Str))
    (hw : GbWF g)
    (h : gbSet g i name content subs = .ok g') : GbWF g' := by
  obtain ⟨bs, hrep⟩ := hw
  unfold gbSet at h
  split at h
  · cases h
  · rename_i k hk
    split at h
    · cases h
    · rename_i ins hins
      obtain ⟨b', hb', rfl, hname⟩ := gbToLines_block name content subs ins hins
      have hklt := gbIdx_lt g i k hk
      rw [hrep.pos, gbPosB_length] at hklt
      obtain ⟨pre, b, post, rfl, rfl⟩ := gb_split bs k hklt
      obtain ⟨hat, -⟩ := gbRep_at g pre post b hrep
      rw [hat] at h
      simp only at h
      injection h with h
      subst h
      rw [← hname]
      exact ⟨_, gbRep_replace g pre post b b' hrep hb'⟩

theorem gb_del_wf (g g' : Gb) (i : Int) (hw : GbWF g) (h : gbDel g i = .ok g') : GbWF g' := by
  obtain ⟨bs, hrep⟩ := hw
  unfold gbDel at h
  split at h
  · cases h
  · rename_i k hk
    have hklt := gbIdx_lt g i k hk
    rw [hrep.pos, gbPosB_length] at hklt
    obtain ⟨pre, b, post, rfl, rfl⟩ := gb_split bs k hklt
    obtain ⟨hat, -⟩ := gbRep_at g pre post b hrep
    rw [hat] at h
    simp only at h
    injection h with h
    subst h
    exact ⟨_, gbRep_delete g pre post b hrep⟩

theorem gb_insert_wf (g g' : Gb) (i : Int) (name : Str) (content : List Str) (subs : List (Str × List Str))
    (hw : GbWF g)
    (h : gbInsert g i name content subs = .ok g') : GbWF g' := by
  obtain ⟨bs, hrep⟩ := hw
  unfold gbInsert at h
  split at h
  · cases h
  · rename_i k hk
    split at h
    · cases h
    · rename_i ins hins
      obtain ⟨b', hb', rfl, hname⟩ := gbToLines_block name content subs ins hins
      have hkle := gbIdx_le g i k hk
      rw [hrep.pos, gbPosB_length] at hkle
      obtain ⟨pre, post, rfl, rfl⟩ := gb_split_le bs k hkle
      obtain ⟨-, -, -, -, hstart⟩ := gbRep_at_le g pre post hrep
      simp only at h
      rw [hstart] at h
      injection h with h
      subst h
      rw [← hname]
      exact ⟨_, gbRep_insert g pre post b' hrep hb'⟩

theorem gb_append_wf (g g' : Gb) (name : Str) (content : List Str) (subs : List (Str × List Str))
    (hw : GbWF g)
    (h : gbAppend g name content subs = .ok g') : GbWF g' :=
  gb_insert_wf g g' _ name content subs hw h

theorem gb_setField_wf (g g' : Gb) (name : Str) (content : List Str) (subs : List (Str × List Str))
    (hw : GbWF g)
    (h : gbSetField g name content subs = .ok g') : GbWF g' := by
  unfold gbSetField at h
  split at h
  · exact gb_append_wf g g' _ content subs hw h
  · exact gb_set_wf g g' _ _ content subs hw h
  · cases h

theorem gbWF_inv (g : Gb) (hw : GbWF g) : g.pos = gbFind g.lines := by
  obtain ⟨bs, h⟩ := hw
  exact gbRep_inv g bs h

theorem gbWF_empty : GbWF Gb.empty := ⟨[], gbRep_empty⟩

/-- reading a text that consists of well-formed blocks closed by `//` gives a well-formed object -/
theorem gbWF_read (bs : List GbBlock) (h : ∀ b ∈ bs, GbBlockOk b) : GbWF (gbRead (gbFlat bs ++ [gbTerm])) :=
  ⟨bs, rfl, by show gbFind _ = _; unfold gbFind; rw [gbFindGo_blocks bs h]; rfl, h⟩

end BiotiteModel.C12

import BiotiteModel.Proofs.C08AffOpt
/-! Generic `follow_trace` (`followG`): every yielded trace is a good walk; counting. -/
namespace BiotiteModel.C08

section
variable {σ : Type} (next : σ → List (σ × Col)) (pos : σ → Nat × Nat) (kind : σ → Kind) (val : σ → Int)
  (Real : σ → Prop) (cost : Nat × Nat → Kind → Col → Int)

/-- a finished trace below node `s` -/
def GoodG (s : σ) (suffix x : Aln) : Prop :=
  ∃ pre s0, x = pre ++ suffix ∧ Real s0 ∧ next s0 = [] ∧ walk (pos s0) pre = some (pos s) ∧
    scorePosK cost (pos s0) .m pre = val s ∧ noAbutK .m pre = true ∧ lastKind .m pre = kind s

theorem runBranchesG_all (mx : Nat) (run : σ × Col → Nat → List Aln × Nat) (P : Aln → Prop) (ds : List (σ × Col))
    (h : ∀ d ∈ ds, ∀ c, ∀ x ∈ (run d c).1, P x) : ∀ c, ∀ x ∈ (runBranchesG mx run ds c).1, P x := by
  induction ds with
  | nil => intro c x hx; simp [runBranchesG] at hx
  | cons d ds ih =>
    intro c x hx
    have ih' := ih (fun d' hd' => h d' (List.mem_cons_of_mem _ hd'))
    simp only [runBranchesG] at hx
    split at hx
    · simp only [List.mem_append] at hx
      rcases hx with hx | hx
      · exact h d List.mem_cons_self _ x hx
      · exact ih' _ x hx
    · exact ih' _ x hx

theorem followG_good (mx : Nat)
    (hnext : ∀ s, Real s → ∀ d ∈ next s, Real d.1 ∧ stepPos (pos d.1) d.2 = some (pos s) ∧
      val s = val d.1 + cost (pos d.1) (kind d.1) d.2 ∧ allowedK (kind d.1) d.2 = true ∧ d.2.kind = kind s)
    (hend : ∀ s, Real s → next s = [] → val s = 0 ∧ kind s = .m) :
    ∀ (fuel : Nat) (s : σ) (suffix : Aln) (c : Nat), Real s →
      ∀ x ∈ (followG next mx fuel s suffix c).1, GoodG next pos kind val Real cost s suffix x := by
  intro fuel
  induction fuel with
  | zero => intro s suffix c _ x hx; simp [followG] at hx
  | succ fuel ih =>
    intro s suffix c hR x hx
    have step : ∀ d ∈ next s, ∀ y, GoodG next pos kind val Real cost d.1 (d.2 :: suffix) y →
        GoodG next pos kind val Real cost s suffix y := by
      intro d hd y hy
      obtain ⟨pre, s0, he, hR0, hn0, hw, hs, hna, hlk⟩ := hy
      obtain ⟨_, hstep, hval, hal, hk⟩ := hnext s hR d hd
      refine ⟨pre ++ [d.2], s0, by simp [he], hR0, hn0, ?_, ?_, ?_, ?_⟩
      · rw [walk_append, hw]; simp [walk, hstep]
      · rw [scorePosK_append cost (pos s0) (pos d.1) .m pre d.2 hw, hs, hlk, hval]
      · rw [noAbutK_append, hna, hlk, hal]; rfl
      · rw [lastKind_append, hk]
    simp only [followG] at hx
    split at hx
    · rename_i hnil
      simp at hx; subst hx
      obtain ⟨hv, hk⟩ := hend s hR hnil
      exact ⟨[], s, rfl, hR, hnil, rfl, by simp [scorePosK, hv], rfl, by simp [lastKind, hk]⟩
    · rename_i d0 ds hds
      simp only [List.mem_append] at hx
      rcases hx with hx | hx
      · exact runBranchesG_all mx _ (GoodG next pos kind val Real cost s suffix) ds
          (fun d hd c' y hy => step d (by rw [hds]; exact List.mem_cons_of_mem _ hd) y
            (ih _ _ _ (hnext s hR d (by rw [hds]; exact List.mem_cons_of_mem _ hd)).1 y hy)) c x hx
      · exact step d0 (by rw [hds]; exact List.mem_cons_self) x
          (ih _ _ _ (hnext s hR d0 (by rw [hds]; exact List.mem_cons_self)).1 x hx)
end

theorem runBranchesG_count {σ : Type} (mx : Nat) (run : σ × Col → Nat → List Aln × Nat) (ds : List (σ × Col))
    (h : ∀ d c, ((run d c).1.length + c ≤ (run d c).2 + 1) ∧ c ≤ (run d c).2 ∧ (c ≤ mx → (run d c).2 ≤ mx)) :
    ∀ c, ((runBranchesG mx run ds c).1.length + c ≤ (runBranchesG mx run ds c).2) ∧
      c ≤ (runBranchesG mx run ds c).2 ∧ (c ≤ mx → (runBranchesG mx run ds c).2 ≤ mx) := by
  induction ds with
  | nil => intro c; simp [runBranchesG]
  | cons d ds ih =>
    intro c
    simp only [runBranchesG]
    split
    · rename_i hlt
      obtain ⟨h1, h2, h3⟩ := h d (c + 1)
      obtain ⟨i1, i2, i3⟩ := ih (run d (c + 1)).2
      simp only [List.length_append]
      refine ⟨by omega, by omega, fun _ => i3 (h3 (by omega))⟩
    · exact ih c

theorem followG_count {σ : Type} (next : σ → List (σ × Col)) (mx : Nat) :
    ∀ (fuel : Nat) (s : σ) (suffix : Aln) (c : Nat),
      ((followG next mx fuel s suffix c).1.length + c ≤ (followG next mx fuel s suffix c).2 + 1) ∧
      c ≤ (followG next mx fuel s suffix c).2 ∧ (c ≤ mx → (followG next mx fuel s suffix c).2 ≤ mx) := by
  intro fuel
  induction fuel with
  | zero => intro s suffix c; simp [followG]
  | succ fuel ih =>
    intro s suffix c
    simp only [followG]
    split
    · simp; omega
    · rename_i d0 ds hds
      obtain ⟨b1, b2, b3⟩ := runBranchesG_count mx
        (fun d c' => followG next mx fuel d.1 (d.2 :: suffix) c') ds (fun d c' => ih _ _ c') c
      obtain ⟨r1, r2, r3⟩ := ih d0.1 (d0.2 :: suffix)
        (runBranchesG mx (fun d c' => followG next mx fuel d.1 (d.2 :: suffix) c') ds c).2
      simp only [List.length_append]
      refine ⟨by omega, by omega, fun hc => r3 (b3 hc)⟩

end BiotiteModel.C08

import BiotiteModel.Model.C18Sdf
/-!
# C18 — helper lemmas: digit strings, padding, stripping, token splitting
-/
namespace BiotiteModel.C18

/-! ## digits -/

theorem natReprF_fuel : ∀ f n g, n ≤ f → n ≤ g → natReprF f n = natReprF g n := by
  intro f
  induction f with
  | zero =>
    intro n g hf hg
    have : n = 0 := by omega
    subst this
    cases g <;> simp [natReprF]
  | succ f ih =>
    intro n g hf hg
    cases g with
    | zero =>
      have : n = 0 := by omega
      subst this
      simp [natReprF]
    | succ g =>
      simp only [natReprF]
      split
      · rfl
      · rw [ih (n / 10) g (by omega) (by omega)]

theorem natRepr_eq (n : Nat) :
    natRepr n = if n < 10 then [digitChar n] else natRepr (n / 10) ++ [digitChar (n % 10)] := by
  unfold natRepr
  cases n with
  | zero => simp [natReprF]
  | succ k =>
    simp only [natReprF]
    split
    · rfl
    · rw [natReprF_fuel k ((k + 1) / 10) ((k + 1) / 10) (by omega) (Nat.le_refl _)]

def isDig (c : Char) : Bool := 48 ≤ c.toNat && c.toNat ≤ 57

theorem digit_cases (d : Nat) (h : d < 10) :
    d = 0 ∨ d = 1 ∨ d = 2 ∨ d = 3 ∨ d = 4 ∨ d = 5 ∨ d = 6 ∨ d = 7 ∨ d = 8 ∨ d = 9 := by omega

theorem digitVal_digitChar (d : Nat) (h : d < 10) : digitVal? (digitChar d) = some d := by
  rcases digit_cases d h with rfl | rfl | rfl | rfl | rfl | rfl | rfl | rfl | rfl | rfl <;> decide

theorem isDig_digitChar (d : Nat) (h : d < 10) : isDig (digitChar d) = true := by
  rcases digit_cases d h with rfl | rfl | rfl | rfl | rfl | rfl | rfl | rfl | rfl | rfl <;> decide

theorem natRepr_ne_nil (n : Nat) : natRepr n ≠ [] := by
  rw [natRepr_eq]; split <;> simp

theorem natRepr_isDig (n : Nat) : ∀ c ∈ natRepr n, isDig c = true := by
  induction n using Nat.strongRecOn with
  | _ n ih =>
    rw [natRepr_eq]
    split
    · intro c hc
      simp at hc; subst hc
      exact isDig_digitChar n (by omega)
    · intro c hc
      rcases List.mem_append.mp hc with h | h
      · exact ih (n / 10) (by omega) c h
      · simp at h; subst h
        exact isDig_digitChar _ (Nat.mod_lt _ (by omega))

theorem fixedDigits_isDig (w n : Nat) : ∀ c ∈ fixedDigits w n, isDig c = true := by
  induction w generalizing n with
  | zero => simp [fixedDigits]
  | succ w ih =>
    intro c hc
    simp only [fixedDigits] at hc
    rcases List.mem_append.mp hc with h | h
    · exact ih _ c h
    · simp at h; subst h
      exact isDig_digitChar _ (Nat.mod_lt _ (by omega))

theorem fixedDigits_length (w n : Nat) : (fixedDigits w n).length = w := by
  induction w generalizing n with
  | zero => rfl
  | succ w ih => simp [fixedDigits, ih]

theorem digitsAcc_append (acc : Option Nat) (a b : Line) :
    digitsAcc acc (a ++ b) = digitsAcc (digitsAcc acc a) b := by
  simp [digitsAcc, List.foldl_append]

theorem digitsAcc_single (a d : Nat) (h : d < 10) :
    digitsAcc (some a) [digitChar d] = some (a * 10 + d) := by
  simp [digitsAcc, digitVal_digitChar d h]

theorem digitsAcc_natRepr (n : Nat) : digitsAcc (some 0) (natRepr n) = some n := by
  induction n using Nat.strongRecOn with
  | _ n ih =>
    rw [natRepr_eq]
    split
    · rw [digitsAcc_single 0 n (by omega)]; simp
    · rw [digitsAcc_append, ih (n / 10) (by omega), digitsAcc_single _ _ (Nat.mod_lt _ (by omega))]
      congr 1; omega

theorem digitsVal_natRepr (n : Nat) : digitsVal (natRepr n) = some n := by
  unfold digitsVal
  have h1 : (natRepr n).isEmpty = false := by
    have := natRepr_ne_nil n
    cases h : natRepr n with
    | nil => exact absurd h this
    | cons c cs => rfl
  rw [h1]
  simpa using digitsAcc_natRepr n

theorem digitsAcc_fixed (w a n : Nat) :
    digitsAcc (some a) (fixedDigits w n) = some (a * 10 ^ w + n % 10 ^ w) := by
  induction w generalizing a n with
  | zero => simp [fixedDigits, digitsAcc, Nat.mod_one]
  | succ w ih =>
    simp only [fixedDigits]
    rw [digitsAcc_append, ih, digitsAcc_single _ _ (Nat.mod_lt _ (by omega))]
    congr 1
    have h1 : n % 10 ^ (w + 1) = (n / 10 % 10 ^ w) * 10 + n % 10 := by
      rw [Nat.pow_succ, Nat.mul_comm (10 ^ w) 10, Nat.mod_mul]
      omega
    rw [h1, Nat.pow_succ]
    simp [Nat.add_mul, Nat.mul_assoc, Nat.add_assoc]

theorem natRepr_length_le (k n : Nat) (h : n < 10 ^ (k + 1)) : (natRepr n).length ≤ k + 1 := by
  induction k generalizing n with
  | zero =>
    rw [natRepr_eq]
    have : n < 10 := by simpa using h
    simp [this]
  | succ k ih =>
    rw [natRepr_eq]
    split
    · simp
    · have : n / 10 < 10 ^ (k + 1) := by
        apply Nat.div_lt_of_lt_mul
        rw [Nat.pow_succ] at h
        omega
      have := ih (n / 10) this
      simp; omega

/-! ## blanks, padding, stripping -/

def NoSp (s : Line) : Prop := ∀ c ∈ s, isSp c = false
def TightL (s : Line) : Prop := ∀ c t, s = c :: t → isSp c = false
def TightR (s : Line) : Prop := TightL s.reverse

theorem isSp_space : isSp ' ' = true := by decide

theorem isDig_not_sp (c : Char) (h : isDig c = true) : isSp c = false := by
  cases hc : isSp c with
  | false => rfl
  | true =>
    have : c = ' ' := by simpa [isSp] using hc
    subst this
    exact absurd h (by decide)

theorem NoSp.tightL {s : Line} (h : NoSp s) : TightL s := by
  intro c t hs; subst hs; exact h c (by simp)

theorem NoSp.tightR {s : Line} (h : NoSp s) : TightR s := by
  intro c t hs
  apply h c
  have : c ∈ s.reverse := by rw [hs]; simp
  simpa using this

theorem NoSp.append {a b : Line} (ha : NoSp a) (hb : NoSp b) : NoSp (a ++ b) := by
  intro c hc
  rcases List.mem_append.mp hc with h | h
  · exact ha c h
  · exact hb c h

theorem noSp_of_isDig {s : Line} (h : ∀ c ∈ s, isDig c = true) : NoSp s :=
  fun c hc => isDig_not_sp c (h c hc)

theorem natRepr_noSp (n : Nat) : NoSp (natRepr n) := noSp_of_isDig (natRepr_isDig n)

theorem dropWhile_spaces (k : Nat) (s : Line) :
    (List.replicate k ' ' ++ s).dropWhile isSp = s.dropWhile isSp := by
  induction k with
  | zero => simp
  | succ k ih => simp [List.replicate_succ, isSp_space, ih]

theorem dropWhile_tightL {s : Line} (h : TightL s) : s.dropWhile isSp = s := by
  cases s with
  | nil => rfl
  | cons c t => simp [h c t rfl]

theorem strip_pad (a b : Nat) (s : Line) (hl : TightL s) (hr : TightR s) :
    strip (List.replicate a ' ' ++ s ++ List.replicate b ' ') = s := by
  unfold strip stripL stripR
  rw [List.append_assoc, dropWhile_spaces]
  cases s with
  | nil =>
    have : (List.replicate b ' ').dropWhile isSp = [] := by
      simpa using dropWhile_spaces b []
    simp [this]
  | cons c t =>
    have h1 : ((c :: t) ++ List.replicate b ' ').dropWhile isSp = (c :: t) ++ List.replicate b ' ' := by
      simp [hl c t rfl]
    rw [h1, List.reverse_append, List.reverse_replicate, dropWhile_spaces, dropWhile_tightL hr]
    simp

theorem strip_padL (w : Nat) (s : Line) (hl : TightL s) (hr : TightR s) : strip (padL w s) = s := by
  have := strip_pad (w - s.length) 0 s hl hr
  simpa [padL] using this

theorem strip_padR (w : Nat) (s : Line) (hl : TightL s) (hr : TightR s) : strip (padR w s) = s := by
  have := strip_pad 0 (w - s.length) s hl hr
  simpa [padR] using this

theorem strip_tight (s : Line) (hl : TightL s) (hr : TightR s) : strip s = s := by
  have := strip_pad 0 0 s hl hr
  simpa using this

theorem padL_length (w : Nat) (s : Line) : (padL w s).length = max w s.length := by
  simp [padL]; omega

theorem padL_length_of_le (w : Nat) (s : Line) (h : s.length ≤ w) : (padL w s).length = w := by
  simp [padL]; omega

theorem padR_length_of_le (w : Nat) (s : Line) (h : s.length ≤ w) : (padR w s).length = w := by
  simp [padR]; omega

/-! ## `int(...)` of what the writer prints -/

theorem signedVal_of_digits (s : Line) (n : Nat) (hd : ∀ c ∈ s, isDig c = true) (hv : digitsVal s = some n) :
    signedVal s = some (n : Int) := by
  unfold signedVal
  split
  · exact absurd (hd '-' (by simp)) (by decide)
  · exact absurd (hd '+' (by simp)) (by decide)
  · simp [hv]

theorem pyInt_natRepr (w n : Nat) : pyInt (padL w (natRepr n)) = some (n : Int) := by
  unfold pyInt
  rw [strip_padL w _ (natRepr_noSp n).tightL (natRepr_noSp n).tightR]
  exact signedVal_of_digits _ n (natRepr_isDig n) (digitsVal_natRepr n)

theorem intRepr_noSp (i : Int) : NoSp (intRepr i) := by
  unfold intRepr
  split
  · intro c hc
    rcases List.mem_cons.mp hc with h | h
    · subst h; decide
    · exact natRepr_noSp _ c h
  · exact natRepr_noSp _

theorem signedVal_intRepr (i : Int) : signedVal (intRepr i) = some i := by
  unfold intRepr
  split
  · rename_i h
    simp only [signedVal, digitsVal_natRepr]
    simp
    omega
  · rename_i h
    rw [signedVal_of_digits _ i.natAbs (natRepr_isDig _) (digitsVal_natRepr _)]
    congr 1; omega

theorem pyInt_intRepr (w : Nat) (i : Int) : pyInt (padL w (intRepr i)) = some i := by
  unfold pyInt
  rw [strip_padL w _ (intRepr_noSp i).tightL (intRepr_noSp i).tightR]
  exact signedVal_intRepr i

theorem pyInt_intRepr_tight (i : Int) : pyInt (intRepr i) = some i := by
  unfold pyInt
  rw [strip_tight _ (intRepr_noSp i).tightL (intRepr_noSp i).tightR]
  exact signedVal_intRepr i

theorem pyInt_natRepr_tight (n : Nat) : pyInt (natRepr n) = some (n : Int) := by
  have := pyInt_natRepr 0 n
  simpa [padL] using this

/-! ## `str.split()` -/

theorem splitAux_token (t : Line) (ht : NoSp t) (cur rest : Line) :
    splitAux cur (t ++ rest) = splitAux (t.reverse ++ cur) rest := by
  induction t generalizing cur with
  | nil => simp
  | cons c t ih =>
    have hc : isSp c = false := ht c (by simp)
    have ht' : NoSp t := fun d hd => ht d (by simp [hd])
    simp only [List.cons_append, splitAux, hc]
    simp only [Bool.false_eq_true, if_false]
    rw [ih ht']
    simp

theorem splitWs_token_sp (t : Line) (ht : NoSp t) (hne : t ≠ []) (rest : Line) :
    splitWs (t ++ ' ' :: rest) = t :: splitWs rest := by
  unfold splitWs
  rw [splitAux_token t ht]
  have : (t.reverse ++ []).isEmpty = false := by
    cases t with
    | nil => exact absurd rfl hne
    | cons c t => simp
  simp [splitAux, isSp_space, hne]

theorem splitWs_token (t : Line) (ht : NoSp t) (hne : t ≠ []) : splitWs t = [t] := by
  unfold splitWs
  have := splitAux_token t ht [] []
  simp only [List.append_nil] at this
  rw [this]
  cases t with
  | nil => exact absurd rfl hne
  | cons c t => simp [splitAux]

theorem splitWs_sp (rest : Line) : splitWs (' ' :: rest) = splitWs rest := by
  simp [splitWs, splitAux, isSp_space]

theorem splitWs_nil : splitWs [] = [] := by simp [splitWs, splitAux]

/-! ## batching -/

theorem batchedF_spec {α : Type} (n : Nat) (hn : 0 < n) : ∀ (f : Nat) (xs : List α), xs.length ≤ f →
    (batchedF n f xs).flatten = xs ∧ ∀ b ∈ batchedF n f xs, 0 < b.length ∧ b.length ≤ n := by
  intro f
  induction f with
  | zero =>
    intro xs h
    have : xs = [] := List.eq_nil_of_length_eq_zero (by omega)
    subst this
    simp [batchedF]
  | succ f ih =>
    intro xs h
    cases xs with
    | nil => simp [batchedF]
    | cons x xs =>
      have hl : ((x :: xs).drop n).length ≤ f := by simp at h ⊢; omega
      obtain ⟨h1, h2⟩ := ih _ hl
      simp only [batchedF, List.isEmpty_cons, Bool.false_eq_true, if_false, List.flatten_cons]
      refine ⟨by rw [h1, List.take_append_drop], ?_⟩
      intro b hb
      rcases List.mem_cons.mp hb with rfl | hb
      · simp [List.length_take]; omega
      · exact h2 b hb

theorem batchedF_nil_iff {α : Type} (n : Nat) (hn : 0 < n) : ∀ (f : Nat) (xs : List α), xs.length ≤ f →
    (batchedF n f xs = [] ↔ xs = []) := by
  intro f xs h
  cases f with
  | zero =>
    have : xs = [] := List.eq_nil_of_length_eq_zero (by omega)
    simp [this, batchedF]
  | succ f =>
    cases xs with
    | nil => simp [batchedF]
    | cons x xs => simp [batchedF]

/-- every batch but the last is full -/
theorem batchedF_full {α : Type} (n : Nat) (hn : 0 < n) : ∀ (f : Nat) (xs : List α), xs.length ≤ f →
    ∀ b ∈ (batchedF n f xs).dropLast, b.length = n := by
  intro f
  induction f with
  | zero => intro xs _ b hb; simp [batchedF] at hb
  | succ f ih =>
    intro xs h b hb
    cases xs with
    | nil => simp [batchedF] at hb
    | cons x xs =>
      have hl : ((x :: xs).drop n).length ≤ f := by simp at h ⊢; omega
      simp only [batchedF, List.isEmpty_cons, Bool.false_eq_true, if_false] at hb
      cases hr : batchedF n f ((x :: xs).drop n) with
      | nil => rw [hr] at hb; simp at hb
      | cons r rs =>
        rw [hr] at hb
        simp only [List.dropLast_cons₂, List.mem_cons] at hb
        rcases hb with rfl | hb
        · have hne : (x :: xs).drop n ≠ [] := by
            intro e
            have := (batchedF_nil_iff n hn f _ hl).mpr e
            rw [hr] at this; cases this
          have : n < (x :: xs).length := by
            by_cases hlt : n < (x :: xs).length
            · exact hlt
            · exact absurd (List.drop_eq_nil_of_le (by omega)) hne
          rw [List.length_take]; omega
        · have := ih _ hl b (by rw [hr]; exact hb)
          exact this

/-! ## slices and widths -/

theorem slice_at (p x r : Line) (a b : Nat) (ha : p.length = a) (hb : a + x.length = b) :
    slice a b (p ++ (x ++ r)) = x := by
  unfold slice
  rw [List.drop_left' ha]
  have : b - a = x.length := by omega
  rw [this, List.take_left' rfl]

theorem capitalize_length (s : Line) : (capitalize s).length = s.length := by
  cases s <;> simp [capitalize]

/-- The rounded value still has at most 5 (4 when negative) pre-decimal digits. -/
def CoordOk (q : Q) : Prop := q.k4 < (if q.neg then 10 ^ 8 else 10 ^ 9)

instance (q : Q) : Decidable (CoordOk q) := by unfold CoordOk; infer_instance

theorem fmt4_length_le (q : Q) (h : CoordOk q) : (fmt4 q).length ≤ 10 := by
  unfold CoordOk at h
  unfold fmt4
  simp only [List.length_append, List.length_cons, fixedDigits_length]
  cases hq : q.neg with
  | true =>
    simp only [hq, if_true] at h
    have := natRepr_length_le 3 (q.k4 / 10000) (by omega)
    simp; omega
  | false =>
    simp only [hq] at h
    have := natRepr_length_le 4 (q.k4 / 10000) (by simp at h ⊢; omega)
    simp; omega

theorem pad3_nat_length (n : Nat) (h : n < 1000) : (padL 3 (natRepr n)).length = 3 :=
  padL_length_of_le 3 _ (natRepr_length_le 2 n (by omega))

theorem codeOfCharge_lt (c : Int) : codeOfCharge c < 10 := by
  unfold codeOfCharge; split <;> omega

theorem replicate_flatten_length (k : Nat) (s : Line) : (List.replicate k s).flatten.length = k * s.length := by
  induction k with
  | zero => simp
  | succ k ih => simp [List.replicate_succ, ih, Nat.succ_mul]; omega

theorem atomLineV2000_length (a : Atom) (hx : CoordOk a.x) (hy : CoordOk a.y) (hz : CoordOk a.z)
    (he : a.elem.length ≤ 3) : (atomLineV2000 a).length = 69 := by
  unfold atomLineV2000
  have h1 := padL_length_of_le 10 _ (fmt4_length_le a.x hx)
  have h2 := padL_length_of_le 10 _ (fmt4_length_le a.y hy)
  have h3 := padL_length_of_le 10 _ (fmt4_length_le a.z hz)
  have h4 := padR_length_of_le 3 (capitalize a.elem) (by rw [capitalize_length]; exact he)
  have h5 := pad3_nat_length (codeOfCharge a.charge) (by have := codeOfCharge_lt a.charge; omega)
  simp only [List.length_append, List.length_cons, h1, h2, h3, h4, h5, replicate_flatten_length]
  simp [padL]

theorem bondLineV2000_length (d : Nat) (b : Nat × Nat × Nat) (hi : b.1 < 999) (hj : b.2.1 < 999)
    (hd : d < 1000) : (bondLineV2000 d b).length = 21 := by
  unfold bondLineV2000
  have h1 := pad3_nat_length (b.1 + 1) (by omega)
  have h2 := pad3_nat_length (b.2.1 + 1) (by omega)
  have h3 : ((codeOfBond b.2.2).getD d) < 1000 := by
    unfold codeOfBond; split <;> simp <;> omega
  have h3 := pad3_nat_length _ h3
  simp only [List.length_append, h1, h2, h3, replicate_flatten_length]
  simp [padL]

theorem countsLineV2000_length (n m : Nat) (hn : n < 1000) (hm : m < 1000) :
    (countsLineV2000 n m).length = 39 := by
  unfold countsLineV2000
  simp only [List.length_append, pad3_nat_length n hn, pad3_nat_length m hm]
  rfl

theorem counts_read (n m : Nat) (hn : n < 1000) (hm : m < 1000) :
    pyInt (slice 0 3 (countsLineV2000 n m)) = some (n : Int) ∧
    pyInt (slice 3 6 (countsLineV2000 n m)) = some (m : Int) ∧
    getVersion (countsLineV2000 n m) = "V2000".toList := by
  unfold countsLineV2000
  have h1 := pad3_nat_length n hn
  have h2 := pad3_nat_length m hm
  refine ⟨?_, ?_, ?_⟩
  · have := slice_at [] (padL 3 (natRepr n)) (padL 3 (natRepr m) ++ "  0     0  0  0  0  0  0  1 V2000".toList) 0 3 rfl (by omega)
    simp only [List.nil_append, ← List.append_assoc] at this
    rw [this, pyInt_natRepr]
  · have := slice_at (padL 3 (natRepr n)) (padL 3 (natRepr m)) "  0     0  0  0  0  0  0  1 V2000".toList 3 6 h1 (by omega)
    simp only [← List.append_assoc] at this
    rw [this, pyInt_natRepr]
  · unfold getVersion
    have := slice_at (padL 3 (natRepr n) ++ padL 3 (natRepr m) ++ "  0     0  0  0  0  0  0  1".toList) " V2000".toList [] 33 39
      (by simp only [List.length_append, h1, h2]; rfl) (by rfl)
    have e : padL 3 (natRepr n) ++ padL 3 (natRepr m) ++ "  0     0  0  0  0  0  0  1 V2000".toList =
        (padL 3 (natRepr n) ++ padL 3 (natRepr m) ++ "  0     0  0  0  0  0  0  1".toList) ++ (" V2000".toList ++ []) := by
      simp [List.append_assoc]
    rw [e, this]
    decide

theorem bond_read (d : Nat) (b : Nat × Nat × Nat) (hi : b.1 < 999) (hj : b.2.1 < 999) :
    pyInt (slice 0 3 (bondLineV2000 d b)) = some ((b.1 + 1 : Nat) : Int) ∧
    pyInt (slice 3 6 (bondLineV2000 d b)) = some ((b.2.1 + 1 : Nat) : Int) := by
  unfold bondLineV2000
  have h1 := pad3_nat_length (b.1 + 1) (by omega)
  have h2 := pad3_nat_length (b.2.1 + 1) (by omega)
  constructor
  · have := slice_at [] (padL 3 (natRepr (b.1 + 1)))
      (padL 3 (natRepr (b.2.1 + 1)) ++ padL 3 (natRepr ((codeOfBond b.2.2).getD d)) ++ (List.replicate 4 (padL 3 ['0'])).flatten)
      0 3 rfl (by omega)
    simp only [List.nil_append, ← List.append_assoc] at this
    rw [this, pyInt_natRepr]
  · have := slice_at (padL 3 (natRepr (b.1 + 1))) (padL 3 (natRepr (b.2.1 + 1)))
      (padL 3 (natRepr ((codeOfBond b.2.2).getD d)) ++ (List.replicate 4 (padL 3 ['0'])).flatten) 3 6 h1 (by omega)
    simp only [← List.append_assoc] at this
    rw [this, pyInt_natRepr]

end BiotiteModel.C18

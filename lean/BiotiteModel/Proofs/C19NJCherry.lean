import BiotiteModel.Proofs.C19NJAdd
import BiotiteModel.Proofs.C19Cherry
/-! The abstract cherry lemma instantiated on the loop states of the `neighbor_joining` model:
`CherryLemma n` holds for every `n`, hence NJ recovers every four-point (additive) matrix. -/
namespace BiotiteModel.C19
open Finset

/-- The live taxa of a loop state. -/
def liveSet (n : Nat) (s : NState) : Finset ℕ := (Finset.range n).filter (fun k => s.cl k = false)

theorem mem_liveSet {n : Nat} {s : NState} {k : ℕ} : k ∈ liveSet n s ↔ k < n ∧ s.cl k = false := by
  simp [liveSet]

theorem list_sum_range_rat (f : ℕ → ℚ) : ∀ n, ((List.range n).map f).sum = ∑ k ∈ Finset.range n, f k := by
  intro n
  induction n with
  | zero => simp
  | succ n ih => rw [List.range_succ, List.map_append, List.sum_append, ih, Finset.sum_range_succ]; simp

theorem list_sum_range_nat (f : ℕ → ℕ) : ∀ n, ((List.range n).map f).sum = ∑ k ∈ Finset.range n, f k := by
  intro n
  induction n with
  | zero => simp
  | succ n ih => rw [List.range_succ, List.map_append, List.sum_append, ih, Finset.sum_range_succ]; simp

theorem divergence_eq_rr (n : Nat) (s : NState) (x : ℕ) :
    divergence n s x = Cherry.rr (liveSet n s) s.d x := by
  rw [divergence_eq_sum, list_sum_range_rat]
  unfold Cherry.rr liveSet
  rw [Finset.sum_filter]
  apply Finset.sum_congr rfl
  intro k _
  cases s.cl k <;> simp

theorem liveCount_eq_card (n : Nat) (s : NState) : liveCount n s.cl = (liveSet n s).card := by
  unfold liveCount liveSet
  rw [list_sum_range_nat, Finset.card_filter]
  apply Finset.sum_congr rfl
  intro k _
  cases s.cl k <;> simp

theorem corrected_eq_QQ (n : Nat) (s : NState) (hrem : s.nrem = liveCount n s.cl) (x y : ℕ) :
    corrected n s x y = Cherry.QQ (liveSet n s) s.d x y := by
  unfold corrected Cherry.QQ
  rw [divergence_eq_rr, divergence_eq_rr, ← liveCount_eq_card, ← hrem]
  push_cast; ring

/-- **The cherry lemma holds in every loop state** (any number of live taxa). -/
theorem cherryLemma_all (n : Nat) : CherryLemma n := by
  intro s hN hM hF _ m i j hmin
  obtain ⟨hji, hin, hci, hcj, hmv, hminimal⟩ := scanMin_some hmin
  have hjn : j < n := by omega
  have hij : i ≠ j := by omega
  have hM4 : Cherry.M4 (liveSet n s) s.d := by
    refine ⟨?_, ?_, ?_⟩
    · intro x hx y hy
      obtain ⟨h1, h2⟩ := mem_liveSet.mp hx
      obtain ⟨h3, h4⟩ := mem_liveSet.mp hy
      exact hM.sym x y h1 h3 h2 h4
    · intro x hx
      obtain ⟨h1, h2⟩ := mem_liveSet.mp hx
      exact hM.diag x h1 h2
    · intro a ha b hb c hc e he
      obtain ⟨a1, a2⟩ := mem_liveSet.mp ha
      obtain ⟨b1, b2⟩ := mem_liveSet.mp hb
      obtain ⟨c1, c2⟩ := mem_liveSet.mp hc
      obtain ⟨e1, e2⟩ := mem_liveSet.mp he
      exact hF a b c e a1 b1 c1 e1 a2 b2 c2 e2
  have hi : i ∈ liveSet n s := mem_liveSet.mpr ⟨hin, hci⟩
  have hj : j ∈ liveSet n s := mem_liveSet.mpr ⟨hjn, hcj⟩
  have hQmin : ∀ x ∈ liveSet n s, ∀ y ∈ liveSet n s, x ≠ y →
      Cherry.QQ (liveSet n s) s.d i j ≤ Cherry.QQ (liveSet n s) s.d x y := by
    intro x hx y hy hxy
    obtain ⟨x1, x2⟩ := mem_liveSet.mp hx
    obtain ⟨y1, y2⟩ := mem_liveSet.mp hy
    rw [← corrected_eq_QQ n s hN.2.1, ← corrected_eq_QQ n s hN.2.1, ← hmv]
    rcases Nat.lt_or_gt_of_ne hxy with hlt | hgt
    · have := hminimal y x hlt y1 y2 x2
      have e : corrected n s x y = corrected n s y x := by
        unfold corrected; rw [hM.sym x y x1 y1 x2 y2]; ring
      rw [e]; exact this
    · exact hminimal x y hgt x1 x2 y2
  have hch := Cherry.cherry hM4 hi hj hij hQmin
  intro k l hk hl hck hcl hki hkj hli hlj
  exact hch k (mem_liveSet.mpr ⟨hk, hck⟩) l (mem_liveSet.mpr ⟨hl, hcl⟩) hki hkj hli hlj

/-- **Neighbour joining recovers every additive matrix** (four-point condition, symmetric, zero
diagonal, `n ≥ 4`): the rows of the returned tree list exactly the original distances. -/
theorem nj_additive (n : Nat) (D : Nat → Nat → Rat)
    (hsym : ∀ a b, a < n → b < n → D a b = D b a) (hdiag : ∀ a, a < n → D a a = 0)
    (hfp : FourPoint n (NState.init n D)) (hn : 4 ≤ n)
    (t : T Rat) (h : neighborJoining n D = .ok t) : Intra D t.lrows :=
  nj_additive_of_lemma n D (cherryLemma_all n) hsym hdiag hfp hn t h

end BiotiteModel.C19

import BiotiteModel.Proofs.C19Cluster
/-! Neighbour joining: every input index is exactly one leaf (invariant over the merge loop and the
final three-way join). -/
namespace BiotiteModel.C19

theorem countClustered_add_liveCount (n : Nat) (cl : Nat → Bool) :
    countClustered n cl + liveCount n cl = n := by
  unfold countClustered liveCount
  induction n with
  | zero => simp
  | succ n ih =>
    rw [List.range_succ, List.filter_append, List.length_append, List.map_append, List.sum_append]
    cases h : cl n <;> simp [h] <;> omega

theorem liveCount_init (n : Nat) : liveCount n (fun _ => false) = n := by
  have h := countClustered_add_liveCount n (fun _ => false)
  have h0 : countClustered n (fun _ => false) = 0 := by simp [countClustered]
  omega

/-- If exactly one position is live, every other position is clustered. -/
theorem only_live (n : Nat) (cl : Nat → Bool) (k : Nat) (hk : k < n) (hck : cl k = false)
    (h1 : liveCount n cl = 1) : ∀ a, a < n → a ≠ k → cl a = true := by
  intro a ha hak
  cases hca : cl a with
  | true => rfl
  | false =>
    exfalso
    have h2 := liveCount_upd n cl k hk hck
    have h3 := liveCount_pos n (upd cl k true) a ha (by simp [upd, hak, hca])
    omega

theorem sum_zero (c : Nat → Nat) : ∀ l : List Nat, (∀ a ∈ l, c a = 0) → (l.map c).sum = 0 := by
  intro l
  induction l with
  | nil => intro _; rfl
  | cons a l ih =>
    intro h
    simp [h a (by simp), ih (fun b hb => h b (List.mem_cons_of_mem _ hb))]

theorem sum_single (c : Nat → Nat) (k : Nat) :
    ∀ l : List Nat, l.Nodup → k ∈ l → (∀ a ∈ l, a ≠ k → c a = 0) → (l.map c).sum = c k := by
  intro l
  induction l with
  | nil => intro _ h; simp at h
  | cons a l ih =>
    intro hnd hk h0
    have hnd' := List.nodup_cons.mp hnd
    by_cases hak : a = k
    · subst hak
      have : (l.map c).sum = 0 :=
        sum_zero c l (fun b hb => h0 b (List.mem_cons_of_mem _ hb) (fun e => hnd'.1 (e ▸ hb)))
      simp [this]
    · have hk' : k ∈ l := by
        rcases List.mem_cons.mp hk with h | h
        · exact absurd h.symm hak
        · exact h
      simp [h0 a (by simp) hak, ih hnd'.2 hk' (fun b hb => h0 b (List.mem_cons_of_mem _ hb))]

theorem liveLeaves_single (n : Nat) (cl : Nat → Bool) (nd : Nat → T Rat) (k : Nat) (hk : k < n)
    (hck : cl k = false) (hall : ∀ a, a < n → a ≠ k → cl a = true) :
    (liveLeaves n cl nd).Perm (nd k).leaves := by
  rw [List.perm_iff_count]
  intro x
  unfold liveLeaves
  rw [List.count_flatMap]
  have := sum_single (fun a => List.count x (if cl a then [] else (nd a).leaves)) k (List.range n)
    List.nodup_range (List.mem_range.mpr hk)
    (by intro a ha hak; simp [hall a (List.mem_range.mp ha) hak])
  simpa [Function.comp_def, hck] using this

/-- Loop invariant of `neighbor_joining`. -/
def NInv (n : Nat) (s : NState) : Prop :=
  (liveLeaves n s.cl s.nd).Perm (List.range n) ∧ s.nrem = liveCount n s.cl ∧ 3 ≤ s.nrem

theorem NInv_init (n : Nat) (D : Nat → Nat → Rat) (hn : 4 ≤ n) : NInv n (NState.init n D) := by
  refine ⟨(UInv_init n D).1, ?_, ?_⟩
  · simp [NState.init, liveCount_init]
  · simp [NState.init]; omega

theorem njStep_inl {n : Nat} {s s' : NState} (h : NInv n s) (hs : njStep n s = some (.inl s')) :
    NInv n s' := by
  unfold njStep at hs
  split at hs
  · cases hs
  · rename_i m i j hmin
    obtain ⟨hji, hin, hci, hcj, _, _⟩ := scanMin_some hmin
    simp only at hs
    split at hs
    · rename_i hgt
      cases hs
      have hcnt := liveCount_upd n s.cl j (by omega) hcj
      have hadd := countClustered_add_liveCount n (upd s.cl j true)
      refine ⟨?_, ?_, ?_⟩
      · exact (liveLeaves_merge n s.cl s.nd i j _ _ (by omega) hin (by omega) hci hcj).trans h.1
      · show n - countClustered n (upd s.cl j true) = liveCount n (upd s.cl j true)
        omega
      · show 3 ≤ n - countClustered n (upd s.cl j true)
        have := h.2.1
        omega
    · split at hs <;> cases hs

theorem njStep_inr {n : Nat} {s : NState} {t : T Rat} (h : NInv n s)
    (hs : njStep n s = some (.inr t)) : t.leaves.Perm (List.range n) := by
  unfold njStep at hs
  split at hs
  · cases hs
  · rename_i m i j hmin
    obtain ⟨hji, hin, hci, hcj, _, _⟩ := scanMin_some hmin
    simp only at hs
    split at hs
    · cases hs
    · rename_i hle
      split at hs
      · cases hs
      · rename_i k hfind
        cases hs
        have hk := List.find?_some hfind
        have hkn : k < n := List.mem_range.mp (List.mem_of_find?_eq_some hfind)
        have hjn : j < n := by omega
        have hij : i ≠ j := by omega
        -- `k` is live and different from `i`, `j`
        have hki : k ≠ i := by
          intro e; subst e
          by_cases hkj : k = j <;> simp [upd, hkj] at hk
        have hkj : k ≠ j := by
          intro e; subst e; simp [upd] at hk
        have hck : s.cl k = false := by
          simpa [upd, hki, hkj] using hk
        -- merge `j` into `i`, then `i` into `k`
        let nd2 := upd s.nd i (.node (.cons 0 (s.nd i) (.cons 0 (s.nd j) .nil)))
        let cl2 := upd s.cl j true
        have p1 := liveLeaves_merge n s.cl s.nd i j 0 0 hij hin hjn hci hcj
        have hci2 : cl2 i = false := by simp [cl2, upd, hij, hci]
        have hck2 : cl2 k = false := by simp [cl2, upd, hkj, hck]
        have p2 := liveLeaves_merge n cl2 nd2 k i 0 0 hki hkn hin hck2 hci2
        have c1 := liveCount_upd n s.cl j hjn hcj
        have c2 : liveCount n (upd (upd s.cl j true) i true) + 1 = liveCount n (upd s.cl j true) :=
          liveCount_upd n cl2 i hin hci2
        have hcnt : liveCount n (upd cl2 i true) = 1 := by
          show liveCount n (upd (upd s.cl j true) i true) = 1
          have := h.2.1; have := h.2.2; omega
        have hck3 : upd cl2 i true k = false := by simp [upd, hki, hck2]
        have p3 := liveLeaves_single n (upd cl2 i true)
          (upd nd2 k (.node (.cons 0 (nd2 k) (.cons 0 (nd2 i) .nil)))) k hkn hck3
          (only_live n _ k hkn hck3 hcnt)
        have all := p3.symm.trans (p2.trans (p1.trans h.1))
        have e : (upd nd2 k (.node (.cons 0 (nd2 k) (.cons 0 (nd2 i) .nil))) k).leaves
            = (s.nd k).leaves ++ ((s.nd i).leaves ++ (s.nd j).leaves) := by
          simp [upd, nd2, hki, T.leaves, F.leaves]
        rw [e] at all
        refine List.Perm.trans ?_ all
        simp only [T.leaves, F.leaves, List.append_nil]
        rw [← List.append_assoc]
        exact List.perm_append_comm

theorem njLoop_leaves (n : Nat) : ∀ (fuel : Nat) (s : NState) (t : T Rat), NInv n s →
    njLoop n fuel s = some t → t.leaves.Perm (List.range n) := by
  intro fuel
  induction fuel with
  | zero => intro s t _ h; cases h
  | succ fuel ih =>
    intro s t hinv h
    unfold njLoop at h
    split at h
    · cases h
    · rename_i s' hs; exact ih s' t (njStep_inl hinv hs) h
    · rename_i t' hs; cases h; exact njStep_inr hinv hs

theorem nj_leaves (n : Nat) (D : Nat → Nat → Rat) (t : T Rat) (h : neighborJoining n D = .ok t) :
    t.leaves.Perm (List.range n) := by
  unfold neighborJoining at h
  split at h; · cases h
  split at h; · cases h
  split at h; · cases h
  rename_i _ hn _
  split at h
  · cases h
  · rename_i t' hl
    have hp := njLoop_leaves n n _ t' (NInv_init n D (by omega)) hl
    simp only [mkTree] at h
    split at h
    · cases h; exact hp
    · cases h


/-! ### totality: the loop never falls through to `None` -/

theorem exists_live (n : Nat) (cl : Nat → Bool) (h : 1 ≤ liveCount n cl) : ∃ k, k < n ∧ cl k = false := by
  apply Classical.byContradiction
  intro hne
  have hall : ∀ a ∈ List.range n, (fun k => if cl k then 0 else 1) a = 0 := by
    intro a ha
    have ha' := List.mem_range.mp ha
    cases hc : cl a with
    | true => simp [hc]
    | false => exact absurd ⟨a, ha', hc⟩ hne
  have := sum_zero (fun k => if cl k then 0 else 1) (List.range n) hall
  unfold liveCount at h
  omega

theorem exists_two_live (n : Nat) (cl : Nat → Bool) (h : 2 ≤ liveCount n cl) :
    ∃ a b, b < a ∧ a < n ∧ cl a = false ∧ cl b = false := by
  obtain ⟨k, hk, hck⟩ := exists_live n cl (by omega)
  have h2 := liveCount_upd n cl k hk hck
  obtain ⟨k', hk', hck'⟩ := exists_live n (upd cl k true) (by omega)
  have hne : k' ≠ k := by
    intro e; subst e; simp [upd] at hck'
  have hck'' : cl k' = false := by simpa [upd, hne] using hck'
  rcases Nat.lt_or_gt_of_ne hne with hlt | hgt
  · exact ⟨k, k', hlt, hk, hck, hck''⟩
  · exact ⟨k', k, hgt, hk', hck'', hck⟩

theorem njStep_ne_none {n : Nat} {s : NState} (h : NInv n s) : njStep n s ≠ none := by
  intro hs
  have hcount : 3 ≤ liveCount n s.cl := by have := h.2.1; have := h.2.2; omega
  unfold njStep at hs
  split at hs
  · rename_i hmin
    obtain ⟨a, b, hba, han, hca, hcb⟩ := exists_two_live n s.cl (by omega)
    rcases scanMin_none hmin a b hba han with h1 | h1 <;> simp_all
  · rename_i m i j hmin
    obtain ⟨hji, hin, hci, hcj, _, _⟩ := scanMin_some hmin
    simp only at hs
    split at hs
    · cases hs
    · split at hs
      · rename_i hfind
        have hij : i ≠ j := by omega
        have c1 := liveCount_upd n s.cl i hin hci
        have hcj' : upd s.cl i true j = false := by
          have : j ≠ i := fun e => hij e.symm
          simp [upd, this, hcj]
        have c2 := liveCount_upd n (upd s.cl i true) j (by omega) hcj'
        obtain ⟨k, hk, hck⟩ := exists_live n (upd (upd s.cl i true) j true) (by omega)
        have := List.find?_eq_none.mp hfind k (List.mem_range.mpr hk)
        simp [hck] at this
      · cases hs

theorem njStep_inl_nrem {n : Nat} {s s' : NState} (h : NInv n s) (hs : njStep n s = some (.inl s')) :
    s'.nrem + 1 = s.nrem := by
  have h' := njStep_inl h hs
  unfold njStep at hs
  split at hs
  · cases hs
  · rename_i m i j hmin
    obtain ⟨hji, hin, hci, hcj, _, _⟩ := scanMin_some hmin
    simp only at hs
    split at hs
    · cases hs
      have hcnt := liveCount_upd n s.cl j (by omega) hcj
      have e1 : n - countClustered n (upd s.cl j true) = liveCount n (upd s.cl j true) := h'.2.1
      have e2 := h.2.1
      show n - countClustered n (upd s.cl j true) + 1 = s.nrem
      omega
    · split at hs <;> cases hs

theorem njLoop_total (n : Nat) : ∀ (fuel : Nat) (s : NState), NInv n s → s.nrem ≤ fuel + 2 →
    ∃ t, njLoop n fuel s = some t := by
  intro fuel
  induction fuel with
  | zero => intro s h hf; have := h.2.2; omega
  | succ fuel ih =>
    intro s h hf
    unfold njLoop
    cases hs : njStep n s with
    | none => exact absurd hs (njStep_ne_none h)
    | some r =>
      cases r with
      | inl s' =>
        have := njStep_inl_nrem h hs
        exact ih s' (njStep_inl h hs) (by omega)
      | inr t => exact ⟨t, rfl⟩

/-- **NJ always returns a tree**: for every matrix that passes the input checks (`n ≥ 4`) the loop
reaches the final three-way join; it never leaves through the "all clustered" `break` (which would
make the Python function return `None`). -/
theorem nj_total (n : Nat) (D : Nat → Nat → Rat) (h1 : allcloseSym n D = true) (h2 : 4 ≤ n)
    (h3 : anyNegative n D = false) : ∃ t, neighborJoining n D = .ok t := by
  obtain ⟨t, ht⟩ := njLoop_total n n (NState.init n D) (NInv_init n D h2) (by simp [NState.init])
  have hp := njLoop_leaves n n _ t (NInv_init n D h2) ht
  refine ⟨t, ?_⟩
  have hn : ¬ n < 4 := by omega
  simp only [neighborJoining, h1, h3, hn, ht, mkTree]
  have hall : (t.leaves.all fun x => decide (x < t.leaves.length)) = true := by
    rw [List.all_eq_true]
    intro x hx
    have hx' : x ∈ List.range n := hp.mem_iff.mp hx
    have hlen : t.leaves.length = n := by rw [hp.length_eq]; simp
    simp [hlen, List.mem_range.mp hx']
  simp [hall]

end BiotiteModel.C19

import BiotiteModel.Proofs.C08Trace
/-! `followLin` over a table lookup = over the recurrence. -/
namespace BiotiteModel.C08

theorem Dir.pred_le (d : Dir) (p : Nat × Nat) : (d.pred p).1 ≤ p.1 ∧ (d.pred p).2 ≤ p.2 := by
  obtain ⟨i, j⟩ := p
  cases d <;> simp [Dir.pred]

theorem followLin_congr (dirs dirs' : Nat × Nat → List Dir) (mx : Nat) :
    ∀ (fuel : Nat) (p : Nat × Nat) (suffix : Aln) (c : Nat),
      (∀ q : Nat × Nat, q.1 ≤ p.1 → q.2 ≤ p.2 → dirs q = dirs' q) →
      followLin dirs mx fuel p suffix c = followLin dirs' mx fuel p suffix c := by
  intro fuel
  induction fuel with
  | zero => intros; rfl
  | succ fuel ih =>
    intro p suffix c h
    have hrun : (fun (d : Dir) (c' : Nat) => followLin dirs mx fuel (d.pred p) (d.col p :: suffix) c') =
        (fun (d : Dir) (c' : Nat) => followLin dirs' mx fuel (d.pred p) (d.col p :: suffix) c') := by
      funext d c'
      have hle := Dir.pred_le d p
      exact ih _ _ _ (fun q h1 h2 => h q (by omega) (by omega))
    simp only [followLin, ← h p (Nat.le_refl _) (Nat.le_refl _)]
    split
    · rfl
    · rename_i d0 ds _
      rw [hrun]
      have hle := Dir.pred_le d0 p
      rw [ih (d0.pred p) _ _ (fun q h1 h2 => h q (by omega) (by omega))]

theorem traceDirs_congr (mode : Mode) (M : Mat) (g : Int) (a b : Seq) (V V' : Nat → Nat → Int) (q : Nat × Nat)
    (h : ∀ i j, i ≤ q.1 → j ≤ q.2 → V i j = V' i j) :
    traceDirs mode M g a b V q = traceDirs mode M g a b V' q := by
  obtain ⟨i, j⟩ := q
  cases i with
  | zero => cases j <;> rfl
  | succ i =>
    cases j with
    | zero => rfl
    | succ j =>
      simp only [traceDirs, h i j (by simp) (by simp), h (i + 1) j (by simp) (by simp),
        h i (j + 1) (by simp) (by simp)]

theorem tableLookup_fill (mode : Mode) (M : Mat) (g : Int) (a b : Seq) (i j : Nat) (hi : i ≤ a.length)
    (hj : j ≤ b.length) : tableLookup (fillLin mode M g a b) i j = (linRec mode M g a b).val i j := by
  have h := Rec.table_get (linRec mode M g a b) b.length a.length i j hi hj
  unfold tableLookup fillLin
  cases hr : ((linRec mode M g a b).table b.length a.length)[i]? with
  | none => simp [hr] at h
  | some row =>
    simp only [hr, Option.bind_some] at h
    simp [List.getD_eq_getElem?_getD, hr, h]

end BiotiteModel.C08

import BiotiteModel.Model.C11Cigar
/-! Helper lemmas for the CIGAR part of C11 (core Lean only). -/
namespace BiotiteModel.C11
open BiotiteModel

/-! ### run-length aggregation -/

/-- no two neighbouring tuples carry the same operation -/
def NoAdj : List (Op × Nat) → Prop
  | a :: b :: r => a.1 ≠ b.1 ∧ NoAdj (b :: r)
  | _ => True

theorem expand_cons (o : Op) (n : Nat) (rest : List (Op × Nat)) :
    expand ((o, n) :: rest) = List.replicate n o ++ expand rest := by
  simp [expand]

theorem expand_aggregate (ops : List Op) : expand (aggregate ops) = ops := by
  induction ops with
  | nil => rfl
  | cons o r ih =>
    unfold aggregate
    split
    · next o' n rest h =>
      rw [h, expand_cons] at ih
      split
      · next heq =>
        subst heq
        rw [expand_cons, List.replicate_succ, List.cons_append, ih]
      · rw [expand_cons, expand_cons]
        simp [← ih]
    · next h =>
      rw [h] at ih
      simp [expand] at ih ⊢
      exact ih

theorem aggregate_pos (ops : List Op) : ∀ p ∈ aggregate ops, 0 < p.2 := by
  induction ops with
  | nil => intro p hp; simp [aggregate] at hp
  | cons o r ih =>
    unfold aggregate
    split
    · next o' n rest h =>
      rw [h] at ih
      split
      · intro p hp
        rcases List.mem_cons.mp hp with rfl | hp
        · simp
        · exact ih p (List.mem_cons_of_mem _ hp)
      · intro p hp
        rcases List.mem_cons.mp hp with rfl | hp
        · simp
        · exact ih p hp
    · intro p hp
      simp at hp
      subst hp
      simp

theorem aggregate_noAdj (ops : List Op) : NoAdj (aggregate ops) := by
  induction ops with
  | nil => simp [aggregate, NoAdj]
  | cons o r ih =>
    unfold aggregate
    split
    · next o' n rest h =>
      rw [h] at ih
      split
      · next heq =>
        subst heq
        cases rest with
        | nil => simp [NoAdj]
        | cons b rest' => exact ih
      · next hne => exact ⟨hne, ih⟩
    · simp [NoAdj]

/-! ### printing and parsing CIGAR strings -/

def digitsVal (acc : Nat) (ds : List Char) : Nat := ds.foldl (fun a c => a * 10 + (c.toNat - 48)) acc

theorem digitChar_spec : ∀ d, d < 10 → (digitChar d).toNat - 48 = d ∧ isDigit (digitChar d) = true := by decide

theorem natDigits_ne_nil (n : Nat) : natDigits n ≠ [] := by
  unfold natDigits; split <;> simp

theorem natDigits_isDigit (n : Nat) : ∀ c ∈ natDigits n, isDigit c = true := by
  fun_induction natDigits n with
  | case1 n h => intro c hc; simp at hc; subst hc; exact (digitChar_spec n h).2
  | case2 n h ih =>
    intro c hc
    rcases List.mem_append.mp hc with hc | hc
    · exact ih c hc
    · simp at hc; subst hc; exact (digitChar_spec (n % 10) (Nat.mod_lt _ (by omega))).2

theorem digitsVal_natDigits (n : Nat) : digitsVal 0 (natDigits n) = n := by
  fun_induction natDigits n with
  | case1 n h => simp [digitsVal, (digitChar_spec n h).1]
  | case2 n h ih =>
    unfold digitsVal at ih ⊢
    rw [List.foldl_append, ih]
    simp [(digitChar_spec (n % 10) (Nat.mod_lt _ (by omega))).1]
    omega

theorem tokenize_digits (ds : List Char) (hd : ∀ c ∈ ds, isDigit c = true) (hne : ds ≠ []) :
    ∀ (cnt : Option Nat) (rest : List Char),
      tokenize cnt (ds ++ rest) = tokenize (some (digitsVal (cnt.getD 0) ds)) rest := by
  induction ds with
  | nil => exact absurd rfl hne
  | cons d ds ih =>
    intro cnt rest
    have hdd : isDigit d = true := hd d (List.mem_cons_self ..)
    rw [List.cons_append, tokenize, if_pos hdd]
    by_cases hnil : ds = []
    · subst hnil; simp [digitsVal]
    · rw [ih (fun c hc => hd c (List.mem_cons_of_mem _ hc)) hnil]
      simp [digitsVal]

theorem symbol_not_digit (o : Op) : isDigit o.symbol = false := by cases o <;> decide

theorem ofSymbol_symbol (o : Op) : Op.ofSymbol o.symbol = some o := by cases o <;> decide

theorem printOps_cons (o : Op) (n : Nat) (r : List (Op × Nat)) :
    printOps ((o, n) :: r) = natDigits n ++ (o.symbol :: printOps r) := by
  simp [printOps]

theorem tokenize_printOps (ops : List (Op × Nat)) :
    tokenize none (printOps ops) = .ok (ops.map fun p => (p.1, some p.2)) := by
  induction ops with
  | nil => simp [printOps, tokenize]
  | cons p r ih =>
    obtain ⟨o, n⟩ := p
    rw [printOps_cons, tokenize_digits _ (natDigits_isDigit n) (natDigits_ne_nil n)]
    simp only [Option.getD_none, digitsVal_natDigits]
    rw [tokenize, symbol_not_digit]
    simp [ofSymbol_symbol, ih]

theorem parse_print (ops : List (Op × Nat)) : parseCigar (printOps ops) = .ok ops := by
  unfold parseCigar
  rw [tokenize_printOps]
  simp only
  induction ops with
  | nil => simp [mapE]
  | cons p r ih =>
    simp only [List.map_cons, mapE]
    rw [ih]

/-! ### generic facts about `mapE` -/

inductive All₂ {α β : Type} (R : α → β → Prop) : List α → List β → Prop
  | nil : All₂ R [] []
  | cons {a b l1 l2} : R a b → All₂ R l1 l2 → All₂ R (a :: l1) (b :: l2)

theorem mapE_ok_forall₂ {α β : Type} (f : α → Except Err β) :
    ∀ (l : List α) (r : List β), mapE f l = .ok r → All₂ (fun a b => f a = .ok b) l r := by
  intro l
  induction l with
  | nil => intro r h; simp [mapE] at h; subst h; exact .nil
  | cons a l ih =>
    intro r h
    unfold mapE at h
    split at h
    · cases h
    · next b hb =>
      split at h
      · cases h
      · next bs hbs =>
        simp at h; subst h
        exact .cons hb (ih bs hbs)

theorem forall₂_zip_map {α β γ : Type} {R : α → β → Prop} {R' : α → γ → Prop} (g : α × β → γ) :
    ∀ {l1 : List α} {l2 : List β}, All₂ R l1 l2 →
      (∀ a b, (a, b) ∈ l1.zip l2 → R a b → R' a (g (a, b))) → All₂ R' l1 ((l1.zip l2).map g) := by
  intro l1 l2 h
  induction h with
  | nil => intro _; exact .nil
  | cons hab _ ih =>
    intro hg
    simp only [List.zip_cons_cons, List.map_cons]
    exact .cons (hg _ _ (by simp) hab) (ih fun a b hm => hg a b (by simp [hm]))

theorem forall₂_zip_mapE {α β γ : Type} {R : α → β → Prop} {R' : α → γ → Prop} (g : α × β → Except Err γ) :
    ∀ {l1 : List α} {l2 : List β}, All₂ R l1 l2 →
      (∀ a b c, R a b → g (a, b) = .ok c → R' a c) →
      ∀ r, mapE g (l1.zip l2) = .ok r → All₂ R' l1 r := by
  intro l1 l2 h
  induction h with
  | nil => intro _ r hr; simp [mapE] at hr; subst hr; exact .nil
  | cons hab _ ih =>
    intro hg r hr
    simp only [List.zip_cons_cons] at hr
    unfold mapE at hr
    split at hr
    · cases hr
    · next c hc =>
      split at hr
      · cases hr
      · next cs hcs =>
        simp at hr; subst hr
        exact .cons (hg _ _ _ hab hc) (ih hg cs hcs)

/-! ### reader ∘ writer -/

/-- consecutive indices: the reference continues at `rp`, the segment at `sp`; no double gap. -/
def Follows : Nat → Nat → PTrace → Prop
  | _, _, [] => True
  | rp, sp, (some r, some s) :: t => r = rp ∧ s = sp ∧ Follows (rp + 1) (sp + 1) t
  | rp, sp, (none, some s) :: t => s = sp ∧ Follows rp (sp + 1) t
  | rp, sp, (some r, none) :: t => r = rp ∧ Follows (rp + 1) sp t
  | _, _, (none, none) :: _ => False

def colKind : PCol → Kind
  | (some _, some _) => .both
  | (none, some _) => .segOnly
  | (some _, none) => .refOnly
  | (none, none) => .unsupported

theorem readGo_split (o : Op) (n rp sp : Nat) (rest : List (Op × Nat)) :
    readGo rp sp ((o, n + 1) :: rest) = readGo rp sp ((o, 1) :: (o, n) :: rest) := by
  have e1 : rp + 1 + n = rp + (n + 1) := by omega
  have e2 : sp + 1 + n = sp + (n + 1) := by omega
  have e3 : ∀ a x : Nat, a + 1 + x = a + (x + 1) := by intro a x; omega
  cases hk : o.kind <;> simp only [readGo, hk, e1, e2]
  · generalize readGo (rp + (n + 1)) (sp + (n + 1)) rest = x
    cases x <;> simp [Except.map, List.range_succ_eq_map, List.map_map, Function.comp_def, e3]
  · generalize readGo rp (sp + (n + 1)) rest = x
    cases x <;> simp [Except.map, List.range_succ_eq_map, List.map_map, Function.comp_def, e3]
  · generalize readGo (rp + (n + 1)) sp rest = x
    cases x <;> simp [Except.map, List.range_succ_eq_map, List.map_map, Function.comp_def, e3]

theorem readGo_cons_congr (x : Op × Nat) {l1 l2 : List (Op × Nat)}
    (h : ∀ rp sp, readGo rp sp l1 = readGo rp sp l2) : ∀ rp sp, readGo rp sp (x :: l1) = readGo rp sp (x :: l2) := by
  intro rp sp
  obtain ⟨o, n⟩ := x
  cases hk : o.kind <;> simp [readGo, hk, h]

theorem readGo_aggregate (os : List Op) (tail : List (Op × Nat)) :
    ∀ rp sp, readGo rp sp (aggregate os ++ tail) = readGo rp sp (os.map (fun o => (o, 1)) ++ tail) := by
  induction os with
  | nil => intro rp sp; rfl
  | cons o r ih =>
    unfold aggregate
    split
    · next o' n rest h =>
      rw [h] at ih
      split
      · next heq =>
        subst heq
        intro rp sp
        rw [List.cons_append, readGo_split]
        exact readGo_cons_congr _ ih rp sp
      · exact readGo_cons_congr _ ih
    · next h =>
      rw [h] at ih
      exact readGo_cons_congr _ ih

theorem readGo_units {tail : List (Op × Nat)} (htail : ∀ r s, readGo r s tail = .ok []) :
    ∀ {t : PTrace} {os : List Op}, All₂ (fun c o => o.kind = colKind c) t os →
      ∀ rp sp, Follows rp sp t → readGo rp sp (os.map (fun o => (o, 1)) ++ tail) = .ok t := by
  intro t os h
  induction h with
  | nil => intro rp sp _; simpa using htail rp sp
  | @cons c o t os hk _ ih =>
    intro rp sp hf
    obtain ⟨a, b⟩ := c
    cases a <;> cases b <;> simp only [Follows, colKind] at hf hk
    · next s =>
      obtain ⟨rfl, hf⟩ := hf
      simp [readGo, hk, ih _ _ hf, Except.map]
    · next r =>
      obtain ⟨rfl, hf⟩ := hf
      simp [readGo, hk, ih _ _ hf, Except.map]
    · next r s =>
      obtain ⟨rfl, rfl, hf⟩ := hf
      simp [readGo, hk, ih _ _ hf, Except.map]

theorem colOp_kind {c : PCol} {o : Op} (h : colOp c = .ok o) : o.kind = colKind c := by
  obtain ⟨a, b⟩ := c
  cases a <;> cases b <;> simp [colOp] at h <;> subst h <;> rfl

theorem colOp_D {c : PCol} (h : colOp c = .ok .D) : colKind c = .refOnly := by
  rw [← colOp_kind h]; rfl

theorem eqOp_kind {refSeq segSeq : List Nat} {c : PCol} {o o' : Op} (hk : o.kind = colKind c)
    (h : eqOp refSeq segSeq c o = .ok o') : o'.kind = colKind c := by
  obtain ⟨a, b⟩ := c
  cases a <;> cases b <;> simp only [eqOp] at h
  · simp at h; subst h; exact hk
  · split at h <;> simp at h; subst h; exact hk
  · split at h <;> simp at h; subst h; exact hk
  · split at h
    · simp at h
      subst h
      by_cases hM : o = .M
      · simp only [hM, if_true]; split <;> exact hk ▸ (by simp [hM, Op.kind])
      · simp only [hM, if_false]; exact hk
    · simp at h

theorem columnOps_kinds {o : WOpts} {refSeq segSeq : List Nat} {t : PTrace} {os : List Op}
    (h : columnOps o refSeq segSeq t = .ok os) : All₂ (fun c o => o.kind = colKind c) t os := by
  unfold columnOps at h
  split at h
  · cases h
  · next ops hops =>
    have h1 := mapE_ok_forall₂ _ _ _ hops
    split at h
    · cases h
    split at h
    · cases h
    · split at h
      · cases h
      · next hany =>
        have h2 : All₂ (fun c o => o.kind = colKind c) t
            ((t.zip ops).map fun (c, op) => if inIntron o.introns c then Op.N else op) := by
          refine forall₂_zip_map _ h1 ?_
          intro a b hm hab
          by_cases hin : inIntron o.introns a = true
          · have hb : b = .D := by
              have h' : ∀ (x x_1 : Option Nat) (x_2 : Op), ((x, x_1), x_2) ∈ List.zip t ops →
                  inIntron o.introns (x, x_1) = true → x_2 = Op.D := by simpa using hany
              exact h' a.1 a.2 b hm hin
            subst hb
            simp [hin, colOp_D hab, Op.kind]
          · simp [hin, colOp_kind hab]
        simp only at h
        split at h
        · exact forall₂_zip_mapE _ h2 (fun a b c hk hg => eqOp_kind hk hg) _ h
        · simp at h; subst h; exact h2

theorem follows_firstSeg : ∀ {t : PTrace} {rp sp a : Nat}, Follows rp sp t → firstSeg t = some a → Follows rp a t := by
  intro t
  induction t with
  | nil => intro _ _ _ _ h; simp [firstSeg] at h
  | cons c t ih =>
    intro rp sp a hf hs
    obtain ⟨x, y⟩ := c
    cases x <;> cases y <;> simp only [Follows, firstSeg] at hf hs ⊢
    · next s => simp at hs; subst hs; obtain ⟨rfl, hf⟩ := hf; exact ⟨rfl, hf⟩
    · next r => exact ⟨hf.1, ih hf.2 hs⟩
    · next r s => simp at hs; subst hs; obtain ⟨rfl, rfl, hf⟩ := hf; exact ⟨rfl, rfl, hf⟩

theorem follows_anyRef : ∀ {t : PTrace} {rp sp : Nat}, Follows rp sp t → firstRef t = none → ∀ rp', Follows rp' sp t := by
  intro t
  induction t with
  | nil => intro _ _ _ _ _; trivial
  | cons c t ih =>
    intro rp sp hf hr rp'
    obtain ⟨x, y⟩ := c
    cases x <;> cases y <;> simp only [Follows, firstRef] at hf hr ⊢
    · next s => exact ⟨hf.1, ih hf.2 hr rp'⟩
    · simp at hr
    · simp at hr

theorem follows_firstRef : ∀ {t : PTrace} {rp sp : Nat}, Follows rp sp t → Follows ((firstRef t).getD 0) sp t := by
  intro t
  induction t with
  | nil => intro _ _ _; trivial
  | cons c t ih =>
    intro rp sp hf
    obtain ⟨x, y⟩ := c
    cases x <;> cases y <;> simp only [Follows, firstRef] at hf ⊢
    · next s => exact ⟨hf.1, ih hf.2⟩
    · next r => obtain ⟨rfl, hf⟩ := hf; exact ⟨rfl, hf⟩
    · next r s => obtain ⟨rfl, rfl, hf⟩ := hf; exact ⟨rfl, rfl, hf⟩

theorem follows_tail : ∀ {c : PCol} {t : PTrace} {rp sp : Nat}, Follows rp sp (c :: t) → ∃ rp' sp', Follows rp' sp' t := by
  intro c t rp sp hf
  obtain ⟨x, y⟩ := c
  cases x <;> cases y <;> simp only [Follows] at hf
  · exact ⟨_, _, hf.2⟩
  · exact ⟨_, _, hf.2⟩
  · exact ⟨_, _, hf.2.2⟩

theorem follows_dropWhile (p : PCol → Bool) : ∀ {t : PTrace} {rp sp : Nat}, Follows rp sp t →
    ∃ rp' sp', Follows rp' sp' (t.dropWhile p) := by
  intro t
  induction t with
  | nil => intro rp sp _; exact ⟨rp, sp, trivial⟩
  | cons c t ih =>
    intro rp sp hf
    rw [List.dropWhile_cons]
    split
    · obtain ⟨rp', sp', h⟩ := follows_tail hf
      exact ih h
    · exact ⟨rp, sp, hf⟩

theorem follows_single (c : PCol) {t : PTrace} {rp sp : Nat} (hf : Follows rp sp (c :: t)) : Follows rp sp [c] := by
  obtain ⟨x, y⟩ := c
  cases x <;> cases y <;> simp only [Follows] at hf ⊢
  · exact ⟨hf.1, trivial⟩
  · exact ⟨hf.1, trivial⟩
  · exact ⟨hf.1, hf.2.1, trivial⟩

theorem follows_cons_congr (c : PCol) {t t' : PTrace} (h : ∀ rp sp, Follows rp sp t → Follows rp sp t')
    {rp sp : Nat} (hf : Follows rp sp (c :: t)) : Follows rp sp (c :: t') := by
  obtain ⟨x, y⟩ := c
  cases x <;> cases y <;> simp only [Follows] at hf ⊢
  · exact ⟨hf.1, h _ _ hf.2⟩
  · exact ⟨hf.1, h _ _ hf.2⟩
  · exact ⟨hf.1, hf.2.1, h _ _ hf.2.2⟩

theorem follows_dropEndGaps : ∀ {t : PTrace} (rp sp : Nat), Follows rp sp t → Follows rp sp (dropEndGaps t) := by
  intro t
  induction t with
  | nil => intro _ _ _; trivial
  | cons c t ih =>
    intro rp sp hf
    unfold dropEndGaps
    split
    · split
      · trivial
      · exact follows_single c hf
    · next r' hne =>
      exact follows_cons_congr c (fun rp sp h => ih rp sp h) hf

theorem follows_shift (d : Nat) : ∀ {t : PTrace} {rp sp : Nat}, Follows rp sp t → d ≤ sp →
    Follows rp (sp - d) (shiftSeg d t) := by
  intro t
  induction t with
  | nil => intro _ _ _ _; trivial
  | cons c t ih =>
    intro rp sp hf hd
    obtain ⟨x, y⟩ := c
    have e : sp + 1 - d = sp - d + 1 := by omega
    cases x <;> cases y <;> simp only [Follows, shiftSeg, List.map_cons, Option.map] at hf ⊢
    · next s => obtain ⟨rfl, hf⟩ := hf; exact ⟨rfl, e ▸ ih hf (by omega)⟩
    · next r => exact ⟨hf.1, ih hf.2 hd⟩
    · next r s => obtain ⟨rfl, rfl, hf⟩ := hf; exact ⟨rfl, rfl, e ▸ ih hf (by omega)⟩

theorem kinds_shift (d : Nat) {t : PTrace} {os : List Op} (h : All₂ (fun c o => o.kind = colKind c) t os) :
    All₂ (fun c o => o.kind = colKind c) (shiftSeg d t) os := by
  induction h with
  | nil => exact .nil
  | @cons c o t os hk _ ih =>
    refine .cons ?_ ih
    obtain ⟨x, y⟩ := c
    cases x <;> cases y <;> exact hk

theorem columnOps_contig {o : WOpts} {refSeq segSeq : List Nat} {t : PTrace} {os : List Op}
    (h : columnOps o refSeq segSeq t = .ok os) : contigB t = true := by
  unfold columnOps at h
  split at h
  · cases h
  · split at h
    · cases h
    · next hc => simpa using hc

theorem follows_of_consec : ∀ (t : PTrace) (rp sp : Nat), (∀ c ∈ t, c ≠ (none, none)) →
    consecFrom rp (t.filterMap (·.1)) = true → consecFrom sp (t.filterMap (·.2)) = true → Follows rp sp t := by
  intro t
  induction t with
  | nil => intro _ _ _ _ _; trivial
  | cons c t ih =>
    intro rp sp hnd hr hs
    have hnd' : ∀ c ∈ t, c ≠ (none, none) := fun x hx => hnd x (List.mem_cons_of_mem _ hx)
    have hc := hnd c (List.mem_cons_self ..)
    obtain ⟨a, b⟩ := c
    cases a <;> cases b <;> simp only [List.filterMap_cons, consecFrom, Bool.and_eq_true, beq_iff_eq] at hr hs <;>
      simp only [Follows]
    · exact absurd rfl hc
    · exact ⟨hs.1, ih _ _ hnd' hr hs.2⟩
    · exact ⟨hr.1, ih _ _ hnd' hr.2 hs⟩
    · exact ⟨hr.1, hs.1, ih _ _ hnd' hr.2 hs.2⟩

theorem consecFrom_head : ∀ (l : List Nat), rowContig l = true → consecFrom (l.headD 0) l = true := by
  intro l h
  cases l with
  | nil => rfl
  | cons a r => simpa [consecFrom, rowContig] using h

theorem consecFrom_any (l : List Nat) (hl : l = []) (a : Nat) : consecFrom a l = true := by subst hl; rfl

/-- a written trace (no double gap, consecutive positions) follows from its first positions -/
theorem follows_of_contig (t : PTrace) (hnd : ∀ c ∈ t, c ≠ (none, none)) (hc : contigB t = true) :
    ∃ rp sp, Follows rp sp t := by
  simp only [contigB, Bool.and_eq_true] at hc
  exact ⟨_, _, follows_of_consec t _ _ hnd (consecFrom_head _ hc.1) (consecFrom_head _ hc.2)⟩

theorem columnOps_nodouble {o : WOpts} {refSeq segSeq : List Nat} {t : PTrace} {os : List Op}
    (h : columnOps o refSeq segSeq t = .ok os) : ∀ c ∈ t, c ≠ (none, none) := by
  unfold columnOps at h
  split at h
  · cases h
  · next ops hops =>
    have h1 := mapE_ok_forall₂ _ _ _ hops
    clear h hops
    induction h1 with
    | nil => intro c hc; cases hc
    | @cons c0 op _ _ hop _ ih =>
      intro c hc hcc
      rcases List.mem_cons.mp hc with rfl | hc
      · subst hcc; simp [colOp] at hop
      · exact ih c hc hcc

theorem clip_tail (clip : Op) (hc : clip = .S ∨ clip = .H) (b : Nat) :
    ∀ r s, readGo r s (if b = 0 then [] else [(clip, b)]) = .ok [] := by
  intro r s
  split
  · rfl
  · rcases hc with rfl | rfl <;> simp [readGo, Op.kind]

/-- the reader undoes the writer on the written (trimmed) trace, for every option combination; no hypothesis on the
trace: the writer itself refuses double gaps and skipped positions -/
theorem cigar_roundtrip (o : WOpts) (refSeq segSeq : List Nat) (t : PTrace) (ops : List (Op × Nat))
    (hw : writeOps o refSeq segSeq t = .ok (some ops)) :
    ∃ t' a, (if o.itg then .ok t else trimSeg t) = .ok t' ∧ firstSeg t' = some a ∧
      readOps ((firstRef t').getD 0) ops = .ok (if o.hc then shiftSeg a t' else t') := by
  unfold writeOps at hw
  split at hw
  · cases hw
  · next t' htrim =>
    split at hw
    · cases hw
    · next os hos =>
      have hk := columnOps_kinds hos
      have hf' := follows_of_contig t' (columnOps_nodouble hos) (columnOps_contig hos)
      split at hw
      · cases hw
      · split at hw
        · cases hw
        · cases hw
        · next a b hclip =>
          have ha : firstSeg t' = some a := by
            unfold clips at hclip
            split at hclip
            · next a' b' h1 h2 =>
              split at hclip <;> simp at hclip
              rw [h1, hclip.1]
            · cases hclip
          refine ⟨t', a, htrim, ha, ?_⟩
          obtain ⟨rp, sp, h⟩ := hf'
          have hpos : Follows ((firstRef t').getD 0) a t' := follows_firstRef (follows_firstSeg h ha)
          simp only [Except.ok.injEq, Option.some.injEq] at hw
          subst hw
          unfold readOps
          by_cases hhc : o.hc = true
          · simp only [hhc, if_true]
            have htl := clip_tail .H (Or.inr rfl) b
            have hsh : Follows ((firstRef t').getD 0) (a - a) (shiftSeg a t') := follows_shift a hpos (Nat.le_refl _)
            rw [Nat.sub_self] at hsh
            have key := readGo_units htl (kinds_shift a hk) _ _ hsh
            by_cases ha0 : a = 0
            · simp only [ha0, if_true, List.nil_append] at key ⊢
              rw [readGo_aggregate, key]
            · simp only [ha0, if_false, List.cons_append, List.nil_append]
              simp only [readGo, Op.kind]
              rw [readGo_aggregate, key]
          · simp only [hhc, if_false, Bool.false_eq_true]
            have htl := clip_tail .S (Or.inl rfl) b
            by_cases ha0 : a = 0
            · have key := readGo_units htl hk _ _ hpos
              simp only [ha0, if_true, List.nil_append] at key ⊢
              rw [readGo_aggregate, key]
            · have key := readGo_units htl hk _ _ hpos
              simp only [ha0, if_false, List.cons_append, List.nil_append]
              simp only [readGo, Op.kind, Nat.zero_add]
              rw [readGo_aggregate, key]

end BiotiteModel.C11

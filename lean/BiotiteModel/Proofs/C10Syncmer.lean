import BiotiteModel.Proofs.C10Kmers
/-! Helper lemmas for `C10_syncmer_select`: `SyncmerSelector.select` = "the leftmost minimal s-mer of
the k-mer sits at an allowed offset". -/
namespace BiotiteModel.C10

theorem mem_filterSyncmer (offs : List Nat) (rel : List Int) (i : Nat) :
    i ∈ filterSyncmer offs rel ↔ ∃ r, rel[i]? = some r ∧ ∃ o ∈ offs, (o : Int) = r := by
  unfold filterSyncmer
  simp only [List.mem_filterMap]
  constructor
  · rintro ⟨⟨i', r⟩, hm, hsel⟩
    rw [mem_zipIdx] at hm
    split at hsel
    · rename_i hany
      simp only [Option.some.injEq] at hsel; subst hsel
      simp only [List.any_eq_true, beq_iff_eq] at hany
      exact ⟨r, hm, hany⟩
    · simp at hsel
  · rintro ⟨r, hr, o, ho, heq⟩
    refine ⟨(i, r), (mem_zipIdx _ _ _).2 hr, ?_⟩
    have : (offs.any fun o => (o : Int) == r) = true := by
      simp only [List.any_eq_true, beq_iff_eq]; exact ⟨o, ho, heq⟩
    simp [this]

theorem rel_getElem? (ps : List Nat) (i : Nat) (r : Int) :
    ((zipIdx ps).map fun (x : Nat × Nat) => ((x.2 : Int) - (x.1 : Int)))[i]? = some r ↔
      ∃ m, ps[i]? = some m ∧ r = (m : Int) - (i : Int) := by
  rw [List.getElem?_map]
  constructor
  · intro h
    cases hz : (zipIdx ps)[i]? with
    | none => simp [hz] at h
    | some x =>
      obtain ⟨j, m⟩ := x
      unfold zipIdx at hz
      rw [List.getElem?_zip_eq_some] at hz
      obtain ⟨h1, h2⟩ := hz
      rw [List.getElem?_eq_some_iff] at h1
      obtain ⟨_, h1⟩ := h1
      simp at h1
      subst h1
      simp only [zipIdx] at h
      refine ⟨m, h2, ?_⟩
      have : (((List.range ps.length).zip ps)[i]?) = some (i, m) := by
        rw [List.getElem?_zip_eq_some]
        exact ⟨by simp [(List.getElem?_eq_some_iff.1 h2).1], h2⟩
      rw [this] at h
      simpa using h.symm
  · rintro ⟨m, hm, rfl⟩
    have : (zipIdx ps)[i]? = some (i, m) := by
      unfold zipIdx
      rw [List.getElem?_zip_eq_some]
      exact ⟨by simp [(List.getElem?_eq_some_iff.1 hm).1], hm⟩
    simp [this]

theorem kmersSpec_length (a : KAlph) (seq : List Nat) : (kmersSpec a seq).length = seq.length - a.span + 1 := by
  simp [kmersSpec]

theorem syncmerSelect_spec (n k s : Nat) (hs : 2 ≤ s) (hsk : s < k) (p : Perm) (offsets : List Int)
    (offs : List Nat) (hoffs : syncOffsets (k - s + 1) offsets = .ok offs)
    (seq : List Nat) (hlen : k ≤ seq.length) (hn : ∀ c ∈ seq, c < n)
    (ord : List Int) (happly : p.apply (kmersSpec ⟨n, s, none⟩ seq) = .ok ord)
    (hmax : ∀ v ∈ ord, v < int64Max) :
    ∃ sel, syncmerSelect n k s p offsets seq = .ok sel ∧
      ∀ i q, (i, q) ∈ sel ↔ (kmersSpec ⟨n, k, none⟩ seq)[i]? = some q ∧
        ∃ m, leftmostArgmin ord i (k - s + 1) = some m ∧ ∃ o ∈ offs, (o : Int) = (m : Int) - (i : Int) := by
  have wfk : (⟨n, k, none⟩ : KAlph).WF := ⟨by simp; omega, fun sp h => by simp at h⟩
  have wfs : (⟨n, s, none⟩ : KAlph).WF := ⟨by simp; omega, fun sp h => by simp at h⟩
  have hk := createKmers_eq ⟨n, k, none⟩ seq wfk (by simp [KAlph.span]; omega) hn
  have hsm := createKmers_eq ⟨n, s, none⟩ seq wfs (by simp [KAlph.span]; omega) hn
  obtain ⟨ps, h1, h2, _, _⟩ := minimizeAll_spec ord (k - s + 1) (by omega) hmax
  have hol := perm_apply_length p _ ord happly
  have hpl : ps.length = ord.length - (k - s + 1 - 1) := by
    have := congrArg List.length h2
    simpa [windowMinima] using this
  have hkl : (kmersSpec ⟨n, k, none⟩ seq).length = seq.length - k + 1 := by
    rw [kmersSpec_length]; simp [KAlph.span]
  have hsl : (kmersSpec ⟨n, s, none⟩ seq).length = seq.length - s + 1 := by
    rw [kmersSpec_length]; simp [KAlph.span]
  have hlen_eq : ps.length = (kmersSpec ⟨n, k, none⟩ seq).length := by omega
  -- ps[i]? in terms of the specification
  have hps : ∀ i m, ps[i]? = some m ↔ (i < ps.length ∧ leftmostArgmin ord i (k - s + 1) = some m) := by
    intro i m
    have h3 := congrArg (fun l => l[i]?) h2
    simp only [List.getElem?_map, windowMinima] at h3
    by_cases hi : i < ps.length
    · have hi2 : i < ord.length - (k - s + 1 - 1) := by omega
      rw [List.getElem?_range hi2] at h3
      simp only [Option.map_some] at h3
      constructor
      · intro h; rw [h] at h3; exact ⟨hi, by simpa using h3.symm⟩
      · rintro ⟨_, h⟩
        rw [h] at h3
        cases hp : ps[i]? with
        | none => simp [hp] at h3
        | some x => simp [hp] at h3; rw [h3]
    · constructor
      · intro h; exact absurd (List.getElem?_eq_some_iff.1 h).1 hi
      · rintro ⟨h, _⟩; exact absurd h hi
  let rel := (zipIdx ps).map fun (x : Nat × Nat) => ((x.2 : Int) - (x.1 : Int))
  have hget : ∀ i ∈ filterSyncmer offs rel,
      (kmersSpec ⟨n, k, none⟩ seq)[i]? = some ((kmersSpec ⟨n, k, none⟩ seq)[i]?.getD 0) := by
    intro i hi
    obtain ⟨r, hr, _⟩ := (mem_filterSyncmer offs rel i).1 hi
    obtain ⟨m, hm, _⟩ := (rel_getElem? ps i r).1 hr
    have : i < (kmersSpec ⟨n, k, none⟩ seq).length := by
      have := (List.getElem?_eq_some_iff.1 hm).1; omega
    simp [List.getElem?_eq_getElem this]
  refine ⟨(filterSyncmer offs rel).map fun i => (i, (kmersSpec ⟨n, k, none⟩ seq)[i]?.getD 0), ?_, ?_⟩
  · unfold syncmerSelect
    have hnot : ¬ ¬ s < k := by omega
    have hk2 : ¬ k < 2 := by omega
    have hs2 : ¬ s < 2 := by omega
    have hne : ¬ ps.length ≠ (kmersSpec ⟨n, k, none⟩ seq).length := by omega
    simp only [hnot, if_false, mkAlph, hk2, hs2, hoffs, hk, hsm, happly, h1, hne]
    apply mapMExcept_ok
    intro i hi
    rw [hget i hi]
    rfl
  · intro i q
    simp only [List.mem_map, Prod.mk.injEq]
    constructor
    · rintro ⟨i', hi', rfl, rfl⟩
      refine ⟨hget i' hi', ?_⟩
      obtain ⟨r, hr, o, ho, heq⟩ := (mem_filterSyncmer offs rel i').1 hi'
      obtain ⟨m, hm, rfl⟩ := (rel_getElem? ps i' r).1 hr
      exact ⟨m, ((hps i' m).1 hm).2, o, ho, heq⟩
    · rintro ⟨hq, m, hm, o, ho, heq⟩
      have hi : i < ps.length := by
        have := (List.getElem?_eq_some_iff.1 hq).1; omega
      refine ⟨i, ?_, rfl, by simp [hq]⟩
      apply (mem_filterSyncmer offs rel i).2
      exact ⟨(m : Int) - (i : Int), (rel_getElem? ps i _).2 ⟨m, (hps i m).2 ⟨hi, hm⟩, rfl⟩, o, ho, heq⟩

end BiotiteModel.C10

namespace BiotiteModel.C10

/-! ### `count()` and `get_kmers()` -/

theorem countAll_canon (a : KAlph) (nb : Nat) (items : List Entry) :
    countAll (canonTable a false nb items)
      = (List.range nb).map fun b => (items.filter (fun e => e.kmer == b)).length := by
  unfold countAll
  simp only [canonTable]
  apply List.map_congr_left
  intro b hb
  rw [slotEntries_canon _ _ _ _ (List.mem_range.1 hb)]
  simp [filt, hashOf]

theorem mem_insertSorted (x y : Nat) : ∀ l : List Nat, y ∈ insertSorted x l ↔ y = x ∨ y ∈ l := by
  intro l
  induction l with
  | nil => simp [insertSorted]
  | cons z zs ih =>
    simp only [insertSorted]
    split
    · simp
    · simp only [List.mem_cons, ih]
      constructor
      · rintro (h | h | h) <;> simp [h]
      · rintro (h | h | h) <;> simp [h]

theorem mem_sortNats (y : Nat) : ∀ l : List Nat, y ∈ sortNats l ↔ y ∈ l := by
  intro l
  induction l with
  | nil => simp [sortNats]
  | cons z zs ih =>
    have : sortNats (z :: zs) = insertSorted z (sortNats zs) := rfl
    rw [this, mem_insertSorted, ih]; simp

theorem mem_dedupSorted (y : Nat) : ∀ l : List Nat, y ∈ dedupSorted l ↔ y ∈ l := by
  intro l
  induction l with
  | nil => simp [dedupSorted]
  | cons a t ih =>
    cases t with
    | nil => simp [dedupSorted]
    | cons b r =>
      simp only [dedupSorted]
      split
      · rename_i hab
        have : a = b := by simpa using hab
        subst this
        rw [ih]; simp
      · rw [List.mem_cons, ih]; simp

theorem mem_getKmers_canon (a : KAlph) (bucketed : Bool) (nb : Nat) (items : List Entry) (q : Nat)
    (hbk : bucketed = true → 0 < nb) (hd : bucketed = false → ∀ e ∈ items, e.kmer < nb) :
    q ∈ getKmers (canonTable a bucketed nb items) ↔ ∃ e ∈ items, e.kmer = q := by
  cases bucketed with
  | false =>
    simp only [getKmers, canonTable, Bool.false_eq_true, if_false, List.mem_filter, List.mem_range]
    constructor
    · rintro ⟨hq, hsome⟩
      have hse := slotEntries_canon (hashOf false nb) nb items q hq
      simp only [slotEntries] at hse
      cases hs : (canon (hashOf false nb) nb items)[q]? with
      | none => simp [hs] at hsome
      | some ob =>
        cases ob with
        | none => simp [hs] at hsome
        | some bk =>
          -- a non-NULL slot of a canonical table is non-empty
          simp only [canon, List.getElem?_map, List.getElem?_range hq, Option.map_some, Option.some.injEq] at hs
          split at hs
          · cases hs
          · rename_i hne
            have : ∃ e, e ∈ items.filter (fun e => hashOf false nb e.kmer == q) := by
              cases hf : items.filter (fun e => hashOf false nb e.kmer == q) with
              | nil => simp [hf] at hne
              | cons e _ => exact ⟨e, by simp⟩
            obtain ⟨e, he⟩ := this
            simp only [List.mem_filter, hashOf, Bool.false_eq_true, if_false, beq_iff_eq] at he
            exact ⟨e, he.1, he.2⟩
    · rintro ⟨e, he, rfl⟩
      have hlt := hd rfl e he
      refine ⟨hlt, ?_⟩
      have hmem : e ∈ items.filter (fun x => hashOf false nb x.kmer == e.kmer) := by
        simp [hashOf, he]
      simp only [canon, List.getElem?_map, List.getElem?_range hlt, Option.map_some]
      have hne : ¬ (items.filter (fun x => hashOf false nb x.kmer == e.kmer)).length = 0 := by
        intro h0
        have := List.eq_nil_of_length_eq_zero h0
        rw [this] at hmem; simp at hmem
      simp [hne]
  | true =>
    have hpos := hbk rfl
    simp only [getKmers, canonTable, if_true, mem_dedupSorted, mem_sortNats, List.mem_flatMap,
      List.mem_range, List.mem_map]
    constructor
    · rintro ⟨b, hb, e, he, rfl⟩
      rw [slotEntries_canon _ _ _ _ hb] at he
      simp only [filt, List.mem_filter] at he
      exact ⟨e, he.1, rfl⟩
    · rintro ⟨e, he, rfl⟩
      refine ⟨e.kmer % nb, Nat.mod_lt _ hpos, e, ?_, rfl⟩
      rw [slotEntries_canon _ _ _ _ (Nat.mod_lt _ hpos)]
      simp [filt, hashOf, he]

end BiotiteModel.C10

namespace BiotiteModel.C10

/-! ### `KmerAlphabet.__init__` yields well-formed alphabets -/


theorem sorted_insertSorted (x : Nat) : ∀ l : List Nat, l.Pairwise (· ≤ ·) → (insertSorted x l).Pairwise (· ≤ ·) := by
  intro l
  induction l with
  | nil => intro _; simp [insertSorted]
  | cons z zs ih =>
    intro h
    obtain ⟨h1, h2⟩ := List.pairwise_cons.1 h
    simp only [insertSorted]
    split
    · rename_i hxz
      refine List.pairwise_cons.2 ⟨?_, h⟩
      intro y hy
      rcases List.mem_cons.1 hy with rfl | hy
      · exact hxz
      · exact Nat.le_trans hxz (h1 y hy)
    · rename_i hxz
      refine List.pairwise_cons.2 ⟨?_, ih h2⟩
      intro y hy
      rcases (mem_insertSorted x y zs).1 hy with rfl | hy
      · omega
      · exact h1 y hy

theorem sorted_sortNats : ∀ l : List Nat, (sortNats l).Pairwise (· ≤ ·) := by
  intro l
  induction l with
  | nil => simp [sortNats]
  | cons z zs ih =>
    have : sortNats (z :: zs) = insertSorted z (sortNats zs) := rfl
    rw [this]; exact sorted_insertSorted z _ ih

theorem le_getLast_of_sorted : ∀ (l : List Nat) (m : Nat), l.Pairwise (· ≤ ·) → l.getLast? = some m →
    ∀ y ∈ l, y ≤ m := by
  intro l
  induction l with
  | nil => intro m _ h; simp at h
  | cons a t ih =>
    intro m hp hl y hy
    obtain ⟨h1, h2⟩ := List.pairwise_cons.1 hp
    cases t with
    | nil =>
      simp at hl hy
      omega
    | cons b r =>
      rw [List.getLast?_cons_cons] at hl
      rcases List.mem_cons.1 hy with rfl | hy
      · exact h1 m (List.mem_of_getLast? hl)
      · exact ih m h2 hl y hy

/-- every alphabet `KmerAlphabet.__init__` accepts is well formed -/
theorem mkAlph_wf (n k : Nat) (spacing : Option (List Nat)) (a : KAlph) (h : mkAlph n k spacing = .ok a) :
    a.WF ∧ a.n = n ∧ a.k = k := by
  unfold mkAlph at h
  split at h
  · cases h
  · rename_i hk
    cases spacing with
    | none =>
      simp only [Except.ok.injEq] at h; subst h
      exact ⟨⟨by simp; omega, fun sp hsp => by simp at hsp⟩, rfl, rfl⟩
    | some sp =>
      simp only at h
      split at h
      · cases h
      · split at h
        · cases h
        · rename_i hlen
          simp only [Except.ok.injEq] at h; subst h
          refine ⟨⟨by simp; omega, ?_⟩, rfl, rfl⟩
          intro sp' hsp'
          simp only [Option.some.injEq] at hsp'
          subst hsp'
          refine ⟨by simpa using hlen, ?_⟩
          intro off hoff
          simp only [KAlph.span]
          cases hl : (sortNats sp).getLast? with
          | none =>
            have : sortNats sp = [] := List.getLast?_eq_none_iff.1 hl
            rw [this] at hoff; simp at hoff
          | some m =>
            have := le_getLast_of_sorted _ m (sorted_sortNats sp) hl off hoff
            simp only; omega

end BiotiteModel.C10

import BiotiteModel.Proofs.C18Grid
/-! # C18 — header round trip lemmas -/
namespace BiotiteModel.C18

/-- no leading and no trailing blank (decidable form of `TightL ∧ TightR`) -/
def tightB (s : Line) : Bool :=
  (match s with | [] => true | c :: _ => !isSp c) && (match s.reverse with | [] => true | c :: _ => !isSp c)

theorem tightB_spec (s : Line) (h : tightB s = true) : TightL s ∧ TightR s := by
  simp only [tightB, Bool.and_eq_true] at h
  constructor
  · intro c t hs; subst hs; simpa using h.1
  · intro c t hs
    have h2 := h.2
    rw [hs] at h2
    simpa using h2

theorem fixR_tight (w : Nat) (s : Line) (hl : s.length ≤ w) : fixR w s = padL w s := by
  unfold fixR; rw [List.take_of_length_le hl]

theorem fixR_length (w : Nat) (s : Line) : (fixR w s).length = w := by
  unfold fixR
  apply padL_length_of_le
  simp [List.length_take]; omega

theorem strip_fixR (w : Nat) (s : Line) (hl : s.length ≤ w) (ht : tightB s = true) : strip (fixR w s) = s := by
  rw [fixR_tight w s hl]
  exact strip_padL w s (tightB_spec s ht).1 (tightB_spec s ht).2

theorem two_fixed (n : Nat) (h : n < 100) : two (fixedDigits 2 n) = some n := by
  unfold two
  simp only [fixedDigits_length, if_true]
  unfold digitsVal
  have he : (fixedDigits 2 n).isEmpty = false := by simp [fixedDigits]
  rw [he]
  simp only [Bool.false_eq_true, if_false]
  rw [digitsAcc_fixed]
  congr 1
  have : n % 10 ^ 2 = n := Nat.mod_eq_of_lt (by simpa using h)
  omega

theorem timeStr_length (t : Nat × Nat × Nat × Nat × Nat) : (timeStr (some t)).length = 10 := by
  obtain ⟨mo, d, y, h, mi⟩ := t
  simp [timeStr, fixedDigits_length]

theorem timeStr_noSp (t : Nat × Nat × Nat × Nat × Nat) : NoSp (timeStr (some t)) := by
  obtain ⟨mo, d, y, h, mi⟩ := t
  unfold timeStr
  exact NoSp.append (NoSp.append (NoSp.append (NoSp.append (noSp_of_isDig (fixedDigits_isDig _ _))
    (noSp_of_isDig (fixedDigits_isDig _ _))) (noSp_of_isDig (fixedDigits_isDig _ _)))
    (noSp_of_isDig (fixedDigits_isDig _ _))) (noSp_of_isDig (fixedDigits_isDig _ _))

def TimeValid : Option (Nat × Nat × Nat × Nat × Nat) → Prop
  | none => True
  | some t => timeOk t = true

instance (t : Option (Nat × Nat × Nat × Nat × Nat)) : Decidable (TimeValid t) := by
  cases t <;> unfold TimeValid <;> infer_instance

theorem timeOk_bounds (mo d y h mi : Nat) (ht : timeOk (mo, d, y, h, mi) = true) :
    mo < 100 ∧ d < 100 ∧ y < 100 ∧ h < 100 ∧ mi < 100 := by
  simp only [timeOk, Bool.and_eq_true, decide_eq_true_eq] at ht
  have : daysIn mo y ≤ 31 := by unfold daysIn; split <;> (try split) <;> omega
  omega

theorem parseTime_write (t : Option (Nat × Nat × Nat × Nat × Nat)) (ht : TimeValid t) :
    parseTime (fixR 10 (timeStr t)) = .ok t := by
  cases t with
  | none =>
    have : strip (fixR 10 (timeStr none)) = [] := by decide
    simp [parseTime, this]
  | some t =>
    obtain ⟨mo, d, y, h, mi⟩ := t
    have hlen := timeStr_length (mo, d, y, h, mi)
    have hfix : fixR 10 (timeStr (some (mo, d, y, h, mi))) = timeStr (some (mo, d, y, h, mi)) := by
      rw [fixR_tight 10 _ (by omega)]; simp [padL, hlen]
    rw [hfix]
    have hb := timeOk_bounds mo d y h mi ht
    have hs : strip (timeStr (some (mo, d, y, h, mi))) = timeStr (some (mo, d, y, h, mi)) :=
      strip_tight _ (timeStr_noSp _).tightL (timeStr_noSp _).tightR
    have hne : (timeStr (some (mo, d, y, h, mi))).isEmpty = false := by
      cases hh : timeStr (some (mo, d, y, h, mi)) with
      | nil => rw [hh] at hlen; simp at hlen
      | cons _ _ => rfl
    have l2 : ∀ n, (fixedDigits 2 n).length = 2 := fun n => fixedDigits_length 2 n
    have s1 : slice 0 2 (timeStr (some (mo, d, y, h, mi))) = fixedDigits 2 mo :=
      slice_of_eq _ [] _ (fixedDigits 2 d ++ fixedDigits 2 y ++ fixedDigits 2 h ++ fixedDigits 2 mi) 0 2
        (by simp [timeStr, List.append_assoc]) rfl (by simp [l2])
    have s2 : slice 2 4 (timeStr (some (mo, d, y, h, mi))) = fixedDigits 2 d :=
      slice_of_eq _ (fixedDigits 2 mo) _ (fixedDigits 2 y ++ fixedDigits 2 h ++ fixedDigits 2 mi) 2 4
        (by simp [timeStr, List.append_assoc]) (l2 _) (by simp [l2])
    have s3 : slice 4 6 (timeStr (some (mo, d, y, h, mi))) = fixedDigits 2 y :=
      slice_of_eq _ (fixedDigits 2 mo ++ fixedDigits 2 d) _ (fixedDigits 2 h ++ fixedDigits 2 mi) 4 6
        (by simp [timeStr, List.append_assoc]) (by simp [l2]) (by simp [l2])
    have s4 : slice 6 8 (timeStr (some (mo, d, y, h, mi))) = fixedDigits 2 h :=
      slice_of_eq _ (fixedDigits 2 mo ++ fixedDigits 2 d ++ fixedDigits 2 y) _ (fixedDigits 2 mi) 6 8
        (by simp [timeStr, List.append_assoc]) (by simp [l2]) (by simp [l2])
    have s5 : slice 8 10 (timeStr (some (mo, d, y, h, mi))) = fixedDigits 2 mi :=
      slice_of_eq _ (fixedDigits 2 mo ++ fixedDigits 2 d ++ fixedDigits 2 y ++ fixedDigits 2 h) _ [] 8 10
        (by simp [timeStr, List.append_assoc]) (by simp [l2]) (by simp [l2])
    unfold parseTime
    rw [hs, hne, s1, s2, s3, s4, s5]
    simp only [Bool.false_eq_true, if_false, two_fixed _ hb.1, two_fixed _ hb.2.1, two_fixed _ hb.2.2.1,
      two_fixed _ hb.2.2.2.1, two_fixed _ hb.2.2.2.2, hlen]
    have : timeOk (mo, d, y, h, mi) = true := ht
    simp [this]

/-- What the three header lines can express: a name of at most 80 characters; every field of the
second line within its column width; no field with a leading or trailing blank (the fields are
right-aligned and read back with `strip()`); a time stamp that is a valid date with minute
resolution and a year 1969…2068 (two digits). -/
def ValidHeader (h : Header) : Prop :=
  h.molName.length ≤ 80 ∧ tightB h.molName = true ∧ tightB h.comments = true ∧
  h.initials.length ≤ 2 ∧ tightB h.initials = true ∧ h.program.length ≤ 8 ∧ tightB h.program = true ∧
  h.dimensions.length ≤ 2 ∧ tightB h.dimensions = true ∧ h.scaling.length ≤ 12 ∧ tightB h.scaling = true ∧
  h.energy.length ≤ 12 ∧ tightB h.energy = true ∧ h.registry.length ≤ 6 ∧ tightB h.registry = true ∧
  TimeValid h.time

instance (h : Header) : Decidable (ValidHeader h) := by unfold ValidHeader; infer_instance

def headerLine2 (h : Header) : Line :=
  fixR 2 h.initials ++ fixR 8 h.program ++ fixR 10 (timeStr h.time) ++ fixR 2 h.dimensions
    ++ fixR 12 h.scaling ++ fixR 12 h.energy ++ fixR 6 h.registry

theorem headerLine2_length (h : Header) : (headerLine2 h).length = 52 := by
  simp [headerLine2, fixR_length]

theorem header_deserialize_lines (h : Header) (hv : ValidHeader h) (rest : List Line) :
    Header.deserialize (h.molName :: headerLine2 h :: h.comments :: rest) = .ok h := by
  obtain ⟨_, tn, tc, l1, t1, l2, t2, l3, t3, l4, t4, l5, t5, l6, t6, tv⟩ := hv
  let A := fixR 2 h.initials
  let B := fixR 8 h.program
  let C := fixR 10 (timeStr h.time)
  let D := fixR 2 h.dimensions
  let E := fixR 12 h.scaling
  let F := fixR 12 h.energy
  let G := fixR 6 h.registry
  have sa : slice 0 2 (headerLine2 h) = A :=
    slice_of_eq _ [] A (B ++ C ++ D ++ E ++ F ++ G) 0 2 (by simp [headerLine2, A, B, C, D, E, F, G, List.append_assoc]) rfl
      (by simp [A, fixR_length])
  have sb : slice 2 10 (headerLine2 h) = B :=
    slice_of_eq _ A B (C ++ D ++ E ++ F ++ G) 2 10 (by simp [headerLine2, A, B, C, D, E, F, G, List.append_assoc])
      (by simp [A, fixR_length]) (by simp [B, fixR_length])
  have sc : slice 10 20 (headerLine2 h) = C :=
    slice_of_eq _ (A ++ B) C (D ++ E ++ F ++ G) 10 20 (by simp [headerLine2, A, B, C, D, E, F, G, List.append_assoc])
      (by simp [A, B, fixR_length]) (by simp [C, fixR_length])
  have sd : slice 20 22 (headerLine2 h) = D :=
    slice_of_eq _ (A ++ B ++ C) D (E ++ F ++ G) 20 22 (by simp [headerLine2, A, B, C, D, E, F, G, List.append_assoc])
      (by simp [A, B, C, fixR_length]) (by simp [D, fixR_length])
  have se : slice 22 34 (headerLine2 h) = E :=
    slice_of_eq _ (A ++ B ++ C ++ D) E (F ++ G) 22 34 (by simp [headerLine2, A, B, C, D, E, F, G, List.append_assoc])
      (by simp [A, B, C, D, fixR_length]) (by simp [E, fixR_length])
  have sf : slice 34 46 (headerLine2 h) = F :=
    slice_of_eq _ (A ++ B ++ C ++ D ++ E) F G 34 46 (by simp [headerLine2, A, B, C, D, E, F, G, List.append_assoc])
      (by simp [A, B, C, D, E, fixR_length]) (by simp [F, fixR_length])
  have sg : slice 46 52 (headerLine2 h) = G :=
    slice_of_eq _ (A ++ B ++ C ++ D ++ E ++ F) G [] 46 52 (by simp [headerLine2, A, B, C, D, E, F, G, List.append_assoc])
      (by simp [A, B, C, D, E, F, fixR_length]) (by simp [G, fixR_length])
  simp only [Header.deserialize, sa, sb, sc, sd, se, sf, sg]
  simp only [A, B, C, D, E, F, G, parseTime_write h.time tv, bind, Except.bind, pure, Except.pure,
    strip_fixR _ _ l1 t1, strip_fixR _ _ l2 t2, strip_fixR _ _ l3 t3, strip_fixR _ _ l4 t4, strip_fixR _ _ l5 t5,
    strip_fixR _ _ l6 t6, strip_tight _ (tightB_spec _ tn).1 (tightB_spec _ tn).2,
    strip_tight _ (tightB_spec _ tc).1 (tightB_spec _ tc).2]

theorem header_serialize_eq (h : Header) (hv : ValidHeader h) :
    h.serialize = .ok [h.molName, headerLine2 h, h.comments] := by
  have : ¬ h.molName.length > 80 := by have := hv.1; omega
  simp [Header.serialize, this, headerLine2]

end BiotiteModel.C18

import BiotiteModel.Proofs.C06Table
/-!
# C06 — a whole looped category: `categoryDeserialize (categorySerialize t) = t`
-/
namespace BiotiteModel.C06

theorem mem_padded (c : Char) (toks : List (Str × Nat)) (h : c ∈ padded toks) :
    c = ' ' ∨ ∃ tn ∈ toks, c ∈ tn.1 := by
  induction toks with
  | nil => simp [padded] at h
  | cons tn rest ih =>
    obtain ⟨t, n⟩ := tn
    cases rest with
    | nil => exact Or.inr ⟨(t, n), by simp, by simpa [padded] using h⟩
    | cons r rest' =>
      simp only [padded, List.mem_append, List.mem_replicate] at h
      rcases h with (h | h) | h
      · exact Or.inr ⟨(t, n), by simp, h⟩
      · exact Or.inl h.2
      · rcases ih h with e | ⟨tn, htn, hc⟩
        · exact Or.inl e
        · exact Or.inr ⟨tn, by simp [htn], hc⟩

theorem tok_no_nl (v t : Str) (h : Tok v t) (hv : NoBreak v) : NoBreak t := by
  cases h with
  | bare _ hb => exact hv
  | quoted q v hq _ =>
    intro c hc
    have hqn : isBreak q = false := by rcases hq with rfl | rfl <;> decide
    unfold quoteWith at hc
    rcases List.mem_cons.mp hc with e | e
    · rw [e]; exact hqn
    · rcases List.mem_append.mp e with e | e
      · exact hv c e
      · have : c = q := by simpa using e
        rw [this]; exact hqn

theorem rowRel_no_nl (vals : List Str) (toks : List (Str × Nat)) (h : RowRel vals toks)
    (hv : ∀ v ∈ vals, NoBreak v) : ∀ tn ∈ toks, NoBreak tn.1 := by
  induction h with
  | nil => simp
  | cons htok _ ih =>
    intro x hx
    rcases List.mem_cons.mp hx with e | e
    · subst e; exact tok_no_nl _ _ htok (hv _ (by simp))
    · exact ih (fun v hv' => hv v (by simp [hv'])) x e

theorem noBreak_padded (toks : List (Str × Nat)) (h : ∀ tn ∈ toks, NoBreak tn.1) : NoBreak (padded toks) := by
  intro c hc
  rcases mem_padded _ _ hc with e | ⟨tn, htn, hct⟩
  · rw [e]; decide
  · exact h tn htn c hct

/-- A row the writer can meet: non-empty, one width per value, every width larger than the
escaped value, all values single-line without both quote characters. -/
structure GoodRow (ws : List Nat) (row : List Str) : Prop where
  ne : row ≠ []
  len : ws.length = row.length
  wide : ∀ p ∈ ws.zip (row.map escape), p.2.length < p.1
  simple : ∀ v ∈ row, SingleLine v ∧ ¬ BothQuotes v

/-- Everything the category reader needs to know about one written value line. -/
theorem rowLine_facts (ws : List Nat) (row : List Str) (h : GoodRow ws row) :
    let L := rowLine ws (row.map escape)
    strip L = L ∧ NoBreak L ∧ L ≠ [] ∧ L.head? ≠ some ';' ∧ L.head? ≠ some '#' ∧ L.head? ≠ some '_' ∧
    splitOneLine L = .ok row := by
  intro L
  have hlen' : ws.length = (row.map escape).length := by simp [h.len]
  have hne' : row.map escape ≠ [] := by simpa using h.ne
  have hm := padsOf_map_fst ws (row.map escape) hlen'
  have hrel := rowRel_escape row _ hm h.simple
  have hpn := padsOf_ne_nil ws (row.map escape) hlen' hne'
  have hL : L = padded (padsOf ws (row.map escape)) := rowLine_padded row ws _ hlen' hrel hne' h.wide
  have hedges := rowRel_edges _ _ hrel
  have hstrip : strip L = L := by rw [hL]; exact strip_padded _ hpn hedges
  have hsplit := row_written row ws h.ne h.len h.wide h.simple
  have hLne : L ≠ [] := by
    obtain ⟨c, s, hcs, _⟩ := padded_first _ hpn hedges
    rw [hL, hcs]; simp
  rw [show strip (rowLine ws (row.map escape)) = L from hstrip] at hsplit
  -- head of the line = head of the first token
  obtain ⟨v, vs, rfl⟩ : ∃ v vs, row = v :: vs := by
    cases row with
    | nil => exact absurd rfl h.ne
    | cons v vs => exact ⟨v, vs, rfl⟩
  obtain ⟨w, ws', rfl⟩ : ∃ w ws', ws = w :: ws' := by
    cases ws with
    | nil => simp at hlen'
    | cons w ws' => exact ⟨w, ws', rfl⟩
  have hv := h.simple v (by simp)
  have hs := escape_tok v hv.1 hv.2
  have hhead : L.head? = (escape v).head? := by
    rw [hL]
    simp only [List.map_cons, padsOf]
    exact padded_head? _ _ _ (tok_ne_nil _ _ hs.1)
  have hnl : NoBreak L := by
    rw [hL]
    exact noBreak_padded _ (rowRel_no_nl _ _ hrel (fun x hx => (h.simple x hx).1))
  refine ⟨hstrip, hnl, hLne, ?_, ?_, ?_, hsplit⟩
  · rw [hhead]; exact hs.2.semi
  · rw [hhead]; exact hs.2.hash
  · rw [hhead]; exact hs.2.under

/-- a written value line does not start with `data_` or `loop_` -/
theorem rowLine_prefix_facts (ws : List Nat) (row : List Str) (h : GoodRow ws row) :
    sData.isPrefixOf (rowLine ws (row.map escape)) = false ∧ sLoop.isPrefixOf (rowLine ws (row.map escape)) = false := by
  have hlen' : ws.length = (row.map escape).length := by simp [h.len]
  have hne' : row.map escape ≠ [] := by simpa using h.ne
  have hm := padsOf_map_fst ws (row.map escape) hlen'
  have hrel := rowRel_escape row _ hm h.simple
  have hL : rowLine ws (row.map escape) = padded (padsOf ws (row.map escape)) :=
    rowLine_padded row ws _ hlen' hrel hne' h.wide
  obtain ⟨v, vs, rfl⟩ : ∃ v vs, row = v :: vs := by
    cases row with
    | nil => exact absurd rfl h.ne
    | cons v vs => exact ⟨v, vs, rfl⟩
  obtain ⟨w, ws', rfl⟩ : ∃ w ws', ws = w :: ws' := by
    cases ws with
    | nil => simp at hlen'
    | cons w ws' => exact ⟨w, ws', rfl⟩
  have hv := h.simple v (by simp)
  have hs := escape_tok v hv.1 hv.2
  rw [hL]
  simp only [List.map_cons, padsOf]
  exact ⟨padded_not_prefix sData (by decide) _ _ _ hs.2.data, padded_not_prefix sLoop (by decide) _ _ _ hs.2.loop⟩

theorem takeWhile_append_all {α : Type} (p : α → Bool) (A B : List α) (hA : ∀ a ∈ A, p a = true)
    (hB : ∀ b ∈ B, p b = false) : (A ++ B).takeWhile p = A := by
  induction A with
  | nil =>
    cases B with
    | nil => rfl
    | cons b bs => simp [List.takeWhile, hB b (by simp)]
  | cons a as ih =>
    simp [List.takeWhile, hA a (by simp), ih (fun x hx => hA x (by simp [hx]))]

theorem mapM'_map_ok {α β : Type} (f : β → Except Err α) (g : α → β) (xs : List α)
    (h : ∀ x ∈ xs, f (g x) = .ok x) : mapM' f (xs.map g) = .ok xs := by
  induction xs with
  | nil => rfl
  | cons x xs ih =>
    simp only [List.map_cons, mapM', h x (by simp), ih (fun y hy => h y (by simp [hy])), bind, Except.bind]

theorem zip_map_map {α β γ δ : Type} (f : α → γ) (g : β → δ) (l1 : List α) (l2 : List β) :
    (l1.map f).zip (l2.map g) = (l1.zip l2).map (fun p => (f p.1, g p.2)) := by
  induction l1 generalizing l2 with
  | nil => simp
  | cons a l1 ih =>
    cases l2 with
    | nil => simp
    | cons b l2 => simp [ih l2]

theorem zip_map_fst_snd {α β : Type} (l : List (α × β)) : (l.map (·.1)).zip (l.map (·.2)) = l := by
  induction l with
  | nil => rfl
  | cons x xs ih => simp [ih]

theorem serializeLooped_eq (name : Str) (cols : List (Str × List Str)) (r : Nat) :
    serializeLooped name cols r =
      sLoop :: (cols.map (fun kv => keyTok name kv.1 ++ [' '])) ++
        (transpose r (cols.map (·.2))).map (fun row =>
          rowLine ((cols.map (·.2)).map (fun c => maxLen (c.map escape) + 1)) (row.map escape)) := by
  have e1 : cols.map (fun kv => kv.2.map escape) = (cols.map (·.2)).map (List.map escape) := by
    simp [List.map_map, Function.comp_def]
  simp only [serializeLooped]
  rw [e1, transpose_map]
  simp only [List.map_map, Function.comp_def, keyTok, List.cons_append]

/-- **Looped category, composed.** -/
theorem table_looped (name : Str) (cols : List (Str × List Str)) (r : Nat)
    (hname : NameOk name) (hkeys : ∀ kv ∈ cols, NameOk kv.1) (hnodup : (cols.map (·.1)).Nodup)
    (hcols : cols ≠ []) (hr : 2 ≤ r) (hrect : ∀ kv ∈ cols, kv.2.length = r)
    (hvals : ∀ kv ∈ cols, ∀ v ∈ kv.2, SingleLine v ∧ ¬ BothQuotes v) :
    ∃ W, categorySerialize name cols = .ok (unlines W) ∧ CatLines name W ∧
      categoryDeserialize (unlines W) = .ok (name, cols) := by
  -- notation
  let M := cols.map (·.2)
  let keys := cols.map (·.1)
  let ws := M.map (fun c => maxLen (c.map escape) + 1)
  let R := transpose r M
  let lineOf : List Str → Str := fun row => rowLine ws (row.map escape)
  let keyToks := keys.map (keyTok name)
  have hMrect : Rect cols.length r M := ⟨by simp [M], by
    intro c hc
    simp only [M, List.mem_map] at hc
    obtain ⟨kv, hkv, rfl⟩ := hc
    exact hrect kv hkv⟩
  have hk0 : 0 < cols.length := by cases cols <;> simp_all
  -- every row of the transpose is a good row
  have hgood : ∀ row ∈ R, GoodRow ws row := by
    intro row hrow
    obtain ⟨hl, hmem⟩ := transpose_row_mem r M row hrow
    have hl' : row.length = cols.length := by simpa [M] using hl
    refine ⟨?_, by simp [ws, M, hl'], ?_, ?_⟩
    · intro e; rw [e] at hl'; simp at hl'; omega
    · intro p hp
      have hz : ws.zip (row.map escape) =
          (M.zip row).map (fun cx => (maxLen (cx.1.map escape) + 1, escape cx.2)) :=
        zip_map_map _ _ M row
      rw [hz] at hp
      simp only [List.mem_map] at hp
      obtain ⟨cx, hcx, rfl⟩ := hp
      exact width_sufficient cx.1 cx.2 (hmem cx hcx)
    · intro v hv
      obtain ⟨i, hi, rfl⟩ := List.getElem_of_mem hv
      have hi' : i < M.length := by omega
      have hp : (M[i], row[i]) ∈ M.zip row := by
        have := List.getElem_zip (l := M) (l' := row) (i := i) (h := by simp; omega)
        rw [← this]; exact List.getElem_mem _
      have hmem' := hmem _ hp
      have hMi : M[i] ∈ M := List.getElem_mem _
      simp only [M, List.mem_map] at hMi
      obtain ⟨kv, hkv, hkve⟩ := hMi
      exact hvals kv hkv _ (by rw [hkve]; exact hmem')
  -- the written lines
  have hser : categorySerialize name cols =
      .ok (unlines (sLoop :: (keyToks.map (· ++ [' '])) ++ R.map lineOf)) := by
    obtain ⟨kv0, rest, rfl⟩ : ∃ kv0 rest, cols = kv0 :: rest := by
      cases cols with
      | nil => exact absurd rfl hcols
      | cons a b => exact ⟨a, b, rfl⟩
    have h0 : kv0.2.length = r := hrect kv0 (by simp)
    have hany : ((kv0 :: rest).any fun kv => kv.2.length != kv0.2.length) = false := by
      apply Bool.eq_false_iff.mpr
      intro h
      simp only [List.any_eq_true, bne_iff_ne, ne_eq] at h
      obtain ⟨kv, hkv, hne⟩ := h
      exact hne (by rw [hrect kv hkv, h0])
    have hr0 : (kv0.2.length == 0) = false := by rw [h0]; simp; omega
    have hr1 : (kv0.2.length == 1) = false := by rw [h0]; simp; omega
    have hlab := labels_ok name ((kv0 :: rest).map (·.1)) hname (by
      intro k hk
      simp only [List.mem_map] at hk
      obtain ⟨kv, hkv, rfl⟩ := hk
      exact hkeys kv hkv)
    simp only [categorySerialize, hlab, hany, Bool.false_eq_true, if_false, hr0, hr1]
    rw [h0, serializeLooped_eq]
    simp only [keyToks, keys, R, lineOf, ws, M, List.map_map, Function.comp_def, List.cons_append]
  refine ⟨sLoop :: (keyToks.map (· ++ [' '])) ++ R.map lineOf, hser, ?_⟩
  -- facts about the lines
  have hfacts := fun row (hrow : row ∈ R) => rowLine_facts ws row (hgood row hrow)
  have hkeyOk : ∀ key ∈ keys, NameOk key := by
    intro key hkey
    simp only [keys, List.mem_map] at hkey
    obtain ⟨kv, hkv, rfl⟩ := hkey
    exact hkeys kv hkv
  let W := sLoop :: (keyToks.map (· ++ [' '])) ++ R.map lineOf
  have hWstrip : W.map strip = sLoop :: keyToks ++ R.map lineOf := by
    simp only [W, List.map_cons, List.map_append, List.map_map, List.cons_append, List.cons.injEq]
    refine ⟨by decide, ?_⟩
    congr 1
    · simp only [keyToks, List.map_map]
      apply List.map_congr_left
      intro key hkey
      have := strip_edges_spaces (keyTok name key) (keyTok_edges name key hname (hkeyOk key hkey)) 1
      simpa using this
    · apply List.map_congr_left
      intro row hrow
      exact (hfacts row hrow).1
  have hWnl : ∀ w ∈ W, NoBreak w := by
    intro w hw
    simp only [W, List.cons_append, List.mem_cons, List.mem_append, List.mem_map] at hw
    rcases hw with rfl | ⟨t, ht, rfl⟩ | ⟨row, hrow, rfl⟩
    · decide
    · simp only [keyToks, List.mem_map] at ht
      obtain ⟨key, hkey, rfl⟩ := ht
      intro c hc
      rcases List.mem_append.mp hc with hm | hm
      · exact noBreak_of_nows _ (keyTok_nows name key hname (hkeyOk key hkey)) c hm
      · have : c = ' ' := by simpa using hm
        rw [this]; decide
    · exact (hfacts row hrow).2.1
  have hWne : ∀ w ∈ W, isEmptyLine w = false := by
    intro w hw
    simp only [W, List.cons_append, List.mem_cons, List.mem_append, List.mem_map] at hw
    rcases hw with rfl | ⟨t, ht, rfl⟩ | ⟨row, hrow, rfl⟩
    · decide
    · simp only [keyToks, List.mem_map] at ht
      obtain ⟨key, hkey, rfl⟩ := ht
      have h1 : strip (keyTok name key ++ [' ']) = keyTok name key := by
        have := strip_edges_spaces (keyTok name key) (keyTok_edges name key hname (hkeyOk key hkey)) 1
        simpa using this
      unfold isEmptyLine
      rw [h1]
      simp [keyTok]
    · obtain ⟨h1, _, h3, _, h5, _, _⟩ := hfacts row hrow
      show isEmptyLine (rowLine ws (row.map escape)) = false
      unfold isEmptyLine
      rw [h1]
      simp only [Bool.or_eq_false_iff]
      exact ⟨by simpa using h3, by simpa using h5⟩
  have hcl : CatLines name W := by
    obtain ⟨kv0, rest, hcols'⟩ := List.exists_cons_of_ne_nil hcols
    have hkt : keyToks = keyTok name kv0.1 :: (rest.map (·.1)).map (keyTok name) := by
      simp [keyToks, keys, hcols']
    have hkeyline : ∀ t ∈ keyToks.map (· ++ [' ']), isLoopStart t = false ∧ parseCategoryName t = some name ∧
        parseDataBlockName t = none := by
      intro t ht
      simp only [keyToks, List.mem_map] at ht
      obtain ⟨_, ⟨key, _, rfl⟩, rfl⟩ := ht
      refine ⟨by simp [isLoopStart, sLoop, keyTok, List.isPrefixOf], parseCategoryName_keyTok_app name key _ hname, ?_⟩
      simp [parseDataBlockName, sData, keyTok, List.isPrefixOf]
    have hdataline : ∀ t ∈ R.map lineOf, isLoopStart t = false ∧ parseCategoryName t = none ∧
        parseDataBlockName t = none := by
      intro t ht
      simp only [List.mem_map] at ht
      obtain ⟨row, hrow, rfl⟩ := ht
      have hp := rowLine_prefix_facts ws row (hgood row hrow)
      have hu := (hfacts row hrow).2.2.2.2.2.1
      have hp1 : sData.isPrefixOf (lineOf row) = false := hp.1
      refine ⟨hp.2, ?_, by simp only [parseDataBlockName, hp1]; rfl⟩
      have : ((lineOf row).head? == some '_') = false := by simpa using hu
      simp only [parseCategoryName, this]; rfl
    refine ⟨hWnl, hWne, ?_, ?_, ?_⟩
    · intro w hw
      simp only [W, List.cons_append, List.mem_cons, List.mem_append] at hw
      rcases hw with rfl | hw | hw
      · decide
      · exact (hkeyline w hw).2.2
      · exact (hdataline w hw).2.2
    · refine ⟨sLoop, keyToks.map (· ++ [' ']) ++ R.map lineOf, rfl, Or.inl ⟨by decide, ?_⟩⟩
      rw [hkt]
      refine ⟨keyTok name kv0.1 ++ [' '], _, rfl, by simp, parseCategoryName_keyTok_app name kv0.1 _ hname⟩
    · intro w hw
      simp only [W, List.cons_append, List.tail_cons, List.mem_append] at hw
      rcases hw with hw | hw
      · exact ⟨(hkeyline w hw).1, Or.inr (hkeyline w hw).2.1⟩
      · exact ⟨(hdataline w hw).1, Or.inl (hdataline w hw).2.1⟩
  refine ⟨hcl, ?_⟩
  have hlines := read_lines W hWnl hWne
  rw [hWstrip] at hlines
  -- run the reader
  unfold categoryDeserialize
  simp only [bind, Except.bind]
  rw [show ((splitLines (unlines W)).filter (fun l => !isEmptyLine l)).map strip
        = sLoop :: keyToks ++ R.map lineOf from hlines]
  have hloop : isLoopStart sLoop = true := by decide
  simp only [List.cons_append, hloop, if_true]
  obtain ⟨kv0, rest, hcols'⟩ := List.exists_cons_of_ne_nil hcols
  have hkt : keyToks = keyTok name kv0.1 :: (rest.map (·.1)).map (keyTok name) := by
    simp [keyToks, keys, hcols']
  rw [hkt]
  simp only [List.cons_append, parseCategoryName_keyTok name kv0.1 hname]
  rw [← List.cons_append, ← hkt]
  -- toSingle is the identity
  have hsingle : toSingle none (keyToks ++ R.map lineOf) = keyToks ++ R.map lineOf := by
    apply toSingle_id
    intro l hl
    simp only [keyToks, List.mem_append, List.mem_map] at hl
    rcases hl with ⟨key, _, rfl⟩ | ⟨row, hrow, rfl⟩
    · simp [keyTok]
    · exact (hfacts row hrow).2.2.2.1
  rw [hsingle]
  -- deserializeLooped
  have hdl : deserializeLooped (keyToks ++ R.map lineOf) = .ok cols := by
    unfold deserializeLooped
    have htw : (keyToks ++ R.map lineOf).takeWhile (fun l => l.head? == some '_') = keyToks := by
      apply takeWhile_append_all
      · intro a ha
        simp only [keyToks, List.mem_map] at ha
        obtain ⟨key, _, rfl⟩ := ha
        simp [keyTok]
      · intro b hb
        simp only [List.mem_map] at hb
        obtain ⟨row, hrow, rfl⟩ := hb
        have := (hfacts row hrow).2.2.2.2.2.1
        simpa using this
    have hkm : mapM' secondDotField keyToks = .ok keys := by
      simp only [keyToks]
      apply mapM'_map_ok
      intro key hkey
      exact secondDotField_keyTok name key hname (hkeyOk key hkey)
    have hvm : mapM' splitOneLine (R.map lineOf) = .ok R := by
      apply mapM'_map_ok
      intro row hrow
      exact (hfacts row hrow).2.2.2.2.2.2
    have hRlen : R.length = r := transpose_length r M hMrect.2
    have hRrows : ∀ row ∈ R, row.length = cols.length := by
      intro row hrow
      have := (transpose_row_mem r M row hrow).1
      simpa [M] using this
    have hchunk := chunk_flatten cols.length hk0 R hRrows R.flatten.length (Nat.le_refl _)
    have hkl : keys.length = cols.length := by simp [keys]
    have hkne : (keys.length == 0) = false := by simp [hkl]; omega
    have hRne : R.isEmpty = false := by
      cases hR : R with
      | nil => rw [hR] at hRlen; simp at hRlen; omega
      | cons _ _ => rfl
    have htt : transpose cols.length R = M := transpose_transpose cols.length r M hMrect
    have hkn : decide keys.Nodup = true := by simpa [keys] using hnodup
    simp only [htw, List.drop_left, hkm, hvm, bind, Except.bind, hkl, hchunk, hRne, htt,
      Bool.false_eq_true, if_false, hkn, if_true]
    rw [show (cols.length == 0) = false from by simp; omega]
    simp only [Bool.false_eq_true, if_false]
    congr 1
    have hz : keys.zip M = cols := zip_map_fst_snd cols
    rw [hz]
    exact foldl_dictSet_nodup cols hnodup
  simp only [hdl]

end BiotiteModel.C06

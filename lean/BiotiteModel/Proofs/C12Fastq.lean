import BiotiteModel.Model.C12
/-!
# C12 — FASTQ: offset arithmetic, the length-driven state machine, round trip, edit consistency
-/
namespace BiotiteModel.C12

/-- a score is storable with this offset: printable non-blank ASCII (exactly what the writer accepts) -/
def ScoreOk (off q : Int) : Prop := 33 ≤ q + off ∧ q + off ≤ 126
/-- `cs` is some way of cutting `s` into non-empty lines (any wrapping) -/
def Chunking (s : Str) (cs : List Str) : Prop := cs.flatten = s ∧ ∀ c ∈ cs, c ≠ []
/-- non-empty sequence without whitespace and without '+' (a '+' starts the separator line) -/
def QSeqOk (s : Str) : Prop := s ≠ [] ∧ ∀ c ∈ s, isSpace c = false ∧ c ≠ '+'
/-- identifier already normalised: one line, no whitespace at either end -/
def QIdOk (h : Str) : Prop := (∀ c ∈ h, isLineBreak c = false) ∧ (∀ c, h.head? = some c → isSpace c = false) ∧ (∀ c, h.getLast? = some c → isSpace c = false)
/-- the lines of one entry under an arbitrary wrapping of sequence and score string -/
def qBlock (id : Str) (sc qc : List Str) : List Str := ('@' :: id) :: sc ++ ['+'] :: qc

/-! ## 1. Offset arithmetic -/

theorem qChar_toNat_ofNat (n : Nat) (h : n < 0xd800) : (Char.ofNat n).toNat = n := by
  have : n.isValidChar := Or.inl h
  simp [Char.ofNat, this, Char.toNat, Char.ofNatAux]

theorem qEncode_ok (off : Int) (qs : List Int) (h : ∀ q ∈ qs, ScoreOk off q) :
    encodeScores off qs = .ok (qs.map (fun q => Char.ofNat (q + off).toNat)) := by
  induction qs with
  | nil => rfl
  | cons q qs ih =>
    have hq := h q (by simp)
    have ih' := ih (fun x hx => h x (by simp [hx]))
    unfold encodeScores at ih' ⊢
    unfold ScoreOk at hq
    have hnn : ¬ (q + off < 33 ∨ 126 < q + off) := by omega
    simp [List.mapM_cons, ih', hnn, bind, Except.bind, pure, Except.pure]

/-- a score outside the ASCII range is rejected, never wrapped around -/
theorem qEncode_rejects (off : Int) (qs : List Int) (h : ∃ q ∈ qs, q + off < 33 ∨ 126 < q + off) :
    encodeScores off qs = .error .valueError := by
  induction qs with
  | nil => obtain ⟨q, hq, _⟩ := h; cases hq
  | cons a t ih =>
    unfold encodeScores at ih ⊢
    by_cases ha : a + off < 33 ∨ 126 < a + off
    · simp [List.mapM_cons, ha, bind, Except.bind]
    · have ht : ∃ q ∈ t, q + off < 33 ∨ 126 < q + off := by
        obtain ⟨q, hq, hb⟩ := h
        simp only [List.mem_cons] at hq
        rcases hq with rfl | hq
        · exact absurd hb ha
        · exact ⟨q, hq, hb⟩
      simp [List.mapM_cons, ha, ih ht, bind, Except.bind]

theorem score_char_not_space (c : Char) (h : 33 ≤ c.toNat ∧ c.toNat ≤ 126) : isSpace c = false := by
  unfold isSpace
  simp
  omega

theorem fastq_offset (off : Int) (qs : List Int) (h : ∀ q ∈ qs, ScoreOk off q) :
    ∃ s, encodeScores off qs = .ok s ∧ decodeScores off s = .ok qs ∧ s.length = qs.length ∧
         ∀ c ∈ s, 33 ≤ c.toNat ∧ c.toNat ≤ 126 := by
  refine ⟨_, qEncode_ok off qs h, ?_, by simp, ?_⟩
  · unfold decodeScores
    have h1 : (qs.map (fun q => Char.ofNat (q + off).toNat)).any (fun c => c.toNat ≥ 128) = false := by
      simp only [List.any_eq_false, List.mem_map]
      rintro c ⟨q, hq, rfl⟩
      have := h q hq
      unfold ScoreOk at this
      rw [qChar_toNat_ofNat _ (by omega)]
      simp; omega
    rw [h1]
    simp only [if_false, Bool.false_eq_true]
    congr 1
    rw [List.map_map]
    conv => rhs; rw [← List.map_id qs]
    apply List.map_congr_left
    intro q hq
    have := h q hq
    unfold ScoreOk at this
    simp only [Function.comp, id]
    rw [qChar_toNat_ofNat _ (by omega)]
    omega
  · intro c hc
    simp only [List.mem_map] at hc
    obtain ⟨q, hq, rfl⟩ := hc
    have := h q hq
    unfold ScoreOk at this
    rw [qChar_toNat_ofNat _ (by omega)]
    omega

example : encodeScores 33 [0, 40, 93] = .ok "!I~".toList ∧ decodeScores 33 "!I~".toList = .ok [0, 40, 93] := by
  decide

/-! ## 2. State machine: one block, any wrapping, arbitrary score characters -/

theorem qFind_inSeq (id : Str) (ss : Nat) (sc rest : List Str) (sl i : Nat)
    (h : ∀ c ∈ sc, c ≠ [] ∧ c.head? ≠ some '+') :
    qFind (.inSeq id ss sl) i (sc ++ rest) =
      qFind (.inSeq id ss (sl + sc.flatten.length)) (i + sc.length) rest := by
  induction sc generalizing sl i with
  | nil => simp
  | cons c sc ih =>
    have hc := h c (by simp)
    have ih' := ih (sl + c.length) (i + 1) (fun x hx => h x (by simp [hx]))
    cases c with
    | nil => exact absurd rfl hc.1
    | cons a cs =>
      have ha : a ≠ '+' := by simpa using hc.2
      simp only [List.cons_append, qFind, ha, if_false]
      rw [ih']
      have e1 : sl + (cs.length + 1) + sc.flatten.length = sl + (a :: cs ++ sc.flatten).length := by
        simp only [List.cons_append, List.length_append, List.length_cons]; omega
      have e2 : i + 1 + sc.length = i + (sc.length + 1) := by omega
      simp only [List.flatten_cons, List.length_cons]
      rw [e1, e2]

theorem qFlatten_pos (qc : List Str) (hne : qc ≠ []) (hc : ∀ c ∈ qc, c ≠ []) : 0 < qc.flatten.length := by
  cases qc with
  | nil => exact absurd rfl hne
  | cons c qc =>
    have := hc c (by simp)
    cases c with
    | nil => exact absurd rfl this
    | cons a cs => simp

theorem qFind_inScores (id : Str) (ss se sl : Nat) (qc rest : List Str) (ql j : Nat)
    (hne : qc ≠ []) (hc : ∀ c ∈ qc, c ≠ []) (h : ql + qc.flatten.length = sl) :
    qFind (.inScores id ss se sl ql) j (qc ++ rest) =
      match qFind .idle (j + qc.length) rest with
      | .ok es => .ok ((id, ss, se, se + 1, j + qc.length) :: es)
      | .error e => .error e := by
  induction qc generalizing ql j with
  | nil => exact absurd rfl hne
  | cons c qc ih =>
    by_cases hq : qc = []
    · subst hq
      have : ql + c.length = sl := by simpa using h
      simp only [List.cons_append, List.nil_append, qFind, this, Nat.lt_irrefl, if_false, if_true,
        List.length_cons, List.length_nil, Nat.zero_add]
      cases qFind .idle (j + 1) rest <;> rfl
    · have hpos := qFlatten_pos qc hq (fun x hx => hc x (by simp [hx]))
      have hlt : ql + c.length < sl := by
        simp only [List.flatten_cons, List.length_append] at h; omega
      have ih' := ih (ql + c.length) (j + 1) hq (fun x hx => hc x (by simp [hx]))
        (by simp only [List.flatten_cons, List.length_append] at h; omega)
      simp only [List.cons_append, qFind, hlt, if_true]
      rw [ih']
      have e : j + 1 + qc.length = j + (c :: qc).length := by simp; omega
      rw [e]

theorem qFind_block (id seq sq : Str) (sc qc rest : List Str) (i : Nat)
    (hseq : QSeqOk seq) (hsc : Chunking seq sc) (hqc : Chunking sq qc) (hlen : sq.length = seq.length) :
    qFind .idle i (qBlock id sc qc ++ rest) =
      match qFind .idle (i + qc.length + sc.length + 2) rest with
      | .ok es => .ok ((id, i + 1, i + 1 + sc.length, i + 2 + sc.length, i + 2 + sc.length + qc.length) :: es)
      | .error e => .error e := by
  obtain ⟨hsne, hsch⟩ := hseq
  obtain ⟨hscf, hscne⟩ := hsc
  obtain ⟨hqcf, hqcne⟩ := hqc
  have hseqpos : 0 < seq.length := List.length_pos_iff.mpr hsne
  have hqne : qc ≠ [] := by
    intro h0; subst h0; simp at hqcf; subst hqcf; simp at hlen; omega
  have hsc' : ∀ c ∈ sc, c ≠ [] ∧ c.head? ≠ some '+' := by
    intro c hc
    refine ⟨hscne c hc, ?_⟩
    cases c with
    | nil => simp
    | cons a cs =>
      have : a ∈ seq := by
        rw [← hscf]; exact List.mem_flatten.mpr ⟨_, hc, by simp⟩
      simpa using (hsch a this).2
  have h1 := qFind_inSeq id (i + 1) sc (['+'] :: (qc ++ rest)) 0 (i + 1) hsc'
  have h2 := qFind_inScores id (i + 1) (i + 1 + sc.length) seq.length qc rest 0 (i + 1 + sc.length + 1)
    hqne hqcne (by rw [hqcf]; omega)
  simp only [qBlock, List.cons_append, List.append_assoc, qFind, if_true]
  rw [h1]
  simp only [qFind, if_true, hscf, Nat.zero_add]
  rw [h2]
  have e1 : i + 1 + sc.length + 1 + qc.length = i + qc.length + sc.length + 2 := by omega
  have e2 : i + 1 + sc.length + 1 = i + 2 + sc.length := by omega
  have e3 : i + qc.length + sc.length + 2 = i + 2 + sc.length + qc.length := by omega
  rw [e1, e2]
  conv => lhs; rw [e3]
  rw [e3]

example : fastqFind ["@r".toList, "ACGT".toList, "+".toList, "@+".toList, "+@".toList] =
    .ok [("r".toList, 1, 2, 3, 5)] := by decide

/-! ## Generic helper lemmas -/

theorem qWrapAux_chunking (w : Nat) (hw : 1 ≤ w) (f : Nat) (s : Str) (hf : s.length ≤ f) :
    (wrapAux w f s).flatten = s ∧ ∀ c ∈ wrapAux w f s, c ≠ [] := by
  induction f generalizing s with
  | zero =>
    have : s = [] := List.length_eq_zero_iff.mp (by omega)
    subst this; simp [wrapAux]
  | succ f ih =>
    cases s with
    | nil => simp [wrapAux]
    | cons a t =>
      have hl : ((a :: t).drop w).length ≤ f := by
        simp only [List.length_drop, List.length_cons] at hf ⊢; omega
      obtain ⟨h1, h2⟩ := ih ((a :: t).drop w) hl
      have hne : (a :: t).take w ≠ [] := by
        obtain ⟨w', rfl⟩ : ∃ w', w = w' + 1 := ⟨w - 1, by omega⟩
        simp
      simp only [wrapAux, List.isEmpty_cons, Bool.false_eq_true, if_false, List.flatten_cons, h1,
        List.take_append_drop, List.mem_cons, true_and]
      rintro c (rfl | hc)
      · exact hne
      · exact h2 c hc

theorem qWrap_chunking (w : Nat) (hw : 1 ≤ w) (s : Str) : Chunking s (wrap w s) :=
  qWrapAux_chunking w hw s.length s (Nat.le_refl _)

theorem qChunks_chunking (cpl : Option Nat) (hcpl : ∀ w, cpl = some w → 1 ≤ w) (s : Str) (hs : s ≠ []) :
    Chunking s (qChunks cpl s) := by
  cases cpl with
  | none => simp [qChunks, Chunking, hs]
  | some w => exact qWrap_chunking w (hcpl w rfl) s

theorem qLstrip_id (s : Str) (h1 : ∀ c, s.head? = some c → isSpace c = false) : lstrip s = s := by
  cases s with
  | nil => rfl
  | cons a t =>
    have := h1 a rfl
    simp [lstrip, this]

theorem qStrip_id (s : Str) (h1 : ∀ c, s.head? = some c → isSpace c = false)
    (h2 : ∀ c, s.getLast? = some c → isSpace c = false) : strip s = s := by
  unfold strip
  rw [qLstrip_id s h1]
  unfold rstrip
  have : lstrip s.reverse = s.reverse := qLstrip_id s.reverse (by rw [List.head?_reverse]; exact h2)
  unfold lstrip at this
  rw [this, List.reverse_reverse]

theorem qNormHeader_id (id : Str) (h : QIdOk id) : normHeader id = id := by
  obtain ⟨h0, h1, h2⟩ := h
  unfold normHeader
  have : id.filter (fun c => !isLineBreak c) = id := by
    rw [List.filter_eq_self]
    intro a ha
    simp [h0 a ha]
  rw [this]
  exact qStrip_id id h1 h2

/-- a line all of whose characters are non-blank is a fixed point of `strip` -/
theorem qStrip_id_of_all (s : Str) (h : ∀ c ∈ s, isSpace c = false) : strip s = s := by
  apply qStrip_id
  · intro c hc; exact h c (List.mem_of_mem_head? hc)
  · intro c hc; exact h c (List.mem_of_mem_getLast? hc)

theorem qOdInsert_fresh {ν : Type} (d : List (Str × ν)) (k : Str) (v : ν) (h : k ∉ d.map (·.1)) :
    odInsert d k v = d ++ [(k, v)] := by
  unfold odInsert
  have : d.any (fun p => p.1 == k) = false := by
    simp only [List.any_eq_false, beq_iff_eq]
    intro p hp e
    exact h (List.mem_map.mpr ⟨p, hp, e⟩)
  simp [this]

theorem qOdFold_nodup {ν : Type} (l acc : List (Str × ν)) (h : ((acc ++ l).map (·.1)).Nodup) :
    l.foldl (fun d p => odInsert d p.1 p.2) acc = acc ++ l := by
  induction l generalizing acc with
  | nil => simp
  | cons p l ih =>
    have hfresh : p.1 ∉ acc.map (·.1) := by
      simp only [List.map_append, List.map_cons, List.nodup_append, List.mem_cons] at h
      intro hm
      exact h.2.2 _ hm _ (Or.inl rfl) rfl
    simp only [List.foldl_cons]
    rw [qOdInsert_fresh acc p.1 p.2 hfresh]
    have : acc ++ [(p.1, p.2)] ++ l = acc ++ p :: l := by simp
    rw [ih (acc ++ [(p.1, p.2)]) (by rw [this]; exact h), this]

theorem qOdOfList_nodup {ν : Type} (l : List (Str × ν)) (h : (l.map (·.1)).Nodup) : odOfList l = l := by
  have := qOdFold_nodup l [] (by simpa using h)
  simpa [odOfList] using this

theorem qOdOfList_snoc {ν : Type} (l : List (Str × ν)) (x : Str × ν) :
    odOfList (l ++ [x]) = odInsert (odOfList l) x.1 x.2 := by
  simp [odOfList, List.foldl_append]

theorem qSliceL_mid {α : Type} (A B C : List α) (a b : Nat) (ha : a = A.length) (hb : b = a + B.length) :
    sliceL (A ++ B ++ C) a b = B := by
  subst ha; subst hb
  unfold sliceL
  rw [List.take_left' (by simp), List.drop_left' rfl]

theorem qLookup_mid {ν : Type} (A B : List (Str × ν)) (k : Str) (v : ν) (h : k ∉ A.map (·.1)) :
    (A ++ (k, v) :: B).lookup k = some v := by
  induction A with
  | nil => simp
  | cons p A ih =>
    have hne : ¬ (k = p.1) := fun e => h (by simp [e])
    have : (k == p.1) = false := by simpa using hne
    obtain ⟨p1, p2⟩ := p
    simp only [List.cons_append, List.lookup, this]
    exact ih (fun hm => h (by simp [hm]))

/-! ## 3. Whole files -/

/-- concatenation of entry blocks `(identifier, sequence chunks, score chunks)` -/
def qBlocks : List (Str × List Str × List Str) → List Str
  | [] => []
  | b :: bs => qBlock b.1 b.2.1 b.2.2 ++ qBlocks bs

/-- the raw entries (`identifier, seq_start, seq_stop, score_start, score_stop`) of `qBlocks bs`
when the first block starts at line `i` -/
def qRaws : Nat → List (Str × List Str × List Str) → List QRaw
  | _, [] => []
  | i, b :: bs =>
    (b.1, i + 1, i + 1 + b.2.1.length, i + 2 + b.2.1.length, i + 2 + b.2.1.length + b.2.2.length) ::
      qRaws (i + 2 + b.2.1.length + b.2.2.length) bs

/-- a block is some wrapping of a good sequence and of an arbitrary score string of equal length -/
def QBlockOk (b : Str × List Str × List Str) : Prop :=
  ∃ seq sq, QSeqOk seq ∧ Chunking seq b.2.1 ∧ Chunking sq b.2.2 ∧ sq.length = seq.length

theorem qBlock_length (id : Str) (sc qc : List Str) : (qBlock id sc qc).length = sc.length + qc.length + 2 := by
  simp [qBlock]; omega

theorem qBlocks_append (bs bs' : List (Str × List Str × List Str)) :
    qBlocks (bs ++ bs') = qBlocks bs ++ qBlocks bs' := by
  induction bs with
  | nil => rfl
  | cons b bs ih => simp [qBlocks, ih]

theorem qRaws_append (bs bs' : List (Str × List Str × List Str)) (i : Nat) :
    qRaws i (bs ++ bs') = qRaws i bs ++ qRaws (i + (qBlocks bs).length) bs' := by
  induction bs generalizing i with
  | nil => simp [qRaws, qBlocks]
  | cons b bs ih =>
    simp only [List.cons_append, qRaws, qBlocks, ih, List.length_append, qBlock_length]
    have : i + 2 + b.2.1.length + b.2.2.length + (qBlocks bs).length =
        i + (b.2.1.length + b.2.2.length + 2 + (qBlocks bs).length) := by omega
    rw [this]

theorem qRaws_keys (bs : List (Str × List Str × List Str)) (i : Nat) :
    (qRaws i bs).map (·.1) = bs.map (·.1) := by
  induction bs generalizing i with
  | nil => rfl
  | cons b bs ih => simp [qRaws, ih]

/-- the state machine on a whole file: every block is found, with the running line indices -/
theorem qFind_blocks (bs : List (Str × List Str × List Str)) (h : ∀ b ∈ bs, QBlockOk b) (i : Nat) :
    qFind .idle i (qBlocks bs) = .ok (qRaws i bs) := by
  induction bs generalizing i with
  | nil => simp [qBlocks, qRaws, qFind]
  | cons b bs ih =>
    obtain ⟨seq, sq, h1, h2, h3, h4⟩ := h b (by simp)
    have e : i + b.2.2.length + b.2.1.length + 2 = i + 2 + b.2.1.length + b.2.2.length := by omega
    simp only [qBlocks, qRaws]
    rw [qFind_block b.1 seq sq b.2.1 b.2.2 (qBlocks bs) i h1 h2 h3 h4, e,
      ih (fun x hx => h x (by simp [hx]))]

theorem fastqFind_blocks (bs : List (Str × List Str × List Str)) (h : ∀ b ∈ bs, QBlockOk b)
    (hnd : (bs.map (·.1)).Nodup) : fastqFind (qBlocks bs) = .ok (qRaws 0 bs) := by
  unfold fastqFind
  rw [qFind_blocks bs h 0]
  simp only
  rw [qOdOfList_nodup]
  rw [qRaws_keys]; exact hnd

/-- appending lines after a successfully parsed prefix (in any mode) -/
theorem qFind_append (m : QMode) (i : Nat) (ls more : List Str) (es : List QRaw)
    (h : qFind m i ls = .ok es) :
    qFind m i (ls ++ more) =
      match qFind .idle (i + ls.length) more with
      | .ok es' => .ok (es ++ es')
      | .error e => .error e := by
  induction ls generalizing m i es with
  | nil =>
    cases m with
    | idle =>
      simp only [qFind, Except.ok.injEq] at h
      subst h
      simp only [List.nil_append, List.length_nil, Nat.add_zero]
      cases qFind .idle i more <;> rfl
    | inSeq => simp [qFind] at h
    | inScores => simp [qFind] at h
  | cons line rest ih =>
    have el : i + (line :: rest).length = i + 1 + rest.length := by simp; omega
    rw [el]
    cases m with
    | idle =>
      cases line with
      | nil => simp [qFind] at h
      | cons c cs =>
        by_cases hc : c = '@'
        · simp only [qFind, hc, if_true] at h
          simp only [List.cons_append, qFind, hc, if_true]
          exact ih _ _ _ h
        · simp [qFind, hc] at h
    | inSeq id ss sl =>
      cases line with
      | nil => simp [qFind] at h
      | cons c cs =>
        by_cases hc : c = '+'
        · simp only [qFind, hc, if_true] at h
          simp only [List.cons_append, qFind, hc, if_true]
          exact ih _ _ _ h
        · simp only [qFind, hc, if_false] at h
          simp only [List.cons_append, qFind, hc, if_false]
          exact ih _ _ _ h
    | inScores id ss se sl ql =>
      simp only [qFind] at h
      simp only [List.cons_append, qFind]
      split
      · rename_i hlt
        simp only [hlt, if_true] at h
        exact ih _ _ _ h
      · rename_i hlt
        simp only [hlt, if_false] at h
        split
        · rename_i heq
          simp only [heq, if_true] at h
          cases hr : qFind .idle (i + 1) rest with
          | error e => rw [hr] at h; simp at h
          | ok es0 =>
            rw [hr] at h
            simp only [Except.ok.injEq] at h
            subst h
            rw [ih _ _ _ hr]
            cases qFind .idle (i + 1 + rest.length) more <;> rfl
        · rename_i hne
          simp [hne] at h

/-! ## 4. Edit consistency -/

theorem fastq_del_inv (f f' : Fastq) (id : Str) (hd : fastqDel f id = .ok f') :
    fastqFind f'.lines = .ok f'.entries := by
  unfold fastqDel at hd
  split at hd
  · simp at hd
  · rename_i a b c d hl
    simp only at hd
    split at hd
    · rename_i es hes
      simp only [Except.ok.injEq] at hd
      subst hd
      exact hes
    · simp at hd

theorem fastqDel_fields (f f' : Fastq) (id : Str) (hd : fastqDel f id = .ok f') :
    f'.off = f.off ∧ f'.cpl = f.cpl := by
  unfold fastqDel at hd
  split at hd
  · simp at hd
  · simp only at hd
    split at hd
    · simp only [Except.ok.injEq] at hd
      subst hd
      exact ⟨rfl, rfl⟩
    · simp at hd

theorem qEncode_length (off : Int) (qs : List Int) (s : Str) (h : encodeScores off qs = .ok s) :
    s.length = qs.length := by
  induction qs generalizing s with
  | nil => simp [encodeScores, pure, Except.pure] at h; subst h; rfl
  | cons q qs ih =>
    unfold encodeScores at h ih
    simp only [List.mapM_cons, bind, Except.bind, pure, Except.pure] at h
    split at h
    · simp at h
    · rename_i c hc
      split at h
      · simp at h
      · rename_i t ht
        simp only [Except.ok.injEq] at h
        subst h
        simp [ih t ht]

/-- one `__setitem__` step after the optional deletion: appending a fresh block keeps
`entries` equal to what `_find_entries` computes from `lines` -/
theorem fastqFind_snoc_block (lines : List Str) (entries : List QRaw) (id seq sq : Str) (sc qc : List Str)
    (hinv : fastqFind lines = .ok entries) (hfresh : entries.lookup id = none)
    (hseq : QSeqOk seq) (hsc : Chunking seq sc) (hqc : Chunking sq qc) (hlen : sq.length = seq.length) :
    fastqFind (lines ++ qBlock id sc qc) =
      .ok (entries ++ [(id, lines.length + 1, lines.length + 1 + sc.length, lines.length + 2 + sc.length,
                        lines.length + (qBlock id sc qc).length)]) := by
  unfold fastqFind at hinv ⊢
  cases hr : qFind .idle 0 lines with
  | error e => rw [hr] at hinv; simp at hinv
  | ok raw =>
    rw [hr] at hinv
    simp only [Except.ok.injEq] at hinv
    rw [qFind_append .idle 0 lines _ raw hr]
    have hb := qFind_block id seq sq sc qc [] (0 + lines.length) hseq hsc hqc hlen
    simp only [List.append_nil, qFind] at hb
    rw [hb]
    simp only
    rw [qOdOfList_snoc, hinv]
    have hk : id ∉ entries.map (·.1) := by
      rw [List.lookup_eq_none_iff] at hfresh
      intro hm
      obtain ⟨p, hp, rfl⟩ := List.mem_map.mp hm
      have := hfresh p hp
      simp at this
    rw [qOdInsert_fresh entries _ _ hk, qBlock_length]
    simp only [Nat.zero_add]
    have : lines.length + 2 + sc.length + qc.length = lines.length + (sc.length + qc.length + 2) := by omega
    rw [this]

/-- `__setitem__` keeps `entries` equal to what `_find_entries` computes from `lines`
(unconditionally: also for files that contain an identifier twice). -/
theorem fastq_set_inv (f f' : Fastq) (id seq : Str) (qs : List Int)
    (hinv : fastqFind f.lines = .ok f.entries)
    (hseq : QSeqOk seq)
    (hset : fastqSet f id seq qs = .ok f') : fastqFind f'.lines = .ok f'.entries := by
  unfold fastqSet at hset
  have hne0 : seq.isEmpty = false := by
    cases seq with
    | nil => exact absurd rfl hseq.1
    | cons _ _ => rfl
  simp only [hne0, Bool.false_eq_true, if_false] at hset
  split at hset
  · simp at hset
  · rename_i hlen
    split at hset
    · simp at hset
    · rename_i hc0
      split at hset
      · simp at hset
      · rename_i sc hsc
        split at hset
        · simp at hset
        · rename_i f1 hdel
          -- the state after the optional first deletion is consistent
          have h1 : fastqFind f1.lines = .ok f1.entries := by
            split at hdel
            · exact fastq_del_inv f f1 _ hdel
            · simp only [Except.ok.injEq] at hdel
              subst hdel
              exact hinv
          split at hset
          · -- the identifier is still a key (duplicated in the file): delete again and re-index
            split at hset
            · simp at hset
            · rename_i f2 hd2
              split at hset
              · rename_i es hes
                simp only [Except.ok.injEq] at hset
                subst hset
                exact hes
              · simp at hset
          · -- fast path: the key is fresh, one block and one entry tuple are appended
            rename_i hnone
            have hf1 : f1.entries.lookup (normHeader id) = none := by
              cases hl : f1.entries.lookup (normHeader id) with
              | none => rfl
              | some v => rw [hl] at hnone; simp at hnone
            simp only [Except.ok.injEq] at hset
            subst hset
            simp only
            have hcpl : ∀ w, f.cpl = some w → 1 ≤ w := by
              intro w hw
              cases w with
              | zero => exact absurd hw hc0
              | succ w => omega
            have hsl : sc.length = seq.length := by
              rw [qEncode_length _ _ _ hsc]; simpa using (Decidable.of_not_not hlen).symm
            have hscne : sc ≠ [] := by
              intro e; subst e
              have := List.length_pos_iff.mpr hseq.1
              simp at hsl; omega
            exact fastqFind_snoc_block f1.lines f1.entries (normHeader id) seq sc _ _ h1 hf1 hseq
              (qChunks_chunking f.cpl hcpl seq hseq.1) (qChunks_chunking f.cpl hcpl sc hscne) hsl

/-! ## 3b. Write / read round trip -/

/-- the score string of a list of admissible scores -/
def qEnc (off : Int) (qs : List Int) : Str := qs.map (fun q => Char.ofNat (q + off).toNat)

/-- the block `__setitem__` prints for one entry -/
def qBlockOf (off : Int) (cpl : Option Nat) (e : Str × Str × List Int) : Str × List Str × List Str :=
  (e.1, qChunks cpl e.2.1, qChunks cpl (qEnc off e.2.2))

theorem qEnc_spec (off : Int) (qs : List Int) (h : ∀ q ∈ qs, ScoreOk off q) :
    encodeScores off qs = .ok (qEnc off qs) ∧ decodeScores off (qEnc off qs) = .ok qs ∧
      (qEnc off qs).length = qs.length ∧ ∀ c ∈ qEnc off qs, isSpace c = false := by
  obtain ⟨s, h1, h2, h3, h4⟩ := fastq_offset off qs h
  have : s = qEnc off qs := by
    rw [qEncode_ok off qs h] at h1
    simp only [Except.ok.injEq] at h1
    exact h1.symm
  subst this
  exact ⟨h1, h2, h3, fun c hc => score_char_not_space c (h4 c hc)⟩

theorem qBlockOf_keys (off : Int) (cpl : Option Nat) (es : List (Str × Str × List Int)) :
    (es.map (qBlockOf off cpl)).map (·.1) = es.map (·.1) := by
  simp [List.map_map, Function.comp_def, qBlockOf]

theorem fastqSet_fresh (L : List Str) (E : List QRaw) (off : Int) (cpl : Option Nat) (e : Str × Str × List Int)
    (hcpl : ∀ w, cpl = some w → 1 ≤ w)
    (hid : QIdOk e.1) (hlen : e.2.1.length = e.2.2.length) (hq : ∀ q ∈ e.2.2, ScoreOk off q)
    (hfresh : E.lookup e.1 = none) (hne : e.2.1 ≠ []) :
    fastqSet ⟨L, E, off, cpl⟩ e.1 e.2.1 e.2.2 =
      .ok ⟨L ++ qBlock e.1 (qChunks cpl e.2.1) (qChunks cpl (qEnc off e.2.2)),
           E ++ [(e.1, L.length + 1, L.length + 1 + (qChunks cpl e.2.1).length,
                  L.length + 2 + (qChunks cpl e.2.1).length,
                  L.length + 2 + (qChunks cpl e.2.1).length + (qChunks cpl (qEnc off e.2.2)).length)],
           off, cpl⟩ := by
  have hc0 : ¬ (cpl = some 0) := by
    intro h0
    have := hcpl 0 h0
    omega
  have henc := (qEnc_spec off e.2.2 hq).1
  have hne0 : e.2.1.isEmpty = false := by
    cases h : e.2.1 with
    | nil => exact absurd h hne
    | cons _ _ => rfl
  unfold fastqSet
  simp only [hne0, hlen, ne_eq, not_true_eq_false, if_false, qNormHeader_id e.1 hid, hfresh, Option.isSome_none,
    Bool.false_eq_true, hc0, henc, fastqNewLines]
  have : L.length + (qBlock e.1 (qChunks cpl e.2.1) (qChunks cpl (qEnc off e.2.2))).length =
      L.length + 2 + (qChunks cpl e.2.1).length + (qChunks cpl (qEnc off e.2.2)).length := by
    rw [qBlock_length]; omega
  simp only [qBlock] at this ⊢
  rw [this]

theorem qLookup_none_of_not_mem (E : List QRaw) (k : Str) (h : k ∉ E.map (·.1)) : E.lookup k = none := by
  rw [List.lookup_eq_none_iff]
  intro p hp
  have : k ≠ p.1 := fun e => h (List.mem_map.mpr ⟨p, hp, e.symm⟩)
  simpa using this

theorem qFold_set (off : Int) (cpl : Option Nat) (hcpl : ∀ w, cpl = some w → 1 ≤ w) (suf pre : List (Str × Str × List Int))
    (hid : ∀ e ∈ suf, QIdOk e.1) (hlen : ∀ e ∈ suf, e.2.1.length = e.2.2.length)
    (hq : ∀ e ∈ suf, ∀ q ∈ e.2.2, ScoreOk off q) (hnd : ((pre ++ suf).map (·.1)).Nodup)
    (hnes : ∀ e ∈ suf, e.2.1 ≠ []) :
    suf.foldlM (fun f e => fastqSet f e.1 e.2.1 e.2.2)
        (⟨qBlocks (pre.map (qBlockOf off cpl)), qRaws 0 (pre.map (qBlockOf off cpl)), off, cpl⟩ : Fastq) =
      .ok ⟨qBlocks ((pre ++ suf).map (qBlockOf off cpl)), qRaws 0 ((pre ++ suf).map (qBlockOf off cpl)), off, cpl⟩ := by
  induction suf generalizing pre with
  | nil => simp [pure, Except.pure]
  | cons e suf ih =>
    have hfresh : (qRaws 0 (pre.map (qBlockOf off cpl))).lookup e.1 = none := by
      apply qLookup_none_of_not_mem
      rw [qRaws_keys, qBlockOf_keys]
      simp only [List.map_append, List.map_cons, List.nodup_append, List.mem_cons] at hnd
      intro hm
      exact hnd.2.2 _ hm _ (Or.inl rfl) rfl
    have e1 : pre ++ e :: suf = (pre ++ [e]) ++ suf := by simp
    rw [List.foldlM_cons, fastqSet_fresh _ _ off cpl e hcpl (hid e (by simp)) (hlen e (by simp))
      (hq e (by simp)) hfresh (hnes e (by simp))]
    simp only [bind, Except.bind]
    have ih' := ih (pre ++ [e]) (fun x hx => hid x (by simp [hx])) (fun x hx => hlen x (by simp [hx]))
      (fun x hx => hq x (by simp [hx])) (by rw [← e1]; exact hnd) (fun x hx => hnes x (by simp [hx]))
    rw [e1, ← ih']
    congr 2
    · simp [List.map_append, qBlocks_append, qBlocks, qBlockOf]
    · simp [List.map_append, qRaws_append, qRaws, qBlockOf]

theorem qBlock_lines_ok (id seq sq : Str) (sc qc : List Str) (hid : QIdOk id)
    (hseq : ∀ c ∈ seq, isSpace c = false) (hsq : ∀ c ∈ sq, isSpace c = false)
    (hsc : Chunking seq sc) (hqc : Chunking sq qc) :
    ∀ l ∈ qBlock id sc qc, strip l = l ∧ l ≠ [] := by
  have hch : ∀ (s : Str) (cs : List Str), (∀ c ∈ s, isSpace c = false) → Chunking s cs →
      ∀ l ∈ cs, strip l = l ∧ l ≠ [] := by
    intro s cs hs hcs l hl
    refine ⟨qStrip_id_of_all l ?_, hcs.2 l hl⟩
    intro c hc
    apply hs
    rw [← hcs.1]
    exact List.mem_flatten.mpr ⟨l, hl, hc⟩
  intro l hl
  simp only [qBlock, List.mem_cons, List.mem_append] at hl
  rcases hl with (rfl | hl) | rfl | hl
  · refine ⟨?_, by simp⟩
    apply qStrip_id
    · intro c hc
      simp only [List.head?_cons, Option.some.injEq] at hc
      subst hc; decide
    · intro c hc
      cases id with
      | nil =>
        simp only [List.getLast?_singleton, Option.some.injEq] at hc
        subst hc; decide
      | cons b t =>
        rw [List.getLast?_cons_cons] at hc
        exact hid.2.2 c hc
  · exact hch seq sc hseq hsc l hl
  · exact ⟨by decide, by simp⟩
  · exact hch sq qc hsq hqc l hl

theorem qBlocks_lines_ok (bs : List (Str × List Str × List Str))
    (h : ∀ b ∈ bs, ∀ l ∈ qBlock b.1 b.2.1 b.2.2, strip l = l ∧ l ≠ []) :
    ∀ l ∈ qBlocks bs, strip l = l ∧ l ≠ [] := by
  induction bs with
  | nil => simp [qBlocks]
  | cons b bs ih =>
    intro l hl
    simp only [qBlocks, List.mem_append] at hl
    rcases hl with hl | hl
    · exact h b (by simp) l hl
    · exact ih (fun x hx => h x (by simp [hx])) l hl

theorem fastqRead_clean (L : List Str) (hL : L ≠ []) (h : ∀ l ∈ L, strip l = l ∧ l ≠ [])
    (E : List QRaw) (hE : fastqFind L = .ok E) (off : Int) (cpl : Option Nat) :
    fastqRead (textRoundTrip L) off cpl = .ok ⟨L, E, off, cpl⟩ := by
  have h0 : textRoundTrip L = L := by
    cases L with
    | nil => exact absurd rfl hL
    | cons a t => rfl
  have h1 : L.map strip = L := by
    conv => rhs; rw [← List.map_id L]
    exact List.map_congr_left (fun l hl => (h l hl).1)
  have h2 : L.filter (fun l => !l.isEmpty) = L := by
    rw [List.filter_eq_self]
    intro l hl
    have := (h l hl).2
    cases l with
    | nil => exact absurd rfl this
    | cons a t => rfl
  have h3 : L.isEmpty = false := by
    cases L with
    | nil => exact absurd rfl hL
    | cons a t => rfl
  unfold fastqRead
  simp only [h0, h1, h2, h3, hE, Bool.false_eq_true, if_false]

theorem fastqGet_block (P S : List Str) (A B : List QRaw) (id seq sq : Str) (qs : List Int) (sc qc : List Str)
    (off : Int) (cpl : Option Nat) (hA : id ∉ A.map (·.1)) (hsc : sc.flatten = seq) (hqc : qc.flatten = sq)
    (hdec : decodeScores off sq = .ok qs) :
    fastqGet ⟨P ++ qBlock id sc qc ++ S,
              A ++ (id, P.length + 1, P.length + 1 + sc.length, P.length + 2 + sc.length,
                    P.length + 2 + sc.length + qc.length) :: B, off, cpl⟩ id = .ok (seq, qs) := by
  have s1 : sliceL (P ++ qBlock id sc qc ++ S) (P.length + 1) (P.length + 1 + sc.length) = sc := by
    have : P ++ qBlock id sc qc ++ S = (P ++ [('@' :: id)]) ++ sc ++ (['+'] :: qc ++ S) := by
      simp [qBlock]
    rw [this]
    exact qSliceL_mid _ _ _ _ _ (by simp) rfl
  have s2 : sliceL (P ++ qBlock id sc qc ++ S) (P.length + 2 + sc.length)
      (P.length + 2 + sc.length + qc.length) = qc := by
    have : P ++ qBlock id sc qc ++ S = (P ++ [('@' :: id)] ++ sc ++ [['+']]) ++ qc ++ S := by
      simp [qBlock]
    rw [this]
    exact qSliceL_mid _ _ _ _ _ (by simp; omega) rfl
  unfold fastqGet
  simp only [qLookup_mid A B id _ hA, s1, s2, hsc, hqc, hdec]

theorem qItems_aux (off : Int) (cpl cpl' : Option Nat) (hcpl : ∀ w, cpl = some w → 1 ≤ w)
    (es : List (Str × Str × List Int))
    (hseq : ∀ e ∈ es, QSeqOk e.2.1) (hlen : ∀ e ∈ es, e.2.1.length = e.2.2.length)
    (hq : ∀ e ∈ es, ∀ q ∈ e.2.2, ScoreOk off q) (hnd : (es.map (·.1)).Nodup)
    (suf pre : List (Str × Str × List Int)) (hes : pre ++ suf = es) :
    (qRaws (qBlocks (pre.map (qBlockOf off cpl))).length (suf.map (qBlockOf off cpl))).mapM
      (fun r => (fastqGet ⟨qBlocks (es.map (qBlockOf off cpl)), qRaws 0 (es.map (qBlockOf off cpl)), off, cpl'⟩
        r.1).map (fun s => (r.1, s))) = .ok suf := by
  induction suf generalizing pre with
  | nil => simp [qRaws, pure, Except.pure]
  | cons e suf ih =>
    have e1 : pre ++ e :: suf = (pre ++ [e]) ++ suf := by simp
    have hmem : e ∈ es := by rw [← hes]; simp
    have ih' := ih (pre ++ [e]) (by rw [← e1]; exact hes)
    have hspec := qEnc_spec off e.2.2 (hq e hmem)
    have hs1 : Chunking e.2.1 (qChunks cpl e.2.1) := qChunks_chunking cpl hcpl _ (hseq e hmem).1
    have hne : qEnc off e.2.2 ≠ [] := by
      intro h0
      have h1 := hspec.2.2.1
      rw [h0] at h1
      have := List.length_pos_iff.mpr (hseq e hmem).1
      have := hlen e hmem
      simp at h1; omega
    have hs2 : Chunking (qEnc off e.2.2) (qChunks cpl (qEnc off e.2.2)) := qChunks_chunking cpl hcpl _ hne
    have hA : e.1 ∉ (qRaws 0 (pre.map (qBlockOf off cpl))).map (·.1) := by
      rw [qRaws_keys, qBlockOf_keys]
      rw [← hes] at hnd
      simp only [List.map_append, List.map_cons, List.nodup_append, List.mem_cons] at hnd
      intro hm
      exact hnd.2.2 _ hm _ (Or.inl rfl) rfl
    have hL : qBlocks (es.map (qBlockOf off cpl)) =
        qBlocks (pre.map (qBlockOf off cpl)) ++ qBlock e.1 (qChunks cpl e.2.1) (qChunks cpl (qEnc off e.2.2)) ++
          qBlocks (suf.map (qBlockOf off cpl)) := by
      rw [← hes]
      simp [List.map_append, qBlocks_append, qBlocks, qBlockOf]
    have hE : qRaws 0 (es.map (qBlockOf off cpl)) =
        qRaws 0 (pre.map (qBlockOf off cpl)) ++
          (e.1, (qBlocks (pre.map (qBlockOf off cpl))).length + 1,
            (qBlocks (pre.map (qBlockOf off cpl))).length + 1 + (qChunks cpl e.2.1).length,
            (qBlocks (pre.map (qBlockOf off cpl))).length + 2 + (qChunks cpl e.2.1).length,
            (qBlocks (pre.map (qBlockOf off cpl))).length + 2 + (qChunks cpl e.2.1).length +
              (qChunks cpl (qEnc off e.2.2)).length) ::
          qRaws ((qBlocks (pre.map (qBlockOf off cpl))).length + 2 + (qChunks cpl e.2.1).length +
              (qChunks cpl (qEnc off e.2.2)).length) (suf.map (qBlockOf off cpl)) := by
      rw [← hes]
      simp [List.map_append, qRaws_append, qRaws, qBlockOf]
    have hget := fastqGet_block (qBlocks (pre.map (qBlockOf off cpl))) (qBlocks (suf.map (qBlockOf off cpl)))
      (qRaws 0 (pre.map (qBlockOf off cpl)))
      (qRaws ((qBlocks (pre.map (qBlockOf off cpl))).length + 2 + (qChunks cpl e.2.1).length +
              (qChunks cpl (qEnc off e.2.2)).length) (suf.map (qBlockOf off cpl)))
      e.1 e.2.1 (qEnc off e.2.2) e.2.2 _ _ off cpl' hA hs1.1 hs2.1 hspec.2.1
    rw [← hL, ← hE] at hget
    have hidx : (qBlocks ((pre ++ [e]).map (qBlockOf off cpl))).length =
        (qBlocks (pre.map (qBlockOf off cpl))).length + 2 + (qChunks cpl e.2.1).length +
              (qChunks cpl (qEnc off e.2.2)).length := by
      simp only [List.map_append, qBlocks_append, List.map_cons, List.map_nil, qBlocks, List.append_nil,
        List.length_append, qBlock_length, qBlockOf]
      omega
    rw [hidx] at ih'
    simp only [List.map_cons, qRaws, List.mapM_cons, bind, Except.bind]
    simp only [qBlockOf] at ih' ⊢
    rw [hget, ih']
    rfl

/-- Read-back theorem: writing the entries one by one with `__setitem__`, then `write`/`read`, then
`items()` gives the entries back (for any line widths on either side). -/
theorem fastq_roundtrip (off : Int) (cpl cpl' : Option Nat)
    (hcpl : ∀ w, cpl = some w → 1 ≤ w)
    (es : List (Str × Str × List Int)) (hne : es ≠ [])
    (hid : ∀ e ∈ es, QIdOk e.1) (hseq : ∀ e ∈ es, QSeqOk e.2.1) (hlen : ∀ e ∈ es, e.2.1.length = e.2.2.length)
    (hq : ∀ e ∈ es, ∀ q ∈ e.2.2, ScoreOk off q) (hnd : (es.map (·.1)).Nodup) :
    ∃ f0 f, es.foldlM (fun f e => fastqSet f e.1 e.2.1 e.2.2) (Fastq.empty off cpl) = .ok f0 ∧
            fastqRead (textRoundTrip f0.lines) off cpl' = .ok f ∧ fastqItems f = .ok es := by
  have hfold := qFold_set off cpl hcpl es [] hid hlen hq (by simpa using hnd) (fun e he => (hseq e he).1)
  simp only [List.map_nil, qBlocks, qRaws, List.nil_append] at hfold
  -- every printed block is well formed
  have hblk : ∀ e ∈ es, QBlockOk (qBlockOf off cpl e) ∧
      ∀ l ∈ qBlock e.1 (qChunks cpl e.2.1) (qChunks cpl (qEnc off e.2.2)), strip l = l ∧ l ≠ [] := by
    intro e hmem
    have hspec := qEnc_spec off e.2.2 (hq e hmem)
    have hs1 : Chunking e.2.1 (qChunks cpl e.2.1) := qChunks_chunking cpl hcpl _ (hseq e hmem).1
    have hne : qEnc off e.2.2 ≠ [] := by
      intro h0
      have h1 := hspec.2.2.1
      rw [h0] at h1
      have := List.length_pos_iff.mpr (hseq e hmem).1
      have := hlen e hmem
      simp at h1; omega
    have hs2 : Chunking (qEnc off e.2.2) (qChunks cpl (qEnc off e.2.2)) := qChunks_chunking cpl hcpl _ hne
    refine ⟨⟨e.2.1, qEnc off e.2.2, hseq e hmem, hs1, hs2, ?_⟩, ?_⟩
    · rw [hspec.2.2.1, hlen e hmem]
    · exact qBlock_lines_ok e.1 e.2.1 (qEnc off e.2.2) _ _ (hid e hmem)
        (fun c hc => ((hseq e hmem).2 c hc).1) hspec.2.2.2 hs1 hs2
  have hbs : ∀ b ∈ es.map (qBlockOf off cpl), QBlockOk b := by
    intro b hb
    obtain ⟨e, he, rfl⟩ := List.mem_map.mp hb
    exact (hblk e he).1
  have hfind := fastqFind_blocks (es.map (qBlockOf off cpl)) hbs (by rw [qBlockOf_keys]; exact hnd)
  have hlines := qBlocks_lines_ok (es.map (qBlockOf off cpl)) (by
    intro b hb
    obtain ⟨e, he, rfl⟩ := List.mem_map.mp hb
    exact (hblk e he).2)
  have hLne : qBlocks (es.map (qBlockOf off cpl)) ≠ [] := by
    cases es with
    | nil => exact absurd rfl hne
    | cons e t => simp [qBlocks, qBlock]
  refine ⟨_, _, hfold, fastqRead_clean _ hLne hlines _ hfind off cpl', ?_⟩
  have := qItems_aux off cpl cpl' hcpl es hseq hlen hq hnd es [] rfl
  simpa [fastqItems, qBlocks] using this

/-! ## 4b. Structure of a parsed file: splitting at an entry; `__delitem__` removes the key
(for files without duplicated identifiers) -/

/-- `seq_start` of the entry that is being read in a given mode at line `i` -/
def qModeStart : QMode → Nat → Nat
  | .idle, i => i + 1
  | .inSeq _ ss _, _ => ss
  | .inScores _ ss _ _ _, _ => ss

/-- the first entry found ends after `n` lines; the first `n` lines alone give exactly this entry -/
theorem qFind_first (ls : List Str) (m : QMode) (i : Nat) (e : QRaw) (es : List QRaw)
    (h : qFind m i ls = .ok (e :: es)) :
    ∃ n, 1 ≤ n ∧ n ≤ ls.length ∧ e.2.2.2.2 = i + n ∧ e.2.1 = qModeStart m i ∧
      qFind m i (ls.take n) = .ok [e] ∧ qFind .idle (i + n) (ls.drop n) = .ok es := by
  induction ls generalizing m i with
  | nil => cases m <;> simp [qFind] at h
  | cons line rest ih =>
    have step : ∀ m', qFind m' (i + 1) rest = .ok (e :: es) → qModeStart m' (i + 1) = qModeStart m i →
        (∀ k, qFind m i (line :: rest.take k) = qFind m' (i + 1) (rest.take k)) →
        ∃ n, 1 ≤ n ∧ n ≤ (line :: rest).length ∧ e.2.2.2.2 = i + n ∧ e.2.1 = qModeStart m i ∧
          qFind m i ((line :: rest).take n) = .ok [e] ∧ qFind .idle (i + n) ((line :: rest).drop n) = .ok es := by
      intro m' h' hst hk
      obtain ⟨n, h1, h2, h3, h4, h5, h6⟩ := ih m' (i + 1) h'
      refine ⟨n + 1, by omega, by simp; omega, by omega, by rw [h4, hst], ?_, ?_⟩
      · rw [List.take_succ_cons, hk n, h5]
      · have : i + (n + 1) = i + 1 + n := by omega
        rw [List.drop_succ_cons, this, h6]
    cases m with
    | idle =>
      cases line with
      | nil => simp [qFind] at h
      | cons c cs =>
        by_cases hc : c = '@'
        · simp only [qFind, hc, if_true] at h
          exact step _ h rfl (fun k => by simp [qFind, hc])
        · simp [qFind, hc] at h
    | inSeq id ss sl =>
      cases line with
      | nil => simp [qFind] at h
      | cons c cs =>
        by_cases hc : c = '+'
        · simp only [qFind, hc, if_true] at h
          exact step _ h rfl (fun k => by simp [qFind, hc])
        · simp only [qFind, hc, if_false] at h
          exact step _ h rfl (fun k => by simp [qFind, hc])
    | inScores id ss se sl ql =>
      simp only [qFind] at h
      split at h
      · rename_i hlt
        exact step _ h rfl (fun k => by simp [qFind, hlt])
      · rename_i hlt
        split at h
        · rename_i heq
          cases hr : qFind .idle (i + 1) rest with
          | error e => rw [hr] at h; simp at h
          | ok es0 =>
            rw [hr] at h
            simp only [Except.ok.injEq, List.cons.injEq] at h
            obtain ⟨rfl, rfl⟩ := h
            refine ⟨1, by omega, by simp, rfl, rfl, ?_, ?_⟩
            · simp [qFind, heq]
            · simpa using hr
        · simp at h

/-- splitting a parsed file at one of its entries `e` (`a = e.seq_start`, `d = e.score_stop`) -/
theorem qFind_split (A : List QRaw) (i : Nat) (ls : List Str) (e : QRaw) (B : List QRaw)
    (h : qFind .idle i ls = .ok (A ++ e :: B)) :
    i + 1 ≤ e.2.1 ∧ e.2.1 ≤ e.2.2.2.2 ∧
      qFind .idle i (ls.take (e.2.1 - 1 - i)) = .ok A ∧
      qFind .idle e.2.2.2.2 (ls.drop (e.2.2.2.2 - i)) = .ok B := by
  induction A generalizing i ls with
  | nil =>
    obtain ⟨n, h1, h2, h3, h4, h5, h6⟩ := qFind_first ls .idle i e B h
    simp only [qModeStart] at h4
    refine ⟨by omega, by omega, ?_, ?_⟩
    · have : e.2.1 - 1 - i = 0 := by omega
      rw [this]; simp [qFind]
    · have : e.2.2.2.2 - i = n := by omega
      rw [this, h3]; exact h6
  | cons x A ih =>
    obtain ⟨n, h1, h2, h3, h4, h5, h6⟩ := qFind_first ls .idle i x (A ++ e :: B) h
    obtain ⟨g1, g2, g3, g4⟩ := ih (i + n) (ls.drop n) h6
    refine ⟨by omega, g2, ?_, ?_⟩
    · have e1 : e.2.1 - 1 - i = n + (e.2.1 - 1 - (i + n)) := by omega
      have e2 : ls.take (n + (e.2.1 - 1 - (i + n))) = ls.take n ++ (ls.drop n).take (e.2.1 - 1 - (i + n)) :=
        List.take_add
      rw [e1, e2, qFind_append .idle i _ _ [x] h5]
      have : (ls.take n).length = n := by simp; omega
      rw [this, g3]
      rfl
    · have : ls.drop (e.2.2.2.2 - i) = (ls.drop n).drop (e.2.2.2.2 - (i + n)) := by
        rw [List.drop_drop]; congr 1; omega
      rw [this]; exact g4

/-- modes that differ only in the remembered line numbers -/
inductive QSim : QMode → QMode → Prop
  | idle : QSim .idle .idle
  | inSeq (id : Str) (ss ss' sl : Nat) : QSim (.inSeq id ss sl) (.inSeq id ss' sl)
  | inScores (id : Str) (ss se ss' se' sl ql : Nat) : QSim (.inScores id ss se sl ql) (.inScores id ss' se' sl ql)

/-- the identifiers found do not depend on the line number the parse starts at -/
theorem qFind_keys_shift (ls : List Str) (m m' : QMode) (i j : Nat) (es : List QRaw) (hs : QSim m m')
    (h : qFind m i ls = .ok es) : ∃ es', qFind m' j ls = .ok es' ∧ es'.map (·.1) = es.map (·.1) := by
  induction ls generalizing m m' i j es with
  | nil =>
    cases hs with
    | idle => simp only [qFind, Except.ok.injEq] at h; subst h; exact ⟨[], by simp [qFind], rfl⟩
    | inSeq => simp [qFind] at h
    | inScores => simp [qFind] at h
  | cons line rest ih =>
    cases hs with
    | idle =>
      cases line with
      | nil => simp [qFind] at h
      | cons c cs =>
        by_cases hc : c = '@'
        · simp only [qFind, hc, if_true] at h ⊢
          exact ih _ _ _ _ _ (.inSeq _ _ _ _) h
        · simp [qFind, hc] at h
    | inSeq id ss ss' sl =>
      cases line with
      | nil => simp [qFind] at h
      | cons c cs =>
        by_cases hc : c = '+'
        · simp only [qFind, hc, if_true] at h ⊢
          exact ih _ _ _ _ _ (.inScores _ _ _ _ _ _ _) h
        · simp only [qFind, hc, if_false] at h ⊢
          exact ih _ _ _ _ _ (.inSeq _ _ _ _) h
    | inScores id ss se ss' se' sl ql =>
      simp only [qFind] at h ⊢
      split at h
      · rename_i hlt
        simp only [hlt, if_true]
        exact ih _ _ _ _ _ (.inScores _ _ _ _ _ _ _) h
      · rename_i hlt
        simp only [hlt, if_false]
        split at h
        · rename_i heq
          simp only [heq, if_true]
          cases hr : qFind .idle (i + 1) rest with
          | error e => rw [hr] at h; simp at h
          | ok es0 =>
            rw [hr] at h
            simp only [Except.ok.injEq] at h
            subst h
            obtain ⟨es1, k1, k2⟩ := ih _ _ (i + 1) (j + 1) _ .idle hr
            rw [k1]
            exact ⟨_, rfl, by simp [k2]⟩
        · simp at h

theorem qOdInsert_keys_not_mem {ν : Type} (d : List (Str × ν)) (k k' : Str) (v : ν)
    (h1 : k ∉ d.map (·.1)) (h2 : k ≠ k') : k ∉ (odInsert d k' v).map (·.1) := by
  unfold odInsert
  split
  · intro hm
    simp only [List.map_map, List.mem_map, Function.comp] at hm
    obtain ⟨p, hp, hk⟩ := hm
    split at hk
    · exact h2 hk.symm
    · exact h1 (List.mem_map.mpr ⟨p, hp, hk⟩)
  · simp only [List.map_append, List.map_cons, List.map_nil, List.mem_append, List.mem_singleton]
    rintro (hm | hm)
    · exact h1 hm
    · exact h2 hm

theorem qOdFold_keys_not_mem {ν : Type} (l acc : List (Str × ν)) (k : Str)
    (h1 : k ∉ acc.map (·.1)) (h2 : k ∉ l.map (·.1)) :
    k ∉ (l.foldl (fun d p => odInsert d p.1 p.2) acc).map (·.1) := by
  induction l generalizing acc with
  | nil => simpa using h1
  | cons p l ih =>
    simp only [List.map_cons, List.mem_cons, not_or] at h2
    exact ih _ (qOdInsert_keys_not_mem acc k p.1 p.2 h1 h2.1) h2.2

theorem qLookup_split {ν : Type} (l : List (Str × ν)) (k : Str) (v : ν) (h : l.lookup k = some v) :
    ∃ A B, l = A ++ (k, v) :: B ∧ k ∉ A.map (·.1) := by
  induction l with
  | nil => simp at h
  | cons p l ih =>
    obtain ⟨p1, p2⟩ := p
    by_cases hk : k = p1
    · subst hk
      simp only [List.lookup, beq_self_eq_true, Option.some.injEq] at h
      subst h
      exact ⟨[], l, rfl, by simp⟩
    · have : (k == p1) = false := by simpa using hk
      simp only [List.lookup, this] at h
      obtain ⟨A, B, rfl, hA⟩ := ih h
      refine ⟨(p1, p2) :: A, B, rfl, ?_⟩
      simp only [List.map_cons, List.mem_cons, not_or]
      exact ⟨hk, hA⟩

/-- in a file without duplicated identifiers, `__delitem__` really removes the key -/
theorem fastqDel_fresh (f f1 : Fastq) (k : Str) (raw : List QRaw)
    (hraw : qFind .idle 0 f.lines = .ok raw) (hent : f.entries = raw) (hnd : (raw.map (·.1)).Nodup)
    (hd : fastqDel f k = .ok f1) : f1.entries.lookup k = none := by
  unfold fastqDel at hd
  split at hd
  · simp at hd
  · rename_i a b c d hl
    simp only at hd
    rw [hent] at hl
    obtain ⟨A, B, hAB, hA⟩ := qLookup_split raw k _ hl
    have hB : k ∉ B.map (·.1) := by
      rw [hAB] at hnd
      simp only [List.map_append, List.map_cons, List.nodup_append, List.nodup_cons] at hnd
      exact hnd.2.1.1
    rw [hAB] at hraw
    obtain ⟨_, _, g3, g4⟩ := qFind_split A 0 f.lines _ B hraw
    simp only [Nat.sub_zero] at g3 g4
    obtain ⟨B', k1, k2⟩ := qFind_keys_shift _ .idle .idle d (0 + (f.lines.take (a - 1)).length) B .idle g4
    have hfind : fastqFind (f.lines.take (a - 1) ++ f.lines.drop d) = .ok (odOfList (A ++ B')) := by
      unfold fastqFind
      rw [qFind_append .idle 0 _ _ A g3, k1]
    rw [hfind] at hd
    simp only [Except.ok.injEq] at hd
    subst hd
    apply qLookup_none_of_not_mem
    apply qOdFold_keys_not_mem
    · simp
    · simp only [List.map_append, List.mem_append, not_or]
      exact ⟨hA, by rw [k2]; exact hB⟩

/-! ## 5. Dictionary behaviour of `__setitem__` for a fresh key -/

theorem fastqSet_fresh_norm (f : Fastq) (id seq : Str) (qs : List Int)
    (hcpl : ∀ w, f.cpl = some w → 1 ≤ w)
    (hlen : seq.length = qs.length) (hq : ∀ q ∈ qs, ScoreOk f.off q)
    (hfresh : f.entries.lookup (normHeader id) = none) (hne : seq ≠ []) :
    fastqSet f id seq qs =
      .ok ⟨f.lines ++ qBlock (normHeader id) (qChunks f.cpl seq) (qChunks f.cpl (qEnc f.off qs)),
           f.entries ++ [(normHeader id, f.lines.length + 1, f.lines.length + 1 + (qChunks f.cpl seq).length,
                  f.lines.length + 2 + (qChunks f.cpl seq).length,
                  f.lines.length + 2 + (qChunks f.cpl seq).length + (qChunks f.cpl (qEnc f.off qs)).length)],
           f.off, f.cpl⟩ := by
  have hc0 : ¬ (f.cpl = some 0) := by
    intro h0
    have := hcpl 0 h0
    omega
  have henc := (qEnc_spec f.off qs hq).1
  have hne0 : seq.isEmpty = false := by
    cases seq with
    | nil => exact absurd rfl hne
    | cons _ _ => rfl
  unfold fastqSet
  simp only [hne0, hlen, ne_eq, not_true_eq_false, if_false, hfresh, Option.isSome_none,
    Bool.false_eq_true, hc0, henc, fastqNewLines]
  have : f.lines.length + (qBlock (normHeader id) (qChunks f.cpl seq) (qChunks f.cpl (qEnc f.off qs))).length =
      f.lines.length + 2 + (qChunks f.cpl seq).length + (qChunks f.cpl (qEnc f.off qs)).length := by
    rw [qBlock_length]; omega
  simp only [qBlock] at this ⊢
  rw [this]

/-- every entry found lies inside the file: `seq_stop ≤ score_stop ≤ number of lines` -/
theorem qFind_bounds (ls : List Str) (m : QMode) (i : Nat) (es : List QRaw)
    (h : qFind m i ls = .ok es) (hm : ∀ id ss se sl ql, m = .inScores id ss se sl ql → se ≤ i) :
    ∀ e ∈ es, e.2.2.1 ≤ e.2.2.2.2 ∧ e.2.2.2.2 ≤ i + ls.length := by
  induction ls generalizing m i es with
  | nil =>
    cases m with
    | idle => simp only [qFind, Except.ok.injEq] at h; subst h; simp
    | inSeq => simp [qFind] at h
    | inScores => simp [qFind] at h
  | cons line rest ih =>
    have step : ∀ m' es', qFind m' (i + 1) rest = .ok es' →
        (∀ id ss se sl ql, m' = .inScores id ss se sl ql → se ≤ i + 1) →
        ∀ e ∈ es', e.2.2.1 ≤ e.2.2.2.2 ∧ e.2.2.2.2 ≤ i + (line :: rest).length := by
      intro m' es' h' hm' e he
      have := ih m' (i + 1) es' h' hm' e he
      simp only [List.length_cons]
      omega
    cases m with
    | idle =>
      cases line with
      | nil => simp [qFind] at h
      | cons c cs =>
        by_cases hc : c = '@'
        · simp only [qFind, hc, if_true] at h
          exact step _ _ h (by intro _ _ _ _ _ hh; cases hh)
        · simp [qFind, hc] at h
    | inSeq id ss sl =>
      cases line with
      | nil => simp [qFind] at h
      | cons c cs =>
        by_cases hc : c = '+'
        · simp only [qFind, hc, if_true] at h
          exact step _ _ h (by intro _ _ _ _ _ hh; cases hh; omega)
        · simp only [qFind, hc, if_false] at h
          exact step _ _ h (by intro _ _ _ _ _ hh; cases hh)
    | inScores id ss se sl ql =>
      have hse := hm id ss se sl ql rfl
      simp only [qFind] at h
      split at h
      · exact step _ _ h (by intro _ _ _ _ _ hh; cases hh; omega)
      · split at h
        · cases hr : qFind .idle (i + 1) rest with
          | error e => rw [hr] at h; simp at h
          | ok es0 =>
            rw [hr] at h
            simp only [Except.ok.injEq] at h
            subst h
            intro e he
            simp only [List.mem_cons] at he
            rcases he with rfl | he
            · simp only [List.length_cons]; omega
            · exact step .idle _ hr (by intro _ _ _ _ _ hh; cases hh) e he
        · simp at h

theorem qMem_odInsert {ν : Type} (d : List (Str × ν)) (k : Str) (v : ν) (p : Str × ν)
    (h : p ∈ odInsert d k v) : p ∈ d ∨ p = (k, v) := by
  unfold odInsert at h
  split at h
  · obtain ⟨x, hx, rfl⟩ := List.mem_map.mp h
    split
    · exact Or.inr rfl
    · exact Or.inl hx
  · simpa using h

theorem qMem_odFold {ν : Type} (l acc : List (Str × ν)) (p : Str × ν)
    (h : p ∈ l.foldl (fun d x => odInsert d x.1 x.2) acc) : p ∈ acc ∨ p ∈ l := by
  induction l generalizing acc with
  | nil => exact Or.inl h
  | cons x l ih =>
    rcases ih _ h with h1 | h1
    · rcases qMem_odInsert acc x.1 x.2 p h1 with h2 | h2
      · exact Or.inl h2
      · exact Or.inr (by simp [h2])
    · exact Or.inr (by simp [h1])

/-- consistency gives the index bounds of every entry tuple -/
theorem fastqFind_bounds (lines : List Str) (entries : List QRaw) (h : fastqFind lines = .ok entries) :
    ∀ e ∈ entries, e.2.2.1 ≤ e.2.2.2.2 ∧ e.2.2.2.2 ≤ lines.length := by
  unfold fastqFind at h
  cases hr : qFind .idle 0 lines with
  | error e => rw [hr] at h; simp at h
  | ok raw =>
    rw [hr] at h
    simp only [Except.ok.injEq] at h
    subst h
    intro e he
    have hmem : e ∈ raw := by
      rcases qMem_odFold raw [] e he with h1 | h1
      · simp at h1
      · exact h1
    have := qFind_bounds lines .idle 0 raw hr (by intro _ _ _ _ _ hh; cases hh) e hmem
    simpa using this

theorem qSliceL_append {α : Type} (L N : List α) (a b : Nat) (hb : b ≤ L.length) :
    sliceL (L ++ N) a b = sliceL L a b := by
  unfold sliceL
  rw [List.take_append_of_le_length hb]

theorem qMapM_congr {α β : Type} (g g' : α → Except Err β) (l : List α) (h : ∀ x ∈ l, g x = g' x) :
    l.mapM g = l.mapM g' := by
  induction l with
  | nil => rfl
  | cons x l ih =>
    simp only [List.mapM_cons, h x (by simp), ih (fun y hy => h y (by simp [hy]))]

/-- appending lines and entry tuples does not change what an old key reads -/
theorem fastqGet_append (f : Fastq) (N : List Str) (M : List QRaw) (k : Str)
    (hb : ∀ e ∈ f.entries, e.2.2.1 ≤ e.2.2.2.2 ∧ e.2.2.2.2 ≤ f.lines.length)
    (hk : (f.entries.lookup k).isSome) :
    fastqGet ⟨f.lines ++ N, f.entries ++ M, f.off, f.cpl⟩ k = fastqGet f k := by
  cases hl : f.entries.lookup k with
  | none => rw [hl] at hk; simp at hk
  | some t =>
    obtain ⟨a, b, c, d⟩ := t
    obtain ⟨A, B, hAB, _⟩ := qLookup_split f.entries k _ hl
    have hmem : (k, a, b, c, d) ∈ f.entries := by rw [hAB]; simp
    have hbd := hb _ hmem
    simp only at hbd
    unfold fastqGet
    simp only [List.lookup_append, hl, Option.some_or]
    rw [qSliceL_append f.lines N c d hbd.2, qSliceL_append f.lines N a b (by omega)]

/-- `file[id] = (seq, scores)` for an identifier that is not yet a key appends the item, and all
other items are unchanged -/
theorem fastq_set_items_fresh (f : Fastq) (id seq : Str) (qs : List Int) (items : List (Str × Str × List Int))
    (hinv : fastqFind f.lines = .ok f.entries) (hseq : QSeqOk seq)
    (hq : ∀ q ∈ qs, ScoreOk f.off q)
    (hlen : seq.length = qs.length) (hfresh : f.entries.lookup (normHeader id) = none)
    (hcpl : ∀ w, f.cpl = some w → 1 ≤ w) (hitems : fastqItems f = .ok items) :
    ∃ f', fastqSet f id seq qs = .ok f' ∧ fastqItems f' = .ok (items ++ [(normHeader id, seq, qs)]) := by
  refine ⟨_, fastqSet_fresh_norm f id seq qs hcpl hlen hq hfresh hseq.1, ?_⟩
  have hspec := qEnc_spec f.off qs hq
  have hs1 : Chunking seq (qChunks f.cpl seq) := qChunks_chunking f.cpl hcpl _ hseq.1
  have hne : qEnc f.off qs ≠ [] := by
    intro h0
    have h1 := hspec.2.2.1
    rw [h0] at h1
    have := List.length_pos_iff.mpr hseq.1
    simp at h1; omega
  have hs2 : Chunking (qEnc f.off qs) (qChunks f.cpl (qEnc f.off qs)) := qChunks_chunking f.cpl hcpl _ hne
  have hb := fastqFind_bounds f.lines f.entries hinv
  have hA : normHeader id ∉ f.entries.map (·.1) := by
    rw [List.lookup_eq_none_iff] at hfresh
    intro hm
    obtain ⟨p, hp, hpk⟩ := List.mem_map.mp hm
    have := hfresh p hp
    simp [hpk] at this
  -- the new key reads the new item
  have hnew := fastqGet_block f.lines [] f.entries [] (normHeader id) seq (qEnc f.off qs) qs _ _ f.off f.cpl
    hA hs1.1 hs2.1 hspec.2.1
  simp only [List.append_nil] at hnew
  -- old keys read what they read before
  have hold : ∀ e ∈ f.entries,
      (fastqGet ⟨f.lines ++ qBlock (normHeader id) (qChunks f.cpl seq) (qChunks f.cpl (qEnc f.off qs)),
        f.entries ++ [(normHeader id, f.lines.length + 1, f.lines.length + 1 + (qChunks f.cpl seq).length,
          f.lines.length + 2 + (qChunks f.cpl seq).length,
          f.lines.length + 2 + (qChunks f.cpl seq).length + (qChunks f.cpl (qEnc f.off qs)).length)],
        f.off, f.cpl⟩ e.1).map (fun s => (e.1, s)) = (fastqGet f e.1).map (fun s => (e.1, s)) := by
    intro e he
    rw [fastqGet_append f _ _ e.1 hb]
    cases hl : f.entries.lookup e.1 with
    | some t => rfl
    | none =>
      rw [List.lookup_eq_none_iff] at hl
      have := hl e he
      simp at this
  unfold fastqItems at hitems ⊢
  simp only [List.mapM_append, List.mapM_cons, List.mapM_nil]
  rw [qMapM_congr _ _ f.entries hold, hitems, hnew]
  rfl

/-! ## Non-vacuity checks -/

/-- round trip on a concrete file whose wrapped score lines are `@+` and `+@` -/
example :
    (do let f0 ← [("r".toList, "ACGT".toList, [31, 10, 10, 31]), ("s".toList, "GG".toList, [1, 2])].foldlM
                   (fun f e => fastqSet f e.1 e.2.1 e.2.2) (Fastq.empty 33 (some 2))
        let f ← fastqRead (textRoundTrip f0.lines) 33 none
        let items ← fastqItems f
        pure (f0.lines, items)) =
      (.ok (["@r".toList, "AC".toList, "GT".toList, "+".toList, "@+".toList, "+@".toList,
             "@s".toList, "GG".toList, "+".toList, "\"#".toList],
            [("r".toList, "ACGT".toList, [31, 10, 10, 31]), ("s".toList, "GG".toList, [1, 2])]) :
        Except Err (List Str × List (Str × Str × List Int))) := by
  decide

/-- `__setitem__` replacing an existing entry (un-normalised key ` r `) keeps `entries` consistent -/
example :
    ∃ f0 f1 : Fastq,
      fastqRead ["@r".toList, "AC".toList, "+".toList, "@+".toList, "@s".toList, "G".toList,
                 "+".toList, "!".toList] 33 none = .ok f0 ∧
      fastqSet f0 " r ".toList "TTT".toList [0, 1, 2] = .ok f1 ∧
      f1.lines = ["@s".toList, "G".toList, "+".toList, "!".toList, "@r".toList, "TTT".toList, "+".toList,
                  "!\"#".toList] ∧
      f1.entries = [("s".toList, 1, 2, 3, 4), ("r".toList, 5, 6, 7, 8)] ∧
      fastqFind f1.lines = .ok f1.entries :=
  ⟨⟨["@r".toList, "AC".toList, "+".toList, "@+".toList, "@s".toList, "G".toList, "+".toList, "!".toList],
    [("r".toList, 1, 2, 3, 4), ("s".toList, 5, 6, 7, 8)], 33, none⟩,
   ⟨["@s".toList, "G".toList, "+".toList, "!".toList, "@r".toList, "TTT".toList, "+".toList, "!\"#".toList],
    [("s".toList, 1, 2, 3, 4), ("r".toList, 5, 6, 7, 8)], 33, none⟩,
   by decide, by decide, by decide, by decide, by decide⟩

/-- a file that contains the identifier `r` twice (readable: `_find_entries` keeps the last) -/
def qDupFile : Fastq :=
  ⟨["@r".toList, "A".toList, "+".toList, "!".toList, "@r".toList, "C".toList, "+".toList, "!".toList],
   [("r".toList, 5, 6, 7, 8)], 33, none⟩

/-- the duplicated-identifier case of `fastq_set_inv`: both old blocks are removed (second
`if identifier in self` test) and the result is consistent -/
example :
    fastqFind qDupFile.lines = .ok qDupFile.entries ∧
    ∃ f', fastqSet qDupFile "r".toList "G".toList [0] = .ok f' ∧
      f'.lines = ["@r".toList, "G".toList, "+".toList, "!".toList] ∧
      f'.entries = [("r".toList, 1, 2, 3, 4)] ∧ fastqFind f'.lines = .ok f'.entries :=
  ⟨by decide, ⟨["@r".toList, "G".toList, "+".toList, "!".toList], [("r".toList, 1, 2, 3, 4)], 33, none⟩,
   by decide, by decide, by decide, by decide⟩

end BiotiteModel.C12

import BiotiteModel.Model.C19Cluster
/-! Helper lemmas for the clustering part of C19: the merge step keeps "every index is exactly one
leaf under the live nodes", and the minimum scan returns a live pair `j < i < n`. -/
namespace BiotiteModel.C19

/-! ### a two-point modification of a summand -/
theorem sum_merge (c c' : Nat → Nat) (i j : Nat) (hij : i ≠ j)
    (hi : c' i = c i + c j) (hj : c' j = 0) (hk : ∀ k, k ≠ i → k ≠ j → c' k = c k) :
    ∀ l : List Nat, l.Nodup →
      (l.map c').sum + (if j ∈ l then c j else 0) = (l.map c).sum + (if i ∈ l then c j else 0) := by
  intro l
  induction l with
  | nil => intro _; simp
  | cons a l ih =>
    intro hnd
    have hnd' := (List.nodup_cons.mp hnd)
    have ih := ih hnd'.2
    by_cases hai : a = i
    · subst hai
      have hjne : ¬ j = a := fun h => hij h.symm
      have : a ∉ l := hnd'.1
      simp only [List.map_cons, List.sum_cons, List.mem_cons, hi, hjne, false_or, true_or, if_true] at *
      simp only [this, if_false] at ih
      omega
    · by_cases haj : a = j
      · subst haj
        have : a ∉ l := hnd'.1
        have hia : ¬ i = a := hij
        simp only [List.map_cons, List.sum_cons, List.mem_cons, hj, hia, false_or, true_or, if_true] at *
        simp only [this, if_false] at ih
        omega
      · have h1 : ¬ j = a := fun h => haj h.symm
        have h2 : ¬ i = a := fun h => hai h.symm
        simp only [List.map_cons, List.sum_cons, List.mem_cons, hk a hai haj, h1, h2, false_or]
        omega

/-- Leaves under the live (not yet clustered) positions. -/
def liveLeaves (n : Nat) (cl : Nat → Bool) (nd : Nat → T Rat) : List Nat :=
  (List.range n).flatMap (fun k => if cl k then [] else (nd k).leaves)

theorem liveLeaves_merge (n : Nat) (cl : Nat → Bool) (nd : Nat → T Rat) (i j : Nat) (a b : Rat)
    (hij : i ≠ j) (hi : i < n) (hj : j < n) (hci : cl i = false) (hcj : cl j = false) :
    (liveLeaves n (upd cl j true) (upd nd i (.node (.cons a (nd i) (.cons b (nd j) .nil))))).Perm
      (liveLeaves n cl nd) := by
  rw [List.perm_iff_count]
  intro x
  unfold liveLeaves
  rw [List.count_flatMap, List.count_flatMap]
  have key := sum_merge
    (fun k => List.count x (if cl k then [] else (nd k).leaves))
    (fun k => List.count x (if upd cl j true k then []
        else (upd nd i (.node (.cons a (nd i) (.cons b (nd j) .nil))) k).leaves))
    i j hij ?_ ?_ ?_ (List.range n) List.nodup_range
  · simp only [List.mem_range, hi, hj, if_true] at key
    simpa [Function.comp_def] using key
  · simp [upd, hij, hci, hcj, T.leaves, F.leaves]
  · simp [upd]
  · intro k hki hkj
    simp [upd, hki, hkj]

/-! ### the minimum scan -/

theorem mem_pairs {n i j : Nat} : (i, j) ∈ pairs n ↔ j < i ∧ i < n := by
  unfold pairs
  simp only [List.mem_flatMap, List.mem_range, List.mem_map, Prod.mk.injEq]
  constructor
  · rintro ⟨a, ha, b, hb, rfl, rfl⟩; exact ⟨hb, ha⟩
  · rintro ⟨h1, h2⟩; exact ⟨i, h2, j, h1, rfl, rfl⟩

/-- What the fold knows after scanning a list of pairs. -/
def ScanOk (val : Nat → Nat → Rat) (cl : Nat → Bool) (seen : List (Nat × Nat))
    (best : Option (Rat × Nat × Nat)) : Prop :=
  match best with
  | none => ∀ p ∈ seen, cl p.1 = true ∨ cl p.2 = true
  | some (m, i, j) => (i, j) ∈ seen ∧ cl i = false ∧ cl j = false ∧ m = val i j ∧
      ∀ p ∈ seen, cl p.1 = false → cl p.2 = false → m ≤ val p.1 p.2

theorem scan_fold (val : Nat → Nat → Rat) (cl : Nat → Bool) :
    ∀ (todo seen : List (Nat × Nat)) (best : Option (Rat × Nat × Nat)),
      ScanOk val cl seen best → ScanOk val cl (seen ++ todo) (todo.foldl (scanStep val cl) best) := by
  intro todo
  induction todo with
  | nil => intro seen best h; simpa using h
  | cons p todo ih =>
    intro seen best h
    have : seen ++ p :: todo = (seen ++ [p]) ++ todo := by simp
    rw [this, List.foldl_cons]
    apply ih
    unfold scanStep
    by_cases hc : (cl p.1 || cl p.2) = true
    · rw [if_pos hc]
      have hc' : cl p.1 = true ∨ cl p.2 = true := by simpa using hc
      cases best with
      | none =>
        intro q hq
        rcases List.mem_append.mp hq with hq | hq
        · exact h q hq
        · simp at hq; subst hq; exact hc'
      | some b =>
        obtain ⟨m, i, j⟩ := b
        obtain ⟨h1, h2, h3, h4, h5⟩ := h
        refine ⟨List.mem_append_left _ h1, h2, h3, h4, ?_⟩
        intro q hq hq1 hq2
        rcases List.mem_append.mp hq with hq | hq
        · exact h5 q hq hq1 hq2
        · simp at hq; subst hq
          rcases hc' with hc' | hc' <;> simp_all
    · rw [if_neg hc]
      have hc1 : cl p.1 = false := by
        cases h1 : cl p.1 <;> simp_all
      have hc2 : cl p.2 = false := by
        cases h2 : cl p.2 <;> simp_all
      cases best with
      | none =>
        refine ⟨by simp, hc1, hc2, rfl, ?_⟩
        intro q hq hq1 hq2
        rcases List.mem_append.mp hq with hq | hq
        · rcases h q hq with h' | h' <;> simp_all
        · simp at hq; subst hq; exact Rat.le_refl
      | some b =>
        obtain ⟨m, i, j⟩ := b
        obtain ⟨h1, h2, h3, h4, h5⟩ := h
        by_cases hlt : val p.1 p.2 < m
        · simp only [hlt, if_true]
          refine ⟨by simp, hc1, hc2, rfl, ?_⟩
          intro q hq hq1 hq2
          rcases List.mem_append.mp hq with hq | hq
          · exact Rat.le_trans (Rat.le_of_lt hlt) (h5 q hq hq1 hq2)
          · simp at hq; subst hq; exact Rat.le_refl
        · simp only [hlt, if_false]
          refine ⟨List.mem_append_left _ h1, h2, h3, h4, ?_⟩
          intro q hq hq1 hq2
          rcases List.mem_append.mp hq with hq | hq
          · exact h5 q hq hq1 hq2
          · simp at hq; subst hq; exact Rat.not_lt.mp hlt

theorem scanMin_spec (val : Nat → Nat → Rat) (cl : Nat → Bool) (n : Nat) :
    ScanOk val cl (pairs n) (scanMin val cl n) := by
  have := scan_fold val cl (pairs n) [] none (by intro p hp; simp at hp)
  simpa [scanMin] using this

theorem scanMin_some {val : Nat → Nat → Rat} {cl : Nat → Bool} {n : Nat} {m : Rat} {i j : Nat}
    (h : scanMin val cl n = some (m, i, j)) :
    j < i ∧ i < n ∧ cl i = false ∧ cl j = false ∧ m = val i j ∧
      ∀ a b, b < a → a < n → cl a = false → cl b = false → m ≤ val a b := by
  have s := scanMin_spec val cl n
  rw [h] at s
  obtain ⟨h1, h2, h3, h4, h5⟩ := s
  have := mem_pairs.mp h1
  exact ⟨this.1, this.2, h2, h3, h4, fun a b hba han ha hb => h5 (a, b) (mem_pairs.mpr ⟨hba, han⟩) ha hb⟩

theorem scanMin_none {val : Nat → Nat → Rat} {cl : Nat → Bool} {n : Nat}
    (h : scanMin val cl n = none) :
    ∀ a b, b < a → a < n → cl a = true ∨ cl b = true := by
  have s := scanMin_spec val cl n
  rw [h] at s
  exact fun a b hba han => s (a, b) (mem_pairs.mpr ⟨hba, han⟩)

end BiotiteModel.C19

namespace BiotiteModel.C19

/-! ### counting live positions (termination of the merge loop) -/
def liveCount (n : Nat) (cl : Nat → Bool) : Nat := ((List.range n).map (fun k => if cl k then 0 else 1)).sum

theorem sum_upd1 (c c' : Nat → Nat) (j : Nat) (hk : ∀ k, k ≠ j → c' k = c k) :
    ∀ l : List Nat, l.Nodup →
      (l.map c').sum + (if j ∈ l then c j else 0) = (l.map c).sum + (if j ∈ l then c' j else 0) := by
  intro l
  induction l with
  | nil => intro _; simp
  | cons a l ih =>
    intro hnd
    have hnd' := (List.nodup_cons.mp hnd)
    have ih := ih hnd'.2
    by_cases haj : a = j
    · subst haj
      have : a ∉ l := hnd'.1
      simp only [List.map_cons, List.sum_cons, List.mem_cons, true_or, if_true] at *
      simp only [this, if_false] at ih
      omega
    · have h1 : ¬ j = a := fun h => haj h.symm
      simp only [List.map_cons, List.sum_cons, List.mem_cons, hk a haj, h1, false_or]
      omega

theorem le_sum_of_mem (c : Nat → Nat) (k : Nat) : ∀ l : List Nat, k ∈ l → c k ≤ (l.map c).sum := by
  intro l
  induction l with
  | nil => intro h; simp at h
  | cons a l ih =>
    intro h
    simp only [List.map_cons, List.sum_cons]
    rcases List.mem_cons.mp h with h | h
    · subst h; omega
    · have := ih h; omega

theorem liveCount_upd (n : Nat) (cl : Nat → Bool) (j : Nat) (hj : j < n) (hc : cl j = false) :
    liveCount n (upd cl j true) + 1 = liveCount n cl := by
  have := sum_upd1 (fun k => if cl k then 0 else 1) (fun k => if upd cl j true k then 0 else 1) j
    (by intro k hk; simp [upd, hk]) (List.range n) List.nodup_range
  simp only [List.mem_range, hj, if_true] at this
  have e1 : (if cl j = true then 0 else 1) = 1 := by simp [hc]
  have e2 : (if upd cl j true j = true then 0 else 1) = 0 := by simp [upd]
  rw [e1, e2] at this
  unfold liveCount
  omega

theorem liveCount_pos (n : Nat) (cl : Nat → Bool) (k : Nat) (hk : k < n) (hc : cl k = false) :
    1 ≤ liveCount n cl := by
  have := le_sum_of_mem (fun k => if cl k then 0 else 1) k (List.range n) (List.mem_range.mpr hk)
  simpa [liveCount, hc] using this

theorem liveCount_le (n : Nat) (cl : Nat → Bool) : liveCount n cl ≤ n := by
  unfold liveCount
  induction n with
  | zero => simp
  | succ n ih =>
    rw [List.range_succ, List.map_append, List.sum_append]
    simp only [List.map_cons, List.map_nil, List.sum_cons, List.sum_nil]
    split <;> omega

/-! ### UPGMA: every index is exactly one leaf -/

/-- Loop invariant: the leaves under the live nodes are a permutation of `0 … n-1`, and the last
position is never clustered (it can only ever be `i_min`). -/
def UInv (n : Nat) (s : UState) : Prop :=
  (liveLeaves n s.cl s.nd).Perm (List.range n) ∧ s.cl (n - 1) = false

theorem UInv_init (n : Nat) (D : Nat → Nat → Rat) : UInv n (UState.init D) := by
  refine ⟨?_, rfl⟩
  unfold liveLeaves UState.init
  simp only [Bool.false_eq_true, if_false, T.leaves]
  have : ∀ l : List Nat, l.flatMap (fun k => [k]) = l := by
    intro l; induction l with
    | nil => rfl
    | cons a l ih => simp [List.flatMap_cons, ih]
  rw [this]

theorem UInv_step {n : Nat} {s s' : UState} (h : UInv n s) (hs : upgmaStep n s = some s') :
    UInv n s' ∧ liveCount n s'.cl + 1 = liveCount n s.cl := by
  unfold upgmaStep at hs
  split at hs
  · cases hs
  · rename_i m i j hmin
    cases hs
    obtain ⟨hji, hin, hci, hcj, _, _⟩ := scanMin_some hmin
    refine ⟨⟨?_, ?_⟩, ?_⟩
    · exact (liveLeaves_merge n s.cl s.nd i j _ _ (by omega) hin (by omega) hci hcj).trans h.1
    · show upd s.cl j true (n - 1) = false
      have : n - 1 ≠ j := by omega
      simp [upd, this, h.2]
    · exact liveCount_upd n s.cl j (by omega) hcj

theorem upgmaLoop_final (n : Nat) : ∀ (fuel : Nat) (s : UState), UInv n s → liveCount n s.cl ≤ fuel + 1 →
    UInv n (upgmaLoop n fuel s) ∧ upgmaStep n (upgmaLoop n fuel s) = none := by
  intro fuel
  induction fuel with
  | zero =>
    intro s h hc
    refine ⟨h, ?_⟩
    show upgmaStep n s = none
    cases hs : upgmaStep n s with
    | none => rfl
    | some s' =>
      exfalso
      have h2 := (UInv_step h hs).2
      unfold upgmaStep at hs
      split at hs
      · cases hs
      · rename_i m i j hmin
        cases hs
        obtain ⟨hji, hin, hci, hcj, _, _⟩ := scanMin_some hmin
        have : 1 ≤ liveCount n (upd s.cl j true) :=
          liveCount_pos n _ i hin (by have : i ≠ j := by omega
                                      simp [upd, this, hci])
        have h3 := liveCount_upd n s.cl j (by omega) hcj
        omega
  | succ fuel ih =>
    intro s h hc
    show (UInv n (match upgmaStep n s with | none => s | some s' => upgmaLoop n fuel s')) ∧
      upgmaStep n (match upgmaStep n s with | none => s | some s' => upgmaLoop n fuel s') = none
    cases hs : upgmaStep n s with
    | none => exact ⟨h, hs⟩
    | some s' =>
      have := UInv_step h hs
      exact ih s' this.1 (by omega)

/-- When no live pair is left only position `n-1` is live, so its node holds all the leaves. -/
theorem liveLeaves_last (n : Nat) (hn : 0 < n) (cl : Nat → Bool) (nd : Nat → T Rat)
    (hlast : cl (n - 1) = false) (hall : ∀ a b, b < a → a < n → cl a = true ∨ cl b = true) :
    liveLeaves n cl nd = (nd (n - 1)).leaves := by
  obtain ⟨m, rfl⟩ : ∃ m, n = m + 1 := ⟨n - 1, by omega⟩
  simp only [Nat.add_sub_cancel] at hlast ⊢
  unfold liveLeaves
  rw [List.range_succ, List.flatMap_append]
  have : (List.range m).flatMap (fun k => if cl k then [] else (nd k).leaves) = [] := by
    rw [List.flatMap_eq_nil_iff]
    intro k hk
    have hk := List.mem_range.mp hk
    rcases hall m k hk (by omega) with h | h
    · simp [hlast] at h
    · simp [h]
  simp [this, hlast]

theorem upgma_leaves (n : Nat) (D : Nat → Nat → Rat) (t : T Rat) (h : upgma n D = .ok t) :
    t.leaves.Perm (List.range n) := by
  unfold upgma at h
  split at h; · cases h
  split at h; · cases h
  split at h; · cases h
  rename_i _ _ hn
  have hfin := upgmaLoop_final n n (UState.init D) (UInv_init n D)
    (Nat.le_succ_of_le (liveCount_le n _))
  have hnone := hfin.2
  unfold upgmaStep at hnone
  split at hnone
  · rename_i hmin
    have hl := liveLeaves_last n (by omega) _ (upgmaLoop n n (UState.init D)).nd hfin.1.2 (scanMin_none hmin)
    have hp := hfin.1.1
    rw [hl] at hp
    simp only [mkTree] at h
    split at h
    · cases h; exact hp
    · cases h
  · cases hnone

end BiotiteModel.C19

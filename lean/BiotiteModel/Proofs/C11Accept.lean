import BiotiteModel.Proofs.C11Msa
/-! Which pairwise traces `write_alignment_to_cigar` accepts: a decidable predicate and the equivalence. -/
namespace BiotiteModel.C11
open BiotiteModel

theorem mapE_ok_iff {α β : Type} (f : α → Except Err β) (l : List α) :
    (∃ r, mapE f l = .ok r) ↔ ∀ a ∈ l, ∃ b, f a = .ok b := by
  constructor
  · rintro ⟨r, hr⟩ a ha
    obtain ⟨b, _, hb⟩ := (mapE_ok_forall₂ f l r hr).mem_left a ha
    exact ⟨b, hb⟩
  · exact mapE_ok_of_forall f l

/-- reference / segment indices of a column lie inside the sequences (needed by `get_codes` for `=`/`X`) -/
def colInRange (refLen segLen : Nat) (c : PCol) : Bool :=
  (match c.1 with | some r => decide (r < refLen) | none => true) &&
  (match c.2 with | some s => decide (s < segLen) | none => true)

/-- the written columns are acceptable -/
def colsOk (o : WOpts) (refLen segLen : Nat) (t : PTrace) : Bool :=
  t.all (fun c => c.1.isSome || c.2.isSome) && contigB t &&
  o.introns.all (fun p => decide (p.1 < p.2) && decide (0 ≤ p.1)) &&
  t.all (fun c => !inIntron o.introns c || c.2.isNone) &&
  (!o.dm || t.all (colInRange refLen segLen))

/-- the part of the trace that is written -/
def written (o : WOpts) (t : PTrace) : Option PTrace :=
  if o.itg then some t else match trimSeg t with | .ok t' => some t' | .error _ => none

/-- `write_alignment_to_cigar` accepts exactly these traces (and the model produces a CIGAR for them) -/
def acceptB (o : WOpts) (refLen segLen : Nat) (t : PTrace) : Bool :=
  match written o t with
  | none => false
  | some t' => colsOk o refLen segLen t' && !t'.isEmpty &&
      (match firstSeg t', lastSeg t' with
        | some _, some b => decide (b + 1 ≤ segLen)
        | _, _ => false)

theorem colOp_ok_iff (c : PCol) : (∃ o, colOp c = .ok o) ↔ (c.1.isSome || c.2.isSome) = true := by
  obtain ⟨a, b⟩ := c
  cases a <;> cases b <;> simp [colOp]

theorem eqOp_ok_iff (refSeq segSeq : List Nat) (c : PCol) (op : Op) :
    (∃ o, eqOp refSeq segSeq c op = .ok o) ↔ colInRange refSeq.length segSeq.length c = true := by
  obtain ⟨a, b⟩ := c
  cases a with
  | none =>
    cases b with
    | none => simp [eqOp, colInRange]
    | some s => by_cases h : s < segSeq.length <;> simp [eqOp, colInRange, h]
  | some r =>
    cases b with
    | none => by_cases h : r < refSeq.length <;> simp [eqOp, colInRange, h]
    | some s =>
      simp only [eqOp, colInRange]
      by_cases hr : r < refSeq.length
      · by_cases hs : s < segSeq.length
        · simp [hr, hs]
        · simp [hr, hs]
      · simp [hr]

theorem all₂_zip_mem {α β : Type} {R : α → β → Prop} {l1 : List α} {l2 : List β} (h : All₂ R l1 l2) :
    (∀ p ∈ l1.zip l2, R p.1 p.2) ∧ (∀ a ∈ l1, ∃ b, (a, b) ∈ l1.zip l2) := by
  induction h with
  | nil => simp
  | @cons a0 b0 l1' l2' hab _ ih =>
    constructor
    · intro p hp
      simp only [List.zip_cons_cons, List.mem_cons] at hp
      rcases hp with rfl | hp
      · exact hab
      · exact ih.1 p hp
    · intro a ha
      rcases List.mem_cons.mp ha with rfl | ha
      · exact ⟨b0, by simp⟩
      · obtain ⟨b, hb⟩ := ih.2 a ha; exact ⟨b, by simp [hb]⟩

theorem columnOps_ok_iff (o : WOpts) (refSeq segSeq : List Nat) (t : PTrace) :
    (∃ ops, columnOps o refSeq segSeq t = .ok ops) ↔ colsOk o refSeq.length segSeq.length t = true := by
  unfold columnOps colsOk
  have hA := mapE_ok_iff colOp t
  cases hm : mapE colOp t with
  | error e =>
    have : ¬ ∀ a ∈ t, ∃ b, colOp a = .ok b := fun h => by
      obtain ⟨r, hr⟩ := hA.2 h; rw [hm] at hr; cases hr
    have h1 : t.all (fun c => c.1.isSome || c.2.isSome) = false := by
      cases hall : t.all (fun c => c.1.isSome || c.2.isSome) with
      | false => rfl
      | true =>
        exfalso; apply this
        intro a ha
        exact (colOp_ok_iff a).2 (List.all_eq_true.mp hall a ha)
    simp [h1]
  | ok ops =>
    have hF := mapE_ok_forall₂ _ _ _ hm
    have h1 : t.all (fun c => c.1.isSome || c.2.isSome) = true := by
      rw [List.all_eq_true]
      intro a ha
      obtain ⟨b, _, hb⟩ := hF.mem_left a ha
      exact (colOp_ok_iff a).1 ⟨b, hb⟩
    simp only [h1, Bool.true_and]
    cases hct : contigB t with
    | false => simp
    | true =>
    simp only [Bool.not_true, Bool.false_eq_true, if_false, Bool.true_and]
    -- introns well-formed
    have hI : (o.introns.any fun p => decide (p.1 ≥ p.2) || decide (p.1 < 0)) =
        !(o.introns.all fun p => decide (p.1 < p.2) && decide (0 ≤ p.1)) := by
      rw [List.all_eq_not_any_not]
      simp only [Bool.not_not]
      congr 1
      funext p
      by_cases h1 : p.1 < p.2 <;> by_cases h2 : 0 ≤ p.1 <;> simp [h1, h2] <;> omega
    have hI' : (o.introns.any fun x => match x with | (a, b) => decide (a ≥ b) || decide (a < 0)) =
        (o.introns.any fun p => decide (p.1 ≥ p.2) || decide (p.1 < 0)) := by
      congr 1
    rw [hI', hI]
    cases hint : (o.introns.all fun p => decide (p.1 < p.2) && decide (0 ≤ p.1)) with
    | false => simp
    | true =>
      simp only [Bool.not_true, Bool.false_eq_true, if_false, Bool.true_and]
      -- introns inside reference gaps
      have hZ : ((t.zip ops).any fun x => match x with | (c, op) => inIntron o.introns c && op != Op.D) =
          !(t.all fun c => !inIntron o.introns c || c.2.isNone) := by
        have hz := all₂_zip_mem hF
        cases hall : (t.all fun c => !inIntron o.introns c || c.2.isNone) with
        | true =>
          simp only [Bool.not_true]
          rw [List.any_eq_false]
          intro p hp
          obtain ⟨c, op⟩ := p
          have hc : c ∈ t := (List.of_mem_zip hp).1
          have h2 := List.all_eq_true.mp hall c hc
          have h3 := hz.1 (c, op) hp
          simp only at h3 ⊢
          by_cases hin : inIntron o.introns c = true
          · simp only [hin, Bool.not_true, Bool.false_or] at h2
            obtain ⟨a, b⟩ := c
            cases b with
            | some s => simp at h2
            | none =>
              cases a with
              | none => simp [inIntron] at hin
              | some r => simp [colOp] at h3; subst h3; simp
          · simp [hin]
        | false =>
          simp only [Bool.not_false]
          rw [List.any_eq_true]
          have : ∃ c ∈ t, (!inIntron o.introns c || c.2.isNone) = false := by
            obtain ⟨c, hc, hv⟩ := List.all_eq_false.mp hall
            refine ⟨c, hc, ?_⟩
            cases hx : (!inIntron o.introns c || c.2.isNone) with
            | false => rfl
            | true => exact absurd hx hv
          obtain ⟨c, hc, hv⟩ := this
          obtain ⟨op, hop⟩ := hz.2 c hc
          refine ⟨(c, op), hop, ?_⟩
          have h3 := hz.1 (c, op) hop
          simp only [Bool.or_eq_false_iff, Bool.not_eq_false'] at hv
          obtain ⟨a, b⟩ := c
          cases b with
          | none => simp at hv
          | some s =>
            cases a with
            | none => simp [inIntron] at hv
            | some r => simp [colOp] at h3; subst h3; simp [hv.1]
      rw [hZ]
      cases hall : (t.all fun c => !inIntron o.introns c || c.2.isNone) with
      | false => simp
      | true =>
        simp only [Bool.not_true, Bool.false_eq_true, if_false, Bool.true_and]
        cases hdm : o.dm with
        | false => simp
        | true =>
          simp only [if_true, Bool.not_true, Bool.false_or]
          rw [mapE_ok_iff]
          have hlen : ((t.zip ops).map fun x => match x with | (c, op) => if inIntron o.introns c = true then Op.N else op).length
              = t.length := by simp [hF.length_eq]
          constructor
          · intro h
            rw [List.all_eq_true]
            intro c hc
            obtain ⟨i, hi, rfl⟩ := List.getElem_of_mem hc
            have hi2 : i < (t.zip ((t.zip ops).map fun x => match x with
                | (c, op) => if inIntron o.introns c = true then Op.N else op)).length := by
              have := hF.length_eq
              simp at hlen ⊢; omega
            have := h _ (List.getElem_mem hi2)
            simp only [List.getElem_zip] at this
            exact (eqOp_ok_iff refSeq segSeq _ _).1 this
          · intro h p hp
            obtain ⟨c, op⟩ := p
            have hc : c ∈ t := (List.of_mem_zip hp).1
            exact (eqOp_ok_iff refSeq segSeq c op).2 (List.all_eq_true.mp h c hc)

theorem dropEndGaps_eq_nil : ∀ (t : PTrace), dropEndGaps t = [] ↔ ∀ c ∈ t, c.2 = none := by
  intro t
  induction t with
  | nil => simp [dropEndGaps]
  | cons c t ih =>
    unfold dropEndGaps
    split
    · next h =>
      have := ih.1 h
      cases hc : c.2 with
      | none => simp [hc]; exact fun a b hab => this (a, b) hab
      | some s => simp [hc]
    · next r' hne =>
      simp only [reduceCtorEq, false_iff]
      intro hall
      exact hne (ih.2 fun x hx => hall x (List.mem_cons_of_mem _ hx))

/-- the terminal trimming fails exactly when the segment has no aligned base -/
theorem trimSeg_ok_iff (t : PTrace) : (∃ t', trimSeg t = .ok t') ↔ ∃ c ∈ t, c.2.isSome = true := by
  unfold trimSeg
  have key : dropEndGaps (t.dropWhile fun c => c.2.isNone) = [] ↔ ∀ c ∈ t, c.2 = none := by
    rw [dropEndGaps_eq_nil]
    constructor
    · intro h
      induction t with
      | nil => intro c hc; cases hc
      | cons a t ih =>
        rw [List.dropWhile_cons] at h
        split at h
        · next ha =>
          intro c hc
          rcases List.mem_cons.mp hc with rfl | hc
          · simpa using ha
          · exact ih h c hc
        · exact h
    · intro h c hc
      exact h c ((List.dropWhile_sublist _).subset hc)
  constructor
  · rintro ⟨t', h⟩
    split at h
    · cases h
    · next r hne =>
      apply Classical.byContradiction
      intro hno
      apply hne
      apply key.2
      intro c hc
      cases hx : c.2 with
      | none => rfl
      | some s => exact absurd ⟨c, hc, by simp [hx]⟩ hno
  · rintro ⟨c, hc, hs⟩
    split
    · next h =>
      have := key.1 h c hc
      rw [this] at hs; cases hs
    · exact ⟨_, rfl⟩

/-- **acceptance**: `write_alignment_to_cigar` produces a CIGAR exactly for the traces satisfying `acceptB` -/
theorem writeOps_accept_iff (o : WOpts) (refSeq segSeq : List Nat) (t : PTrace) :
    (∃ ops, writeOps o refSeq segSeq t = .ok (some ops)) ↔ acceptB o refSeq.length segSeq.length t = true := by
  have main : ∀ t' : PTrace,
      (∃ ops, (match columnOps o refSeq segSeq t' with
        | .error e => (.error e : Except Err (Option (List (Op × Nat))))
        | .ok ops =>
          if ops.isEmpty then .error .indexError else
          match clips segSeq.length t' with
          | .error e => .error e
          | .ok none => .ok none
          | .ok (some (a, b)) =>
            let clip := if o.hc then Op.H else Op.S
            .ok (some ((if a = 0 then [] else [(clip, a)]) ++ aggregate ops ++ (if b = 0 then [] else [(clip, b)])))) = .ok (some ops)) ↔
      (colsOk o refSeq.length segSeq.length t' && !t'.isEmpty &&
        (match firstSeg t', lastSeg t' with
          | some _, some b => decide (b + 1 ≤ segSeq.length)
          | _, _ => false)) = true := by
    intro t'
    have hiff := columnOps_ok_iff o refSeq segSeq t'
    cases hco : columnOps o refSeq segSeq t' with
    | error e =>
      have : colsOk o refSeq.length segSeq.length t' = false := by
        cases hc : colsOk o refSeq.length segSeq.length t' with
        | false => rfl
        | true => obtain ⟨ops, h⟩ := hiff.2 hc; rw [hco] at h; cases h
      simp [this]
    | ok ops =>
      have hc : colsOk o refSeq.length segSeq.length t' = true := hiff.1 ⟨ops, hco⟩
      have hl : t'.length = ops.length := (columnOps_kinds hco).length_eq
      have hemp : ops.isEmpty = t'.isEmpty := by
        cases t' <;> cases ops <;> simp at hl ⊢
      simp only [hc, Bool.true_and, hemp]
      cases hte : t'.isEmpty with
      | true => simp
      | false =>
        simp only [Bool.false_eq_true, if_false, Bool.not_false, Bool.true_and]
        unfold clips
        cases firstSeg t' with
        | none => simp
        | some a =>
          cases lastSeg t' with
          | none => simp
          | some b =>
            by_cases hb : b + 1 ≤ segSeq.length
            · simp [hb]
            · simp [hb]
  unfold writeOps acceptB written
  by_cases hitg : o.itg = true
  · simp only [hitg, if_true]
    exact main t
  · simp only [hitg, if_false, Bool.false_eq_true]
    cases htr : trimSeg t with
    | error e => simp
    | ok t' => simp only; exact main t'

end BiotiteModel.C11

import BiotiteModel.Model.C17Spec
import BiotiteModel.Proofs.C17Graph
/-! Helper lemmas for the segmentation half of C17 (residues.py / chains.py / segments.py). -/
namespace BiotiteModel.C17

/-! ### strictly ascending lists are determined by their members -/

theorem eq_of_pairwise_lt : ∀ (l₁ l₂ : List Nat), l₁.Pairwise (· < ·) → l₂.Pairwise (· < ·) →
    (∀ x, x ∈ l₁ ↔ x ∈ l₂) → l₁ = l₂
  | [], [], _, _, _ => rfl
  | [], b :: l₂, _, _, h => by have := (h b).2 (by simp); simp at this
  | a :: l₁, [], _, _, h => by have := (h a).1 (by simp); simp at this
  | a :: l₁, b :: l₂, h₁, h₂, h => by
    rw [List.pairwise_cons] at h₁ h₂
    have hab : a = b := by
      have ha := (h a).1 (by simp)
      have hb := (h b).2 (by simp)
      simp only [List.mem_cons] at ha hb
      rcases ha with ha | ha
      · exact ha
      · rcases hb with hb | hb
        · exact hb.symm
        · have := h₂.1 a ha; have := h₁.1 b hb; omega
    subst hab
    congr 1
    refine eq_of_pairwise_lt l₁ l₂ h₁.2 h₂.2 fun x => ⟨fun hx => ?_, fun hx => ?_⟩
    · have := (h x).1 (by simp [hx])
      simp only [List.mem_cons] at this
      rcases this with rfl | h'
      · have := h₁.1 x hx; omega
      · exact h'
    · have := (h x).2 (by simp [hx])
      simp only [List.mem_cons] at this
      rcases this with rfl | h'
      · have := h₂.1 x hx; omega
      · exact h'

/-! ### starts = the per-atom boundaries -/

theorem changeMask_getElem? {α : Type} (b : α → α → Bool) (xs : List α) (v : Nat) :
    (changeMask b xs)[v]? = match xs[v]?, xs[v + 1]? with
      | some a, some c => some (b a c)
      | _, _ => none := by
  simp only [changeMask, List.getElem?_zipWith, List.getElem?_tail]
  cases xs[v]? <;> cases xs[v + 1]? <;> rfl

theorem startsOf_stop (n : Nat) (mask : List Bool) :
    startsOf n mask true = startsOf n mask false ++ [n] := by
  unfold startsOf; split <;> simp_all

theorem isStart_zero {α : Type} (b : α → α → Bool) (xs : List α) (h : 0 < xs.length) :
    isStart b xs 0 = true := by simp [isStart, h]

theorem isStart_lt {α : Type} (b : α → α → Bool) (xs : List α) (j : Nat) (h : isStart b xs j = true) :
    j < xs.length := by simp [isStart] at h; exact h.1

theorem startsOf_false (n : Nat) (mask : List Bool) :
    startsOf n mask false = if n = 0 then [] else 0 :: (whereTrue mask).map (· + 1) := by
  unfold startsOf; split <;> simp

/-- `get_*_starts(array)` lists exactly the atoms that start a segment, in ascending order. -/
theorem startsOf_eq_filter {α : Type} (b : α → α → Bool) (xs : List α) :
    startsOf xs.length (changeMask b xs) false = (List.range xs.length).filter (isStart b xs) := by
  rw [startsOf_false]
  apply eq_of_pairwise_lt
  · split
    · simp
    · rw [List.pairwise_cons]
      refine ⟨?_, ?_⟩
      · intro x hx; simp only [List.mem_map] at hx; obtain ⟨v, _, rfl⟩ := hx; omega
      · exact List.Pairwise.map _ (fun a c h => by omega) (whereTrue_spec _).1
  · exact List.Pairwise.filter _ List.pairwise_lt_range
  · intro j
    simp only [List.mem_filter, List.mem_range]
    by_cases hn : xs.length = 0
    · simp [hn]
    · simp only [hn, if_false, List.mem_cons, List.mem_map,
        (whereTrue_spec _).2, changeMask_getElem?]
      constructor
      · rintro (rfl | ⟨v, hv, rfl⟩)
        · exact ⟨by omega, isStart_zero b xs (by omega)⟩
        · cases h1 : xs[v]? <;> cases h2 : xs[v + 1]? <;> simp [h1, h2] at hv
          have hlt : v + 1 < xs.length := by
            rcases Nat.lt_or_ge (v + 1) xs.length with h | h
            · exact h
            · simp [List.getElem?_eq_none_iff.2 h] at h2
          refine ⟨hlt, ?_⟩
          rw [List.getElem?_eq_getElem hlt] at h2
          injection h2 with h2
          simp [isStart, hlt, h1, h2, hv]
      · rintro ⟨hj, hs⟩
        cases j with
        | zero => left; rfl
        | succ v =>
          right
          refine ⟨v, ?_, rfl⟩
          simp only [isStart, hj, decide_true, Bool.true_and, Nat.add_sub_cancel] at hs
          cases h1 : xs[v]? <;> cases h2 : xs[v + 1]? <;> simp_all

/-! ### the OR of change masks is the change mask of the OR -/

theorem orMask_zipWith {α β : Type} (f g : α → β → Bool) : ∀ (xs : List α) (ys : List β),
    orMask (List.zipWith f xs ys) (List.zipWith g xs ys) = List.zipWith (fun a c => f a c || g a c) xs ys
  | [], _ => by simp [orMask]
  | _ :: _, [] => by simp [orMask]
  | x :: xs, y :: ys => by
    have := orMask_zipWith f g xs ys
    simp only [orMask] at this
    simp [orMask, this]

theorem orMask_changeMask {α : Type} (f g : α → α → Bool) (xs : List α) :
    orMask (changeMask f xs) (changeMask g xs) = changeMask (fun a c => f a c || g a c) xs :=
  orMask_zipWith f g xs xs.tail

theorem residueMask_eq (xs : List Atom) : residueMask xs = changeMask resBoundary xs := by
  simp only [residueMask, orMask_changeMask]
  rfl

theorem chainMask_eq (xs : List Atom) : chainMask xs = changeMask chainBoundary xs := by
  simp only [chainMask, orMask_changeMask]
  rfl

/-! ### splitting `range n` at an atom `i` -/

theorem range_split (n i : Nat) (hi : i < n) :
    List.range n = List.range (i + 1) ++ List.range' (i + 1) (n - (i + 1)) := by
  rw [List.range_eq_range', List.range_eq_range']
  have := @List.range'_append 0 (i + 1) (n - (i + 1)) 1
  simp only [Nat.zero_add, Nat.one_mul] at this
  rw [this]
  congr 1
  omega

/-- the starts at or before atom `i` -/
def headStarts (P : Nat → Bool) (i : Nat) : List Nat := (List.range (i + 1)).filter P
/-- the starts after atom `i` -/
def tailStarts (P : Nat → Bool) (n i : Nat) : List Nat := (List.range' (i + 1) (n - (i + 1))).filter P

theorem filter_split (P : Nat → Bool) (n i : Nat) (hi : i < n) :
    (List.range n).filter P = headStarts P i ++ tailStarts P n i := by
  rw [range_split n i hi, List.filter_append]; rfl

theorem headStarts_le (P : Nat → Bool) (i : Nat) : ∀ x ∈ headStarts P i, x ≤ i := by
  intro x hx
  simp only [headStarts, List.mem_filter, List.mem_range] at hx
  omega

theorem tailStarts_gt (P : Nat → Bool) (n i : Nat) : ∀ x ∈ tailStarts P n i, i < x ∧ x < n := by
  intro x hx
  simp only [tailStarts, List.mem_filter, List.mem_range'_1] at hx
  omega

theorem headStarts_succ (P : Nat → Bool) (i : Nat) :
    headStarts P (i + 1) = if P (i + 1) then headStarts P i ++ [i + 1] else headStarts P i := by
  simp only [headStarts]
  rw [List.range_succ, List.filter_append]
  by_cases h : P (i + 1) <;> simp [h]

theorem headStarts_zero (P : Nat → Bool) (hP0 : P 0 = true) : headStarts P 0 = [0] := by
  simp [headStarts, List.range_succ, hP0]

theorem headStarts_getLast (P : Nat → Bool) (hP0 : P 0 = true) : ∀ i,
    (headStarts P i).getLast? = some (segStartP P i)
  | 0 => by simp [headStarts_zero P hP0, segStartP]
  | i + 1 => by
    rw [headStarts_succ]
    by_cases h : P (i + 1)
    · simp [h, segStartP]
    · simp [h, segStartP, headStarts_getLast P hP0 i]

theorem headStarts_length (P : Nat → Bool) (hP0 : P 0 = true) : ∀ i,
    (headStarts P i).length = posP P i + 1
  | 0 => by simp [headStarts_zero P hP0, posP]
  | i + 1 => by
    rw [headStarts_succ]
    have ih := headStarts_length P hP0 i
    have : posP P (i + 1) = posP P i + (if P (i + 1) then 1 else 0) := by
      simp only [posP]
      have := @List.range'_append 1 i 1 1
      simp only [Nat.one_mul] at this
      rw [← this, List.countP_append]
      simp [List.range'_succ, List.countP_cons, Nat.add_comm]
    by_cases h : P (i + 1) <;> simp [h, this, ih]

theorem tailStarts_head (P : Nat → Bool) (n i : Nat) :
    (tailStarts P n i ++ [n]).head? = some (segEndP P n i) := by
  simp only [tailStarts, segEndP]
  cases h : (List.range' (i + 1) (n - (i + 1))).find? P with
  | none =>
    have : (List.range' (i + 1) (n - (i + 1))).filter P = [] := by
      rw [List.filter_eq_nil_iff]
      intro a ha
      exact List.find?_eq_none.1 h a ha
    simp [this]
  | some j =>
    have := @List.head?_filter _ P (List.range' (i + 1) (n - (i + 1)))
    rw [h] at this
    cases hf : (List.range' (i + 1) (n - (i + 1))).filter P with
    | nil => simp [hf] at this
    | cons y ys => simp [hf] at this; simp [this]

/-- `np.searchsorted(starts, i, side="right")` for a valid atom index: the number of starts `≤ i`. -/
theorem searchRight_filter (P : Nat → Bool) (n i : Nat) (hi : i < n) (extra : List Nat)
    (hextra : ∀ x ∈ extra, i < x) :
    searchRight ((List.range n).filter P ++ extra) i = (headStarts P i).length := by
  rw [filter_split P n i hi]
  simp only [searchRight, List.countP_append]
  have h1 : (headStarts P i).countP (· ≤ i) = (headStarts P i).length := by
    rw [List.countP_eq_length]; intro a ha; simpa using headStarts_le P i a ha
  have h2 : (tailStarts P n i).countP (· ≤ i) = 0 := by
    rw [List.countP_eq_zero]; intro a ha; have := tailStarts_gt P n i a ha; simp; omega
  have h3 : extra.countP (· ≤ i) = 0 := by
    rw [List.countP_eq_zero]; intro a ha; have := hextra a ha; simp; omega
  omega

/-! ### the per-atom walks -/

theorem segStartP_spec (P : Nat → Bool) (hP0 : P 0 = true) : ∀ i,
    P (segStartP P i) = true ∧ segStartP P i ≤ i ∧ ∀ j, segStartP P i < j → j ≤ i → P j = false
  | 0 => by simp [segStartP, hP0]; intro j h1 h2; omega
  | i + 1 => by
    have ih := segStartP_spec P hP0 i
    by_cases h : P (i + 1)
    · have e : segStartP P (i + 1) = i + 1 := by simp [segStartP, h]
      rw [e]; exact ⟨h, Nat.le_refl _, fun j h1 h2 => by omega⟩
    · have e : segStartP P (i + 1) = segStartP P i := by simp [segStartP, h]
      rw [e]
      refine ⟨ih.1, by omega, fun j h1 h2 => ?_⟩
      by_cases hj : j = i + 1
      · subst hj; simpa using h
      · exact ih.2.2 j h1 (by omega)

theorem segEndP_spec (P : Nat → Bool) (n i : Nat) (hi : i < n) :
    i < segEndP P n i ∧ segEndP P n i ≤ n ∧ (segEndP P n i < n → P (segEndP P n i) = true) ∧
    ∀ j, i < j → j < segEndP P n i → P j = false := by
  unfold segEndP
  cases h : (List.range' (i + 1) (n - (i + 1))).find? P with
  | none =>
    dsimp only
    refine ⟨hi, Nat.le_refl _, fun h' => absurd h' (Nat.lt_irrefl _), fun j h1 h2 => ?_⟩
    have := List.find?_eq_none.1 h j (by simp [List.mem_range'_1]; omega)
    simpa using this
  | some e =>
    dsimp only
    have hm := List.mem_of_find?_eq_some h
    have hp := List.find?_some h
    simp only [List.mem_range'_1] at hm
    refine ⟨by omega, by omega, fun _ => hp, fun j h1 h2 => ?_⟩
    rw [List.find?_eq_some_iff_append] at h
    obtain ⟨_, as, bs, heq, hno⟩ := h
    -- `j` is in the range, before `e`, so it is in `as`
    have hj : j ∈ List.range' (i + 1) (n - (i + 1)) := by simp [List.mem_range'_1]; omega
    rw [heq] at hj
    have hsorted : (as ++ e :: bs).Pairwise (· < ·) := by rw [← heq]; exact List.pairwise_lt_range'
    rw [List.pairwise_append] at hsorted
    simp only [List.mem_append, List.mem_cons] at hj
    rcases hj with hj | rfl | hj
    · simpa using hno j hj
    · omega
    · have := (List.pairwise_cons.1 hsorted.2.1).1 j hj; omega

/-- the end of a segment only depends on the segment, not on the atom inside it -/
theorem segEndP_unique (P : Nat → Bool) (n i e : Nat) (hi : i < n)
    (h1 : i < e) (h2 : e ≤ n) (h3 : e < n → P e = true) (h4 : ∀ j, i < j → j < e → P j = false) :
    segEndP P n i = e := by
  have s := segEndP_spec P n i hi
  rcases Nat.lt_trichotomy (segEndP P n i) e with h | h | h
  · have := h4 _ s.1 h; have := s.2.2.1 (by omega); simp_all
  · exact h
  · have := s.2.2.2 e h1 h; have := h3 (by omega); simp_all

theorem segEndP_segStartP (P : Nat → Bool) (hP0 : P 0 = true) (n i : Nat) (hi : i < n) :
    segEndP P n (segStartP P i) = segEndP P n i := by
  have s := segStartP_spec P hP0 i
  have e := segEndP_spec P n i hi
  refine segEndP_unique P n _ _ (by omega) (by omega) e.2.1 e.2.2.1 fun j h1 h2 => ?_
  by_cases hj : j ≤ i
  · exact s.2.2 j h1 hj
  · exact e.2.2.2 j (by omega) h2

theorem segStartP_unique (P : Nat → Bool) (hP0 : P 0 = true) (i s : Nat)
    (h1 : P s = true) (h2 : s ≤ i) (h3 : ∀ j, s < j → j ≤ i → P j = false) : segStartP P i = s := by
  have sp := segStartP_spec P hP0 i
  rcases Nat.lt_trichotomy (segStartP P i) s with h | h | h
  · have := sp.2.2 s h h2; simp_all
  · exact h
  · have := h3 _ h sp.2.1; simp_all

theorem inSeg_iff_sameSeg (P : Nat → Bool) (hP0 : P 0 = true) (n i k : Nat) (hi : i < n) (hk : k < n) :
    (segStartP P i ≤ k ∧ k < segEndP P n i) ↔ sameSegP P i k := by
  have s := segStartP_spec P hP0 i
  have e := segEndP_spec P n i hi
  unfold sameSegP
  constructor
  · rintro ⟨h1, h2⟩ j hj1 hj2
    by_cases hji : j ≤ i
    · exact s.2.2 j (by omega) hji
    · exact e.2.2.2 j (by omega) (by omega)
  · intro h
    constructor
    · rcases Nat.lt_or_ge k (segStartP P i) with hlt | hge
      · have := h (segStartP P i) (by omega) (by omega); simp_all
      · exact hge
    · rcases Nat.lt_or_ge k (segEndP P n i) with hlt | hge
      · exact hlt
      · have hen : segEndP P n i < n := by omega
        have := h (segEndP P n i) (by omega) (by omega)
        have := e.2.2.1 hen
        simp_all

/-! ### the index guard and `mapM` -/

theorem mapM_ok {α β : Type} (f : α → Except Err β) (g : α → β) : ∀ (l : List α),
    (∀ x ∈ l, f x = .ok (g x)) → l.mapM f = .ok (l.map g)
  | [], _ => rfl
  | x :: l, h => by
    rw [List.mapM_cons, h x (by simp), mapM_ok f g l (fun y hy => h y (by simp [hy]))]
    rfl

theorem checkIdx_ok (n : Nat) (idx : List Int) (h : ∀ i ∈ idx, 0 ≤ i ∧ i < (n : Int)) :
    checkIdx n idx = .ok (idx.map Int.toNat) := by
  unfold checkIdx
  have h1 : idx.any (· < 0) = false := by
    rw [List.any_eq_false]; intro x hx; have := h x hx; simp; omega
  have h2 : idx.any (· ≥ (n : Int)) = false := by
    rw [List.any_eq_false]; intro x hx; have := h x hx; simp; omega
  simp [h1, h2]

theorem checkIdx_err (n : Nat) (idx : List Int) (h : ∃ i ∈ idx, i < 0 ∨ (n : Int) ≤ i) :
    checkIdx n idx = .error .valueError := by
  unfold checkIdx
  obtain ⟨i, hi, hbad⟩ := h
  by_cases h1 : idx.any (· < 0) = true
  · simp [h1]
  · have : idx.any (· ≥ (n : Int)) = true := by
      rw [List.any_eq_true]
      refine ⟨i, hi, ?_⟩
      rcases hbad with hb | hb
      · exact absurd (List.any_eq_true.2 ⟨i, hi, by simpa using hb⟩) h1
      · simpa using hb
    simp [h1, this]

theorem getLast?_withStop (l : List Nat) (n : Nat) : (l ++ [n]).getLast? = some n :=
  List.getLast?_concat

/-! ### the index views on `starts = (range n).filter P ++ [n]` -/

theorem starts_getElem_head (P : Nat → Bool) (hP0 : P 0 = true) (n i : Nat) (hi : i < n) (extra : List Nat) :
    ((List.range n).filter P ++ extra)[(headStarts P i).length - 1]? = some (segStartP P i) := by
  have hl := headStarts_length P hP0 i
  rw [filter_split P n i hi, List.append_assoc, List.getElem?_append_left (by omega),
    ← List.getLast?_eq_getElem?, headStarts_getLast P hP0 i]

theorem starts_getElem_next (P : Nat → Bool) (n i : Nat) (hi : i < n) :
    ((List.range n).filter P ++ [n])[(headStarts P i).length]? = some (segEndP P n i) := by
  rw [filter_split P n i hi, List.append_assoc, List.getElem?_append_right (Nat.le_refl _),
    Nat.sub_self, ← List.head?_eq_getElem?, tailStarts_head]

theorem startFor_filter (P : Nat → Bool) (hP0 : P 0 = true) (n i : Nat) (hi : i < n) :
    startFor ((List.range n).filter P) i = .ok (segStartP P i) := by
  have hl := headStarts_length P hP0 i
  have hc : searchRight ((List.range n).filter P) i = (headStarts P i).length := by
    have := searchRight_filter P n i hi [] (by simp)
    simpa using this
  have hg := starts_getElem_head P hP0 n i hi []
  rw [List.append_nil] at hg
  unfold startFor
  simp only [hc]
  rw [if_neg (by omega), hg]

theorem maskRow_filter (P : Nat → Bool) (hP0 : P 0 = true) (n i : Nat) (hi : i < n) :
    maskRow ((List.range n).filter P ++ [n]) n i =
      .ok ((List.range n).map (fun k => decide (segStartP P i ≤ k ∧ k < segEndP P n i))) := by
  have hl := headStarts_length P hP0 i
  have hc := searchRight_filter P n i hi [n] (by simp; omega)
  unfold maskRow
  simp only [hc]
  rw [if_neg (by omega), starts_getElem_head P hP0 n i hi [n], starts_getElem_next P n i hi]

theorem position_filter (P : Nat → Bool) (hP0 : P 0 = true) (n i : Nat) (hi : i < n) :
    (searchRight ((List.range n).filter P) i : Int) - 1 = (posP P i : Int) := by
  have hl := headStarts_length P hP0 i
  have hc : searchRight ((List.range n).filter P) i = (headStarts P i).length := by
    have := searchRight_filter P n i hi [] (by simp)
    simpa using this
  rw [hc, hl]; omega

theorem toNat_lt {n : Nat} {i : Int} (h : 0 ≤ i ∧ i < (n : Int)) : i.toNat < n := by omega

theorem segStartsFor_filter (n : Nat) (P : Nat → Bool) (hP0 : P 0 = true) (idx : List Int)
    (h : ∀ i ∈ idx, 0 ≤ i ∧ i < (n : Int)) :
    segStartsFor ((List.range n).filter P ++ [n]) idx = .ok (idx.map (fun i => segStartP P i.toNat)) := by
  unfold segStartsFor
  rw [getLast?_withStop]
  simp only [checkIdx_ok n idx h, List.dropLast_concat]
  show List.mapM _ _ = _
  rw [mapM_ok _ (segStartP P)]
  · simp [List.map_map, Function.comp_def]
  · intro x hx
    simp only [List.mem_map] at hx
    obtain ⟨i, hi, rfl⟩ := hx
    exact startFor_filter P hP0 n _ (toNat_lt (h i hi))

theorem segPositions_filter (n : Nat) (P : Nat → Bool) (hP0 : P 0 = true) (idx : List Int)
    (h : ∀ i ∈ idx, 0 ≤ i ∧ i < (n : Int)) :
    segPositions ((List.range n).filter P ++ [n]) idx = .ok (idx.map (fun i => (posP P i.toNat : Int))) := by
  unfold segPositions
  rw [getLast?_withStop]
  simp only [checkIdx_ok n idx h, List.dropLast_concat]
  show Except.ok _ = _
  congr 1
  rw [List.map_map]
  apply List.map_congr_left
  intro i hi
  exact position_filter P hP0 n _ (toNat_lt (h i hi))

theorem segMasks_filter (n : Nat) (P : Nat → Bool) (hP0 : P 0 = true) (idx : List Int)
    (h : ∀ i ∈ idx, 0 ≤ i ∧ i < (n : Int)) :
    segMasks ((List.range n).filter P ++ [n]) idx =
      .ok (idx.map (fun i => (List.range n).map
        (fun k => decide (segStartP P i.toNat ≤ k ∧ k < segEndP P n i.toNat)))) := by
  unfold segMasks
  rw [getLast?_withStop]
  simp only [checkIdx_ok n idx h]
  show List.mapM _ _ = _
  rw [mapM_ok _ (fun i => (List.range n).map (fun k => decide (segStartP P i ≤ k ∧ k < segEndP P n i)))]
  · simp [List.map_map, Function.comp_def]
  · intro x hx
    simp only [List.mem_map] at hx
    obtain ⟨i, hi, rfl⟩ := hx
    exact maskRow_filter P hP0 n _ (toNat_lt (h i hi))

/-- the three index views reject any negative or out-of-range index (also for `n = 0`) -/
theorem seg_views_reject (n : Nat) (P : Nat → Bool) (idx : List Int) (h : ∃ i ∈ idx, i < 0 ∨ (n : Int) ≤ i) :
    segMasks ((List.range n).filter P ++ [n]) idx = .error .valueError ∧
    segStartsFor ((List.range n).filter P ++ [n]) idx = .error .valueError ∧
    segPositions ((List.range n).filter P ++ [n]) idx = .error .valueError := by
  unfold segMasks segStartsFor segPositions
  rw [getLast?_withStop]
  simp only [checkIdx_err n idx h]
  exact ⟨rfl, rfl, rfl⟩

/-! ### iteration: consecutive slices -/

theorem slice_append {α : Type} (data : List α) (a e m : Nat) (h1 : a ≤ e) (h2 : e ≤ m) :
    slice data a e ++ slice data e m = slice data a m := by
  simp only [slice]
  have : data.take e = (data.take m).take e := by rw [List.take_take]; congr 1; omega
  rw [this]
  generalize data.take m = d
  conv => rhs; rw [← List.take_append_drop e d]
  rw [List.drop_append]
  congr 1
  rw [List.length_take]
  by_cases h : e ≤ d.length
  · have : a - min e d.length = 0 := by omega
    rw [this]; rfl
  · have : d.drop e = [] := by rw [List.drop_eq_nil_iff]; omega
    rw [this]; simp

/-- the first segment start in `[a, a+m)`, else `a + m` -/
def firstFrom (P : Nat → Bool) (a m : Nat) : Nat :=
  match (List.range' a m).find? P with
  | some j => j
  | none => a + m

theorem firstFrom_zero (P : Nat → Bool) (a : Nat) : firstFrom P a 0 = a := by simp [firstFrom]

theorem firstFrom_succ (P : Nat → Bool) (a m : Nat) :
    firstFrom P a (m + 1) = if P a then a else firstFrom P (a + 1) m := by
  simp only [firstFrom, List.range'_succ, List.find?_cons]
  cases h : P a
  · simp only [Bool.false_eq_true, if_false]
    have : a + 1 + m = a + (m + 1) := by omega
    rw [this]
  · simp

theorem firstFrom_bounds (P : Nat → Bool) : ∀ (m a : Nat), a ≤ firstFrom P a m ∧ firstFrom P a m ≤ a + m
  | 0, a => by simp [firstFrom_zero]
  | m + 1, a => by
    rw [firstFrom_succ]
    have := firstFrom_bounds P m (a + 1)
    split <;> omega

theorem segEndP_eq_firstFrom (P : Nat → Bool) (a m : Nat) :
    segEndP P (a + (m + 1)) a = firstFrom P (a + 1) m := by
  unfold segEndP firstFrom
  have h1 : a + (m + 1) - (a + 1) = m := by omega
  have h2 : a + 1 + m = a + (m + 1) := by omega
  rw [h1, h2]
  cases List.find? P (List.range' (a + 1) m) <;> rfl

theorem filter_range'_succ (P : Nat → Bool) (a m : Nat) :
    (List.range' a (m + 1)).filter P =
      if P a then a :: (List.range' (a + 1) m).filter P else (List.range' (a + 1) m).filter P := by
  rw [List.range'_succ, List.filter_cons]

/-- `starts[1:]`: the entry after a start is the end of that start's segment. -/
theorem tail_withStop_range' (P : Nat → Bool) : ∀ (m a : Nat),
    ((List.range' a m).filter P ++ [a + m]).tail = ((List.range' a m).filter P).map (segEndP P (a + m))
  | 0, a => by simp
  | m + 1, a => by
    have ih := tail_withStop_range' P m (a + 1)
    have hn : a + 1 + m = a + (m + 1) := by omega
    rw [hn] at ih
    rw [filter_range'_succ]
    by_cases h : P a
    · simp only [h, if_true, List.cons_append, List.tail_cons, List.map_cons]
      have hh : ((List.range' (a + 1) m).filter P ++ [a + (m + 1)]).head? = some (segEndP P (a + (m + 1)) a) := by
        have := tailStarts_head P (a + (m + 1)) a
        unfold tailStarts at this
        have h1 : a + (m + 1) - (a + 1) = m := by omega
        rw [h1] at this
        exact this
      rw [← ih]
      cases hl : (List.range' (a + 1) m).filter P ++ [a + (m + 1)] with
      | nil => simp at hl
      | cons y ys => rw [hl] at hh; simp at hh; simp [hh]
    · simp only [h, Bool.false_eq_true, if_false]
      exact ih

theorem tail_withStop (P : Nat → Bool) (n : Nat) :
    ((List.range n).filter P ++ [n]).tail = ((List.range n).filter P).map (segEndP P n) := by
  have := tail_withStop_range' P n 0
  simpa [List.range_eq_range'] using this

theorem zipWith_append_left {α β γ : Type} (f : α → β → γ) : ∀ (l : List α) (l' : List β) (r : List α),
    l'.length = l.length → List.zipWith f (l ++ r) l' = List.zipWith f l l'
  | [], [], r, _ => by simp
  | [], _ :: _, _, h => by simp at h
  | _ :: _, [], _, h => by simp at h
  | x :: l, y :: l', r, h => by
    simp only [List.cons_append, List.zipWith_cons_cons]
    rw [zipWith_append_left f l l' r (by simpa using h)]

theorem zipWith_withStop {γ : Type} (P : Nat → Bool) (n : Nat) (g : Nat → Nat → γ) :
    List.zipWith g ((List.range n).filter P ++ [n]) ((List.range n).filter P ++ [n]).tail =
      ((List.range n).filter P).map (fun s => g s (segEndP P n s)) := by
  rw [tail_withStop, zipWith_append_left _ _ _ _ (by simp), List.zipWith_map_right, List.zipWith_self]

theorem segIter_filter {α : Type} (n : Nat) (P : Nat → Bool) (data : List α) :
    segIter ((List.range n).filter P ++ [n]) data =
      ((List.range n).filter P).map (fun s => slice data s (segEndP P n s)) := by
  unfold segIter; exact zipWith_withStop P n _

theorem flatten_range' {α : Type} (P : Nat → Bool) (data : List α) : ∀ (m a : Nat), data.length ≤ a + m →
    (((List.range' a m).filter P).map (fun s => slice data s (segEndP P (a + m) s))).flatten =
      slice data (firstFrom P a m) (a + m)
  | 0, a, hl => by
    simp [firstFrom_zero, slice]
  | m + 1, a, hl => by
    have hn : a + 1 + m = a + (m + 1) := by omega
    have ih := flatten_range' P data m (a + 1) (by omega)
    rw [hn] at ih
    rw [filter_range'_succ, firstFrom_succ]
    by_cases h : P a
    · simp only [h, if_true, List.map_cons, List.flatten_cons]
      rw [ih, segEndP_eq_firstFrom]
      have := firstFrom_bounds P m (a + 1)
      exact slice_append data a _ _ (by omega) (by omega)
    · simp only [h, Bool.false_eq_true, if_false]
      exact ih

theorem segIter_flatten {α : Type} (n : Nat) (P : Nat → Bool) (hP0 : P 0 = true) (data : List α)
    (hlen : data.length = n) :
    (segIter ((List.range n).filter P ++ [n]) data).flatten = data := by
  rw [segIter_filter]
  have := flatten_range' P data n 0 (by omega)
  simp only [Nat.zero_add, ← List.range_eq_range'] at this
  rw [this]
  cases n with
  | zero => simp [slice, firstFrom_zero]; exact List.length_eq_zero_iff.1 hlen
  | succ k =>
    rw [firstFrom_succ]; simp [hP0, slice, ← hlen]

theorem segIter_nonempty {α : Type} (n : Nat) (P : Nat → Bool) (data : List α) (hlen : data.length = n) :
    ∀ s ∈ segIter ((List.range n).filter P ++ [n]) data, s ≠ [] := by
  intro s hs
  rw [segIter_filter] at hs
  simp only [List.mem_map, List.mem_filter, List.mem_range] at hs
  obtain ⟨a, ⟨han, _⟩, rfl⟩ := hs
  have e := segEndP_spec P n a han
  intro h
  have : (slice data a (segEndP P n a)).length = 0 := by rw [h]; rfl
  simp [slice, List.length_drop, List.length_take] at this
  omega

/-! ### apply and spread -/

theorem slice_range (n s e : Nat) (h1 : s ≤ e) (h2 : e ≤ n) :
    slice (List.range n) s e = List.range' s (e - s) := by
  unfold slice
  rw [List.take_range, List.range_eq_range', List.drop_range']
  congr 1 <;> omega

theorem flatMap_congr' {α β : Type} (f g : α → List β) : ∀ (l : List α), (∀ x ∈ l, f x = g x) →
    l.flatMap f = l.flatMap g
  | [], _ => rfl
  | x :: l, h => by
    rw [List.flatMap_cons, List.flatMap_cons, h x (by simp), flatMap_congr' f g l (fun y hy => h y (by simp [hy]))]

/-- the atoms, grouped by segment -/
theorem range_eq_flatMap (n : Nat) (P : Nat → Bool) (hP0 : P 0 = true) :
    ((List.range n).filter P).flatMap (fun s => List.range' s (segEndP P n s - s)) = List.range n := by
  have h := segIter_flatten n P hP0 (List.range n) (by simp)
  rw [segIter_filter] at h
  rw [List.flatMap_def]
  conv => rhs; rw [← h]
  congr 1
  apply List.map_congr_left
  intro s hs
  simp only [List.mem_filter, List.mem_range] at hs
  have e := segEndP_spec P n s hs.1
  rw [slice_range n s _ (by omega) e.2.1]

theorem spread_form {β : Type} (n : Nat) (P : Nat → Bool) (v : Nat → β) :
    spreadSeg ((List.range n).filter P ++ [n]) (((List.range n).filter P).map v) =
      .ok (((List.range n).filter P).flatMap (fun s => List.replicate (segEndP P n s - s) (v s))) := by
  unfold spreadSeg
  rw [zipWith_withStop]
  generalize (List.range n).filter P = st
  match st with
  | [] => simp
  | [s] => simp
  | s :: t :: r =>
    simp only [List.map_cons, List.length_cons, List.length_map, if_true]
    rw [← List.map_cons, ← List.map_cons, ← List.map_cons (f := fun s => segEndP P n s - s),
      ← List.map_cons (f := fun s => segEndP P n s - s), List.zip_map', List.flatMap_map]

theorem spread_values {β : Type} (n : Nat) (P : Nat → Bool) (hP0 : P 0 = true) (v : Nat → β) :
    ((List.range n).filter P).flatMap (fun s => List.replicate (segEndP P n s - s) (v s)) =
      (List.range n).map (fun i => v (segStartP P i)) := by
  conv => rhs; rw [← range_eq_flatMap n P hP0, List.map_flatMap]
  apply flatMap_congr'
  intro s hs
  simp only [List.mem_filter, List.mem_range] at hs
  have e := segEndP_spec P n s hs.1
  symm
  have := @List.map_eq_replicate_iff _ _ (List.range' s (segEndP P n s - s)) (fun i => v (segStartP P i)) (v s)
  rw [List.length_range'] at this
  rw [this]
  intro i hi
  simp only [List.mem_range'_1] at hi
  rw [segStartP_unique P hP0 i s hs.2 (by omega) (fun j h1 h2 => e.2.2.2 j h1 (by omega))]

theorem applySeg_filter {α β : Type} (n : Nat) (P : Nat → Bool) (f : List α → β) (data : List α) :
    applySeg ((List.range n).filter P ++ [n]) f data =
      ((List.range n).filter P).map (fun s => f (slice data s (segEndP P n s))) := by
  unfold applySeg; rw [segIter_filter, List.map_map]; rfl

theorem spread_apply_filter {α β : Type} (n : Nat) (P : Nat → Bool) (hP0 : P 0 = true)
    (f : List α → β) (data : List α) :
    ∃ out, spreadSeg ((List.range n).filter P ++ [n]) (applySeg ((List.range n).filter P ++ [n]) f data) = .ok out ∧
      out.length = n ∧
      ∀ i, i < n → out[i]? = some (f (slice data (segStartP P i) (segEndP P n i))) := by
  rw [applySeg_filter, spread_form n P (fun s => f (slice data s (segEndP P n s))), spread_values n P hP0]
  refine ⟨_, rfl, by simp, fun i hi => ?_⟩
  simp [hi, segEndP_segStartP P hP0 n i hi]

/-- `spread`: atom `i` receives the value given for its segment. -/
theorem spread_filter {β : Type} (n : Nat) (P : Nat → Bool) (hP0 : P 0 = true) (v : Nat → β) :
    ∃ out, spreadSeg ((List.range n).filter P ++ [n]) (((List.range n).filter P).map v) = .ok out ∧
      out.length = n ∧ ∀ i, i < n → out[i]? = some (v (segStartP P i)) := by
  rw [spread_form, spread_values n P hP0]
  exact ⟨_, rfl, by simp, fun i hi => by simp [hi]⟩

/-! ### glue: the two segmentations of the code -/

theorem Kind.starts_eq (k : Kind) (xs : List Atom) (stop : Bool) :
    k.starts xs stop = startsOf xs.length (changeMask k.boundary xs) stop := by
  cases k
  · simp [Kind.starts, Kind.boundary, residueStarts, residueMask_eq]
  · simp [Kind.starts, Kind.boundary, chainStarts, chainMask_eq]

theorem Kind.starts_true (k : Kind) (xs : List Atom) :
    k.starts xs true = (List.range xs.length).filter (k.isStart xs) ++ [xs.length] := by
  rw [Kind.starts_eq, startsOf_stop, startsOf_eq_filter]

theorem Kind.isStart_zero (k : Kind) (xs : List Atom) (h : xs ≠ []) : k.isStart xs 0 = true :=
  C17.isStart_zero _ _ (List.length_pos_iff.2 h)

/-- a valid index exists only in a non-empty array -/
theorem ne_nil_of_valid {xs : List Atom} {idx : List Int}
    (h : ∀ i ∈ idx, 0 ≤ i ∧ i < (xs.length : Int)) (hne : idx ≠ []) : xs ≠ [] := by
  intro hx; subst hx
  cases idx with
  | nil => exact hne rfl
  | cons i _ => have := h i (by simp); simp at this; omega

/-- an in-place edit of atom `k` can change "starts a segment" only at atoms `k` and `k + 1` -/
theorem isStart_set_local {α : Type} (b : α → α → Bool) (xs : List α) (k : Nat) (a : α) (j : Nat)
    (h1 : j ≠ k) (h2 : j ≠ k + 1) : isStart b (xs.set k a) j = isStart b xs j := by
  unfold isStart
  rw [List.length_set]
  cases j with
  | zero => simp
  | succ i =>
    have : i ≠ k := by omega
    simp only [Nat.add_sub_cancel]
    rw [List.getElem?_set_ne (by omega), List.getElem?_set_ne (by omega)]

end BiotiteModel.C17

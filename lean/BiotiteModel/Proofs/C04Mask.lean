import BiotiteModel.Proofs.C04Read
/-! `array[..., mask]`: rows dropped by an altloc policy and the remapping of bond indices. -/
namespace BiotiteModel.C04

theorem applyMask_cons {α : Type} (m : Bool) (ms : List Bool) (x : α) (xs : List α) :
    applyMask (m :: ms) (x :: xs) = if m then x :: applyMask ms xs else applyMask ms xs := by
  cases m <;> simp [applyMask]

theorem newIndex_cons (m : Bool) (ms : List Bool) (i : Nat) :
    newIndex (m :: ms) (i + 1) = (if m then 1 else 0) + newIndex ms i := by
  cases m <;> simp [newIndex] <;> omega

/-- A kept atom sits at its new index. -/
theorem applyMask_newIndex {α : Type} : ∀ (mask : List Bool) (xs : List α) (i : Nat),
    mask.length = xs.length → mask[i]? = some true → (applyMask mask xs)[newIndex mask i]? = xs[i]? := by
  intro mask
  induction mask with
  | nil => intro xs i _ h; simp at h
  | cons m ms ih =>
    intro xs i hl hi
    cases xs with
    | nil => simp at hl
    | cons x xs =>
      cases i with
      | zero =>
        simp only [List.getElem?_cons_zero, Option.some.injEq] at hi
        subst hi
        simp [applyMask_cons, newIndex]
      | succ i =>
        simp only [List.getElem?_cons_succ] at hi
        have := ih xs i (by simpa using hl) hi
        rw [applyMask_cons, newIndex_cons]
        cases m
        · simpa using this
        · simp only [if_true, List.getElem?_cons_succ]
          rw [Nat.add_comm]; simpa using this

/-- The new index is strictly increasing on kept atoms: different kept atoms stay different. -/
theorem newIndex_lt : ∀ (mask : List Bool) (i j : Nat), i < j → mask[i]? = some true →
    newIndex mask i < newIndex mask j := by
  intro mask
  induction mask with
  | nil => intro i j _ h; simp at h
  | cons m ms ih =>
    intro i j hij hi
    cases j with
    | zero => omega
    | succ j =>
      cases i with
      | zero =>
        simp only [List.getElem?_cons_zero, Option.some.injEq] at hi
        subst hi
        rw [newIndex_cons]; simp [newIndex]; omega
      | succ i =>
        simp only [List.getElem?_cons_succ] at hi
        have := ih i j (by omega) hi
        rw [newIndex_cons, newIndex_cons]; omega

theorem mem_filterBondsByMask (mask : List Bool) (bs : List Bond) (y : Bond) :
    y ∈ filterBondsByMask mask bs ↔
      ∃ b ∈ bs, mask.getD b.i false = true ∧ mask.getD b.j false = true ∧
        y = ⟨newIndex mask b.i, newIndex mask b.j, b.t⟩ := by
  unfold filterBondsByMask
  simp only [List.mem_map, List.mem_filter, Bool.and_eq_true]
  constructor
  · rintro ⟨b, ⟨hb, h1, h2⟩, rfl⟩; exact ⟨b, hb, h1, h2, rfl⟩
  · rintro ⟨b, hb, h1, h2, rfl⟩; exact ⟨b, ⟨hb, h1, h2⟩, rfl⟩

theorem getD_true_iff (mask : List Bool) (i : Nat) : mask.getD i false = true ↔ mask[i]? = some true := by
  cases h : mask[i]? with
  | none => simp [List.getD, h]
  | some b => simp [List.getD, h]

end BiotiteModel.C04

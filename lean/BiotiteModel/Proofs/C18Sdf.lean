import BiotiteModel.Proofs.C18
/-! # C18 — helper lemmas for metadata keys -/
namespace BiotiteModel.C18

theorem digitsAcc_none (cs : Line) : digitsAcc none cs = none := by
  induction cs with
  | nil => rfl
  | cons c cs ih => simpa [digitsAcc] using ih

theorem digitsVal_nondigit (c : Char) (cs : Line) (h : digitVal? c = none) : digitsVal (c :: cs) = none := by
  simp only [digitsVal, List.isEmpty_cons, Bool.false_eq_true, if_false]
  have : digitsAcc (some 0) (c :: cs) = digitsAcc none cs := by simp [digitsAcc, h]
  rw [this, digitsAcc_none]

theorem wordOrDot_not_sp (c : Char) (h : (isWordC c || c == '.' || c == '-') = true) : isSp c = false := by
  cases hc : isSp c with
  | false => rfl
  | true =>
    have : c = ' ' := by simpa [isSp] using hc
    subst this
    exact absurd h (by decide)

theorem extOk_noSp (s : Line) (h : extOk s = true) : NoSp s := by
  intro c hc
  have := (List.all_eq_true.mp h) c hc
  exact wordOrDot_not_sp c this

theorem nameOk_noSp (s : Line) (h : nameOk s = true) : NoSp s := by
  cases s with
  | nil => simp [nameOk] at h
  | cons a t =>
    simp only [nameOk, Bool.and_eq_true] at h
    intro c hc
    rcases List.mem_cons.mp hc with rfl | hc
    · apply wordOrDot_not_sp; simp [isWordC, h.1]
    · have := (List.all_eq_true.mp h.2) c hc
      apply wordOrDot_not_sp
      simp only [Bool.or_eq_true] at this ⊢
      rcases this with h | h
      · exact Or.inl (Or.inl h)
      · exact Or.inl (Or.inr h)

theorem stripClose_snoc (c : Char) (s : Line) : stripClose c (s ++ [c]) = some s := by
  simp [stripClose]

theorem classify_number (n : Nat) : classify ('D' :: 'T' :: natRepr n) = some (.number n) := by
  simp [classify, digitsVal_natRepr]

theorem classify_name (s : Line) (h : nameOk s = true) : classify ('<' :: (s ++ ['>'])) = some (.name s) := by
  have hf : Option.filter nameOk (some s) = some s := by simp [Option.filter, h]
  simp [classify, stripClose_snoc, hf]

theorem natRepr_head (n : Nat) : ∃ c cs, natRepr n = c :: cs ∧ isDig c = true := by
  cases h : natRepr n with
  | nil => exact absurd h (natRepr_ne_nil n)
  | cons c cs => exact ⟨c, cs, rfl, natRepr_isDig n c (by rw [h]; simp)⟩

theorem classify_regInt (n : Nat) : classify (natRepr n) = some (.regInt n) := by
  obtain ⟨c, cs, h, hd⟩ := natRepr_head n
  have hD : c ≠ 'D' := by intro e; subst e; exact absurd hd (by decide)
  have hL : c ≠ '<' := by intro e; subst e; exact absurd hd (by decide)
  have hv := digitsVal_natRepr n
  rw [h] at hv ⊢
  unfold classify
  split
  · rename_i n' h1
    split at h1
    · rename_i ds heq; cases heq; exact absurd rfl hD
    · cases h1
  · split
    · rename_i s h2
      split at h2
      · rename_i r heq; cases heq; exact absurd rfl hL
      · cases h2
    · simp [hv]

theorem classify_regExt (s : Line) (h : extOk s = true) : classify ('(' :: (s ++ [')'])) = some (.regExt s) := by
  have hv : digitsVal ('(' :: (s ++ [')'])) = none := digitsVal_nondigit _ _ (by decide)
  have hf : Option.filter extOk (some s) = some s := by simp [Option.filter, h]
  simp [classify, stripClose_snoc, hf, hv]

theorem splitWs_tokens (ts : List Line) (h : ∀ t ∈ ts, NoSp t ∧ t ≠ []) :
    splitWs (ts.flatMap (· ++ [' '])) = ts := by
  induction ts with
  | nil => simp [splitWs_nil]
  | cons t ts ih =>
    have ht := h t (by simp)
    simp only [List.flatMap_cons, List.append_assoc, List.singleton_append]
    rw [splitWs_token_sp t ht.1 ht.2, ih (fun u hu => h u (by simp [hu]))]

/-! ## trailing blanks do not matter to `split()` -/

theorem splitAux_spaces (b : Nat) (cur : Line) : splitAux cur (List.replicate b ' ') = splitAux cur [] := by
  induction b generalizing cur with
  | zero => rfl
  | succ b ih =>
    simp only [List.replicate_succ, splitAux, isSp_space, if_true]
    cases hc : cur.isEmpty with
    | true =>
      have : cur = [] := by simpa using hc
      subst this
      simpa [splitAux] using ih []
    | false => simp [ih [], splitAux, hc]

theorem splitAux_trailing (s : Line) (b : Nat) (cur : Line) :
    splitAux cur (s ++ List.replicate b ' ') = splitAux cur s := by
  induction s generalizing cur with
  | nil => simpa using splitAux_spaces b cur
  | cons c s ih =>
    simp only [List.cons_append, splitAux]
    split
    · split <;> simp [ih]
    · exact ih _

theorem all_sp_replicate (l : Line) (h : ∀ c ∈ l, isSp c = true) : l = List.replicate l.length ' ' := by
  induction l with
  | nil => rfl
  | cons c l ih =>
    have hc : c = ' ' := by simpa [isSp] using h c (by simp)
    subst hc
    rw [List.length_cons, List.replicate_succ, ← ih (fun d hd => h d (by simp [hd]))]

theorem mem_takeWhile_sat (l : Line) (c : Char) (h : c ∈ l.takeWhile isSp) : isSp c = true := by
  induction l with
  | nil => simp at h
  | cons d l ih =>
    by_cases hd : isSp d = true
    · simp only [List.takeWhile_cons, hd, if_true] at h
      rcases List.mem_cons.mp h with rfl | h
      · exact hd
      · exact ih h
    · simp [List.takeWhile_cons, hd] at h

theorem stripR_decomp (s : Line) : ∃ b, s = stripR s ++ List.replicate b ' ' := by
  refine ⟨(s.reverse.takeWhile isSp).length, ?_⟩
  have h1 : s.reverse = s.reverse.takeWhile isSp ++ s.reverse.dropWhile isSp :=
    (List.takeWhile_append_dropWhile (p := isSp) (l := s.reverse)).symm
  have h2 : s.reverse.takeWhile isSp = List.replicate (s.reverse.takeWhile isSp).length ' ' :=
    all_sp_replicate _ (fun c hc => mem_takeWhile_sat _ c hc)
  have h3 : s = (s.reverse.dropWhile isSp).reverse ++ (s.reverse.takeWhile isSp).reverse := by
    have := congrArg List.reverse h1
    rw [List.reverse_reverse, List.reverse_append] at this
    exact this
  unfold stripR
  rw [h2, List.reverse_replicate] at h3
  simpa using h3

/-- `split()` of `line.strip()[1:]` and of `line[1:]` agree for a line that starts with a
non-blank. -/
theorem splitWs_strip_drop1 (l : Line) (hl : TightL l) (hne : l ≠ []) :
    splitWs ((strip l).drop 1) = splitWs (l.drop 1) := by
  unfold strip stripL
  rw [dropWhile_tightL hl]
  obtain ⟨b, hb⟩ := stripR_decomp l
  cases hs : stripR l with
  | nil =>
    exfalso
    rw [hs] at hb
    cases l with
    | nil => exact hne rfl
    | cons c t =>
      have h1 := hl c t rfl
      have : c ∈ List.replicate b ' ' := by
        have : c ∈ c :: t := by simp
        rw [hb] at this; simpa using this
      have : c = ' ' := (List.mem_replicate.mp this).2
      subst this
      exact absurd h1 (by decide)
  | cons c t =>
    rw [hs] at hb
    have : l.drop 1 = t ++ List.replicate b ' ' := by rw [hb]; simp
    rw [this]
    simp only [List.drop_succ_cons, List.drop_zero, splitWs]
    exact (splitAux_trailing t b []).symm

/-! ## the tokens of a key line -/

def optTok {α : Type} (f : α → Line) : Option α → List Line
  | some a => [f a]
  | none => []

def Key.tokens (k : Key) : List Line :=
  optTok (fun n => "DT".toList ++ natRepr n) k.number ++ optTok (fun s => '<' :: s ++ ['>']) k.name
    ++ optTok natRepr k.regInt ++ optTok (fun s => '(' :: s ++ [')']) k.regExt

theorem Key.serialize_eq (k : Key) : k.serialize = '>' :: ' ' :: k.tokens.flatMap (· ++ [' ']) := by
  obtain ⟨number, name, regInt, regExt⟩ := k
  cases number <;> cases name <;> cases regInt <;> cases regExt <;>
    simp [Key.serialize, Key.tokens, optTok, List.flatMap_cons]

theorem noSp_cons {c : Char} {s : Line} (hc : isSp c = false) (hs : NoSp s) : NoSp (c :: s) := by
  intro d hd
  rcases List.mem_cons.mp hd with rfl | hd
  · exact hc
  · exact hs d hd

theorem noSp_single {c : Char} (hc : isSp c = false) : NoSp [c] := noSp_cons hc (fun _ h => by simp at h)

theorem Key.tokens_ok (k : Key) (hn : ∀ s, k.name = some s → nameOk s = true)
    (he : ∀ s, k.regExt = some s → extOk s = true) : ∀ t ∈ k.tokens, NoSp t ∧ t ≠ [] := by
  obtain ⟨number, name, regInt, regExt⟩ := k
  intro t ht
  simp only [Key.tokens, List.mem_append] at ht
  rcases ht with ((ht | ht) | ht) | ht
  · cases number with
    | none => simp [optTok] at ht
    | some n =>
      simp [optTok] at ht; subst ht
      exact ⟨noSp_cons (by decide) (noSp_cons (by decide) (natRepr_noSp n)), by simp⟩
  · cases name with
    | none => simp [optTok] at ht
    | some s =>
      simp [optTok] at ht; subst ht
      exact ⟨noSp_cons (by decide) ((nameOk_noSp s (hn s rfl)).append (noSp_single (by decide))), by simp⟩
  · cases regInt with
    | none => simp [optTok] at ht
    | some n =>
      simp [optTok] at ht; subst ht
      exact ⟨natRepr_noSp n, natRepr_ne_nil n⟩
  · cases regExt with
    | none => simp [optTok] at ht
    | some s =>
      simp [optTok] at ht; subst ht
      exact ⟨noSp_cons (by decide) ((extOk_noSp s (he s rfl)).append (noSp_single (by decide))), by simp⟩

theorem addComps_tokens (number : Option Nat) (name : Option Line) (regInt : Option Nat) (regExt : Option Line)
    (hn : ∀ s, name = some s → nameOk s = true) (he : ∀ s, regExt = some s → extOk s = true) :
    addComps ⟨none, none, none, none⟩ (Key.tokens ⟨number, name, regInt, regExt⟩)
      = .ok ⟨number, name, regInt, regExt⟩ := by
  cases number <;> cases name <;> cases regInt <;> cases regExt <;>
    simp_all [Key.tokens, optTok, addComps, addComp, classify_number, classify_regInt, classify_name,
      classify_regExt, bind, Except.bind]

/-! ## key round trip -/

/-- The key grammar: a field number or a name is present, the name matches `[a-zA-Z0-9][\w.]*`,
the external registry part matches `[\w.-]*` (numbers are naturals by construction). -/
def ValidKey (k : Key) : Prop :=
  k.valid = true ∧ (∀ s, k.regExt = some s → extOk s = true)

instance (k : Key) : Decidable (ValidKey k) := by
  unfold ValidKey
  cases k.regExt with
  | none => exact decidable_of_iff (k.valid = true) (by simp)
  | some s => exact decidable_of_iff (k.valid = true ∧ extOk s = true) (by simp)

theorem ValidKey.name_ok {k : Key} (h : ValidKey k) : ∀ s, k.name = some s → nameOk s = true := by
  intro s hs
  have := h.1
  simp only [Key.valid, hs, Bool.and_eq_true] at this
  exact this.1.2

theorem key_roundtrip (k : Key) (hk : ValidKey k) :
    Key.deserialize k.serialize = .ok k ∧ Key.deserialize (strip k.serialize) = .ok k := by
  have hn := hk.name_ok
  have he := hk.2
  have hsplit : splitWs (k.serialize.drop 1) = k.tokens := by
    rw [Key.serialize_eq]
    simp only [List.drop_succ_cons, List.drop_zero]
    rw [splitWs_sp, splitWs_tokens _ (Key.tokens_ok k hn he)]
  have hadd : addComps ⟨none, none, none, none⟩ k.tokens = .ok k := by
    obtain ⟨number, name, regInt, regExt⟩ := k
    exact addComps_tokens number name regInt regExt hn he
  have hfin : (k.number.isNone && k.name.isNone) = false := by
    have := hk.1
    obtain ⟨number, name, regInt, regExt⟩ := k
    cases number <;> cases name <;> simp_all [Key.valid]
  have main : Key.deserialize k.serialize = .ok k := by
    unfold Key.deserialize
    rw [hsplit, hadd]
    simp [bind, Except.bind, hfin]
  refine ⟨main, ?_⟩
  have htl : TightL k.serialize := by
    rw [Key.serialize_eq]; intro c t h; cases h; decide
  have hne : k.serialize ≠ [] := by rw [Key.serialize_eq]; simp
  unfold Key.deserialize
  rw [splitWs_strip_drop1 _ htl hne, hsplit, hadd]
  simp [bind, Except.bind, hfin]


/-! ## insertion-ordered dicts -/

theorem dictSet_fresh {κ ν : Type} [DecidableEq κ] (k : κ) (v : ν) (d : List (κ × ν))
    (h : k ∉ d.map (·.1)) : dictSet k v d = d ++ [(k, v)] := by
  induction d with
  | nil => rfl
  | cons p d ih =>
    obtain ⟨k', v'⟩ := p
    simp only [List.map_cons, List.mem_cons, not_or] at h
    have hk : ¬ k' = k := fun e => h.1 e.symm
    simp [dictSet, hk, ih h.2]

theorem foldl_dictSet_fresh {κ ν : Type} [DecidableEq κ] (l acc : List (κ × ν))
    (h : ((acc ++ l).map (·.1)).Nodup) :
    l.foldl (fun d r => dictSet r.1 r.2 d) acc = acc ++ l := by
  induction l generalizing acc with
  | nil => simp
  | cons r l ih =>
    have hfresh : r.1 ∉ acc.map (·.1) := by
      rw [List.map_append, List.nodup_append] at h
      intro hm
      exact h.2.2 _ hm _ (by simp) rfl
    simp only [List.foldl_cons]
    rw [dictSet_fresh r.1 r.2 acc hfresh]
    have : (acc ++ [(r.1, r.2)]) ++ l = acc ++ r :: l := by simp
    rw [ih (acc ++ [(r.1, r.2)]) (by rw [this]; exact h), this]

/-! ## records -/

/-- `lines[start].strip()` of a record chunk (an empty chunk is named by the delimiter line). -/
def recName : List Line → Line
  | [] => strip delim
  | f :: _ => strip f

theorem splitLoop_record (r : List Line) (hr : ∀ l ∈ r, startsWith delim l = false) (cur rest : List Line) :
    splitLoop cur (r ++ delim :: rest) = (recName (cur.reverse ++ r), cur.reverse ++ r) :: splitLoop [] rest := by
  induction r generalizing cur with
  | nil =>
    have hd : startsWith delim delim = true := by decide
    simp only [List.nil_append, splitLoop, hd, if_true, List.append_nil]
    cases cur.reverse <;> rfl
  | cons l r ih =>
    have hl := hr l (by simp)
    simp only [List.cons_append, splitLoop, hl, Bool.false_eq_true, if_false]
    rw [ih (fun x hx => hr x (by simp [hx]))]
    simp

theorem splitLoop_join (recs : List (List Line)) (h : ∀ r ∈ recs, ∀ l ∈ r, startsWith delim l = false) :
    splitLoop [] (joinRecords recs) = recs.map fun r => (recName r, r) := by
  induction recs with
  | nil => rfl
  | cons r rs ih =>
    have : joinRecords (r :: rs) = r ++ delim :: joinRecords rs := by simp [joinRecords]
    rw [this, splitLoop_record r (h r (by simp)), ih (fun x hx => h x (by simp [hx]))]
    simp

/-! ## metadata -/

/-- A value line survives `strip()`, is not skipped and is not taken for a key. -/
def ValueLineOk (l : Line) : Prop := l ≠ [] ∧ TightL l ∧ TightR l ∧ startsWith ['>'] l = false

theorem mdLoop_values (k : Key) (ls : List Line) (hl : ∀ l ∈ ls, ValueLineOk l) (acc : Metadata)
    (vr : List Line) (rest : List Line) :
    mdLoop acc (some (k, some vr)) (ls ++ rest) = mdLoop acc (some (k, some (ls.reverse ++ vr))) rest := by
  induction ls generalizing vr with
  | nil => rfl
  | cons l ls ih =>
    obtain ⟨hne, htl, htr, hgt⟩ := hl l (by simp)
    have hs : strip l = l := strip_tight l htl htr
    have he : l.isEmpty = false := by cases l with | nil => exact absurd rfl hne | cons _ _ => rfl
    simp only [List.cons_append, mdLoop, hs, he, hgt, Bool.false_eq_true, if_false]
    rw [ih (fun x hx => hl x (by simp [hx]))]
    simp

theorem strip_head (c : Char) (t : Line) (hc : isSp c = false) : ∃ t', strip (c :: t) = c :: t' := by
  have htl : TightL (c :: t) := by intro d u h; cases h; exact hc
  unfold strip stripL
  rw [dropWhile_tightL htl]
  obtain ⟨b, hb⟩ := stripR_decomp (c :: t)
  cases hs : stripR (c :: t) with
  | nil =>
    exfalso
    rw [hs] at hb
    have : c ∈ List.replicate b ' ' := by
      have h0 : c ∈ c :: t := by simp
      rw [hb] at h0; simpa using h0
    have : c = ' ' := (List.mem_replicate.mp this).2
    subst this
    exact absurd hc (by decide)
  | cons d u =>
    rw [hs] at hb
    have : c = d := by
      have := congrArg List.head? hb
      simpa using this
    subst this
    exact ⟨u, rfl⟩

def pend : Option (Key × List Line) → Option (Key × Option (List Line))
  | none => none
  | some (k, v) => some (k, some v.reverse)

def MdOk (md : Metadata) : Prop := ∀ kv ∈ md, ValidKey kv.1 ∧ kv.2 ≠ [] ∧ ∀ l ∈ kv.2, ValueLineOk l

theorem flush_pend (acc : Metadata) (p : Option (Key × List Line))
    (h : ((acc ++ p.toList).map (·.1)).Nodup) : flush acc (pend p) = .ok (acc ++ p.toList) := by
  cases p with
  | none => simp [pend, flush]
  | some kv =>
    obtain ⟨k, v⟩ := kv
    have hf : k ∉ acc.map (·.1) := by
      simp only [Option.toList, List.map_append, List.nodup_append] at h
      intro hm
      exact h.2.2 _ hm _ (by simp) rfl
    simp [pend, flush, dictSet_fresh k v acc hf]

theorem mdLoop_entries (md : Metadata) (hmd : MdOk md) (acc : Metadata) (p : Option (Key × List Line))
    (hnd : ((acc ++ p.toList ++ md).map (·.1)).Nodup) :
    mdLoop acc (pend p) (Metadata.serialize md) = .ok (acc ++ p.toList ++ md) := by
  induction md generalizing acc p with
  | nil =>
    have : Metadata.serialize [] = [] := rfl
    rw [this]
    simp only [mdLoop, List.append_nil] at hnd ⊢
    exact flush_pend acc p hnd
  | cons kv md ih =>
    obtain ⟨hk, hvne, hvl⟩ := hmd kv (by simp)
    have hser : Metadata.serialize (kv :: md) = kv.1.serialize :: (kv.2 ++ [] :: Metadata.serialize md) := by
      simp [Metadata.serialize]
    rw [hser]
    -- the key line
    obtain ⟨t', ht'⟩ : ∃ t', strip kv.1.serialize = '>' :: t' := by
      rw [Key.serialize_eq]; exact strip_head '>' _ (by decide)
    have hkey : Key.deserialize ('>' :: t') = .ok kv.1 := by rw [← ht']; exact (key_roundtrip kv.1 hk).2
    have hnd1 : ((acc ++ p.toList).map (·.1)).Nodup := by
      rw [List.map_append] at hnd
      exact (List.nodup_append.mp hnd).1
    have hst : startsWith ['>'] ('>' :: t') = true := by simp [startsWith]
    simp only [mdLoop, ht', List.isEmpty_cons, Bool.false_eq_true, if_false, hst, if_true,
      flush_pend acc p hnd1, hkey, bind, Except.bind]
    -- the value lines
    cases hv : kv.2 with
    | nil => exact absurd hv hvne
    | cons l1 ls1 =>
      rw [hv] at hvl
      obtain ⟨hne, htl, htr, hgt⟩ := hvl l1 (by simp)
      have hs : strip l1 = l1 := strip_tight l1 htl htr
      have he : l1.isEmpty = false := by cases l1 with | nil => exact absurd rfl hne | cons _ _ => rfl
      simp only [List.cons_append, mdLoop, hs, he, hgt, Bool.false_eq_true, if_false]
      rw [mdLoop_values kv.1 ls1 (fun x hx => hvl x (by simp [hx]))]
      -- the blank line after the value
      have hblank : strip ([] : Line) = [] := by decide
      simp only [mdLoop, hblank, List.isEmpty_nil, if_true]
      have hp : pend (some kv) = some (kv.1, some (ls1.reverse ++ [l1])) := by
        obtain ⟨k, v⟩ := kv
        simp only at hv
        subst hv
        simp [pend]
      rw [← hp]
      have hassoc : acc ++ p.toList ++ (some kv).toList ++ md = acc ++ p.toList ++ kv :: md := by simp
      rw [ih (fun x hx => hmd x (by simp [hx])) (acc ++ p.toList) (some kv) (by rw [hassoc]; exact hnd), hassoc]

end BiotiteModel.C18

import BiotiteModel.Proofs.C18
/-! # C18 — helper lemmas for metadata keys -/
namespace BiotiteModel.C18

theorem digitsAcc_none (cs : Line) : digitsAcc none cs = none := by
  induction cs with
  | nil => rfl
  | cons c cs ih => simpa [digitsAcc] using ih

theorem digitsVal_nondigit (c : Char) (cs : Line) (h : digitVal? c = none) : digitsVal (c :: cs) = none := by
  simp only [digitsVal, List.isEmpty_cons, Bool.false_eq_true, if_false]
  have : digitsAcc (some 0) (c :: cs) = digitsAcc none cs := by simp [digitsAcc, h]
  rw [this, digitsAcc_none]

theorem wordOrDot_not_sp (c : Char) (h : (isWordC c || c == '.' || c == '-') = true) : isSp c = false := by
  cases hc : isSp c with
  | false => rfl
  | true =>
    have : c = ' ' := by simpa [isSp] using hc
    subst this
    exact absurd h (by decide)

theorem extOk_noSp (s : Line) (h : extOk s = true) : NoSp s := by
  intro c hc
  have := (List.all_eq_true.mp h) c hc
  exact wordOrDot_not_sp c this

theorem nameOk_noSp (s : Line) (h : nameOk s = true) : NoSp s := by
  cases s with
  | nil => simp [nameOk] at h
  | cons a t =>
    simp only [nameOk, Bool.and_eq_true] at h
    intro c hc
    rcases List.mem_cons.mp hc with rfl | hc
    · apply wordOrDot_not_sp; simp [isWordC, h.1]
    · have := (List.all_eq_true.mp h.2) c hc
      apply wordOrDot_not_sp
      simp only [Bool.or_eq_true] at this ⊢
      rcases this with h | h
      · exact Or.inl (Or.inl h)
      · exact Or.inl (Or.inr h)

theorem stripClose_snoc (c : Char) (s : Line) : stripClose c (s ++ [c]) = some s := by
  simp [stripClose]

theorem classify_number (n : Nat) : classify ("DT".toList ++ natRepr n) = some (.number n) := by
  show classify ('D' :: 'T' :: natRepr n) = _
  simp [classify, digitsVal_natRepr]

theorem classify_name (s : Line) (h : nameOk s = true) : classify ('<' :: s ++ ['>']) = some (.name s) := by
  have hf : Option.filter nameOk (some s) = some s := by simp [Option.filter, h]
  simp [classify, stripClose_snoc, hf]

theorem natRepr_head (n : Nat) : ∃ c cs, natRepr n = c :: cs ∧ isDig c = true := by
  cases h : natRepr n with
  | nil => exact absurd h (natRepr_ne_nil n)
  | cons c cs => exact ⟨c, cs, rfl, natRepr_isDig n c (by rw [h]; simp)⟩

theorem classify_regInt (n : Nat) : classify (natRepr n) = some (.regInt n) := by
  obtain ⟨c, cs, h, hd⟩ := natRepr_head n
  have hD : c ≠ 'D' := by intro e; subst e; exact absurd hd (by decide)
  have hL : c ≠ '<' := by intro e; subst e; exact absurd hd (by decide)
  have hv := digitsVal_natRepr n
  rw [h] at hv ⊢
  unfold classify
  split
  · rename_i n' h1
    split at h1
    · rename_i ds heq; cases heq; exact absurd rfl hD
    · cases h1
  · split
    · rename_i s h2
      split at h2
      · rename_i r heq; cases heq; exact absurd rfl hL
      · cases h2
    · simp [hv]

theorem classify_regExt (s : Line) (h : extOk s = true) : classify ('(' :: s ++ [')']) = some (.regExt s) := by
  have hv : digitsVal ('(' :: (s ++ [')'])) = none := digitsVal_nondigit _ _ (by decide)
  have hf : Option.filter extOk (some s) = some s := by simp [Option.filter, h]
  simp [classify, stripClose_snoc, hf, hv]

theorem splitWs_tokens (ts : List Line) (h : ∀ t ∈ ts, NoSp t ∧ t ≠ []) :
    splitWs (ts.flatMap (· ++ [' '])) = ts := by
  induction ts with
  | nil => simp [splitWs_nil]
  | cons t ts ih =>
    have ht := h t (by simp)
    simp only [List.flatMap_cons, List.append_assoc, List.singleton_append]
    rw [splitWs_token_sp t ht.1 ht.2, ih (fun u hu => h u (by simp [hu]))]

end BiotiteModel.C18

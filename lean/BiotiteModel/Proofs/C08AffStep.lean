import BiotiteModel.Proofs.C08Aff
/-! Step / cell lemmas of the affine three-state recurrence `affRec`. -/
namespace BiotiteModel.C08

def stateVal (c : AffCell) : Kind → Option Int
  | .none => c.m
  | .m => c.m
  | .ga => c.g1
  | .gb => c.g2

theorem omax_some_left {x : Option Int} {v : Int} (y : Option Int) (h : x = some v) :
    ∃ w, omax x y = some w ∧ v ≤ w := by
  subst h; cases y with
  | none => exact ⟨v, rfl, Int.le_refl _⟩
  | some y => exact ⟨max v y, rfl, by omega⟩

theorem omax_some_right {y : Option Int} {v : Int} (x : Option Int) (h : y = some v) :
    ∃ w, omax x y = some w ∧ v ≤ w := by
  subst h; cases x with
  | none => exact ⟨v, rfl, Int.le_refl _⟩
  | some x => exact ⟨max x v, rfl, by omega⟩

theorem omax_cases {x y : Option Int} {w : Int} (h : omax x y = some w) : x = some w ∨ y = some w := by
  cases x with
  | none => right; simpa [omax] using h
  | some x =>
    cases y with
    | none => left; simpa [omax] using h
    | some y =>
      simp only [omax, Option.some.injEq] at h
      have : max x y = x ∨ max x y = y := by omega
      rcases this with h2 | h2
      · left; rw [← h, h2]
      · right; rw [← h, h2]

theorem oadd_eq_some {x : Option Int} {s w : Int} (h : oadd x s = some w) : ∃ v, x = some v ∧ w = v + s := by
  cases x with
  | none => simp [oadd] at h
  | some v => exact ⟨v, rfl, by simpa [oadd] using h.symm⟩

theorem mS_ge (d : AffCell) (s : Int) (k : Kind) (v : Int) (h : stateVal d k = some v) :
    ∃ w, omax (oadd d.m s) (omax (oadd d.g1 s) (oadd d.g2 s)) = some w ∧ v + s ≤ w := by
  cases k with
  | none => exact omax_some_left _ (by simp [stateVal] at h; simp [h, oadd])
  | m => exact omax_some_left _ (by simp [stateVal] at h; simp [h, oadd])
  | ga =>
    obtain ⟨w1, h1, h2⟩ := omax_some_left (oadd d.g2 s) (x := oadd d.g1 s) (v := v + s)
      (by simp [stateVal] at h; simp [h, oadd])
    obtain ⟨w2, h3, h4⟩ := omax_some_right (oadd d.m s) h1
    exact ⟨w2, h3, by omega⟩
  | gb =>
    obtain ⟨w1, h1, h2⟩ := omax_some_right (oadd d.g1 s) (y := oadd d.g2 s) (v := v + s)
      (by simp [stateVal] at h; simp [h, oadd])
    obtain ⟨w2, h3, h4⟩ := omax_some_right (oadd d.m s) h1
    exact ⟨w2, h3, by omega⟩

theorem mS_cases (d : AffCell) (s w : Int)
    (h : omax (oadd d.m s) (omax (oadd d.g1 s) (oadd d.g2 s)) = some w) :
    ∃ k v, (k = .m ∨ k = .ga ∨ k = .gb) ∧ stateVal d k = some v ∧ w = v + s := by
  rcases omax_cases h with h | h
  · obtain ⟨v, hv, hw⟩ := oadd_eq_some h; exact ⟨.m, v, by simp, hv, hw⟩
  · rcases omax_cases h with h | h
    · obtain ⟨v, hv, hw⟩ := oadd_eq_some h; exact ⟨.ga, v, by simp, hv, hw⟩
    · obtain ⟨v, hv, hw⟩ := oadd_eq_some h; exact ⟨.gb, v, by simp, hv, hw⟩

/-- gap state from the neighbour `l`: from its match state (cost `cx`) or its own gap state (cost `cy`) -/
theorem gS_ge_m {xm xg : Option Int} (cx cy v : Int) (h : xm = some v) :
    ∃ w, omax (oadd xm cx) (oadd xg cy) = some w ∧ v + cx ≤ w :=
  omax_some_left _ (by simp [h, oadd])

theorem gS_ge_g {xm xg : Option Int} (cx cy v : Int) (h : xg = some v) :
    ∃ w, omax (oadd xm cx) (oadd xg cy) = some w ∧ v + cy ≤ w :=
  omax_some_right _ (by simp [h, oadd])

theorem gS_cases {xm xg : Option Int} {cx cy w : Int} (h : omax (oadd xm cx) (oadd xg cy) = some w) :
    (∃ v, xm = some v ∧ w = v + cx) ∨ (∃ v, xg = some v ∧ w = v + cy) := by
  rcases omax_cases h with h | h
  · left; exact oadd_eq_some h
  · right; exact oadd_eq_some h

/-! cell and border equations of `affRec` -/

theorem aff_border00 (mode : Mode) (M : Mat) (go ge : Int) (a b : Seq) :
    (affRec mode M go ge a b).val 0 0 = ⟨some 0, none, none⟩ := rfl

def affLead (mode : Mode) (go ge : Int) (k : Nat) : Int :=
  match mode with
  | .global => go + gapRun ge (k - 1)
  | _ => 0

theorem aff_border0 (mode : Mode) (M : Mat) (go ge : Int) (a b : Seq) (j : Nat) :
    (affRec mode M go ge a b).val 0 (j + 1) = ⟨none, some (affLead mode go ge (j + 1)), none⟩ := by
  cases mode <;> rfl

theorem aff_border1 (mode : Mode) (M : Mat) (go ge : Int) (a b : Seq) (i : Nat) :
    (affRec mode M go ge a b).val (i + 1) 0 = ⟨none, none, some (affLead mode go ge (i + 1))⟩ := by
  cases mode <;> rfl

theorem aff_cell_global (M : Mat) (go ge : Int) (a b : Seq) (i j : Nat) (d l t : AffCell) :
    (affRec .global M go ge a b).cell i j d l t =
      ⟨omax (oadd d.m (sub M a b i j)) (omax (oadd d.g1 (sub M a b i j)) (oadd d.g2 (sub M a b i j))),
       omax (oadd l.m go) (oadd l.g1 ge), omax (oadd t.m go) (oadd t.g2 ge)⟩ := rfl

theorem aff_cell_semi (M : Mat) (go ge : Int) (a b : Seq) (i j : Nat) (d l t : AffCell) :
    (affRec .semi M go ge a b).cell i j d l t =
      ⟨omax (oadd d.m (sub M a b i j)) (omax (oadd d.g1 (sub M a b i j)) (oadd d.g2 (sub M a b i j))),
       omax (oadd l.m (if i + 1 = a.length then 0 else go)) (oadd l.g1 (if i + 1 = a.length then 0 else ge)),
       omax (oadd t.m (if j + 1 = b.length then 0 else go)) (oadd t.g2 (if j + 1 = b.length then 0 else ge))⟩ := by
  simp only [affRec]
  by_cases h1 : i + 1 = a.length <;> by_cases h2 : j + 1 = b.length <;> simp [h1, h2]

theorem aff_cell_local (M : Mat) (go ge : Int) (a b : Seq) (i j : Nat) (d l t : AffCell) :
    (affRec .local M go ge a b).cell i j d l t =
      ⟨if opos (omax (oadd d.m (sub M a b i j)) (omax (oadd d.g1 (sub M a b i j)) (oadd d.g2 (sub M a b i j))))
         then omax (oadd d.m (sub M a b i j)) (omax (oadd d.g1 (sub M a b i j)) (oadd d.g2 (sub M a b i j)))
         else some 0,
       if opos (omax (oadd l.m go) (oadd l.g1 ge)) then omax (oadd l.m go) (oadd l.g1 ge) else none,
       if opos (omax (oadd t.m go) (oadd t.g2 ge)) then omax (oadd t.m go) (oadd t.g2 ge) else none⟩ := rfl

/-! ## Step lemmas -/


def InvS (R : Rec AffCell) (p : Nat × Nat) (k : Kind) (s : Int) : Prop :=
  ∃ w, stateVal (R.val p.1 p.2) k = some w ∧ s ≤ w

theorem step_aff_global (M : Mat) (go ge : Int) (a b : Seq) (p : Nat × Nat) (k : Kind) (c : Col) (s : Int)
    (h : stepPos p c = some (adv p c)) (hal : allowedK k c = true)
    (hi : InvS (affRec .global M go ge a b) p k s) :
    InvS (affRec .global M go ge a b) (adv p c) c.kind (s + costAffK .global M go ge a b p k c) := by
  obtain ⟨i, j⟩ := p
  obtain ⟨v, hv, hs⟩ := hi
  simp only at hv
  cases c with
  | both i' j' =>
    simp only [stepPos] at h
    split at h
    · rename_i hh; obtain ⟨rfl, rfl⟩ := hh
      obtain ⟨w, hw, hle⟩ := mS_ge _ (sub M a b i' j') k v hv
      refine ⟨w, ?_, ?_⟩
      · simp only [adv, Rec.val_succ_succ, aff_cell_global, Col.kind, stateVal]; exact hw
      · simp only [costAffK]; omega
    · simp at h
  | gapA j' =>
    simp only [adv, Col.kind]
    cases i with
    | zero =>
      cases j with
      | zero =>
        rw [aff_border00] at hv
        cases k <;> simp [stateVal, allowedK] at hv hal
        all_goals
          subst hv
          exact ⟨go + gapRun ge 0, by simp [aff_border0, stateVal, affLead], by simp [costAffK, gapRun]; omega⟩
      | succ j =>
        rw [aff_border0] at hv
        cases k <;> simp [stateVal, allowedK] at hv hal
        subst hv
        have e : affLead Mode.global go ge (j + 1) = go + gapRun ge j := rfl
        rw [e] at hs
        exact ⟨go + gapRun ge (j + 1), by simp [aff_border0, stateVal, affLead],
          by simp [costAffK, gapRun]; omega⟩
    | succ i =>
      cases k with
      | gb => simp [allowedK] at hal
      | ga =>
        obtain ⟨w, hw, hle⟩ := gS_ge_g (xm := ((affRec .global M go ge a b).val (i + 1) j).m) go ge v hv
        exact ⟨w, by simp only [Rec.val_succ_succ, aff_cell_global, stateVal]; exact hw,
          by simp [costAffK]; omega⟩
      | m =>
        obtain ⟨w, hw, hle⟩ := gS_ge_m (xg := ((affRec .global M go ge a b).val (i + 1) j).g1) go ge v hv
        exact ⟨w, by simp only [Rec.val_succ_succ, aff_cell_global, stateVal]; exact hw,
          by simp [costAffK]; omega⟩
      | none =>
        obtain ⟨w, hw, hle⟩ := gS_ge_m (xg := ((affRec .global M go ge a b).val (i + 1) j).g1) go ge v hv
        exact ⟨w, by simp only [Rec.val_succ_succ, aff_cell_global, stateVal]; exact hw,
          by simp [costAffK]; omega⟩
  | gapB i' =>
    simp only [adv, Col.kind]
    cases j with
    | zero =>
      cases i with
      | zero =>
        rw [aff_border00] at hv
        cases k <;> simp [stateVal, allowedK] at hv hal
        all_goals
          subst hv
          exact ⟨go + gapRun ge 0, by simp [aff_border1, stateVal, affLead], by simp [costAffK, gapRun]; omega⟩
      | succ i =>
        rw [aff_border1] at hv
        cases k <;> simp [stateVal, allowedK] at hv hal
        subst hv
        have e : affLead Mode.global go ge (i + 1) = go + gapRun ge i := rfl
        rw [e] at hs
        exact ⟨go + gapRun ge (i + 1), by simp [aff_border1, stateVal, affLead],
          by simp [costAffK, gapRun]; omega⟩
    | succ j =>
      cases k with
      | ga => simp [allowedK] at hal
      | gb =>
        obtain ⟨w, hw, hle⟩ := gS_ge_g (xm := ((affRec .global M go ge a b).val i (j + 1)).m) go ge v hv
        exact ⟨w, by simp only [Rec.val_succ_succ, aff_cell_global, stateVal]; exact hw,
          by simp [costAffK]; omega⟩
      | m =>
        obtain ⟨w, hw, hle⟩ := gS_ge_m (xg := ((affRec .global M go ge a b).val i (j + 1)).g2) go ge v hv
        exact ⟨w, by simp only [Rec.val_succ_succ, aff_cell_global, stateVal]; exact hw,
          by simp [costAffK]; omega⟩
      | none =>
        obtain ⟨w, hw, hle⟩ := gS_ge_m (xg := ((affRec .global M go ge a b).val i (j + 1)).g2) go ge v hv
        exact ⟨w, by simp only [Rec.val_succ_succ, aff_cell_global, stateVal]; exact hw,
          by simp [costAffK]; omega⟩




theorem step_aff_semi (M : Mat) (go ge : Int) (a b : Seq) (p : Nat × Nat) (k : Kind) (c : Col) (s : Int)
    (h : stepPos p c = some (adv p c)) (hal : allowedK k c = true)
    (hi : InvS (affRec .semi M go ge a b) p k s) :
    InvS (affRec .semi M go ge a b) (adv p c) c.kind (s + costAffK .semi M go ge a b p k c) := by
  obtain ⟨i, j⟩ := p
  obtain ⟨v, hv, hs⟩ := hi
  simp only at hv
  cases c with
  | both i' j' =>
    simp only [stepPos] at h
    split at h
    · rename_i hh; obtain ⟨rfl, rfl⟩ := hh
      obtain ⟨w, hw, hle⟩ := mS_ge _ (sub M a b i' j') k v hv
      refine ⟨w, ?_, ?_⟩
      · simp only [adv, Rec.val_succ_succ, aff_cell_semi, Col.kind, stateVal]; exact hw
      · simp only [costAffK]; omega
    · simp at h
  | gapA j' =>
    simp only [adv, Col.kind]
    cases i with
    | zero =>
      cases j with
      | zero =>
        rw [aff_border00] at hv
        cases k <;> simp [stateVal, allowedK] at hv hal
        all_goals
          subst hv
          exact ⟨0, by simp [aff_border0, stateVal, affLead], by simp [costAffK]; omega⟩
      | succ j =>
        rw [aff_border0] at hv
        cases k <;> simp [stateVal, allowedK] at hv hal
        subst hv
        have e : affLead Mode.semi go ge (j + 1) = 0 := rfl
        rw [e] at hs
        exact ⟨0, by simp [aff_border0, stateVal, affLead], by simp [costAffK]; omega⟩
    | succ i =>
      cases k with
      | gb => simp [allowedK] at hal
      | ga =>
        obtain ⟨w, hw, hle⟩ := gS_ge_g (xm := ((affRec .semi M go ge a b).val (i + 1) j).m)
          (if i + 1 = a.length then 0 else go) (if i + 1 = a.length then 0 else ge) v hv
        exact ⟨w, by simp only [Rec.val_succ_succ, aff_cell_semi, stateVal]; exact hw,
          by by_cases hf : i + 1 = a.length <;> simp [costAffK, hf] at hle ⊢ <;> omega⟩
      | m =>
        obtain ⟨w, hw, hle⟩ := gS_ge_m (xg := ((affRec .semi M go ge a b).val (i + 1) j).g1)
          (if i + 1 = a.length then 0 else go) (if i + 1 = a.length then 0 else ge) v hv
        exact ⟨w, by simp only [Rec.val_succ_succ, aff_cell_semi, stateVal]; exact hw,
          by by_cases hf : i + 1 = a.length <;> simp [costAffK, hf] at hle ⊢ <;> omega⟩
      | none =>
        obtain ⟨w, hw, hle⟩ := gS_ge_m (xg := ((affRec .semi M go ge a b).val (i + 1) j).g1)
          (if i + 1 = a.length then 0 else go) (if i + 1 = a.length then 0 else ge) v hv
        exact ⟨w, by simp only [Rec.val_succ_succ, aff_cell_semi, stateVal]; exact hw,
          by by_cases hf : i + 1 = a.length <;> simp [costAffK, hf] at hle ⊢ <;> omega⟩
  | gapB i' =>
    simp only [adv, Col.kind]
    cases j with
    | zero =>
      cases i with
      | zero =>
        rw [aff_border00] at hv
        cases k <;> simp [stateVal, allowedK] at hv hal
        all_goals
          subst hv
          exact ⟨0, by simp [aff_border1, stateVal, affLead], by simp [costAffK]; omega⟩
      | succ i =>
        rw [aff_border1] at hv
        cases k <;> simp [stateVal, allowedK] at hv hal
        subst hv
        have e : affLead Mode.semi go ge (i + 1) = 0 := rfl
        rw [e] at hs
        exact ⟨0, by simp [aff_border1, stateVal, affLead], by simp [costAffK]; omega⟩
    | succ j =>
      cases k with
      | ga => simp [allowedK] at hal
      | gb =>
        obtain ⟨w, hw, hle⟩ := gS_ge_g (xm := ((affRec .semi M go ge a b).val i (j + 1)).m)
          (if j + 1 = b.length then 0 else go) (if j + 1 = b.length then 0 else ge) v hv
        exact ⟨w, by simp only [Rec.val_succ_succ, aff_cell_semi, stateVal]; exact hw,
          by by_cases hf : j + 1 = b.length <;> simp [costAffK, hf] at hle ⊢ <;> omega⟩
      | m =>
        obtain ⟨w, hw, hle⟩ := gS_ge_m (xg := ((affRec .semi M go ge a b).val i (j + 1)).g2)
          (if j + 1 = b.length then 0 else go) (if j + 1 = b.length then 0 else ge) v hv
        exact ⟨w, by simp only [Rec.val_succ_succ, aff_cell_semi, stateVal]; exact hw,
          by by_cases hf : j + 1 = b.length <;> simp [costAffK, hf] at hle ⊢ <;> omega⟩
      | none =>
        obtain ⟨w, hw, hle⟩ := gS_ge_m (xg := ((affRec .semi M go ge a b).val i (j + 1)).g2)
          (if j + 1 = b.length then 0 else go) (if j + 1 = b.length then 0 else ge) v hv
        exact ⟨w, by simp only [Rec.val_succ_succ, aff_cell_semi, stateVal]; exact hw,
          by by_cases hf : j + 1 = b.length <;> simp [costAffK, hf] at hle ⊢ <;> omega⟩



def invO (o : Option Int) (s : Int) : Prop :=
  match o with
  | some w => s ≤ w
  | none => s ≤ 0

def InvL (R : Rec AffCell) (p : Nat × Nat) (k : Kind) (s : Int) : Prop :=
  invO (stateVal (R.val p.1 p.2) k) s

theorem opos_some {x : Option Int} (h : opos x = true) : ∃ w, x = some w ∧ 0 < w := by
  cases x with
  | none => simp [opos] at h
  | some w => exact ⟨w, rfl, by simpa [opos] using h⟩

theorem invO_gap_ge {x : Option Int} {w s : Int} (hx : x = some w) (h : s ≤ w) :
    invO (if opos x then x else none) s := by
  subst hx
  by_cases hp : 0 < w
  · simp [opos, hp, invO, h]
  · simp [opos, hp, invO]; omega

theorem invO_gap_neg (x : Option Int) {s : Int} (h : s ≤ 0) : invO (if opos x then x else none) s := by
  cases x with
  | none => simp [opos, invO, h]
  | some w =>
    by_cases hp : 0 < w
    · simp [opos, hp, invO]; omega
    · simp [opos, hp, invO, h]

theorem invO_m_ge {x : Option Int} {w s : Int} (hx : x = some w) (h : s ≤ w) :
    invO (if opos x then x else some 0) s := by
  subst hx
  by_cases hp : 0 < w
  · simp [opos, hp, invO, h]
  · simp [opos, hp, invO]; omega

/-- every cell of the local tables has a state with a non-negative value -/
theorem aff_local_has (M : Mat) (go ge : Int) (a b : Seq) (i j : Nat) :
    ∃ k v, stateVal ((affRec .local M go ge a b).val i j) k = some v ∧ 0 ≤ v := by
  cases i with
  | zero =>
    cases j with
    | zero => exact ⟨.m, 0, by simp [aff_border00, stateVal], Int.le_refl _⟩
    | succ j => exact ⟨.ga, 0, by simp [aff_border0, stateVal, affLead], Int.le_refl _⟩
  | succ i =>
    cases j with
    | zero => exact ⟨.gb, 0, by simp [aff_border1, stateVal, affLead], Int.le_refl _⟩
    | succ j =>
      rw [Rec.val_succ_succ, aff_cell_local]
      generalize omax _ _ = x
      by_cases hp : opos x = true
      · obtain ⟨w, hw, hpos⟩ := opos_some hp
        exact ⟨.m, w, by subst hw; simp [stateVal, hp], by omega⟩
      · exact ⟨.m, 0, by simp [stateVal, hp], Int.le_refl _⟩

/-- all real values in the local tables are non-negative -/
theorem aff_local_nonneg (M : Mat) (go ge : Int) (a b : Seq) (i j : Nat) (k : Kind) (v : Int)
    (h : stateVal ((affRec .local M go ge a b).val i j) k = some v) : 0 ≤ v := by
  cases i with
  | zero =>
    cases j with
    | zero => rw [aff_border00] at h; cases k <;> simp [stateVal] at h <;> omega
    | succ j => rw [aff_border0] at h; cases k <;> simp [stateVal, affLead] at h <;> omega
  | succ i =>
    cases j with
    | zero => rw [aff_border1] at h; cases k <;> simp [stateVal, affLead] at h <;> omega
    | succ j =>
      rw [Rec.val_succ_succ, aff_cell_local] at h
      cases k <;> simp only [stateVal] at h
      all_goals
        split at h
        · rename_i hp
          obtain ⟨w, hw, hpos⟩ := opos_some hp
          rw [hw] at h; simp at h; omega
        · simp at h <;> omega

/-- on the border of the local tables every real value is 0 -/
theorem aff_local_border_zero (M : Mat) (go ge : Int) (a b : Seq) (i j : Nat) (hb : i = 0 ∨ j = 0) (k : Kind)
    (v : Int) (h : stateVal ((affRec .local M go ge a b).val i j) k = some v) : v = 0 := by
  cases i with
  | zero =>
    cases j with
    | zero => rw [aff_border00] at h; cases k <;> simp [stateVal] at h <;> omega
    | succ j => rw [aff_border0] at h; cases k <;> simp [stateVal, affLead] at h <;> omega
  | succ i =>
    cases j with
    | zero => rw [aff_border1] at h; cases k <;> simp [stateVal, affLead] at h <;> omega
    | succ j => omega

theorem step_aff_local (M : Mat) (go ge : Int) (hgo : go ≤ 0) (hge : ge ≤ 0) (a b : Seq) (p : Nat × Nat)
    (k : Kind) (c : Col) (s : Int)
    (h : stepPos p c = some (adv p c)) (hal : allowedK k c = true)
    (hi : InvL (affRec .local M go ge a b) p k s) :
    InvL (affRec .local M go ge a b) (adv p c) c.kind (s + costAffK .local M go ge a b p k c) := by
  obtain ⟨i, j⟩ := p
  unfold InvL at hi ⊢
  simp only at hi
  cases c with
  | both i' j' =>
    simp only [stepPos] at h
    split at h
    · rename_i hh; obtain ⟨rfl, rfl⟩ := hh
      -- some state of the source cell has a value ≥ s
      have hsrc : ∃ k' v', stateVal ((affRec .local M go ge a b).val i' j') k' = some v' ∧ s ≤ v' := by
        cases hv : stateVal ((affRec .local M go ge a b).val i' j') k with
        | some v => rw [hv] at hi; exact ⟨k, v, hv, hi⟩
        | none =>
          rw [hv] at hi
          obtain ⟨k', v', h1, h2⟩ := aff_local_has M go ge a b i' j'
          exact ⟨k', v', h1, by simp [invO] at hi; omega⟩
      obtain ⟨k', v', hv', hs'⟩ := hsrc
      obtain ⟨w, hw, hle⟩ := mS_ge _ (sub M a b i' j') k' v' hv'
      simp only [adv, Rec.val_succ_succ, aff_cell_local, Col.kind, stateVal, costAffK]
      exact invO_m_ge hw (by omega)
    · simp at h
  | gapA j' =>
    simp only [adv, Col.kind]
    have hcost : costAffK .local M go ge a b (i, j) k (.gapA j') ≤ 0 := by
      simp [costAffK]; split <;> omega
    cases i with
    | zero =>
      have : stateVal ((affRec .local M go ge a b).val 0 (j + 1)) .ga = some 0 := by
        simp [aff_border0, stateVal, affLead]
      rw [this]
      cases hv : stateVal ((affRec .local M go ge a b).val 0 j) k with
      | some v =>
        rw [hv] at hi
        have := aff_local_border_zero M go ge a b 0 j (Or.inl rfl) k v hv
        simp [invO] at hi ⊢; omega
      | none => rw [hv] at hi; simp [invO] at hi ⊢; omega
    | succ i =>
      simp only [Rec.val_succ_succ, aff_cell_local, stateVal]
      cases hv : stateVal ((affRec .local M go ge a b).val (i + 1) j) k with
      | none => rw [hv] at hi; exact invO_gap_neg _ (by simp [invO] at hi; omega)
      | some v =>
        rw [hv] at hi
        simp only [invO] at hi
        cases k with
        | gb => simp [allowedK] at hal
        | ga =>
          obtain ⟨w, hw, hle⟩ := gS_ge_g (xm := ((affRec .local M go ge a b).val (i + 1) j).m) go ge v hv
          exact invO_gap_ge hw (by simp [costAffK]; omega)
        | m =>
          obtain ⟨w, hw, hle⟩ := gS_ge_m (xg := ((affRec .local M go ge a b).val (i + 1) j).g1) go ge v hv
          exact invO_gap_ge hw (by simp [costAffK]; omega)
        | none =>
          obtain ⟨w, hw, hle⟩ := gS_ge_m (xg := ((affRec .local M go ge a b).val (i + 1) j).g1) go ge v hv
          exact invO_gap_ge hw (by simp [costAffK]; omega)
  | gapB i' =>
    simp only [adv, Col.kind]
    have hcost : costAffK .local M go ge a b (i, j) k (.gapB i') ≤ 0 := by
      simp [costAffK]; split <;> omega
    cases j with
    | zero =>
      have : stateVal ((affRec .local M go ge a b).val (i + 1) 0) .gb = some 0 := by
        simp [aff_border1, stateVal, affLead]
      rw [this]
      cases hv : stateVal ((affRec .local M go ge a b).val i 0) k with
      | some v =>
        rw [hv] at hi
        have := aff_local_border_zero M go ge a b i 0 (Or.inr rfl) k v hv
        simp [invO] at hi ⊢; omega
      | none => rw [hv] at hi; simp [invO] at hi ⊢; omega
    | succ j =>
      simp only [Rec.val_succ_succ, aff_cell_local, stateVal]
      cases hv : stateVal ((affRec .local M go ge a b).val i (j + 1)) k with
      | none => rw [hv] at hi; exact invO_gap_neg _ (by simp [invO] at hi; omega)
      | some v =>
        rw [hv] at hi
        simp only [invO] at hi
        cases k with
        | ga => simp [allowedK] at hal
        | gb =>
          obtain ⟨w, hw, hle⟩ := gS_ge_g (xm := ((affRec .local M go ge a b).val i (j + 1)).m) go ge v hv
          exact invO_gap_ge hw (by simp [costAffK]; omega)
        | m =>
          obtain ⟨w, hw, hle⟩ := gS_ge_m (xg := ((affRec .local M go ge a b).val i (j + 1)).g2) go ge v hv
          exact invO_gap_ge hw (by simp [costAffK]; omega)
        | none =>
          obtain ⟨w, hw, hle⟩ := gS_ge_m (xg := ((affRec .local M go ge a b).val i (j + 1)).g2) go ge v hv
          exact invO_gap_ge hw (by simp [costAffK]; omega)


end BiotiteModel.C08

import BiotiteModel.Model.C05Ser
import Batteries.Data.Char.AsciiCasing
namespace BiotiteModel.C05
open Char

theorem lower_fix {c : Char} (h : (c.isLower || c.isDigit) = true) : c.toLower = c ∧ c.isUpper = false := by
  have hu : ¬ c.isUpper := by
    rcases Bool.or_eq_true _ _ |>.mp h with h | h
    · exact Char.not_isUpper_of_isLower h
    · intro hup
      simp only [Char.isDigit, Char.isUpper, Bool.and_eq_true, decide_eq_true_eq] at h hup
      have := h.2; have := hup.1
      have h1 : c.val.toNat ≤ 57 := by simpa using UInt32.le_iff_toNat_le.mp h.2
      have h2 : 65 ≤ c.val.toNat := by simpa using UInt32.le_iff_toNat_le.mp hup.1
      omega
  exact ⟨Char.toLower_eq_of_not_isUpper hu, by simpa using hu⟩

theorem camelTail_word (w rest : List Char) (h : wordOk w = true) :
    camelTail (w.map Char.toLower ++ rest) = w ++ camelTail rest := by
  induction w with
  | nil => rfl
  | cons c cs ih =>
    simp only [wordOk, List.all_cons, Bool.and_eq_true] at h
    have ⟨h1, h2⟩ := lower_fix h.1
    simp only [List.map_cons, List.cons_append, camelTail, h1, h2, Bool.false_eq_true, if_false]
    rw [ih (by simpa [wordOk] using h.2)]

theorem map_lower_word (w : List Char) (h : wordOk w = true) : w.map Char.toLower = w := by
  induction w with
  | nil => rfl
  | cons c cs ih =>
    simp only [wordOk, List.all_cons, Bool.and_eq_true] at h
    simp only [List.map_cons, (lower_fix h.1).1, ih (by simpa [wordOk] using h.2)]

/-- Every later word contributes `_word` to the snake name. -/
theorem camelTail_later (ws : List (List Char)) (h : ws.all laterWordOk = true) :
    camelTail (ws.flatMap capWord) = ws.flatMap (fun w => '_' :: w) := by
  induction ws with
  | nil => rfl
  | cons w ws ih =>
    simp only [List.all_cons, Bool.and_eq_true] at h
    obtain ⟨hw, hws⟩ := h
    match w, hw with
    | c :: cs, hw =>
      simp only [laterWordOk, Bool.and_eq_true] at hw
      have hup : c.toUpper.isUpper = true := by
        rw [Char.isUpper_toUpper_eq_isAlpha]; simp [Char.isAlpha, hw.1]
      have hlow : c.toUpper.toLower = c := by
        rw [Char.toLower_toUpper_eq_toLower]; exact (lower_fix (by simp [hw.1])).1
      simp only [List.flatMap_cons, capWord, List.cons_append, camelTail, hup, if_true, hlow]
      have := camelTail_word cs (rest := List.flatMap capWord ws) hw.2
      rw [map_lower_word cs hw.2] at this ⊢
      rw [this, ih hws]

theorem joinUnderscore_cons (w : List Char) (ws : List (List Char)) :
    joinUnderscore (w :: ws) = w ++ ws.flatMap (fun w => '_' :: w) := by
  induction ws generalizing w with
  | nil => simp [joinUnderscore]
  | cons v vs ih => simp [joinUnderscore, ih v]

/-- The two name maps are mutually inverse on every well-formed snake-case name. -/
theorem camel_snake_words (ws : List (List Char)) (h : wordsOk ws = true) :
    ∃ r, snakeToCamelW ws = some r ∧ camelToSnake r = joinUnderscore ws := by
  match ws, h with
  | w :: rest, h =>
    simp only [wordsOk, Bool.and_eq_true, Bool.not_eq_true'] at h
    obtain ⟨⟨hne, hw⟩, hrest⟩ := h
    match w, hne, hw with
    | c :: cs, _, hw =>
      simp only [wordOk, List.all_cons, Bool.and_eq_true] at hw
      have hc := lower_fix hw.1
      refine ⟨c.toUpper.toLower :: (cs.map Char.toLower ++ rest.flatMap capWord), ?_, ?_⟩
      · simp [snakeToCamelW, capWord]
      · simp only [camelToSnake, Char.toLower_toUpper_eq_toLower, Char.toLower_toLower_eq_toLower]
        rw [camelTail_word cs _ (by simpa [wordOk] using hw.2), camelTail_later rest hrest, joinUnderscore_cons, hc.1]
        simp

end BiotiteModel.C05

namespace BiotiteModel.C05

theorem mapM_camel {V} (params : List (String × V))
    (hn : ∀ p ∈ params, (camelS p.1).map snakeS = some p.1) :
    ∃ ps, params.mapM (fun p => (camelS p.1).map fun k => (k, p.2)) = some ps ∧
      ps.map (fun p => (snakeS p.1, p.2)) = params := by
  induction params with
  | nil => exact ⟨[], rfl, rfl⟩
  | cons p ps ih =>
    obtain ⟨qs, hq1, hq2⟩ := ih (fun q hq => hn q (List.mem_cons_of_mem _ hq))
    have hp := hn p List.mem_cons_self
    cases hc : camelS p.1 with
    | none => simp [hc] at hp
    | some k =>
      simp only [hc, Option.map_some, Option.some.injEq] at hp
      refine ⟨(k, p.2) :: qs, ?_, ?_⟩
      · simp [List.mapM_cons, hc, hq1]
      · simp [hq2, hp]

/-- What was serialised deserialises to the same class with the same parameters under the same names, as soon as the two
tables are inverse at this class and the name maps are inverse on its parameter names. -/
theorem ser_deser {V} (kinds classes : List (String × String)) (cls k : String) (params : List (String × V))
    (hk : kinds.lookup cls = some k) (hc : classes.lookup k = some cls)
    (hn : ∀ p ∈ params, (camelS p.1).map snakeS = some p.1) :
    (serializeEnc kinds cls params).bind (deserializeEnc classes) = some (cls, params) := by
  obtain ⟨ps, h1, h2⟩ := mapM_camel params hn
  simp [serializeEnc, deserializeEnc, hk, h1, hc, h2]

end BiotiteModel.C05

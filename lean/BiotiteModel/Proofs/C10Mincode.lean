import BiotiteModel.Proofs.C10Minimizer
import BiotiteModel.Proofs.C10
/-! Helper lemmas for `C10_mincode`: permutations as functions, min-code selection for any permutation. -/
namespace BiotiteModel.C10

theorem mapMExcept_congr {α β : Type} (f g : α → Except Err β) (l : List α) (h : ∀ x ∈ l, f x = g x) :
    mapMExcept f l = mapMExcept g l := by
  induction l with
  | nil => rfl
  | cons x xs ih =>
    simp only [mapMExcept, h x (by simp), ih (fun y hy => h y (by simp [hy]))]

/-- `permute` applies the permutation function element-wise -/
theorem perm_apply_eq (p : Perm) (kmers : List Nat) : p.apply kmers = mapMExcept p.fn kmers := by
  cases p with
  | ident =>
    simp only [Perm.apply]
    exact (mapMExcept_ok _ _ _ (fun x _ => rfl)).symm
  | random =>
    simp only [Perm.apply]
    exact (mapMExcept_ok _ _ _ (fun x _ => rfl)).symm
  | freq counts => simp only [Perm.apply]; exact mapMExcept_congr _ _ _ (fun x _ => rfl)
  | table vals => simp only [Perm.apply]; exact mapMExcept_congr _ _ _ (fun x _ => rfl)

theorem mapMExcept_getElem {α β : Type} (f : α → Except Err β) :
    ∀ (l : List α) (r : List β), mapMExcept f l = .ok r →
      ∀ (i : Nat) (x : α), l[i]? = some x → ∃ y, f x = .ok y ∧ r[i]? = some y := by
  intro l
  induction l with
  | nil => intro r _ i x hx; simp at hx
  | cons a as ih =>
    intro r h i x hx
    simp only [mapMExcept] at h
    split at h
    · cases h
    · rename_i y hy
      split at h
      · cases h
      · rename_i ys hys
        cases h
        cases i with
        | zero =>
          simp only [List.getElem?_cons_zero, Option.some.injEq] at hx
          subst hx
          exact ⟨y, hy, by simp⟩
        | succ i =>
          simp only [List.getElem?_cons_succ] at hx
          obtain ⟨y', h1, h2⟩ := ih ys hys i x hx
          exact ⟨y', h1, by simpa using h2⟩

/-- `RandomPermutation` stays inside the int64 range its `min`/`max` announce -/
theorem lcg_range (q : Nat) : -(2 : Int) ^ 63 ≤ lcg q ∧ lcg q < (2 : Int) ^ 63 := by
  unfold lcg
  have h := Nat.mod_lt (0xd1342543de82ef95 * q + 1) (show 0 < 2 ^ 64 by decide)
  simp only []
  split <;> omega

theorem mincodeSelect_spec (a : KAlph) (c : Nat) (hc : 1 ≤ c) (p : Perm) (kmers : List Nat) (ord : List Int)
    (hp : p.apply kmers = .ok ord) :
    ∃ l, mincodeSelect a c p kmers = .ok l ∧
      ∀ i q, (i, q) ∈ l ↔ kmers[i]? = some q ∧
        ∃ v, p.fn q = .ok v ∧ (v - p.offset) * (c : Int) < p.range a.size := by
  unfold mincodeSelect
  have hc' : ¬ c < 1 := by omega
  simp only [hc', if_false, hp]
  refine ⟨_, rfl, ?_⟩
  intro i q
  rw [perm_apply_eq] at hp
  have hlen := mapMExcept_length _ _ _ hp
  simp only [List.mem_filterMap]
  constructor
  · rintro ⟨⟨⟨i', q'⟩, v⟩, hm, hsel⟩
    rw [mem_zipIdx_zip] at hm
    obtain ⟨hk, hv⟩ := hm
    obtain ⟨y, hy1, hy2⟩ := mapMExcept_getElem _ _ _ hp i' q' hk
    rw [hv] at hy2
    simp only [Option.some.injEq] at hy2
    subst hy2
    split at hsel
    · rename_i hlt
      simp only [Option.some.injEq, Prod.mk.injEq] at hsel
      obtain ⟨rfl, rfl⟩ := hsel
      exact ⟨hk, v, hy1, hlt⟩
    · simp at hsel
  · rintro ⟨hk, v, hv, hlt⟩
    obtain ⟨y, hy1, hy2⟩ := mapMExcept_getElem _ _ _ hp i q hk
    rw [hv] at hy1
    simp only [Except.ok.injEq] at hy1
    subst hy1
    refine ⟨((i, q), v), (mem_zipIdx_zip _ _ _ _ _).2 ⟨hk, hy2⟩, ?_⟩
    simp [hlt]

end BiotiteModel.C10

import BiotiteModel.Model.C09
import BiotiteModel.Proofs.C09
import BiotiteModel.Props.C08
/-! Affine penalties for C09: the affine semi-global score is at most the linear one with the milder penalty. -/
namespace BiotiteModel.C09
open BiotiteModel BiotiteModel.C08

theorem costAffK_le_lin (M : Mat) (go ge : Int) (a b : Seq) (p : Nat × Nat) (k k' : Kind) (c : Col) :
    costAffK .semi M go ge a b p k c ≤ costAffK .semi M (max go ge) (max go ge) a b p k' c := by
  obtain ⟨i, j⟩ := p
  cases c <;> simp only [costAffK] <;> repeat' split
  all_goals omega

theorem scorePosK_aff_le_lin (M : Mat) (go ge : Int) (a b : Seq) (aln : Aln) : ∀ (p : Nat × Nat) (k k' : Kind),
    scorePosK (costAffK .semi M go ge a b) p k aln
      ≤ scorePosK (costAffK .semi M (max go ge) (max go ge) a b) p k' aln := by
  induction aln with
  | nil => intro p k k'; simp [scorePosK]
  | cons c r ih =>
    intro p k k'
    simp only [scorePosK]
    have h1 := costAffK_le_lin M go ge a b p k k' c
    have h2 := ih (adv p c) c.kind c.kind
    omega

/-- every end-to-end alignment (abutting gaps allowed): the affine public score with free terminal gaps is at most
the semi-global optimum for the LINEAR penalty `max go ge` -/
theorem aff_semi_le_lin_opt (M : Mat) (go ge : Int) (a b : Seq) (aln : Aln) (h : ValidGlobal a b aln) :
    score .semi (.aff go ge) M a b aln ≤ optSemi M (max go ge) a b := by
  rw [C08_scorePub_semi_aff M go ge a b aln h]
  have h1 := scorePosK_aff_le_lin M go ge a b aln (0, 0) .m .m
  have h2 := scoreSemiPos_eq_aff M (max go ge) a b aln (0, 0) .m
  have h3 := C08_upper_semi M (max go ge) a b aln h
  unfold scoreAffSemiPos at *
  omega

end BiotiteModel.C09

import BiotiteModel.Proofs.C18Header
/-! # C18 — record- and file-level lemmas -/
namespace BiotiteModel.C18

/-! ## first characters of CTAB lines -/

def NumHead (l : Line) : Prop := ∃ c t, l = c :: t ∧ (c = ' ' ∨ c = '-' ∨ isDig c = true)

theorem padL_head (w : Nat) (s rest : Line) (hs : NumHead s) : NumHead (padL w s ++ rest) := by
  obtain ⟨c, t, rfl, hc⟩ := hs
  unfold padL
  cases w - (c :: t).length with
  | zero => exact ⟨c, t ++ rest, by simp, hc⟩
  | succ k => exact ⟨' ', List.replicate k ' ' ++ (c :: t) ++ rest, by simp [List.replicate_succ], Or.inl rfl⟩

theorem natRepr_numHead (n : Nat) : NumHead (natRepr n) := by
  obtain ⟨c, cs, h, hd⟩ := natRepr_head n
  exact ⟨c, cs, h, Or.inr (Or.inr hd)⟩

theorem fmt4_numHead (q : Q) : NumHead (fmt4 q) := by
  unfold fmt4
  cases q.neg with
  | true => exact ⟨'-', natRepr (q.k4 / 10000) ++ '.' :: fixedDigits 4 (q.k4 % 10000), by simp, Or.inr (Or.inl rfl)⟩
  | false =>
    obtain ⟨c, cs, h, hd⟩ := natRepr_head (q.k4 / 10000)
    exact ⟨c, cs ++ '.' :: fixedDigits 4 (q.k4 % 10000), by simp [h], Or.inr (Or.inr hd)⟩

theorem mEnd_eq : mEnd = ['M', ' ', ' ', 'E', 'N', 'D'] := by decide
theorem delim_eq : delim = ['$', '$', '$', '$'] := by decide

theorem numHead_ok (l : Line) (h : NumHead l) : startsWith mEnd l = false ∧ startsWith delim l = false := by
  obtain ⟨c, t, rfl, hc⟩ := h
  have hM : 'M' ≠ c := by
    rintro rfl; rcases hc with h | h | h <;> exact absurd h (by decide)
  have hD : '$' ≠ c := by
    rintro rfl; rcases hc with h | h | h <;> exact absurd h (by decide)
  exact ⟨startsWith_false_of_head _ _ 'M' c _ t mEnd_eq rfl hM, startsWith_false_of_head _ _ '$' c _ t delim_eq rfl hD⟩

theorem mline_ok (x : Char) (t : Line) (hx : x ≠ 'E') :
    startsWith mEnd ('M' :: ' ' :: ' ' :: x :: t) = false ∧ startsWith delim ('M' :: ' ' :: ' ' :: x :: t) = false := by
  constructor
  · cases h : startsWith mEnd ('M' :: ' ' :: ' ' :: x :: t) with
    | false => rfl
    | true =>
      rw [mEnd_eq] at h
      simp only [startsWith, List.length_cons, List.length_nil, List.take_succ_cons, beq_iff_eq, List.cons.injEq] at h
      exact absurd h.2.2.2.1 hx
  · exact startsWith_false_of_head _ _ '$' 'M' _ _ delim_eq rfl (by decide)

theorem chargeLine_ok (b : List (Nat × Int)) :
    startsWith mEnd (chargeLine b) = false ∧ startsWith delim (chargeLine b) = false := by
  have : "M  CHG".toList = ['M', ' ', ' ', 'C', 'H', 'G'] := by decide
  unfold chargeLine
  rw [this]
  exact mline_ok 'C' _ (by decide)

theorem v30_ok (l : Line) : startsWith mEnd (v30 l) = false ∧ startsWith delim (v30 l) = false := by
  rw [v30_eq]; exact mline_ok 'V' _ (by decide)

/-- every line of a written CTAB except the last is not an `M  END` line, and no line at all
starts with `$$$$` -/
theorem writeCtab_lines (m : Mol) (d : Nat) (v : Version) (ls : List Line) (h : writeCtab m d v = .ok ls) :
    ∃ body, ls = body ++ [mEnd] ∧ ∀ l ∈ body, startsWith mEnd l = false ∧ startsWith delim l = false := by
  have h2 : ∀ ls, writeV2000 m d = .ok ls →
      ∃ body, ls = body ++ [mEnd] ∧ ∀ l ∈ body, startsWith mEnd l = false ∧ startsWith delim l = false := by
    intro ls h
    unfold writeV2000 at h
    split at h
    · cases h
    · split at h
      · cases h
      · rename_i dc _
        cases h
        refine ⟨[countsLineV2000 m.atoms.length m.bonds.length] ++ m.atoms.map atomLineV2000
          ++ m.bonds.map (bondLineV2000 dc) ++ chargeLines m, rfl, ?_⟩
        intro l hl
        simp only [List.mem_append, List.mem_cons, List.mem_nil_iff, or_false, List.mem_map] at hl
        rcases hl with ((rfl | ⟨a, _, rfl⟩) | ⟨b, _, rfl⟩) | hl
        · apply numHead_ok
          unfold countsLineV2000
          rw [List.append_assoc]
          exact padL_head 3 _ _ (natRepr_numHead _)
        · apply numHead_ok
          unfold atomLineV2000
          simp only [List.append_assoc]
          exact padL_head 10 _ _ (fmt4_numHead _)
        · apply numHead_ok
          unfold bondLineV2000
          simp only [List.append_assoc]
          exact padL_head 3 _ _ (natRepr_numHead _)
        · obtain ⟨b, _, rfl⟩ := List.mem_map.mp hl
          exact chargeLine_ok b
  have h3 : ∀ ls, writeV3000 m d = .ok ls →
      ∃ body, ls = body ++ [mEnd] ∧ ∀ l ∈ body, startsWith mEnd l = false ∧ startsWith delim l = false := by
    intro ls h
    unfold writeV3000 at h
    split at h
    · cases h
    · split at h
      · cases h
      · cases h
        refine ⟨_, rfl, ?_⟩
        intro l hl
        simp only [List.mem_append, List.mem_cons, List.mem_nil_iff, or_false] at hl
        rcases hl with rfl | hl
        · constructor <;> decide
        · obtain ⟨x, _, rfl⟩ := List.mem_map.mp hl
          exact v30_ok x
  cases v with
  | auto =>
    by_cases hc : isV2000Compatible m.atoms.length m.bonds.length = true
    · simp only [writeCtab, hc, if_true] at h; exact h2 ls h
    · simp only [writeCtab, hc] at h; exact h3 ls h
  | v2000 =>
    by_cases hc : isV2000Compatible m.atoms.length m.bonds.length = true
    · simp only [writeCtab, hc] at h; exact h2 ls (by simpa using h)
    · simp [writeCtab, hc] at h
  | v3000 => exact h3 ls h
  | unknown => simp [writeCtab] at h

/-! ## splitting a record into header, CTAB and metadata -/

theorem ctabStop_body (i : Nat) (hi : 3 ≤ i) (body : List Line) (hb : ∀ l ∈ body, startsWith mEnd l = false)
    (rest : List Line) : ctabStop i (body ++ mEnd :: rest) = i + body.length + 1 := by
  induction body generalizing i with
  | nil =>
    have : startsWith mEnd mEnd = true := by decide
    simp [ctabStop, hi, this]
  | cons l body ih =>
    have hl := hb l (by simp)
    simp only [List.cons_append, ctabStop, hl, Bool.false_eq_true, and_false, if_false]
    rw [ih (i + 1) (by omega) (fun x hx => hb x (by simp [hx]))]
    simp; omega

theorem recordParts_write (l0 l1 l2 : Line) (body mdl : List Line) (hb : ∀ l ∈ body, startsWith mEnd l = false) :
    recordParts ([l0, l1, l2] ++ (body ++ [mEnd]) ++ mdl) = ([l0, l1, l2], body ++ [mEnd], mdl) := by
  have hstop : ctabStop 0 ([l0, l1, l2] ++ (body ++ [mEnd]) ++ mdl) = 3 + body.length + 1 := by
    have e : [l0, l1, l2] ++ (body ++ [mEnd]) ++ mdl = l0 :: l1 :: l2 :: (body ++ mEnd :: mdl) := by simp
    rw [e]
    simp only [ctabStop]
    have n0 : ¬ (0 ≥ 3 ∧ startsWith mEnd l0 = true) := by omega
    have n1 : ¬ (0 + 1 ≥ 3 ∧ startsWith mEnd l1 = true) := by omega
    have n2 : ¬ (0 + 1 + 1 ≥ 3 ∧ startsWith mEnd l2 = true) := by omega
    simp only [n0, n1, n2, if_false]
    exact ctabStop_body 3 (Nat.le_refl _) body hb mdl
  unfold recordParts
  simp only [hstop]
  have e : [l0, l1, l2] ++ (body ++ [mEnd]) ++ mdl = [l0, l1, l2] ++ ((body ++ [mEnd]) ++ mdl) := by simp
  refine Prod.ext ?_ (Prod.ext ?_ ?_)
  · simp
  · simp only
    rw [e, List.drop_left' (by rfl)]
    have : 3 + body.length + 1 - 3 = (body ++ [mEnd]).length := by simp; omega
    rw [this, List.take_left' rfl]
  · simp only
    rw [show [l0, l1, l2] ++ (body ++ [mEnd]) ++ mdl = ([l0, l1, l2] ++ (body ++ [mEnd])) ++ mdl by simp]
    exact List.drop_left' (by simp; omega)

/-! ## one record -/

/-- A record the file format can hold: a valid header, a well-formed non-empty molecule, valid
metadata with pairwise different keys. -/
def RecOk (r : SDRec) : Prop :=
  ValidHeader r.header ∧ WFMol r.mol ∧ r.mol.atoms ≠ [] ∧ MdOk r.md ∧ (r.md.map (·.1)).Nodup

theorem sdrec_roundtrip (r : SDRec) (d : Nat) (v : Version) (ls : List Line) (hr : RecOk r)
    (h : r.serialize d v = .ok ls) :
    ∃ dc body, codeOfBond d = some dc ∧
      (∀ l ∈ body, startsWith mEnd l = false ∧ startsWith delim l = false) ∧
      ls = [r.header.molName, headerLine2 r.header, r.header.comments] ++ (body ++ [mEnd]) ++ Metadata.serialize r.md ∧
      SDRec.deserialize ls = .ok ⟨r.header, r.mol.rt dc, r.md⟩ := by
  obtain ⟨hh, hw, hne, hmd, hnd⟩ := hr
  unfold SDRec.serialize at h
  rw [header_serialize_eq r.header hh] at h
  cases hc : writeCtab r.mol d v with
  | error e => rw [hc] at h; simp [bind, Except.bind] at h
  | ok cl =>
    rw [hc] at h
    simp only [bind, Except.bind, pure, Except.pure] at h
    cases h
    obtain ⟨dc, hdc, hread⟩ := ctab_roundtrip r.mol d v cl hw hne hc
    obtain ⟨body, rfl, hbody⟩ := writeCtab_lines r.mol d v cl hc
    refine ⟨dc, body, hdc, hbody, rfl, ?_⟩
    unfold SDRec.deserialize
    rw [recordParts_write _ _ _ body _ (fun l hl => (hbody l hl).1)]
    have hmdr : Metadata.deserialize (Metadata.serialize r.md) = .ok r.md := by
      have := mdLoop_entries r.md hmd [] none (by simpa using hnd)
      simpa [Metadata.deserialize, pend] using this
    have hemp : (body ++ [mEnd]).isEmpty = false := by cases body <;> rfl
    simp only [header_deserialize_lines r.header hh [], hemp, hread, hmdr, wrapDeser, bind, Except.bind, pure, Except.pure,
      Bool.false_eq_true, if_false]

/-! ## a whole file -/

/-- Nothing in the record looks like a record delimiter: the three header lines and the metadata
value lines do not start with `$$$$` (CTAB and key lines never do). -/
def NoDelim (r : SDRec) : Prop :=
  startsWith delim r.header.molName = false ∧ startsWith delim (headerLine2 r.header) = false ∧
  startsWith delim r.header.comments = false ∧ ∀ kv ∈ r.md, ∀ l ∈ kv.2, startsWith delim l = false

theorem md_lines_noDelim (md : Metadata) (h : ∀ kv ∈ md, ∀ l ∈ kv.2, startsWith delim l = false) :
    ∀ l ∈ Metadata.serialize md, startsWith delim l = false := by
  intro l hl
  simp only [Metadata.serialize, List.mem_flatMap] at hl
  obtain ⟨kv, hkv, hl⟩ := hl
  simp only [List.mem_cons, List.mem_append, List.mem_nil_iff, or_false] at hl
  rcases hl with (rfl | hl) | rfl
  · rw [Key.serialize_eq]
    exact startsWith_false_of_head _ _ '$' '>' _ _ delim_eq rfl (by decide)
  · exact h kv hkv l hl
  · decide

inductive AllOk {α β : Type} (f : α → Except Err β) : List α → List β → Prop
  | nil : AllOk f [] []
  | cons {x : α} {y : β} {xs : List α} {ys : List β} : f x = .ok y → AllOk f xs ys → AllOk f (x :: xs) (y :: ys)

theorem mapM_ok_forall2 {α β : Type} (f : α → Except Err β) (l : List α) (ys : List β) (h : l.mapM f = .ok ys) :
    AllOk f l ys := by
  induction l generalizing ys with
  | nil =>
    simp only [List.mapM_nil, pure, Except.pure] at h
    cases h; exact AllOk.nil
  | cons x l ih =>
    simp only [List.mapM_cons, bind, Except.bind] at h
    cases hx : f x with
    | error e => rw [hx] at h; cases h
    | ok y =>
      rw [hx] at h
      cases hl : l.mapM f with
      | error e => rw [hl] at h; cases h
      | ok ys' =>
        rw [hl] at h
        simp only [pure, Except.pure] at h
        cases h
        exact AllOk.cons hx (ih ys' hl)

theorem sdf_file_roundtrip (rs : List SDRec) (d : Nat) (v : Version) (ls : List Line) (hne : rs ≠ [])
    (hok : ∀ r ∈ rs, RecOk r ∧ NoDelim r) (hnames : (rs.map (·.header.molName)).Nodup)
    (h : sdfSerialize rs d v = .ok ls) :
    ∃ dc, codeOfBond d = some dc ∧
      sdfDeserialize ls = .ok (rs.map fun r => (r.header.molName, ⟨r.header, r.mol.rt dc, r.md⟩)) := by
  unfold sdfSerialize at h
  cases hm : rs.mapM (fun r => r.serialize d v) with
  | error e => rw [hm] at h; simp [bind, Except.bind] at h
  | ok recs =>
    rw [hm] at h
    simp only [bind, Except.bind, pure, Except.pure] at h
    have h' : ls = joinRecords recs := by
      split at h
      · cases h
      · cases h; rfl
    subst h'
    have hf := mapM_ok_forall2 _ rs recs hm
    -- the default bond code is the same for every record
    obtain ⟨dc, hdc⟩ : ∃ dc, codeOfBond d = some dc := by
      cases rs with
      | nil => exact absurd rfl hne
      | cons r rs' =>
        cases hf with
        | cons hx _ =>
          obtain ⟨dc, _, hdc, _⟩ := sdrec_roundtrip r d v _ (hok r (by simp)).1 hx
          exact ⟨dc, hdc⟩
    refine ⟨dc, hdc, ?_⟩
    -- facts about every serialised record
    have key : ∀ (rs : List SDRec) (recs : List (List Line)), AllOk (fun r => r.serialize d v) rs recs →
        (∀ r ∈ rs, RecOk r ∧ NoDelim r) →
        recs.map recName = rs.map (·.header.molName) ∧
        (∀ rec ∈ recs, ∀ l ∈ rec, startsWith delim l = false) ∧
        (recs.map fun rec => (recName rec, rec)).mapM (fun nr => do
            let r ← SDRec.deserialize nr.2
            pure (nr.1, r))
          = .ok (rs.map fun r => (r.header.molName, (⟨r.header, r.mol.rt dc, r.md⟩ : SDRecR))) := by
      intro rs recs hf
      induction hf with
      | nil => intro _; exact ⟨rfl, by simp, rfl⟩
      | @cons r rec rs' recs' hx _ ih =>
        intro hok
        obtain ⟨hro, hnd⟩ := hok r (by simp)
        obtain ⟨dc', body, hdc', hbody, hls, hde⟩ := sdrec_roundtrip r d v rec hro hx
        have : dc' = dc := by rw [hdc] at hdc'; cases hdc'; rfl
        subst this
        obtain ⟨ih1, ih2, ih3⟩ := ih (fun x hx => hok x (by simp [hx]))
        have hname : recName rec = r.header.molName := by
          rw [hls]
          show strip r.header.molName = _
          exact strip_tight _ (tightB_spec _ hro.1.2.1).1 (tightB_spec _ hro.1.2.1).2
        refine ⟨by simp [hname, ih1], ?_, ?_⟩
        · intro rec' hrec' l hl
          rcases List.mem_cons.mp hrec' with rfl | hrec'
          · rw [hls] at hl
            simp only [List.mem_append, List.mem_cons, List.mem_nil_iff, or_false] at hl
            rcases hl with ((rfl | rfl | rfl) | (hl | rfl)) | hl
            · exact hnd.1
            · exact hnd.2.1
            · exact hnd.2.2.1
            · exact (hbody l hl).2
            · decide
            · exact md_lines_noDelim r.md hnd.2.2.2 l hl
          · exact ih2 rec' hrec' l hl
        · simp only [bind, Except.bind, pure, Except.pure] at ih3
          simp only [List.map_cons, List.mapM_cons, hde, hname, ih3, bind, Except.bind, pure, Except.pure]
    obtain ⟨k1, k2, k3⟩ := key rs recs hf hok
    have hrne : recs ≠ [] := by
      intro e; subst e
      cases hf
      exact hne rfl
    have hsplit : splitRecords (joinRecords recs) = .ok (recs.map fun r => (recName r, r)) := by
      have hany : (joinRecords recs).any (startsWith delim) = true := by
        cases recs with
        | nil => exact absurd rfl hrne
        | cons r rs =>
          have : delim ∈ joinRecords (r :: rs) := by simp [joinRecords]
          exact List.any_eq_true.mpr ⟨delim, this, by decide⟩
      unfold splitRecords
      cases hj : joinRecords recs with
      | nil => rw [hj] at hany; simp at hany
      | cons f t =>
        rw [← hj]
        simp only [hany, if_true]
        rw [splitLoop_join recs k2]
        rw [foldl_dictSet_fresh _ [] (by
          rw [List.nil_append, List.map_map]
          have : ((fun x : Line × List Line => x.1) ∘ fun r => (recName r, r)) = recName := rfl
          rw [this, k1]; exact hnames)]
        simp [hj]
    unfold sdfDeserialize
    rw [hsplit]
    simp only [bind, Except.bind]
    exact k3

end BiotiteModel.C18

import BiotiteModel.Model.C14
import Mathlib.Tactic.Linarith
import Mathlib.Tactic.Ring
import Mathlib.Tactic.FieldSimp
import Mathlib.Tactic.Positivity
/-! Helper lemmas for C14 (kept apart from the property theorems in `Props/C14.lean`).
Mathlib is used only for tactics over ℚ (`linarith`, `nlinarith`, `field_simp`, `ring`). -/
namespace BiotiteModel.C14

theorem truncQ_of_nonneg (q : Rat) (h : 0 ≤ q) : truncQ q = q.floor := by
  have hn : 0 ≤ q.num := Rat.num_nonneg.mpr h
  rw [Rat.floor_def, truncQ]
  exact Int.tdiv_eq_ediv_of_nonneg hn

theorem truncQ_neg (q : Rat) : truncQ (-q) = - truncQ q := by
  simp [truncQ, Int.neg_tdiv]

theorem truncQ_of_nonpos (q : Rat) (h : q ≤ 0) : truncQ q = q.ceil := by
  have : truncQ q = - truncQ (-q) := by rw [truncQ_neg]; omega
  rw [this, truncQ_of_nonneg (-q) (by linarith), Rat.ceil_eq_neg_floor_neg]

/-- Truncation is within one of the argument, on the side of zero. -/
theorem trunc_window (u v : Rat) (R : Int) (hu : 0 ≤ u) (h1 : u - v ≤ R) (h2 : v - u ≤ R) :
    truncQ u - truncQ v ≤ R ∧ truncQ v - truncQ u ≤ R := by
  rw [truncQ_of_nonneg u hu]
  have hR : (0 : Rat) ≤ R := by linarith
  have hR' : 0 ≤ R := by exact_mod_cast hR
  have fu := Rat.floor_le u
  have fu1 := Rat.lt_floor_add_one u
  have fu0 : 0 ≤ u.floor := Rat.le_floor_iff.mpr (by simpa using hu)
  by_cases hv : 0 ≤ v
  · rw [truncQ_of_nonneg v hv]
    have fv := Rat.floor_le v
    have fv1 := Rat.lt_floor_add_one v
    push_cast at fu1 fv1
    constructor
    · have : u.floor < v.floor + R + 1 := Rat.floor_lt_iff.mpr (by push_cast; linarith)
      omega
    · have : v.floor < u.floor + R + 1 := Rat.floor_lt_iff.mpr (by push_cast; linarith)
      omega
  · have hv' : v ≤ 0 := by linarith
    rw [truncQ_of_nonpos v hv']
    have c1 : v ≤ (v.ceil : Rat) := Rat.le_ceil
    have c2 : v.ceil ≤ 0 := Rat.ceil_le_iff.mpr (by simpa using hv')
    constructor
    · have : ((u.floor - v.ceil : Int) : Rat) ≤ (R : Rat) := by push_cast; linarith
      exact_mod_cast this
    · omega

/-- One axis of `C14_window_sufficient`. -/
theorem window1 (mn cs a q r : Rat) (hcs : 0 < cs) (ha : mn ≤ a) (h1 : a - q ≤ r) (h2 : q - a ≤ r) :
    cellIdx1 mn cs a - cellIdx1 mn cs q ≤ (r / cs).ceil ∧
    cellIdx1 mn cs q - cellIdx1 mn cs a ≤ (r / cs).ceil := by
  unfold cellIdx1
  have hc : r / cs ≤ ((r / cs).ceil : Rat) := Rat.le_ceil
  apply trunc_window
  · exact div_nonneg (by linarith) hcs.le
  · have : (a - mn) / cs - (q - mn) / cs = (a - q) / cs := by field_simp; ring
    rw [this]; exact le_trans (div_le_div_of_nonneg_right h1 hcs.le) hc
  · have : (q - mn) / cs - (a - mn) / cs = (q - a) / cs := by field_simp; ring
    rw [this]; exact le_trans (div_le_div_of_nonneg_right h2 hcs.le) hc

/-- Same with an integer cell radius: Chebyshev distance `≤ R * cs`. -/
theorem window1_cells (mn cs a q : Rat) (R : Int) (hcs : 0 < cs) (ha : mn ≤ a)
    (h1 : a - q ≤ R * cs) (h2 : q - a ≤ R * cs) :
    cellIdx1 mn cs a - cellIdx1 mn cs q ≤ R ∧ cellIdx1 mn cs q - cellIdx1 mn cs a ≤ R := by
  unfold cellIdx1
  apply trunc_window
  · exact div_nonneg (by linarith) hcs.le
  · have : (a - mn) / cs - (q - mn) / cs = (a - q) / cs := by field_simp; ring
    rw [this, div_le_iff₀ hcs]; exact h1
  · have : (q - mn) / cs - (a - mn) / cs = (q - a) / cs := by field_simp; ring
    rw [this, div_le_iff₀ hcs]; exact h2

/-- Every atom between min and max gets a cell index inside the grid (one axis). -/
theorem grid1 (mn mx cs a : Rat) (hcs : 0 < cs) (h1 : mn ≤ a) (h2 : a ≤ mx) :
    0 ≤ cellIdx1 mn cs a ∧ cellIdx1 mn cs a < truncQ ((mx - mn) / cs + 1) := by
  unfold cellIdx1
  have hu : 0 ≤ (a - mn) / cs := div_nonneg (by linarith) hcs.le
  have hw : (a - mn) / cs ≤ (mx - mn) / cs := div_le_div_of_nonneg_right (by linarith) hcs.le
  rw [truncQ_of_nonneg _ hu, truncQ_of_nonneg _ (by linarith)]
  constructor
  · exact Rat.le_floor_iff.mpr (by simpa using hu)
  · have := Rat.floor_monotone hw
    have h3 : ((mx - mn) / cs + 1).floor = ((mx - mn) / cs).floor + 1 := Rat.floor_add_one
    omega

/-! ## list level -/

theorem mem_ite_nil {α : Type} (p : Prop) [Decidable p] (l : List α) (x : α) :
    x ∈ (if p then l else []) ↔ p ∧ x ∈ l := by
  split <;> simp [*]

theorem mem_irange (lo hi x : Int) : x ∈ CL.irange lo hi ↔ lo ≤ x ∧ x < hi := by
  simp only [CL.irange, List.mem_map, List.mem_range]
  constructor
  · rintro ⟨d, hd, rfl⟩; omega
  · rintro ⟨h1, h2⟩
    exact ⟨(x - lo).toNat, by omega, by omega⟩

theorem mem_cellContent (c : CL) (cell : I3) (pt : V3 × Nat) :
    pt ∈ c.cellContent cell ↔ pt ∈ c.coord.zipIdx ∧ c.selected pt.2 = true ∧ c.cellOf pt.1 = cell := by
  simp [CL.cellContent, List.mem_filter]

theorem mem_scanFast (c : CL) (q : V3) (cr : Int) (pt : V3 × Nat) :
    pt ∈ c.scanFast q cr ↔ pt ∈ c.coord.zipIdx ∧ c.selected pt.2 = true ∧
      CL.inGrid c.dims (c.cellOf pt.1) = true ∧ CL.inWindow (c.cellOf q) (c.cellOf pt.1) cr = true := by
  simp [CL.scanFast, List.mem_filter, and_assoc]

/-- The literal window scan of `_find_adjacent_atoms` visits exactly the selected atoms whose cell
lies in the window and in the grid. -/
theorem mem_scan_iff (c : CL) (q : V3) (cr : Int) (pt : V3 × Nat) :
    pt ∈ c.scan q cr ↔ pt ∈ c.scanFast q cr := by
  rw [mem_scanFast]
  simp only [CL.scan, List.mem_flatMap, mem_irange, mem_ite_nil, mem_cellContent]
  constructor
  · rintro ⟨ai, hai, hi, aj, haj, hj, ak, hak, hk, hz, hs, hc⟩
    refine ⟨hz, hs, ?_, ?_⟩
    · rw [hc]; simp [CL.inGrid]; omega
    · rw [hc]; simp [CL.inWindow]; omega
  · rintro ⟨hz, hs, hg, hw⟩
    simp [CL.inGrid] at hg
    simp [CL.inWindow] at hw
    refine ⟨(c.cellOf pt.1).i, by omega, by omega, (c.cellOf pt.1).j, by omega, by omega,
      (c.cellOf pt.1).k, by omega, by omega, hz, hs, rfl⟩


/-! ## the cell-list invariant -/

/-- What `__cinit__` establishes: positive cell size and `min ≤ every coordinate ≤ max`. -/
structure CL.WF (c : CL) : Prop where
  cs_pos : 0 < c.cs
  lo : ∀ p ∈ c.coord, c.mn.x ≤ p.x ∧ c.mn.y ≤ p.y ∧ c.mn.z ≤ p.z
  hi : ∀ p ∈ c.coord, p.x ≤ c.mx.x ∧ p.y ≤ c.mx.y ∧ p.z ≤ c.mx.z

theorem inGrid_of_wf (c : CL) (h : c.WF) (p : V3) (hp : p ∈ c.coord) :
    CL.inGrid c.dims (c.cellOf p) = true := by
  obtain ⟨l1, l2, l3⟩ := h.lo p hp
  obtain ⟨u1, u2, u3⟩ := h.hi p hp
  have g1 := grid1 c.mn.x c.mx.x c.cs p.x h.cs_pos l1 u1
  have g2 := grid1 c.mn.y c.mx.y c.cs p.y h.cs_pos l2 u2
  have g3 := grid1 c.mn.z c.mx.z c.cs p.z h.cs_pos l3 u3
  unfold CL.inGrid CL.dims CL.cellOf cellIdx
  exact decide_eq_true ⟨g1.1, g1.2, g2.1, g2.2, g3.1, g3.2⟩

/-- Chebyshev distance `≤ r` -/
def near (q p : V3) (r : Rat) : Prop :=
  (p.x - q.x ≤ r ∧ q.x - p.x ≤ r) ∧ (p.y - q.y ≤ r ∧ q.y - p.y ≤ r) ∧ (p.z - q.z ≤ r ∧ q.z - p.z ≤ r)

theorem inWindow_of_near (c : CL) (h : c.WF) (p : V3) (hp : p ∈ c.coord) (q : V3) (r : Rat)
    (hn : near q p r) : CL.inWindow (c.cellOf q) (c.cellOf p) (c.cellRadius r) = true := by
  obtain ⟨l1, l2, l3⟩ := h.lo p hp
  obtain ⟨⟨a1, a2⟩, ⟨b1, b2⟩, ⟨c1, c2⟩⟩ := hn
  have w1 := window1 c.mn.x c.cs p.x q.x r h.cs_pos l1 a1 a2
  have w2 := window1 c.mn.y c.cs p.y q.y r h.cs_pos l2 b1 b2
  have w3 := window1 c.mn.z c.cs p.z q.z r h.cs_pos l3 c1 c2
  unfold CL.inWindow CL.cellOf cellIdx CL.cellRadius
  apply decide_eq_true
  dsimp only
  omega

theorem inWindow_of_near_cells (c : CL) (h : c.WF) (p : V3) (hp : p ∈ c.coord) (q : V3) (R : Int)
    (hn : near q p (R * c.cs)) : CL.inWindow (c.cellOf q) (c.cellOf p) R = true := by
  obtain ⟨l1, l2, l3⟩ := h.lo p hp
  obtain ⟨⟨a1, a2⟩, ⟨b1, b2⟩, ⟨c1, c2⟩⟩ := hn
  have w1 := window1_cells c.mn.x c.cs p.x q.x R h.cs_pos l1 a1 a2
  have w2 := window1_cells c.mn.y c.cs p.y q.y R h.cs_pos l2 b1 b2
  have w3 := window1_cells c.mn.z c.cs p.z q.z R h.cs_pos l3 c1 c2
  unfold CL.inWindow CL.cellOf cellIdx
  apply decide_eq_true
  dsimp only
  omega

theorem near_of_sqDist (q p : V3) (r : Rat) (hr : 0 ≤ r) (h : sqDist q p ≤ r * r) : near q p r := by
  unfold sqDist at h
  have hx := mul_self_nonneg (p.x - q.x)
  have hy := mul_self_nonneg (p.y - q.y)
  have hz := mul_self_nonneg (p.z - q.z)
  have key : ∀ d : Rat, d * d ≤ r * r → d ≤ r ∧ -d ≤ r := by
    intro d hd
    constructor
    · by_contra hc; have hc := not_le.mp hc; nlinarith
    · by_contra hc; have hc := not_le.mp hc; nlinarith
  have kx := key (p.x - q.x) (by linarith)
  have ky := key (p.y - q.y) (by linarith)
  have kz := key (p.z - q.z) (by linarith)
  refine ⟨⟨kx.1, by linarith [kx.2]⟩, ⟨ky.1, by linarith [ky.2]⟩, ⟨kz.1, by linarith [kz.2]⟩⟩

/-- The distance-filtered scan (positions in `_coord`, before `_post_process`). -/
def CL.rawAtoms (c : CL) (q' : V3) (r : Rat) : List Nat :=
  ((c.scan q' (c.cellRadius r)).filter fun pt => decide (sqDist q' pt.1 ≤ r * r)).map (·.2)

theorem mem_rawAtoms (c : CL) (h : c.WF) (q' : V3) (r : Rat) (hr : 0 ≤ r) (t : Nat) :
    t ∈ c.rawAtoms q' r ↔ ∃ p, c.coord[t]? = some p ∧ c.selected t = true ∧ sqDist q' p ≤ r * r := by
  simp only [CL.rawAtoms, List.mem_map, List.mem_filter, mem_scan_iff, mem_scanFast,
    List.mem_zipIdx_iff_getElem?, decide_eq_true_eq]
  constructor
  · rintro ⟨⟨p, t'⟩, ⟨⟨hz, hs, -, -⟩, hd⟩, rfl⟩
    exact ⟨p, hz, hs, hd⟩
  · rintro ⟨p, hz, hs, hd⟩
    have hp : p ∈ c.coord := List.mem_of_getElem? hz
    exact ⟨(p, t), ⟨⟨hz, hs, inGrid_of_wf c h p hp,
      inWindow_of_near c h p hp q' r (near_of_sqDist q' p r hr hd)⟩, hd⟩, rfl⟩

/-- The cell query (positions, before `_post_process`). -/
theorem mem_rawCells (c : CL) (h : c.WF) (q' : V3) (R : Int) (t : Nat) (p : V3)
    (hz : c.coord[t]? = some p) (hs : c.selected t = true) (hn : near q' p (R * c.cs)) :
    t ∈ (c.scan q' R).map (·.2) := by
  simp only [List.mem_map, mem_scan_iff, mem_scanFast, List.mem_zipIdx_iff_getElem?]
  have hp : p ∈ c.coord := List.mem_of_getElem? hz
  exact ⟨(p, t), ⟨hz, hs, inGrid_of_wf c h p hp, inWindow_of_near_cells c h p hp q' R hn⟩, rfl⟩

theorem mem_rawCells_sound (c : CL) (q' : V3) (R : Int) (t : Nat) (ht : t ∈ (c.scan q' R).map (·.2)) :
    ∃ p, c.coord[t]? = some p ∧ c.selected t = true := by
  simp only [List.mem_map, mem_scan_iff, mem_scanFast, List.mem_zipIdx_iff_getElem?] at ht
  obtain ⟨⟨p, t'⟩, ⟨hz, hs, -, -⟩, rfl⟩ := ht
  exact ⟨p, hz, hs⟩

theorem atomsOne_eq (c : CL) (q : V3) (r : Rat) : c.atomsOne q r = c.post (c.rawAtoms (c.prepQ q) r) := rfl

theorem mem_asMask (c : CL) (idx : List Nat) (t : Nat) :
    (c.asMask idx)[t]? = some true ↔ t < c.n ∧ t ∈ idx := by
  unfold CL.asMask
  rw [List.getElem?_map]
  by_cases h : t < c.n
  · rw [List.getElem?_range h]; simp [h]
  · rw [List.getElem?_eq_none (by simp; omega)]; simp [h]


/-! ## the constructor establishes the invariant -/

theorem lmin_le (m : Rat) (l : List Rat) : lmin m l ≤ m ∧ ∀ x ∈ l, lmin m l ≤ x := by
  induction l generalizing m with
  | nil => simp [lmin]
  | cons a l ih =>
    simp only [lmin]
    obtain ⟨h1, h2⟩ := ih (min m a)
    refine ⟨le_trans h1 (min_le_left _ _), ?_⟩
    intro x hx; rcases List.mem_cons.mp hx with rfl | hx
    · exact le_trans h1 (min_le_right _ _)
    · exact h2 x hx

theorem le_lmax (m : Rat) (l : List Rat) : m ≤ lmax m l ∧ ∀ x ∈ l, x ≤ lmax m l := by
  induction l generalizing m with
  | nil => simp [lmax]
  | cons a l ih =>
    simp only [lmax]
    obtain ⟨h1, h2⟩ := ih (max m a)
    refine ⟨le_trans (le_max_left _ _) h1, ?_⟩
    intro x hx; rcases List.mem_cons.mp hx with rfl | hx
    · exact le_trans (le_max_right _ _) h1
    · exact h2 x hx

theorem bounds_lo (f : V3 → Rat) (p : V3) (ps : List V3) (q : V3) (hq : q ∈ p :: ps) :
    lmin (f p) (ps.map f) ≤ f q := by
  rcases List.mem_cons.mp hq with rfl | hq
  · exact (lmin_le _ _).1
  · exact (lmin_le _ _).2 _ (List.mem_map_of_mem hq)

theorem bounds_hi (f : V3 → Rat) (p : V3) (ps : List V3) (q : V3) (hq : q ∈ p :: ps) :
    f q ≤ lmax (f p) (ps.map f) := by
  rcases List.mem_cons.mp hq with rfl | hq
  · exact (le_lmax _ _).1
  · exact (le_lmax _ _).2 _ (List.mem_map_of_mem hq)

theorem mk_ok (coords : List V3) (cs : Rat) (box : Option V3) (sel : Option (List Bool)) (c : CL)
    (h : mk coords cs box sel = some (.ok c)) :
    c.WF ∧ c.coord = allCoords coords box ∧ c.n = coords.length ∧ c.box = box ∧ c.cs = cs ∧
    selError coords sel = none ∧ boxOk box = true ∧
    c.sel = selMask sel coords.length := by
  unfold mk at h
  split at h
  · simp at h
  · rename_i hsel
    split at h
    · simp at h
    · rename_i hbox
      split at h
      · simp at h
      · rename_i hcs
        split at h
        · simp at h
        · rename_i p ps hall
          simp only [Option.some.injEq, Except.ok.injEq] at h
          subst h
          refine ⟨⟨by simp only [build]; linarith, ?_, ?_⟩, rfl, rfl, rfl, rfl, hsel, by simpa using hbox, rfl⟩
          · intro q hq
            have hq' : q ∈ p :: ps := by simpa [build, hall] using hq
            exact ⟨bounds_lo (·.x) p ps q hq', bounds_lo (·.y) p ps q hq', bounds_lo (·.z) p ps q hq'⟩
          · intro q hq
            have hq' : q ∈ p :: ps := by simpa [build, hall] using hq
            exact ⟨bounds_hi (·.x) p ps q hq', bounds_hi (·.y) p ps q hq', bounds_hi (·.z) p ps q hq'⟩


/-! ## batches, scalar vs per-query radii, adjacency plumbing -/

theorem any_huge_false {α : Type} (f : α → Int) (l : List α) (h : ∀ r ∈ l, f r < 2 ^ 31) :
    (l.map f).any (fun r => decide (r ≥ 2 ^ 31)) = false := by
  simp only [List.any_eq_false, List.mem_map, decide_eq_true_eq, not_le, forall_exists_index, and_imp,
    forall_apply_eq_imp_iff₂]
  exact h

theorem wrappedAnswer_rows (c : CL) (sc : CL → V3 → Int → List (V3 × Nat)) (qs : List V3) (crs : List Int)
    (m : Int) (rows rows' : List (List Nat)) (h : c.wrappedAnswer sc qs crs m rows = some (.ok rows')) : rows' = rows := by
  unfold CL.wrappedAnswer at h
  split at h
  · simp only [Option.some.injEq, Except.ok.injEq] at h; exact h.symm
  · simp at h

/-- Whenever the batch answers (radii within int32 cell radii), row `i` is `atomsOne` of query `i` —
also when the result-buffer length wrapped to a still sufficient positive value. -/
theorem atomsBatch_rows (c : CL) (qs : List V3) (rad : Rad Rat) (rows : List (List Nat))
    (hsmall : ∀ r ∈ rad.expand qs.length, c.cellRadius r < 2 ^ 31)
    (h : c.atomsBatch qs rad = some (.ok rows)) :
    rows = (qs.zip (rad.expand qs.length)).map (fun qr => c.atomsOne qr.1 qr.2) := by
  unfold CL.atomsBatch CL.atomsBatchWith at h
  split at h
  · rename_i he
    have : qs = [] := by simpa using he
    subst this; simp at h; simp [h]
  · split at h
    · simp at h
    · simp only at h
      rw [any_huge_false c.cellRadius _ hsmall] at h
      simp only [Bool.false_eq_true, if_false] at h
      split at h
      · simp only [Option.some.injEq, Except.ok.injEq] at h
        rw [← h]; rfl
      · simp at h
      · exact wrappedAnswer_rows c _ qs _ _ _ rows h

theorem cellsBatch_rows (c : CL) (qs : List V3) (rad : Rad Int) (rows : List (List Nat))
    (hsmall : ∀ r ∈ rad.expand qs.length, r < 2 ^ 31)
    (h : c.cellsBatch qs rad = some (.ok rows)) :
    rows = (qs.zip (rad.expand qs.length)).map (fun qr => c.cellsOne qr.1 qr.2) := by
  unfold CL.cellsBatch CL.cellsBatchWith at h
  split at h
  · rename_i he
    have : qs = [] := by simpa using he
    subst this; simp at h; simp [h]
  · split at h
    · simp at h
    · simp only at h
      have hany := any_huge_false (fun r : Int => r) _ hsmall
      rw [List.map_id'] at hany
      rw [hany] at h
      simp only [Bool.false_eq_true, if_false] at h
      split at h
      · simp only [Option.some.injEq, Except.ok.injEq] at h
        rw [← h]; rfl
      · simp at h
      · exact wrappedAnswer_rows c _ qs _ _ _ rows h

/-- A scalar radius whose cell radius does not fit int32 is refused (`OverflowError`), never answered. -/
theorem atomsBatch_scalar_huge (c : CL) (qs : List V3) (r : Rat) (hq : qs ≠ []) (hr : 0 ≤ r)
    (hh : 2 ^ 31 ≤ c.cellRadius r) : c.atomsBatch qs (.scalar r) = some (.error .overflowError) := by
  unfold CL.atomsBatch CL.atomsBatchWith
  have he : qs.isEmpty = false := by simpa using hq
  have hchk : (Rad.scalar r).check qs.length (fun r => decide (r < 0)) = .ok () := by
    simp [Rad.check, not_lt.mpr hr]
  have hpos : 0 < qs.length := List.length_pos_iff.mpr hq
  have hany : (List.map c.cellRadius ((Rad.scalar r).expand qs.length)).any (fun r => decide (r ≥ 2 ^ 31)) = true := by
    refine List.any_eq_true.mpr ⟨c.cellRadius r, ?_, by simpa using hh⟩
    simp only [Rad.expand, List.map_replicate, List.mem_replicate]
    exact ⟨hpos.ne', trivial⟩
  simp only [he, hchk, hany]
  rfl

theorem atomsBatch_scalar_small (c : CL) (qs : List V3) (r : Rat) (rows : List (List Nat)) (hq : qs ≠ [])
    (h : c.atomsBatch qs (.scalar r) = some (.ok rows)) : c.cellRadius r < 2 ^ 31 := by
  by_cases hr : 0 ≤ r
  · by_contra hc
    rw [atomsBatch_scalar_huge c qs r hq hr (not_lt.mp hc)] at h
    simp at h
  · exfalso
    have hneg : r < 0 := not_le.mp hr
    have he : qs.isEmpty = false := by simpa using hq
    unfold CL.atomsBatch CL.atomsBatchWith at h
    simp [he, Rad.check, hneg] at h

/-- A successful batch had non-negative radii (`_prepare_vectorization` rejects the others). -/
theorem atomsBatch_nonneg (c : CL) (qs : List V3) (rad : Rad Rat) (rows : List (List Nat))
    (hq : qs ≠ []) (h : c.atomsBatch qs rad = some (.ok rows)) :
    ∀ r ∈ rad.expand qs.length, 0 ≤ r := by
  unfold CL.atomsBatch CL.atomsBatchWith at h
  split at h
  · rename_i he; simp at he; exact absurd he hq
  · split at h
    · simp at h
    · rename_i hc
      intro r hr
      cases rad with
      | scalar r0 =>
        simp only [Rad.expand, List.mem_replicate] at hr
        simp only [Rad.check] at hc
        split at hc
        · simp at hc
        · rename_i hn; rw [hr.2]; simpa using hn
      | multi rs =>
        simp only [Rad.expand] at hr
        simp only [Rad.check] at hc
        split at hc
        · simp at hc
        · split at hc
          · simp at hc
          · rename_i hn
            simp only [List.any_eq_true, decide_eq_true_eq, not_exists, not_and, not_lt] at hn
            exact hn r hr

theorem atomsBatch_ok (c : CL) (qs : List V3) (rad : Rad Rat) (hq : qs ≠ [])
    (hchk : rad.check qs.length (fun r => decide (r < 0)) = .ok ())
    (hsmall : ∀ r ∈ rad.expand qs.length, c.cellRadius r < 2 ^ 31)
    (hfit : c.guard (maxRadius ((rad.expand qs.length).map c.cellRadius)) = .fits) :
    c.atomsBatch qs rad =
      some (.ok ((qs.zip (rad.expand qs.length)).map fun qr => c.atomsOne qr.1 qr.2)) := by
  unfold CL.atomsBatch CL.atomsBatchWith
  have he : qs.isEmpty = false := by simpa using hq
  have hany : (List.map c.cellRadius (rad.expand qs.length)).any (fun r => decide (r ≥ 2 ^ 31)) = false := by
    simp only [List.any_eq_false, List.mem_map, decide_eq_true_eq, not_le, forall_exists_index, and_imp,
      forall_apply_eq_imp_iff₂]
    exact hsmall
  simp only [he, hchk, hany, hfit]
  rfl

theorem scalar_eq_multi (c : CL) (qs : List V3) (r : Rat) (hsmall : c.cellRadius r < 2 ^ 31) :
    c.atomsBatch qs (.scalar r) = c.atomsBatch qs (.multi (List.replicate qs.length r)) := by
  unfold CL.atomsBatch CL.atomsBatchWith
  by_cases he : qs.isEmpty = true
  · simp [he]
  · have hne : qs ≠ [] := by simpa using he
    have hpos : 0 < qs.length := List.length_pos_iff.mpr hne
    have hchk : (Rad.multi (List.replicate qs.length r)).check qs.length (fun r => decide (r < 0)) =
        (Rad.scalar r).check qs.length (fun r => decide (r < 0)) := by
      simp only [Rad.check, List.length_replicate, ne_eq, not_true_eq_false, if_false]
      by_cases hr : r < 0
      · simp [hr, List.any_replicate, hpos.ne']
      · simp [hr, List.any_replicate]
    have hany : (List.map c.cellRadius (List.replicate qs.length r)).any (fun r => decide (r ≥ 2 ^ 31)) = false :=
      any_huge_false c.cellRadius _ (by intro x hx; rw [(List.mem_replicate.mp hx).2]; exact hsmall)
    simp only [hchk, Rad.expand, hany]
    rfl

theorem zip_replicate_map {β : Type} (f : V3 → Rat → β) (qs : List V3) (r : Rat) :
    ((qs.zip (List.replicate qs.length r)).map fun qr => f qr.1 qr.2) = qs.map (f · r) := by
  induction qs with
  | nil => rfl
  | cons a l ih => simp [List.replicate_succ, ih]

theorem scatter_spec (g : V3 → List Nat) : ∀ (s : List Bool) (b : List V3), b.length = s.length →
    CL.scatter s (((b.zip s).filterMap fun ps => if ps.2 then some ps.1 else none).map g) =
      (b.zip s).map (fun ps => if ps.2 then g ps.1 else []) := by
  intro s
  induction s with
  | nil => intro b _; cases b <;> simp [CL.scatter]
  | cons x s ih =>
    intro b hb
    cases b with
    | nil => simp at hb
    | cons p b =>
      have hb' : b.length = s.length := by simpa using hb
      cases x <;> simp [CL.scatter, ih b hb']

/-! ## periodic helpers -/

theorem wrap1_eq (L x : Rat) (hL : 0 < L) : wrap1 L x = x - ((x / L).floor : Int) * L := by
  unfold wrap1
  have : L ≠ 0 := ne_of_gt hL
  field_simp

theorem wrap1_range (L x : Rat) (hL : 0 < L) : 0 ≤ wrap1 L x ∧ wrap1 L x < L := by
  unfold wrap1
  have h1 := Rat.floor_le (x / L)
  have h2 := Rat.lt_floor_add_one (x / L)
  push_cast at h2
  constructor
  · exact mul_nonneg (by linarith) hL.le
  · calc (x / L - ((x / L).floor : Int)) * L < 1 * L := by
          apply mul_lt_mul_of_pos_right _ hL; linarith
      _ = L := one_mul L

theorem min_image_1d (L d : Rat) (hL : 0 < L) (h1 : -L < d) (h2 : d < L) (m : Int) :
    ∃ s : Int, (s = -1 ∨ s = 0 ∨ s = 1) ∧ (d + s * L) * (d + s * L) ≤ (d + m * L) * (d + m * L) := by
  by_cases hm : m = -1 ∨ m = 0 ∨ m = 1
  · exact ⟨m, hm, le_refl _⟩
  · refine ⟨0, Or.inr (Or.inl rfl), ?_⟩
    have hm' : m ≤ -2 ∨ 2 ≤ m := by omega
    rcases hm' with hm' | hm'
    · have : (m : Rat) ≤ -2 := by exact_mod_cast hm'
      have hx : d + m * L ≤ -L := by nlinarith
      push_cast
      nlinarith
    · have : (2 : Rat) ≤ m := by exact_mod_cast hm'
      have hx : L ≤ d + m * L := by nlinarith
      push_cast
      nlinarith

/-! ## periodic: index bookkeeping of `repeat_box_coord`, lattice algebra -/

theorem getElem?_flatMap_map {α β γ : Type} (f : α → β → γ) (ps : List β) :
    ∀ (sh : List α) (t' : Nat) (x : γ),
      (sh.flatMap fun s => ps.map (f s))[t']? = some x ↔
        ∃ si t s p, t' = si * ps.length + t ∧ sh[si]? = some s ∧ ps[t]? = some p ∧ x = f s p := by
  intro sh
  induction sh with
  | nil => intro t' x; simp
  | cons a sh ih =>
    intro t' x
    rw [List.flatMap_cons, List.getElem?_append]
    by_cases hlt : t' < (ps.map (f a)).length
    · rw [if_pos hlt]
      have hlt' : t' < ps.length := by simpa using hlt
      rw [List.getElem?_map]
      constructor
      · intro h
        obtain ⟨p, hp, hx⟩ := Option.map_eq_some_iff.mp h
        exact ⟨0, t', a, p, by simp, by simp, hp, hx.symm⟩
      · rintro ⟨si, t, s, p, ht, hs, hp, rfl⟩
        have htl : t < ps.length := (List.getElem?_eq_some_iff.mp hp).1
        have hsi : si = 0 := by
          by_contra hne
          have : ps.length ≤ si * ps.length := Nat.le_mul_of_pos_left _ (Nat.pos_of_ne_zero hne)
          omega
        subst hsi
        simp at ht hs
        subst ht; subst hs
        simp [hp]
    · rw [if_neg hlt]
      have hge : ps.length ≤ t' := by simpa using hlt
      rw [List.length_map, ih]
      constructor
      · rintro ⟨si, t, s, p, ht, hs, hp, hx⟩
        refine ⟨si + 1, t, s, p, ?_, by simpa using hs, hp, hx⟩
        rw [Nat.succ_mul]; omega
      · rintro ⟨si, t, s, p, ht, hs, hp, hx⟩
        have htl : t < ps.length := (List.getElem?_eq_some_iff.mp hp).1
        cases si with
        | zero => simp at ht; omega
        | succ si =>
          refine ⟨si, t, s, p, ?_, by simpa using hs, hp, hx⟩
          rw [Nat.succ_mul] at ht; omega


/-- the lattice coefficient `floor(x / L)` removed by `move_inside_box` -/
def fl (L x : Rat) : Int := (x / L).floor

theorem wrap1_eq' (L x : Rat) (hL : 0 < L) : wrap1 L x = x - (fl L x : Int) * L := wrap1_eq L x hL

def boxPos (b : V3) : Prop := 0 < b.x ∧ 0 < b.y ∧ 0 < b.z

/-- The lattice vector that relates an image of the moved-inside atom seen from the moved-inside
query to the original atom seen from the original query. -/
def latt (b p q : V3) (s : I3) : I3 :=
  ⟨s.i - fl b.x p.x + fl b.x q.x, s.j - fl b.y p.y + fl b.y q.y, s.k - fl b.z p.z + fl b.z q.z⟩

theorem sqDist_wrap (b : V3) (hb : boxPos b) (p q : V3) (s : I3) :
    sqDist (wrapV b q) (shiftV b s (wrapV b p)) = sqDist q (shiftV b (latt b p q s) p) := by
  obtain ⟨hx, hy, hz⟩ := hb
  simp only [sqDist, wrapV, shiftV, latt, wrap1_eq' _ _ hx, wrap1_eq' _ _ hy, wrap1_eq' _ _ hz]
  push_cast
  ring

theorem mem_shifts (i j k : Int) (hi : i = -1 ∨ i = 0 ∨ i = 1) (hj : j = -1 ∨ j = 0 ∨ j = 1)
    (hk : k = -1 ∨ k = 0 ∨ k = 1) : (⟨i, j, k⟩ : I3) ∈ shifts := by
  rcases hi with rfl | rfl | rfl <;> rcases hj with rfl | rfl | rfl <;> rcases hk with rfl | rfl | rfl <;> decide

/-- Some lattice translate of `p` is within `r` of `q`  ⇒  one of the 27 images of the moved-inside
`p` is within `r` of the moved-inside `q`. -/
theorem image_of_lattice (b : V3) (hb : boxPos b) (p q : V3) (n : I3) (r2 : Rat)
    (h : sqDist q (shiftV b n p) ≤ r2) :
    ∃ s ∈ shifts, sqDist (wrapV b q) (shiftV b s (wrapV b p)) ≤ r2 := by
  obtain ⟨hx, hy, hz⟩ := hb
  have rx := wrap1_range b.x p.x hx; have rqx := wrap1_range b.x q.x hx
  have ry := wrap1_range b.y p.y hy; have rqy := wrap1_range b.y q.y hy
  have rz := wrap1_range b.z p.z hz; have rqz := wrap1_range b.z q.z hz
  obtain ⟨si, hsi, hi⟩ := min_image_1d b.x (wrap1 b.x p.x - wrap1 b.x q.x) hx (by linarith) (by linarith)
    (n.i + fl b.x p.x - fl b.x q.x)
  obtain ⟨sj, hsj, hj⟩ := min_image_1d b.y (wrap1 b.y p.y - wrap1 b.y q.y) hy (by linarith) (by linarith)
    (n.j + fl b.y p.y - fl b.y q.y)
  obtain ⟨sk, hsk, hk⟩ := min_image_1d b.z (wrap1 b.z p.z - wrap1 b.z q.z) hz (by linarith) (by linarith)
    (n.k + fl b.z p.z - fl b.z q.z)
  refine ⟨⟨si, sj, sk⟩, mem_shifts si sj sk hsi hsj hsk, ?_⟩
  have ex : p.x + n.i * b.x - q.x = wrap1 b.x p.x - wrap1 b.x q.x + ((n.i + fl b.x p.x - fl b.x q.x : Int) : Rat) * b.x := by
    rw [wrap1_eq' _ _ hx, wrap1_eq' _ _ hx]; push_cast; ring
  have ey : p.y + n.j * b.y - q.y = wrap1 b.y p.y - wrap1 b.y q.y + ((n.j + fl b.y p.y - fl b.y q.y : Int) : Rat) * b.y := by
    rw [wrap1_eq' _ _ hy, wrap1_eq' _ _ hy]; push_cast; ring
  have ez : p.z + n.k * b.z - q.z = wrap1 b.z p.z - wrap1 b.z q.z + ((n.k + fl b.z p.z - fl b.z q.z : Int) : Rat) * b.z := by
    rw [wrap1_eq' _ _ hz, wrap1_eq' _ _ hz]; push_cast; ring
  simp only [sqDist, shiftV] at h
  rw [ex, ey, ez] at h
  simp only [sqDist, shiftV, wrapV]
  have e1 : wrap1 b.x p.x + si * b.x - wrap1 b.x q.x = wrap1 b.x p.x - wrap1 b.x q.x + si * b.x := by ring
  have e2 : wrap1 b.y p.y + sj * b.y - wrap1 b.y q.y = wrap1 b.y p.y - wrap1 b.y q.y + sj * b.y := by ring
  have e3 : wrap1 b.z p.z + sk * b.z - wrap1 b.z q.z = wrap1 b.z p.z - wrap1 b.z q.z + sk * b.z := by ring
  rw [e1, e2, e3]
  linarith


theorem periodic_replicated (coords : List V3) (cs : Rat) (b : V3) (sel : Option (List Bool)) (c : CL)
    (h : mk coords cs (some b) sel = some (.ok c)) (q : V3) (r : Rat) (hr : 0 ≤ r) (t : Nat) :
    t ∈ c.atomsOne q r ↔
      ∃ t' p', (replicate b (coords.map (wrapV b)))[t']? = some p' ∧ t' % coords.length = t ∧
        (selMask sel coords.length)[t' % coords.length]? = some true ∧
        sqDist (wrapV b q) p' ≤ r * r := by
  obtain ⟨hwf, hcoord, hn, hbox, -, -, -, hsel⟩ := mk_ok coords cs (some b) sel c h
  rw [atomsOne_eq]
  simp only [CL.post, CL.prepQ, hbox, List.mem_map]
  constructor
  · rintro ⟨t', ht', rfl⟩
    obtain ⟨p', hp', hs, hd⟩ := (mem_rawAtoms c hwf (wrapV b q) r hr t').mp ht'
    refine ⟨t', p', by rw [hcoord] at hp'; exact hp', by rw [hn], ?_, hd⟩
    rw [← hsel, ← hn]
    simpa [CL.selected] using hs
  · rintro ⟨t', p', hp', rfl, hs, hd⟩
    refine ⟨t', (mem_rawAtoms c hwf (wrapV b q) r hr t').mpr ⟨p', by rw [hcoord]; exact hp', ?_, hd⟩, by rw [hn]⟩
    rw [← hsel, ← hn] at hs
    simpa [CL.selected] using hs

theorem boxPos_of_mk (coords : List V3) (cs : Rat) (b : V3) (sel : Option (List Bool)) (c : CL)
    (h : mk coords cs (some b) sel = some (.ok c)) : boxPos b := by
  have := (mk_ok coords cs (some b) sel c h).2.2.2.2.2.2.1
  simpa [boxOk, boxPos] using this

/-- entries of the replicated array: position `si * n + t` holds image `shifts[si]` of the moved-inside atom `t` -/
theorem replicate_getElem? (b : V3) (coords : List V3) (t' : Nat) (p' : V3) :
    (replicate b (coords.map (wrapV b)))[t']? = some p' ↔
      ∃ si t s p, t' = si * coords.length + t ∧ shifts[si]? = some s ∧ coords[t]? = some p ∧
        p' = shiftV b s (wrapV b p) := by
  unfold replicate
  rw [getElem?_flatMap_map (shiftV b) (coords.map (wrapV b)) shifts t' p']
  simp only [List.length_map, List.getElem?_map, Option.map_eq_some_iff]
  constructor
  · rintro ⟨si, t, s, pw, ht, hs, ⟨p, hp, rfl⟩, hx⟩
    exact ⟨si, t, s, p, ht, hs, hp, hx⟩
  · rintro ⟨si, t, s, p, ht, hs, hp, hx⟩
    exact ⟨si, t, s, _, ht, hs, ⟨p, hp, rfl⟩, hx⟩

theorem periodic_exact (coords : List V3) (cs : Rat) (b : V3) (sel : Option (List Bool)) (c : CL)
    (h : mk coords cs (some b) sel = some (.ok c)) (q : V3) (r : Rat) (hr : 0 ≤ r) (t : Nat) :
    t ∈ c.atomsOne q r ↔
      ∃ p, coords[t]? = some p ∧ (selMask sel coords.length)[t]? = some true ∧
        ∃ n : I3, sqDist q (shiftV b n p) ≤ r * r := by
  have hb := boxPos_of_mk coords cs b sel c h
  rw [periodic_replicated coords cs b sel c h q r hr t]
  constructor
  · rintro ⟨t', p', hp', hmod, hs, hd⟩
    obtain ⟨si, t0, s, p, ht', -, hp, rfl⟩ := (replicate_getElem? b coords t' p').mp hp'
    have ht0 : t0 < coords.length := (List.getElem?_eq_some_iff.mp hp).1
    have hm : t' % coords.length = t0 := by
      rw [ht', Nat.mul_add_mod_self_right, Nat.mod_eq_of_lt ht0]
    rw [hm] at hmod hs
    subst hmod
    refine ⟨p, hp, hs, latt b p q s, ?_⟩
    rw [← sqDist_wrap b hb p q s]; exact hd
  · rintro ⟨p, hp, hs, n, hd⟩
    obtain ⟨s, hsm, hd'⟩ := image_of_lattice b hb p q n _ hd
    obtain ⟨si, hsi⟩ := List.mem_iff_getElem?.mp hsm
    have ht0 : t < coords.length := (List.getElem?_eq_some_iff.mp hp).1
    have hm : (si * coords.length + t) % coords.length = t := by
      rw [Nat.mul_add_mod_self_right, Nat.mod_eq_of_lt ht0]
    refine ⟨si * coords.length + t, shiftV b s (wrapV b p), ?_, hm, by rw [hm]; exact hs, hd'⟩
    exact (replicate_getElem? b coords _ _).mpr ⟨si, t, s, p, rfl, hsi, hp, rfl⟩


/-! ## explicit minimum-image distance (orthorhombic) -/

/-- squared minimum-image separation along one axis: `e = d mod L ∈ [0,L)`, `min(e, L-e)²` -/
def minImg1 (L d : Rat) : Rat := min (wrap1 L d * wrap1 L d) ((L - wrap1 L d) * (L - wrap1 L d))

/-- squared minimum-image distance in an orthorhombic box -/
def minImageSq (b q p : V3) : Rat :=
  minImg1 b.x (p.x - q.x) + minImg1 b.y (p.y - q.y) + minImg1 b.z (p.z - q.z)

theorem minImg1_le (L d : Rat) (hL : 0 < L) (m : Int) : minImg1 L d ≤ (d + m * L) * (d + m * L) := by
  unfold minImg1
  have hr := wrap1_range L d hL
  have he : d + m * L = wrap1 L d + ((m + fl L d : Int) : Rat) * L := by
    rw [wrap1_eq' L d hL]; push_cast; ring
  rw [he]
  by_cases hk : 0 ≤ m + fl L d
  · have : (0 : Rat) ≤ ((m + fl L d : Int) : Rat) := by exact_mod_cast hk
    apply min_le_of_left_le
    nlinarith [mul_nonneg this hL.le]
  · have hk' : m + fl L d ≤ -1 := by omega
    have : ((m + fl L d : Int) : Rat) ≤ -1 := by exact_mod_cast hk'
    apply min_le_of_right_le
    nlinarith [mul_le_mul_of_nonneg_right this hL.le]

theorem minImg1_attained (L d : Rat) (hL : 0 < L) : ∃ m : Int, (d + m * L) * (d + m * L) = minImg1 L d := by
  unfold minImg1
  by_cases hc : wrap1 L d * wrap1 L d ≤ (L - wrap1 L d) * (L - wrap1 L d)
  · refine ⟨- fl L d, ?_⟩
    rw [min_eq_left hc, wrap1_eq' L d hL]; push_cast; ring
  · refine ⟨- fl L d - 1, ?_⟩
    rw [min_eq_right (le_of_lt (not_le.mp hc)), wrap1_eq' L d hL]; push_cast; ring

theorem lattice_iff_minImage (b : V3) (hb : boxPos b) (q p : V3) (r2 : Rat) :
    (∃ n : I3, sqDist q (shiftV b n p) ≤ r2) ↔ minImageSq b q p ≤ r2 := by
  obtain ⟨hx, hy, hz⟩ := hb
  constructor
  · rintro ⟨n, h⟩
    simp only [sqDist, shiftV] at h
    have h1 := minImg1_le b.x (p.x - q.x) hx n.i
    have h2 := minImg1_le b.y (p.y - q.y) hy n.j
    have h3 := minImg1_le b.z (p.z - q.z) hz n.k
    unfold minImageSq
    have e1 : p.x + n.i * b.x - q.x = p.x - q.x + n.i * b.x := by ring
    have e2 : p.y + n.j * b.y - q.y = p.y - q.y + n.j * b.y := by ring
    have e3 : p.z + n.k * b.z - q.z = p.z - q.z + n.k * b.z := by ring
    rw [e1, e2, e3] at h
    linarith
  · intro h
    obtain ⟨i, hi⟩ := minImg1_attained b.x (p.x - q.x) hx
    obtain ⟨j, hj⟩ := minImg1_attained b.y (p.y - q.y) hy
    obtain ⟨k, hk⟩ := minImg1_attained b.z (p.z - q.z) hz
    refine ⟨⟨i, j, k⟩, ?_⟩
    simp only [sqDist, shiftV]
    have e1 : p.x + i * b.x - q.x = p.x - q.x + i * b.x := by ring
    have e2 : p.y + j * b.y - q.y = p.y - q.y + j * b.y := by ring
    have e3 : p.z + k * b.z - q.z = p.z - q.z + k * b.z := by ring
    rw [e1, e2, e3, hi, hj, hk]
    exact h


/-! ## periodic cell queries and adjacency -/

theorem abs_le_of_sq_le (x y ρ : Rat) (h : x * x ≤ y * y) (h1 : y ≤ ρ) (h2 : -y ≤ ρ) : x ≤ ρ ∧ -x ≤ ρ := by
  have hρ : 0 ≤ ρ := by linarith
  have hy : y * y ≤ ρ * ρ := by nlinarith [mul_nonneg (sub_nonneg.mpr h1) (by linarith : 0 ≤ ρ + y)]
  constructor
  · by_contra hc; have hc := not_le.mp hc; nlinarith
  · by_contra hc; have hc := not_le.mp hc; nlinarith

theorem near1_image (L d : Rat) (hL : 0 < L) (h1 : -L < d) (h2 : d < L) (m : Int) (ρ : Rat)
    (ha : d + m * L ≤ ρ) (hb : -(d + m * L) ≤ ρ) :
    ∃ s : Int, (s = -1 ∨ s = 0 ∨ s = 1) ∧ d + s * L ≤ ρ ∧ -(d + s * L) ≤ ρ := by
  obtain ⟨s, hs, hsq⟩ := min_image_1d L d hL h1 h2 m
  exact ⟨s, hs, abs_le_of_sq_le _ _ ρ hsq ha hb⟩

theorem image_of_lattice_near (b : V3) (hb : boxPos b) (p q : V3) (n : I3) (ρ : Rat)
    (h : near q (shiftV b n p) ρ) :
    ∃ s ∈ shifts, near (wrapV b q) (shiftV b s (wrapV b p)) ρ := by
  obtain ⟨hx, hy, hz⟩ := hb
  have rx := wrap1_range b.x p.x hx; have rqx := wrap1_range b.x q.x hx
  have ry := wrap1_range b.y p.y hy; have rqy := wrap1_range b.y q.y hy
  have rz := wrap1_range b.z p.z hz; have rqz := wrap1_range b.z q.z hz
  obtain ⟨⟨a1, a2⟩, ⟨b1, b2⟩, ⟨c1, c2⟩⟩ := h
  simp only [shiftV] at a1 a2 b1 b2 c1 c2
  have ex : p.x + n.i * b.x - q.x = wrap1 b.x p.x - wrap1 b.x q.x + ((n.i + fl b.x p.x - fl b.x q.x : Int) : Rat) * b.x := by
    rw [wrap1_eq' _ _ hx, wrap1_eq' _ _ hx]; push_cast; ring
  have ey : p.y + n.j * b.y - q.y = wrap1 b.y p.y - wrap1 b.y q.y + ((n.j + fl b.y p.y - fl b.y q.y : Int) : Rat) * b.y := by
    rw [wrap1_eq' _ _ hy, wrap1_eq' _ _ hy]; push_cast; ring
  have ez : p.z + n.k * b.z - q.z = wrap1 b.z p.z - wrap1 b.z q.z + ((n.k + fl b.z p.z - fl b.z q.z : Int) : Rat) * b.z := by
    rw [wrap1_eq' _ _ hz, wrap1_eq' _ _ hz]; push_cast; ring
  obtain ⟨si, hsi, i1, i2⟩ := near1_image b.x (wrap1 b.x p.x - wrap1 b.x q.x) hx (by linarith) (by linarith)
    (n.i + fl b.x p.x - fl b.x q.x) ρ (by rw [← ex]; exact a1) (by rw [← ex]; linarith)
  obtain ⟨sj, hsj, j1, j2⟩ := near1_image b.y (wrap1 b.y p.y - wrap1 b.y q.y) hy (by linarith) (by linarith)
    (n.j + fl b.y p.y - fl b.y q.y) ρ (by rw [← ey]; exact b1) (by rw [← ey]; linarith)
  obtain ⟨sk, hsk, k1, k2⟩ := near1_image b.z (wrap1 b.z p.z - wrap1 b.z q.z) hz (by linarith) (by linarith)
    (n.k + fl b.z p.z - fl b.z q.z) ρ (by rw [← ez]; exact c1) (by rw [← ez]; linarith)
  refine ⟨⟨si, sj, sk⟩, mem_shifts si sj sk hsi hsj hsk, ?_⟩
  simp only [near, shiftV, wrapV]
  refine ⟨⟨by linarith, by linarith⟩, ⟨by linarith, by linarith⟩, ⟨by linarith, by linarith⟩⟩

theorem periodic_cells_superset (coords : List V3) (cs : Rat) (b : V3) (sel : Option (List Bool)) (c : CL)
    (h : mk coords cs (some b) sel = some (.ok c)) (q : V3) (R : Int) (t : Nat) (p : V3)
    (hp : coords[t]? = some p) (hs : (selMask sel coords.length)[t]? = some true)
    (n : I3) (hn : near q (shiftV b n p) (R * cs)) : t ∈ c.cellsOne q R := by
  have hb := boxPos_of_mk coords cs b sel c h
  obtain ⟨hwf, hcoord, hn', hbox, hcs, -, -, hsel⟩ := mk_ok coords cs (some b) sel c h
  obtain ⟨s, hsm, hnear⟩ := image_of_lattice_near b hb p q n _ hn
  obtain ⟨si, hsi⟩ := List.mem_iff_getElem?.mp hsm
  have ht0 : t < coords.length := (List.getElem?_eq_some_iff.mp hp).1
  have hm : (si * coords.length + t) % coords.length = t := by
    rw [Nat.mul_add_mod_self_right, Nat.mod_eq_of_lt ht0]
  show t ∈ c.post ((c.scan (c.prepQ q) R).map (·.2))
  simp only [CL.post, CL.prepQ, hbox]
  refine List.mem_map.mpr ⟨si * coords.length + t, ?_, by rw [hn']; exact hm⟩
  apply mem_rawCells c hwf (wrapV b q) R _ (shiftV b s (wrapV b p))
  · rw [hcoord]; exact (replicate_getElem? b coords _ _).mpr ⟨si, t, s, p, rfl, hsi, hp, rfl⟩
  · have : c.selected (si * coords.length + t) = (c.sel[t]? == some true) := by
      simp [CL.selected, hn', hm]
    rw [this, hsel, hs]; rfl
  · rw [hcs]; exact hnear

theorem selMask_length (coords : List V3) (sel : Option (List Bool)) (h : selError coords sel = none) :
    (selMask sel coords.length).length = coords.length := by
  unfold selError at h
  cases sel with
  | none => simp [selMask]
  | some s =>
    simp only [selMask]
    by_contra hc
    simp [hc] at h

theorem adjacency_rows (c : CL) (thr : Rat) (rows : List (List Nat))
    (hlen : (c.coord.take c.n).length = c.sel.length) (ha : c.adjacency thr = some (.ok rows)) :
    0 ≤ thr ∧ rows = ((c.coord.take c.n).zip c.sel).map
      (fun ps => if ps.2 then c.atomsOne ps.1 thr else []) := by
  unfold CL.adjacency CL.adjacencyWith at ha
  split at ha
  · simp at ha
  · rename_i hthr
    refine ⟨not_lt.mp hthr, ?_⟩
    simp only at ha
    split at ha
    · rename_i rows0 hb
      simp only [Option.some.injEq, Except.ok.injEq] at ha
      have hsm : ∀ r ∈ (Rad.scalar thr).expand
          (List.filterMap (fun ps : V3 × Bool => if ps.2 = true then some ps.1 else none)
            ((List.take c.n c.coord).zip c.sel)).length, c.cellRadius r < 2 ^ 31 := by
        intro r hr
        simp only [Rad.expand, List.mem_replicate] at hr
        have hq : (List.filterMap (fun ps : V3 × Bool => if ps.2 = true then some ps.1 else none)
            ((List.take c.n c.coord).zip c.sel)) ≠ [] := by
          intro h0; rw [h0] at hr; simp at hr
        rw [hr.2]; exact atomsBatch_scalar_small c _ thr rows0 hq hb
      have hrows0 := atomsBatch_rows c _ _ rows0 hsm hb
      simp only [Rad.expand] at hrows0
      rw [zip_replicate_map (fun q r => c.atomsOne q r)] at hrows0
      rw [hrows0, scatter_spec (fun q => c.atomsOne q thr) _ _ hlen] at ha
      exact ha.symm
    · rename_i hne
      cases hr : c.atomsBatchWith CL.scan _ (Rad.scalar thr) with
      | none => rw [hr] at ha; simp at ha
      | some e =>
        cases e with
        | error e => rw [hr] at ha; simp at ha
        | ok r0 => exact absurd hr (hne r0)

theorem shiftV_zero (b p : V3) : shiftV b ⟨0, 0, 0⟩ p = p := by
  cases p; simp [shiftV]

theorem take_replicate (b : V3) (ps : List V3) : (replicate b ps).take ps.length = ps := by
  unfold replicate shifts
  rw [List.flatMap_cons]
  have : (ps.map (shiftV b ⟨0, 0, 0⟩)) = ps := by
    have hid : shiftV b ⟨0, 0, 0⟩ = id := funext (shiftV_zero b)
    rw [hid, List.map_id]
  rw [this, List.take_left']
  rfl

theorem exists_lattice_wrap (b : V3) (hb : boxPos b) (q p : V3) (r2 : Rat) :
    (∃ n : I3, sqDist (wrapV b q) (shiftV b n p) ≤ r2) ↔ (∃ n : I3, sqDist q (shiftV b n p) ≤ r2) := by
  obtain ⟨hx, hy, hz⟩ := hb
  have key : ∀ n : I3, sqDist (wrapV b q) (shiftV b n p) =
      sqDist q (shiftV b ⟨n.i + fl b.x q.x, n.j + fl b.y q.y, n.k + fl b.z q.z⟩ p) := by
    intro n
    simp only [sqDist, wrapV, shiftV, wrap1_eq' _ _ hx, wrap1_eq' _ _ hy, wrap1_eq' _ _ hz]
    push_cast; ring
  constructor
  · rintro ⟨n, h⟩; exact ⟨_, by rw [← key]; exact h⟩
  · rintro ⟨n, h⟩
    refine ⟨⟨n.i - fl b.x q.x, n.j - fl b.y q.y, n.k - fl b.z q.z⟩, ?_⟩
    rw [key]
    simpa using h

theorem sqDist_shift_symm (b a c : V3) (n : I3) :
    sqDist a (shiftV b n c) = sqDist c (shiftV b ⟨-n.i, -n.j, -n.k⟩ a) := by
  simp only [sqDist, shiftV]; push_cast; ring


/-! ## general box matrix -/

theorem mkG_ok (coords : List V3) (cs : Rat) (B : M3) (sel : Option (List Bool)) (c : CL)
    (h : mkG coords cs B sel = some (.ok c)) :
    c.WF ∧ c.coord = allCoordsG coords B ∧ c.n = coords.length ∧ c.box = none ∧ c.cs = cs ∧
    selError coords sel = none ∧ B.det ≠ 0 ∧ c.sel = selMask sel coords.length := by
  unfold mkG at h
  split at h
  · simp at h
  · rename_i hsel
    split at h
    · simp at h
    · rename_i hdet
      split at h
      · simp at h
      · rename_i hcs
        split at h
        · simp at h
        · rename_i p ps hall
          simp only [Option.some.injEq, Except.ok.injEq] at h
          subst h
          refine ⟨⟨by simp only [buildG]; linarith, ?_, ?_⟩, rfl, rfl, rfl, rfl, hsel, hdet, rfl⟩
          · intro q hq
            have hq' : q ∈ p :: ps := by simpa [buildG, hall] using hq
            exact ⟨bounds_lo (·.x) p ps q hq', bounds_lo (·.y) p ps q hq', bounds_lo (·.z) p ps q hq'⟩
          · intro q hq
            have hq' : q ∈ p :: ps := by simpa [buildG, hall] using hq
            exact ⟨bounds_hi (·.x) p ps q hq', bounds_hi (·.y) p ps q hq', bounds_hi (·.z) p ps q hq'⟩

theorem replicateG_getElem? (B : M3) (coords : List V3) (t' : Nat) (p' : V3) :
    (replicateG B (coords.map (wrapG B)))[t']? = some p' ↔
      ∃ si t s p, t' = si * coords.length + t ∧ shifts[si]? = some s ∧ coords[t]? = some p ∧
        p' = shiftG B s (wrapG B p) := by
  unfold replicateG
  rw [getElem?_flatMap_map (shiftG B) (coords.map (wrapG B)) shifts t' p']
  simp only [List.length_map, List.getElem?_map, Option.map_eq_some_iff]
  constructor
  · rintro ⟨si, t, s, pw, ht, hs, ⟨p, hp, rfl⟩, hx⟩
    exact ⟨si, t, s, p, ht, hs, hp, hx⟩
  · rintro ⟨si, t, s, p, ht, hs, hp, hx⟩
    exact ⟨si, t, s, _, ht, hs, ⟨p, hp, rfl⟩, hx⟩

/-- What the code computes for ANY invertible box: exactness w.r.t. the 27 images of the moved-inside atom. -/
theorem periodicG_exact27 (coords : List V3) (cs : Rat) (B : M3) (sel : Option (List Bool)) (c : CL)
    (h : mkG coords cs B sel = some (.ok c)) (q : V3) (r : Rat) (hr : 0 ≤ r) (t : Nat) :
    t ∈ c.atomsOneG B q r ↔
      ∃ p, coords[t]? = some p ∧ (selMask sel coords.length)[t]? = some true ∧
        ∃ s ∈ shifts, sqDist (wrapG B q) (shiftG B s (wrapG B p)) ≤ r * r := by
  obtain ⟨hwf, hcoord, hn, hbox, -, -, -, hsel⟩ := mkG_ok coords cs B sel c h
  unfold CL.atomsOneG
  rw [atomsOne_eq]
  simp only [CL.post, CL.prepQ, hbox, List.mem_map]
  constructor
  · rintro ⟨t', ht', rfl⟩
    obtain ⟨p', hp', hs, hd⟩ := (mem_rawAtoms c hwf (wrapG B q) r hr t').mp ht'
    rw [hcoord] at hp'
    obtain ⟨si, t0, s, p, ht'', hsi, hp, rfl⟩ := (replicateG_getElem? B coords t' p').mp hp'
    have ht0 : t0 < coords.length := (List.getElem?_eq_some_iff.mp hp).1
    have hm : t' % c.n = t0 := by
      rw [hn, ht'', Nat.mul_add_mod_self_right, Nat.mod_eq_of_lt ht0]
    rw [hm]
    refine ⟨p, hp, ?_, s, List.mem_of_getElem? hsi, hd⟩
    have : c.selected t' = (c.sel[t0]? == some true) := by simp [CL.selected, hm]
    rw [this, hsel] at hs
    simpa using hs
  · rintro ⟨p, hp, hs, s, hsm, hd⟩
    obtain ⟨si, hsi⟩ := List.mem_iff_getElem?.mp hsm
    have ht0 : t < coords.length := (List.getElem?_eq_some_iff.mp hp).1
    have hm : (si * coords.length + t) % c.n = t := by
      rw [hn, Nat.mul_add_mod_self_right, Nat.mod_eq_of_lt ht0]
    refine ⟨si * coords.length + t, ?_, hm⟩
    apply (mem_rawAtoms c hwf (wrapG B q) r hr _).mpr
    refine ⟨shiftG B s (wrapG B p), ?_, ?_, hd⟩
    · rw [hcoord]; exact (replicateG_getElem? B coords _ _).mpr ⟨si, t, s, p, rfl, hsi, hp, rfl⟩
    · have : c.selected (si * coords.length + t) = (c.sel[t]? == some true) := by simp [CL.selected, hm]
      rw [this, hsel, hs]; rfl


/-! ## fractional coordinates: `p·B⁻¹·B = p`, `f·B·B⁻¹ = f` -/

theorem vecMul_inv_left (B : M3) (hdet : B.det ≠ 0) (p : V3) : vecMul (vecMul p B.inv) B = p := by
  obtain ⟨x, y, z⟩ := p
  obtain ⟨⟨a1, a2, a3⟩, ⟨b1, b2, b3⟩, ⟨c1, c2, c3⟩⟩ := B
  simp only [vecMul, M3.inv, V3.mk.injEq]
  have hD' : M3.det ⟨⟨a1, a2, a3⟩, ⟨b1, b2, b3⟩, ⟨c1, c2, c3⟩⟩ =
      a1 * (b2 * c3 - b3 * c2) - a2 * (b1 * c3 - b3 * c1) + a3 * (b1 * c2 - b2 * c1) := rfl
  generalize M3.det ⟨⟨a1, a2, a3⟩, ⟨b1, b2, b3⟩, ⟨c1, c2, c3⟩⟩ = D at hdet hD' ⊢
  refine ⟨?_, ?_, ?_⟩ <;> (field_simp; rw [hD']; ring)

theorem vecMul_inv_right (B : M3) (hdet : B.det ≠ 0) (f : V3) : vecMul (vecMul f B) B.inv = f := by
  obtain ⟨x, y, z⟩ := f
  obtain ⟨⟨a1, a2, a3⟩, ⟨b1, b2, b3⟩, ⟨c1, c2, c3⟩⟩ := B
  simp only [vecMul, M3.inv, V3.mk.injEq]
  have hD' : M3.det ⟨⟨a1, a2, a3⟩, ⟨b1, b2, b3⟩, ⟨c1, c2, c3⟩⟩ =
      a1 * (b2 * c3 - b3 * c2) - a2 * (b1 * c3 - b3 * c1) + a3 * (b1 * c2 - b2 * c1) := rfl
  generalize M3.det ⟨⟨a1, a2, a3⟩, ⟨b1, b2, b3⟩, ⟨c1, c2, c3⟩⟩ = D at hdet hD' ⊢
  refine ⟨?_, ?_, ?_⟩ <;> (field_simp; rw [hD']; ring)

def nsq (v : V3) : Rat := v.x * v.x + v.y * v.y + v.z * v.z

/-- `d + m` for a fractional vector `d` and an integer vector `m` -/
def addI (d : V3) (m : I3) : V3 := ⟨d.x + m.i, d.y + m.j, d.z + m.k⟩

def subV (a b : V3) : V3 := ⟨a.x - b.x, a.y - b.y, a.z - b.z⟩

def floorI (f : V3) : I3 := ⟨f.x.floor, f.y.floor, f.z.floor⟩

/-- distance between images of the moved-inside points, in fractional coordinates -/
theorem sqDist_wrapG (B : M3) (p q : V3) (s : I3) :
    sqDist (wrapG B q) (shiftG B s (wrapG B p)) =
      nsq (vecMul (addI (subV (fracV (vecMul p B.inv)) (fracV (vecMul q B.inv))) s) B) := by
  simp only [sqDist, wrapG, shiftG, nsq, vecMul, addI, subV]
  ring

/-- distance between a lattice translate of the original atom and the original query, in fractional coordinates -/
theorem sqDist_latticeG (B : M3) (hdet : B.det ≠ 0) (p q : V3) (n : I3) :
    sqDist q (shiftG B n p) =
      nsq (vecMul (addI (subV (fracV (vecMul p B.inv)) (fracV (vecMul q B.inv)))
        ⟨n.i + (floorI (vecMul p B.inv)).i - (floorI (vecMul q B.inv)).i,
         n.j + (floorI (vecMul p B.inv)).j - (floorI (vecMul q B.inv)).j,
         n.k + (floorI (vecMul p B.inv)).k - (floorI (vecMul q B.inv)).k⟩) B) := by
  have hp := vecMul_inv_left B hdet p
  have hq := vecMul_inv_left B hdet q
  generalize vecMul p B.inv = fp at hp
  generalize vecMul q B.inv = fq at hq
  subst hp; subst hq
  simp only [sqDist, shiftG, nsq, vecMul, addI, subV, fracV, floorI]
  push_cast
  ring

theorem fracV_range (f : V3) : (0 ≤ (fracV f).x ∧ (fracV f).x < 1) ∧ (0 ≤ (fracV f).y ∧ (fracV f).y < 1) ∧
    (0 ≤ (fracV f).z ∧ (fracV f).z < 1) := by
  have h1 := Rat.floor_le f.x; have h2 := Rat.lt_floor_add_one f.x
  have h3 := Rat.floor_le f.y; have h4 := Rat.lt_floor_add_one f.y
  have h5 := Rat.floor_le f.z; have h6 := Rat.lt_floor_add_one f.z
  push_cast at h2 h4 h6
  simp only [fracV]
  refine ⟨⟨by linarith, by linarith⟩, ⟨by linarith, by linarith⟩, ⟨by linarith, by linarith⟩⟩

/-- components strictly between -1 and 1 -/
def small (d : V3) : Prop := (-1 < d.x ∧ d.x < 1) ∧ (-1 < d.y ∧ d.y < 1) ∧ (-1 < d.z ∧ d.z < 1)

theorem small_sub_frac (f g : V3) : small (subV (fracV f) (fracV g)) := by
  obtain ⟨⟨a1, a2⟩, ⟨a3, a4⟩, ⟨a5, a6⟩⟩ := fracV_range f
  obtain ⟨⟨b1, b2⟩, ⟨b3, b4⟩, ⟨b5, b6⟩⟩ := fracV_range g
  simp only [small, subV]
  refine ⟨⟨by linarith, by linarith⟩, ⟨by linarith, by linarith⟩, ⟨by linarith, by linarith⟩⟩

/-- "the 27 images are enough at squared radius `r2`" as a statement about the quadratic form of the box -/
def Sufficient (B : M3) (r2 : Rat) : Prop :=
  ∀ (d : V3) (m : I3), small d → nsq (vecMul (addI d m) B) ≤ r2 →
    ∃ s ∈ shifts, nsq (vecMul (addI d s) B) ≤ r2

/-- 27-image set ⊆ all-lattice set, always; ⊇ whenever the 27 images are sufficient. -/
theorem images27_iff_lattice (B : M3) (hdet : B.det ≠ 0) (p q : V3) (r2 : Rat) (hs : Sufficient B r2) :
    (∃ s ∈ shifts, sqDist (wrapG B q) (shiftG B s (wrapG B p)) ≤ r2) ↔
      (∃ n : I3, sqDist q (shiftG B n p) ≤ r2) := by
  constructor
  · rintro ⟨s, -, h⟩
    refine ⟨⟨s.i - (floorI (vecMul p B.inv)).i + (floorI (vecMul q B.inv)).i,
             s.j - (floorI (vecMul p B.inv)).j + (floorI (vecMul q B.inv)).j,
             s.k - (floorI (vecMul p B.inv)).k + (floorI (vecMul q B.inv)).k⟩, ?_⟩
    rw [sqDist_latticeG B hdet]
    rw [sqDist_wrapG] at h
    dsimp only
    have e : (⟨s.i - (floorI (vecMul p B.inv)).i + (floorI (vecMul q B.inv)).i + (floorI (vecMul p B.inv)).i -
                (floorI (vecMul q B.inv)).i,
              s.j - (floorI (vecMul p B.inv)).j + (floorI (vecMul q B.inv)).j + (floorI (vecMul p B.inv)).j -
                (floorI (vecMul q B.inv)).j,
              s.k - (floorI (vecMul p B.inv)).k + (floorI (vecMul q B.inv)).k + (floorI (vecMul p B.inv)).k -
                (floorI (vecMul q B.inv)).k⟩ : I3) = s := by
      obtain ⟨i, j, k⟩ := s
      simp only [I3.mk.injEq]
      refine ⟨by omega, by omega, by omega⟩
    rw [e]; exact h
  · rintro ⟨n, h⟩
    rw [sqDist_latticeG B hdet] at h
    obtain ⟨s, hsm, hle⟩ := hs _ _ (small_sub_frac _ _) h
    exact ⟨s, hsm, by rw [sqDist_wrapG]; exact hle⟩


/-! ## when are the 27 images sufficient? -/

def dot (a b : V3) : Rat := a.x * b.x + a.y * b.y + a.z * b.z

/-- pairwise orthogonal box vectors, in any orientation -/
def OrthoRows (B : M3) : Prop := dot B.a B.b = 0 ∧ dot B.a B.c = 0 ∧ dot B.b B.c = 0

theorem nsq_vecMul (g : V3) (B : M3) :
    nsq (vecMul g B) = g.x * g.x * dot B.a B.a + g.y * g.y * dot B.b B.b + g.z * g.z * dot B.c B.c +
      2 * (g.x * g.y) * dot B.a B.b + 2 * (g.x * g.z) * dot B.a B.c + 2 * (g.y * g.z) * dot B.b B.c := by
  simp only [nsq, vecMul, dot]; ring

theorem dot_self_nonneg (a : V3) : 0 ≤ dot a a := by
  unfold dot; nlinarith [mul_self_nonneg a.x, mul_self_nonneg a.y, mul_self_nonneg a.z]

/-- Orthogonal box vectors (any orientation): the 27 images are sufficient for every radius. -/
theorem sufficient_of_ortho (B : M3) (ho : OrthoRows B) (r2 : Rat) : Sufficient B r2 := by
  intro d m hd h
  obtain ⟨⟨x1, x2⟩, ⟨y1, y2⟩, ⟨z1, z2⟩⟩ := hd
  obtain ⟨o1, o2, o3⟩ := ho
  obtain ⟨si, hsi, hi⟩ := min_image_1d 1 d.x one_pos (by linarith) x2 m.i
  obtain ⟨sj, hsj, hj⟩ := min_image_1d 1 d.y one_pos (by linarith) y2 m.j
  obtain ⟨sk, hsk, hk⟩ := min_image_1d 1 d.z one_pos (by linarith) z2 m.k
  refine ⟨⟨si, sj, sk⟩, mem_shifts si sj sk hsi hsj hsk, ?_⟩
  rw [nsq_vecMul] at h ⊢
  simp only [addI, o1, o2, o3, mul_zero, add_zero] at h ⊢
  simp only [mul_one] at hi hj hk
  have ha := dot_self_nonneg B.a
  have hb := dot_self_nonneg B.b
  have hc := dot_self_nonneg B.c
  have t1 := mul_le_mul_of_nonneg_right hi ha
  have t2 := mul_le_mul_of_nonneg_right hj hb
  have t3 := mul_le_mul_of_nonneg_right hk hc
  linarith

theorem cauchy_schwarz3 (v1 v2 v3 u1 u2 u3 : Rat) :
    (v1 * u1 + v2 * u2 + v3 * u3) * (v1 * u1 + v2 * u2 + v3 * u3) ≤
      (v1 * v1 + v2 * v2 + v3 * v3) * (u1 * u1 + u2 * u2 + u3 * u3) := by
  nlinarith [mul_self_nonneg (v1 * u2 - v2 * u1), mul_self_nonneg (v1 * u3 - v3 * u1),
    mul_self_nonneg (v2 * u3 - v3 * u2)]

/-- squared norms of the columns of `B⁻¹` (= 1 / height², the heights of the box) -/
def colSq (B : M3) : V3 :=
  ⟨B.inv.a.x * B.inv.a.x + B.inv.b.x * B.inv.b.x + B.inv.c.x * B.inv.c.x,
   B.inv.a.y * B.inv.a.y + B.inv.b.y * B.inv.b.y + B.inv.c.y * B.inv.c.y,
   B.inv.a.z * B.inv.a.z + B.inv.b.z * B.inv.b.z + B.inv.c.z * B.inv.c.z⟩

/-- `r ≤ half of every box height`, squared: `4 r² ≤ hᵢ²`, i.e. `4 r² |colᵢ(B⁻¹)|² ≤ 1`. -/
def HalfHeight (B : M3) (r2 : Rat) : Prop :=
  4 * r2 * (colSq B).x ≤ 1 ∧ 4 * r2 * (colSq B).y ≤ 1 ∧ 4 * r2 * (colSq B).z ≤ 1

theorem int_of_half (d : Rat) (m : Int) (h1 : -1 < d) (h2 : d < 1) (h : 4 * ((d + m) * (d + m)) ≤ 1) :
    m = -1 ∨ m = 0 ∨ m = 1 := by
  have hb : d + m ≤ 1 / 2 ∧ -(d + m) ≤ 1 / 2 := by
    constructor
    · by_contra hc; have hc := not_le.mp hc; nlinarith
    · by_contra hc; have hc := not_le.mp hc; nlinarith
  have hu : (m : Rat) < 2 := by linarith [hb.1]
  have hl : (-2 : Rat) < m := by linarith [hb.2]
  have hu' : m < 2 := by exact_mod_cast hu
  have hl' : -2 < m := by exact_mod_cast hl
  omega

theorem bound_half (g N C r2 : Rat) (cs : g * g ≤ N * C) (nv : N ≤ r2) (c0 : 0 ≤ C) (h1 : 4 * r2 * C ≤ 1) :
    4 * (g * g) ≤ 1 := by
  have t : N * C ≤ r2 * C := mul_le_mul_of_nonneg_right nv c0
  have e : 4 * r2 * C = 4 * (r2 * C) := by ring
  linarith

theorem sumsq_nonneg (a b c : Rat) : 0 ≤ a * a + b * b + c * c := by
  nlinarith [mul_self_nonneg a, mul_self_nonneg b, mul_self_nonneg c]

/-- General triclinic box: the 27 images are sufficient up to half the smallest box height. -/
theorem sufficient_of_halfHeight (B : M3) (hdet : B.det ≠ 0) (r2 : Rat) (hh : HalfHeight B r2) :
    Sufficient B r2 := by
  intro d m hd h
  obtain ⟨⟨x1, x2⟩, ⟨y1, y2⟩, ⟨z1, z2⟩⟩ := hd
  obtain ⟨h1, h2, h3⟩ := hh
  -- the fractional components of v = (d+m)·B are recovered by B⁻¹ and bounded by Cauchy–Schwarz
  have hinv := vecMul_inv_right B hdet (addI d m)
  set v := vecMul (addI d m) B with hv
  have ex : d.x + m.i = v.x * B.inv.a.x + v.y * B.inv.b.x + v.z * B.inv.c.x := by
    have := congrArg V3.x hinv; simpa [vecMul, addI] using this.symm
  have ey : d.y + m.j = v.x * B.inv.a.y + v.y * B.inv.b.y + v.z * B.inv.c.y := by
    have := congrArg V3.y hinv; simpa [vecMul, addI] using this.symm
  have ez : d.z + m.k = v.x * B.inv.a.z + v.y * B.inv.b.z + v.z * B.inv.c.z := by
    have := congrArg V3.z hinv; simpa [vecMul, addI] using this.symm
  have cx := cauchy_schwarz3 v.x v.y v.z B.inv.a.x B.inv.b.x B.inv.c.x
  have cy := cauchy_schwarz3 v.x v.y v.z B.inv.a.y B.inv.b.y B.inv.c.y
  have cz := cauchy_schwarz3 v.x v.y v.z B.inv.a.z B.inv.b.z B.inv.c.z
  rw [← ex] at cx; rw [← ey] at cy; rw [← ez] at cz
  simp only [colSq] at h1 h2 h3
  have nv : v.x * v.x + v.y * v.y + v.z * v.z ≤ r2 := h
  have kx : 4 * ((d.x + m.i) * (d.x + m.i)) ≤ 1 :=
    bound_half _ _ _ r2 cx nv (sumsq_nonneg _ _ _) h1
  have ky : 4 * ((d.y + m.j) * (d.y + m.j)) ≤ 1 :=
    bound_half _ _ _ r2 cy nv (sumsq_nonneg _ _ _) h2
  have kz : 4 * ((d.z + m.k) * (d.z + m.k)) ≤ 1 :=
    bound_half _ _ _ r2 cz nv (sumsq_nonneg _ _ _) h3
  have mi := int_of_half d.x m.i x1 x2 kx
  have mj := int_of_half d.y m.j y1 y2 ky
  have mk := int_of_half d.z m.k z1 z2 kz
  exact ⟨m, by obtain ⟨i, j, k⟩ := m; exact mem_shifts i j k mi mj mk, h⟩


end BiotiteModel.C14

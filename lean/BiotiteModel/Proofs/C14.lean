import BiotiteModel.Model.C14
namespace BiotiteModel.C14
end BiotiteModel.C14

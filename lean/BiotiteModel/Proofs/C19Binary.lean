import BiotiteModel.Model.C19Tree
import Mathlib.Tactic.Ring
/-! `as_binary` keeps the leaves (in depth-first order) and every leaf-to-leaf distance. -/
namespace BiotiteModel.C19

/-- One entry per leaf in depth-first order: its depth below the current node and its distances to
all *later* leaves — the upper triangle of the leaf-to-leaf distance matrix. -/
abbrev Rows := List (Rat × List Rat)

/-- Put a branch of length `x` on top: every depth grows by `x`, distances stay. -/
def shift (x : Rat) (R : Rows) : Rows := R.map fun r => (r.1 + x, r.2)

/-- Distances from a leaf at depth `x` to the leaves of a later sibling group `B` (through the
common parent): depth + depth. -/
def ds (x : Rat) (B : Rows) : List Rat := B.map fun b => x + b.1

/-- Sibling groups `A` (earlier) and `B` (later) under one parent. -/
def glue (A B : Rows) : Rows := A.map (fun a => (a.1, a.2 ++ ds a.1 B)) ++ B

mutual
def T.rows : T Rat → Rows
  | .leaf _ => [(0, [])]
  | .node cs => cs.rows
def F.rows : F Rat → Rows
  | .nil => []
  | .cons d c r => glue (shift d c.rows) r.rows
end

/-- The per-child shifted rows of a forest. -/
def F.srows : F Rat → List Rows
  | .nil => []
  | .cons d c r => shift d c.rows :: r.srows

theorem F.rows_eq_foldr : ∀ f : F Rat, f.rows = f.srows.foldr glue []
  | .nil => rfl
  | .cons d c r => by simp [F.rows, F.srows, F.rows_eq_foldr r]

theorem glue_nil (A : Rows) : glue A [] = A := by
  simp [glue, ds]

theorem ds_map_fst (x : Rat) (B : Rows) (f : Rat × List Rat → Rat × List Rat) (hf : ∀ b, (f b).1 = b.1) :
    ds x (B.map f) = ds x B := by
  simp [ds, List.map_map, Function.comp_def, hf]

theorem ds_append (x : Rat) (A B : Rows) : ds x (A ++ B) = ds x A ++ ds x B := by simp [ds]

theorem glue_assoc (A B C : Rows) : glue (glue A B) C = glue A (glue B C) := by
  simp only [glue, List.map_append, List.map_map, List.append_assoc, ds_append]
  congr 1
  apply List.map_congr_left
  intro a _
  simp only [Function.comp_def, List.append_assoc]
  rw [ds_map_fst a.1 B (fun b => (b.1, b.2 ++ ds b.1 C)) (fun _ => rfl)]

theorem shift_zero (R : Rows) : shift 0 R = R := by
  simp [shift]

theorem shift_shift (x y : Rat) (R : Rows) : shift y (shift x R) = shift (x + y) R := by
  simp only [shift, List.map_map]
  apply List.map_congr_left
  intro r _
  simp only [Function.comp_def]
  congr 1
  ring

theorem foldl_glue (L : List Rows) : ∀ A : Rows, L.foldl glue A = glue A (L.foldr glue []) := by
  induction L with
  | nil => intro A; simp [glue_nil]
  | cons x L ih => intro A; simp [ih, glue_assoc]

theorem binFold_rows : ∀ (L : List (T Rat × Rat)) (cur : T Rat),
    (binFold cur L).rows = (L.map fun cd => shift cd.2 cd.1.rows).foldl glue cur.rows
  | [], _ => rfl
  | (c, d) :: rest, cur => by
    simp only [binFold, List.map_cons, List.foldl_cons]
    rw [binFold_rows rest]
    simp [T.rows, F.rows, shift_zero, glue_nil]

theorem binFold_leaves : ∀ (L : List (T Rat × Rat)) (cur : T Rat),
    (binFold cur L).leaves = cur.leaves ++ L.flatMap (fun cd => cd.1.leaves)
  | [], _ => by simp [binFold]
  | (c, d) :: rest, cur => by
    simp only [binFold, List.flatMap_cons]
    rw [binFold_leaves rest]
    simp [T.leaves, F.leaves]

mutual
theorem T.bin_spec : ∀ (t : T Rat) (e : Rat),
    shift (t.bin e).2 (t.bin e).1.rows = shift e t.rows ∧ (t.bin e).1.leaves = t.leaves
  | .leaf i, e => by simp [T.bin]
  | .node .nil, e => by simp [T.bin]
  | .node (.cons d c .nil), e => by
    have ih := T.bin_spec c d
    rcases h : c.bin d with ⟨c', dist⟩
    rw [h] at ih
    simp only [T.bin, h]
    constructor
    · have : (T.node (.cons d c .nil)).rows = shift d c.rows := by
        simp [T.rows, F.rows, glue_nil]
      rw [this, ← ih.1, shift_shift]
      show shift (e + dist) c'.rows = shift (dist + e) c'.rows
      congr 1; ring
    · simpa [T.leaves, F.leaves] using ih.2
  | .node (.cons d1 c1 (.cons d2 c2 .nil)), e => by
    have ih1 := T.bin_spec c1 d1
    have ih2 := T.bin_spec c2 d2
    rcases h1 : c1.bin d1 with ⟨a, da⟩
    rcases h2 : c2.bin d2 with ⟨b, db⟩
    rw [h1] at ih1
    rw [h2] at ih2
    simp only [T.bin, h1, h2]
    constructor
    · simp only [T.rows, F.rows] at ih1 ih2 ⊢
      rw [ih1.1, ih2.1]
    · simp only [T.leaves, F.leaves] at ih1 ih2 ⊢
      rw [ih1.2, ih2.2]
  | .node (.cons d1 c1 (.cons d2 c2 (.cons d3 c3 r))), e => by
    have ih1 := T.bin_spec c1 d1
    have ih2 := T.bin_spec c2 d2
    have ih3 := F.bin_spec (.cons d3 c3 r)
    rcases h1 : c1.bin d1 with ⟨a, da⟩
    rcases h2 : c2.bin d2 with ⟨b, db⟩
    rw [h1] at ih1
    rw [h2] at ih2
    simp only [T.bin, h1, h2]
    constructor
    · congr 1
      rw [binFold_rows, ih3.1, foldl_glue]
      simp only [T.rows, F.rows] at ih1 ih2 ⊢
      rw [ih1.1, ih2.1, glue_nil, glue_assoc, ← F.rows_eq_foldr]
      simp [F.rows]
    · rw [binFold_leaves, ih3.2]
      simp only [T.leaves, F.leaves] at ih1 ih2 ⊢
      rw [ih1.2, ih2.2]
      simp
theorem F.bin_spec : ∀ f : F Rat,
    (f.binList.map fun cd => shift cd.2 cd.1.rows) = f.srows ∧
      f.binList.flatMap (fun cd => cd.1.leaves) = f.leaves
  | .nil => by simp [F.binList, F.srows, F.leaves]
  | .cons d c r => by
    have ih1 := T.bin_spec c d
    have ih2 := F.bin_spec r
    simp [F.binList, F.srows, F.leaves, ih1.1, ih1.2, ih2.1, ih2.2]
end


/-! ### the result is binary -/
mutual
/-- Every intermediate node has exactly two children. -/
def T.isBin : T Rat → Bool
  | .leaf _ => true
  | .node (.cons _ a (.cons _ b .nil)) => a.isBin && b.isBin
  | .node _ => false
end

theorem binFold_isBin : ∀ (L : List (T Rat × Rat)) (cur : T Rat), cur.isBin = true →
    (∀ cd ∈ L, cd.1.isBin = true) → (binFold cur L).isBin = true
  | [], _, h, _ => h
  | (c, d) :: rest, cur, h, hL => by
    simp only [binFold]
    apply binFold_isBin rest
    · simp [T.isBin, h, hL (c, d) (by simp)]
    · intro cd hcd; exact hL cd (by simp [hcd])

mutual
theorem T.bin_isBin : ∀ (t : T Rat) (e : Rat), t.WF = true → (t.bin e).1.isBin = true
  | .leaf i, e, _ => by simp [T.bin, T.isBin]
  | .node .nil, e, h => by simp [T.WF] at h
  | .node (.cons d c .nil), e, h => by
    have hc : c.WF = true := by simpa [T.WF, F.WF] using h
    have := T.bin_isBin c d hc
    rcases h1 : c.bin d with ⟨c', dist⟩
    rw [h1] at this
    simpa [T.bin, h1] using this
  | .node (.cons d1 c1 (.cons d2 c2 .nil)), e, h => by
    have hc : c1.WF = true ∧ c2.WF = true := by simpa [T.WF, F.WF] using h
    have i1 := T.bin_isBin c1 d1 hc.1
    have i2 := T.bin_isBin c2 d2 hc.2
    rcases h1 : c1.bin d1 with ⟨a, da⟩
    rcases h2 : c2.bin d2 with ⟨b, db⟩
    rw [h1] at i1
    rw [h2] at i2
    simp only [T.bin, h1, h2, T.isBin]
    simp at i1 i2
    simp [i1, i2]
  | .node (.cons d1 c1 (.cons d2 c2 (.cons d3 c3 r))), e, h => by
    have hc : c1.WF = true ∧ c2.WF = true ∧ c3.WF = true ∧ r.WF = true := by
      simpa [T.WF, F.WF, and_assoc] using h
    have i1 := T.bin_isBin c1 d1 hc.1
    have i2 := T.bin_isBin c2 d2 hc.2.1
    have i3 := F.binList_isBin (.cons d3 c3 r) (by simp [F.WF, hc.2.2.1, hc.2.2.2])
    rcases h1 : c1.bin d1 with ⟨a, da⟩
    rcases h2 : c2.bin d2 with ⟨b, db⟩
    rw [h1] at i1
    rw [h2] at i2
    simp only [T.bin, h1, h2]
    apply binFold_isBin _ _ _ i3
    simp only [T.isBin]
    simp at i1 i2
    simp [i1, i2]
theorem F.binList_isBin : ∀ f : F Rat, f.WF = true → ∀ cd ∈ f.binList, cd.1.isBin = true
  | .nil, _ => by simp [F.binList]
  | .cons d c r, h => by
    have hc : c.WF = true ∧ r.WF = true := by simpa [F.WF] using h
    intro cd hcd
    simp only [F.binList, List.mem_cons] at hcd
    rcases hcd with hcd | hcd
    · subst hcd; exact T.bin_isBin c d hc.1
    · exact F.binList_isBin r hc.2 cd hcd
end

theorem rows_snd_shift (x : Rat) (R : Rows) : (shift x R).map (·.2) = R.map (·.2) := by
  simp [shift, List.map_map, Function.comp_def]

/-- **`as_binary(Tree)`**: succeeds on every tree `Tree()` accepts, the result is binary, has the same
leaves in the same depth-first order, and the same leaf-to-leaf distance for every pair of leaves. -/
theorem asBinary_spec (t : T Rat) (hwf : t.WF = true) (ht : mkTree t = .ok t) :
    ∃ b, asBinary t = .ok b ∧ b.isBin = true ∧ b.leaves = t.leaves ∧
      b.rows.map (·.2) = t.rows.map (·.2) := by
  have hs := T.bin_spec t 0
  refine ⟨(t.bin 0).1, ?_, T.bin_isBin t 0 hwf, hs.2, ?_⟩
  · simp only [asBinary, mkTree, hs.2] at ht ⊢
    split at ht
    · rename_i hc; simp [hc]
    · cases ht
  · have := congrArg (fun R => R.map (·.2)) hs.1
    simpa [rows_snd_shift] using this

end BiotiteModel.C19

import BiotiteModel.Model.C09
import BiotiteModel.Proofs.C09
import BiotiteModel.Proofs.C08
/-! The gapped X-drop region fill (`regionLin`) with a threshold that cannot bind is the anchored global DP table. -/
namespace BiotiteModel.C09
open BiotiteModel BiotiteModel.C08

/-! ## `rangeIncl` -/

theorem rangeIncl_eq_range' (lo hi : Nat) : rangeIncl lo hi = List.range' lo (hi + 1 - lo) := by
  unfold rangeIncl
  rw [List.range'_eq_map_range]
  apply List.map_congr_left
  intro a _; omega

theorem rangeIncl_nil (lo hi : Nat) (h : hi < lo) : rangeIncl lo hi = [] := by
  rw [rangeIncl_eq_range']
  have : hi + 1 - lo = 0 := by omega
  rw [this]; rfl

theorem rangeIncl_cons (lo hi : Nat) (h : lo ≤ hi) : rangeIncl lo hi = lo :: rangeIncl (lo + 1) hi := by
  rw [rangeIncl_eq_range', rangeIncl_eq_range']
  have : hi + 1 - lo = (hi + 1 - (lo + 1)) + 1 := by omega
  rw [this, List.range'_succ]

theorem rangeIncl_snoc (lo hi : Nat) (h : lo ≤ hi + 1) : rangeIncl lo (hi + 1) = rangeIncl lo hi ++ [hi + 1] := by
  rw [rangeIncl_eq_range', rangeIncl_eq_range']
  have : hi + 1 + 1 - lo = (hi + 1 - lo) + 1 := by omega
  rw [this, List.range'_concat]
  congr 2
  simp; omega

/-! ## one cell -/

/-- the score `_fill_align_table` computes for cell `(i, k - i)` (the `_max` code path) -/
def cellSc (M : Mat) (g : Int) (x y : Seq) (k : Nat) (d1 d2 : List (Nat × Int)) (i : Nat) : Int :=
  let j := k - i
  let fromDiag : Int :=
    if i ≠ 0 ∧ j ≠ 0 then
      let d := lookup0 d2 (i - 1)
      if d ≠ 0 then d + M (x.getD (i - 1) 0) (y.getD (j - 1) 0) else 0
    else 0
  let fromTop : Int := if i ≠ 0 then lookup0 d1 (i - 1) + g else 0
  let fromLeft : Int := if j ≠ 0 then lookup0 d1 i + g else 0
  max fromDiag (max fromLeft fromTop)

theorem regCellsLin_cons (M : Mat) (g thr : Int) (x y : Seq) (k : Nat) (d1 d2 : List (Nat × Int)) (i : Nat)
    (rest : List Nat) (cur : List (Nat × Int)) (mn mx : Nat) (best : Int) :
    regCellsLin true M g thr x y k d1 d2 (i :: rest) (cur, mn, mx, best) =
      if cellSc M g x y k d1 d2 i ≥ best - thr then
        regCellsLin true M g thr x y k d1 d2 rest
          ((i, cellSc M g x y k d1 d2 i) :: cur, (if mn = k then i else mn), i,
            (if cellSc M g x y k d1 d2 i > best then cellSc M g x y k d1 d2 i else best))
      else regCellsLin true M g thr x y k d1 d2 rest (cur, mn, mx, best) := by
  simp only [regCellsLin, cellSc, if_true]

theorem lookup0_cons (i i' : Nat) (v : Int) (cur : List (Nat × Int)) :
    lookup0 ((i, v) :: cur) i' = if i' = i then v else lookup0 cur i' := by
  unfold lookup0
  simp only [List.lookup]
  by_cases h : i' = i
  · subst h; simp
  · have : (i' == i) = false := by simpa using h
    simp [this, h]

/-- running maximum as `regCellsLin` updates it -/
def bestFold (t : Nat → Int) (best : Int) (l : List Nat) : Int :=
  l.foldl (fun b i => if t i > b then t i else b) best

theorem bestFold_le (t : Nat → Int) (B : Int) (l : List Nat) : ∀ best, best ≤ B → (∀ i ∈ l, t i ≤ B) →
    bestFold t best l ≤ B := by
  induction l with
  | nil => intro best h _; exact h
  | cons i r ih =>
    intro best h hl
    simp only [bestFold, List.foldl_cons]
    apply ih
    · have := hl i List.mem_cons_self; split <;> omega
    · intro z hz; exact hl z (List.mem_cons_of_mem _ hz)

theorem bestFold_ge_init (t : Nat → Int) (l : List Nat) : ∀ best, best ≤ bestFold t best l := by
  induction l with
  | nil => intro best; exact Int.le_refl _
  | cons i r ih =>
    intro best
    simp only [bestFold, List.foldl_cons]
    by_cases h : t i > best
    · have := ih (t i); simp only [bestFold] at this; rw [if_pos h]; omega
    · have := ih best; simp only [bestFold] at this; rw [if_neg h]; exact this

theorem bestFold_ge_mem (t : Nat → Int) (l : List Nat) : ∀ best i, i ∈ l → t i ≤ bestFold t best l := by
  induction l with
  | nil => intro best i h; cases h
  | cons z r ih =>
    intro best i hm
    simp only [bestFold, List.foldl_cons]
    rcases List.mem_cons.mp hm with rfl | hm
    · by_cases h : t i > best
      · have := bestFold_ge_init t r (t i); simp only [bestFold] at this; rw [if_pos h]; exact this
      · have := bestFold_ge_init t r best; simp only [bestFold] at this; rw [if_neg h]; omega
    · exact ih _ i hm

theorem bestFold_attained (t : Nat → Int) (l : List Nat) : ∀ best,
    bestFold t best l = best ∨ ∃ i ∈ l, bestFold t best l = t i := by
  induction l with
  | nil => intro best; left; rfl
  | cons z r ih =>
    intro best
    simp only [bestFold, List.foldl_cons]
    rcases ih (if t z > best then t z else best) with h | ⟨i, hi, h⟩
    · simp only [bestFold] at h
      rw [h]
      split
      · right; exact ⟨z, List.mem_cons_self, rfl⟩
      · left; rfl
    · right; exact ⟨i, List.mem_cons_of_mem _ hi, h⟩

/-- the cell loop over `lo … hi` when every cell is accepted and its score is `t i` -/
theorem regCells_all (M : Mat) (g thr : Int) (x y : Seq) (k : Nat) (d1 d2 : List (Nat × Int)) (t : Nat → Int)
    (B : Int) (hi : Nat) (hik : hi ≤ k) : ∀ (c lo : Nat), hi + 1 - lo = c →
    (∀ i, lo ≤ i → i ≤ hi → cellSc M g x y k d1 d2 i = t i ∧ t i ≤ B ∧ B - thr ≤ t i) →
    ∀ (cur : List (Nat × Int)) (mn mx : Nat) (best : Int), best ≤ B → (mn = k ∨ mn < lo) →
    ∃ cur', regCellsLin true M g thr x y k d1 d2 (rangeIncl lo hi) (cur, mn, mx, best) =
        (cur', (if lo ≤ hi then (if mn = k then lo else mn) else mn), (if lo ≤ hi then hi else mx),
          bestFold t best (rangeIncl lo hi)) ∧
      ∀ i', lookup0 cur' i' = if lo ≤ i' ∧ i' ≤ hi then t i' else lookup0 cur i' := by
  intro c
  induction c with
  | zero =>
    intro lo hc _ cur mn mx best _ _
    have hlt : hi < lo := by omega
    have hn : ¬ (lo ≤ hi) := by omega
    refine ⟨cur, ?_, ?_⟩
    · simp only [rangeIncl_nil lo hi hlt, regCellsLin, bestFold, List.foldl_nil, hn, if_false]
    · intro i'
      have : ¬ (lo ≤ i' ∧ i' ≤ hi) := by omega
      simp only [this, if_false]
  | succ c ih =>
    intro lo hc hcell cur mn mx best hb hmn
    have hle : lo ≤ hi := by omega
    obtain ⟨h1, h2, h3⟩ := hcell lo (Nat.le_refl _) hle
    rw [rangeIncl_cons lo hi hle, regCellsLin_cons, h1]
    have hacc : t lo ≥ best - thr := by omega
    simp only [hacc, if_true]
    have hb' : (if t lo > best then t lo else best) ≤ B := by split <;> omega
    have hmn' : ((if mn = k then lo else mn) = k ∨ (if mn = k then lo else mn) < lo + 1) := by
      right; rcases hmn with h | h
      · simp only [h, if_true]; omega
      · have : mn ≠ k := by omega
        simp only [this, if_false]; omega
    obtain ⟨cur', he, hl⟩ := ih (lo + 1) (by omega) (fun i hi1 hi2 => hcell i (by omega) hi2)
      ((lo, t lo) :: cur) (if mn = k then lo else mn) lo (if t lo > best then t lo else best) hb' hmn'
    refine ⟨cur', ?_, ?_⟩
    · rw [he]
      simp only [hle, if_true, bestFold, List.foldl_cons]
      congr 1
      congr 1
      · -- the minimum index
        by_cases h2' : lo + 1 ≤ hi
        · simp only [h2', if_true]
          rcases hmn with h | h
          · simp only [h, if_true]
            have : lo ≠ k := by omega
            simp only [this, if_false]
          · have : mn ≠ k := by omega
            simp only [this, if_false]
        · simp only [h2', if_false]
      · congr 1
        by_cases h2' : lo + 1 ≤ hi
        · simp only [h2', if_true]
        · simp only [h2', if_false]; omega
    · intro i'
      rw [hl i', lookup0_cons]
      by_cases e : i' = lo
      · subst e
        have c1 : ¬ (i' + 1 ≤ i' ∧ i' ≤ hi) := by omega
        have c2 : (i' ≤ i' ∧ i' ≤ hi) := ⟨Nat.le_refl _, hle⟩
        rw [if_neg c1, if_pos rfl, if_pos c2]
      · by_cases r : lo ≤ i' ∧ i' ≤ hi
        · have r' : lo + 1 ≤ i' ∧ i' ≤ hi := by omega
          rw [if_pos r', if_pos r]
        · have r' : ¬ (lo + 1 ≤ i' ∧ i' ≤ hi) := by omega
          rw [if_neg r', if_neg e, if_neg r]

/-! ## the anchored table and the invariant of the antidiagonal loop -/

section
variable (M : Mat) (g thr : Int) (io : Nat) (x y : Seq)

/-- anchored global DP: `V i j` = best score of an alignment of `x[:i]` with `y[:j]` (`C08_table_lin_prefix`) -/
def Vv (i j : Nat) : Int := (linRec .global M g x y).val i j

/-- table entry of `_fill_align_table` when nothing is pruned -/
def Tv (i j : Nat) : Int := thr + io + Vv M g x y i j

def loK (k : Nat) : Nat := k - y.length
def hiK (k : Nat) : Nat := min k x.length

/-- the `max_score` variable after antidiagonal `k` -/
def Bk : Nat → Int
  | 0 => thr + io
  | k + 1 => bestFold (fun i => Tv M g thr io x y i (k + 1 - i)) (Bk k) (rangeIncl (loK y (k + 1)) (hiK x (k + 1)))

theorem Vv_0j (j : Nat) : Vv M g x y 0 j = gapRun g j := by
  simp [Vv, Rec.val_zero, borderG]

theorem Vv_i0 (i : Nat) : Vv M g x y i 0 = gapRun g i := by
  cases i <;> simp [Vv, Rec.val_zero, Rec.val_succ_zero, borderG]

theorem Vv_succ (i j : Nat) : Vv M g x y (i + 1) (j + 1) =
    max3 (Vv M g x y i j + sub M x y i j) (Vv M g x y (i + 1) j + g) (Vv M g x y i (j + 1) + g) := by
  simp only [Vv, Rec.val_succ_succ, cellG]

structure Inv (k : Nat) (st : RegState) : Prop where
  nd : st.done = false
  ne : st.err = false
  m0 : st.min0 = loK y k
  x0 : st.max0 = hiK x k
  m1 : st.min1 = if k = 0 then 0 else loK y (k - 1)
  x1 : st.max1 = if k = 0 then 0 else hiK x (k - 1)
  d1 : ∀ i, loK y k ≤ i → i ≤ hiK x k → lookup0 st.d1 i = Tv M g thr io x y i (k - i)
  d2 : 1 ≤ k → ∀ i, loK y (k - 1) ≤ i → i ≤ hiK x (k - 1) → lookup0 st.d2 i = Tv M g thr io x y i (k - 1 - i)
  ms : st.maxScore = Bk M g thr io x y k

/-- one cell of antidiagonal `k+1`, computed from a state that satisfies the invariant, is the table entry -/
theorem cell_correct (k : Nat) (st : RegState) (hinv : Inv M g thr io x y k st)
    (hpos : ∀ i j, i ≤ x.length → j ≤ y.length → 0 < Tv M g thr io x y i j)
    (i : Nat) (h1 : loK y (k + 1) ≤ i) (h2 : i ≤ hiK x (k + 1)) :
    cellSc M g x y (k + 1) st.d1 st.d2 i = Tv M g thr io x y i (k + 1 - i) := by
  unfold loK at h1
  unfold hiK at h2
  have hin : i ≤ x.length := by omega
  have hjm : k + 1 - i ≤ y.length := by omega
  have hP := hpos i (k + 1 - i) hin hjm
  unfold cellSc
  simp only []
  by_cases hi0 : i = 0
  · subst hi0
    have hj : k + 1 - 0 ≠ 0 := by omega
    have hd1 := hinv.d1 0 (by unfold loK; omega) (by unfold hiK; omega)
    simp only [ne_eq, not_true_eq_false, false_and, if_false, hj, not_false_eq_true, if_true, hd1]
    have e : Tv M g thr io x y 0 (k + 1 - 0) = Tv M g thr io x y 0 (k - 0) + g := by
      simp only [Tv, Vv_0j, Nat.sub_zero, gapRun_succ]; omega
    rw [e] at hP ⊢
    omega
  · by_cases hj0 : k + 1 - i = 0
    · have hik : i = k + 1 := by omega
      subst hik
      have hd1 := hinv.d1 k (by unfold loK; omega) (by unfold hiK; omega)
      simp only [Nat.sub_self] at hd1
      simp only [hj0, ne_eq, not_true_eq_false, and_false, if_false, Nat.add_sub_cancel, hd1,
        Nat.add_eq_zero_iff, Nat.succ_ne_zero, and_false, not_false_eq_true, if_true, Nat.sub_self]
      have e : Tv M g thr io x y (k + 1) (k + 1 - (k + 1)) = Tv M g thr io x y k 0 + g := by
        simp only [Tv, Nat.sub_self, Vv_i0, gapRun_succ]; omega
      rw [e] at hP
      simp only [Nat.sub_self] at e
      rw [e]
      omega
    · obtain ⟨i', rfl⟩ : ∃ i', i = i' + 1 := ⟨i - 1, by omega⟩
      obtain ⟨j', hj'⟩ : ∃ j', k + 1 - (i' + 1) = j' + 1 := ⟨k + 1 - (i' + 1) - 1, by omega⟩
      have hk1 : 1 ≤ k := by omega
      have hdg := hinv.d2 hk1 i' (by unfold loK; omega) (by unfold hiK; omega)
      have htp := hinv.d1 i' (by unfold loK; omega) (by unfold hiK; omega)
      have hlf := hinv.d1 (i' + 1) (by unfold loK; omega) (by unfold hiK; omega)
      have e1 : k - 1 - i' = j' := by omega
      have e2 : k - i' = j' + 1 := by omega
      have e3 : k - (i' + 1) = j' := by omega
      rw [e1] at hdg
      rw [e2] at htp
      rw [e3] at hlf
      have hPd := hpos i' j' (by omega) (by omega)
      have hne : Tv M g thr io x y i' j' ≠ 0 := by omega
      simp only [hj', ne_eq, Nat.add_eq_zero_iff, Nat.succ_ne_zero, and_false, not_false_eq_true, and_self,
        if_true, Nat.add_sub_cancel, hdg, htp, hlf, hne]
      simp only [Tv, Vv_succ, max3, sub]
      omega

theorem mem_rangeIncl (lo hi i : Nat) : i ∈ rangeIncl lo hi ↔ lo ≤ i ∧ i ≤ hi := by
  rw [rangeIncl_eq_range', List.mem_range'_1]; omega

theorem growShape_none (rows cols a b gf : Nat) : ∃ r c, growShape rows cols a b none gf = some (r, c) := by
  unfold growShape
  by_cases h1 : a ≥ rows <;> by_cases h2 : b ≥ cols <;> simp [h1, h2]

/-- hypotheses of "the drop-off cannot bind": `Vmax` bounds the anchored table and no cell lies more than `thr` below it -/
structure NoBind (Vmax : Int) : Prop where
  hio : 1 ≤ io
  hmax : ∀ i j, i ≤ x.length → j ≤ y.length → Vv M g x y i j ≤ Vmax
  hdrop : ∀ i j, i ≤ x.length → j ≤ y.length → Vmax - Vv M g x y i j ≤ thr

theorem NoBind.pos {Vmax : Int} (h : NoBind M g thr io x y Vmax) (i j : Nat) (hi : i ≤ x.length) (hj : j ≤ y.length) :
    0 < Tv M g thr io x y i j := by
  have h0 := h.hmax 0 0 (Nat.zero_le _) (Nat.zero_le _)
  have h1 := h.hdrop i j hi hj
  have h2 := h.hio
  have : Vv M g x y 0 0 = 0 := by simp [Vv_0j, gapRun]
  unfold Tv; omega

theorem Bk_le {Vmax : Int} (h : NoBind M g thr io x y Vmax) : ∀ k, k ≤ x.length + y.length →
    Bk M g thr io x y k ≤ thr + io + Vmax := by
  intro k
  induction k with
  | zero =>
    intro _
    have h0 := h.hmax 0 0 (Nat.zero_le _) (Nat.zero_le _)
    have : Vv M g x y 0 0 = 0 := by simp [Vv_0j, gapRun]
    simp only [Bk]; omega
  | succ k ih =>
    intro hk
    simp only [Bk]
    apply bestFold_le _ _ _ _ (ih (by omega))
    intro i hi
    rw [mem_rangeIncl] at hi
    unfold loK hiK at hi
    have := h.hmax i (k + 1 - i) (by omega) (by omega)
    unfold Tv; omega

theorem step_inv {Vmax : Int} (h : NoBind M g thr io x y Vmax) (gf k : Nat) (st : RegState)
    (hinv : Inv M g thr io x y k st) (hk : k + 1 ≤ x.length + y.length) :
    Inv M g thr io x y (k + 1) (regStepLin true M g thr x y none gf st (k + 1)) := by
  have eMin : max (min st.min0 (st.min1 + 1)) (k + 1 - y.length) = loK y (k + 1) := by
    rw [hinv.m0, hinv.m1]; unfold loK
    by_cases hk0 : k = 0
    · subst hk0; simp only [if_true]; omega
    · simp only [hk0, if_false]; omega
  have eMax : min (max (st.max0 + 1) (st.max1 + 1)) x.length = hiK x (k + 1) := by
    rw [hinv.x0, hinv.x1]; unfold hiK
    by_cases hk0 : k = 0
    · subst hk0; simp only [if_true]; omega
    · simp only [hk0, if_false]; omega
  have hle : loK y (k + 1) ≤ hiK x (k + 1) := by unfold loK hiK; omega
  have hngt : ¬ (loK y (k + 1) > hiK x (k + 1)) := by omega
  obtain ⟨r, c, hg⟩ := growShape_none st.rows st.cols (hiK x (k + 1)) (k + 1 - loK y (k + 1)) gf
  have hcell : ∀ i, loK y (k + 1) ≤ i → i ≤ hiK x (k + 1) →
      cellSc M g x y (k + 1) st.d1 st.d2 i = (fun i => Tv M g thr io x y i (k + 1 - i)) i ∧
      (fun i => Tv M g thr io x y i (k + 1 - i)) i ≤ thr + io + Vmax ∧
      thr + io + Vmax - thr ≤ (fun i => Tv M g thr io x y i (k + 1 - i)) i := by
    intro i h1 h2
    refine ⟨cell_correct M g thr io x y k st hinv (h.pos M g thr io x y) i h1 h2, ?_, ?_⟩
    · unfold loK at h1; unfold hiK at h2
      have := h.hmax i (k + 1 - i) (by omega) (by omega)
      simp only [Tv]; omega
    · unfold loK at h1; unfold hiK at h2
      have := h.hdrop i (k + 1 - i) (by omega) (by omega)
      simp only [Tv]; omega
  have hb : st.maxScore ≤ thr + io + Vmax := by
    rw [hinv.ms]; exact Bk_le M g thr io x y h k (by omega)
  obtain ⟨cur', he, hl⟩ := regCells_all M g thr x y (k + 1) st.d1 st.d2
    (fun i => Tv M g thr io x y i (k + 1 - i)) (thr + io + Vmax) (hiK x (k + 1)) (by unfold hiK; omega)
    _ (loK y (k + 1)) rfl hcell [] (k + 1) 0 st.maxScore hb (Or.inl rfl)
  simp only [hle, if_true] at he
  have hst : regStepLin true M g thr x y none gf st (k + 1) =
      { d1 := cur', d2 := st.d1, min0 := loK y (k + 1), max0 := hiK x (k + 1), min1 := st.min0, max1 := st.max0,
        maxScore := bestFold (fun i => Tv M g thr io x y i (k + 1 - i)) st.maxScore
          (rangeIncl (loK y (k + 1)) (hiK x (k + 1))),
        rows := r, cols := c, done := false, err := false } := by
    unfold regStepLin
    simp only [hinv.nd, hinv.ne, Bool.or_self, Bool.false_eq_true, if_false, eMin, eMax, hngt, hg, he]
  rw [hst]
  refine ⟨rfl, rfl, rfl, rfl, ?_, ?_, ?_, ?_, ?_⟩
  · simp only [Nat.add_eq_zero_iff, Nat.succ_ne_zero, and_false, if_false, Nat.add_sub_cancel]; exact hinv.m0
  · simp only [Nat.add_eq_zero_iff, Nat.succ_ne_zero, and_false, if_false, Nat.add_sub_cancel]; exact hinv.x0
  · intro i h1 h2
    have := hl i
    simp only [h1, h2, and_self, if_true] at this
    exact this
  · intro _ i h1 h2
    simp only [Nat.add_sub_cancel] at h1 h2 ⊢
    exact hinv.d1 i h1 h2
  · simp only [Bk, hinv.ms]

theorem fold_inv {Vmax : Int} (h : NoBind M g thr io x y Vmax) (gf : Nat) (st0 : RegState)
    (h0 : Inv M g thr io x y 0 st0) : ∀ c, c ≤ x.length + y.length →
    Inv M g thr io x y c ((rangeIncl 1 c).foldl (regStepLin true M g thr x y none gf) st0) := by
  intro c
  induction c with
  | zero => intro _; rw [rangeIncl_nil 1 0 (by omega)]; exact h0
  | succ c ih =>
    intro hc
    rw [rangeIncl_snoc 1 c (by omega), List.foldl_append]
    exact step_inv M g thr io x y h gf c _ (ih (by omega)) hc

theorem inv_init (is : Nat) :
    Inv M g thr io x y 0 ⟨[(0, thr + (io : Int))], [], 0, 0, 0, 0, thr + (io : Int), min (x.length + 1) is,
      min (y.length + 1) is, false, false⟩ := by
  refine ⟨rfl, rfl, ?_, ?_, rfl, rfl, ?_, ?_, rfl⟩
  · simp [loK]
  · simp [hiK]
  · intro i h1 h2
    have : i = 0 := by unfold hiK at h2; omega
    subst this
    simp [lookup0, List.lookup, Tv, Vv_0j, gapRun]
  · intro h; omega

/-- `_align_region` (linear, `_max` path, no table-size limit) with a threshold that cannot bind -/
theorem regionLin_nobind {Vmax : Int} (h : NoBind M g thr io x y Vmax) (is gf : Nat) :
    regionLin true M g thr x y none is io gf = .ok (Bk M g thr io x y (x.length + y.length) - (thr + io)) := by
  have hinv := fold_inv M g thr io x y h gf _ (inv_init M g thr io x y is) (x.length + y.length) (Nat.le_refl _)
  unfold regionLin
  simp only [hinv.ne, hinv.ms, Bool.false_eq_true, if_false]

theorem Bk_mono (k : Nat) : ∀ k', k ≤ k' → Bk M g thr io x y k ≤ Bk M g thr io x y k' := by
  intro k' hk
  induction k' with
  | zero => have : k = 0 := by omega
            subst this; exact Int.le_refl _
  | succ c ih =>
    by_cases hc : k ≤ c
    · have := ih hc
      have h2 := bestFold_ge_init (fun i => Tv M g thr io x y i (c + 1 - i)) (rangeIncl (loK y (c + 1)) (hiK x (c + 1)))
        (Bk M g thr io x y c)
      simp only [Bk]; omega
    · have : k = c + 1 := by omega
      subst this; exact Int.le_refl _

/-- every cell of the anchored table is at most the result -/
theorem Bk_ge_cell (i j : Nat) (hi : i ≤ x.length) (hj : j ≤ y.length) :
    Tv M g thr io x y i j ≤ Bk M g thr io x y (x.length + y.length) := by
  by_cases h0 : i + j = 0
  · have hi0 : i = 0 := by omega
    have hj0 : j = 0 := by omega
    subst hi0; subst hj0
    have := Bk_mono M g thr io x y 0 (x.length + y.length) (Nat.zero_le _)
    simp only [Bk] at this
    simp only [Tv, Vv_0j, gapRun]; omega
  · obtain ⟨k, hk⟩ : ∃ k, i + j = k + 1 := ⟨i + j - 1, by omega⟩
    have hm : i ∈ rangeIncl (loK y (k + 1)) (hiK x (k + 1)) := by
      rw [mem_rangeIncl]; unfold loK hiK; omega
    have h1 := bestFold_ge_mem (fun i => Tv M g thr io x y i (k + 1 - i)) _ (Bk M g thr io x y k) i hm
    have h2 := Bk_mono M g thr io x y (k + 1) (x.length + y.length) (by omega)
    have e : k + 1 - i = j := by omega
    simp only [e] at h1
    simp only [Bk] at h2
    omega

/-- the result is the value of some cell -/
theorem Bk_attained : ∀ k, k ≤ x.length + y.length →
    ∃ i j, i ≤ x.length ∧ j ≤ y.length ∧ Bk M g thr io x y k = Tv M g thr io x y i j := by
  intro k
  induction k with
  | zero => intro _; exact ⟨0, 0, Nat.zero_le _, Nat.zero_le _, by simp [Bk, Tv, Vv_0j, gapRun]⟩
  | succ k ih =>
    intro hk
    simp only [Bk]
    rcases bestFold_attained (fun i => Tv M g thr io x y i (k + 1 - i)) (rangeIncl (loK y (k + 1)) (hiK x (k + 1)))
      (Bk M g thr io x y k) with h | ⟨i, hi, h⟩
    · rw [h]; exact ih (by omega)
    · rw [mem_rangeIncl] at hi
      unfold loK hiK at hi
      exact ⟨i, k + 1 - i, by omega, by omega, h⟩

end

end BiotiteModel.C09

import BiotiteModel.Model.C09
import BiotiteModel.Proofs.C08
/-! Banded table vs the semi-global table of `align_optimal` (core Lean only). -/
namespace BiotiteModel.C09
open BiotiteModel BiotiteModel.C08

/-- `x` (a table entry, `none` = −∞) is at most `y` -/
def ole (x : Option Int) (y : Int) : Prop := ∀ v, x = some v → v ≤ y

theorem ole_none (y : Int) : ole none y := by intro v h; cases h
theorem ole_some {x y : Int} (h : x ≤ y) : ole (some x) y := by intro v hv; cases hv; exact h

theorem ole_none_iff (y : Int) : ole none y ↔ True := ⟨fun _ => trivial, fun _ => ole_none y⟩
theorem ole_some_iff (x y : Int) : ole (some x) y ↔ x ≤ y := ⟨fun h => h x rfl, fun h => ole_some h⟩

theorem ole_cell (d l t : Option Int) (D L T s g gl gt : Int) (hd : ole d D) (hl : ole l L) (ht : ole t T)
    (h1 : g ≤ gl) (h2 : g ≤ gt) :
    ole (omax (oadd d s) (omax (oadd l g) (oadd t g))) (max3 (D + s) (L + gl) (T + gt)) := by
  cases d <;> cases l <;> cases t <;>
    simp only [oadd, omax, ole_some_iff, ole_none_iff, max3] at * <;> omega

variable (M : Mat) (g : Int) (a b : Seq) (lo hi : Int)

theorem cellB (i j : Nat) (d l t : Option Int) :
    (bandedRec false M g a b lo hi).cell i j d l t =
      if inBand lo hi (i + 1) (j + 1) then omax (oadd d (sub M a b i j)) (omax (oadd l g) (oadd t g)) else none := by
  simp [bandedRec]

theorem borderB (i j : Nat) :
    (bandedRec false M g a b lo hi).border i j = if inBand lo hi i j then some 0 else none := rfl

/-- every cell of the banded table (any band) is at most the semi-global cell of `align_optimal` -/
theorem banded_le_semi (hg : g ≤ 0) : ∀ i j, ole ((bandedRec false M g a b lo hi).val i j) ((linRec .semi M g a b).val i j) := by
  intro i
  induction i with
  | zero =>
    intro j
    rw [Rec.val_zero, Rec.val_zero, borderB, borderS]
    split
    · exact ole_some (Int.le_refl 0)
    · exact ole_none _
  | succ i ih =>
    intro j
    induction j with
    | zero =>
      rw [Rec.val_succ_zero, Rec.val_succ_zero, borderB, borderS]
      split
      · exact ole_some (Int.le_refl 0)
      · exact ole_none _
    | succ j ihj =>
      rw [Rec.val_succ_succ, Rec.val_succ_succ, cellB, cellS]
      split
      · apply ole_cell _ _ _ _ _ _ _ _ _ _ (ih j) ihj (ih (j + 1)) <;> split <;> omega
      · exact ole_none _

theorem semi_row_mono (j : Nat) :
    (linRec .semi M g a b).val a.length j ≤ (linRec .semi M g a b).val a.length (j + 1) := by
  cases h : a.length with
  | zero => simp [Rec.val_zero, borderS]
  | succ i =>
    rw [Rec.val_succ_succ, cellS]
    simp only [h, if_true, max3]
    omega

theorem semi_col_mono (i : Nat) :
    (linRec .semi M g a b).val i b.length ≤ (linRec .semi M g a b).val (i + 1) b.length := by
  cases h : b.length with
  | zero => cases i <;> simp [Rec.val_zero, Rec.val_succ_zero, borderS]
  | succ j =>
    rw [Rec.val_succ_succ, cellS]
    simp only [h, if_true, max3]
    omega

theorem semi_row_le (j : Nat) : ∀ j', j ≤ j' →
    (linRec .semi M g a b).val a.length j ≤ (linRec .semi M g a b).val a.length j' := by
  intro j' h
  induction j' with
  | zero => have : j = 0 := by omega
            subst this; exact Int.le_refl _
  | succ k ih =>
    by_cases hk : j ≤ k
    · exact Int.le_trans (ih hk) (semi_row_mono M g a b k)
    · have : j = k + 1 := by omega
      subst this; exact Int.le_refl _

theorem semi_col_le (i : Nat) : ∀ i', i ≤ i' →
    (linRec .semi M g a b).val i b.length ≤ (linRec .semi M g a b).val i' b.length := by
  intro i' h
  induction i' with
  | zero => have : i = 0 := by omega
            subst this; exact Int.le_refl _
  | succ k ih =>
    by_cases hk : i ≤ k
    · exact Int.le_trans (ih hk) (semi_col_mono M g a b k)
    · have : i = k + 1 := by omega
      subst this; exact Int.le_refl _

theorem semi_nonneg : 0 ≤ optSemi M g a b := by
  have h := semi_row_le M g a b 0 b.length (Nat.zero_le _)
  have h0 : (linRec .semi M g a b).val a.length 0 = 0 := by
    cases a.length <;> simp [Rec.val_zero, Rec.val_succ_zero, borderS]
  unfold optSemi; omega

/-! ## lists of optional values -/

theorem omax_fold_le (y : Int) (l : List (Option Int)) : ∀ acc, ole acc y → (∀ x ∈ l, ole x y) →
    ole (l.foldl omax acc) y := by
  induction l with
  | nil => intro acc h _; exact h
  | cons x r ih =>
    intro acc h hl
    simp only [List.foldl_cons]
    apply ih
    · have hx := hl x List.mem_cons_self
      intro v hv
      cases acc <;> cases x <;> simp only [omax, Option.some.injEq] at hv
      · cases hv
      · subst hv; exact hx _ rfl
      · subst hv; exact h _ rfl
      · subst hv
        have := h _ rfl; have := hx _ rfl; omega
    · intro z hz; exact hl z (List.mem_cons_of_mem _ hz)

theorem omaxList_le (y : Int) (l : List (Option Int)) (h : ∀ x ∈ l, ole x y) : ole (omaxList l) y :=
  omax_fold_le y l none (ole_none y) h

theorem omax_fold_ge (l : List (Option Int)) : ∀ acc v, acc = some v →
    ∃ w, l.foldl omax acc = some w ∧ v ≤ w := by
  induction l with
  | nil => intro acc v h; exact ⟨v, h, Int.le_refl _⟩
  | cons x r ih =>
    intro acc v h
    subst h
    simp only [List.foldl_cons]
    cases x with
    | none => exact ih _ v rfl
    | some u =>
      obtain ⟨w, hw, hle⟩ := ih (some (max v u)) (max v u) rfl
      exact ⟨w, hw, by omega⟩

theorem omax_fold_mem (l : List (Option Int)) : ∀ acc x v, x ∈ l → x = some v →
    ∃ w, l.foldl omax acc = some w ∧ v ≤ w := by
  induction l with
  | nil => intro acc x v h; cases h
  | cons y r ih =>
    intro acc x v hm hx
    simp only [List.foldl_cons]
    rcases List.mem_cons.mp hm with rfl | hm
    · subst hx
      cases acc with
      | none => exact omax_fold_ge r _ v rfl
      | some u =>
        obtain ⟨w, hw, hle⟩ := omax_fold_ge r (some (max u v)) (max u v) rfl
        exact ⟨w, hw, by omega⟩
    · exact ih _ x v hm hx

theorem omaxList_ge (l : List (Option Int)) (x : Option Int) (v : Int) (hm : x ∈ l) (hx : x = some v) :
    ∃ w, omaxList l = some w ∧ v ≤ w := omax_fold_mem l none x v hm hx

/-! ## start cells -/

theorem mem_diags (d : Int) : ∀ (k : Nat) (lo : Int), lo ≤ d → d < lo + k → d ∈ diags lo k := by
  intro k
  induction k with
  | zero => intro lo h1 h2; omega
  | succ k ih =>
    intro lo h1 h2
    simp only [diags, List.mem_cons]
    by_cases h : d = lo
    · left; exact h
    · right; apply ih <;> omega

theorem startCells_range (n m : Nat) (p : Nat × Nat) (hp : p ∈ startCells n m lo hi) :
    (p.1 = n ∧ p.2 ≤ m) ∨ (p.1 ≤ n ∧ p.2 = m) := by
  simp only [startCells, List.mem_map] at hp
  obtain ⟨d, _, rfl⟩ := hp
  split
  · left; exact ⟨rfl, by omega⟩
  · right; exact ⟨by omega, rfl⟩

end BiotiteModel.C09

namespace BiotiteModel.C09
open BiotiteModel BiotiteModel.C08

variable (M : Mat) (g : Int) (a b : Seq) (lo hi : Int)

theorem ole_trans {x : Option Int} {y z : Int} (h : ole x y) (hz : y ≤ z) : ole x z := by
  intro v hv; have := h v hv; omega

/-- the list of start-cell values `align_banded` takes the maximum of -/
def startVals : List (Option Int) :=
  (startCells a.length b.length lo hi).map fun p => (tableGet (bandedFill false M g a b lo hi) p.1 p.2).bind id

theorem tableGet_banded (i j : Nat) (hi' : i ≤ a.length) (hj : j ≤ b.length) :
    (tableGet (bandedFill false M g a b lo hi) i j).bind id = (bandedRec false M g a b lo hi).val i j := by
  unfold tableGet bandedFill
  rw [Rec.table_get _ _ _ i j hi' hj]
  rfl

/-- any band: the banded score is at most the semi-global optimum -/
theorem banded_score_le (hg : g ≤ 0) : (omaxList (startVals M g a b lo hi)).getD 0 ≤ optSemi M g a b := by
  have hole : ole (omaxList (startVals M g a b lo hi)) (optSemi M g a b) := by
    apply omaxList_le
    intro x hx
    simp only [startVals, List.mem_map] at hx
    obtain ⟨p, hp, rfl⟩ := hx
    rcases startCells_range lo hi a.length b.length p hp with ⟨h1, h2⟩ | ⟨h1, h2⟩
    · rw [tableGet_banded M g a b lo hi p.1 p.2 (by omega) h2, h1]
      exact ole_trans (banded_le_semi M g a b lo hi hg _ _) (semi_row_le M g a b p.2 b.length h2)
    · rw [tableGet_banded M g a b lo hi p.1 p.2 h1 (by omega), h2]
      exact ole_trans (banded_le_semi M g a b lo hi hg _ _) (semi_col_le M g a b p.1 a.length h1)
  cases h : omaxList (startVals M g a b lo hi) with
  | none => simpa using semi_nonneg M g a b
  | some w => simpa using hole w h

theorem inBand_true {lo hi : Int} {i j : Nat} (h1 : lo ≤ (j : Int) - (i : Int)) (h2 : (j : Int) - (i : Int) ≤ hi) :
    inBand lo hi i j = true := by
  simp [inBand, h1, h2]

/-- full band: inside the table the banded table IS the semi-global table -/
theorem banded_full_inner (hlo : lo = 1 - (a.length : Int)) (hhi : hi = (b.length : Int) - 1) :
    ∀ i j, i < a.length → j < b.length →
      (bandedRec false M g a b lo hi).val i j = some ((linRec .semi M g a b).val i j) := by
  intro i
  induction i with
  | zero =>
    intro j _ hj
    rw [Rec.val_zero, Rec.val_zero, borderB, borderS, inBand_true (by omega) (by omega)]; rfl
  | succ i ih =>
    intro j hi' hj
    induction j with
    | zero =>
      rw [Rec.val_succ_zero, Rec.val_succ_zero, borderB, borderS, inBand_true (by omega) (by omega)]; rfl
    | succ j ihj =>
      rw [Rec.val_succ_succ, Rec.val_succ_succ, cellB, cellS, inBand_true (by omega) (by omega),
        ih j (by omega) (by omega), ihj (by omega), ih (j + 1) (by omega) hj]
      have e1 : ¬ (i + 1 = a.length) := by omega
      have e2 : ¬ (j + 1 = b.length) := by omega
      simp only [if_true, oadd, omax, max3, e1, e2, if_false]

theorem startVal_le (p : Nat × Nat) (hp : p ∈ startCells a.length b.length lo hi) (h1 : p.1 ≤ a.length)
    (h2 : p.2 ≤ b.length) (v : Int) (hv : (bandedRec false M g a b lo hi).val p.1 p.2 = some v) :
    v ≤ max 0 ((omaxList (startVals M g a b lo hi)).getD 0) := by
  have hm : (bandedRec false M g a b lo hi).val p.1 p.2 ∈ startVals M g a b lo hi := by
    simp only [startVals, List.mem_map]
    exact ⟨p, hp, tableGet_banded M g a b lo hi p.1 p.2 h1 h2⟩
  obtain ⟨w, hw, hle⟩ := omaxList_ge _ _ v hm hv
  rw [hw]; simp only [Option.getD_some]; omega

theorem mem_start_row (n m j : Nat) (hn : 0 < n) (h1 : 1 ≤ j) (h2 : j ≤ m) :
    (n, j) ∈ startCells n m (1 - (n : Int)) ((m : Int) - 1) := by
  simp only [startCells, List.mem_map]
  refine ⟨(j : Int) - (n : Int), mem_diags _ _ _ (by omega) (by omega), ?_⟩
  have : (n : Int) + ((j : Int) - (n : Int)) ≤ (m : Int) := by omega
  simp only [this, if_true]
  congr 1; omega

theorem mem_start_col (n m i : Nat) (h1 : 1 ≤ i) (h2 : i < n) :
    (i, m) ∈ startCells n m (1 - (n : Int)) ((m : Int) - 1) := by
  simp only [startCells, List.mem_map]
  refine ⟨(m : Int) - (i : Int), mem_diags _ _ _ (by omega) (by omega), ?_⟩
  have : ¬ ((n : Int) + ((m : Int) - (i : Int)) ≤ (m : Int)) := by omega
  simp only [this, if_false]
  congr 1; omega

end BiotiteModel.C09

namespace BiotiteModel.C09
open BiotiteModel BiotiteModel.C08

variable (M : Mat) (g : Int) (a b : Seq) (lo hi : Int)

/-- a banded cell whose diagonal predecessor is known: it has a value, at least `D + s`, and at least
`T + g` when the top predecessor is known too -/
theorem cell_lower (D s g : Int) (l t : Option Int) :
    ∃ v, omax (oadd (some D) s) (omax (oadd l g) (oadd t g)) = some v ∧ D + s ≤ v ∧
      (∀ T, t = some T → T + g ≤ v) ∧ (∀ L, l = some L → L + g ≤ v) := by
  cases l <;> cases t <;> simp only [oadd, omax] <;> refine ⟨_, rfl, ?_, ?_, ?_⟩ <;>
    first
    | omega
    | (intro T hT; cases hT <;> omega)

/-- full band, `g ≤ 0`, both sequences non-empty: the semi-global optimum is reached by the band
(or is the score 0 of the alignment that pairs nothing) -/
theorem banded_full_ge (hn : 0 < a.length) (hm : 0 < b.length)
    (hlo : lo = 1 - (a.length : Int)) (hhi : hi = (b.length : Int) - 1) :
    optSemi M g a b ≤ max 0 ((omaxList (startVals M g a b lo hi)).getD 0) := by
  obtain ⟨n', hn'⟩ : ∃ n', a.length = n' + 1 := ⟨a.length - 1, by omega⟩
  obtain ⟨m', hm'⟩ : ∃ m', b.length = m' + 1 := ⟨b.length - 1, by omega⟩
  let T := max 0 ((omaxList (startVals M g a b lo hi)).getD 0)
  have hT0 : 0 ≤ T := by simp only [T]; omega
  have F1 := banded_full_inner M g a b lo hi hlo hhi
  have hstart : ∀ p, p ∈ startCells a.length b.length lo hi → p.1 ≤ a.length → p.2 ≤ b.length →
      ∀ v, (bandedRec false M g a b lo hi).val p.1 p.2 = some v → v ≤ T :=
    fun p hp h1 h2 v hv => startVal_le M g a b lo hi p hp h1 h2 v hv
  have hrowmem : ∀ j, 1 ≤ j → j ≤ b.length → (a.length, j) ∈ startCells a.length b.length lo hi := by
    intro j h1 h2; rw [hlo, hhi]; exact mem_start_row a.length b.length j hn h1 h2
  have hcolmem : ∀ i, 1 ≤ i → i < a.length → (i, b.length) ∈ startCells a.length b.length lo hi := by
    intro i h1 h2; rw [hlo, hhi]; exact mem_start_col a.length b.length i h1 h2
  -- last row, columns < m
  have hrow : ∀ j, j ≤ m' → (linRec .semi M g a b).val (n' + 1) j ≤ T := by
    intro j
    induction j with
    | zero => intro _; rw [Rec.val_succ_zero, borderS]; exact hT0
    | succ j ih =>
      intro hj
      have ihj := ih (by omega)
      rw [Rec.val_succ_succ, cellS]
      have e1 : n' + 1 = a.length := by omega
      have e2 : ¬ (j + 1 = b.length) := by omega
      simp only [e1, e2, if_true, if_false, max3]
      -- the banded cell (n, j+1)
      have hB : (bandedRec false M g a b lo hi).val (n' + 1) (j + 1) = _ := Rec.val_succ_succ _ n' j
      rw [cellB, inBand_true (by omega) (by omega), F1 n' j (by omega) (by omega),
        F1 n' (j + 1) (by omega) (by omega)] at hB
      obtain ⟨v, hv, hd, ht, _⟩ := cell_lower ((linRec .semi M g a b).val n' j) (sub M a b n' j) g
        ((bandedRec false M g a b lo hi).val (n' + 1) j) (some ((linRec .semi M g a b).val n' (j + 1)))
      simp only [if_true] at hB
      rw [hv] at hB
      have hvT := hstart (a.length, j + 1) (hrowmem (j + 1) (by omega) (by omega)) (by simp) (by simp; omega) v
        (by simpa [← e1] using hB)
      have := ht _ rfl
      rw [e1] at ihj
      omega
  -- last column, rows < n
  have hcol : ∀ i, i ≤ n' → (linRec .semi M g a b).val i (m' + 1) ≤ T := by
    intro i
    induction i with
    | zero => intro _; rw [Rec.val_zero, borderS]; exact hT0
    | succ i ih =>
      intro hi'
      have ihi := ih (by omega)
      rw [Rec.val_succ_succ, cellS]
      have e1 : ¬ (i + 1 = a.length) := by omega
      have e2 : m' + 1 = b.length := by omega
      simp only [e1, e2, if_true, if_false, max3]
      have hB : (bandedRec false M g a b lo hi).val (i + 1) (m' + 1) = _ := Rec.val_succ_succ _ i m'
      rw [cellB, inBand_true (by omega) (by omega), F1 i m' (by omega) (by omega),
        F1 (i + 1) m' (by omega) (by omega)] at hB
      obtain ⟨v, hv, hd, _, hl⟩ := cell_lower ((linRec .semi M g a b).val i m') (sub M a b i m') g
        (some ((linRec .semi M g a b).val (i + 1) m')) ((bandedRec false M g a b lo hi).val i (m' + 1))
      simp only [if_true] at hB
      rw [hv] at hB
      have hvT := hstart (i + 1, b.length) (hcolmem (i + 1) (by omega) (by omega)) (by simp; omega) (by simp) v
        (by simpa [← e2] using hB)
      have := hl _ rfl
      rw [e2] at ihi
      omega
  -- the corner cell
  unfold optSemi
  rw [hn', hm', Rec.val_succ_succ, cellS]
  have e1 : n' + 1 = a.length := by omega
  have e2 : m' + 1 = b.length := by omega
  simp only [e1, e2, if_true, max3]
  have hB : (bandedRec false M g a b lo hi).val (n' + 1) (m' + 1) = _ := Rec.val_succ_succ _ n' m'
  rw [cellB, inBand_true (by omega) (by omega), F1 n' m' (by omega) (by omega)] at hB
  obtain ⟨v, hv, hd, _, _⟩ := cell_lower ((linRec .semi M g a b).val n' m') (sub M a b n' m') g
    ((bandedRec false M g a b lo hi).val (n' + 1) m') ((bandedRec false M g a b lo hi).val n' (m' + 1))
  simp only [if_true] at hB
  rw [hv] at hB
  have hvT := hstart (a.length, b.length) (hrowmem b.length (by omega) (by omega)) (by simp) (by simp) v
    (by simpa [← e1, ← e2] using hB)
  have h1 := hrow m' (Nat.le_refl _)
  have h2 := hcol n' (Nat.le_refl _)
  rw [e1] at h1
  rw [e2] at h2
  show _ ≤ T
  omega

end BiotiteModel.C09

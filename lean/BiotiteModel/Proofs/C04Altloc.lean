import BiotiteModel.Proofs.C04
/-! `filter_highest_occupancy_altloc`: the fold returns the first id with the maximal occupancy sum. -/
namespace BiotiteModel.C04

/-- The fold of `filter_highest_occupancy_altloc`: keep the current best unless strictly better. -/
def argStep (f : String → Nat) (best : Option String) (id : String) : Option String :=
  match best with
  | none => some id
  | some b => if f id > f b then some id else some b

theorem argfold_some (f : String → Nat) : ∀ (l : List String) (c : String),
    ∃ b, l.foldl (argStep f) (some c) = some b ∧
      ((b = c ∧ ∀ x ∈ l, f x ≤ f c) ∨
       ∃ pre post, l = pre ++ b :: post ∧ f c < f b ∧ (∀ x ∈ pre, f x < f b) ∧ ∀ x ∈ post, f x ≤ f b) := by
  intro l
  induction l with
  | nil => intro c; exact ⟨c, rfl, Or.inl ⟨rfl, by simp⟩⟩
  | cons x xs ih =>
    intro c
    by_cases hx : f x > f c
    · obtain ⟨b, hb, h⟩ := ih x
      refine ⟨b, by simp [List.foldl, argStep, hx, hb], Or.inr ?_⟩
      rcases h with ⟨rfl, hle⟩ | ⟨pre, post, rfl, hlt, hpre, hpost⟩
      · exact ⟨[], xs, rfl, hx, by simp, hle⟩
      · refine ⟨x :: pre, post, rfl, by omega, ?_, hpost⟩
        intro y hy
        simp only [List.mem_cons] at hy
        rcases hy with rfl | hy
        · exact hlt
        · exact hpre y hy
    · obtain ⟨b, hb, h⟩ := ih c
      refine ⟨b, by simp [List.foldl, argStep, hx, hb], ?_⟩
      rcases h with ⟨rfl, hle⟩ | ⟨pre, post, rfl, hlt, hpre, hpost⟩
      · left
        refine ⟨rfl, ?_⟩
        intro y hy
        simp only [List.mem_cons] at hy
        rcases hy with rfl | hy
        · omega
        · exact hle y hy
      · right
        refine ⟨x :: pre, post, rfl, hlt, ?_, hpost⟩
        intro y hy
        simp only [List.mem_cons] at hy
        rcases hy with rfl | hy
        · omega
        · exact hpre y hy

/-- The fold returns the **first** element with the **maximal** value. -/
theorem argfold_spec (f : String → Nat) (l : List String) :
    (l = [] ∧ l.foldl (argStep f) none = none) ∨
    ∃ b pre post, l.foldl (argStep f) none = some b ∧ l = pre ++ b :: post ∧
      (∀ x ∈ pre, f x < f b) ∧ ∀ x ∈ post, f x ≤ f b := by
  cases l with
  | nil => left; exact ⟨rfl, rfl⟩
  | cons c xs =>
    right
    obtain ⟨b, hb, h⟩ := argfold_some f xs c
    rcases h with ⟨rfl, hle⟩ | ⟨pre, post, rfl, hlt, hpre, hpost⟩
    · exact ⟨b, [], xs, by simpa [List.foldl, argStep] using hb, rfl, by simp, hle⟩
    · refine ⟨b, c :: pre, post, by simpa [List.foldl, argStep] using hb, rfl, ?_, hpost⟩
      intro y hy
      simp only [List.mem_cons] at hy
      rcases hy with rfl | hy
      · exact hlt
      · exact hpre y hy

/-- `sorted(set(letter_altloc_ids))`. -/
def altIds (alts : List String) : List String :=
  (alts.filter hasAltloc).eraseDups.mergeSort (fun a b => decide (a ≤ b))

theorem bestAltloc_eq (alts : List String) (occ : List Nat) :
    bestAltloc alts occ = (altIds alts).foldl (argStep (occSum alts occ)) none := rfl

theorem mem_altIds (alts : List String) (x : String) : x ∈ altIds alts ↔ x ∈ alts ∧ hasAltloc x = true := by
  simp [altIds, List.mem_mergeSort, List.mem_eraseDups, List.mem_filter]

theorem altIds_sorted (alts : List String) : (altIds alts).Pairwise (fun a b => a ≤ b) := by
  have := List.pairwise_mergeSort (le := fun (a b : String) => decide (a ≤ b))
    (by intro a b c h1 h2; simp only [decide_eq_true_eq] at *; exact String.le_trans h1 h2)
    (by intro a b; simp only [Bool.or_eq_true, decide_eq_true_eq]; exact String.le_total a b)
    (alts.filter hasAltloc).eraseDups
  simpa [altIds] using this

end BiotiteModel.C04

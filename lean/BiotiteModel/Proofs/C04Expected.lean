/-!
# C04 — snapshot of the structural facts of the source the model was written against

Hand-kept (NOT regenerated): the alpha-normalised facts `gen_lean()` extracted from convert.py, filter.py and
bonds.pyx when the model was last brought in line with the code.  `Props/C04.lean` proves, group by group, that
the facts regenerated on this run (`Gen.C04.facts`) equal this snapshot.  What each group means for the model:

* `defaults.*` — the adapter and the oracle call the public functions relying on these defaults;
* `raises.*` — exception classes the model maps to `Err` (`invalidFile`, `valueError`, `badStructure`) and the oracle demands;
* `columns.*`, `struct_conn.*`, `chem_comp_bond.*`, `reader.*`, `set_structure.*` — the columns `SiteRow` / `ConnRow` /
  `CompBondRow` stand for, the key columns of `Key`, masks (`.`/`?`), `HETATM`, charge format `+d`, defaults `-1`, `''`, `0`;
* `find.*` — dense matcher at or below the threshold, dictionary matcher above (`findDense` / `findDict`);
* `canon.*`, `bond_split.*` — `isCanonicalLink` (`== 1`, `== SINGLE`, same chain, `<= 1`), `inStructConn` (`!=`, `== COORDINATION`);
* `model_filter.*`, `get_structure.model_guards` — `selectModel`, `normModel` (`== 0`, `< 0`, `> count`, `< 1`);
* `filter.occupancy.*` — `argStep` (strict `>`, start −1.0, `sorted(set(...))`); `altloc.options`;
* `pyx.link.*` — `connectInter` (`!=` chain, `> 1` res_id step, C/N and O3'/P, SINGLE).
-/
namespace BiotiteModel.C04.Expected
def facts : List (String × List String) := [
  ("altloc.columns", ["altloc_id", "label_alt_id", "occupancy"]),
  ("altloc.options", ["all", "first", "occupancy"]),
  ("bond_split.ops", ["NotEq:<var>", "Eq:COORDINATION"]),
  ("canon.compare_terms", ["Eq:1", "Eq:SINGLE", "Eq:<expr>", "LtE:1"]),
  ("canon.shape", ["and-chain", "5"]),
  ("chem_comp_bond.order_case", ["upper"]),
  ("chem_comp_bond.read_columns", ["comp_id", "atom_id_1", "atom_id_2", "value_order", "pdbx_aromatic_flag"]),
  ("columns.atom_site+cell", ["0:group_PDB", "0:type_symbol", "0:label_atom_id", "0:label_alt_id", "0:label_comp_id", "0:label_asym_id", "0:label_entity_id", "0:label_seq_id", "0:pdbx_PDB_ins_code", "0:auth_seq_id", "0:auth_comp_id", "0:auth_asym_id", "0:auth_atom_id", "0:id", "0:B_iso_or_equiv", "0:occupancy", "0:pdbx_formal_charge", "0:Cartn_x", "0:Cartn_y", "0:Cartn_z", "0:pdbx_PDB_model_num", "0:Cartn_x", "0:Cartn_y", "0:Cartn_z", "0:pdbx_PDB_model_num", "0:id", "1:length_a", "1:length_b", "1:length_c", "1:angle_alpha", "1:angle_beta", "1:angle_gamma", "2:struct_conn", "2:chem_comp_bond", "2:atom_site", "2:cell"]),
  ("columns.chem_comp_bond", ["pdbx_ordinal", "comp_id", "atom_id_1", "atom_id_2", "value_order", "pdbx_aromatic_flag", "pdbx_stereo_config"]),
  ("columns.struct_conn", ["id", "conn_type_id", "pdbx_value_order"]),
  ("defaults.get_model_count", ["data_block=None"]),
  ("defaults.get_structure", ["model=None", "data_block=None", "altloc='first'", "extra_fields=None", "use_author_fields=True", "include_bonds=False"]),
  ("defaults.set_structure", ["data_block=None", "include_bonds=False", "extra_fields=[]"]),
  ("filter.occupancy.id_order", ["sorted", "set"]),
  ("filter.occupancy.init", ["-1.0", "None"]),
  ("filter.occupancy.ops", ["Gt", "Eq"]),
  ("find.switch", ["low=dense", "boundary=low"]),
  ("find.threshold", ["4000000"]),
  ("get_structure.model_guards", ["Is:None", "Eq:0", "Lt:0", "Gt:<var>", "Lt:1"]),
  ("model_filter.calls", ["as_array", "unique", "sort"]),
  ("model_filter.ops", ["Eq", "Sub:1"]),
  ("pyx.link.atom_names", ["C", "N", "O3'", "P"]),
  ("pyx.link.bond_type", ["SINGLE"]),
  ("pyx.link.chain_guard", ["!="]),
  ("pyx.link.res_id_guard", [">1"]),
  ("raises.altloc", ["ValueError"]),
  ("raises.chem_comp_bond_writer", ["BadStructureError"]),
  ("raises.get_structure", ["InvalidFileError", "ValueError"]),
  ("raises.matchers", ["dense:InvalidFileError", "dict:InvalidFileError"]),
  ("raises.non_empty_check", ["BadStructureError", "ValueError"]),
  ("raises.set_structure", ["ValueError"]),
  ("reader.as_array_args", ["str", "int,-1", "str,''", "str", "str", "str", "str", "str", "int", "float", "float", "int,0"]),
  ("reader.consts", ["atom_id", "b_factor", "occupancy", "charge", "HETATM", "id", "atom_id", "B_iso_or_equiv", "b_factor", "occupancy", "occupancy", "pdbx_formal_charge", "charge", "atom_id", "atom_id", "b_factor", "b_factor", "occupancy", "occupancy", "charge", "charge", "pdbx_PDB_ins_code", "type_symbol", "group_PDB", "id", "B_iso_or_equiv", "occupancy", "pdbx_formal_charge"]),
  ("set_structure.box_index", ["0"]),
  ("set_structure.format_specs", ["+d"]),
  ("set_structure.name_lists", ["['hetero', 'element', 'atom_name', 'res_name', 'chain_id', 'res_id', 'ins_code', 'atom_id', 'b_factor', 'occupancy', 'charge']", "['id', 'Cartn_x', 'Cartn_y', 'Cartn_z', 'pdbx_PDB_model_num']"]),
  ("set_structure.strings", ["HETATM", "ATOM", ".", "?"]),
  ("struct_conn.colname_consts", ["label_alt_id", "pdbx_ptnr", "_label_alt_id", "pdbx_", "pdbx_ptnr", "_", "ptnr", "_"]),
  ("struct_conn.matched_columns", ["label_asym_id", "label_comp_id", "label_seq_id", "label_atom_id", "label_alt_id", "auth_asym_id", "auth_comp_id", "auth_seq_id", "pdbx_PDB_ins_code"]),
  ("struct_conn.order_case", ["lower"]),
  ("struct_conn.read_columns", [".", "1_555", "?", "conn_type_id", "pdbx_value_order", "ptnr1_symmetry", "ptnr2_symmetry"]),
  ("struct_conn.written_key_columns", ["label_asym_id", "label_comp_id", "label_seq_id", "label_atom_id", "pdbx_PDB_ins_code"])
]
end BiotiteModel.C04.Expected

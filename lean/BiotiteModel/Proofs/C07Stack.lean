import BiotiteModel.Proofs.C07Alt
/-! `splitModels` (the `model=None` path): per-model record blocks of a written file. -/
namespace BiotiteModel.C07

theorem range'_zip_enumFrom {α : Type} (l : List α) : ∀ o, (List.range' o l.length).zip l = enumFrom o l := by
  induction l with
  | nil => intro o; rfl
  | cons x xs ih => intro o; simp [List.range'_succ, enumFrom, ih]

theorem enum_eq_enumFrom {α : Type} (l : List α) : enum l = enumFrom 0 l := by
  unfold enum
  rw [List.range_eq_range', range'_zip_enumFrom]

/-- neutral lines: neither atom records nor MODEL records (CRYST1, ENDMDL, CONECT, …) -/
def Neutral (ls : List Line) : Prop := ∀ x ∈ ls, isAtomLine x = false ∧ isModelLine x = false

theorem recsFrom_some_end (o : Nat) (l : List Line) (lo h : Nat) (hh : o + l.length ≤ h) :
    recsFrom o l lo (some h) = recsFrom o l lo none := by
  unfold recsFrom
  congr 1
  apply List.filter_congr
  intro p hp
  have := (mem_enumFrom l o p hp).2.1
  have : p.1 < h := by omega
  simp [this]

/-- the records between two line indices, in the form `splitModels` writes the test -/
theorem split_filter_eq (lines : List Line) (lo h : Nat) :
    ((enum lines).filter (fun p => decide (lo ≤ p.1) && decide (p.1 < h) && isAtomLine p.2)).map (·.2) =
      recsFrom 0 lines lo (some h) := by
  rw [enum_eq_enumFrom]
  unfold recsFrom
  congr 1
  apply List.filter_congr
  intro p _
  by_cases h1 : p.1 < h <;> by_cases h2 : lo ≤ p.1 <;> cases isAtomLine p.2 <;> simp [h1, h2]

/-- `_model_start_i` with a neutral prefix -/
theorem starts_pre_fileOf (pre : List Line) (bs : List (Line × List Line)) (tail : List Line) (hpre : Neutral pre)
    (g : GoodFile bs tail) :
    ((enum (pre ++ fileOf bs tail)).filter (fun p => startsWith "MODEL".toList p.2)).map (·.1) = offs pre.length bs := by
  rw [enum_eq_enumFrom, enumFrom_append, List.filter_append, List.map_append]
  have h1 : (enumFrom 0 pre).filter (fun p => startsWith "MODEL".toList p.2) = [] := by
    rw [List.filter_eq_nil_iff]
    intro p hp
    have := (hpre p.2 (mem_enumFrom pre 0 p hp).2.2).2
    simp [isModelLine] at this
    simp [this]
  rw [h1]
  simp only [List.map_nil, List.nil_append, Nat.zero_add]
  exact starts_fileOf bs tail g pre.length

theorem recs_pre_fileOf (pre : List Line) (bs : List (Line × List Line)) (tail : List Line) (hpre : Neutral pre)
    (g : GoodFile bs tail) (k : Nat) (hk : k < bs.length) :
    recsFrom 0 (pre ++ fileOf bs tail) ((offs pre.length bs).getD k 0)
      (if k + 1 < bs.length then some ((offs pre.length bs).getD (k + 1) 0) else none) = bs[k].2 := by
  rw [recsFrom_append, recsFrom_noatoms 0 pre _ _ (fun x hx => (hpre x hx).1), List.nil_append, Nat.zero_add]
  exact recs_fileOf bs tail g pre.length k hk

theorem fileOf_length_ge (bs : List (Line × List Line)) (tail : List Line) : ∀ o, ∀ x ∈ offs o bs, x < o + (fileOf bs tail).length := by
  induction bs with
  | nil => intro o x hx; simp [offs] at hx
  | cons b r ih =>
    intro o x hx
    simp only [offs, List.mem_cons] at hx
    rw [fileOf_cons, List.length_append, block_length]
    rcases hx with rfl | hx
    · omega
    · have := ih (o + b.2.length + 2) x hx; omega

/-- **per-model blocks.**  For a file made of model blocks (after a neutral prefix such as CRYST1), the reader's
split into models returns exactly the atom records of each block, in order. -/
theorem splitModels_blocks (pre : List Line) (bs : List (Line × List Line)) (tail : List Line) (hpre : Neutral pre)
    (g : GoodFile bs tail) (hne : bs ≠ []) :
    splitModels (pre ++ fileOf bs tail) = bs.map (·.2) := by
  unfold splitModels
  simp only [starts_pre_fileOf pre bs tail hpre g]
  have hoffne : (offs pre.length bs).isEmpty = false := by
    cases bs with
    | nil => exact absurd rfl hne
    | cons b r => simp [offs]
  simp only [hoffne, Bool.false_eq_true, if_false]
  have hlen : (offs pre.length bs).length = bs.length := offs_length bs _
  apply List.ext_getElem
  · simp only [List.length_map, List.length_zip, List.length_append, List.length_drop, List.length_singleton, hlen]
    have : 0 < bs.length := List.length_pos_iff.2 hne
    omega
  · intro k h1 h2
    simp only [List.length_map] at h2
    simp only [List.getElem_map, List.getElem_zip]
    rw [split_filter_eq]
    have hrec := recs_pre_fileOf pre bs tail hpre g k h2
    have hk1 : k < (offs pre.length bs).length := by omega
    have e1 : (offs pre.length bs)[k] = (offs pre.length bs).getD k 0 := by
      simp [List.getD_eq_getElem?_getD, List.getElem?_eq_getElem hk1]
    rw [e1]
    by_cases hlast : k + 1 < bs.length
    · have hk2 : k < ((offs pre.length bs).drop 1).length := by simp [hlen]; omega
      have hk3 : k < ((offs pre.length bs).drop 1 ++ [(pre ++ fileOf bs tail).length]).length := by
        simp [hlen]; omega
      have e2 : ((offs pre.length bs).drop 1 ++ [(pre ++ fileOf bs tail).length])[k]'hk3 = (offs pre.length bs).getD (k + 1) 0 := by
        rw [List.getElem_append_left hk2, List.getElem_drop]
        have h' : k + 1 < (offs pre.length bs).length := by omega
        simp [List.getD_eq_getElem?_getD, List.getElem?_eq_getElem h', Nat.add_comm]
      rw [e2]
      simp only [hlast, if_true] at hrec
      exact hrec
    · have hk2 : ((offs pre.length bs).drop 1).length ≤ k := by simp [hlen]; omega
      have hk3 : k < ((offs pre.length bs).drop 1 ++ [(pre ++ fileOf bs tail).length]).length := by
        simp [hlen]; omega
      have e2 : ((offs pre.length bs).drop 1 ++ [(pre ++ fileOf bs tail).length])[k]'hk3 = (pre ++ fileOf bs tail).length := by
        rw [List.getElem_append_right hk2]; simp
      rw [e2, recsFrom_some_end 0 _ _ _ (by omega)]
      simp only [hlast, if_false] at hrec
      exact hrec

/-- a file without MODEL records (after a neutral prefix): one model -/
theorem splitModels_single (pre recs tail : List Line) (hpre : Neutral pre) (hne : recs ≠ [])
    (hat : ∀ x ∈ recs, isAtomLine x = true ∧ isModelLine x = false) (htail : Neutral tail) :
    splitModels (pre ++ (recs ++ tail)) = [recs] := by
  unfold splitModels
  have hst : ((enum (pre ++ (recs ++ tail))).filter (fun p => startsWith "MODEL".toList p.2)).map (·.1) = [] := by
    rw [enum_eq_enumFrom, List.filter_eq_nil_iff.2]
    · rfl
    · intro p hp
      have hm := (mem_enumFrom _ 0 p hp).2.2
      have : isModelLine p.2 = false := by
        rcases List.mem_append.1 hm with hm | hm
        · exact (hpre _ hm).2
        · rcases List.mem_append.1 hm with hm | hm
          · exact (hat _ hm).2
          · exact (htail _ hm).2
      simp [isModelLine] at this
      simp [this]
  obtain ⟨x, xs, rfl⟩ := List.exists_cons_of_ne_nil hne
  have hany : (pre ++ (x :: xs ++ tail)).any isAtomLine = true := by
    simp [(hat x List.mem_cons_self).1]
  simp only [hst, List.isEmpty_nil, if_true, hany, List.drop_succ_cons, List.drop_nil, List.nil_append, List.zip_cons_cons,
    List.zip_nil_right, List.map_cons, List.map_nil]
  rw [split_filter_eq, recsFrom_some_end 0 _ _ _ (by omega), recsFrom_append,
    recsFrom_noatoms 0 pre _ _ (fun y hy => (hpre y hy).1), recsFrom_append,
    recsFrom_all _ (x :: xs) 0 none (fun y hy => (hat y hy).1) (Nat.zero_le _) (fun h hh => by cases hh),
    recsFrom_noatoms _ tail _ _ (fun y hy => (htail y hy).1)]
  simp


/-! ### `PDBFile.read` pads every line to 80 characters: record kinds do not change -/

theorem isPrefixOf_pad (p : List Char) (hp : ∀ c ∈ p, c ≠ ' ') : ∀ (l : List Char) (k : Nat),
    p.isPrefixOf (l ++ List.replicate k ' ') = p.isPrefixOf l := by
  induction p with
  | nil => intro l k; simp
  | cons c cs ih =>
    intro l k
    cases l with
    | nil =>
      cases k with
      | zero => simp
      | succ k =>
        have : (c == ' ') = false := by simpa using hp c List.mem_cons_self
        simp [List.replicate_succ, List.isPrefixOf, this]
    | cons d ds =>
      simp only [List.cons_append, List.isPrefixOf]
      rw [ih (fun x hx => hp x (List.mem_cons_of_mem _ hx)) ds k]

theorem kind_pad (l : Line) :
    isAtomLine (ljust 80 l) = isAtomLine l ∧ isModelLine (ljust 80 l) = isModelLine l ∧
    startsWith "MODEL".toList (ljust 80 l) = startsWith "MODEL".toList l ∧
    startsWith "CONECT".toList (ljust 80 l) = startsWith "CONECT".toList l := by
  have hA := isPrefixOf_pad "ATOM".toList (by decide) l (80 - l.length)
  have hH := isPrefixOf_pad "HETATM".toList (by decide) l (80 - l.length)
  have hM := isPrefixOf_pad "MODEL".toList (by decide) l (80 - l.length)
  have hC := isPrefixOf_pad "CONECT".toList (by decide) l (80 - l.length)
  simp only [isAtomLine, isModelLine, startsWith, ljust, hA, hH, hM, hC, and_self]

theorem enum_map {α β : Type} (f : α → β) (l : List α) : enum (l.map f) = (enum l).map (fun p => (p.1, f p.2)) := by
  rw [enum_eq_enumFrom, enum_eq_enumFrom]
  generalize 0 = o
  induction l generalizing o with
  | nil => rfl
  | cons x xs ih => simp [enumFrom, ih]

theorem splitModels_pad (lines : List Line) :
    splitModels (lines.map (ljust 80)) = (splitModels lines).map (fun m => m.map (ljust 80)) := by
  unfold splitModels
  simp only [enum_map, List.filter_map, List.map_map, List.length_map, List.any_map]
  have h1 : ((fun p : Nat × Line => startsWith "MODEL".toList p.2) ∘ fun p : Nat × Line => (p.1, ljust 80 p.2)) =
      fun p => startsWith "MODEL".toList p.2 := by
    funext p; exact (kind_pad p.2).2.2.1
  have h2 : (isAtomLine ∘ ljust 80) = isAtomLine := by funext l; exact (kind_pad l).1
  have h3 : ((fun x : Nat × Line => x.1) ∘ fun p : Nat × Line => (p.1, ljust 80 p.2)) = fun x => x.1 := by funext p; rfl
  rw [h1, h2, h3]
  apply List.map_congr_left
  intro se _
  have h4 : ((fun p : Nat × Line => decide (se.1 ≤ p.1) && decide (p.1 < se.2) && isAtomLine p.2) ∘
      fun p : Nat × Line => (p.1, ljust 80 p.2)) = fun p => decide (se.1 ≤ p.1) && decide (p.1 < se.2) && isAtomLine p.2 := by
    funext p; simp [(kind_pad p.2).1]
  rw [h4]
  simp [Function.comp_def]

end BiotiteModel.C07

import BiotiteModel.Proofs.C03
/-! Helper lemmas for C03: `AlphabetMapper` and the index / slice / assignment laws of `Sequence`. -/
namespace BiotiteModel.C03

/-! ### `mapE` and positions -/

theorem mapE_length {α β : Type} (f : α → Except Err β) (xs : List α) (ys : List β)
    (h : mapE f xs = .ok ys) : ys.length = xs.length := by
  induction xs generalizing ys with
  | nil => simp [mapE] at h; subst h; rfl
  | cons x xs ih =>
    obtain ⟨y, ys', _, hys, rfl⟩ := mapE_cons_inv f x xs ys h
    simp [ih ys' hys]

theorem mapE_getElem {α β : Type} (f : α → Except Err β) (xs : List α) (ys : List β)
    (h : mapE f xs = .ok ys) (k : Nat) (a : α) (hk : xs[k]? = some a) :
    ∃ b, ys[k]? = some b ∧ f a = .ok b := by
  induction xs generalizing ys k with
  | nil => simp at hk
  | cons x xs ih =>
    obtain ⟨y, ys', hy, hys, rfl⟩ := mapE_cons_inv f x xs ys h
    cases k with
    | zero => simp at hk; subst hk; exact ⟨y, by simp, hy⟩
    | succ k => simpa using ih ys' hys k (by simpa using hk)

theorem mapE_take {α β : Type} (f : α → Except Err β) (xs : List α) (ys : List β)
    (h : mapE f xs = .ok ys) (n : Nat) : mapE f (xs.take n) = .ok (ys.take n) := by
  induction xs generalizing ys n with
  | nil => simp [mapE] at h; subst h; simp [mapE]
  | cons x xs ih =>
    obtain ⟨y, ys', hy, hys, rfl⟩ := mapE_cons_inv f x xs ys h
    cases n with
    | zero => simp [mapE]
    | succ n => simpa using mapE_cons_ok f x _ y _ hy (ih ys' hys n)

theorem mapE_drop {α β : Type} (f : α → Except Err β) (xs : List α) (ys : List β)
    (h : mapE f xs = .ok ys) (n : Nat) : mapE f (xs.drop n) = .ok (ys.drop n) := by
  induction xs generalizing ys n with
  | nil => simp [mapE] at h; subst h; simp [mapE]
  | cons x xs ih =>
    obtain ⟨y, ys', hy, hys, rfl⟩ := mapE_cons_inv f x xs ys h
    cases n with
    | zero => simpa using mapE_cons_ok f x _ y _ hy hys
    | succ n => simpa using ih ys' hys n

theorem mapE_set {α β : Type} (f : α → Except Err β) (xs : List α) (ys : List β)
    (h : mapE f xs = .ok ys) (k : Nat) (a : α) (b : β) (hab : f a = .ok b) :
    mapE f (xs.set k a) = .ok (ys.set k b) := by
  induction xs generalizing ys k with
  | nil => simp [mapE] at h; subst h; simp [mapE]
  | cons x xs ih =>
    obtain ⟨y, ys', hy, hys, rfl⟩ := mapE_cons_inv f x xs ys h
    cases k with
    | zero => simpa using mapE_cons_ok f a _ b _ hab hys
    | succ k => simpa using mapE_cons_ok f x _ y _ hy (ih ys' hys k)

theorem mapE_ok_of_exists {α β : Type} (f : α → Except Err β) (xs : List α)
    (h : ∀ x ∈ xs, ∃ y, f x = .ok y) : ∃ ys, mapE f xs = .ok ys := by
  induction xs with
  | nil => exact ⟨[], rfl⟩
  | cons x xs ih =>
    obtain ⟨ys, hys⟩ := ih fun y hy => h y (by simp [hy])
    obtain ⟨y, hy⟩ := h x (by simp)
    exact ⟨y :: ys, mapE_cons_ok f x xs y ys hy hys⟩

/-! ### mapper -/
section Mapper
variable {α : Type} [DecidableEq α]

theorem extends_prefix {self other : List α} (h : extends_ self other = true) :
    other = self.take other.length ∧ other.length ≤ self.length := by
  simp only [extends_, Bool.and_eq_true, decide_eq_true_eq] at h
  exact ⟨h.2, h.1⟩

/-- One valid source code through the mapper denotes the same symbol in the target alphabet. -/
theorem mapper_elem (src tgt : List α) (hsub : ∀ s ∈ src, s ∈ tgt) (m : Option (List Nat))
    (hm : mapperNew src tgt = .ok m) (c : Nat) (hc : c < src.length) :
    ∃ j s, mapperApply m [c] = .ok [j] ∧ decode1 tgt (j : Int) = .ok s ∧ decode1 src (c : Int) = .ok s := by
  have hsrc : src[c]? = some src[c] := by simp [hc]
  unfold mapperNew at hm
  by_cases hext : extends_ tgt src = true
  · simp only [hext, if_true, Except.ok.injEq] at hm
    subst hm
    obtain ⟨hpre, hle⟩ := extends_prefix hext
    have htgt : tgt[c]? = some src[c] := by
      have : (tgt.take src.length)[c]? = tgt[c]? := by rw [List.getElem?_take]; simp [hc]
      rw [← this, ← hpre]; exact hsrc
    exact ⟨c, src[c], rfl, decode1_ofNat htgt, decode1_ofNat hsrc⟩
  · simp only [hext, Bool.false_eq_true, if_false] at hm
    cases htbl : mapE (encode1 tgt) src with
    | error e => simp [htbl] at hm
    | ok tbl =>
      simp only [htbl, Except.ok.injEq] at hm
      subst hm
      obtain ⟨j, hj, henc⟩ := mapE_getElem _ src tbl htbl c src[c] hsrc
      have hi := encode1_ok_iff.mp henc
      refine ⟨j, src[c], ?_, decode1_ofNat (indexOf?_some hi), decode1_ofNat hsrc⟩
      simp [mapperApply, mapE, hj]

theorem mapperNew_ok (src tgt : List α) (hsub : ∀ s ∈ src, s ∈ tgt) : ∃ m, mapperNew src tgt = .ok m := by
  unfold mapperNew
  by_cases hext : extends_ tgt src = true
  · exact ⟨none, by simp [hext]⟩
  · obtain ⟨tbl, htbl⟩ := mapE_ok_of_exists (encode1 tgt) src fun s hs => by
      obtain ⟨i, hi⟩ := indexOf?_of_mem (hsub s hs)
      exact ⟨i, encode1_ok_iff.mpr hi⟩
    exact ⟨some tbl, by simp [hext, htbl]⟩

theorem mapperApply_cons (m : Option (List Nat)) (c j : Nat) (cs js : List Nat)
    (h1 : mapperApply m [c] = .ok [j]) (h2 : mapperApply m cs = .ok js) :
    mapperApply m (c :: cs) = .ok (j :: js) := by
  cases m with
  | none =>
    simp only [mapperApply, Except.ok.injEq] at h1 h2 ⊢
    simp only [List.cons.injEq, and_true] at h1
    subst h1; subst h2; rfl
  | some t =>
    simp only [mapperApply] at h1 h2 ⊢
    obtain ⟨y, ys, hy, _, hyy⟩ := mapE_cons_inv _ _ _ _ h1
    simp only [List.cons.injEq] at hyy
    obtain ⟨rfl, _⟩ := hyy
    exact mapE_cons_ok _ _ _ _ _ hy h2

end Mapper

section Laws
variable {α : Type} [DecidableEq α]

theorem mapperApply_nil (m : Option (List Nat)) : mapperApply m [] = .ok [] := by
  cases m <;> rfl

/-- Mapping valid codes of `src` into a target alphabet containing all its symbols preserves the symbols. -/
theorem mapper_preserves (src tgt : List α) (hsub : ∀ s ∈ src, s ∈ tgt) :
    ∃ m, mapperNew src tgt = .ok m ∧ ∀ codes : List Nat, (∀ c ∈ codes, c < src.length) →
      ∃ out syms, mapperApply m codes = .ok out ∧ decode src (codes.map Int.ofNat) = .ok syms ∧
        decode tgt (out.map Int.ofNat) = .ok syms := by
  obtain ⟨m, hm⟩ := mapperNew_ok src tgt hsub
  refine ⟨m, hm, ?_⟩
  intro codes
  induction codes with
  | nil => intro _; exact ⟨[], [], mapperApply_nil m, rfl, rfl⟩
  | cons c cs ih =>
    intro hv
    obtain ⟨out, syms, h1, h2, h3⟩ := ih fun d hd => hv d (by simp [hd])
    obtain ⟨j, s, hj, hdt, hds⟩ := mapper_elem src tgt hsub m hm c (hv c (by simp))
    exact ⟨j :: out, s :: syms, mapperApply_cons m c j cs out hj h1,
      mapE_cons_ok _ _ _ _ _ hds h2, mapE_cons_ok _ _ _ _ _ hdt h3⟩

theorem symbols_length (s : Seq α) (x : List α) (h : s.symbols = .ok x) : x.length = s.codes.length := by
  have := mapE_length _ _ _ h
  simpa using this

/-- Indexing with a normalised position returns the symbol at that position of the string. -/
theorem getItem_at (s : Seq α) (x : List α) (h : s.symbols = .ok x) (i : Int) (k : Nat)
    (hn : normIndex s.codes.length i = .ok k) (hk : k < s.codes.length) :
    ∃ a, x[k]? = some a ∧ s.getItem i = .ok a := by
  have hc : s.codes[k]? = some s.codes[k] := by simp [hk]
  have hc' : (s.codes.map Int.ofNat)[k]? = some (Int.ofNat s.codes[k]) := by simp [hk]
  obtain ⟨a, ha, hd⟩ := mapE_getElem _ _ _ h k _ hc'
  exact ⟨a, ha, by simp only [Seq.getItem, hn, hc]; exact hd⟩

theorem slice_symbols (s : Seq α) (x : List α) (h : s.symbols = .ok x) (a b : Option Int) :
    (s.slice a b).symbols =
      .ok ((x.take (sliceBounds x.length a b).2).drop (sliceBounds x.length a b).1) := by
  rw [symbols_length s x h]
  unfold Seq.slice Seq.symbols decode at *
  simp only [List.map_drop, List.map_take]
  exact mapE_drop _ _ _ (mapE_take _ _ _ h _) _

theorem setItem_symbols (s : Seq α) (x : List α) (h : s.symbols = .ok x) (i : Int) (k : Nat)
    (hn : normIndex s.codes.length i = .ok k) (sym : α) (hs : sym ∈ s.alph) :
    ∃ s', s.setItem i sym = .ok s' ∧ s'.symbols = .ok (x.set k sym) ∧ s'.alph = s.alph ∧ s'.kind = s.kind := by
  obtain ⟨c, hc⟩ := indexOf?_of_mem hs
  have henc : encode1 s.alph sym = .ok c := encode1_ok_iff.mpr hc
  refine ⟨{ s with codes := s.codes.set k c }, by simp [Seq.setItem, henc, hn], ?_, rfl, rfl⟩
  unfold Seq.symbols decode at *
  simp only [List.map_set]
  exact mapE_set _ _ _ h k _ sym (decode1_ofNat (indexOf?_some hc))

theorem setSlice_symbols (s : Seq α) (x : List α) (h : s.symbols = .ok x) (a b : Option Int)
    (syms : List α) (hs : ∀ y ∈ syms, y ∈ s.alph)
    (hl : syms.length = (sliceBounds x.length a b).2 - (sliceBounds x.length a b).1) :
    ∃ s', s.setSlice a b syms = .ok s' ∧
      s'.symbols = .ok (x.take (sliceBounds x.length a b).1 ++ syms ++ x.drop (sliceBounds x.length a b).2) := by
  rw [symbols_length s x h] at hl ⊢
  -- encode the new symbols
  have henc : ∃ cs, encode s.alph syms = .ok cs ∧ decode s.alph (cs.map Int.ofNat) = .ok syms ∧ cs.length = syms.length := by
    clear hl
    induction syms with
    | nil => exact ⟨[], rfl, rfl, rfl⟩
    | cons y ys ih =>
      obtain ⟨cs, h1, h2, h3⟩ := ih fun z hz => hs z (by simp [hz])
      obtain ⟨c, hc⟩ := indexOf?_of_mem (hs y (by simp))
      exact ⟨c :: cs, mapE_cons_ok _ _ _ _ _ (encode1_ok_iff.mpr hc) h1,
        mapE_cons_ok _ _ _ _ _ (decode1_ofNat (indexOf?_some hc)) h2, by simp [h3]⟩
  obtain ⟨cs, h1, h2, h3⟩ := henc
  generalize hsb : sliceBounds s.codes.length a b = lohi at hl ⊢
  obtain ⟨lo, hi⟩ := lohi
  have hplace : placeCodes s.codes a b cs = .ok (s.codes.take lo ++ cs ++ s.codes.drop hi) := by
    simp only [placeCodes, hsb]
    have : cs.length = hi - lo := by rw [h3]; exact hl
    simp [this]
  refine ⟨{ s with codes := s.codes.take lo ++ cs ++ s.codes.drop hi }, by simp [Seq.setSlice, h1, hplace], ?_⟩
  unfold Seq.symbols decode at *
  simp only [List.map_append, List.map_take, List.map_drop]
  exact mapE_append _ _ _ _ _ (mapE_append _ _ _ _ _ (mapE_take _ _ _ h _) h2) (mapE_drop _ _ _ h _)

theorem normIndex_spec (n : Nat) (i : Int) :
    (0 ≤ i → i < n → normIndex n i = .ok i.toNat) ∧
    (i < 0 → -(n : Int) ≤ i → normIndex n i = .ok (i + n).toNat) ∧
    ((n : Int) ≤ i ∨ i < -(n : Int) → normIndex n i = .error .indexError) := by
  refine ⟨fun h0 h1 => ?_, fun h0 h1 => ?_, fun h => ?_⟩
  · simp [normIndex, h0, h1]
  · have : ¬ (0 ≤ i ∧ i < n) := by omega
    simp [normIndex, this, h0, h1]
  · have h1 : ¬ (0 ≤ i ∧ i < n) := by omega
    have h2 : ¬ (i < 0 ∧ -(n : Int) ≤ i) := by omega
    simp [normIndex, h1, h2]

theorem encode_error_of_not_mem (alph syms : List α) (h : ∃ y ∈ syms, y ∉ alph) :
    encode alph syms = .error .alphabetError := by
  unfold encode
  rw [mapE_error_iff _ _ _ fun x _ => encode1_total alph x]
  obtain ⟨y, hy, hn⟩ := h
  exact ⟨y, hy, encode1_error_iff.mpr hn⟩

/-- Assignment never corrupts: a foreign symbol is an `AlphabetError`, a length mismatch (other
than numpy's broadcast of a single symbol) a `ValueError`. -/
theorem setSlice_rejects (s : Seq α) (a b : Option Int) (syms : List α) :
    ((∃ y ∈ syms, y ∉ s.alph) → s.setSlice a b syms = .error .alphabetError) ∧
    ((∀ y ∈ syms, y ∈ s.alph) →
      syms.length ≠ (sliceBounds s.codes.length a b).2 - (sliceBounds s.codes.length a b).1 →
      syms.length ≠ 1 → s.setSlice a b syms = .error .valueError) := by
  constructor
  · intro h
    simp [Seq.setSlice, encode_error_of_not_mem s.alph syms h]
  · intro hall hl h1
    obtain ⟨cs, hcs⟩ := mapE_ok_of_exists (encode1 s.alph) syms fun y hy => by
      obtain ⟨i, hi⟩ := indexOf?_of_mem (hall y hy)
      exact ⟨i, encode1_ok_iff.mpr hi⟩
    have hlen : cs.length = syms.length := mapE_length _ _ _ hcs
    have hcs' : encode s.alph syms = .ok cs := hcs
    generalize hsb : sliceBounds s.codes.length a b = lohi at hl
    obtain ⟨lo, hi⟩ := lohi
    have hne : ¬ cs.length = hi - lo := by rw [hlen]; exact hl
    have hplace : placeCodes s.codes a b cs = .error .valueError := by
      simp only [placeCodes, hsb, hne, if_false]
      match cs, hlen, h1 with
      | [], _, _ => rfl
      | [c], hlen, h1 => exact absurd hlen.symm (by simpa using h1)
      | _ :: _ :: _, _, _ => rfl
    simp [Seq.setSlice, hcs', hplace]

theorem setItem_rejects (s : Seq α) (i : Int) (sym : α) (h : sym ∉ s.alph) :
    s.setItem i sym = .error .alphabetError := by
  simp [Seq.setItem, encode1_error_iff.mpr h]

/-- Decoding is injective on code lists for an alphabet without duplicate symbols. -/
theorem decode_inj (alph : List α) (hnd : alph.Nodup) (c1 c2 : List Nat) (x : List α)
    (h1 : decode alph (c1.map Int.ofNat) = .ok x) (h2 : decode alph (c2.map Int.ofNat) = .ok x) : c1 = c2 := by
  induction c1 generalizing c2 x with
  | nil =>
    simp [decode, mapE] at h1; subst h1
    cases c2 with
    | nil => rfl
    | cons d ds =>
      obtain ⟨_, _, _, _, hx⟩ := mapE_cons_inv _ _ _ _ h2
      cases hx
  | cons c cs ih =>
    obtain ⟨s, xs, hs, hxs, rfl⟩ := mapE_cons_inv _ _ _ _ h1
    cases c2 with
    | nil => simp [decode, mapE] at h2
    | cons d ds =>
      obtain ⟨s', xs', hs', hxs', hx⟩ := mapE_cons_inv _ _ _ _ h2
      simp only [List.cons.injEq] at hx
      obtain ⟨rfl, rfl⟩ := hx
      have e1 := indexOf?_of_getElem hnd (decode1_ok hs).2.2
      have e2 := indexOf?_of_getElem hnd (decode1_ok hs').2.2
      simp only [Int.ofNat_eq_natCast, Int.toNat_natCast] at e1 e2
      rw [e1] at e2
      simp only [Option.some.injEq] at e2
      subst e2
      rw [ih ds xs hxs hxs']

/-- `==` is equality of the symbol strings *together with* class and alphabet. -/
theorem beq_iff_symbols (a b : Seq α) (hnd : a.alph.Nodup) (x y : List α)
    (ha : a.symbols = .ok x) (hb : b.symbols = .ok y) :
    a.beq b = true ↔ a.kind = b.kind ∧ a.alph = b.alph ∧ x = y := by
  obtain ⟨ka, aa, ca⟩ := a
  obtain ⟨kb, ab, cb⟩ := b
  simp only [Seq.beq, Bool.and_eq_true, decide_eq_true_eq, and_assoc]
  constructor
  · rintro ⟨rfl, rfl, rfl⟩
    rw [ha] at hb
    exact ⟨rfl, rfl, Except.ok.inj hb⟩
  · rintro ⟨rfl, rfl, rfl⟩
    exact ⟨rfl, rfl, decode_inj aa hnd ca cb x ha hb⟩

theorem mapE_ok_transfer {β γ : Type} (f g : β → Except Err γ) (xs : List β) (ys : List γ)
    (h : mapE f xs = .ok ys) (hfg : ∀ x ∈ xs, ∀ y, f x = .ok y → g x = .ok y) : mapE g xs = .ok ys := by
  induction xs generalizing ys with
  | nil => simp [mapE] at h; subst h; rfl
  | cons x xs ih =>
    obtain ⟨y, ys', hy, hys, rfl⟩ := mapE_cons_inv f x xs ys h
    exact mapE_cons_ok g x xs y ys' (hfg x (by simp) y hy) (ih ys' hys fun z hz => hfg z (by simp [hz]))

theorem encode_ok_of_mem (alph syms : List α) (hs : ∀ y ∈ syms, y ∈ alph) :
    ∃ cs, encode alph syms = .ok cs ∧ decode alph (cs.map Int.ofNat) = .ok syms := by
  induction syms with
  | nil => exact ⟨[], rfl, rfl⟩
  | cons y ys ih =>
    obtain ⟨cs, h1, h2⟩ := ih fun z hz => hs z (by simp [hz])
    obtain ⟨c, hc⟩ := indexOf?_of_mem (hs y (by simp))
    exact ⟨c :: cs, mapE_cons_ok _ _ _ _ _ (encode1_ok_iff.mpr hc) h1,
      mapE_cons_ok _ _ _ _ _ (decode1_ofNat (indexOf?_some hc)) h2⟩

/-- `sequence.symbols = value`: the string becomes `value`; a foreign symbol is refused. -/
theorem setSymbols_spec (s : Seq α) (syms : List α) :
    ((∀ y ∈ syms, y ∈ s.alph) → ∃ s', s.setSymbols syms = .ok s' ∧ s'.symbols = .ok syms ∧
      s'.alph = s.alph ∧ s'.kind = s.kind) ∧
    ((∃ y ∈ syms, y ∉ s.alph) → s.setSymbols syms = .error .alphabetError) := by
  constructor
  · intro hs
    obtain ⟨cs, h1, h2⟩ := encode_ok_of_mem s.alph syms hs
    exact ⟨{ s with codes := cs }, by simp [Seq.setSymbols, h1], h2, rfl, rfl⟩
  · intro h
    simp [Seq.setSymbols, encode_error_of_not_mem s.alph syms h]

/-- `a.as_type(b)`: if `b`'s alphabet extends `a`'s, `b` afterwards has `a`'s symbol string (and
keeps its own alphabet); otherwise `AlphabetError`. -/
theorem asType_spec (a b : Seq α) (x : List α) (ha : a.symbols = .ok x) :
    (extends_ b.alph a.alph = true → ∃ b', a.asType b = .ok b' ∧ b'.symbols = .ok x ∧ b'.alph = b.alph ∧ b'.kind = b.kind) ∧
    (extends_ b.alph a.alph = false → a.asType b = .error .alphabetError) := by
  constructor
  · intro hext
    refine ⟨{ b with codes := a.codes }, by simp [Seq.asType, hext], ?_, rfl, rfl⟩
    obtain ⟨hpre, _⟩ := extends_prefix hext
    unfold Seq.symbols decode at *
    refine mapE_ok_transfer _ _ _ _ ha ?_
    intro c _ y hy
    obtain ⟨h0, h1, hget⟩ := decode1_ok hy
    have hlt : c.toNat < a.alph.length := by omega
    have hb : b.alph[c.toNat]? = some y := by
      have : (b.alph.take a.alph.length)[c.toNat]? = b.alph[c.toNat]? := by
        rw [List.getElem?_take]; simp [hlt]
      rw [← this, ← hpre]; exact hget
    have hcn : ((c.toNat : Nat) : Int) = c := by omega
    have := decode1_ofNat hb
    rw [hcn] at this
    exact this
  · intro hext
    simp [Seq.asType, hext]

/-- Decoding codes that are valid for a prefix alphabet gives the same symbols in the longer alphabet. -/
theorem decode_prefix (big small : List α) (hext : extends_ big small = true) (cs : List Int) (x : List α)
    (h : decode small cs = .ok x) : decode big cs = .ok x := by
  obtain ⟨hpre, _⟩ := extends_prefix hext
  unfold decode at *
  refine mapE_ok_transfer _ _ _ _ h ?_
  intro c _ y hy
  obtain ⟨h0, h1, hget⟩ := decode1_ok hy
  have hlt : c.toNat < small.length := by omega
  have hb : big[c.toNat]? = some y := by
    have : (big.take small.length)[c.toNat]? = big[c.toNat]? := by
      rw [List.getElem?_take]; simp [hlt]
    rw [← this, ← hpre]; exact hget
  have hcn : ((c.toNat : Nat) : Int) = c := by omega
  have := decode1_ofNat hb
  rw [hcn] at this
  exact this

/-- `a + b` when one alphabet extends the other: the strings are concatenated and the result has
the longer alphabet (and the class of the operand owning it); otherwise `ValueError`. -/
theorem add_spec (a b : Seq α) (x y : List α) (ha : a.symbols = .ok x) (hb : b.symbols = .ok y) :
    (extends_ a.alph b.alph = true →
      ∃ c, a.add b = .ok c ∧ c.symbols = .ok (x ++ y) ∧ c.alph = a.alph ∧ c.kind = a.kind) ∧
    (extends_ a.alph b.alph = false → extends_ b.alph a.alph = true →
      ∃ c, a.add b = .ok c ∧ c.symbols = .ok (x ++ y) ∧ c.alph = b.alph ∧ c.kind = b.kind) ∧
    (extends_ a.alph b.alph = false → extends_ b.alph a.alph = false → a.add b = .error .valueError) := by
  refine ⟨fun h1 => ?_, fun h1 h2 => ?_, fun h1 h2 => by simp [Seq.add, h1, h2]⟩
  · refine ⟨{ a with codes := a.codes ++ b.codes }, by simp [Seq.add, h1], ?_, rfl, rfl⟩
    have hb' := decode_prefix a.alph b.alph h1 _ y hb
    unfold Seq.symbols decode at *
    simp only [List.map_append]
    exact mapE_append _ _ _ _ _ ha hb'
  · refine ⟨{ b with codes := a.codes ++ b.codes }, by simp [Seq.add, h1, h2], ?_, rfl, rfl⟩
    have ha' := decode_prefix b.alph a.alph h2 _ x ha
    unfold Seq.symbols decode at *
    simp only [List.map_append]
    exact mapE_append _ _ _ _ _ ha' hb

/-- numpy's broadcast of ONE symbol over a slice. -/
theorem setSlice_broadcast (s : Seq α) (x : List α) (h : s.symbols = .ok x) (a b : Option Int) (y : α)
    (hy : y ∈ s.alph) (hw : (sliceBounds x.length a b).2 - (sliceBounds x.length a b).1 ≠ 1) :
    ∃ s', s.setSlice a b [y] = .ok s' ∧
      s'.symbols = .ok (x.take (sliceBounds x.length a b).1 ++
        List.replicate ((sliceBounds x.length a b).2 - (sliceBounds x.length a b).1) y ++
        x.drop (sliceBounds x.length a b).2) := by
  rw [symbols_length s x h] at hw ⊢
  obtain ⟨c, hc⟩ := indexOf?_of_mem hy
  have henc : encode s.alph [y] = .ok [c] := mapE_cons_ok _ _ _ _ _ (encode1_ok_iff.mpr hc) rfl
  generalize hsb : sliceBounds s.codes.length a b = lohi at hw ⊢
  obtain ⟨lo, hi⟩ := lohi
  have hne : ¬ ([c] : List Nat).length = hi - lo := by simpa using fun e => hw e.symm
  have hplace : placeCodes s.codes a b [c] = .ok (s.codes.take lo ++ List.replicate (hi - lo) c ++ s.codes.drop hi) := by
    simp only [placeCodes, hsb, hne, if_false]
  refine ⟨{ s with codes := s.codes.take lo ++ List.replicate (hi - lo) c ++ s.codes.drop hi },
    by simp [Seq.setSlice, henc, hplace], ?_⟩
  have hrep : mapE (decode1 s.alph) ((List.replicate (hi - lo) c).map Int.ofNat) = .ok (List.replicate (hi - lo) y) := by
    generalize hi - lo = n
    induction n with
    | zero => rfl
    | succ n ih =>
      simp only [List.replicate_succ, List.map_cons]
      exact mapE_cons_ok _ _ _ _ _ (decode1_ofNat (indexOf?_some hc)) ih
  unfold Seq.symbols decode at *
  simp only [List.map_append, List.map_take, List.map_drop]
  exact mapE_append _ _ _ _ _ (mapE_append _ _ _ _ _ (mapE_take _ _ _ h _) hrep) (mapE_drop _ _ _ h _)

theorem decode_mem (alph : List α) (cs : List Int) (x : List α) (h : decode alph cs = .ok x) :
    ∀ t ∈ x, t ∈ alph := by
  induction cs generalizing x with
  | nil => simp [decode, mapE] at h; subst h; simp
  | cons c cs ih =>
    obtain ⟨s, xs, hs, hxs, rfl⟩ := mapE_cons_inv _ _ _ _ h
    intro t ht
    rcases List.mem_cons.mp ht with rfl | ht
    · exact List.mem_of_getElem? (decode1_ok hs).2.2
    · exact ih xs hxs t ht

/-- `sequence[a:b] = other_sequence` is the assignment of the other sequence's symbols. -/
theorem setSliceSeq_spec (s item : Seq α) (x y : List α) (hs : s.symbols = .ok x) (hi : item.symbols = .ok y)
    (a b : Option Int) :
    ((∀ t ∈ y, t ∈ s.alph) →
      y.length = (sliceBounds x.length a b).2 - (sliceBounds x.length a b).1 →
      ∃ s', s.setSliceSeq a b item = .ok s' ∧
        s'.symbols = .ok (x.take (sliceBounds x.length a b).1 ++ y ++ x.drop (sliceBounds x.length a b).2) ∧
        s'.alph = s.alph ∧ s'.kind = s.kind) ∧
    ((∃ t ∈ y, t ∉ s.alph) → s.setSliceSeq a b item = .error .alphabetError) := by
  by_cases hext : extends_ s.alph item.alph = true
  · -- the codes mean the same symbols in both alphabets
    have hdec : decode s.alph (item.codes.map Int.ofNat) = .ok y := decode_prefix s.alph item.alph hext _ y hi
    have hmem := decode_mem s.alph _ y hdec
    constructor
    · intro _ hl
      rw [symbols_length s x hs] at hl ⊢
      have hylen : y.length = item.codes.length := by
        have := mapE_length _ _ _ hi; simpa using this
      generalize hsb : sliceBounds s.codes.length a b = lohi at hl ⊢
      obtain ⟨lo, hi'⟩ := lohi
      have hplace : placeCodes s.codes a b item.codes = .ok (s.codes.take lo ++ item.codes ++ s.codes.drop hi') := by
        have : item.codes.length = hi' - lo := by rw [← hylen]; exact hl
        simp [placeCodes, hsb, this]
      refine ⟨{ s with codes := s.codes.take lo ++ item.codes ++ s.codes.drop hi' },
        by simp [Seq.setSliceSeq, hext, hplace], ?_, rfl, rfl⟩
      unfold Seq.symbols decode at *
      simp only [List.map_append, List.map_take, List.map_drop]
      exact mapE_append _ _ _ _ _ (mapE_append _ _ _ _ _ (mapE_take _ _ _ hs _) hdec) (mapE_drop _ _ _ hs _)
    · rintro ⟨t, ht, hn⟩
      exact absurd (hmem t ht) hn
  · have hext' : extends_ s.alph item.alph = false := by simpa using hext
    constructor
    · intro hall hl
      obtain ⟨s', h1, h2⟩ := setSlice_symbols s x hs a b y hall hl
      refine ⟨s', by simp [Seq.setSliceSeq, hext', hi, h1], h2, ?_, ?_⟩
      · simp only [Seq.setSlice] at h1
        split at h1
        · simp at h1
        · split at h1
          · simp only [Except.ok.injEq] at h1; subst h1; rfl
          · simp at h1
      · simp only [Seq.setSlice] at h1
        split at h1
        · simp at h1
        · split at h1
          · simp only [Except.ok.injEq] at h1; subst h1; rfl
          · simp at h1
    · intro hbad
      simp [Seq.setSliceSeq, hext', hi, (setSlice_rejects s a b y).1 hbad]

end Laws

end BiotiteModel.C03

import BiotiteModel.Proofs.C15
/-! C15 helper lemmas, part 2: minimum image, `move_inside_box`. -/
namespace BiotiteModel.C15

/-- The constants the theorems need (discharged for the regenerated `Gen.C15.consts` by `decide`). -/
structure Std (c : Consts) : Prop where
  half : c.half = 1 / 2
  halfSub : c.halfSub = 1
  dispMod : c.dispMod = 1
  moveMod : c.moveMod = 1
  shiftI : c.shiftI = [-1, 0]
  shiftJ : c.shiftJ = [-1, 0]
  shiftK : c.shiftK = [-1, 0]
  tolPos : 0 < c.orthoTol
  repLo : c.repLo = 0
  repHi : c.repHi = 1
  prec : c.boxPrecedence = .explicitFirst

/-- exact orthogonality of the box vectors -/
def OrthoBox (b : Box) : Prop := b.r0.dot b.r1 = 0 ∧ b.r0.dot b.r2 = 0 ∧ b.r1.dot b.r2 = 0

theorem isOrthogonal_of_ortho {c : Consts} (hc : Std c) {b : Box} (h : OrthoBox b) : isOrthogonal c b = true := by
  obtain ⟨h1, h2, h3⟩ := h
  have : rabs 0 < c.orthoTol := by simpa [rabs] using hc.tolPos
  simp [isOrthogonal, h1, h2, h3, this]

/-- `wrapHalf ∘ (% 1)`: an integer is removed and the result lies in `[-1/2, 1/2]`
(for `>` as well as for `>=`). -/
theorem wrapHalf_spec {c : Consts} (hc : Std c) (q : Rat) :
    ∃ n : Int, wrapHalf c (pymod q 1) = q - (n : Rat) ∧
      -(1 / 2 : Rat) ≤ wrapHalf c (pymod q 1) ∧ wrapHalf c (pymod q 1) ≤ 1 / 2 := by
  have h0 := pymod_one_nonneg q
  have h1 := pymod_one_lt q
  have hq := pymod_one q
  generalize pymod q 1 = p at h0 h1 hq
  have key : ∀ (P : Prop) [Decidable P], (P → 1 / 2 ≤ p) → (¬P → p ≤ 1 / 2) →
      ∃ n : Int, (if P then p - 1 else p) = q - (n : Rat) ∧
        -(1 / 2 : Rat) ≤ (if P then p - 1 else p) ∧ (if P then p - 1 else p) ≤ 1 / 2 := by
    intro P _ hP hnP
    by_cases hp : P
    · refine ⟨q.floor + 1, ?_, ?_, ?_⟩
      · simp only [hp, if_true]; push_cast; rw [hq]; ring
      · simp only [hp, if_true]; linarith [hP hp]
      · simp only [hp, if_true]; linarith
    · refine ⟨q.floor, ?_, ?_, ?_⟩
      · simp only [hp, if_false]; rw [hq]
      · simp only [hp, if_false]; linarith
      · simp only [hp, if_false]; exact hnP hp
  unfold wrapHalf
  rw [hc.half, hc.halfSub]
  cases hs : c.halfStrict
  · have := key (p ≥ 1 / 2) (fun h => h) (fun h => le_of_lt (not_le.mp h))
    simpa using this
  · have := key (p > 1 / 2) (fun h => le_of_lt h) (fun h => not_lt.mp h)
    simpa using this

/-- `g² ≤ (g + m)²` for `|g| ≤ 1/2` and an integer `m`. -/
theorem sq_le_sq_add_int {g : Rat} (hl : -(1 / 2 : Rat) ≤ g) (hu : g ≤ 1 / 2) (m : Int) :
    g * g ≤ (g + (m : Rat)) * (g + (m : Rat)) := by
  rcases lt_trichotomy m 0 with hm | hm | hm
  · have : (m : Rat) ≤ -1 := by exact_mod_cast (by omega : m ≤ -1)
    nlinarith
  · subst hm; simp
  · have : (1 : Rat) ≤ (m : Rat) := by exact_mod_cast (by omega : 1 ≤ m)
    nlinarith

/-- squared length of a combination of ORTHOGONAL box vectors -/
theorem normSq_vecMul_ortho {b : Box} (h : OrthoBox b) (f : Vec) :
    (vecMul f b).normSq = f.x * f.x * b.r0.normSq + f.y * f.y * b.r1.normSq + f.z * f.z * b.r2.normSq := by
  obtain ⟨h1, h2, h3⟩ := h
  simp only [V3.normSq, V3.dot, vecMul] at *
  linear_combination 2 * f.x * f.y * h1 + 2 * f.x * f.z * h2 + 2 * f.y * f.z * h3

theorem normSq_nonneg (v : Vec) : 0 ≤ v.normSq := by
  simp only [V3.normSq, V3.dot]
  nlinarith [mul_self_nonneg v.x, mul_self_nonneg v.y, mul_self_nonneg v.z]

theorem sub_add_cancel' (u v : Vec) : (u.sub v).add v = u := by
  apply V3.ext' <;> simp [V3.add, V3.sub]

/-- `d + k·B` written with the fractions of `d`. -/
theorem shift_eq (f : Vec) (b : Box) (i j k : Int) :
    (fractionToCoord f b).add (vecMul (ofInts i j k) b) = vecMul (f.add (ofInts i j k)) b := by
  rw [vecMul_add]; rfl

/-- Orthogonal branch: lattice translate + shortest of ALL images. -/
theorem dispOrtho_spec {c : Consts} (hc : Std c) {b : Box} (horth : OrthoBox b) (f : Vec) :
    let g := f.map1 (fun q => pymod q 1)
    InLattice b ((dispOrtho c g b).sub (fractionToCoord f b)) ∧
    ∀ i j k : Int, (dispOrtho c g b).normSq ≤ ((fractionToCoord f b).add (vecMul (ofInts i j k) b)).normSq := by
  intro g
  obtain ⟨nx, hx, hxl, hxu⟩ := wrapHalf_spec hc f.x
  obtain ⟨ny, hy, hyl, hyu⟩ := wrapHalf_spec hc f.y
  obtain ⟨nz, hz, hzl, hzu⟩ := wrapHalf_spec hc f.z
  have hg : g.map1 (wrapHalf c) = f.sub (ofInts nx ny nz) := by
    apply V3.ext' <;> simp [g, V3.map1, V3.sub, ofInts, hx, hy, hz]
  constructor
  · refine ⟨-nx, -ny, -nz, ?_⟩
    simp only [dispOrtho, hg, fractionToCoord]
    rw [← vecMul_sub]
    congr 1
    apply V3.ext' <;> simp [V3.sub, ofInts]
  · intro i j k
    rw [shift_eq]
    simp only [dispOrtho, fractionToCoord]
    rw [normSq_vecMul_ortho horth, normSq_vecMul_ortho horth]
    have e1 : (g.map1 (wrapHalf c)).x = wrapHalf c (pymod f.x 1) := rfl
    have e2 : (g.map1 (wrapHalf c)).y = wrapHalf c (pymod f.y 1) := rfl
    have e3 : (g.map1 (wrapHalf c)).z = wrapHalf c (pymod f.z 1) := rfl
    have a1 := sq_le_sq_add_int hxl hxu (nx + i)
    have a2 := sq_le_sq_add_int hyl hyu (ny + j)
    have a3 := sq_le_sq_add_int hzl hzu (nz + k)
    have c1 : (f.add (ofInts i j k)).x = wrapHalf c (pymod f.x 1) + ((nx + i : Int) : Rat) := by
      simp [V3.add, ofInts, hx]; ring
    have c2 : (f.add (ofInts i j k)).y = wrapHalf c (pymod f.y 1) + ((ny + j : Int) : Rat) := by
      simp [V3.add, ofInts, hy]; ring
    have c3 : (f.add (ofInts i j k)).z = wrapHalf c (pymod f.z 1) + ((nz + k : Int) : Rat) := by
      simp [V3.add, ofInts, hz]; ring
    rw [e1, e2, e3, c1, c2, c3]
    have n0 := normSq_nonneg b.r0
    have n1 := normSq_nonneg b.r1
    have n2 := normSq_nonneg b.r2
    nlinarith [mul_le_mul_of_nonneg_right a1 n0, mul_le_mul_of_nonneg_right a2 n1, mul_le_mul_of_nonneg_right a3 n2]

/-! ### triclinic branch -/

theorem argminBy_spec (key : Vec → Rat) (v : Vec) (vs : List Vec) :
    argminBy key v vs ∈ v :: vs ∧ ∀ w ∈ v :: vs, key (argminBy key v vs) ≤ key w := by
  induction vs generalizing v with
  | nil => simp [argminBy]
  | cons u us ih =>
    unfold argminBy
    split
    · rename_i h
      obtain ⟨hm, hle⟩ := ih u
      refine ⟨List.mem_cons_of_mem _ hm, ?_⟩
      intro w hw
      rcases List.mem_cons.mp hw with rfl | hw
      · exact le_of_lt (lt_of_le_of_lt (hle u (List.mem_cons_self ..)) h)
      · exact hle w hw
    · rename_i h
      obtain ⟨hm, hle⟩ := ih v
      refine ⟨?_, ?_⟩
      · rcases List.mem_cons.mp hm with h1 | h1
        · rw [h1]; exact List.mem_cons_self ..
        · exact List.mem_cons_of_mem _ (List.mem_cons_of_mem _ h1)
      · intro w hw
        rcases List.mem_cons.mp hw with rfl | hw
        · exact hle _ (List.mem_cons_self ..)
        · rcases List.mem_cons.mp hw with rfl | hw
          · exact le_trans (hle v (List.mem_cons_self ..)) (not_lt.mp h)
          · exact hle w (List.mem_cons_of_mem _ hw)

/-- the 8 candidates in loop order -/
def cand (D : Vec) (b : Box) (i j k : Int) : Vec := D.add (vecMul (ofInts i j k) b)

theorem dispTriclinic_eq {c : Consts} (hc : Std c) (g : Vec) (b : Box) :
    dispTriclinic c g b = some (argminBy V3.normSq (cand (fractionToCoord g b) b (-1) (-1) (-1))
      [cand (fractionToCoord g b) b (-1) (-1) 0, cand (fractionToCoord g b) b (-1) 0 (-1),
       cand (fractionToCoord g b) b (-1) 0 0, cand (fractionToCoord g b) b 0 (-1) (-1),
       cand (fractionToCoord g b) b 0 (-1) 0, cand (fractionToCoord g b) b 0 0 (-1),
       cand (fractionToCoord g b) b 0 0 0]) := by
  simp only [dispTriclinic, shifts, hc.shiftI, hc.shiftJ, hc.shiftK, List.flatMap_cons, List.flatMap_nil,
    List.map_cons, List.map_nil, List.append_nil, List.cons_append, List.nil_append, cand]

/-- The triclinic branch returns one of the 8 candidates `g·B + s·B`, `s ∈ {-1,0}³`, and none of the 8 is shorter. -/
theorem dispTriclinic_spec {c : Consts} (hc : Std c) (g : Vec) (b : Box) :
    ∃ r, dispTriclinic c g b = some r ∧
      (∃ i j k : Int, r = (fractionToCoord g b).add (vecMul (ofInts i j k) b)) ∧
      ∀ i j k : Int, (i = -1 ∨ i = 0) → (j = -1 ∨ j = 0) → (k = -1 ∨ k = 0) →
        r.normSq ≤ ((fractionToCoord g b).add (vecMul (ofInts i j k) b)).normSq := by
  refine ⟨_, dispTriclinic_eq hc g b, ?_, ?_⟩
  · have hm := (argminBy_spec V3.normSq (cand (fractionToCoord g b) b (-1) (-1) (-1))
      [cand (fractionToCoord g b) b (-1) (-1) 0, cand (fractionToCoord g b) b (-1) 0 (-1),
       cand (fractionToCoord g b) b (-1) 0 0, cand (fractionToCoord g b) b 0 (-1) (-1),
       cand (fractionToCoord g b) b 0 (-1) 0, cand (fractionToCoord g b) b 0 0 (-1),
       cand (fractionToCoord g b) b 0 0 0]).1
    simp only [List.mem_cons, List.not_mem_nil, or_false] at hm
    rcases hm with h | h | h | h | h | h | h | h
    · exact ⟨-1, -1, -1, h⟩
    · exact ⟨-1, -1, 0, h⟩
    · exact ⟨-1, 0, -1, h⟩
    · exact ⟨-1, 0, 0, h⟩
    · exact ⟨0, -1, -1, h⟩
    · exact ⟨0, -1, 0, h⟩
    · exact ⟨0, 0, -1, h⟩
    · exact ⟨0, 0, 0, h⟩
  · intro i j k hi hj hk
    have hle := (argminBy_spec V3.normSq (cand (fractionToCoord g b) b (-1) (-1) (-1))
      [cand (fractionToCoord g b) b (-1) (-1) 0, cand (fractionToCoord g b) b (-1) 0 (-1),
       cand (fractionToCoord g b) b (-1) 0 0, cand (fractionToCoord g b) b 0 (-1) (-1),
       cand (fractionToCoord g b) b 0 (-1) 0, cand (fractionToCoord g b) b 0 0 (-1),
       cand (fractionToCoord g b) b 0 0 0]).2
    apply hle
    rcases hi with rfl | rfl <;> rcases hj with rfl | rfl <;> rcases hk with rfl | rfl <;> simp [cand]

theorem dispOrtho_lattice {c : Consts} (hc : Std c) (b : Box) (f : Vec) :
    InLattice b ((dispOrtho c (f.map1 (fun q => pymod q 1)) b).sub (fractionToCoord f b)) := by
  obtain ⟨nx, hx, -, -⟩ := wrapHalf_spec hc f.x
  obtain ⟨ny, hy, -, -⟩ := wrapHalf_spec hc f.y
  obtain ⟨nz, hz, -, -⟩ := wrapHalf_spec hc f.z
  have hg : (f.map1 (fun q => pymod q 1)).map1 (wrapHalf c) = f.sub (ofInts nx ny nz) := by
    apply V3.ext' <;> simp [V3.map1, V3.sub, ofInts, hx, hy, hz]
  refine ⟨-nx, -ny, -nz, ?_⟩
  simp only [dispOrtho, hg, fractionToCoord]
  rw [← vecMul_sub]
  congr 1
  apply V3.ext' <;> simp [V3.sub, ofInts]

/-- `f % 1 = f - floor f` as a vector statement -/
theorem mod1_eq (f : Vec) :
    f.map1 (fun q => pymod q 1) = f.sub (ofInts f.x.floor f.y.floor f.z.floor) := by
  apply V3.ext' <;> simp [V3.map1, V3.sub, ofInts, pymod_one]

theorem add_sub_lattice (b : Box) (g f : Vec) (i j k i' j' k' : Int)
    (hg : g = f.sub (ofInts i' j' k')) :
    ((fractionToCoord g b).add (vecMul (ofInts i j k) b)).sub (fractionToCoord f b) =
      vecMul (ofInts (i - i') (j - j') (k - k')) b := by
  subst hg
  apply V3.ext' <;> simp only [fractionToCoord, vecMul, V3.add, V3.sub, ofInts] <;> push_cast <;> ring

/-- `displacement` of one difference vector: defined for every non-singular box, and a lattice translate. -/
theorem displacement1_lattice {c : Consts} (hc : Std c) (d : Vec) (b : Box) (hdet : b.det ≠ 0) :
    ∃ r, displacement1 c d b = .ok r ∧ InLattice b (r.sub d) := by
  obtain ⟨f, hf⟩ : ∃ f, coordToFraction d b = some f := ⟨_, coordToFraction_eq d b hdet⟩
  have hd : fractionToCoord f b = d := fractionToCoord_coordToFraction d f b hf
  simp only [displacement1, hf, hc.dispMod]
  cases ho : isOrthogonal c b
  · obtain ⟨r, hr, ⟨i, j, k, hrc⟩, -⟩ := dispTriclinic_spec hc (f.map1 (fun q => pymod q 1)) b
    simp only [hr, Bool.false_eq_true, if_false]
    refine ⟨r, rfl, i - f.x.floor, j - f.y.floor, k - f.z.floor, ?_⟩
    rw [hrc, ← hd]
    exact add_sub_lattice b _ f i j k _ _ _ (mod1_eq f)
  · simp only [if_true]
    refine ⟨_, rfl, ?_⟩
    have := dispOrtho_lattice hc b f
    rwa [hd] at this

/-- Orthogonal boxes: the displacement is the shortest of ALL periodic images. -/
theorem displacement1_ortho {c : Consts} (hc : Std c) (d : Vec) (b : Box) (hdet : b.det ≠ 0) (horth : OrthoBox b) :
    ∃ r, displacement1 c d b = .ok r ∧ InLattice b (r.sub d) ∧
      ∀ i j k : Int, r.normSq ≤ (d.add (vecMul (ofInts i j k) b)).normSq := by
  obtain ⟨f, hf⟩ : ∃ f, coordToFraction d b = some f := ⟨_, coordToFraction_eq d b hdet⟩
  have hd : fractionToCoord f b = d := fractionToCoord_coordToFraction d f b hf
  have ho := isOrthogonal_of_ortho hc horth
  obtain ⟨hl, hmin⟩ := dispOrtho_spec hc horth f
  simp only [displacement1, hf, hc.dispMod, ho, if_true]
  rw [hd] at hl hmin
  exact ⟨_, rfl, hl, hmin⟩

/-- Triclinic branch: no periodic image whose fractional components lie in `[-1, 1)` is shorter. -/
theorem displacement1_tric_candidates {c : Consts} (hc : Std c) (d : Vec) (b : Box) (hdet : b.det ≠ 0)
    (hno : isOrthogonal c b = false) :
    ∃ r, displacement1 c d b = .ok r ∧
      ∀ i j k : Int, ∀ fe, coordToFraction (d.add (vecMul (ofInts i j k) b)) b = some fe →
        (-1 ≤ fe.x ∧ fe.x < 1) → (-1 ≤ fe.y ∧ fe.y < 1) → (-1 ≤ fe.z ∧ fe.z < 1) →
        r.normSq ≤ (d.add (vecMul (ofInts i j k) b)).normSq := by
  obtain ⟨f, hf⟩ : ∃ f, coordToFraction d b = some f := ⟨_, coordToFraction_eq d b hdet⟩
  have hd : fractionToCoord f b = d := fractionToCoord_coordToFraction d f b hf
  obtain ⟨r, hr, -, hmin⟩ := dispTriclinic_spec hc (f.map1 (fun q => pymod q 1)) b
  simp only [displacement1, hf, hc.dispMod, hno, hr, Bool.false_eq_true, if_false]
  refine ⟨r, rfl, ?_⟩
  intro i j k fe hfe hx hy hz
  have he : d.add (vecMul (ofInts i j k) b) = fractionToCoord (f.add (ofInts i j k)) b := by
    rw [← hd, shift_eq]; rfl
  rw [he, coordToFraction_fractionToCoord _ b hdet] at hfe
  cases hfe
  -- integer parts
  have bx0 := pymod_one_nonneg f.x; have bx1 := pymod_one_lt f.x; have ex := pymod_one f.x
  have by0 := pymod_one_nonneg f.y; have by1 := pymod_one_lt f.y; have ey := pymod_one f.y
  have bz0 := pymod_one_nonneg f.z; have bz1 := pymod_one_lt f.z; have ez := pymod_one f.z
  simp only [V3.add, ofInts] at hx hy hz
  have mx : (f.x.floor + i = -1 ∨ f.x.floor + i = 0) := by
    have h1 : ((f.x.floor + i : Int) : Rat) < 1 := by push_cast; linarith
    have h2 : (-2 : Rat) < ((f.x.floor + i : Int) : Rat) := by push_cast; linarith
    have h1' : f.x.floor + i < 1 := by exact_mod_cast h1
    have h2' : -2 < f.x.floor + i := by exact_mod_cast h2
    omega
  have my : (f.y.floor + j = -1 ∨ f.y.floor + j = 0) := by
    have h1 : ((f.y.floor + j : Int) : Rat) < 1 := by push_cast; linarith
    have h2 : (-2 : Rat) < ((f.y.floor + j : Int) : Rat) := by push_cast; linarith
    have h1' : f.y.floor + j < 1 := by exact_mod_cast h1
    have h2' : -2 < f.y.floor + j := by exact_mod_cast h2
    omega
  have mz : (f.z.floor + k = -1 ∨ f.z.floor + k = 0) := by
    have h1 : ((f.z.floor + k : Int) : Rat) < 1 := by push_cast; linarith
    have h2 : (-2 : Rat) < ((f.z.floor + k : Int) : Rat) := by push_cast; linarith
    have h1' : f.z.floor + k < 1 := by exact_mod_cast h1
    have h2' : -2 < f.z.floor + k := by exact_mod_cast h2
    omega
  have hcand := hmin _ _ _ mx my mz
  have : (fractionToCoord (f.map1 (fun q => pymod q 1)) b).add
      (vecMul (ofInts (f.x.floor + i) (f.y.floor + j) (f.z.floor + k)) b) =
      fractionToCoord (f.add (ofInts i j k)) b := by
    rw [shift_eq]
    congr 1
    apply V3.ext' <;> simp only [V3.map1, V3.add, ofInts, pymod_one] <;> push_cast <;> ring
  rw [this] at hcand
  rw [he]; exact hcand

/-- `e` is shorter than half of each of the three box heights (squared form, no square root):
`|e|² · |recipᵢ|² < 1/4`, i.e. `|e| < hᵢ / 2` with `hᵢ = 1 / |recipᵢ|`. -/
def Short (b : Box) (e : Vec) : Prop :=
  e.normSq * (recip0 b).normSq < 1 / 4 ∧ e.normSq * (recip1 b).normSq < 1 / 4 ∧
    e.normSq * (recip2 b).normSq < 1 / 4

theorem dot_bound {e a : Vec} (h : e.normSq * a.normSq < 1 / 4) : -1 ≤ e.dot a ∧ e.dot a < 1 := by
  have hl := lagrange e a
  have hn := normSq_nonneg (e.cross a)
  have hsq : e.dot a * e.dot a < 1 / 4 := by linarith
  constructor <;> nlinarith

theorem displacement1_tric_min {c : Consts} (hc : Std c) (d : Vec) (b : Box) (hdet : b.det ≠ 0)
    (hno : isOrthogonal c b = false)
    (hshort : ∃ i j k : Int, Short b (d.add (vecMul (ofInts i j k) b))) :
    ∃ r, displacement1 c d b = .ok r ∧
      ∀ i j k : Int, r.normSq ≤ (d.add (vecMul (ofInts i j k) b)).normSq := by
  obtain ⟨r, hr, hcand⟩ := displacement1_tric_candidates hc d b hdet hno
  refine ⟨r, hr, ?_⟩
  have short_le : ∀ i j k : Int, Short b (d.add (vecMul (ofInts i j k) b)) →
      r.normSq ≤ (d.add (vecMul (ofInts i j k) b)).normSq := by
    intro i j k hs
    exact hcand i j k _ (coordToFraction_eq _ b hdet) (dot_bound hs.1) (dot_bound hs.2.1) (dot_bound hs.2.2)
  obtain ⟨i0, j0, k0, hs0⟩ := hshort
  have h0 := short_le i0 j0 k0 hs0
  intro i j k
  by_cases hs : Short b (d.add (vecMul (ofInts i j k) b))
  · exact short_le i j k hs
  · by_contra hlt
    have hlt' := not_le.mp hlt
    apply hs
    have key : ∀ a : Vec, (d.add (vecMul (ofInts i0 j0 k0) b)).normSq * a.normSq < 1 / 4 →
        (d.add (vecMul (ofInts i j k) b)).normSq * a.normSq < 1 / 4 := by
      intro a ha
      have := mul_le_mul_of_nonneg_right (le_of_lt (lt_of_lt_of_le hlt' h0)) (normSq_nonneg a)
      linarith
    exact ⟨key _ hs0.1, key _ hs0.2.1, key _ hs0.2.2⟩

theorem dot_bound_half {e a : Vec} (h : e.normSq * a.normSq < 1 / 4) : -(1 / 2 : Rat) < e.dot a ∧ e.dot a < 1 / 2 := by
  have hl := lagrange e a
  have hn := normSq_nonneg (e.cross a)
  have hsq : e.dot a * e.dot a < 1 / 4 := by linarith
  constructor <;> nlinarith

theorem int_eq_zero_of_abs_lt_one {m : Int} (h1 : -(1 : Rat) < (m : Rat)) (h2 : (m : Rat) < 1) : m = 0 := by
  have a : (-1 : Int) < m := by exact_mod_cast h1
  have b : m < (1 : Int) := by exact_mod_cast h2
  omega

/-- Orthogonal BRANCH (taken whenever `is_orthogonal` says so, i.e. also for boxes that are orthogonal only within its
absolute tolerance): a periodic image whose fractional components all lie strictly inside `(-1/2, 1/2)` IS the result. -/
theorem displacement1_orthobranch_inner {c : Consts} (hc : Std c) (d : Vec) (b : Box) (hdet : b.det ≠ 0)
    (ho : isOrthogonal c b = true) :
    ∃ r, displacement1 c d b = .ok r ∧
      ∀ i j k : Int, ∀ fe, coordToFraction (d.add (vecMul (ofInts i j k) b)) b = some fe →
        (-(1 / 2 : Rat) < fe.x ∧ fe.x < 1 / 2) → (-(1 / 2 : Rat) < fe.y ∧ fe.y < 1 / 2) → (-(1 / 2 : Rat) < fe.z ∧ fe.z < 1 / 2) →
        r = d.add (vecMul (ofInts i j k) b) := by
  obtain ⟨f, hf⟩ : ∃ f, coordToFraction d b = some f := ⟨_, coordToFraction_eq d b hdet⟩
  have hd : fractionToCoord f b = d := fractionToCoord_coordToFraction d f b hf
  simp only [displacement1, hf, hc.dispMod, ho, if_true]
  refine ⟨_, rfl, ?_⟩
  intro i j k fe hfe hx hy hz
  have he : d.add (vecMul (ofInts i j k) b) = fractionToCoord (f.add (ofInts i j k)) b := by
    rw [← hd, shift_eq]; rfl
  rw [he, coordToFraction_fractionToCoord _ b hdet] at hfe
  cases hfe
  obtain ⟨nx, ex, lx, ux⟩ := wrapHalf_spec hc f.x
  obtain ⟨ny, ey, ly, uy⟩ := wrapHalf_spec hc f.y
  obtain ⟨nz, ez, lz, uz⟩ := wrapHalf_spec hc f.z
  simp only [V3.add, ofInts] at hx hy hz
  have zx : nx + i = 0 := int_eq_zero_of_abs_lt_one (by push_cast; linarith) (by push_cast; linarith)
  have zy : ny + j = 0 := int_eq_zero_of_abs_lt_one (by push_cast; linarith) (by push_cast; linarith)
  have zz : nz + k = 0 := int_eq_zero_of_abs_lt_one (by push_cast; linarith) (by push_cast; linarith)
  rw [he]
  simp only [dispOrtho, fractionToCoord]
  congr 1
  have cx : (i : Rat) = -(nx : Rat) := by
    have h : i = -nx := by omega
    rw [h]; push_cast; ring
  have cy : (j : Rat) = -(ny : Rat) := by
    have h : j = -ny := by omega
    rw [h]; push_cast; ring
  have cz : (k : Rat) = -(nz : Rat) := by
    have h : k = -nz := by omega
    rw [h]; push_cast; ring
  apply V3.ext' <;> simp only [V3.map1, V3.add, ofInts]
  · rw [ex, cx]; ring
  · rw [ey, cy]; ring
  · rw [ez, cz]; ring

/-- EITHER branch: whenever some periodic image is shorter than half of every box height, the returned displacement is
the shortest of ALL images — also for boxes `is_orthogonal` accepts although they are skewed. -/
theorem displacement1_min_below_half_height {c : Consts} (hc : Std c) (d : Vec) (b : Box) (hdet : b.det ≠ 0)
    (hshort : ∃ i j k : Int, Short b (d.add (vecMul (ofInts i j k) b))) :
    ∃ r, displacement1 c d b = .ok r ∧
      ∀ i j k : Int, r.normSq ≤ (d.add (vecMul (ofInts i j k) b)).normSq := by
  cases ho : isOrthogonal c b
  · exact displacement1_tric_min hc d b hdet ho hshort
  · obtain ⟨r, hr, hin⟩ := displacement1_orthobranch_inner hc d b hdet ho
    refine ⟨r, hr, ?_⟩
    have short_le : ∀ i j k : Int, Short b (d.add (vecMul (ofInts i j k) b)) →
        r.normSq ≤ (d.add (vecMul (ofInts i j k) b)).normSq := by
      intro i j k hs
      rw [hin i j k _ (coordToFraction_eq _ b hdet) (dot_bound_half hs.1) (dot_bound_half hs.2.1) (dot_bound_half hs.2.2)]
    obtain ⟨i0, j0, k0, hs0⟩ := hshort
    have h0 := short_le i0 j0 k0 hs0
    intro i j k
    by_cases hs : Short b (d.add (vecMul (ofInts i j k) b))
    · exact short_le i j k hs
    · by_contra hlt
      have hlt' := not_le.mp hlt
      apply hs
      have key : ∀ a : Vec, (d.add (vecMul (ofInts i0 j0 k0) b)).normSq * a.normSq < 1 / 4 →
          (d.add (vecMul (ofInts i j k) b)).normSq * a.normSq < 1 / 4 := by
        intro a ha
        have := mul_le_mul_of_nonneg_right (le_of_lt (lt_of_lt_of_le hlt' h0)) (normSq_nonneg a)
        linarith
      exact ⟨key _ hs0.1, key _ hs0.2.1, key _ hs0.2.2⟩

theorem displacement1_singular {c : Consts} (d : Vec) (b : Box) (h : b.det = 0) :
    displacement1 c d b = .error .singular := by
  simp [displacement1, coordToFraction_none d b h]

/-! ### lattice translations do not change `displacement` -/

theorem pymod_add_int (q : Rat) (i : Int) : pymod (q + (i : Rat)) 1 = pymod q 1 := by
  rw [pymod_one, pymod_one, Rat.floor_add_intCast]; push_cast; ring

/-- `displacement` of `d + k·B` is `displacement` of `d` — for EVERY box and both branches (a singular box
is rejected on both sides). -/
theorem displacement1_shift {c : Consts} (hc : Std c) (d : Vec) (b : Box) (i j k : Int) :
    displacement1 c (d.add (vecMul (ofInts i j k) b)) b = displacement1 c d b := by
  by_cases hdet : b.det = 0
  · simp [displacement1, coordToFraction_none _ b hdet]
  · obtain ⟨f, hf⟩ : ∃ f, coordToFraction d b = some f := ⟨_, coordToFraction_eq d b hdet⟩
    have hd : fractionToCoord f b = d := fractionToCoord_coordToFraction d f b hf
    have he : d.add (vecMul (ofInts i j k) b) = fractionToCoord (f.add (ofInts i j k)) b := by
      rw [← hd, shift_eq]; rfl
    have hfe : coordToFraction (d.add (vecMul (ofInts i j k) b)) b = some (f.add (ofInts i j k)) := by
      rw [he]; exact coordToFraction_fractionToCoord _ b hdet
    have hg : (f.add (ofInts i j k)).map1 (fun q => pymod q 1) = f.map1 (fun q => pymod q 1) := by
      apply V3.ext' <;> simp only [V3.map1, V3.add, ofInts] <;> exact pymod_add_int _ _
    simp only [displacement1, hf, hfe, hc.dispMod, hg]

theorem sub_latVec (p q : Vec) (b : Box) (n m : Int × Int × Int) :
    ((p.add (latVec b n)).sub (q.add (latVec b m))) =
      (p.sub q).add (vecMul (ofInts (n.1 - m.1) (n.2.1 - m.2.1) (n.2.2 - m.2.2)) b) := by
  apply V3.ext' <;> simp only [latVec, V3.add, V3.sub, vecMul, ofInts] <;> push_cast <;> ring

theorem displacement1_latVec {c : Consts} (hc : Std c) (p q : Vec) (b : Box) (n m : Int × Int × Int) :
    displacement1 c ((p.add (latVec b n)).sub (q.add (latVec b m))) b = displacement1 c (p.sub q) b := by
  rw [sub_latVec, displacement1_shift hc]

/-! ### `move_inside_box` -/

theorem moveInside1_spec {c : Consts} (hc : Std c) (x : Vec) (b : Box) (hdet : b.det ≠ 0) :
    ∃ y g, moveInside1 c x b = some y ∧ coordToFraction y b = some g ∧
      (0 ≤ g.x ∧ g.x < 1) ∧ (0 ≤ g.y ∧ g.y < 1) ∧ (0 ≤ g.z ∧ g.z < 1) ∧
      InLattice b (y.sub x) ∧ moveInside1 c y b = some y := by
  obtain ⟨f, hf⟩ : ∃ f, coordToFraction x b = some f := ⟨_, coordToFraction_eq x b hdet⟩
  have hd : fractionToCoord f b = x := fractionToCoord_coordToFraction x f b hf
  refine ⟨fractionToCoord (f.map1 (fun q => pymod q 1)) b, f.map1 (fun q => pymod q 1), ?_, ?_, ?_, ?_, ?_, ?_, ?_⟩
  · simp [moveInside1, hf, hc.moveMod]
  · exact coordToFraction_fractionToCoord _ b hdet
  · exact ⟨pymod_one_nonneg _, pymod_one_lt _⟩
  · exact ⟨pymod_one_nonneg _, pymod_one_lt _⟩
  · exact ⟨pymod_one_nonneg _, pymod_one_lt _⟩
  · refine ⟨-f.x.floor, -f.y.floor, -f.z.floor, ?_⟩
    rw [← hd, mod1_eq]
    apply V3.ext' <;> simp only [fractionToCoord, vecMul, V3.sub, ofInts] <;> push_cast <;> ring
  · simp only [moveInside1, coordToFraction_fractionToCoord _ b hdet, hc.moveMod, Option.map_some]
    congr 2
    apply V3.ext' <;> simp only [V3.map1] <;> rw [pymod_one (pymod _ 1)] <;>
      simp [floor_of_unit (pymod_one_nonneg _) (pymod_one_lt _)]

end BiotiteModel.C15

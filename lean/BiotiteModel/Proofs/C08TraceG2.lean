import BiotiteModel.Proofs.C08TraceG
/-! Generic `followG`: non-emptiness, pairwise distinctness, congruence. -/
namespace BiotiteModel.C08

theorem runBranchesG_mem {σ : Type} (mx : Nat) (run : σ × Col → Nat → List Aln × Nat) (ds : List (σ × Col)) :
    ∀ c x, x ∈ (runBranchesG mx run ds c).1 → ∃ d ∈ ds, ∃ c', x ∈ (run d c').1 := by
  induction ds with
  | nil => intro c x hx; simp [runBranchesG] at hx
  | cons d ds ih =>
    intro c x hx
    simp only [runBranchesG] at hx
    split at hx
    · simp only [List.mem_append] at hx
      rcases hx with hx | hx
      · exact ⟨d, List.mem_cons_self, _, hx⟩
      · obtain ⟨d', hd', c', h⟩ := ih _ x hx
        exact ⟨d', List.mem_cons_of_mem _ hd', c', h⟩
    · obtain ⟨d', hd', c', h⟩ := ih _ x hx
      exact ⟨d', List.mem_cons_of_mem _ hd', c', h⟩

theorem runBranchesG_nodup {σ : Type} (mx : Nat) (run : σ × Col → Nat → List Aln × Nat) (ds : List (σ × Col))
    (hnd : ds.Nodup) (hrun : ∀ d ∈ ds, ∀ c, (run d c).1.Nodup)
    (hdisj : ∀ d ∈ ds, ∀ d' ∈ ds, d ≠ d' → ∀ c c' x, x ∈ (run d c).1 → x ∈ (run d' c').1 → False) :
    ∀ c, (runBranchesG mx run ds c).1.Nodup := by
  induction ds with
  | nil => intro c; simp [runBranchesG]
  | cons d ds ih =>
    intro c
    have hnd' := List.nodup_cons.mp hnd
    have ih' := ih hnd'.2 (fun d' hd' => hrun d' (List.mem_cons_of_mem _ hd'))
      (fun d1 h1 d2 h2 => hdisj d1 (List.mem_cons_of_mem _ h1) d2 (List.mem_cons_of_mem _ h2))
    simp only [runBranchesG]
    split
    · rw [List.nodup_append]
      refine ⟨hrun d List.mem_cons_self _, ih' _, ?_⟩
      intro x hx y hy hxy
      subst hxy
      obtain ⟨d', hd', c', h⟩ := runBranchesG_mem mx run ds _ x hy
      exact hdisj d List.mem_cons_self d' (List.mem_cons_of_mem _ hd')
        (fun e => hnd'.1 (e ▸ hd')) _ _ x hx h
    · exact ih' c

theorem followG_nonempty {σ : Type} (next : σ → List (σ × Col)) (mx : Nat) (μ : σ → Nat)
    (hμ : ∀ s, ∀ d ∈ next s, μ d.1 < μ s) :
    ∀ (fuel : Nat) (s : σ) (suffix : Aln) (c : Nat), μ s < fuel → (followG next mx fuel s suffix c).1 ≠ [] := by
  intro fuel
  induction fuel with
  | zero => intro s _ _ h; omega
  | succ fuel ih =>
    intro s suffix c hf
    simp only [followG]
    split
    · simp
    · rename_i d0 ds hds
      have := hμ s d0 (by rw [hds]; exact List.mem_cons_self)
      intro hnil
      simp only [List.append_eq_nil_iff] at hnil
      exact ih d0.1 _ _ (by omega) hnil.2

section
variable {σ : Type} (next : σ → List (σ × Col)) (pos : σ → Nat × Nat) (kind : σ → Kind) (val : σ → Int)
  (Real : σ → Prop) (cost : Nat × Nat → Kind → Col → Int)

theorem followG_nodup (mx : Nat)
    (hnext : ∀ s, Real s → ∀ d ∈ next s, Real d.1 ∧ stepPos (pos d.1) d.2 = some (pos s) ∧
      val s = val d.1 + cost (pos d.1) (kind d.1) d.2 ∧ allowedK (kind d.1) d.2 = true ∧ d.2.kind = kind s)
    (hend : ∀ s, Real s → next s = [] → val s = 0 ∧ kind s = .m)
    (hnd : ∀ s, Real s → (next s).Nodup)
    (hinj : ∀ s, Real s → ∀ d1 ∈ next s, ∀ d2 ∈ next s, kind d1.1 = kind d2.1 → d1.2 = d2.2 → d1 = d2) :
    ∀ (fuel : Nat) (s : σ) (suffix : Aln) (c : Nat), Real s → (followG next mx fuel s suffix c).1.Nodup := by
  intro fuel
  induction fuel with
  | zero => intro s suffix c _; simp [followG]
  | succ fuel ih =>
    intro s suffix c hR
    have hdisj : ∀ d ∈ next s, ∀ d' ∈ next s, d ≠ d' → ∀ c c' x,
        x ∈ (followG next mx fuel d.1 (d.2 :: suffix) c).1 →
        x ∈ (followG next mx fuel d'.1 (d'.2 :: suffix) c').1 → False := by
      intro d hd d' hd' hne c1 c2 x h1 h2
      obtain ⟨pre1, _, e1, _, _, _, _, _, k1⟩ := followG_good next pos kind val Real cost mx hnext hend fuel d.1
        (d.2 :: suffix) c1 (hnext s hR d hd).1 x h1
      obtain ⟨pre2, _, e2, _, _, _, _, _, k2⟩ := followG_good next pos kind val Real cost mx hnext hend fuel d'.1
        (d'.2 :: suffix) c2 (hnext s hR d' hd').1 x h2
      have := List.append_inj' (e1.symm.trans e2) (by simp)
      obtain ⟨hp, hs⟩ := this
      simp only [List.cons.injEq, and_true] at hs
      subst hp
      exact hne (hinj s hR d hd d' hd' (k1.symm.trans k2) hs)
    simp only [followG]
    split
    · simp
    · rename_i d0 ds hds
      have hn := hnd s hR
      rw [hds] at hn
      have hn' := List.nodup_cons.mp hn
      have hmem : ∀ d ∈ ds, d ∈ next s := fun d hd => by rw [hds]; exact List.mem_cons_of_mem _ hd
      have hmem0 : d0 ∈ next s := by rw [hds]; exact List.mem_cons_self
      rw [List.nodup_append]
      refine ⟨runBranchesG_nodup mx _ ds hn'.2 (fun d hd c' => ih _ _ _ (hnext s hR d (hmem d hd)).1)
        (fun d hd d' hd' hne c1 c2 x h1 h2 => hdisj d (hmem d hd) d' (hmem d' hd') hne c1 c2 x h1 h2) c,
        ih _ _ _ (hnext s hR d0 hmem0).1, ?_⟩
      intro x hx y hy hxy
      subst hxy
      obtain ⟨d', hd', c', h⟩ := runBranchesG_mem mx _ ds _ x hx
      exact hdisj d' (hmem d' hd') d0 hmem0 (fun e => hn'.1 (e ▸ hd')) _ _ x h hy
end

theorem runBranchesG_congr {σ : Type} (mx : Nat) (run run' : σ × Col → Nat → List Aln × Nat) (ds : List (σ × Col))
    (h : ∀ d ∈ ds, ∀ c, run d c = run' d c) : ∀ c, runBranchesG mx run ds c = runBranchesG mx run' ds c := by
  induction ds with
  | nil => intro c; rfl
  | cons d ds ih =>
    intro c
    have ih' := ih (fun d' hd' => h d' (List.mem_cons_of_mem _ hd'))
    simp only [runBranchesG, h d List.mem_cons_self, ih']

theorem followG_congr {σ : Type} (next next' : σ → List (σ × Col)) (mx : Nat) (P : σ → Prop)
    (hP : ∀ s, P s → next s = next' s ∧ ∀ d ∈ next s, P d.1) :
    ∀ (fuel : Nat) (s : σ) (suffix : Aln) (c : Nat), P s →
      followG next mx fuel s suffix c = followG next' mx fuel s suffix c := by
  intro fuel
  induction fuel with
  | zero => intros; rfl
  | succ fuel ih =>
    intro s suffix c hs
    obtain ⟨he, hcl⟩ := hP s hs
    simp only [followG, ← he]
    split
    · rfl
    · rename_i d0 ds hds
      have hmem : ∀ d ∈ ds, d ∈ next s := fun d hd => by rw [hds]; exact List.mem_cons_of_mem _ hd
      have hmem0 : d0 ∈ next s := by rw [hds]; exact List.mem_cons_self
      rw [runBranchesG_congr mx _ (fun d c' => followG next' mx fuel d.1 (d.2 :: suffix) c') ds
        (fun d hd c' => ih _ _ _ (hcl d (hmem d hd))) c]
      rw [ih d0.1 _ _ (hcl d0 hmem0)]

end BiotiteModel.C08

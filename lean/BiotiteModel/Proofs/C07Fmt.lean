import BiotiteModel.Proofs.C07H36
import BiotiteModel.Model.C07
/-! Helper lemmas for C07: rounding, fixed-point text, the compatibility check. -/
namespace BiotiteModel.C07

/-! ## rounding -/

theorem roundHE_error (num den : Nat) (hd : 0 < den) :
    2 * ((roundHE num den : Int) * den - num).natAbs ≤ den := by
  have h1 := Nat.div_add_mod num den
  have h2 := Nat.mod_lt num hd
  unfold roundHE
  simp only []
  generalize hq : num / den = q at *
  generalize hr : num % den = r at *
  have hqd : (den : Int) * q + r = num := by exact_mod_cast h1
  have e0 : (q : Int) * den = den * q := Int.mul_comm _ _
  have e1 : ((q + 1 : Nat) : Int) * den = den * q + den := by
    rw [Int.natCast_add, Int.add_mul, Int.mul_comm]; simp
  split
  · rw [e0]; omega
  · split
    · rw [e1]; omega
    · split
      · rw [e0]; omega
      · rw [e1]; omega

/-! ## fixed-point text -/

theorem zpad_length (d : Nat) (s : List Char) (h : s.length ≤ d) : (zpad d s).length = d := by
  simp [zpad]; omega

theorem frac_length (d k : Nat) (hd : 1 ≤ d) : (zpad d (natDec (k % 10 ^ d))).length = d := by
  apply zpad_length
  exact natDec_length_le _ _ (Nat.mod_lt _ (Nat.pow_pos (by decide))) hd

theorem fmtFixed_length (d : Nat) (hd : 1 ≤ d) (x : Fx) :
    (fmtFixed d x).length = (if x.neg then 1 else 0) + (natDec (x.scaled d / 10 ^ d)).length + 1 + d := by
  unfold fmtFixed
  simp only [List.length_append, frac_length d _ hd]
  cases x.neg <;> simp

theorem fmtFixed_fits_iff (d ip : Nat) (hd : 1 ≤ d) (hip : 2 ≤ ip) (x : Fx) :
    (fmtFixed d x).length ≤ ip + 1 + d ↔
      FitsFixed d (10 ^ (ip + d) - 1) (10 ^ (ip - 1 + d) - 1) x := by
  rw [fmtFixed_length d hd]
  have hpos : ∀ n, 0 < 10 ^ n := fun n => Nat.pow_pos (by decide)
  have key : ∀ w, 1 ≤ w → ((natDec (x.scaled d / 10 ^ d)).length ≤ w ↔ x.scaled d ≤ 10 ^ (w + d) - 1) := by
    intro w hw
    rw [natDec_length_le_iff _ _ hw, Nat.div_lt_iff_lt_mul (hpos d), Nat.pow_add]
    have := hpos w; have := hpos d
    have : 0 < 10 ^ w * 10 ^ d := Nat.mul_pos (hpos w) (hpos d)
    omega
  unfold FitsFixed
  cases hneg : x.neg
  · simp only [if_false, Bool.false_eq_true, false_implies, and_true, true_implies]
    rw [← key ip (by omega)]; omega
  · simp only [if_true, Bool.true_eq_false, false_implies, true_and, true_implies]
    rw [← key (ip - 1) (by omega)]; omega

theorem isWS_false_of_small (c : Char) (h : 33 ≤ c.toNat) : isWS c = false := by
  simp [isWS]; omega

theorem fmtFixed_no_ws (d : Nat) (x : Fx) : ∀ c ∈ fmtFixed d x, isWS c = false := by
  intro c hc
  unfold fmtFixed at hc
  simp only [List.mem_append, zpad] at hc
  rcases hc with ((hc | hc) | hc) | hc
  · split at hc
    · simp at hc; subst hc; decide
    · simp at hc
  · exact natDec_no_ws _ c hc
  · simp at hc; subst hc; decide
  · rcases hc with hc | hc
    · have := List.eq_of_mem_replicate hc; subst this; decide
    · exact natDec_no_ws _ c hc

theorem fmtFixed_ne_nil (d : Nat) (x : Fx) : fmtFixed d x ≠ [] := by
  unfold fmtFixed
  simp

/-! ## the compatibility check -/

theorem checkCoord_iff (c : Coord) : checkCoord c = true ↔ CoordStrong c := by
  unfold checkCoord CoordStrong
  have h := fun x => fmtFixed_fits_iff 3 4 (by decide) (by decide) x
  simp only [Bool.and_eq_true, decide_eq_true_eq]
  have e1 : (10 : Nat) ^ (4 + 3) - 1 = 9999999 := by decide
  have e2 : (10 : Nat) ^ (4 - 1 + 3) - 1 = 999999 := by decide
  rw [e1, e2] at h
  rw [← h, ← h, ← h]
  exact and_assoc

theorem checkAtom_iff (fl : Flags) (i : Nat) (a : Atom) : checkAtom fl i a = true ↔ CompatStrong fl i a := by
  have h := fun x => fmtFixed_fits_iff 2 3 (by decide) (by decide) x
  have e1 : (10 : Nat) ^ (3 + 2) - 1 = 99999 := by decide
  have e2 : (10 : Nat) ^ (3 - 1 + 2) - 1 = 9999 := by decide
  rw [e1, e2] at h
  constructor
  · intro hc
    unfold checkAtom at hc
    simp only [Bool.and_eq_true, Bool.or_eq_true, decide_eq_true_eq, Bool.not_eq_true'] at hc
    obtain ⟨⟨⟨⟨⟨⟨⟨⟨h1, h2⟩, h3⟩, h4⟩, h5⟩, h6⟩, h7⟩, h8⟩, h9⟩ := hc
    refine ⟨h1, h2, h3, h4, h5, ?_, ?_, ?_, ?_, ?_⟩
    · intro hf; rcases h6 with h6 | h6
      · simp [hf] at h6
      · simpa [minAtomId] using h6.1
    · intro hf; rcases h6 with h6 | h6
      · simp [hf] at h6
      · simpa [minResId] using h6.2
    · intro hf; rcases h7 with h7 | h7
      · simp [hf] at h7
      · exact (h _).1 h7
    · intro hf; rcases h8 with h8 | h8
      · simp [hf] at h8
      · exact (h _).1 h8
    · intro hf; rcases h9 with h9 | h9
      · simp [hf] at h9
      · omega
  · intro hc
    unfold checkAtom
    simp only [Bool.and_eq_true, Bool.or_eq_true, decide_eq_true_eq, Bool.not_eq_true']
    refine ⟨⟨⟨⟨⟨⟨⟨⟨hc.chain, hc.resName⟩, hc.name⟩, hc.ins⟩, hc.element⟩, ?_⟩, ?_⟩, ?_⟩, ?_⟩
    · cases hf : fl.h36
      · right; exact ⟨by simpa [minAtomId] using hc.atomIdLo hf, by simpa [minResId] using hc.resIdLo hf⟩
      · left; rfl
    · cases hf : fl.hasB
      · left; rfl
      · right; exact (h _).2 (hc.bf hf)
    · cases hf : fl.hasOcc
      · left; rfl
      · right; exact (h _).2 (hc.occ hf)
    · cases hf : fl.hasQ
      · left; rfl
      · right; have := hc.charge hf; omega

theorem checkCompat_sound (fl : Flags) (s : Struct) (h : checkCompat fl s = .ok ()) :
    (∀ p ∈ enum s.atoms, CompatStrong fl p.1 p.2) ∧ (∀ m ∈ s.models, ∀ c ∈ m, CoordStrong c) := by
  unfold checkCompat at h
  split at h
  · rename_i hc
    simp only [Bool.and_eq_true, List.all_eq_true] at hc
    exact ⟨fun p hp => (checkAtom_iff fl p.1 p.2).1 (hc.1 p hp),
           fun m hm c hcm => (checkCoord_iff c).1 (hc.2 m hm c hcm)⟩
  · cases h

theorem checkCompat_rejects (fl : Flags) (s : Struct) (h : checkCompat fl s ≠ .ok ()) :
    checkCompat fl s = .error .badStructure := by
  unfold checkCompat at *
  split
  · rename_i hc; simp [hc] at h
  · rfl

/-! ## id texts -/

theorem intDec_no_ws (i : Int) : ∀ c ∈ intDec i, isWS c = false := by
  intro c hc
  unfold intDec at hc
  split at hc
  · simp only [List.mem_cons] at hc
    rcases hc with rfl | hc
    · decide
    · exact natDec_no_ws _ c hc
  · exact natDec_no_ws _ c hc

theorem intDec_ne_nil (i : Int) : intDec i ≠ [] := by
  unfold intDec
  split
  · simp
  · exact natDec_ne_nil _

theorem intDec_length (w : Nat) (hw : 1 ≤ w) (i : Int) (hlo : -((10 : Int) ^ (w - 1) - 1) ≤ i) (hhi : i ≤ (10 : Int) ^ w - 1) :
    (intDec i).length ≤ w := by
  have hp : ∀ n, (0 : Int) < 10 ^ n := fun n => Int.pow_pos (by decide)
  unfold intDec
  split
  · rename_i hneg
    simp only [List.length_cons]
    have hw2 : 2 ≤ w := by
      rcases Nat.lt_or_ge w 2 with h | h
      · have : w = 1 := by omega
        subst this; simp at hlo; omega
      · exact h
    have : (natDec i.natAbs).length ≤ w - 1 := by
      rw [natDec_length_le_iff _ _ (by omega)]
      have h1 : (i.natAbs : Int) = -i := by omega
      have h2 : ((10 ^ (w - 1) : Nat) : Int) = (10 : Int) ^ (w - 1) := by simp
      have : (i.natAbs : Int) < ((10 ^ (w - 1) : Nat) : Int) := by rw [h1, h2]; omega
      exact_mod_cast this
    omega
  · rename_i hnn
    rw [natDec_length_le_iff _ _ hw]
    have h1 : (i.toNat : Int) = i := by omega
    have h2 : ((10 ^ w : Nat) : Int) = (10 : Int) ^ w := by simp
    have : (i.toNat : Int) < ((10 ^ w : Nat) : Int) := by rw [h1, h2]; omega
    exact_mod_cast this

theorem wrapId_bounds (maxv : Nat) (hm : 0 < maxv) (i : Int) :
    (0 < i → 1 ≤ wrapId maxv i ∧ wrapId maxv i ≤ maxv) ∧ (i ≤ 0 → wrapId maxv i = i) ∧
    (0 < i → i ≤ maxv → wrapId maxv i = i) := by
  unfold wrapId
  have hm' : (0 : Int) < maxv := by exact_mod_cast hm
  refine ⟨fun h => ?_, fun h => ?_, fun h h2 => ?_⟩
  · simp only [h, if_true]
    have := Int.emod_nonneg (i - 1) (Int.ne_of_gt hm')
    have := Int.emod_lt_of_pos (i - 1) hm'
    omega
  · have : ¬ i > 0 := by omega
    simp [this]
  · simp only [h, if_true]
    rw [Int.emod_eq_of_lt (by omega) (by omega)]; omega

theorem idText_length (h36 : Bool) (w maxv : Nat) (i : Int) (t : List Char) (hw : 1 ≤ w) (hmax : maxv = 10 ^ w - 1)
    (hlo : h36 = false → -((10 : Int) ^ (w - 1) - 1) ≤ i) (h : idText h36 w maxv i = .ok t) :
    t.length ≤ w ∧ t ≠ [] ∧ ∀ c ∈ t, isWS c = false := by
  unfold idText at h
  cases h36
  · simp only [Bool.false_eq_true, if_false, Except.ok.injEq] at h
    subst h
    refine ⟨?_, intDec_ne_nil _, intDec_no_ws _⟩
    have hp : 10 ≤ 10 ^ w := by
      calc 10 = 10 ^ 1 := by decide
        _ ≤ 10 ^ w := Nat.pow_le_pow_right (by decide) hw
    have hm : 0 < maxv := by omega
    have hb := wrapId_bounds maxv hm i
    have hcast : ((maxv : Nat) : Int) = (10 : Int) ^ w - 1 := by
      subst hmax
      rw [Int.natCast_sub (by omega)]; simp
    apply intDec_length w hw
    · by_cases hi : 0 < i
      · have := (hb.1 hi).1
        have hp' : (0 : Int) < 10 ^ (w - 1) := Int.pow_pos (by decide)
        omega
      · rw [hb.2.1 (by omega)]; exact hlo rfl
    · by_cases hi : 0 < i
      · have := (hb.1 hi).2; omega
      · rw [hb.2.1 (by omega)]
        have hp' : (0 : Int) < 10 ^ w := Int.pow_pos (by decide)
        omega
  · simp only [if_true] at h
    exact ⟨encodeH36_length _ _ _ h, encodeH36_ne_nil _ _ _ h, encodeH36_no_ws _ _ _ h⟩

end BiotiteModel.C07

import BiotiteModel.Proofs.C19Rows
import BiotiteModel.Proofs.C19Upgma
import BiotiteModel.Proofs.C19NJCherry
/-! The path metric of a tree with non-negative branch lengths satisfies the four-point condition
(the easy direction of Buneman's theorem), so `C19_nj_additive` applies to every "tree-like" matrix. -/
namespace BiotiteModel.C19

/-! ### three-point property of common prefixes -/
theorem commonPrefix_comm : ∀ p q : List Nat, commonPrefix p q = commonPrefix q p
  | [], [] => rfl
  | [], _ :: _ => rfl
  | _ :: _, [] => rfl
  | x :: p, y :: q => by
    by_cases h : x = y
    · subst h; simp [commonPrefix, commonPrefix_comm p q]
    · have h' : ¬ y = x := fun e => h e.symm
      simp [commonPrefix, h, h']

theorem cp_three : ∀ p q r : List Nat,
    (commonPrefix p q = commonPrefix p r ∧ commonPrefix p q <+: commonPrefix q r) ∨
    (commonPrefix p q = commonPrefix q r ∧ commonPrefix p q <+: commonPrefix p r) ∨
    (commonPrefix p r = commonPrefix q r ∧ commonPrefix p r <+: commonPrefix p q)
  | [], q, r => by left; simp [commonPrefix]
  | x :: p, [], r => by right; left; simp [commonPrefix]
  | x :: p, y :: q, [] => by right; right; simp [commonPrefix]
  | x :: p, y :: q, z :: r => by
    by_cases hxy : x = y <;> by_cases hxz : x = z
    · subst hxy; subst hxz
      rcases cp_three p q r with h | h | h
      · refine Or.inl ⟨by simp [commonPrefix, h.1], ?_⟩
        simp only [commonPrefix, if_true]
        exact (List.cons_prefix_cons).mpr ⟨rfl, h.2⟩
      · refine Or.inr (Or.inl ⟨by simp [commonPrefix, h.1], ?_⟩)
        simp only [commonPrefix, if_true]
        exact (List.cons_prefix_cons).mpr ⟨rfl, h.2⟩
      · refine Or.inr (Or.inr ⟨by simp [commonPrefix, h.1], ?_⟩)
        simp only [commonPrefix, if_true]
        exact (List.cons_prefix_cons).mpr ⟨rfl, h.2⟩
    · subst hxy
      right; right; simp [commonPrefix, hxz]
    · subst hxz
      have : ¬ y = x := fun e => hxy e.symm
      right; left
      simp [commonPrefix, hxy, this]
    · by_cases hyz : y = z
      · subst hyz
        left; simp [commonPrefix, hxy, hxz]
      · left; simp [commonPrefix, hxy, hxz, hyz]

/-! ### depths -/
theorem downLen_append (topo : Bool) : ∀ (c r : List Nat) (t : T Rat),
    downLen topo t (c ++ r) =
      (downLen topo t c).bind fun x => (t.sub? c).bind fun u => (downLen topo u r).map fun y => x + y := by
  intro c
  induction c with
  | nil => intro r t; simp [downLen, T.sub?]
  | cons k c ih =>
    intro r t
    simp only [List.cons_append, downLen, sub?_cons]
    cases hc : childOf t k with
    | none => rfl
    | some dc =>
      obtain ⟨d, u⟩ := dc
      simp only [ih r u]
      cases downLen topo u c with
      | none => rfl
      | some x =>
        simp only [Option.bind_some]
        cases u.sub? c with
        | none => rfl
        | some v =>
          simp only [Option.bind_some]
          cases downLen topo v r with
          | none => rfl
          | some y => simp; ring

/-- Depth of the node at a path (0 for an invalid path; only used on valid ones). -/
def depthOf (t : T Rat) (p : List Nat) : Rat := (downLen false t p).getD 0

/-- Path length between two nodes through their lowest common ancestor. -/
def treeDist (t : T Rat) (p q : List Nat) : Rat :=
  depthOf t p + depthOf t q - 2 * depthOf t (commonPrefix p q)

theorem sub?_prefix {t : T Rat} {c p : List Nat} (h : c <+: p) (hp : (t.sub? p).isSome) : (t.sub? c).isSome := by
  obtain ⟨r, rfl⟩ := h
  rw [sub?_append] at hp
  cases hc : t.sub? c with
  | none => simp [hc] at hp
  | some u => rfl

theorem depthOf_append {t : T Rat} {c r : List Nat} (hp : (t.sub? (c ++ r)).isSome) :
    ∃ u, t.sub? c = some u ∧ (u.sub? r).isSome ∧
      depthOf t (c ++ r) = depthOf t c + (downLen false u r).getD 0 ∧ (downLen false u r).isSome := by
  have hc := sub?_prefix (List.prefix_append c r) hp
  cases hu : t.sub? c with
  | none => simp [hu] at hc
  | some u =>
    have hr : (u.sub? r).isSome := by rw [sub?_append, hu] at hp; simpa using hp
    have h1 := downLen_isSome false c t (by rw [hu]; rfl)
    have h2 := downLen_isSome false r u hr
    refine ⟨u, rfl, hr, ?_, h2⟩
    unfold depthOf
    rw [downLen_append, hu]
    cases hx : downLen false t c with
    | none => simp [hx] at h1
    | some x =>
      cases hy : downLen false u r with
      | none => simp [hy] at h2
      | some y => simp [hy]

/-- `distance_to` of two valid nodes is `treeDist`. -/
theorem distanceTo_eq_treeDist (t : T Rat) (p q : List Nat) (hp : (t.sub? p).isSome) (hq : (t.sub? q).isSome) :
    distanceTo t false p q = .ok (treeDist t p q) := by
  obtain ⟨u, x, y, hu, hx, hy, hd⟩ := distanceTo_path_sum t false p q hp hq
  rw [hd]
  have dp := prefix_decomp (commonPrefix_prefix_left p q)
  have dq := prefix_decomp (commonPrefix_prefix_right p q)
  have hp' : (t.sub? (commonPrefix p q ++ p.drop (commonPrefix p q).length)).isSome := by rw [← dp]; exact hp
  have hq' : (t.sub? (commonPrefix p q ++ q.drop (commonPrefix p q).length)).isSome := by rw [← dq]; exact hq
  obtain ⟨u1, hu1, _, e1, _⟩ := depthOf_append hp'
  obtain ⟨u2, hu2, _, e2, _⟩ := depthOf_append hq'
  rw [hu] at hu1 hu2
  cases hu1; cases hu2
  rw [← dp] at e1
  rw [← dq] at e2
  rw [hx] at e1
  rw [hy] at e2
  simp only [Option.getD_some] at e1 e2
  unfold treeDist
  rw [e1, e2]
  congr 1; ring


/-! ### non-negative branch lengths: depth is monotone along a path -/
theorem get?_nonneg : ∀ (f : F Rat) (k : Nat) (d : Rat) (c : T Rat), f.NonNeg → f.get? k = some (d, c) →
    0 ≤ d ∧ c.NonNeg
  | .nil, _, _, _, _, h => by simp [F.get?] at h
  | .cons d' c' r, 0, d, c, hn, h => by
    simp only [F.get?, Option.some.injEq, Prod.mk.injEq] at h
    obtain ⟨rfl, rfl⟩ := h
    exact ⟨hn.1, hn.2.1⟩
  | .cons d' c' r, k + 1, d, c, hn, h => by
    simp only [F.get?] at h
    exact get?_nonneg r k d c hn.2.2 h

theorem childOf_nonneg {u : T Rat} (hu : u.NonNeg) {k : Nat} {d : Rat} {c : T Rat}
    (h : childOf u k = some (d, c)) : 0 ≤ d ∧ c.NonNeg := by
  cases u with
  | leaf i => simp [childOf] at h
  | node cs => exact get?_nonneg cs k d c (by simpa [T.NonNeg] using hu) h

theorem downLen_nonneg : ∀ (r : List Nat) (u : T Rat), u.NonNeg → ∀ x, downLen false u r = some x → 0 ≤ x := by
  intro r
  induction r with
  | nil => intro u _ x h; simp [downLen] at h; rw [← h]
  | cons k r ih =>
    intro u hu x h
    simp only [downLen] at h
    cases hc : childOf u k with
    | none => simp [hc] at h
    | some dc =>
      obtain ⟨d, c⟩ := dc
      obtain ⟨hd, hcn⟩ := childOf_nonneg hu hc
      simp only [hc] at h
      cases hy : downLen false c r with
      | none => simp [hy] at h
      | some y =>
        simp [hy] at h
        have := ih c hcn y hy
        rw [← h]; linarith

theorem sub?_nonneg : ∀ (c : List Nat) (t u : T Rat), t.NonNeg → t.sub? c = some u → u.NonNeg := by
  intro c
  induction c with
  | nil => intro t u ht h; simp [T.sub?] at h; rw [← h]; exact ht
  | cons k c ih =>
    intro t u ht h
    rw [sub?_cons] at h
    cases hc : childOf t k with
    | none => simp [hc] at h
    | some dc =>
      obtain ⟨d, v⟩ := dc
      simp only [hc] at h
      exact ih v u (childOf_nonneg ht hc).2 h

theorem depthOf_mono {t : T Rat} (ht : t.NonNeg) {c p : List Nat} (h : c <+: p) (hp : (t.sub? p).isSome) :
    depthOf t c ≤ depthOf t p := by
  obtain ⟨r, rfl⟩ := h
  obtain ⟨u, hu, _, e, hsome⟩ := depthOf_append hp
  rw [e]
  cases hy : downLen false u r with
  | none => simp [hy] at hsome
  | some y =>
    have := downLen_nonneg r u (sub?_nonneg c t u ht hu) y hy
    simp; linarith

/-- Depth of the lowest common ancestor. -/
def lam (t : T Rat) (p q : List Nat) : Rat := depthOf t (commonPrefix p q)

theorem lam_comm (t : T Rat) (p q : List Nat) : lam t p q = lam t q p := by
  unfold lam; rw [commonPrefix_comm]

/-- Three-point condition: of the three LCA depths of three nodes the two smallest are equal. -/
theorem lam_three {t : T Rat} (ht : t.NonNeg) (p q r : List Nat) (hp : (t.sub? p).isSome)
    (hq : (t.sub? q).isSome) :
    (lam t p q = lam t p r ∧ lam t p q ≤ lam t q r) ∨
    (lam t p q = lam t q r ∧ lam t p q ≤ lam t p r) ∨
    (lam t p r = lam t q r ∧ lam t p r ≤ lam t p q) := by
  unfold lam
  rcases cp_three p q r with h | h | h
  · left
    exact ⟨by rw [h.1], depthOf_mono ht h.2 (sub?_prefix (commonPrefix_prefix_left q r) hq)⟩
  · right; left
    exact ⟨by rw [h.1], depthOf_mono ht h.2 (sub?_prefix (commonPrefix_prefix_left p r) hp)⟩
  · right; right
    exact ⟨by rw [h.1], depthOf_mono ht h.2 (sub?_prefix (commonPrefix_prefix_left p q) hp)⟩

/-- **Four-point condition for the path metric of a tree** with non-negative branch lengths. -/
theorem treeDist_fourPoint {t : T Rat} (ht : t.NonNeg) (a b c e : List Nat)
    (ha : (t.sub? a).isSome) (hb : (t.sub? b).isSome) (hc : (t.sub? c).isSome) (he : (t.sub? e).isSome) :
    treeDist t a b + treeDist t c e ≤ treeDist t a c + treeDist t b e ∨
    treeDist t a b + treeDist t c e ≤ treeDist t a e + treeDist t b c := by
  have t1 := lam_three ht a b c ha hb
  have t2 := lam_three ht a b e ha hb
  have t3 := lam_three ht a c e ha hc
  have t4 := lam_three ht b c e hb hc
  have e1 : treeDist t a b = depthOf t a + depthOf t b - 2 * lam t a b := rfl
  have e2 : treeDist t c e = depthOf t c + depthOf t e - 2 * lam t c e := rfl
  have e3 : treeDist t a c = depthOf t a + depthOf t c - 2 * lam t a c := rfl
  have e4 : treeDist t b e = depthOf t b + depthOf t e - 2 * lam t b e := rfl
  have e5 : treeDist t a e = depthOf t a + depthOf t e - 2 * lam t a e := rfl
  have e6 : treeDist t b c = depthOf t b + depthOf t c - 2 * lam t b c := rfl
  rw [e1, e2, e3, e4, e5, e6]
  generalize lam t a b = lab at *
  generalize lam t a c = lac at *
  generalize lam t a e = lae at *
  generalize lam t b c = lbc at *
  generalize lam t b e = lbe at *
  generalize lam t c e = lce at *
  rcases t1 with h1 | h1 | h1 <;> rcases t2 with h2 | h2 | h2 <;> rcases t3 with h3 | h3 | h3 <;>
    rcases t4 with h4 | h4 | h4 <;>
    first
      | (left; linarith [h1.1, h1.2, h2.1, h2.2, h3.1, h3.2, h4.1, h4.2])
      | (right; linarith [h1.1, h1.2, h2.1, h2.2, h3.1, h3.2, h4.1, h4.2])


/-! ### the distance matrix of a tree, indexed by leaf index -/

/-- Path of the leaf carrying index `x` (`Tree._leaves[x]`; the root path if there is none). -/
def pathOf (t : T Rat) (x : Nat) : List Nat := (leafPath? t x).getD []

theorem pathOf_valid (t : T Rat) (x : Nat) : (t.sub? (pathOf t x)).isSome := by
  unfold pathOf leafPath?
  cases h : t.leafPaths.reverse.find? (fun e => decide (e.1 = x)) with
  | none => simp [T.sub?]
  | some e =>
    simp only [Option.map_some, Option.getD_some]
    have hm : e ∈ t.leafPaths := List.mem_reverse.mp (List.mem_of_find?_eq_some h)
    exact leafPaths_valid t e.2 (List.mem_map.mpr ⟨e, hm, rfl⟩)

/-- The leaf-to-leaf path-length matrix of a tree: entry `(x, y)` is `distance_to` between the leaves
with indices `x` and `y` (see `treeMetric_eq_distance`). -/
def treeMetric (t : T Rat) (x y : Nat) : Rat := treeDist t (pathOf t x) (pathOf t y)

theorem treeMetric_eq_distance (t : T Rat) (x y : Nat) :
    distanceTo t false (pathOf t x) (pathOf t y) = .ok (treeMetric t x y) :=
  distanceTo_eq_treeDist t _ _ (pathOf_valid t x) (pathOf_valid t y)

theorem commonPrefix_self : ∀ p : List Nat, commonPrefix p p = p
  | [] => rfl
  | x :: p => by simp [commonPrefix, commonPrefix_self p]

theorem treeMetric_symm (t : T Rat) (x y : Nat) : treeMetric t x y = treeMetric t y x := by
  unfold treeMetric treeDist; rw [commonPrefix_comm]; ring

theorem treeMetric_self (t : T Rat) (x : Nat) : treeMetric t x x = 0 := by
  unfold treeMetric treeDist; rw [commonPrefix_self]; ring

theorem treeMetric_fourPoint (t : T Rat) (ht : t.NonNeg) (n : Nat) :
    FourPoint n (NState.init n (treeMetric t)) := by
  intro a b c e _ _ _ _ _ _ _ _ _ _ _ _ _ _
  exact treeDist_fourPoint ht _ _ _ _ (pathOf_valid t a) (pathOf_valid t b) (pathOf_valid t c)
    (pathOf_valid t e)

/-- **Neighbour joining reproduces the path lengths of every tree** with non-negative branch lengths:
run on the leaf-to-leaf distance matrix of `t` (n ≥ 4 taxa) it returns a tree in which the a-th and
b-th leaf (indices `x`, `y`) are at `distance_to` exactly the `distance_to` of the leaves `x`, `y` of `t`. -/
theorem nj_tree_metric (t : T Rat) (ht : t.NonNeg) (n : Nat) (hn : 4 ≤ n) (t' : T Rat)
    (h : neighborJoining n (treeMetric t) = .ok t') (a b : Nat) (hab : a < b) (hb : b < t'.leaves.length) :
    ∃ (x y : Nat) (pa pb : List Nat), t'.leafPaths[a]? = some (x, pa) ∧ t'.leafPaths[b]? = some (y, pb) ∧
      distanceTo t' false pa pb = distanceTo t false (pathOf t x) (pathOf t y) := by
  obtain ⟨x, y, pa, pb, h1, h2, h3⟩ := intra_distance (treeMetric t) t'
    (nj_additive n (treeMetric t) (fun a b _ _ => treeMetric_symm t a b) (fun a _ => treeMetric_self t a)
      (treeMetric_fourPoint t ht n) hn t' h) a b hab hb
  exact ⟨x, y, pa, pb, h1, h2, by rw [h3, treeMetric_eq_distance]⟩

end BiotiteModel.C19

import BiotiteModel.Proofs.C03
import Mathlib.Tactic.Ring
/-! Helper lemmas for C03: `create_kmers` (rolling and spaced) = map fuse over windows. -/
namespace BiotiteModel.C03

/-- Specification: the contiguous windows of length `k ≥ 1` of a sequence, left to right. -/
def windows (k : Nat) : List Nat → List (List Nat)
  | [] => []
  | x :: xs => if k ≤ xs.length + 1 then (x :: xs).take k :: windows k xs else []

/-- `fuse` with the correct range test on natural codes and an explicit multiplier list. -/
def fuseN (n : Nat) (rs cs : List Nat) : Except Err Int :=
  if cs.any (fun c => decide (n ≤ c)) then .error .alphabetError else .ok (dotN rs cs : Int)

theorem fuseChecked_ofNat (n k : Nat) (cs : List Nat) (hl : cs.length = k) :
    fuseChecked n k (cs.map Int.ofNat) = fuseN n (radixMult n k) cs := by
  have hany : (cs.map Int.ofNat).any (fun c => decide (c < 0 ∨ c ≥ (n : Int))) = cs.any (fun c => decide (n ≤ c)) := by
    rw [List.any_map]
    congr 1
    funext c
    simp only [Function.comp, Int.ofNat_eq_natCast]
    have : ((c : Int) < 0 ∨ (c : Int) ≥ (n : Int)) ↔ n ≤ c := by omega
    simp [this]
  simp only [fuseChecked, List.length_map, hl, ne_eq, not_true_eq_false, if_false, hany, fuseN, dot_ofNat]

theorem fuseN_total (n : Nat) (rs cs : List Nat) :
    (∃ v, fuseN n rs cs = .ok v) ∨ fuseN n rs cs = .error .alphabetError := by
  unfold fuseN; split
  · exact .inr rfl
  · exact .inl ⟨_, rfl⟩

theorem fuseN_error_iff (n : Nat) (rs cs : List Nat) :
    fuseN n rs cs = .error .alphabetError ↔ ∃ c ∈ cs, n ≤ c := by
  unfold fuseN; split
  · rename_i h; simp only [List.any_eq_true, decide_eq_true_eq] at h; simpa using h
  · rename_i h; simp only [List.any_eq_true, decide_eq_true_eq] at h; simp [h]

theorem fuseN_ok_of_valid (n : Nat) (rs cs : List Nat) (h : ∀ c ∈ cs, c < n) :
    fuseN n rs cs = .ok (dotN rs cs : Int) := by
  have : cs.any (fun c => decide (n ≤ c)) = false := by
    simp only [List.any_eq_false, decide_eq_true_eq]; intro c hc; have := h c hc; omega
  simp [fuseN, this]

/-- `firstKmer` is `fuseN` on the first `|rs|` codes. -/
theorem firstKmer_eq (n : Nat) (rs cs : List Nat) (h : rs.length ≤ cs.length) :
    firstKmer n rs cs = fuseN n rs (cs.take rs.length) := by
  induction rs generalizing cs with
  | nil => simp [firstKmer, fuseN, dotN]
  | cons r rs ih =>
    cases cs with
    | nil => simp at h
    | cons c cs =>
      have h' : rs.length ≤ cs.length := by simpa using h
      simp only [firstKmer, ih cs h', List.length_cons, List.take_succ_cons]
      unfold fuseN
      by_cases hc : n ≤ c
      · simp [hc]
      · by_cases hany : (cs.take rs.length).any (fun c => decide (n ≤ c)) = true
        · simp [hc, hany]
        · simp [hc, hany, dotN]

/-! ### Horner identities for the multiplier list -/

theorem dotN_radix_cons (n m a : Nat) (w : List Nat) :
    dotN (radixMult n (m + 1)) (a :: w) = n ^ m * a + dotN (radixMult n m) w := by
  simp [radixMult, dotN]

theorem dotN_radix_snoc (n : Nat) (w : List Nat) (c : Nat) :
    dotN (radixMult n (w.length + 1)) (w ++ [c]) = dotN (radixMult n w.length) w * n + c := by
  induction w with
  | nil => simp [radixMult, dotN]
  | cons b w ih =>
    have h1 : dotN (radixMult n ((b :: w).length + 1)) ((b :: w) ++ [c]) =
        n ^ (w.length + 1) * b + dotN (radixMult n (w.length + 1)) (w ++ [c]) := by
      simp [radixMult, dotN]
    have h2 : dotN (radixMult n (b :: w).length) (b :: w) = n ^ w.length * b + dotN (radixMult n w.length) w := by
      simp [radixMult, dotN]
    rw [h1, h2, ih]; ring

/-- The rolling update: remove the first symbol, shift, add the new one. -/
theorem roll_step (n : Nat) (a : Nat) (w : List Nat) (c : Nat) :
    (((dotN (radixMult n (w.length + 1)) (a :: w) : Nat) : Int) - (a : Int) * ((n ^ w.length : Nat) : Int)) * (n : Int) + (c : Int)
      = ((dotN (radixMult n (w.length + 1)) (w ++ [c]) : Nat) : Int) := by
  rw [dotN_radix_cons, dotN_radix_snoc]
  push_cast; ring

/-! ### sliding windows -/

/-- The windows produced after `w` when the symbols of `rest` are appended one at a time. -/
def slide : List Nat → List Nat → List (List Nat)
  | _, [] => []
  | w, c :: rest => (w.tail ++ [c]) :: slide (w.tail ++ [c]) rest

theorem windows_short (k : Nat) (l : List Nat) (h : l.length < k) : windows k l = [] := by
  cases l with
  | nil => rfl
  | cons x xs =>
    have : ¬ k ≤ xs.length + 1 := by simp at h; omega
    simp [windows, this]

theorem windows_eq_slide (k : Nat) (w rest : List Nat) (hw : w.length = k) (hk : 1 ≤ k) :
    windows k (w ++ rest) = w :: slide w rest := by
  induction rest generalizing w with
  | nil =>
    cases w with
    | nil => simp at hw; omega
    | cons a w' =>
      have hle : k ≤ w'.length + 1 := by simp at hw; omega
      have hshort : windows k w' = [] := windows_short k w' (by simp at hw; omega)
      have htake : (a :: w').take k = a :: w' := by
        apply List.take_of_length_le; simp at hw ⊢; omega
      simp [windows, hle, hshort, htake, slide]
  | cons c rest ih =>
    cases w with
    | nil => simp at hw; omega
    | cons a w' =>
      have hlen' : (w' ++ [c]).length = k := by simp at hw ⊢; omega
      have hle : k ≤ (w' ++ c :: rest).length + 1 := by simp at hw ⊢; omega
      have htake : (a :: (w' ++ c :: rest)).take k = a :: w' := by
        have : (a :: (w' ++ c :: rest)) = (a :: w') ++ (c :: rest) := by simp
        rw [this, List.take_left' hw]
      have hre : w' ++ c :: rest = (w' ++ [c]) ++ rest := by simp
      show windows k (a :: (w' ++ c :: rest)) = _
      simp only [windows, hle, if_true, htake]
      rw [hre, ih (w' ++ [c]) hlen']
      simp [slide]

/-- The recursive `windows` is the usual index form: window `i` is `seq[i : i+k]`. -/
theorem windows_eq_range (k : Nat) (hk : 1 ≤ k) (l : List Nat) :
    windows k l = (List.range (l.length + 1 - k)).map fun i => (l.drop i).take k := by
  induction l with
  | nil =>
    have : 0 + 1 - k = 0 := by omega
    simp [windows, this]
  | cons x xs ih =>
    by_cases hle : k ≤ xs.length + 1
    · have : (x :: xs).length + 1 - k = (xs.length + 1 - k) + 1 := by simp; omega
      rw [this, List.range_succ_eq_map]
      simp [windows, hle, ih, Function.comp_def]
    · simp [windows, hle]; omega

theorem slide_length (w rest : List Nat) (hw : 1 ≤ w.length) : ∀ x ∈ slide w rest, x.length = w.length := by
  induction rest generalizing w with
  | nil => simp [slide]
  | cons c rest ih =>
    intro x hx
    have hl : (w.tail ++ [c]).length = w.length := by simp; omega
    simp only [slide, List.mem_cons] at hx
    rcases hx with rfl | hx
    · exact hl
    · rw [← hl]; exact ih (w.tail ++ [c]) (by omega) x hx

theorem slide_covers (w rest : List Nat) (c : Nat) (hc : c ∈ rest) : ∃ x ∈ slide w rest, c ∈ x := by
  induction rest generalizing w with
  | nil => simp at hc
  | cons d rest ih =>
    rcases List.mem_cons.mp hc with rfl | hc
    · exact ⟨w.tail ++ [c], by simp [slide], by simp⟩
    · obtain ⟨x, hx, hcx⟩ := ih (w.tail ++ [d]) hc
      exact ⟨x, by simp [slide, hx], hcx⟩

theorem slide_subset (w rest : List Nat) : ∀ x ∈ slide w rest, ∀ c ∈ x, c ∈ w ++ rest := by
  induction rest generalizing w with
  | nil => simp [slide]
  | cons d rest ih =>
    intro x hx c hc
    simp only [slide, List.mem_cons] at hx
    have htail : ∀ y ∈ w.tail ++ [d], y ∈ w ++ d :: rest := by
      intro y hy
      rcases List.mem_append.mp hy with h | h
      · exact List.mem_append_left _ (List.mem_of_mem_tail h)
      · simp at h; subst h; simp
    rcases hx with rfl | hx
    · exact htail c hc
    · have := ih (w.tail ++ [d]) x hx c hc
      rcases List.mem_append.mp this with h | h
      · exact htail c h
      · simp [h]

/-! ### the rolling loop -/

theorem rollLoop_error (n endR : Nat) (prev : Int) (olds rest : List Nat) (hlen : rest.length ≤ olds.length)
    (hbad : ∃ c ∈ rest, n ≤ c) : rollLoop n endR prev olds rest = .error .alphabetError := by
  induction rest generalizing prev olds with
  | nil => simp at hbad
  | cons c rest ih =>
    cases olds with
    | nil => simp at hlen
    | cons o olds =>
      simp only [rollLoop]
      by_cases hc : c ≥ n
      · simp [hc]
      · have hbad' : ∃ d ∈ rest, n ≤ d := by
          obtain ⟨d, hd, hnd⟩ := hbad
          rcases List.mem_cons.mp hd with rfl | hd
          · omega
          · exact ⟨d, hd, hnd⟩
        simp only [hc, if_false]
        rw [ih _ olds (by simpa using hlen) hbad']

theorem rollLoop_ok (n : Nat) (w rest : List Nat) (hk : 1 ≤ w.length) (hv : ∀ c ∈ rest, c < n) :
    rollLoop n (n ^ (w.length - 1)) ((dotN (radixMult n w.length) w : Nat) : Int) (w ++ rest) rest
      = .ok ((slide w rest).map fun x => ((dotN (radixMult n w.length) x : Nat) : Int)) := by
  induction rest generalizing w with
  | nil => simp [rollLoop, slide]
  | cons c rest ih =>
    cases w with
    | nil => simp at hk
    | cons a w' =>
      have hc : ¬ c ≥ n := by have := hv c (by simp); omega
      have hstep := roll_step n a w' c
      have hlen : (w' ++ [c]).length = (a :: w').length := by simp
      have hih := ih (w' ++ [c]) (by simp) (fun d hd => hv d (by simp [hd]))
      rw [hlen] at hih
      have hre : w' ++ c :: rest = (w' ++ [c]) ++ rest := by simp
      simp only [List.cons_append, rollLoop, hc, if_false, List.length_cons, Nat.add_sub_cancel]
      rw [hstep, hre]
      simp only [List.length_cons, Nat.add_sub_cancel] at hih
      rw [hih]
      simp [slide]

/-- `_create_continuous_kmers` = map (correctly guarded) fuse over the contiguous windows. -/
theorem kmersContinuous_spec (n k : Nat) (hk : 1 ≤ k) (seq : List Nat) :
    kmersContinuous n k seq =
      if seq.length < k then .error .valueError
      else mapE (fun w => fuseChecked n k (w.map Int.ofNat)) (windows k seq) := by
  unfold kmersContinuous
  by_cases hlen : seq.length < k
  · simp [hlen]
  · simp only [hlen, if_false]
    have hw : (seq.take k).length = k := by simp; omega
    have hseq : seq = seq.take k ++ seq.drop k := (List.take_append_drop k seq).symm
    generalize hwd : seq.take k = w at hw hseq
    generalize hrd : seq.drop k = rest at hseq
    have hfirst : firstKmer n (radixMult n k) seq = fuseN n (radixMult n k) w := by
      rw [firstKmer_eq n _ seq (by rw [radixMult_length]; omega), radixMult_length, hwd]
    rw [hfirst]
    have hwin : windows k seq = w :: slide w rest := by
      rw [hseq]; exact windows_eq_slide k w rest hw hk
    rw [hwin]
    -- on windows (all of length k) fuseChecked is fuseN
    have hF : ∀ x ∈ w :: slide w rest,
        (fun w => fuseChecked n k (w.map Int.ofNat)) x = fuseN n (radixMult n k) x := by
      intro x hx
      have hxl : x.length = k := by
        rcases List.mem_cons.mp hx with rfl | hx
        · exact hw
        · rw [← hw]; exact slide_length w rest (by omega) x hx
      exact fuseChecked_ofNat n k x hxl
    rw [mapE_congr _ _ _ hF]
    have hrl : rest.length ≤ seq.length := by rw [hseq]; simp
    by_cases hbw : ∃ c ∈ w, n ≤ c
    · have he := (fuseN_error_iff n (radixMult n k) w).mpr hbw
      simp [mapE, he]
    · have hvw : ∀ c ∈ w, c < n := fun c hc => by
        have : ¬ n ≤ c := fun h => hbw ⟨c, hc, h⟩
        omega
      have hok := fuseN_ok_of_valid n (radixMult n k) w hvw
      by_cases hbr : ∃ c ∈ rest, n ≤ c
      · have hroll := rollLoop_error n (n ^ (k - 1)) ((dotN (radixMult n k) w : Nat) : Int) seq rest hrl hbr
        have hrhs : mapE (fuseN n (radixMult n k)) (slide w rest) = .error .alphabetError := by
          rw [mapE_error_iff _ _ _ fun x _ => fuseN_total n _ x]
          obtain ⟨c, hc, hnc⟩ := hbr
          obtain ⟨x, hx, hcx⟩ := slide_covers w rest c hc
          exact ⟨x, hx, (fuseN_error_iff n _ x).mpr ⟨c, hcx, hnc⟩⟩
        simp [mapE, hok, hroll, hrhs]
      · have hvr : ∀ c ∈ rest, c < n := fun c hc => by
          have : ¬ n ≤ c := fun h => hbr ⟨c, hc, h⟩
          omega
        have hroll := rollLoop_ok n w rest (by omega) hvr
        rw [hw, ← hseq] at hroll
        have hrhs : mapE (fuseN n (radixMult n k)) (slide w rest) =
            .ok ((slide w rest).map fun x => ((dotN (radixMult n k) x : Nat) : Int)) := by
          apply mapE_ok_of_forall
          intro x hx
          apply fuseN_ok_of_valid
          intro c hc
          -- every symbol of a later window comes from `w` or `rest`
          have : c ∈ w ++ rest := slide_subset w rest x hx c hc
          rcases List.mem_append.mp this with h | h
          · exact hvw c h
          · exact hvr c h
        simp [mapE, hok, hroll, hrhs]

/-! ### spaced k-mers -/

/-- Specification: the symbols a spaced k-mer at position `i` reads. -/
def spacedWindow (seq spacing : List Nat) (i : Nat) : List Nat := spacing.filterMap fun o => seq[i + o]?

theorem spacedWindow_length (seq spacing : List Nat) (i : Nat) (h : ∀ o ∈ spacing, i + o < seq.length) :
    (spacedWindow seq spacing i).length = spacing.length := by
  unfold spacedWindow
  induction spacing with
  | nil => rfl
  | cons o os ih =>
    have ho : i + o < seq.length := h o (by simp)
    have : seq[i + o]? = some seq[i + o] := by simp [ho]
    simp [List.filterMap_cons, this, ih fun x hx => h x (by simp [hx])]

theorem spacedAt_eq (n : Nat) (seq : List Nat) (i : Nat) (rs os : List Nat) (hl : rs.length = os.length)
    (h : ∀ o ∈ os, i + o < seq.length) :
    spacedAt n seq i rs os = fuseN n rs (spacedWindow seq os i) := by
  unfold spacedWindow
  induction os generalizing rs with
  | nil => cases rs <;> simp [spacedAt, fuseN, dotN]
  | cons o os ih =>
    cases rs with
    | nil => simp at hl
    | cons r rs =>
      have ho : i + o < seq.length := h o (by simp)
      have hget : seq[i + o]? = some seq[i + o] := by simp [ho]
      have hih := ih rs (by simpa using hl) fun x hx => h x (by simp [hx])
      simp only [spacedAt, hget, List.filterMap_cons, hih]
      unfold fuseN
      by_cases hc : n ≤ seq[i + o]
      · simp [hc]
      · by_cases hany : (os.filterMap fun o => seq[i + o]?).any (fun c => decide (n ≤ c)) = true
        · simp [hc, hany]
        · simp [hc, hany, dotN]

/-- `_create_spaced_kmers` = map (correctly guarded) fuse over the spaced windows. -/
theorem kmersSpaced_spec (n k : Nat) (spacing : List Nat) (hl : spacing.length = k) (last : Nat)
    (hlast : spacing.getLast? = some last) (hmax : ∀ o ∈ spacing, o ≤ last) (seq : List Nat) :
    kmersSpaced n k spacing seq =
      if seq.length < last + 1 then .error .valueError
      else mapE (fun i => fuseChecked n k ((spacedWindow seq spacing i).map Int.ofNat))
        (List.range (seq.length - last)) := by
  unfold kmersSpaced
  simp only [hlast]
  by_cases hlen : seq.length < last + 1
  · simp [hlen]
  · simp only [hlen, if_false]
    have hr : seq.length - (last + 1) + 1 = seq.length - last := by omega
    rw [hr]
    apply mapE_congr
    intro i hi
    have hi' : i < seq.length - last := List.mem_range.mp hi
    have hb : ∀ o ∈ spacing, i + o < seq.length := fun o ho => by have := hmax o ho; omega
    rw [spacedAt_eq n seq i _ spacing (by rw [radixMult_length, hl]) hb]
    exact (fuseChecked_ofNat n k _ (by rw [spacedWindow_length seq spacing i hb, hl])).symm

/-! ### the constructor delivers sorted offsets -/

theorem mem_insertSorted (x y : Int) (l : List Int) : y ∈ insertSorted x l ↔ y = x ∨ y ∈ l := by
  induction l with
  | nil => simp [insertSorted]
  | cons z zs ih =>
    simp only [insertSorted]
    split
    · simp
    · simp only [List.mem_cons, ih]
      constructor
      · rintro (h | h | h) <;> simp [h]
      · rintro (h | h | h) <;> simp [h]

theorem insertSorted_sorted (x : Int) (l : List Int) (h : l.Pairwise (· ≤ ·)) :
    (insertSorted x l).Pairwise (· ≤ ·) := by
  induction l with
  | nil => simp [insertSorted]
  | cons z zs ih =>
    obtain ⟨hz, hzs⟩ := List.pairwise_cons.mp h
    simp only [insertSorted]
    split
    · rename_i hxz
      refine List.pairwise_cons.mpr ⟨?_, h⟩
      intro y hy
      rcases List.mem_cons.mp hy with rfl | hy
      · exact hxz
      · exact Int.le_trans hxz (hz y hy)
    · rename_i hxz
      refine List.pairwise_cons.mpr ⟨?_, ih hzs⟩
      intro y hy
      rcases (mem_insertSorted x y zs).mp hy with rfl | hy
      · omega
      · exact hz y hy

theorem sortInts_sorted (xs : List Int) : (sortInts xs).Pairwise (· ≤ ·) := by
  induction xs with
  | nil => simp [sortInts]
  | cons x xs ih => exact insertSorted_sorted x _ ih

theorem go_sorted (cs : List Char) (i : Nat) :
    (spacingOfString.go cs i).Pairwise (· ≤ ·) ∧ ∀ o ∈ spacingOfString.go cs i, (i : Int) ≤ o := by
  induction cs generalizing i with
  | nil => simp [spacingOfString.go]
  | cons c cs ih =>
    obtain ⟨h1, h2⟩ := ih (i + 1)
    simp only [spacingOfString.go]
    split
    · refine ⟨List.pairwise_cons.mpr ⟨fun o ho => by have := h2 o ho; omega, h1⟩, ?_⟩
      intro o ho
      rcases List.mem_cons.mp ho with rfl | ho
      · omega
      · have := h2 o ho; omega
    · exact ⟨h1, fun o ho => by have := h2 o ho; omega⟩

theorem sorted_getLast_max (l : List Nat) (h : l.Pairwise (· ≤ ·)) (last : Nat) (hl : l.getLast? = some last) :
    ∀ o ∈ l, o ≤ last := by
  induction l with
  | nil => simp
  | cons x xs ih =>
    obtain ⟨hx, hxs⟩ := List.pairwise_cons.mp h
    cases xs with
    | nil => simp at hl; subst hl; simp
    | cons y ys =>
      have hl' : (y :: ys).getLast? = some last := by simpa [List.getLast?_cons_cons] using hl
      intro o ho
      rcases List.mem_cons.mp ho with rfl | ho
      · have hm : last ∈ y :: ys := List.mem_of_getLast? hl'
        exact hx last hm
      · exact ih hxs hl' o ho

/-- `KmerAlphabet.__init__` hands sorted offsets to `create_kmers`: exactly `k` of them, and the
last one is the largest (the hypotheses of `kmersSpaced_spec`). -/
theorem kmerNew_spacing (k : Nat) (sp : SpacingArg) (spacing : List Nat)
    (h : kmerNew k sp = .ok (some spacing)) :
    spacing.length = k ∧ ∃ last, spacing.getLast? = some last ∧ ∀ o ∈ spacing, o ≤ last := by
  have key : ∀ a : List Int, a.Pairwise (· ≤ ·) → a.length = k → 2 ≤ k →
      (a.map Int.toNat).length = k ∧ ∃ last, (a.map Int.toNat).getLast? = some last ∧
        ∀ o ∈ a.map Int.toNat, o ≤ last := by
    intro a hs hl hk
    have hsn : (a.map Int.toNat).Pairwise (· ≤ ·) :=
      List.Pairwise.map _ (fun x y hxy => Int.toNat_le_toNat hxy) hs
    refine ⟨by simp [hl], ?_⟩
    cases hg : (a.map Int.toNat).getLast? with
    | none =>
      have : a.map Int.toNat = [] := List.getLast?_eq_none_iff.mp hg
      simp at this; subst this; simp at hl; omega
    | some last => exact ⟨last, rfl, sorted_getLast_max _ hsn last hg⟩
  unfold kmerNew at h
  split at h
  · simp at h
  · rename_i hk
    have hk2 : 2 ≤ k := by omega
    cases sp with
    | none => simp at h
    | str s =>
      simp only at h
      split at h
      · simp at h
      · rename_i hl
        simp only [Except.ok.injEq, Option.some.injEq] at h; subst h
        exact key _ (go_sorted s 0).1 (by simpa using hl) hk2
    | ints xs =>
      simp only at h
      split at h
      · simp at h
      · split at h
        · simp at h
        · split at h
          · simp at h
          · rename_i hl
            simp only [Except.ok.injEq, Option.some.injEq] at h; subst h
            exact key _ (sortInts_sorted xs) (by simpa using hl) hk2

end BiotiteModel.C03
